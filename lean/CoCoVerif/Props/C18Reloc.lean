/-
Props/C18Reloc.lean — C18-R1 (relocation), statement level.

`ss` is the statement list that enters `assignAddrs` (after `pcrLoop`); `ss'` is `ss` with every preset
(ORG) address `.numeric o (some 4) m false` replaced by `.numeric (o + D) (some 4) m false`
(`PW (RelocIn D) ss ss'`; `SingleOrgFirst` / `relocate` is the special case of one ORG at the top).

(a) `reloc_assign_*`   : `assignAddrs`; every address moves by `D`, the address VALUES keep hint and mode.
(b) `reloc_fixOne_*`   : `fixOne` by class: `Unmoved` (branches, PCR, no label, `label - label`) IDENTICAL;
                         `Moved` (`label`, `label ± k` in a 16-bit field) the operand field moves by `D`.
    `reloc_fixFit_*`   : the same for the whole per-statement step `fixFit` = `fixOne` then `fitWidth`
                         (`fix_addresses; fit_operand_width`).
(c) `reloc_bytes_*`    : the emitted bytes (of the statement after `fixFit`): identical, resp. the trailing
                         16-bit field moves by `D`.
(d) `reloc_finish`     : `fixAll`, final symbol table, origin and name for a program all of whose statements
                         are in one of the two classes: same outcome kind, labels move by `D`, EQU unchanged.
                         Model batch 4 (`evalSyms`: an EQU defined by an expression is listed with its VALUE): "EQU
                         unchanged" needs the hypothesis `NoLabelEqu t` (no EQU is defined by a label expression);
                         `reloc_finish_equ` is the finer statement without it: an EQU defined by a label expression
                         moves like a statement operand with that expression (`EquRel`, Lemmas/RelocEqu.lean).
                         `orgOK_relocIn` (model batch 5): the ORG check before `assignAddrs` is invariant.
(e) `*_label_plus`, `*_label_minus` (repair batch B2): `label + N`, `label - N` with a SIGNED constant `N` (a
                         negative EQU counts negatively): membership in the classes in arithmetic terms, the stored
                         values in closed form, and what happens outside the classes (the 16-bit field moves by `D`
                         modulo `$10000`).
(f) `*_movedMod`, `reloc_fixAll_mod`, `reloc_finish_mod`: the third class `MovedMod` (`label ± N` that both layouts
                         accept; the field moves by `D` modulo `$10000`), whole program with three classes.
(g) `moved_abs_*`, `reloc_*_movedAbs`, `reloc_*_movedModAbs` (repair batch B3): a label or `label ± N` as CONSTANT OFFSET
                         of a pointer register (`LDA TABLE,X`, `LDB TBL+1,Y`, `LDD [TBL,U]`): sub-classes `MovedAbs` of
                         `Moved` and `MovedModAbs` of `MovedMod`; the 16-bit offset field is the label's address.
(h) `*_movedNeg`, `reloc_fixAll_neg`, `reloc_finish_neg` (repair batch B3): the fourth class `MovedNeg` (`number - label`;
                         the field moves by MINUS `D` modulo `$10000`), whole program with four classes.
(j) model batch 8 (`fixAllL` = `fixAll`, then the FCB / FDB lists are evaluated: `FDB L1,SYM+1`): `reloc_fixAllL*`, and the new
                         hypothesis `hlist` of `reloc_finish*`: every list statement is `ListsConst t` — no element of the
                         list resolves to a label or a label expression (Lemmas/RelocList.lean).  A list with a label
                         element is in no class (no claim).
(i) `*_any` (end of the file): the same theorems for programs at ANY origin, moves across `$100` included — the lower
                         bound `256 ≤ o` of `OrgBounds` is gone (`OrgBoundsAny`), the relation between the two layouts is
                         int-level (`AddrShiftAny` / `IntAddr`, Lemmas/RelocAny.lean); operand fields and bytes are
                         related exactly as before, address values, label values and the origin at int level.
-/
import CoCoVerif.Lemmas.RelocAll
import CoCoVerif.Lemmas.RelocSigned
import CoCoVerif.Lemmas.RelocMod
import CoCoVerif.Lemmas.RelocNeg
import CoCoVerif.Lemmas.RelocEqu
import CoCoVerif.Lemmas.RelocAny
import CoCoVerif.Lemmas.RelocList
import CoCoVerif.Props.C18

namespace CoCo.Props
open CoCo CoCo.Asm

/-! ## the relations -/

/-- statement `s'` is statement `s` with its preset (ORG) address, if any, moved by `D` -/
def RelocIn (D : Nat) (s s' : Stmt) : Prop :=
  (s.pkg.address = .none ∧ s' = s) ∨
  (∃ o m, s.pkg.address = .numeric o (some 4) m false ∧ s' = s.setAddress (.numeric (o + D) (some 4) m false))

/-- the first statement carries a preset address (the program starts with an ORG) -/
def StartsWithOrg (ss : List Stmt) : Prop :=
  ∃ s0 r0 o m, ss = s0 :: r0 ∧ s0.pkg.address = .numeric o (some 4) m false

/-- every preset address is at least `$100` and stays inside the 64K space when moved -/
def OrgBounds (D : Nat) (ss : List Stmt) : Prop :=
  ∀ s ∈ ss, ∀ o h m n, s.pkg.address = .numeric o h m n → 256 ≤ o ∧ o + D < 65536

/-- after `assignAddrs`: equal except for the address; the address values are two-byte values `a`, `a + D`
with the same hint and mode -/
def RelocOut (D : Nat) (s s' : Stmt) : Prop :=
  s' = s.setAddress s'.pkg.address ∧ AddrShift D s s'

/-- after `fixAll`: equal except for the address and — for moved statements — the operand field -/
def FinalRel (D : Nat) (t t' : Stmt) : Prop :=
  (t' = t.setAddress t'.pkg.address ∨ t' = (t.shiftAdditional D).setAddress t'.pkg.address) ∧ AddrShift D t t'

theorem RelocIn.orgShift {D : Nat} {s s' : Stmt} (h : RelocIn D s s') : OrgShift D s s' := by
  rcases h with ⟨h1, rfl⟩ | ⟨o, m, h1, rfl⟩
  · exact ⟨rfl, .inl ⟨h1, h1⟩⟩
  · exact ⟨rfl, .inr ⟨o, some 4, m, false, h1, rfl⟩⟩

theorem RelocIn.orgWide {D : Nat} {s s' : Stmt} (h : RelocIn D s s') : OrgWide s := by
  rcases h with ⟨h1, _⟩ | ⟨o, m, h1, _⟩
  · exact .inl h1
  · exact .inr ⟨o, m, h1⟩

theorem relocIn_orgWide {D : Nat} {ss ss' : List Stmt} (h : PW (RelocIn D) ss ss') : ∀ s ∈ ss, OrgWide s := by
  intro s hs
  obtain ⟨j, hj⟩ := List.getElem?_of_mem hs
  obtain ⟨s', _, hr⟩ := h.get hj
  exact hr.orgWide

theorem relocIn_head {D : Nat} {s0 : Stmt} {r0 ss' : List Stmt} {o : Nat} {m : Mode}
    (h : PW (RelocIn D) (s0 :: r0) ss') (h0 : s0.pkg.address = .numeric o (some 4) m false) :
    ∃ s0' r0', ss' = s0' :: r0' ∧ s0'.pkg.address = .numeric (o + D) (some 4) m false := by
  obtain ⟨s0', r0', rfl, hr, _⟩ := h.cons_left
  refine ⟨s0', r0', rfl, ?_⟩
  rcases hr with ⟨h1, _⟩ | ⟨o1, m1, h1, rfl⟩
  · rw [h0] at h1; cases h1
  · rw [h0] at h1; cases h1; rfl

/-- (model batch 5) the check "an ORG comes before the first label and the first byte", made on the statements that enter
`assignAddrs`, gives the same answer on the relocated program: it looks at rows, labels and sizes only -/
theorem orgOK_relocIn {D : Nat} : ∀ (ss ss' : List Stmt) (laid : Bool), PW (RelocIn D) ss ss' →
    orgOK ss' laid = orgOK ss laid := by
  intro ss
  induction ss with
  | nil => intro ss' laid h; rw [h.nil_left]
  | cons s rest ih =>
    intro ss' laid h
    obtain ⟨s', rest', rfl, hr, hrest⟩ := h.cons_left
    rw [orgOK, orgOK, ih rest' _ hrest]
    rcases hr with ⟨_, rfl⟩ | ⟨o, m, _, rfl⟩ <;> rfl

/-! ## (a) address assignment -/

section assign
variable {D : Nat} {ss ss' : List Stmt}

/-- the relocated program is laid out ⇒ so is the original one, and every address differs by `D` -/
theorem reloc_assign_bwd (hin : PW (RelocIn D) ss ss') (h0 : StartsWithOrg ss) {as' : List Stmt}
    (h' : assignAddrs ss' 0 = .ok as') : ∃ as, assignAddrs ss 0 = .ok as ∧ PW (AddrShiftI D) as as' := by
  obtain ⟨s0, r0, o, m, rfl, ha⟩ := h0
  obtain ⟨s0', r0', rfl, ha'⟩ := relocIn_head hin ha
  rw [assignAddrs_head_preset ha' 0 (0 + D)] at h'
  exact assignAddrs_reloc_bwd D _ _ 0 as' (hin.mono (fun _ _ => RelocIn.orgShift)) h'

/-- the original program is laid out and no address leaves the 64K space when moved ⇒ the relocated
program is laid out, and every address differs by `D` -/
theorem reloc_assign_fwd (hin : PW (RelocIn D) ss ss') (h0 : StartsWithOrg ss) {as : List Stmt}
    (h : assignAddrs ss 0 = .ok as) (hlt : ∀ s ∈ as, ∀ n, addrNat s = some n → n + D < 65536) :
    ∃ as', assignAddrs ss' 0 = .ok as' ∧ PW (AddrShiftI D) as as' := by
  obtain ⟨s0, r0, o, m, rfl, ha⟩ := h0
  obtain ⟨s0', r0', rfl, ha'⟩ := relocIn_head hin ha
  rw [assignAddrs_head_preset ha' 0 (0 + D)]
  exact assignAddrs_reloc_fwd D _ _ 0 as (hin.mono (fun _ _ => RelocIn.orgShift)) h hlt

/-- both laid out, ORGs at `$100` or above: statement by statement, equal except for the address, and the
address values are two-byte values of the same rendering class, `D` apart -/
theorem reloc_assign_rel (hin : PW (RelocIn D) ss ss') (h0 : StartsWithOrg ss) (hb : OrgBounds D ss)
    {as as' : List Stmt} (h : assignAddrs ss 0 = .ok as) (h' : assignAddrs ss' 0 = .ok as') :
    PW (RelocOut D) as as' := by
  have hw : PW (AddrShift D) as as' := by
    obtain ⟨s0, r0, o, m, rfl, ha⟩ := h0
    obtain ⟨s0', r0', rfl, ha'⟩ := relocIn_head hin ha
    have h'' := h'
    rw [assignAddrs_head_preset ha' 0 (0 + D)] at h''
    exact assignAddrs_reloc_wide D _ _ 0 as as' (hin.mono (fun _ _ => RelocIn.orgShift)) (relocIn_orgWide hin)
      (.inr ⟨s0, r0, o, some 4, m, false, rfl, ha⟩) hb h h''
  have h1 := assignAddrs_pw h
  have h2 := assignAddrs_pw h'
  refine ⟨hw.1, ?_⟩
  intro j s s' hs hs'
  refine ⟨?_, hw.2 j s s' hs hs'⟩
  obtain ⟨x, hx, v, rfl⟩ := h1.get' hs
  obtain ⟨x', hx', v', rfl⟩ := h2.get' hs'
  rcases hin.2 j x x' hx hx' with ⟨_, rfl⟩ | ⟨o, m, _, rfl⟩ <;> rfl

/-- acceptance: the relocated program is laid out iff the original one is and no statement address
leaves the 64K space -/
theorem reloc_assign_iff (hin : PW (RelocIn D) ss ss') (h0 : StartsWithOrg ss) (hb : OrgBounds D ss) :
    (∃ as', assignAddrs ss' 0 = .ok as') ↔
      ∃ as, assignAddrs ss 0 = .ok as ∧ ∀ s ∈ as, ∀ n, addrNat s = some n → n + D < 65536 := by
  constructor
  · rintro ⟨as', h'⟩
    obtain ⟨as, h, _⟩ := reloc_assign_bwd hin h0 h'
    refine ⟨as, h, ?_⟩
    intro s hs n hn
    have hout := reloc_assign_rel hin h0 hb h h'
    obtain ⟨j, hj⟩ := List.getElem?_of_mem hs
    obtain ⟨s', _, _, _, a, hh, m, e1, _, _, hlt⟩ := hout.get hj
    simp only [addrNat, e1, Value.int?, Option.some.injEq] at hn
    omega
  · rintro ⟨as, h, hlt⟩
    obtain ⟨as', h', _⟩ := reloc_assign_fwd hin h0 h hlt
    exact ⟨as', h'⟩

end assign

/-! ## (b) `fixOne`, (c) bytes -/

section fix
variable {D : Nat} {as as' : List Stmt}

theorem RelocOut.addrShift (h : PW (RelocOut D) as as') : PW (AddrShift D) as as' := h.mono (fun _ _ r => r.2)
theorem RelocOut.addrShiftI (h : PW (RelocOut D) as as') : PW (AddrShiftI D) as as' :=
  h.mono (fun _ _ r => r.2.toI)

theorem outcome_map_map {α β γ : Type} (f : α → β) (g : β → γ) (o : Outcome α) :
    (o.map f).map g = o.map (fun x => g (f x)) := by cases o <;> rfl

/-- (b, unmoved), general form: `s'` is `s` with another address -/
theorem reloc_fixOne_unmoved' (h : PW (AddrShiftI D) as as') {i : Nat} {s s' : Stmt}
    (he : s' = s.setAddress s'.pkg.address) (hc : Unmoved D as s) :
    fixOne as' i s' = (fixOne as i s).map (·.setAddress s'.pkg.address) := by
  have : fixOne as' i s' = fixOne as' i (s.setAddress s'.pkg.address) := by rw [← he]
  rw [this, fixOne_setAddress, fixOne_unmoved h i hc]

/-- (b, moved), general form -/
theorem reloc_fixOne_moved' (h : PW (AddrShift D) as as') {i : Nat} {s s' : Stmt}
    (he : s' = s.setAddress s'.pkg.address) (hc : Moved D as s) :
    fixOne as' i s' = (fixOne as i s).map (fun t => (t.shiftAdditional D).setAddress s'.pkg.address) := by
  have : fixOne as' i s' = fixOne as' i (s.setAddress s'.pkg.address) := by rw [← he]
  rw [this, fixOne_setAddress, fixOne_moved h i hc, outcome_map_map]

/-- (b, unmoved) branches, PCR operands, operands without a label, `label - label`: the outcome of
`fix_addresses` is IDENTICAL (up to the statement's own address field) -/
theorem reloc_fixOne_unmoved (h : PW (RelocOut D) as as') {i : Nat} {s s' : Stmt}
    (hs : as[i]? = some s) (hs' : as'[i]? = some s') (hc : Unmoved D as s) :
    fixOne as' i s' = (fixOne as i s).map (·.setAddress s'.pkg.address) :=
  reloc_fixOne_unmoved' (RelocOut.addrShiftI h) (h.2 i s s' hs hs').1 hc

/-- (b, moved) `label`, `label + k`, `label - k`: the same outcome, the stored operand value moved by `D` -/
theorem reloc_fixOne_moved (h : PW (RelocOut D) as as') {i : Nat} {s s' : Stmt}
    (hs : as[i]? = some s) (hs' : as'[i]? = some s') (hc : Moved D as s) :
    fixOne as' i s' = (fixOne as i s).map (fun t => (t.shiftAdditional D).setAddress s'.pkg.address) :=
  reloc_fixOne_moved' (RelocOut.addrShift h) (h.2 i s s' hs hs').1 hc

/-- (b, unmoved), `fix_addresses; fit_operand_width`, general form -/
theorem reloc_fixFit_unmoved' (h : PW (AddrShiftI D) as as') {i : Nat} {s s' : Stmt}
    (he : s' = s.setAddress s'.pkg.address) (hc : Unmoved D as s) :
    fixFit as' i s' = (fixFit as i s).map (·.setAddress s'.pkg.address) := by
  have : fixFit as' i s' = fixFit as' i (s.setAddress s'.pkg.address) := by rw [← he]
  rw [this, fixFit_setAddress, fixFit_unmoved h i hc]

/-- (b, moved), `fix_addresses; fit_operand_width`, general form -/
theorem reloc_fixFit_moved' (h : PW (AddrShift D) as as') {i : Nat} {s s' : Stmt}
    (he : s' = s.setAddress s'.pkg.address) (hc : Moved D as s) :
    fixFit as' i s' = (fixFit as i s).map (fun t => (t.shiftAdditional D).setAddress s'.pkg.address) := by
  have : fixFit as' i s' = fixFit as' i (s.setAddress s'.pkg.address) := by rw [← he]
  rw [this, fixFit_setAddress, fixFit_moved h i hc, outcome_map_map]

/-- (b, unmoved) the outcome of `fix_addresses; fit_operand_width` is IDENTICAL (up to the statement's own
address field) -/
theorem reloc_fixFit_unmoved (h : PW (RelocOut D) as as') {i : Nat} {s s' : Stmt}
    (hs : as[i]? = some s) (hs' : as'[i]? = some s') (hc : Unmoved D as s) :
    fixFit as' i s' = (fixFit as i s).map (·.setAddress s'.pkg.address) :=
  reloc_fixFit_unmoved' (RelocOut.addrShiftI h) (h.2 i s s' hs hs').1 hc

/-- (b, moved) the same outcome of `fix_addresses; fit_operand_width`, the stored operand value moved by `D` -/
theorem reloc_fixFit_moved (h : PW (RelocOut D) as as') {i : Nat} {s s' : Stmt}
    (hs : as[i]? = some s) (hs' : as'[i]? = some s') (hc : Moved D as s) :
    fixFit as' i s' = (fixFit as i s).map (fun t => (t.shiftAdditional D).setAddress s'.pkg.address) :=
  reloc_fixFit_moved' (RelocOut.addrShift h) (h.2 i s s' hs hs').1 hc

/-- (c, unmoved), general form -/
theorem reloc_bytes_unmoved' (h : PW (AddrShiftI D) as as') {i : Nat} {s s' t t' : Stmt}
    (he : s' = s.setAddress s'.pkg.address) (hc : Unmoved D as s)
    (ht : fixFit as i s = .ok t) (ht' : fixFit as' i s' = .ok t') :
    t' = t.setAddress s'.pkg.address ∧ stmtBytes t' = stmtBytes t := by
  rw [reloc_fixFit_unmoved' h he hc, ht] at ht'
  simp only [Outcome.map_ok, Outcome.ok.injEq] at ht'
  subst ht'
  exact ⟨rfl, rfl⟩

/-- (c, moved), general form -/
theorem reloc_bytes_moved' (h : PW (AddrShift D) as as') {i : Nat} {s s' t t' : Stmt}
    (he : s' = s.setAddress s'.pkg.address) (hc : Moved D as s)
    (ht : fixFit as i s = .ok t) (ht' : fixFit as' i s' = .ok t') {bs : Bytes} (hb : stmtBytes t = some bs) :
    t' = (t.shiftAdditional D).setAddress s'.pkg.address ∧
    ∃ pre x, t.pkg.additional.int? = some x ∧ x + D < 65536 ∧ bs = pre ++ [x / 256, x % 256] ∧
      stmtBytes t' = some (pre ++ [(x + D) / 256, (x + D) % 256]) := by
  rw [reloc_fixFit_moved' h he hc, ht] at ht'
  simp only [Outcome.map_ok, Outcome.ok.injEq] at ht'
  subst ht'
  refine ⟨rfl, ?_⟩
  rw [stmtBytes_setAddress]
  exact stmtBytes_shiftAdditional (fixFit_moved_wide h i hc ht) hb

/-- (c, unmoved) byte-for-byte identical code -/
theorem reloc_bytes_unmoved (h : PW (RelocOut D) as as') {i : Nat} {s s' t t' : Stmt}
    (hs : as[i]? = some s) (hs' : as'[i]? = some s') (hc : Unmoved D as s)
    (ht : fixFit as i s = .ok t) (ht' : fixFit as' i s' = .ok t') :
    t' = t.setAddress s'.pkg.address ∧ stmtBytes t' = stmtBytes t :=
  reloc_bytes_unmoved' (RelocOut.addrShiftI h) (h.2 i s s' hs hs').1 hc ht ht'

/-- (c, moved) the code ends with a 16-bit big-endian field holding `x` resp. `x + D`; the bytes before
that field (opcode, post byte) are identical -/
theorem reloc_bytes_moved (h : PW (RelocOut D) as as') {i : Nat} {s s' t t' : Stmt}
    (hs : as[i]? = some s) (hs' : as'[i]? = some s') (hc : Moved D as s)
    (ht : fixFit as i s = .ok t) (ht' : fixFit as' i s' = .ok t') {bs : Bytes} (hb : stmtBytes t = some bs) :
    t' = (t.shiftAdditional D).setAddress s'.pkg.address ∧
    ∃ pre x, t.pkg.additional.int? = some x ∧ x + D < 65536 ∧ bs = pre ++ [x / 256, x % 256] ∧
      stmtBytes t' = some (pre ++ [(x + D) / 256, (x + D) % 256]) :=
  reloc_bytes_moved' (RelocOut.addrShift h) (h.2 i s s' hs hs').1 hc ht ht' hb

end fix

/-! ## (d) the whole back end after `assignAddrs` -/

section whole
variable {D : Nat} {as as' : List Stmt}

theorem fixOne_keeps {ss : List Stmt} {i : Nat} {s t : Stmt} (h : fixOne ss i s = .ok t) :
    ∃ v, t = { s with pkg := { s.pkg with additional := v } } := fixOne_same h

theorem fixFit_keeps {ss : List Stmt} {i : Nat} {s t : Stmt} (h : fixFit ss i s = .ok t) :
    ∃ v, t = { s with pkg := { s.pkg with additional := v } } := fixFit_same h

/-- `fixAll` on a program all of whose statements are in one of the two classes: same outcome kind, and
statement by statement `FinalRel` -/
theorem reloc_fixAll (h : PW (RelocOut D) as as')
    (hcov : ∀ (i : Nat) (s : Stmt), as[i]? = some s → Unmoved D as s ∨ Moved D as s) :
    OutRel (PW (FinalRel D)) (fixAll as 0 as) (fixAll as' 0 as') := by
  refine fixAll_outRel as as' 0 h.1 ?_
  intro j s s' hs hs'
  simp only [Nat.zero_add]
  have hrel := (h.2 j s s' hs hs').2
  rcases hcov j s hs with hc | hc
  · refine OutRel.of_eq_map (reloc_fixFit_unmoved h hs hs' hc) ?_
    intro t ht
    obtain ⟨v, rfl⟩ := fixFit_keeps ht
    exact ⟨.inl rfl, rfl, hrel.2⟩
  · refine OutRel.of_eq_map (reloc_fixFit_moved h hs hs' hc) ?_
    intro t ht
    obtain ⟨v, rfl⟩ := fixFit_keeps ht
    exact ⟨.inr rfl, rfl, hrel.2⟩

theorem FinalRel.row_addr {t t' : Stmt} (h : FinalRel D t t') :
    t'.row = t.row ∧ t'.pkg.address = shiftV D t.pkg.address := by
  obtain ⟨h1, _, hw⟩ := h
  refine ⟨?_, hw.shiftV⟩
  rcases h1 with h1 | h1 <;> rw [h1] <;> rfl

theorem FinalRel.row_operand {t t' : Stmt} (h : FinalRel D t t') : t'.row = t.row ∧ t'.operand = t.operand := by
  obtain ⟨h1, _⟩ := h
  rcases h1 with h1 | h1 <;> rw [h1] <;> exact ⟨rfl, rfl⟩

/-! ### (model batch 8) the list pass `evalLists` after `fixAll` -/

theorem shiftV_list {v : Value} (h : v.isList = true) : shiftV D v = v := by
  cases v <;> first | rfl | cases h
theorem shiftV_nonlist {v : Value} (h : v.isList = false) : (shiftV D v).isList = false := by
  cases v <;> first | rfl | cases h
theorem shiftVmod_list {v : Value} (h : v.isList = true) : shiftVmod D v = v := by
  cases v <;> first | rfl | cases h
theorem shiftVmod_nonlist {v : Value} (h : v.isList = false) : (shiftVmod D v).isList = false := by
  cases v <;> first | rfl | cases h
theorem shiftVneg_list {v : Value} (h : v.isList = true) : shiftVneg D v = v := by
  cases v <;> first | rfl | cases h
theorem shiftVneg_nonlist {v : Value} (h : v.isList = false) : (shiftVneg D v).isList = false := by
  cases v <;> first | rfl | cases h

theorem shiftV_numeric' {v : Value} (h : v.isNumeric = true) : (shiftV D v).isNumeric = true := by
  cases v <;> first | rfl | cases h
theorem shiftVmod_numeric {v : Value} (h : v.isNumeric = true) : (shiftVmod D v).isNumeric = true := by
  cases v <;> first | rfl | cases h
theorem shiftVneg_numeric {v : Value} (h : v.isNumeric = true) : (shiftVneg D v).isNumeric = true := by
  cases v <;> first | rfl | cases h

/-- the first halves of `FinalRel`, `FinalRelMod`, `FinalRelNeg`, `FinalRelAny`: equal except for the address and the
operand field, which is the same or moved in one of the three ways -/
def AddlRel (D : Nat) (t t' : Stmt) : Prop :=
  t' = t.setAddress t'.pkg.address ∨ t' = (t.shiftAdditional D).setAddress t'.pkg.address ∨
    t' = (t.shiftAdditionalMod D).setAddress t'.pkg.address ∨
    t' = (t.shiftAdditionalNeg D).setAddress t'.pkg.address

theorem AddlRel.operand {x x' : Stmt} (h : AddlRel D x x') : x'.operand = x.operand := by
  rcases h with h | h | h | h <;> rw [h] <;> rfl

theorem AddlRel.list {x x' : Stmt} (h : AddlRel D x x') (hl : x.pkg.additional.isList = true) :
    x'.pkg.additional = x.pkg.additional := by
  rcases h with h | h | h | h <;> generalize x'.pkg.address = a at h <;> subst h
  · rfl
  · exact shiftV_list hl
  · exact shiftVmod_list hl
  · exact shiftVneg_list hl

theorem AddlRel.nonlist {x x' : Stmt} (h : AddlRel D x x') (hl : x.pkg.additional.isList = false) :
    x'.pkg.additional.isList = false := by
  rcases h with h | h | h | h <;> generalize x'.pkg.address = a at h <;> subst h
  · exact hl
  · exact shiftV_nonlist hl
  · exact shiftVmod_nonlist hl
  · exact shiftVneg_nonlist hl

theorem AddlRel.set {x x' : Stmt} (h : AddlRel D x x') (v : Value) :
    ({ x' with pkg := { x'.pkg with additional := v } } : Stmt)
      = ({ x with pkg := { x.pkg with additional := v } } : Stmt).setAddress x'.pkg.address := by
  rcases h with h | h | h | h <;> generalize x'.pkg.address = a at h ⊢ <;> subst h <;> rfl

/-- the addresses of a laid out program are numbers -/
theorem addrOf_numeric_any (h : PW (AddrShiftAny D) as as') : ∀ j v, addrOf as j = some v → v.isNumeric = true := by
  intro j v hv
  unfold addrOf at hv
  cases hj : as[j]? with
  | none => rw [hj] at hv; cases hv
  | some x =>
    rw [hj] at hv
    simp only [Option.map_some, Option.some.injEq] at hv
    subst hv
    obtain ⟨x', _, _, a, hh, m, hh', m', e1, _, _⟩ := h.get hj
    rw [e1]; rfl

theorem addrOf_numeric (h : PW (AddrShift D) as as') : ∀ j v, addrOf as j = some v → v.isNumeric = true :=
  addrOf_numeric_any (h.mono (fun _ _ => AddrShift.toAny))

/-- `fixAll` and the list pass leave the addresses alone -/
theorem fixAllL_sameAddr {t : SymTab} {l l' : List Stmt} (h : fixAllL t l = .ok l') : PW SameAddr l l' :=
  (fixAllL_pw h).mono (fun _ _ => SameButAdditional.sameAddr)

theorem setAddress_listStable : ListStable (fun x x' : Stmt => x' = x.setAddress x'.pkg.address) where
  operand h := AddlRel.operand (D := 0) (.inl h)
  list h := AddlRel.list (D := 0) (.inl h)
  nonlist h := AddlRel.nonlist (D := 0) (.inl h)
  set v h _ := AddlRel.set (D := 0) (.inl h) v

/-- (c, unmoved, model batch 8) the list pass on a statement that `fixFit` left IDENTICAL (up to the address) and whose
list elements do not resolve to labels: identical again -/
theorem reloc_list_unmoved {t : SymTab} {fs fs' : List Stmt} {u u' s s' : Stmt} (he : u' = u.setAddress u'.pkg.address)
    (hc : ListsConst t u) (h1 : evalList1 t fs u = .ok s) (h2 : evalList1 t fs' u' = .ok s') :
    s' = s.setAddress s'.pkg.address := by
  have := evalList1_outRel setAddress_listStable t fs fs' he hc
  rw [h1, h2] at this
  exact this.rel

theorem FinalRel.toAddl {t t' : Stmt} (h : FinalRel D t t') : AddlRel D t t' :=
  h.1.elim .inl (fun h => .inr (.inl h))

theorem FinalRel.listStable : ListStable (FinalRel D) where
  operand h := h.toAddl.operand
  list h := h.toAddl.list
  nonlist h := h.toAddl.nonlist
  set v h _ := ⟨.inl (h.toAddl.set v), h.2⟩

/-- (model batch 8) `fixAll` and then the list pass on a program all of whose statements are in one of the two classes and
whose list statements are `ListsConst`: same outcome kind, and statement by statement `FinalRel` -/
theorem reloc_fixAllL (h : PW (RelocOut D) as as')
    (hcov : ∀ (i : Nat) (s : Stmt), as[i]? = some s → Unmoved D as s ∨ Moved D as s) (t : SymTab)
    (hlist : ∀ (i : Nat) (s : Stmt), as[i]? = some s → ListsConst t s) :
    OutRel (PW (FinalRel D)) (fixAllL t as) (fixAllL t as') :=
  fixAllL_outRel FinalRel.listStable t (reloc_fixAll h hcov)
    (fun _ hf => fixAll_listsConst (addrOf_numeric (RelocOut.addrShift h)) hlist hf)

/-- the two assemblies: statements related by `FinalRel`; in the symbol table every entry that was a
statement index (a label) is moved by `D` and every other entry (EQU) is unchanged; the origin is moved by
`D`; the name is the same -/
def AsmRel (D : Nat) (t : SymTab) (A B : Assembly) : Prop :=
  PW (FinalRel D) A.stmts B.stmts ∧
  B.symtab = List.zipWith (fun (kv kw : Str × Value) => (kw.1, if kv.2.isAddress then shiftV D kw.2 else kw.2))
    t A.symtab ∧
  B.origin = shiftV D A.origin ∧ B.name = A.name

/-- (d) `fixAll`, `evalSyms`, `finalSymTab`, origin and name: identical outcome kind, results related by `AsmRel`.
Model batch 4: `hequ` — no EQU of the table is defined by a label expression (such an EQU is listed with its value, which
moves; see `reloc_finish_equ`) -/
theorem reloc_finish (h : PW (RelocOut D) as as')
    (hcov : ∀ (i : Nat) (s : Stmt), as[i]? = some s → Unmoved D as s ∨ Moved D as s) (t : SymTab)
    (hequ : NoLabelEqu t) (hlist : ∀ (i : Nat) (s : Stmt), as[i]? = some s → ListsConst t s) :
    OutRel (AsmRel D t) (finish t as) (finish t as') := by
  have hfix := reloc_fixAllL h hcov t hlist
  unfold finish
  generalize fixAllL t as = o at hfix ⊢
  generalize fixAllL t as' = o' at hfix ⊢
  cases hfix with
  | ok hr =>
    rename_i fs fs'
    dsimp only
    have hsh : PW (AddrShift D) fs fs' := hr.mono (fun _ _ r => r.2)
    rw [evalSyms_const fs fs' t t hequ]
    cases he : evalSyms fs t t with
    | ok t1 =>
      dsimp only
      rw [finalSymTab_reloc hsh]
      cases finalSymTab fs t1 with
      | ok r =>
        simp only [Outcome.map_ok]
        refine .ok ⟨hr, zipWith_evalSyms (shiftV D) he r, ?_, ?_⟩
        · exact origin_reloc fs fs' .none (hr.mono (fun _ _ r => r.row_addr))
        · exact name_reloc fs fs' none (hr.mono (fun _ _ r => r.row_operand))
      | diag => exact .diag
      | internal => exact .internal
      | diverged => exact .diverged
    | diag => exact .diag
    | internal => exact .internal
    | diverged => exact .diverged
  | diag => exact .diag
  | internal => exact .internal
  | diverged => exact .diverged

/-- (d), read off: a label's final value moves by `D`, an EQU value does not move -/
theorem reloc_symtab_entry {t : SymTab} {A B : Assembly} (h : AsmRel D t A B)
    (hl : A.symtab.length = t.length) {j : Nat} {k : Str} {v : Value} (hj : t[j]? = some (k, v)) :
    ∃ kw, A.symtab[j]? = some kw ∧ B.symtab[j]? = some (kw.1, if v.isAddress then shiftV D kw.2 else kw.2) := by
  have hjl : j < t.length := (List.getElem?_eq_some_iff.mp hj).1
  have hjr : j < A.symtab.length := by omega
  refine ⟨A.symtab[j], List.getElem?_eq_getElem hjr, ?_⟩
  rw [h.2.1, List.getElem?_zipWith, hj, List.getElem?_eq_getElem hjr]

end whole

/-! ## (e) `label + N`, `label - N` with a SIGNED constant `N` (repair batches B2, B3)

Before B2 the sign of the other operand of a label expression was dropped (`A+N` with `N EQU -2` was `A+2`).  Now
the constant is `signedK k nn` (`-k` when the number carries a minus sign).  `LabelNum as l r op t a k nn`: the operands
are the label of statement `t` (address `a` in the layout `as`) and that number, the label on the left unless `op` is
`+` (since B3 the operands are combined in the written order).  Below, `c` stands for `signedK k nn`.
Since B3 both operators behave alike: the result `a ± c` is rejected above `$FFFF`, and a negative one is reduced
modulo `$10000` by `calculate_address_offset` itself. -/

section signed
variable {D : Nat} {as as' : List Stmt} {l r : Value} {t a k : Nat} {nn : Bool} {s : Stmt} {m : Mode}

/-- `label + N` (no PCR) in a 16-bit field is in the class `Moved` when its value `a + c` is in `0 .. $FFFF - D` -/
theorem moved_label_plus (h : LabelNum as l r '+' t a k nn)
    (hk : (s.operand.kind == .relative) = false) (hv : s.operand.value = .expr l r '+' m true)
    (hn : s.pkg.needsRes = false) (hf : FieldWide s)
    (h0 : 0 ≤ (a : Int) + signedK k nn) (h1 : (a : Int) + signedK k nn + D ≤ 65535) : Moved D as s :=
  .inl ⟨hk, hn, .inr (by rw [hv]; exact (numExpr_plus_iff h m).mpr (fun _ => by omega)), hf⟩

/-- `label - N` (no PCR) in a 16-bit field is in the class `Moved` when its value `(a - c) mod $10000` is at most
`$FFFF - D` -/
theorem moved_label_minus (h : LabelNum as l r '-' t a k nn)
    (hk : (s.operand.kind == .relative) = false) (hv : s.operand.value = .expr l r '-' m true)
    (hn : s.pkg.needsRes = false) (hf : FieldWide s)
    (h1 : ((a : Int) - signedK k nn) % 65536 + D ≤ 65535) : Moved D as s :=
  .inl ⟨hk, hn, .inr (by rw [hv]; exact (numExpr_minus_iff h m).mpr (fun _ => h1)), hf⟩

/-- `label + N,PCR` / `label - N,PCR` (an indexed operand with post byte choices whose offset is the label
expression) is in the class `Unmoved` under the same arithmetic conditions on the TARGET -/
theorem unmoved_pcr_label_plus (h : LabelNum as l r '+' t a k nn)
    (hk : (s.operand.kind == .relative) = false) (hE : s.operand.value.isAddrExpr = false)
    (hA : s.operand.value.isAddress = false) (hc : s.pkg.choices.isEmpty = false) (hidx : s.isIdx = true)
    (he : s.pkg.additional = .expr l r '+' m true)
    (h0 : 0 ≤ (a : Int) + signedK k nn) (h1 : (a : Int) + signedK k nn + D ≤ 65535) : Unmoved D as s :=
  .inr (.inl ⟨hk, hE, hA, .inr ⟨hc, .inl (.inr (.inr ⟨hidx, by
    rw [he]; exact (numExpr_plus_iff h m).mpr (fun _ => by omega)⟩))⟩⟩)

theorem unmoved_pcr_label_minus (h : LabelNum as l r '-' t a k nn)
    (hk : (s.operand.kind == .relative) = false) (hE : s.operand.value.isAddrExpr = false)
    (hA : s.operand.value.isAddress = false) (hc : s.pkg.choices.isEmpty = false) (hidx : s.isIdx = true)
    (he : s.pkg.additional = .expr l r '-' m true)
    (h1 : ((a : Int) - signedK k nn) % 65536 + D ≤ 65535) : Unmoved D as s :=
  .inr (.inl ⟨hk, hE, hA, .inr ⟨hc, .inl (.inr (.inr ⟨hidx, by
    rw [he]; exact (numExpr_minus_iff h m).mpr (fun _ => h1)⟩))⟩⟩)

/-- (repair batch B3) `label ± N,PCR` that both layouts accept (`a ± c + D ≤ $FFFF`), whatever the sign of the target:
a NEGATIVE target (`A+N,PCR` with `N EQU -258`, `A` at `$0100`) is reduced modulo `$10000` in both layouts, it moves by `D`
modulo `$10000`, and the displacement — computed modulo `$10000` — is the same: the statement is `Unmoved`.  Before B3
the magnitude of the negative value was taken and the code changed under relocation (finding
`reloc_signed_pcr_negative_target`, now `reloc_signed_pcr_negative_target_fixed`). -/
theorem unmoved_pcr_label_mod {op : Char} (h : LabelNum as l r op t a k nn)
    (hk : (s.operand.kind == .relative) = false) (hE : s.operand.value.isAddrExpr = false)
    (hA : s.operand.value.isAddress = false) (hc : s.pkg.choices.isEmpty = false) (hidx : s.isIdx = true)
    (he : s.pkg.additional = .expr l r op m true) (hb : ModBound D op a k nn) : Unmoved D as s :=
  .inr (.inl ⟨hk, hE, hA, .inr ⟨hc, .inr ⟨hidx, l, r, op, m, t, a, k, nn, he, h, hb⟩⟩⟩)

/-- (b, signed `+`) `fix_addresses` on `label + N`, value `z = a + c` in `0 .. $FFFF - D`: the original program
stores `z`, the relocated one `z + D` -/
theorem reloc_fixOne_label_plus (hpw : PW (AddrShiftI D) as as') (h : LabelNum as l r '+' t a k nn) (i : Nat) (v : Value)
    (hk : (s.operand.kind == .relative) = false) (hv : s.operand.value = .expr l r '+' m true)
    (hn : s.pkg.needsRes = false)
    (h0 : 0 ≤ (a : Int) + signedK k nn) (h1 : (a : Int) + signedK k nn + D ≤ 65535) :
    fixOne as i s = .ok (withAdditional s (.numeric ((a : Int) + signedK k nn).toNat (some 4) .extended false)) ∧
    fixOne as' i (s.setAddress v) =
      .ok ((withAdditional s (.numeric (((a : Int) + signedK k nn).toNat + D) (some 4) .extended false)).setAddress v) := by
  refine ⟨fixOne_label_plus h i hk hv hn h0 (by omega), ?_⟩
  rw [fixOne_setAddress, fixOne_label_plus (h.reloc hpw) i hk hv hn (by omega) (by omega)]
  have e : (((a + D : Nat) : Int) + signedK k nn).toNat = ((a : Int) + signedK k nn).toNat + D := by omega
  rw [e]; rfl

/-- (b, signed `-`) `fix_addresses` on `label - N` that the moved layout accepts (`a - c + D ≤ $FFFF`; since B3 a
difference above `$FFFF` — possible with a negative `N` — is rejected): the original program stores
`z = (a - c) mod $10000`, the relocated one `(z + D) mod $10000` -/
theorem reloc_fixOne_label_minus (hpw : PW (AddrShiftI D) as as') (h : LabelNum as l r '-' t a k nn) (i : Nat) (v : Value)
    (hk : (s.operand.kind == .relative) = false) (hv : s.operand.value = .expr l r '-' m true)
    (hn : s.pkg.needsRes = false) (h1 : (a : Int) - signedK k nn + D ≤ 65535) :
    fixOne as i s =
      .ok (withAdditional s (.numeric (((a : Int) - signedK k nn) % 65536).toNat (some 4) .extended false)) ∧
    fixOne as' i (s.setAddress v) =
      .ok ((withAdditional s (.numeric (((((a : Int) - signedK k nn) % 65536).toNat + D) % 65536)
        (some 4) .extended false)).setAddress v) := by
  refine ⟨fixOne_label_minus h i hk hv hn (by omega), ?_⟩
  rw [fixOne_setAddress, fixOne_label_minus (h.reloc hpw) i hk hv hn (by omega)]
  have e : ((((a + D : Nat) : Int) - signedK k nn) % 65536).toNat
      = ((((a : Int) - signedK k nn) % 65536).toNat + D) % 65536 := by omega
  rw [e]; rfl

/-- (b, signed `+`, what the model really does) `fix_addresses; fit_operand_width` on `label + N` in a four-digit
field, in both layouts: the statement is accepted iff the value is at most `$FFFF`, and the field holds the value
modulo `$10000` — a value below zero is NOT rejected, `calculate_address_offset` reduces it modulo `$10000` (since B3;
before, `fit_operand_width` stored it in two's complement down to `-$8000` and rejected it below) -/
theorem reloc_fixFit_label_plus (hpw : PW (AddrShiftI D) as as') (h : LabelNum as l r '+' t a k nn) (i : Nat) (v : Value)
    (hf : Field4 s)
    (hk : (s.operand.kind == .relative) = false) (hv : s.operand.value = .expr l r '+' m true)
    (hn : s.pkg.needsRes = false) :
    fixFit as i s =
      (if (a : Int) + signedK k nn ≤ 65535 then
        .ok (withAdditional s (.numeric (((a : Int) + signedK k nn) % 65536).toNat (some 4) .extended false))
      else .diag) ∧
    fixFit as' i (s.setAddress v) =
      (if (a : Int) + signedK k nn + D ≤ 65535 then
        .ok ((withAdditional s (.numeric (((a : Int) + signedK k nn + D) % 65536).toNat (some 4) .extended false)).setAddress v)
      else .diag) := by
  refine ⟨fixFit_label_plus h i hf hk hv hn, ?_⟩
  rw [fixFit_setAddress, fixFit_label_plus (h.reloc hpw) i hf hk hv hn]
  have e : ((a + D : Nat) : Int) + signedK k nn = (a : Int) + signedK k nn + D := by omega
  rw [e]
  split <;> rfl

/-- (b, signed `-`, what the model really does) the same for `label - N` -/
theorem reloc_fixFit_label_minus_cases (hpw : PW (AddrShiftI D) as as') (h : LabelNum as l r '-' t a k nn) (i : Nat)
    (v : Value) (hf : Field4 s)
    (hk : (s.operand.kind == .relative) = false) (hv : s.operand.value = .expr l r '-' m true)
    (hn : s.pkg.needsRes = false) :
    fixFit as i s =
      (if (a : Int) - signedK k nn ≤ 65535 then
        .ok (withAdditional s (.numeric (((a : Int) - signedK k nn) % 65536).toNat (some 4) .extended false))
      else .diag) ∧
    fixFit as' i (s.setAddress v) =
      (if (a : Int) - signedK k nn + D ≤ 65535 then
        .ok ((withAdditional s (.numeric (((a : Int) - signedK k nn + D) % 65536).toNat (some 4) .extended false)).setAddress v)
      else .diag) := by
  refine ⟨fixFit_label_minus h i hf hk hv hn, ?_⟩
  rw [fixFit_setAddress, fixFit_label_minus (h.reloc hpw) i hf hk hv hn]
  have e : ((a + D : Nat) : Int) - signedK k nn = (a : Int) - signedK k nn + D := by omega
  rw [e]
  split <;> rfl

/-- (b, signed `+`) both layouts accept `label + N` (value at most `$FFFF - D`): the 16-bit field moves by `D`
MODULO `$10000`.  When the value is not negative this is `+ D` (the class `Moved`); when it is negative and
`a + c + D` is not, the field wraps around (`$FF80` becomes `$0080` for `D = $100`) -/
theorem reloc_fixFit_label_plus_mod (hpw : PW (AddrShiftI D) as as') (h : LabelNum as l r '+' t a k nn) (i : Nat) (v : Value)
    (hf : Field4 s)
    (hk : (s.operand.kind == .relative) = false) (hv : s.operand.value = .expr l r '+' m true)
    (hn : s.pkg.needsRes = false) (h1 : (a : Int) + signedK k nn + D ≤ 65535) :
    ∃ x : Nat, x < 65536 ∧ (x : Int) = ((a : Int) + signedK k nn) % 65536 ∧
      fixFit as i s = .ok (withAdditional s (.numeric x (some 4) .extended false)) ∧
      fixFit as' i (s.setAddress v) =
        .ok ((withAdditional s (.numeric ((x + D) % 65536) (some 4) .extended false)).setAddress v) := by
  obtain ⟨e1, e2⟩ := reloc_fixFit_label_plus hpw h i v hf hk hv hn
  rw [if_pos (by omega)] at e1
  rw [if_pos h1] at e2
  have p0 : 0 ≤ ((a : Int) + signedK k nn) % 65536 := Int.emod_nonneg _ (by decide)
  have p1 : ((a : Int) + signedK k nn) % 65536 < 65536 := Int.emod_lt_of_pos _ (by decide)
  refine ⟨(((a : Int) + signedK k nn) % 65536).toNat, by omega, by omega, e1, ?_⟩
  rw [e2]
  have e : (((a : Int) + signedK k nn + D) % 65536).toNat = ((((a : Int) + signedK k nn) % 65536).toNat + D) % 65536 := by
    omega
  rw [e]

/-- (b, signed `-`) both layouts accept `label - N` (value at most `$FFFF - D`; before B3 there was no condition, the
difference was reduced modulo `$10000` whatever its size): the field moves by `D` modulo `$10000` -/
theorem reloc_fixFit_label_minus (hpw : PW (AddrShiftI D) as as') (h : LabelNum as l r '-' t a k nn) (i : Nat) (v : Value)
    (hf : Field4 s)
    (hk : (s.operand.kind == .relative) = false) (hv : s.operand.value = .expr l r '-' m true)
    (hn : s.pkg.needsRes = false) (h1 : (a : Int) - signedK k nn + D ≤ 65535) :
    ∃ x : Nat, x < 65536 ∧ (x : Int) = ((a : Int) - signedK k nn) % 65536 ∧
      fixFit as i s = .ok (withAdditional s (.numeric x (some 4) .extended false)) ∧
      fixFit as' i (s.setAddress v) =
        .ok ((withAdditional s (.numeric ((x + D) % 65536) (some 4) .extended false)).setAddress v) := by
  obtain ⟨e1, e2⟩ := reloc_fixFit_label_minus_cases hpw h i v hf hk hv hn
  rw [if_pos (by omega)] at e1
  rw [if_pos h1] at e2
  have p0 : 0 ≤ ((a : Int) - signedK k nn) % 65536 := Int.emod_nonneg _ (by decide)
  have p1 : ((a : Int) - signedK k nn) % 65536 < 65536 := Int.emod_lt_of_pos _ (by decide)
  refine ⟨(((a : Int) - signedK k nn) % 65536).toNat, by omega, by omega, e1, ?_⟩
  rw [e2]
  have e : (((a : Int) - signedK k nn + D) % 65536).toNat = ((((a : Int) - signedK k nn) % 65536).toNat + D) % 65536 := by
    omega
  rw [e]

/-- (c, signed) the emitted bytes of a statement whose four-digit field holds `x` resp. `(x + D) mod $10000` (the
two theorems above): the code ends with that 16-bit value, big endian; everything before is identical -/
theorem reloc_bytes_label_mod {x : Nat} (hx : x < 65536) (v : Value) {bs : Bytes}
    (hb : stmtBytes (withAdditional s (.numeric x (some 4) .extended false)) = some bs) :
    ∃ pre, bs = pre ++ [x / 256, x % 256] ∧
      stmtBytes ((withAdditional s (.numeric ((x + D) % 65536) (some 4) .extended false)).setAddress v)
        = some (pre ++ [(x + D) % 65536 / 256, (x + D) % 65536 % 256]) := by
  obtain ⟨pre, e, hall⟩ := stmtBytes_field4 hx hb
  exact ⟨pre, e, by rw [stmtBytes_setAddress]; exact hall _ _ (Nat.mod_lt _ (by decide))⟩

end signed

/-! ## (f) the third class `MovedMod`: `label ± N` with no bound but acceptance; the field moves modulo `$10000` -/

section modulo
variable {D : Nat} {as as' : List Stmt}

/-- (b, moved modulo), general form -/
theorem reloc_fixFit_movedMod' (h : PW (AddrShiftI D) as as') {i : Nat} {s s' : Stmt}
    (he : s' = s.setAddress s'.pkg.address) (hc : MovedMod D as s) :
    fixFit as' i s' = (fixFit as i s).map (fun t => (t.shiftAdditionalMod D).setAddress s'.pkg.address) := by
  have : fixFit as' i s' = fixFit as' i (s.setAddress s'.pkg.address) := by rw [← he]
  rw [this, fixFit_setAddress, fixFit_movedMod h i hc, outcome_map_map]

/-- (b, moved modulo) `label + N`, `label - N` (SIGNED `N`) in a four-digit field: the same outcome of
`fix_addresses; fit_operand_width`, the stored operand value moved by `D` modulo `$10000` -/
theorem reloc_fixFit_movedMod (h : PW (RelocOut D) as as') {i : Nat} {s s' : Stmt}
    (hs : as[i]? = some s) (hs' : as'[i]? = some s') (hc : MovedMod D as s) :
    fixFit as' i s' = (fixFit as i s).map (fun t => (t.shiftAdditionalMod D).setAddress s'.pkg.address) :=
  reloc_fixFit_movedMod' (RelocOut.addrShiftI h) (h.2 i s s' hs hs').1 hc

/-- (c, moved modulo), general form: the code ends with a 16-bit big-endian field holding `x` resp.
`(x + D) mod $10000`; the bytes before that field are identical -/
theorem reloc_bytes_movedMod' (h : PW (AddrShiftI D) as as') {i : Nat} {s s' t t' : Stmt}
    (he : s' = s.setAddress s'.pkg.address) (hc : MovedMod D as s)
    (ht : fixFit as i s = .ok t) (ht' : fixFit as' i s' = .ok t') {bs : Bytes} (hb : stmtBytes t = some bs) :
    t' = (t.shiftAdditionalMod D).setAddress s'.pkg.address ∧
    ∃ pre x, t.pkg.additional.int? = some x ∧ x < 65536 ∧ bs = pre ++ [x / 256, x % 256] ∧
      stmtBytes t' = some (pre ++ [(x + D) % 65536 / 256, (x + D) % 65536 % 256]) := by
  have hmv := reloc_fixFit_movedMod' h he hc (i := i)
  rw [ht, ht'] at hmv
  simp only [Outcome.map_ok, Outcome.ok.injEq] at hmv
  refine ⟨hmv, ?_⟩
  obtain ⟨x, hx, e1, _⟩ := fixFit_movedMod_aux h i hc
  rw [e1] at ht
  cases ht
  obtain ⟨pre, e, hall⟩ := stmtBytes_field4 hx hb
  refine ⟨pre, x, rfl, hx, e, ?_⟩
  rw [hmv, stmtBytes_setAddress]
  exact hall _ _ (Nat.mod_lt _ (by decide))

/-- (c, moved modulo) -/
theorem reloc_bytes_movedMod (h : PW (RelocOut D) as as') {i : Nat} {s s' t t' : Stmt}
    (hs : as[i]? = some s) (hs' : as'[i]? = some s') (hc : MovedMod D as s)
    (ht : fixFit as i s = .ok t) (ht' : fixFit as' i s' = .ok t') {bs : Bytes} (hb : stmtBytes t = some bs) :
    t' = (t.shiftAdditionalMod D).setAddress s'.pkg.address ∧
    ∃ pre x, t.pkg.additional.int? = some x ∧ x < 65536 ∧ bs = pre ++ [x / 256, x % 256] ∧
      stmtBytes t' = some (pre ++ [(x + D) % 65536 / 256, (x + D) % 65536 % 256]) :=
  reloc_bytes_movedMod' (RelocOut.addrShiftI h) (h.2 i s s' hs hs').1 hc ht ht' hb

/-- after `fixAll`, three classes: equal except for the address and — for moved statements — the operand field, moved
by `D` (`Moved`) or by `D` modulo `$10000` (`MovedMod`) -/
def FinalRelMod (D : Nat) (t t' : Stmt) : Prop :=
  (t' = t.setAddress t'.pkg.address ∨ t' = (t.shiftAdditional D).setAddress t'.pkg.address ∨
    t' = (t.shiftAdditionalMod D).setAddress t'.pkg.address) ∧ AddrShift D t t'

theorem FinalRel.toMod {t t' : Stmt} (h : FinalRel D t t') : FinalRelMod D t t' := by
  obtain ⟨h1, h2⟩ := h
  exact ⟨h1.elim .inl (fun h => .inr (.inl h)), h2⟩

/-- `fixAll` on a program all of whose statements are in one of the THREE classes: same outcome kind, and statement
by statement `FinalRelMod` -/
theorem reloc_fixAll_mod (h : PW (RelocOut D) as as')
    (hcov : ∀ (i : Nat) (s : Stmt), as[i]? = some s → Unmoved D as s ∨ Moved D as s ∨ MovedMod D as s) :
    OutRel (PW (FinalRelMod D)) (fixAll as 0 as) (fixAll as' 0 as') := by
  refine fixAll_outRel as as' 0 h.1 ?_
  intro j s s' hs hs'
  simp only [Nat.zero_add]
  have hrel := (h.2 j s s' hs hs').2
  rcases hcov j s hs with hc | hc | hc
  · refine OutRel.of_eq_map (reloc_fixFit_unmoved h hs hs' hc) ?_
    intro t ht
    obtain ⟨v, rfl⟩ := fixFit_keeps ht
    exact ⟨.inl rfl, rfl, hrel.2⟩
  · refine OutRel.of_eq_map (reloc_fixFit_moved h hs hs' hc) ?_
    intro t ht
    obtain ⟨v, rfl⟩ := fixFit_keeps ht
    exact ⟨.inr (.inl rfl), rfl, hrel.2⟩
  · refine OutRel.of_eq_map (reloc_fixFit_movedMod h hs hs' hc) ?_
    intro t ht
    obtain ⟨v, rfl⟩ := fixFit_keeps ht
    exact ⟨.inr (.inr rfl), rfl, hrel.2⟩

theorem FinalRelMod.row_addr {t t' : Stmt} (h : FinalRelMod D t t') :
    t'.row = t.row ∧ t'.pkg.address = shiftV D t.pkg.address := by
  obtain ⟨h1, _, hw⟩ := h
  refine ⟨?_, hw.shiftV⟩
  rcases h1 with h1 | h1 | h1 <;> rw [h1] <;> rfl

theorem FinalRelMod.row_operand {t t' : Stmt} (h : FinalRelMod D t t') :
    t'.row = t.row ∧ t'.operand = t.operand := by
  obtain ⟨h1, _⟩ := h
  rcases h1 with h1 | h1 | h1 <;> rw [h1] <;> exact ⟨rfl, rfl⟩

theorem FinalRelMod.toAddl {t t' : Stmt} (h : FinalRelMod D t t') : AddlRel D t t' := by
  rcases h.1 with h1 | h1 | h1
  · exact .inl h1
  · exact .inr (.inl h1)
  · exact .inr (.inr (.inl h1))

theorem FinalRelMod.listStable : ListStable (FinalRelMod D) where
  operand h := h.toAddl.operand
  list h := h.toAddl.list
  nonlist h := h.toAddl.nonlist
  set v h _ := ⟨.inl (h.toAddl.set v), h.2⟩

/-- (model batch 8) `fixAll` and then the list pass, three classes -/
theorem reloc_fixAllL_mod (h : PW (RelocOut D) as as')
    (hcov : ∀ (i : Nat) (s : Stmt), as[i]? = some s → Unmoved D as s ∨ Moved D as s ∨ MovedMod D as s) (t : SymTab)
    (hlist : ∀ (i : Nat) (s : Stmt), as[i]? = some s → ListsConst t s) :
    OutRel (PW (FinalRelMod D)) (fixAllL t as) (fixAllL t as') :=
  fixAllL_outRel FinalRelMod.listStable t (reloc_fixAll_mod h hcov)
    (fun _ hf => fixAll_listsConst (addrOf_numeric (RelocOut.addrShift h)) hlist hf)

/-- as `AsmRel`, statements related by `FinalRelMod` -/
def AsmRelMod (D : Nat) (t : SymTab) (A B : Assembly) : Prop :=
  PW (FinalRelMod D) A.stmts B.stmts ∧
  B.symtab = List.zipWith (fun (kv kw : Str × Value) => (kw.1, if kv.2.isAddress then shiftV D kw.2 else kw.2))
    t A.symtab ∧
  B.origin = shiftV D A.origin ∧ B.name = A.name

/-- (d, three classes) `fixAll`, `evalSyms`, `finalSymTab`, origin and name: identical outcome kind, results related by
`AsmRelMod`; `hequ` as in `reloc_finish` -/
theorem reloc_finish_mod (h : PW (RelocOut D) as as')
    (hcov : ∀ (i : Nat) (s : Stmt), as[i]? = some s → Unmoved D as s ∨ Moved D as s ∨ MovedMod D as s) (t : SymTab)
    (hequ : NoLabelEqu t) (hlist : ∀ (i : Nat) (s : Stmt), as[i]? = some s → ListsConst t s) :
    OutRel (AsmRelMod D t) (finish t as) (finish t as') := by
  have hfix := reloc_fixAllL_mod h hcov t hlist
  unfold finish
  generalize fixAllL t as = o at hfix ⊢
  generalize fixAllL t as' = o' at hfix ⊢
  cases hfix with
  | ok hr =>
    rename_i fs fs'
    dsimp only
    have hsh : PW (AddrShift D) fs fs' := hr.mono (fun _ _ r => r.2)
    rw [evalSyms_const fs fs' t t hequ]
    cases he : evalSyms fs t t with
    | ok t1 =>
      dsimp only
      rw [finalSymTab_reloc hsh]
      cases finalSymTab fs t1 with
      | ok r =>
        simp only [Outcome.map_ok]
        refine .ok ⟨hr, zipWith_evalSyms (shiftV D) he r, ?_, ?_⟩
        · exact origin_reloc fs fs' .none (hr.mono (fun _ _ r => r.row_addr))
        · exact name_reloc fs fs' none (hr.mono (fun _ _ r => r.row_operand))
      | diag => exact .diag
      | internal => exact .internal
      | diverged => exact .diverged
    | diag => exact .diag
    | internal => exact .internal
    | diverged => exact .diverged
  | diag => exact .diag
  | internal => exact .internal
  | diverged => exact .diverged

end modulo

/-! ## (g) a label as constant offset of a pointer register (repair batch B3): `LDA TABLE,X`, `LDB TBL+1,Y`, `LDD [TBL,U]`

Such a statement has no label in its operand VALUE; `translate` marks it `needsRes` WITHOUT post byte choices and takes
the 16-bit offset form at once (post byte `$89` / `$99` + register); `additional` holds the statement index of the label
(a plain label) or the label expression.  `fix_addresses` stores the target ADDRESS itself as the offset, so the
16-bit field moves by `D` like an extended operand: the sub-class `MovedAbs` of `Moved` (and `MovedModAbs` of
`MovedMod` when the value is only accepted, not bounded).  `[label+1]` (extended indirect with an address expression,
accepted since B3) has the expression as its operand value and no `needsRes`: it is in the OLD sub-class `MovedRef`
(`moved_label_plus`). -/

section absolute
variable {D : Nat} {as as' : List Stmt} {l r : Value} {t a k : Nat} {nn : Bool} {s : Stmt} {m : Mode}

/-- a plain label as constant offset (`LDA TABLE,X`, `LDD [TBL,U]`) in a 16-bit offset field is `Moved`, with no
arithmetic condition at all -/
theorem moved_abs_label (hk : (s.operand.kind == .relative) = false) (hE : s.operand.value.isAddrExpr = false)
    (hA : s.operand.value.isAddress = false) (hn : s.pkg.needsRes = true) (hc : s.pkg.choices.isEmpty = true)
    (hp : s.pkg.additional.isAddrExpr = false) (hf : FieldWide s) : Moved D as s :=
  .inr ⟨hk, hE, hA, hn, hc, .inr (.inl hp), hf⟩

/-- `label + N` as constant offset (`LDB TBL+1,Y`) is `Moved` when its value `(a + c) mod $10000`, moved by `D`, is
at most `$FFFF` -/
theorem moved_abs_label_plus (h : LabelNum as l r '+' t a k nn)
    (hk : (s.operand.kind == .relative) = false) (hE : s.operand.value.isAddrExpr = false)
    (hA : s.operand.value.isAddress = false) (hn : s.pkg.needsRes = true) (hc : s.pkg.choices.isEmpty = true)
    (hidx : s.isIdx = true) (he : s.pkg.additional = .expr l r '+' m true) (hf : FieldWide s)
    (h1 : ((a : Int) + signedK k nn) % 65536 + D ≤ 65535) : Moved D as s :=
  .inr ⟨hk, hE, hA, hn, hc, .inr (.inr ⟨hidx, by rw [he]; exact (numExpr_plus_iff h m).mpr (fun _ => h1)⟩), hf⟩

/-- `label - N` as constant offset (`LDB TBL-1,Y`) -/
theorem moved_abs_label_minus (h : LabelNum as l r '-' t a k nn)
    (hk : (s.operand.kind == .relative) = false) (hE : s.operand.value.isAddrExpr = false)
    (hA : s.operand.value.isAddress = false) (hn : s.pkg.needsRes = true) (hc : s.pkg.choices.isEmpty = true)
    (hidx : s.isIdx = true) (he : s.pkg.additional = .expr l r '-' m true) (hf : FieldWide s)
    (h1 : ((a : Int) - signedK k nn) % 65536 + D ≤ 65535) : Moved D as s :=
  .inr ⟨hk, hE, hA, hn, hc, .inr (.inr ⟨hidx, by rw [he]; exact (numExpr_minus_iff h m).mpr (fun _ => h1)⟩), hf⟩

/-- `label ± N` as constant offset that both layouts accept is `MovedMod` -/
theorem movedMod_abs_label {op : Char} (h : LabelNum as l r op t a k nn)
    (hk : (s.operand.kind == .relative) = false) (hv : s.operand.value ≠ .pyNone)
    (hE : s.operand.value.isAddrExpr = false)
    (hA : s.operand.value.isAddress = false) (hn : s.pkg.needsRes = true) (hc : s.pkg.choices.isEmpty = true)
    (hidx : s.isIdx = true) (he : s.pkg.additional = .expr l r op m true) (hf : Field4 s)
    (hb : ModBound D op a k nn) : MovedMod D as s :=
  .inr ⟨hk, hv, hE, hA, hn, hc, hidx, hf, l, r, op, m, t, a, k, nn, he, h, hb⟩

/-- (b, constant offset, closed form) `fix_addresses; fit_operand_width` on `LDA TABLE,X` in the two layouts: the
16-bit offset field holds the ADDRESS of the label, `a` resp. `a + D` -/
theorem reloc_fixFit_abs_label (hpw : PW (AddrShiftI D) as as') (i : Nat) (v : Value)
    (hk : (s.operand.kind == .relative) = false) (hv : s.operand.value ≠ .pyNone)
    (hE : s.operand.value.isAddrExpr = false) (hA : s.operand.value.isAddress = false)
    (hn : s.pkg.needsRes = true) (hc : s.pkg.choices.isEmpty = true)
    (hp : s.pkg.additional.isAddrExpr = false) (hi : s.pkg.additional.int? = some t)
    (ha : addrIntOf as t = some a) (hlt : a + D < 65536) (hf : Field4 s) :
    fixFit as i s = .ok (withAdditional s (.numeric a (some 4) .extended false)) ∧
    fixFit as' i (s.setAddress v) =
      .ok ((withAdditional s (.numeric (a + D) (some 4) .extended false)).setAddress v) := by
  have key : ∀ (ss : List Stmt) (x : Nat), addrIntOf ss t = some x → x < 65536 →
      fixFit ss i s = .ok (withAdditional s (.numeric x (some 4) .extended false)) := by
    intro ss x hx hx'
    unfold fixFit
    rw [fixOne_abs_eq _ _ _ hk hv hE hA hn hc, fixPartAbs_eq, fixRelTarget_plain _ _ (.inr hp), hi]
    dsimp only
    rw [hx]
    dsimp only
    rw [if_pos (by omega)]
    exact fitWidth_field4_nat hf hx'
  refine ⟨key as a ha (by omega), ?_⟩
  rw [fixFit_setAddress, key as' (a + D) (by rw [addrIntOf_reloc hpw, ha]; rfl) hlt]
  rfl

/-- (b, constant offset) the outcome of `fix_addresses; fit_operand_width` is the same, the 16-bit offset field moved
by `D` -/
theorem reloc_fixFit_movedAbs (h : PW (RelocOut D) as as') {i : Nat} {s s' : Stmt}
    (hs : as[i]? = some s) (hs' : as'[i]? = some s') (hc : MovedAbs D as s) :
    fixFit as' i s' = (fixFit as i s).map (fun t => (t.shiftAdditional D).setAddress s'.pkg.address) :=
  reloc_fixFit_moved h hs hs' (.inr hc)

/-- (c, constant offset) the code ends with the 16-bit big-endian offset field holding `x` resp. `x + D`; op code and
post byte before it are identical -/
theorem reloc_bytes_movedAbs (h : PW (RelocOut D) as as') {i : Nat} {s s' t t' : Stmt}
    (hs : as[i]? = some s) (hs' : as'[i]? = some s') (hc : MovedAbs D as s)
    (ht : fixFit as i s = .ok t) (ht' : fixFit as' i s' = .ok t') {bs : Bytes} (hb : stmtBytes t = some bs) :
    t' = (t.shiftAdditional D).setAddress s'.pkg.address ∧
    ∃ pre x, t.pkg.additional.int? = some x ∧ x + D < 65536 ∧ bs = pre ++ [x / 256, x % 256] ∧
      stmtBytes t' = some (pre ++ [(x + D) / 256, (x + D) % 256]) :=
  reloc_bytes_moved h hs hs' (.inr hc) ht ht' hb

/-- (b, constant offset, modulo) -/
theorem reloc_fixFit_movedModAbs (h : PW (RelocOut D) as as') {i : Nat} {s s' : Stmt}
    (hs : as[i]? = some s) (hs' : as'[i]? = some s') (hc : MovedModAbs D as s) :
    fixFit as' i s' = (fixFit as i s).map (fun t => (t.shiftAdditionalMod D).setAddress s'.pkg.address) :=
  reloc_fixFit_movedMod h hs hs' (.inr hc)

/-- (c, constant offset, modulo) -/
theorem reloc_bytes_movedModAbs (h : PW (RelocOut D) as as') {i : Nat} {s s' t t' : Stmt}
    (hs : as[i]? = some s) (hs' : as'[i]? = some s') (hc : MovedModAbs D as s)
    (ht : fixFit as i s = .ok t) (ht' : fixFit as' i s' = .ok t') {bs : Bytes} (hb : stmtBytes t = some bs) :
    t' = (t.shiftAdditionalMod D).setAddress s'.pkg.address ∧
    ∃ pre x, t.pkg.additional.int? = some x ∧ x < 65536 ∧ bs = pre ++ [x / 256, x % 256] ∧
      stmtBytes t' = some (pre ++ [(x + D) % 65536 / 256, (x + D) % 65536 % 256]) :=
  reloc_bytes_movedMod h hs hs' (.inr hc) ht ht' hb

end absolute

/-! ## (h) the fourth class `MovedNeg` (repair batch B3): `number - label`; the field moves by MINUS `D` modulo `$10000` -/

section negative
variable {D : Nat} {as as' : List Stmt}

/-- (b, moved backwards), general form -/
theorem reloc_fixFit_movedNeg' (h : PW (AddrShiftI D) as as') {i : Nat} {s s' : Stmt}
    (he : s' = s.setAddress s'.pkg.address) (hc : MovedNeg as s) :
    fixFit as' i s' = (fixFit as i s).map (fun t => (t.shiftAdditionalNeg D).setAddress s'.pkg.address) := by
  have : fixFit as' i s' = fixFit as' i (s.setAddress s'.pkg.address) := by rw [← he]
  rw [this, fixFit_setAddress, fixFit_movedNeg h i hc, outcome_map_map]

/-- (b, moved backwards) `number - label` (`FDB 5-L`, `LDX #$4000-L`) in a four-digit field: the same outcome of
`fix_addresses; fit_operand_width` (accepted), the stored operand value moved by MINUS `D` modulo `$10000` -/
theorem reloc_fixFit_movedNeg (h : PW (RelocOut D) as as') {i : Nat} {s s' : Stmt}
    (hs : as[i]? = some s) (hs' : as'[i]? = some s') (hc : MovedNeg as s) :
    fixFit as' i s' = (fixFit as i s).map (fun t => (t.shiftAdditionalNeg D).setAddress s'.pkg.address) :=
  reloc_fixFit_movedNeg' (RelocOut.addrShiftI h) (h.2 i s s' hs hs').1 hc

/-- (c, moved backwards), general form: the code ends with a 16-bit big-endian field holding `x` resp.
`(x - D) mod $10000`; the bytes before that field are identical -/
theorem reloc_bytes_movedNeg' (h : PW (AddrShiftI D) as as') {i : Nat} {s s' t t' : Stmt}
    (he : s' = s.setAddress s'.pkg.address) (hc : MovedNeg as s)
    (ht : fixFit as i s = .ok t) (ht' : fixFit as' i s' = .ok t') {bs : Bytes} (hb : stmtBytes t = some bs) :
    t' = (t.shiftAdditionalNeg D).setAddress s'.pkg.address ∧
    ∃ pre x y, t.pkg.additional.int? = some x ∧ x < 65536 ∧ y < 65536 ∧ (y + D) % 65536 = x ∧
      bs = pre ++ [x / 256, x % 256] ∧ stmtBytes t' = some (pre ++ [y / 256, y % 256]) := by
  have hmv := reloc_fixFit_movedNeg' h he hc (i := i)
  rw [ht, ht'] at hmv
  simp only [Outcome.map_ok, Outcome.ok.injEq] at hmv
  refine ⟨hmv, ?_⟩
  obtain ⟨x, hx, e1, _⟩ := fixFit_movedNeg_aux h i hc
  rw [e1] at ht
  cases ht
  obtain ⟨pre, e, hall⟩ := stmtBytes_field4 hx hb
  refine ⟨pre, x, (x + (65536 - D % 65536)) % 65536, rfl, hx, Nat.mod_lt _ (by decide), by omega, e, ?_⟩
  rw [hmv, stmtBytes_setAddress]
  exact hall _ _ (Nat.mod_lt _ (by decide))

/-- (c, moved backwards) -/
theorem reloc_bytes_movedNeg (h : PW (RelocOut D) as as') {i : Nat} {s s' t t' : Stmt}
    (hs : as[i]? = some s) (hs' : as'[i]? = some s') (hc : MovedNeg as s)
    (ht : fixFit as i s = .ok t) (ht' : fixFit as' i s' = .ok t') {bs : Bytes} (hb : stmtBytes t = some bs) :
    t' = (t.shiftAdditionalNeg D).setAddress s'.pkg.address ∧
    ∃ pre x y, t.pkg.additional.int? = some x ∧ x < 65536 ∧ y < 65536 ∧ (y + D) % 65536 = x ∧
      bs = pre ++ [x / 256, x % 256] ∧ stmtBytes t' = some (pre ++ [y / 256, y % 256]) :=
  reloc_bytes_movedNeg' (RelocOut.addrShiftI h) (h.2 i s s' hs hs').1 hc ht ht' hb

/-- after `fixAll`, four classes: equal except for the address and — for moved statements — the operand field, moved
by `D` (`Moved`), by `D` modulo `$10000` (`MovedMod`) or by MINUS `D` modulo `$10000` (`MovedNeg`) -/
def FinalRelNeg (D : Nat) (t t' : Stmt) : Prop :=
  (t' = t.setAddress t'.pkg.address ∨ t' = (t.shiftAdditional D).setAddress t'.pkg.address ∨
    t' = (t.shiftAdditionalMod D).setAddress t'.pkg.address ∨
    t' = (t.shiftAdditionalNeg D).setAddress t'.pkg.address) ∧ AddrShift D t t'

theorem FinalRelMod.toNeg {t t' : Stmt} (h : FinalRelMod D t t') : FinalRelNeg D t t' := by
  obtain ⟨h1, h2⟩ := h
  rcases h1 with h1 | h1 | h1
  · exact ⟨.inl h1, h2⟩
  · exact ⟨.inr (.inl h1), h2⟩
  · exact ⟨.inr (.inr (.inl h1)), h2⟩

/-- `fixAll` on a program all of whose statements are in one of the FOUR classes: same outcome kind, and statement
by statement `FinalRelNeg` -/
theorem reloc_fixAll_neg (h : PW (RelocOut D) as as')
    (hcov : ∀ (i : Nat) (s : Stmt), as[i]? = some s →
      Unmoved D as s ∨ Moved D as s ∨ MovedMod D as s ∨ MovedNeg as s) :
    OutRel (PW (FinalRelNeg D)) (fixAll as 0 as) (fixAll as' 0 as') := by
  refine fixAll_outRel as as' 0 h.1 ?_
  intro j s s' hs hs'
  simp only [Nat.zero_add]
  have hrel := (h.2 j s s' hs hs').2
  rcases hcov j s hs with hc | hc | hc | hc
  · refine OutRel.of_eq_map (reloc_fixFit_unmoved h hs hs' hc) ?_
    intro t ht
    obtain ⟨v, rfl⟩ := fixFit_keeps ht
    exact ⟨.inl rfl, rfl, hrel.2⟩
  · refine OutRel.of_eq_map (reloc_fixFit_moved h hs hs' hc) ?_
    intro t ht
    obtain ⟨v, rfl⟩ := fixFit_keeps ht
    exact ⟨.inr (.inl rfl), rfl, hrel.2⟩
  · refine OutRel.of_eq_map (reloc_fixFit_movedMod h hs hs' hc) ?_
    intro t ht
    obtain ⟨v, rfl⟩ := fixFit_keeps ht
    exact ⟨.inr (.inr (.inl rfl)), rfl, hrel.2⟩
  · refine OutRel.of_eq_map (reloc_fixFit_movedNeg h hs hs' hc) ?_
    intro t ht
    obtain ⟨v, rfl⟩ := fixFit_keeps ht
    exact ⟨.inr (.inr (.inr rfl)), rfl, hrel.2⟩

theorem FinalRelNeg.row_addr {t t' : Stmt} (h : FinalRelNeg D t t') :
    t'.row = t.row ∧ t'.pkg.address = shiftV D t.pkg.address := by
  obtain ⟨h1, _, hw⟩ := h
  refine ⟨?_, hw.shiftV⟩
  rcases h1 with h1 | h1 | h1 | h1 <;> rw [h1] <;> rfl

theorem FinalRelNeg.row_operand {t t' : Stmt} (h : FinalRelNeg D t t') :
    t'.row = t.row ∧ t'.operand = t.operand := by
  obtain ⟨h1, _⟩ := h
  rcases h1 with h1 | h1 | h1 | h1 <;> rw [h1] <;> exact ⟨rfl, rfl⟩

theorem FinalRelNeg.toAddl {t t' : Stmt} (h : FinalRelNeg D t t') : AddlRel D t t' := h.1

theorem FinalRelNeg.listStable : ListStable (FinalRelNeg D) where
  operand h := h.toAddl.operand
  list h := h.toAddl.list
  nonlist h := h.toAddl.nonlist
  set v h _ := ⟨.inl (h.toAddl.set v), h.2⟩

/-- (model batch 8) `fixAll` and then the list pass, four classes -/
theorem reloc_fixAllL_neg (h : PW (RelocOut D) as as')
    (hcov : ∀ (i : Nat) (s : Stmt), as[i]? = some s →
      Unmoved D as s ∨ Moved D as s ∨ MovedMod D as s ∨ MovedNeg as s) (t : SymTab)
    (hlist : ∀ (i : Nat) (s : Stmt), as[i]? = some s → ListsConst t s) :
    OutRel (PW (FinalRelNeg D)) (fixAllL t as) (fixAllL t as') :=
  fixAllL_outRel FinalRelNeg.listStable t (reloc_fixAll_neg h hcov)
    (fun _ hf => fixAll_listsConst (addrOf_numeric (RelocOut.addrShift h)) hlist hf)

/-- as `AsmRelMod`, statements related by `FinalRelNeg` -/
def AsmRelNeg (D : Nat) (t : SymTab) (A B : Assembly) : Prop :=
  PW (FinalRelNeg D) A.stmts B.stmts ∧
  B.symtab = List.zipWith (fun (kv kw : Str × Value) => (kw.1, if kv.2.isAddress then shiftV D kw.2 else kw.2))
    t A.symtab ∧
  B.origin = shiftV D A.origin ∧ B.name = A.name

/-- (d, four classes) `fixAll`, `evalSyms`, `finalSymTab`, origin and name: identical outcome kind, results related by
`AsmRelNeg`; `hequ` as in `reloc_finish` -/
theorem reloc_finish_neg (h : PW (RelocOut D) as as')
    (hcov : ∀ (i : Nat) (s : Stmt), as[i]? = some s →
      Unmoved D as s ∨ Moved D as s ∨ MovedMod D as s ∨ MovedNeg as s) (t : SymTab)
    (hequ : NoLabelEqu t) (hlist : ∀ (i : Nat) (s : Stmt), as[i]? = some s → ListsConst t s) :
    OutRel (AsmRelNeg D t) (finish t as) (finish t as') := by
  have hfix := reloc_fixAllL_neg h hcov t hlist
  unfold finish
  generalize fixAllL t as = o at hfix ⊢
  generalize fixAllL t as' = o' at hfix ⊢
  cases hfix with
  | ok hr =>
    rename_i fs fs'
    dsimp only
    have hsh : PW (AddrShift D) fs fs' := hr.mono (fun _ _ r => r.2)
    rw [evalSyms_const fs fs' t t hequ]
    cases he : evalSyms fs t t with
    | ok t1 =>
      dsimp only
      rw [finalSymTab_reloc hsh]
      cases finalSymTab fs t1 with
      | ok r =>
        simp only [Outcome.map_ok]
        refine .ok ⟨hr, zipWith_evalSyms (shiftV D) he r, ?_, ?_⟩
        · exact origin_reloc fs fs' .none (hr.mono (fun _ _ r => r.row_addr))
        · exact name_reloc fs fs' none (hr.mono (fun _ _ r => r.row_operand))
      | diag => exact .diag
      | internal => exact .internal
      | diverged => exact .diverged
    | diag => exact .diag
    | internal => exact .internal
    | diverged => exact .diverged
  | diag => exact .diag
  | internal => exact .internal
  | diverged => exact .diverged

/-! ### (d, model batch 4) the finer statement: EQUs defined by label expressions -/

/-- the final symbol tables `r` (original) and `r'` (relocated), entry by entry along the table `t` built from the
labels: the same key, and values related by `EquRel` — a label moves by `D`, an EQU that is not defined by a label
expression stays, an EQU defined by a label expression moves like that expression (`label ± k` by `D`, `label ± N` by
`D` modulo `$10000`, `label - label` not at all, `number - label` by MINUS `D` modulo `$10000`) -/
def SymRel (D : Nat) (as : List Stmt) (t r r' : SymTab) : Prop :=
  ∀ (j : Nat) (k : Str) (v : Value), t[j]? = some (k, v) →
    ∃ x x', r[j]? = some (k, x) ∧ r'[j]? = some (k, x') ∧ EquRel D as t v x x'

/-- as `AsmRelNeg`, with the symbol tables related by `SymRel` -/
def AsmRelEqu (D : Nat) (as : List Stmt) (t : SymTab) (A B : Assembly) : Prop :=
  PW (FinalRelNeg D) A.stmts B.stmts ∧
  A.symtab.length = t.length ∧ B.symtab.length = t.length ∧ SymRel D as t A.symtab B.symtab ∧
  B.origin = shiftV D A.origin ∧ B.name = A.name

/-- (d, four classes, EQUs defined by label expressions allowed) `fixAll`, `evalSyms`, `finalSymTab`, origin and name
for a program all of whose statements are in one of the four classes and all of whose table entries are labels, EQUs not
defined by a label expression, or EQUs defined by a label expression of one of the four expression classes
(`EquCovered`): identical outcome kind, results related by `AsmRelEqu` -/
theorem reloc_finish_equ (h : PW (RelocOut D) as as')
    (hcov : ∀ (i : Nat) (s : Stmt), as[i]? = some s →
      Unmoved D as s ∨ Moved D as s ∨ MovedMod D as s ∨ MovedNeg as s) (t : SymTab)
    (hequ : ∀ kv ∈ t, EquCovered D as t kv.2)
    (hlist : ∀ (i : Nat) (s : Stmt), as[i]? = some s → ListsConst t s) :
    OutRel (AsmRelEqu D as t) (finish t as) (finish t as') := by
  have hfix := reloc_fixAllL_neg h hcov t hlist
  have hI : PW (AddrShiftI D) as as' := RelocOut.addrShiftI h
  unfold finish
  generalize hfa : fixAllL t as = o at hfix ⊢
  generalize hfb : fixAllL t as' = o' at hfix ⊢
  cases hfix with
  | ok hr =>
    rename_i fs fs'
    dsimp only
    have hsh : PW (AddrShift D) fs fs' := hr.mono (fun _ _ r => r.2)
    have hs := fixAllL_sameAddr hfa
    have hs' := fixAllL_sameAddr hfb
    have hev := evalSyms_outRel hI t t hequ
    rw [← evalSyms_sameAddr hs, ← evalSyms_sameAddr hs'] at hev
    generalize he : evalSyms fs t t = o1 at hev ⊢
    generalize he' : evalSyms fs' t t = o1' at hev ⊢
    cases hev with
    | ok hp =>
      rename_i t1 t1'
      dsimp only
      have hfin := finalSymTab_outRel (hsh.mono (fun _ _ => AddrShift.toI)) t1 t1' hp
      generalize hf : finalSymTab fs t1 = o2 at hfin ⊢
      generalize hf' : finalSymTab fs' t1' = o2' at hfin ⊢
      cases hfin with
      | ok _ =>
        rename_i r r'
        dsimp only
        refine .ok ⟨hr, ?_, ?_, ?_, ?_, ?_⟩
        · exact (finalSymTab_length hf).trans (evalSyms_length he)
        · exact (finalSymTab_length hf').trans (evalSyms_length he')
        · intro j k v hj
          exact symtab_reloc_entry hI hs hs' hsh he he' hf hf' hj
        · exact origin_reloc fs fs' .none (hr.mono (fun _ _ r => r.row_addr))
        · exact name_reloc fs fs' none (hr.mono (fun _ _ r => r.row_operand))
      | diag => exact .diag
      | internal => exact .internal
      | diverged => exact .diverged
    | diag => exact .diag
    | internal => exact .internal
    | diverged => exact .diverged
  | diag => exact .diag
  | internal => exact .internal
  | diverged => exact .diverged

/-- (d, finer statement, read off) a table without EQUs defined by label expressions is covered -/
theorem equCovered_of_noLabelEqu {as : List Stmt} {t : SymTab} (h : NoLabelEqu t) : ∀ kv ∈ t, EquCovered D as t kv.2 := by
  intro kv hkv
  by_cases ha : kv.2.isAddress = true
  · exact .inl ha
  · exact .inr (.inl ⟨by simpa using ha, h kv hkv⟩)

end negative

/-! ## the special case of the task statement: one ORG, on the first line -/

/-- the first statement is the only one with a preset address -/
def SingleOrgFirst (ss : List Stmt) : Prop :=
  ∃ s0 r0 o m, ss = s0 :: r0 ∧ s0.pkg.address = .numeric o (some 4) m false ∧ ∀ s ∈ r0, s.pkg.address = .none

/-- move the address of the first statement by `D` -/
def relocate (D : Nat) : List Stmt → List Stmt
  | [] => []
  | s0 :: r0 => s0.setAddress (shiftV D s0.pkg.address) :: r0

theorem relocIn_of_singleOrgFirst {D : Nat} {ss : List Stmt} (h : SingleOrgFirst ss) :
    PW (RelocIn D) ss (relocate D ss) ∧ StartsWithOrg ss := by
  obtain ⟨s0, r0, o, m, rfl, ha, hr⟩ := h
  refine ⟨?_, s0, r0, o, m, rfl, ha⟩
  refine .cons (.inr ⟨o, m, ha, by rw [ha]; rfl⟩) ⟨rfl, ?_⟩
  intro j s s' h1 h2
  rw [h1] at h2; cases h2
  exact .inl ⟨hr s (List.mem_of_getElem? h1), rfl⟩

theorem orgBounds_of_singleOrgFirst {D : Nat} {s0 : Stmt} {r0 : List Stmt} {o : Nat} {m : Mode}
    (ha : s0.pkg.address = .numeric o (some 4) m false) (hr : ∀ s ∈ r0, s.pkg.address = .none)
    (h1 : 256 ≤ o) (h2 : o + D < 65536) : OrgBounds D (s0 :: r0) := by
  intro s hs o' h' m' n' hq
  rcases List.mem_cons.mp hs with rfl | hs
  · rw [ha] at hq; cases hq; exact ⟨h1, h2⟩
  · rw [hr s hs] at hq; cases hq

/-! ## (i) any origin: moves across `$100` included

Since `fit_operand_width` every operand field is rendered at the width the instruction form dictates, so the CODE of a
program does not depend on how its address values are rendered (one byte, DIRECT, below `$100`; two bytes from `$100`
on).  The theorems below are (a)–(d), (f)–(h) without the lower bound `256 ≤ o` on the ORG values: the layouts are
related by `AddrShiftAny` (numbers `D` apart, inside the 64K space, any rendering), operand fields and emitted bytes exactly
as before, and the final symbol table, the statement addresses and the origin at int level (`EquRelAny`, `IntAddr`,
`OriginAny`).  The one new hypothesis is `RefFitted` on the statements whose operand is a plain label: they are not
among the directives `fit_operand_width` skips.  It holds of every statement of an accepted program
(`stages_refFitted`, Props/C18RelocSrc.lean), so the theorems about parsed programs and source text do not ask for it. -/

section anyOrigin
variable {D : Nat}

/-- every preset address stays inside the 64K space when moved (`OrgBounds` without the lower bound `$100`) -/
def OrgBoundsAny (D : Nat) (ss : List Stmt) : Prop :=
  ∀ s ∈ ss, ∀ o h m n, s.pkg.address = .numeric o h m n → o + D < 65536

theorem OrgBounds.any {ss : List Stmt} (h : OrgBounds D ss) : OrgBoundsAny D ss :=
  fun s hs o hh m n ha => (h s hs o hh m n ha).2

/-- after `assignAddrs`, any origin: equal except for the address; the addresses are numbers `a`, `a + D` inside the
64K space, rendered in any way -/
def RelocOutAny (D : Nat) (s s' : Stmt) : Prop :=
  s' = s.setAddress s'.pkg.address ∧ AddrShiftAny D s s'

theorem RelocOut.any {s s' : Stmt} (h : RelocOut D s s') : RelocOutAny D s s' := ⟨h.1, h.2.toAny⟩

theorem RelocOutAny.addrShiftAny {as as' : List Stmt} (h : PW (RelocOutAny D) as as') : PW (AddrShiftAny D) as as' :=
  h.mono (fun _ _ r => r.2)

theorem RelocOutAny.addrShiftI {as as' : List Stmt} (h : PW (RelocOutAny D) as as') : PW (AddrShiftI D) as as' :=
  h.mono (fun _ _ r => r.2.toI)

/-! ### (a) address assignment -/

section assignAny
variable {ss ss' : List Stmt}

/-- (a, any origin) both laid out: statement by statement, equal except for the address, and the addresses are
numbers `D` apart inside the 64K space -/
theorem reloc_assign_rel_any (hin : PW (RelocIn D) ss ss') (h0 : StartsWithOrg ss) (hb : OrgBoundsAny D ss)
    {as as' : List Stmt} (h : assignAddrs ss 0 = .ok as) (h' : assignAddrs ss' 0 = .ok as') :
    PW (RelocOutAny D) as as' := by
  have hw : PW (AddrShiftAny D) as as' := by
    obtain ⟨s0, r0, o, m, rfl, ha⟩ := h0
    obtain ⟨s0', r0', rfl, ha'⟩ := relocIn_head hin ha
    have h'' := h'
    rw [assignAddrs_head_preset ha' 0 (0 + D)] at h''
    exact assignAddrs_reloc_any D _ _ 0 as as' (hin.mono (fun _ _ => RelocIn.orgShift)) (relocIn_orgWide hin)
      hb h h''
  have h1 := assignAddrs_pw h
  have h2 := assignAddrs_pw h'
  refine ⟨hw.1, ?_⟩
  intro j s s' hs hs'
  refine ⟨?_, hw.2 j s s' hs hs'⟩
  obtain ⟨x, hx, v, rfl⟩ := h1.get' hs
  obtain ⟨x', hx', v', rfl⟩ := h2.get' hs'
  rcases hin.2 j x x' hx hx' with ⟨_, rfl⟩ | ⟨o, m, _, rfl⟩ <;> rfl

/-- (a, any origin) acceptance: the relocated program is laid out iff the original one is and no statement address
leaves the 64K space (`reloc_assign_iff` without the lower bound on the ORG values) -/
theorem reloc_assign_iff_any (hin : PW (RelocIn D) ss ss') (h0 : StartsWithOrg ss) (hb : OrgBoundsAny D ss) :
    (∃ as', assignAddrs ss' 0 = .ok as') ↔
      ∃ as, assignAddrs ss 0 = .ok as ∧ ∀ s ∈ as, ∀ n, addrNat s = some n → n + D < 65536 := by
  constructor
  · rintro ⟨as', h'⟩
    obtain ⟨as, h, _⟩ := reloc_assign_bwd hin h0 h'
    refine ⟨as, h, ?_⟩
    intro s hs n hn
    have hout := reloc_assign_rel_any hin h0 hb h h'
    obtain ⟨j, hj⟩ := List.getElem?_of_mem hs
    obtain ⟨s', _, _, _, hw⟩ := hout.get hj
    obtain ⟨a, e1, _, hlt⟩ := hw.int
    simp only [addrNat] at hn
    rw [e1] at hn; cases hn
    exact hlt
  · rintro ⟨as, h, hlt⟩
    obtain ⟨as', h', _⟩ := reloc_assign_fwd hin h0 h hlt
    exact ⟨as', h'⟩

end assignAny

/-! ### (b) `fixFit`, (c) bytes -/

section fixAny
variable {as as' : List Stmt}

/-- (b, moved, any origin), general form -/
theorem reloc_fixFit_moved_any' (h : PW (AddrShiftAny D) as as') {i : Nat} {s s' : Stmt}
    (he : s' = s.setAddress s'.pkg.address) (hc : Moved D as s) (hfit : RefFitted s) :
    fixFit as' i s' = (fixFit as i s).map (fun t => (t.shiftAdditional D).setAddress s'.pkg.address) := by
  have : fixFit as' i s' = fixFit as' i (s.setAddress s'.pkg.address) := by rw [← he]
  rw [this, fixFit_setAddress, fixFit_moved_any h i hc hfit, outcome_map_map]

/-- (c, moved, any origin), general form: the code ends with a 16-bit big-endian field holding `x` resp. `x + D`;
the bytes before that field (op code, post byte) are identical -/
theorem reloc_bytes_moved_any' (h : PW (AddrShiftAny D) as as') {i : Nat} {s s' t t' : Stmt}
    (he : s' = s.setAddress s'.pkg.address) (hc : Moved D as s) (hfit : RefFitted s)
    (ht : fixFit as i s = .ok t) (ht' : fixFit as' i s' = .ok t') {bs : Bytes} (hb : stmtBytes t = some bs) :
    t' = (t.shiftAdditional D).setAddress s'.pkg.address ∧
    ∃ pre x, t.pkg.additional.int? = some x ∧ x + D < 65536 ∧ bs = pre ++ [x / 256, x % 256] ∧
      stmtBytes t' = some (pre ++ [(x + D) / 256, (x + D) % 256]) := by
  rw [reloc_fixFit_moved_any' h he hc hfit, ht] at ht'
  simp only [Outcome.map_ok, Outcome.ok.injEq] at ht'
  subst ht'
  refine ⟨rfl, ?_⟩
  rw [stmtBytes_setAddress]
  exact stmtBytes_shiftAdditional (fixFit_moved_wide_any h i hc hfit ht) hb

/-- (b, unmoved, any origin) the outcome of `fix_addresses; fit_operand_width` is IDENTICAL (up to the statement's
own address field) -/
theorem reloc_fixFit_unmoved_any (h : PW (RelocOutAny D) as as') {i : Nat} {s s' : Stmt}
    (hs : as[i]? = some s) (hs' : as'[i]? = some s') (hc : Unmoved D as s) :
    fixFit as' i s' = (fixFit as i s).map (·.setAddress s'.pkg.address) :=
  reloc_fixFit_unmoved' (RelocOutAny.addrShiftI h) (h.2 i s s' hs hs').1 hc

/-- (b, moved, any origin) the same outcome, the stored operand value moved by `D` -/
theorem reloc_fixFit_moved_any (h : PW (RelocOutAny D) as as') {i : Nat} {s s' : Stmt}
    (hs : as[i]? = some s) (hs' : as'[i]? = some s') (hc : Moved D as s) (hfit : RefFitted s) :
    fixFit as' i s' = (fixFit as i s).map (fun t => (t.shiftAdditional D).setAddress s'.pkg.address) :=
  reloc_fixFit_moved_any' (RelocOutAny.addrShiftAny h) (h.2 i s s' hs hs').1 hc hfit

/-- (b, moved modulo, any origin) -/
theorem reloc_fixFit_movedMod_any (h : PW (RelocOutAny D) as as') {i : Nat} {s s' : Stmt}
    (hs : as[i]? = some s) (hs' : as'[i]? = some s') (hc : MovedMod D as s) :
    fixFit as' i s' = (fixFit as i s).map (fun t => (t.shiftAdditionalMod D).setAddress s'.pkg.address) :=
  reloc_fixFit_movedMod' (RelocOutAny.addrShiftI h) (h.2 i s s' hs hs').1 hc

/-- (b, moved backwards, any origin) -/
theorem reloc_fixFit_movedNeg_any (h : PW (RelocOutAny D) as as') {i : Nat} {s s' : Stmt}
    (hs : as[i]? = some s) (hs' : as'[i]? = some s') (hc : MovedNeg as s) :
    fixFit as' i s' = (fixFit as i s).map (fun t => (t.shiftAdditionalNeg D).setAddress s'.pkg.address) :=
  reloc_fixFit_movedNeg' (RelocOutAny.addrShiftI h) (h.2 i s s' hs hs').1 hc

/-- (c, unmoved, any origin) byte-for-byte identical code -/
theorem reloc_bytes_unmoved_any (h : PW (RelocOutAny D) as as') {i : Nat} {s s' t t' : Stmt}
    (hs : as[i]? = some s) (hs' : as'[i]? = some s') (hc : Unmoved D as s)
    (ht : fixFit as i s = .ok t) (ht' : fixFit as' i s' = .ok t') :
    t' = t.setAddress s'.pkg.address ∧ stmtBytes t' = stmtBytes t :=
  reloc_bytes_unmoved' (RelocOutAny.addrShiftI h) (h.2 i s s' hs hs').1 hc ht ht'

/-- (c, moved, any origin) the code ends with a 16-bit big-endian field holding `x` resp. `x + D`; the bytes before
that field (op code, post byte) are identical -/
theorem reloc_bytes_moved_any (h : PW (RelocOutAny D) as as') {i : Nat} {s s' t t' : Stmt}
    (hs : as[i]? = some s) (hs' : as'[i]? = some s') (hc : Moved D as s) (hfit : RefFitted s)
    (ht : fixFit as i s = .ok t) (ht' : fixFit as' i s' = .ok t') {bs : Bytes} (hb : stmtBytes t = some bs) :
    t' = (t.shiftAdditional D).setAddress s'.pkg.address ∧
    ∃ pre x, t.pkg.additional.int? = some x ∧ x + D < 65536 ∧ bs = pre ++ [x / 256, x % 256] ∧
      stmtBytes t' = some (pre ++ [(x + D) / 256, (x + D) % 256]) :=
  reloc_bytes_moved_any' (RelocOutAny.addrShiftAny h) (h.2 i s s' hs hs').1 hc hfit ht ht' hb

/-- (c, moved modulo, any origin) -/
theorem reloc_bytes_movedMod_any (h : PW (RelocOutAny D) as as') {i : Nat} {s s' t t' : Stmt}
    (hs : as[i]? = some s) (hs' : as'[i]? = some s') (hc : MovedMod D as s)
    (ht : fixFit as i s = .ok t) (ht' : fixFit as' i s' = .ok t') {bs : Bytes} (hb : stmtBytes t = some bs) :
    t' = (t.shiftAdditionalMod D).setAddress s'.pkg.address ∧
    ∃ pre x, t.pkg.additional.int? = some x ∧ x < 65536 ∧ bs = pre ++ [x / 256, x % 256] ∧
      stmtBytes t' = some (pre ++ [(x + D) % 65536 / 256, (x + D) % 65536 % 256]) :=
  reloc_bytes_movedMod' (RelocOutAny.addrShiftI h) (h.2 i s s' hs hs').1 hc ht ht' hb

/-- (c, moved backwards, any origin) -/
theorem reloc_bytes_movedNeg_any (h : PW (RelocOutAny D) as as') {i : Nat} {s s' t t' : Stmt}
    (hs : as[i]? = some s) (hs' : as'[i]? = some s') (hc : MovedNeg as s)
    (ht : fixFit as i s = .ok t) (ht' : fixFit as' i s' = .ok t') {bs : Bytes} (hb : stmtBytes t = some bs) :
    t' = (t.shiftAdditionalNeg D).setAddress s'.pkg.address ∧
    ∃ pre x y, t.pkg.additional.int? = some x ∧ x < 65536 ∧ y < 65536 ∧ (y + D) % 65536 = x ∧
      bs = pre ++ [x / 256, x % 256] ∧ stmtBytes t' = some (pre ++ [y / 256, y % 256]) :=
  reloc_bytes_movedNeg' (RelocOutAny.addrShiftI h) (h.2 i s s' hs hs').1 hc ht ht' hb

end fixAny

/-! ### (d) the whole back end after `assignAddrs` -/

section wholeAny
variable {as as' : List Stmt}

/-- after `fixAll`, four classes, any origin: equal except for the address and — for moved statements — the operand
field (as `FinalRelNeg`); the addresses are numbers `D` apart inside the 64K space -/
def FinalRelAny (D : Nat) (t t' : Stmt) : Prop :=
  (t' = t.setAddress t'.pkg.address ∨ t' = (t.shiftAdditional D).setAddress t'.pkg.address ∨
    t' = (t.shiftAdditionalMod D).setAddress t'.pkg.address ∨
    t' = (t.shiftAdditionalNeg D).setAddress t'.pkg.address) ∧ AddrShiftAny D t t'

theorem FinalRelNeg.any {t t' : Stmt} (h : FinalRelNeg D t t') : FinalRelAny D t t' := ⟨h.1, h.2.toAny⟩

/-- the statement classes of a program at any origin: `Unmoved`; `Moved` with `RefFitted`; `MovedMod`; `MovedNeg` -/
def CoveredAny (D : Nat) (as : List Stmt) (s : Stmt) : Prop :=
  Unmoved D as s ∨ (Moved D as s ∧ RefFitted s) ∨ MovedMod D as s ∨ MovedNeg as s

/-- `fixAll` on a program at any origin all of whose statements are in one of the four classes: same outcome kind, and
statement by statement `FinalRelAny` -/
theorem reloc_fixAll_any (h : PW (RelocOutAny D) as as')
    (hcov : ∀ (i : Nat) (s : Stmt), as[i]? = some s → CoveredAny D as s) :
    OutRel (PW (FinalRelAny D)) (fixAll as 0 as) (fixAll as' 0 as') := by
  refine fixAll_outRel as as' 0 h.1 ?_
  intro j s s' hs hs'
  simp only [Nat.zero_add]
  have hrel := (h.2 j s s' hs hs').2
  rcases hcov j s hs with hc | ⟨hc, hfit⟩ | hc | hc
  · refine OutRel.of_eq_map (reloc_fixFit_unmoved_any h hs hs' hc) ?_
    intro t ht
    obtain ⟨v, rfl⟩ := fixFit_keeps ht
    exact ⟨.inl rfl, rfl, hrel.2⟩
  · refine OutRel.of_eq_map (reloc_fixFit_moved_any h hs hs' hc hfit) ?_
    intro t ht
    obtain ⟨v, rfl⟩ := fixFit_keeps ht
    exact ⟨.inr (.inl rfl), rfl, hrel.2⟩
  · refine OutRel.of_eq_map (reloc_fixFit_movedMod_any h hs hs' hc) ?_
    intro t ht
    obtain ⟨v, rfl⟩ := fixFit_keeps ht
    exact ⟨.inr (.inr (.inl rfl)), rfl, hrel.2⟩
  · refine OutRel.of_eq_map (reloc_fixFit_movedNeg_any h hs hs' hc) ?_
    intro t ht
    obtain ⟨v, rfl⟩ := fixFit_keeps ht
    exact ⟨.inr (.inr (.inr rfl)), rfl, hrel.2⟩

theorem FinalRelAny.toAddl {t t' : Stmt} (h : FinalRelAny D t t') : AddlRel D t t' := h.1

theorem FinalRelAny.listStable : ListStable (FinalRelAny D) where
  operand h := h.toAddl.operand
  list h := h.toAddl.list
  nonlist h := h.toAddl.nonlist
  set v h _ := ⟨.inl (h.toAddl.set v), h.2⟩

/-- (model batch 8) `fixAll` and then the list pass, any origin -/
theorem reloc_fixAllL_any (h : PW (RelocOutAny D) as as')
    (hcov : ∀ (i : Nat) (s : Stmt), as[i]? = some s → CoveredAny D as s) (t : SymTab)
    (hlist : ∀ (i : Nat) (s : Stmt), as[i]? = some s → ListsConst t s) :
    OutRel (PW (FinalRelAny D)) (fixAllL t as) (fixAllL t as') :=
  fixAllL_outRel FinalRelAny.listStable t (reloc_fixAll_any h hcov)
    (fun _ hf => fixAll_listsConst (addrOf_numeric_any (RelocOutAny.addrShiftAny h)) hlist hf)

theorem FinalRelAny.row_addr {t t' : Stmt} (h : FinalRelAny D t t') :
    t'.row = t.row ∧ IntAddr D t.pkg.address t'.pkg.address := by
  obtain ⟨h1, _, hw⟩ := h
  refine ⟨?_, hw⟩
  rcases h1 with h1 | h1 | h1 | h1 <;> rw [h1] <;> rfl

theorem FinalRelAny.row_operand {t t' : Stmt} (h : FinalRelAny D t t') :
    t'.row = t.row ∧ t'.operand = t.operand := by
  obtain ⟨h1, _⟩ := h
  rcases h1 with h1 | h1 | h1 | h1 <;> rw [h1] <;> exact ⟨rfl, rfl⟩

/-- as `SymRel`, a label's values related at int level (`EquRelAny`) -/
def SymRelAny (D : Nat) (as : List Stmt) (t r r' : SymTab) : Prop :=
  ∀ (j : Nat) (k : Str) (v : Value), t[j]? = some (k, v) →
    ∃ x x', r[j]? = some (k, x) ∧ r'[j]? = some (k, x') ∧ EquRelAny D as t v x x'

/-- as `AsmRelEqu`, at any origin: statements related by `FinalRelAny`, symbol tables by `SymRelAny`, origins by
`OriginAny` -/
def AsmRelAny (D : Nat) (as : List Stmt) (t : SymTab) (A B : Assembly) : Prop :=
  PW (FinalRelAny D) A.stmts B.stmts ∧
  A.symtab.length = t.length ∧ B.symtab.length = t.length ∧ SymRelAny D as t A.symtab B.symtab ∧
  OriginAny D A.origin B.origin ∧ B.name = A.name

/-- (d, any origin, four classes, EQUs defined by label expressions allowed) `fixAll`, `evalSyms`, `finalSymTab`, origin
and name: identical outcome kind, results related by `AsmRelAny` (`reloc_finish_equ` without the lower bound on the ORG
values; `equCovered_of_noLabelEqu` gives `hequ` for a table without EQUs defined by label expressions) -/
theorem reloc_finish_any (h : PW (RelocOutAny D) as as')
    (hcov : ∀ (i : Nat) (s : Stmt), as[i]? = some s → CoveredAny D as s) (t : SymTab)
    (hequ : ∀ kv ∈ t, EquCovered D as t kv.2)
    (hlist : ∀ (i : Nat) (s : Stmt), as[i]? = some s → ListsConst t s) :
    OutRel (AsmRelAny D as t) (finish t as) (finish t as') := by
  have hfix := reloc_fixAllL_any h hcov t hlist
  have hI : PW (AddrShiftI D) as as' := RelocOutAny.addrShiftI h
  unfold finish
  generalize hfa : fixAllL t as = o at hfix ⊢
  generalize hfb : fixAllL t as' = o' at hfix ⊢
  cases hfix with
  | ok hr =>
    rename_i fs fs'
    dsimp only
    have hsh : PW (AddrShiftAny D) fs fs' := hr.mono (fun _ _ r => r.2)
    have hs := fixAllL_sameAddr hfa
    have hs' := fixAllL_sameAddr hfb
    have hev := evalSyms_outRel hI t t hequ
    rw [← evalSyms_sameAddr hs, ← evalSyms_sameAddr hs'] at hev
    generalize he : evalSyms fs t t = o1 at hev ⊢
    generalize he' : evalSyms fs' t t = o1' at hev ⊢
    cases hev with
    | ok hp =>
      rename_i t1 t1'
      dsimp only
      have hfin := finalSymTab_outRel (hsh.mono (fun _ _ => AddrShiftAny.toI)) t1 t1' hp
      generalize hf : finalSymTab fs t1 = o2 at hfin ⊢
      generalize hf' : finalSymTab fs' t1' = o2' at hfin ⊢
      cases hfin with
      | ok _ =>
        rename_i r r'
        dsimp only
        refine .ok ⟨hr, ?_, ?_, ?_, ?_, ?_⟩
        · exact (finalSymTab_length hf).trans (evalSyms_length he)
        · exact (finalSymTab_length hf').trans (evalSyms_length he')
        · intro j k v hj
          exact symtab_reloc_entry_any hI hs hs' hsh he he' hf hf' hj
        · exact origin_reloc_any fs fs' .none .none (.inl ⟨rfl, rfl⟩) (hr.mono (fun _ _ r => r.row_addr))
        · exact name_reloc fs fs' none (hr.mono (fun _ _ r => r.row_operand))
      | diag => exact .diag
      | internal => exact .internal
      | diverged => exact .diverged
    | diag => exact .diag
    | internal => exact .internal
    | diverged => exact .diverged
  | diag => exact .diag
  | internal => exact .internal
  | diverged => exact .diverged

end wholeAny

end anyOrigin

/-- one ORG, on the first line, at ANY address `o` with `o + D < $10000` -/
theorem orgBoundsAny_of_singleOrgFirst {D : Nat} {s0 : Stmt} {r0 : List Stmt} {o : Nat} {m : Mode}
    (ha : s0.pkg.address = .numeric o (some 4) m false) (hr : ∀ s ∈ r0, s.pkg.address = .none)
    (h2 : o + D < 65536) : OrgBoundsAny D (s0 :: r0) := by
  intro s hs o' h' m' n' hq
  rcases List.mem_cons.mp hs with rfl | hs
  · rw [ha] at hq; cases hq; exact h2
  · rw [hr s hs] at hq; cases hq

end CoCo.Props
