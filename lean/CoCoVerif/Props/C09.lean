/-
Props/C09.lean — adding or appending never disturbs stored files: what the sniffer says about tool-written
images, and histories of append-saves to one cassette / disk target.
-/
import CoCoVerif.Lemmas.VFHist
import CoCoVerif.Props.C08
import CoCoVerif.Props.C15

namespace CoCo.Props
open CoCo CoCo.VF

/-- **Known finding G1**: a cassette of at least the disk image size is handed to the disk reader first; the
exclusion predicate of the cassette sniffing theorem. -/
def K_C09_bigCassette (buf : Bytes) : Bool := decide (buf.length ≥ 161280)

/-- the history theorem's conclusion: the run succeeds, only `path` changes, and listing the final content with
`lst` returns every stored file (up to `nrm`) in the order stored -/
def HistOK (k : Kind) (path : Path) (fs : FS) (batches : List (List CFile))
    (lst : Bytes → Outcome (List CFile)) (nrm : CFile → CFile) : Prop :=
  ∃ fs' img, runHist k path fs batches = .ok fs' ∧ (∀ q, q ≠ path → fs'.get? q = fs.get? q) ∧
    fs'.get? path = some img ∧ lst img = .ok (batches.flatten.map nrm)

/-- **C09** at full strength: (1) tool-written disk images are sniffed as disks holding their files,
(2) tool-written cassettes are sniffed as cassettes holding their files, (3)/(4) every history of append-saves
to a fresh cassette / disk target (within capacity) ends with an image listing all files in order. -/
def C09_Statement : Prop :=
  (∀ (order : List Nat) (fs : List CFile) (img : Bytes),
     ValidOrder order → (∀ f ∈ fs, ValidDFile f) → Dsk.write order fs = .ok img →
       sniff img = .ok (fs.map Dsk.norm, .disk)) ∧
  (∀ fs : List CFile, (∀ f ∈ fs, AsciiName f.name) → (∀ f ∈ fs, ValidFile f) →
       sniff (Cas.write fs) = .ok (fs.map Cas.norm, .cassette)) ∧
  (∀ (path : Path) (fs : FS) (batches : List (List CFile)), fs.get? path = none → batches ≠ [] →
     (∀ b ∈ batches, ∀ f ∈ b, AsciiName f.name ∧ ValidFile f) →
       HistOK .cassette path fs batches Cas.list Cas.norm) ∧
  (∀ (path : Path) (fs : FS) (batches : List (List CFile)) (img : Bytes), fs.get? path = none → batches ≠ [] →
     (∀ b ∈ batches, ∀ f ∈ b, ValidDFile f) →
     Dsk.write Gen.granuleFillOrder batches.flatten = .ok img →
       HistOK .disk path fs batches Dsk.list Dsk.norm)

/-! ### (T1) sniffing -/

theorem sniff_written_disk {order : List Nat} {fs : List CFile} {img : Bytes} (ho : ValidOrder order)
    (hv : ∀ f ∈ fs, ValidDFile f) (hw : Dsk.write order fs = .ok img) :
    sniff img = .ok (fs.map Dsk.norm, .disk) :=
  sniff_dsk_write ho hv hw

/-- exclusions: E1 (inherited from C06) and G1 (`K_C09_bigCassette`) -/
theorem sniff_written_cassette (fs : List CFile) (hn : ∀ f ∈ fs, AsciiName f.name)
    (hv : ∀ f ∈ fs, ValidFile f) (hK : ∀ f ∈ fs, K_C06_emptyData f.data = false)
    (hlen : (Cas.write fs).length < 161280) :
    sniff (Cas.write fs) = .ok (fs.map Cas.norm, .cassette) :=
  sniff_cas_write fs hn hv hK hlen

/-- the same with the exclusion predicate spelled out -/
theorem sniff_written_cassette_K (fs : List CFile) (hn : ∀ f ∈ fs, AsciiName f.name)
    (hv : ∀ f ∈ fs, ValidFile f) (hK : ∀ f ∈ fs, K_C06_emptyData f.data = false)
    (hG : K_C09_bigCassette (Cas.write fs) = false) :
    sniff (Cas.write fs) = .ok (fs.map Cas.norm, .cassette) :=
  sniff_cas_write fs hn hv hK (by simpa [K_C09_bigCassette] using hG)

/-! ### (T2) normalisation and histories -/

theorem cas_fileBytes_norm (f : CFile) : Cas.fileBytes (Cas.norm f) = Cas.fileBytes f := fileBytes_norm f
theorem cas_write_norm (fs : List CFile) : Cas.write (fs.map Cas.norm) = Cas.write fs := write_map_norm fs
theorem cas_norm_idem (f : CFile) : Cas.norm (Cas.norm f) = Cas.norm f := norm_norm f

/-- the disk writer does not see normalisation either, for names without blanks or NULs -/
theorem dsk_addFile_norm (order : List Nat) (b : Bytes) (f : CFile) (hs : NoSpace f) :
    Dsk.addFile order b (Dsk.norm f) = Dsk.addFile order b f := addFile_norm order b f hs

theorem CasOK_flatten {batches : List (List CFile)} (h : ∀ b ∈ batches, CasOK b) : CasOK batches.flatten := by
  refine ⟨?_, ?_, ?_⟩ <;> intro f hf <;> obtain ⟨b, hb, hfb⟩ := List.mem_flatten.mp hf
  · exact (h b hb).1 f hfb
  · exact (h b hb).2.1 f hfb
  · exact (h b hb).2.2 f hfb

/-- **cassette histories**: batches appended one after the other to a fresh target. Every intermediate image is
re-opened (sniffed, listed) and rewritten; the final content is byte for byte the cassette written from all
files in the order given, and listing it returns every file, unchanged up to `Cas.norm`, new ones last.
Exclusions: E1 on every file, G1 on every intermediate image (the final one may be of any size). -/
theorem hist_cassette (path : Path) (fs : FS) (batches : List (List CFile))
    (hfresh : fs.get? path = none) (hne : batches ≠ [])
    (hok : ∀ b ∈ batches, CasOK b)
    (hlen : ∀ i, i < batches.length → (Cas.write (batches.take i).flatten).length < 161280) :
    ∃ fs', runHist .cassette path fs batches = .ok fs' ∧
      (∀ q, q ≠ path → fs'.get? q = fs.get? q) ∧
      fs'.get? path = some (Cas.write batches.flatten) ∧
      Cas.list (Cas.write batches.flatten) = .ok (batches.flatten.map Cas.norm) := by
  cases batches with
  | nil => exact absurd rfl hne
  | cons b rest =>
    obtain ⟨fs', hr, hfr, hget⟩ := runHist_cas_fresh path fs b rest hfresh hok hlen
    obtain ⟨h1, h2, h3⟩ := CasOK_flatten hok
    exact ⟨fs', hr, hfr, hget, C06_roundtrip_partial _ h1 h2 h3⟩

/-- the instance the task names: the empty host file system -/
theorem hist_cassette_empty_fs (path : Path) (batches : List (List CFile)) (hne : batches ≠ [])
    (hok : ∀ b ∈ batches, CasOK b)
    (hlen : ∀ i, i < batches.length → (Cas.write (batches.take i).flatten).length < 161280) :
    ∃ fs', runHist .cassette path [] batches = .ok fs' ∧
      fs'.get? path = some (Cas.write batches.flatten) ∧
      Cas.list (Cas.write batches.flatten) = .ok (batches.flatten.map Cas.norm) := by
  obtain ⟨fs', h1, _, h3, h4⟩ := hist_cassette path [] batches rfl hne hok hlen
  exact ⟨fs', h1, h3, h4⟩

theorem DskOK_flatten {batches : List (List CFile)} (h : ∀ b ∈ batches, DskOK b) : DskOK batches.flatten := by
  refine ⟨?_, ?_⟩ <;> intro f hf <;> obtain ⟨b, hb, hfb⟩ := List.mem_flatten.mp hf
  · exact (h b hb).1 f hfb
  · exact (h b hb).2 f hfb

/-- **disk histories** (default fill order): as for cassettes; "within capacity" is the success of the write of
all files (which implies the success of every intermediate write). Extra hypothesis: `NoSpace` names. -/
theorem hist_disk (path : Path) (fs : FS) (batches : List (List CFile)) (img : Bytes)
    (hfresh : fs.get? path = none) (hne : batches ≠ [])
    (hok : ∀ b ∈ batches, DskOK b)
    (hw : Dsk.write Gen.granuleFillOrder batches.flatten = .ok img) :
    ∃ fs', runHist .disk path fs batches = .ok fs' ∧
      (∀ q, q ≠ path → fs'.get? q = fs.get? q) ∧
      fs'.get? path = some img ∧
      Dsk.list img = .ok (batches.flatten.map Dsk.norm) ∧
      Spec.DiskBasic.Fsck img := by
  cases batches with
  | nil => exact absurd rfl hne
  | cons b rest =>
    obtain ⟨fs', hr, hfr, hget⟩ := runHist_dsk_fresh path fs b rest img hfresh hok hw
    have hv := (DskOK_flatten hok).1
    exact ⟨fs', hr, hfr, hget, C07_write_list _ _ _ validOrder_default hv hw,
      (C08_full _ _ _ validOrder_default hv hw).1⟩

/-- single step on a disk target that holds a tool-written image -/
theorem step_disk (fs : FS) (path : Path) (done batch : List CFile) (img img' : Bytes)
    (hg : fs.get? path = some img) (hwd : Dsk.write Gen.granuleFillOrder done = .ok img)
    (hok : DskOK done) (hw : Dsk.write Gen.granuleFillOrder (done ++ batch) = .ok img') :
    storeTo fs path .disk batch true = .ok (fs.set path img') :=
  storeTo_dsk_reopen fs path done batch img img' hg hwd hok.1 hok.2 hw

/-- **C09_partial**: the four parts of `C09_Statement` under the exclusions E1 (`K_C06_emptyData`), G1
(`K_C09_bigCassette`, on the sniffed images only) and the `NoSpace` hypothesis of the disk history. -/
theorem C09_partial :
    (∀ (order : List Nat) (fs : List CFile) (img : Bytes),
       ValidOrder order → (∀ f ∈ fs, ValidDFile f) → Dsk.write order fs = .ok img →
         sniff img = .ok (fs.map Dsk.norm, .disk)) ∧
    (∀ fs : List CFile, (∀ f ∈ fs, AsciiName f.name) → (∀ f ∈ fs, ValidFile f) →
       (∀ f ∈ fs, K_C06_emptyData f.data = false) → K_C09_bigCassette (Cas.write fs) = false →
         sniff (Cas.write fs) = .ok (fs.map Cas.norm, .cassette)) ∧
    (∀ (path : Path) (fs : FS) (batches : List (List CFile)), fs.get? path = none → batches ≠ [] →
       (∀ b ∈ batches, ∀ f ∈ b, AsciiName f.name ∧ ValidFile f) →
       (∀ b ∈ batches, ∀ f ∈ b, K_C06_emptyData f.data = false) →
       (∀ i, i < batches.length → K_C09_bigCassette (Cas.write (batches.take i).flatten) = false) →
         HistOK .cassette path fs batches Cas.list Cas.norm) ∧
    (∀ (path : Path) (fs : FS) (batches : List (List CFile)) (img : Bytes), fs.get? path = none → batches ≠ [] →
       (∀ b ∈ batches, ∀ f ∈ b, ValidDFile f) → (∀ b ∈ batches, ∀ f ∈ b, NoSpace f) →
       Dsk.write Gen.granuleFillOrder batches.flatten = .ok img →
         HistOK .disk path fs batches Dsk.list Dsk.norm) := by
  refine ⟨fun _ _ _ ho hv hw => sniff_written_disk ho hv hw, sniff_written_cassette_K, ?_, ?_⟩
  · intro path fs batches hfresh hne hv hK hG
    obtain ⟨fs', h1, h2, h3, h4⟩ := hist_cassette path fs batches hfresh hne
      (fun b hb => ⟨fun f hf => (hv b hb f hf).1, fun f hf => (hv b hb f hf).2, hK b hb⟩)
      (fun i hi => by simpa [K_C09_bigCassette] using hG i hi)
    exact ⟨fs', _, h1, h2, h3, h4⟩
  · intro path fs batches img hfresh hne hv hs hw
    obtain ⟨fs', h1, h2, h3, h4, _⟩ := hist_disk path fs batches img hfresh hne
      (fun b hb => ⟨hv b hb, hs b hb⟩) hw
    exact ⟨fs', img, h1, h2, h3, h4⟩

/-! ### the full statement is false on the model of the current code -/

/-- E1 seen through the sniffer: a cassette holding one file without data lists as no file at all and, not being
empty, is taken for a raw binary -/
theorem C09_finding_E1 : sniff (Cas.write [e1File]) = .ok ([], .binary) := by decide +kernel

theorem C09_Statement_false : ¬ C09_Statement := by
  intro h
  have h2 := h.2.1 [e1File]
    (by intro f hf; simp at hf; subst hf; intro c hc; simp [e1File] at hc; omega)
    (by intro f hf; simp at hf; subst hf; simp [ValidFile, e1File])
  rw [C09_finding_E1] at h2
  simp at h2

/- G1 on the model (evaluated with `#eval`, too large for the kernel): with
`mk n := { name := [65], ext := [], ftype := 2, dtype := 0, gaps := 0, load := 0, exec := 0, data := replicate n 0 }`
the cassette `Cas.write [mk 11, mk 65535, mk 65535, mk 65535]` is 203404 bytes long, every file satisfies the
hypotheses of `C06_roundtrip_partial` (and `Cas.list` returns all four), but `sniff` answers `ok ([], disk)`:
all 72 directory probes at 78848 + 32 k fall on payload zeros. -/

/-! ### non-vacuity -/

def demoFile : CFile :=
  { name := [72, 73], ext := [66, 73, 78], ftype := 2, dtype := 0, gaps := 0, load := 0x0E00, exec := 0x0E00,
    data := [1, 2, 3] }

example : CasOK [demoFile] := by
  refine ⟨?_, ?_, ?_⟩ <;> intro f hf <;> simp at hf <;> subst hf <;>
    simp [AsciiName, ValidFile, K_C06_emptyData, demoFile]

example : (Cas.write ([[demoFile], [demoFile]].take 1).flatten).length < 161280 := by decide +kernel

example : DskOK [demoFile] := by
  refine ⟨?_, ?_⟩ <;> intro f hf <;> simp at hf <;> subst hf <;> simp [ValidDFile, NoSpace, demoFile]

/-- the disk history theorem is not vacuous: a one-file disk can be written (C15 on the blank image) -/
example : ∃ img, Dsk.write Gen.granuleFillOrder [[demoFile]].flatten = .ok img := by
  have hc : CompleteOrder Gen.granuleFillOrder := by
    refine ⟨validOrder_default, ?_⟩
    unfold Gen.granuleFillOrder
    decide
  have hv : ValidDFile demoFile := by simp [ValidDFile, demoFile]
  have hfit := (C15_full.2 Gen.granuleFillOrder [] Dsk.blank demoFile hc (by simp) hv rfl).1
  rw [C15_full.1.1, C15_full.1.2] at hfit
  obtain ⟨img', h, _⟩ := hfit ⟨by decide, by decide⟩
  exact ⟨img', by simp [Dsk.write, Dsk.addFiles, h]⟩

end CoCo.Props
