/-
Props/C05.lean — data directives (FCB FDB RMB FCC) emit the bytes they denote, and the directives
without data (EQU ORG SETDP NAM END INCLUDE SET) emit nothing (T4).
Only statements, main theorems, witnesses and non-vacuity examples live here; helpers are in
Lemmas/EncodeData.lean (which builds on Lemmas/EncodeFit.lean, Lemmas/EncodeHex.lean, Lemmas/EncodeSplit.lean).

Since the repair of the data directives (single FCB / FDB values are fitted to the directive's width by
`fitWidth` after the address pass, negatives in two's complement, misfits refused; list elements likewise; RMB and
ORG insist on a non-negative number; FCB FDB RMB ORG evaluate symbols and expressions) the property HOLDS at
full strength on the operand level: `C05_full`.  What remains outside is recorded by the `C05_finding_*`
theorems (empty list elements, the one-character FCC).  Symbols, expressions and labels INSIDE a list are evaluated since
the repair of finding C2 (model batch 8): section "symbols, expressions and labels inside a list" at the end
(`C05_list_elem_*`, `C05_list_positions`, `C05_program_list_*`, `C05_finding_list_symbol_fixed`).  An FCC string is taken from the
line as it was written (fix d74c37d): `C05_FCC_line_as_written`, `C05_finding_FCC_rebuilt_fixed`.
-/
import CoCoVerif.Lemmas.EncodeData
import CoCoVerif.Lemmas.EncodeProgram
import CoCoVerif.Lemmas.EncodeResolve
import CoCoVerif.Lemmas.EncodeFccLine
import CoCoVerif.Lemmas.EncodeLists

namespace CoCo.Props
open CoCo CoCo.Asm
open CoCo.Gen (InstrRow)

/-! ### the shape of the claims -/

/-- `r` is a package; every statement of row `row` that carries it passes `fitWidth` and then emits exactly
`bytes`; and its `size` field (what the address counter advances by) agrees with the number of bytes emitted -/
def Emits (row : InstrRow) (r : R Pkg) (bytes : Bytes) : Prop :=
  ∃ pkg, r = .ok pkg ∧
    (∀ s : Stmt, s.row = row → s.pkg = pkg → ∃ s', fitWidth s = .ok s' ∧ stmtBytes s' = some bytes) ∧
    bytes.length = pkg.size

/-- `PseudoOperand.translate()` of operand `o` under instruction `row`, then `fit_operand_width`, emits `bytes` -/
def PseudoEmits (o : Operand) (row : InstrRow) (bytes : Bytes) : Prop := Emits row (translatePseudo o row) bytes

/-- operand text `text` under `row` with symbol table `t`: parse (`Operand.create_from_str`), resolve symbols,
translate, fit, emit -/
def LineEmits (text : Str) (row : InstrRow) (bytes : Bytes) (t : SymTab := []) : Prop :=
  ∃ o o', createOperand text row = .ok o ∧ resolveOperand o row t = .ok o' ∧ o'.kind = .pseudo ∧
    Emits row (translateOperand o' row) bytes

/-- the statement is refused: the translation raises, or `fit_operand_width` does ("does not fit") -/
def Rejects (o : Operand) (row : InstrRow) : Prop :=
  (∃ e, translatePseudo o row = .error e) ∨
  (∃ pkg, translatePseudo o row = .ok pkg ∧ ∀ s : Stmt, s.row = row → s.pkg = pkg → fitWidth s = .diag)

/-- from the package level to the statements -/
theorem emits_of_fitPkg {row : InstrRow} {r : R Pkg} {pkg p' : Pkg} {bytes : Bytes} (hr : r = .ok pkg)
    (hf : fitPkg row pkg = .ok p') (hb : pkgBytes p' = some bytes) (hl : bytes.length = pkg.size) :
    Emits row r bytes := by
  refine ⟨pkg, hr, ?_, hl⟩
  intro s hrow hp
  subst hrow hp
  exact ⟨_, fitWidth_ok hf, by rw [stmtBytes_eq_pkgBytes]; exact hb⟩

theorem Emits.fitPkg {row : InstrRow} {r : R Pkg} {bytes : Bytes} (h : Emits row r bytes) :
    ∃ pkg p', r = .ok pkg ∧ fitPkg row pkg = .ok p' ∧ pkgBytes p' = some bytes ∧ bytes.length = pkg.size := by
  obtain ⟨pkg, hr, hs, hl⟩ := h
  obtain ⟨s', hf, hb⟩ := hs { (default : Stmt) with row := row, pkg := pkg } rfl rfl
  obtain ⟨p', hp', rfl⟩ := fitWidth_ok_iff.mp hf
  exact ⟨pkg, p', hr, hp', by rw [stmtBytes_eq_pkgBytes] at hb; exact hb, hl⟩

theorem Emits.unique {row : InstrRow} {r : R Pkg} {a b : Bytes} (ha : Emits row r a) (hb : Emits row r b) : a = b := by
  obtain ⟨p, p', hp, hf, hba, _⟩ := ha.fitPkg
  obtain ⟨q, q', hq, hf', hbb, _⟩ := hb.fitPkg
  have hpq : p = q := by rw [hp] at hq; injection hq
  subst hpq
  rw [hf] at hf'
  have : p' = q' := by injection hf'
  subst this
  rw [hba] at hbb
  injection hbb

theorem Emits.not_error {row : InstrRow} {e : Exn} {a : Bytes} : ¬ Emits row (.error e : R Pkg) a := by
  rintro ⟨p, hp, _⟩; cases hp

/-- emitting and being refused exclude each other -/
theorem not_rejects_of_emits {o : Operand} {row : InstrRow} {bytes : Bytes} (h : PseudoEmits o row bytes) :
    ¬ Rejects o row := by
  obtain ⟨pkg, p', hr, hf, _, _⟩ := h.fitPkg
  rintro (⟨e, he⟩ | ⟨q, hq, hd⟩)
  · rw [he] at hr; cases hr
  · rw [hq] at hr
    have : q = pkg := by injection hr
    subst this
    have := hd { (default : Stmt) with row := row, pkg := q } rfl rfl
    rw [fitWidth_ok (s := { (default : Stmt) with row := row, pkg := q }) hf] at this
    cases this

theorem pkgBytes_additional {p : Pkg} (h1 : p.opCode = .none) (h2 : p.postByte = .none) :
    pkgBytes p = emitValue p.additional := by
  simp only [pkgBytes, h1, h2, emitValue_none]
  cases emitValue p.additional <;> rfl

/-- a package with only an `additional` part that `fitWidth` leaves alone (not a number, or a row it skips) -/
theorem emits_additional {row : InstrRow} {r : R Pkg} {a : Value} {n : Nat} {bytes : Bytes}
    (hr : r = .ok { additional := a, size := n, maxSize := n })
    (hf : fitPkg row { additional := a, size := n, maxSize := n } = .ok { additional := a, size := n, maxSize := n })
    (he : emitValue a = some bytes) (hl : bytes.length = n) : Emits row r bytes :=
  emits_of_fitPkg hr hf (by rw [pkgBytes_additional rfl rfl]; exact he) hl

theorem lineEmits_of {text : Str} {row : InstrRow} {o o' : Operand} {bytes : Bytes} {t : SymTab}
    (hc : createOperand text row = .ok o) (hres : resolveOperand o row t = .ok o') (hk : o'.kind = .pseudo)
    (he : PseudoEmits o' row bytes) : LineEmits text row bytes t := by
  refine ⟨o, o', hc, hres, hk, ?_⟩
  simp only [translateOperand, hk]
  exact he

/-- a pseudo operand whose value is neither a symbol nor an expression is left alone by `resolve_symbols` -/
theorem resolveOperand_pseudo_plain {o : Operand} (row : InstrRow) (t : SymTab) (hk : o.kind = .pseudo)
    (hv : o.value ≠ .pyNone) (hs : o.value.isSymbol = false) (he : o.value.isExpression = false) :
    resolveOperand o row t = .ok o := by
  unfold resolveOperand
  rw [hk]
  simp only []
  split
  · cases hval : o.value <;> simp_all
  · rfl

/-! ### the generated rows -/

def fcbRow : InstrRow := ⟨"FCB", none, 0, none, 0, none, 0, none, 0, none, 0, none, 0, true, false, false, false, false, false, false, false, false, false, false, true, false⟩
def fdbRow : InstrRow := ⟨"FDB", none, 0, none, 0, none, 0, none, 0, none, 0, none, 0, true, false, false, false, false, false, false, false, false, false, false, false, true⟩
def rmbRow : InstrRow := ⟨"RMB", none, 0, none, 0, none, 0, none, 0, none, 0, none, 0, true, false, false, false, false, false, false, false, false, false, false, false, false⟩
def fccRow : InstrRow := ⟨"FCC", none, 0, none, 0, none, 0, none, 0, none, 0, none, 0, true, false, true, false, false, false, false, false, false, false, false, false, false⟩
def equRow : InstrRow := ⟨"EQU", none, 0, none, 0, none, 0, none, 0, none, 0, none, 0, true, true, false, false, false, false, false, false, false, false, false, false, false⟩
def orgRow : InstrRow := ⟨"ORG", none, 0, none, 0, none, 0, none, 0, none, 0, none, 0, true, false, false, false, false, false, false, true, false, false, false, false, false⟩

/-- the rows above are the ones in the table generated from `cocoasm/instruction.py` -/
theorem rows_generated :
    findRow (str "FCB") = some fcbRow ∧ findRow (str "FDB") = some fdbRow ∧ findRow (str "RMB") = some rmbRow ∧
    findRow (str "FCC") = some fccRow ∧ findRow (str "EQU") = some equRow ∧ findRow (str "ORG") = some orgRow := by
  decide +kernel

/-- the mnemonics of the pseudo rows of the generated table -/
theorem pseudo_rows_generated :
    (Gen.instructions.filter (·.isPseudo)).map (·.mnemonic) =
      ["END", "ORG", "EQU", "SET", "RMB", "FCB", "FDB", "FCC", "SETDP", "INCLUDE", "NAM"] := by
  decide +kernel

/-- a row of the table is identified by its mnemonic: the three rows whose flags `fitWidth` consults -/
theorem data_rows : ∀ r ∈ Gen.instructions,
    (r.mnemonic = "FCB" → r = fcbRow) ∧ (r.mnemonic = "FDB" → r = fdbRow) ∧ (r.mnemonic = "RMB" → r = rmbRow) := by
  decide +kernel

/-! ### FCB / FDB: one value -/

theorem fit_fcb {n : Nat} {h : Option Nat} {m : Mode} {neg : Bool} :
    fitPkg fcbRow { additional := .numeric n h m neg, size := 1, maxSize := 1 } =
      (match fitNum n neg 2 with
       | .ok v => .ok { additional := v, size := 1, maxSize := 1 }
       | .error _ => .diag) :=
  fitPkg_numeric (a := 0) (b := 0) (d := 2) rfl rfl rfl rfl rfl (Or.inl rfl)

theorem fit_fdb {n : Nat} {h : Option Nat} {m : Mode} {neg : Bool} :
    fitPkg fdbRow { additional := .numeric n h m neg, size := 2, maxSize := 2 } =
      (match fitNum n neg 4 with
       | .ok v => .ok { additional := v, size := 2, maxSize := 2 }
       | .error _ => .diag) :=
  fitPkg_numeric (a := 0) (b := 0) (d := 4) rfl rfl rfl rfl rfl (Or.inr rfl)

/-- **C05, single FCB**: every value −128..255 becomes its one byte, a negative one in two's complement,
whatever the spelling (size hint, mode) of the value -/
theorem C05_FCB_single {o : Operand} {row : InstrRow} {n : Nat} {h : Option Nat} {m : Mode} {neg : Bool}
    (hrow : row ∈ Gen.instructions) (hm : row.mnemonic = "FCB") (hv : o.value = .numeric n h m neg)
    (hf : fitsByte n neg = true) : PseudoEmits o row [byteField n neg] := by
  have := (data_rows row hrow).1 hm
  subst this
  have ht := translatePseudo_FCB_single (o := o) (row := fcbRow) rfl (by rw [hv]; simp) (by rw [hv]; rfl)
  rw [hv] at ht
  refine emits_of_fitPkg ht (by rw [fit_fcb, fitNum_byte hf]) ?_ rfl
  rw [pkgBytes_additional rfl rfl]
  exact emit_hint2 _ (byteField_lt hf)

/-- **C05, single FCB, out of range**: a value outside −128..255 is REFUSED ("does not fit") -/
theorem C05_FCB_single_rejected {o : Operand} {row : InstrRow} {n : Nat} {h : Option Nat} {m : Mode} {neg : Bool}
    (hrow : row ∈ Gen.instructions) (hm : row.mnemonic = "FCB") (hv : o.value = .numeric n h m neg)
    (hf : fitsByte n neg = false) : Rejects o row := by
  have := (data_rows row hrow).1 hm
  subst this
  have ht := translatePseudo_FCB_single (o := o) (row := fcbRow) rfl (by rw [hv]; simp) (by rw [hv]; rfl)
  rw [hv] at ht
  refine Or.inr ⟨_, ht, ?_⟩
  intro s hr hp
  exact fitWidth_diag (by rw [hr, hp, fit_fcb, fitNum_byte_err hf])

/-- **C05, single FDB**: every value −32768..65535 becomes its two bytes, high byte first -/
theorem C05_FDB_single {o : Operand} {row : InstrRow} {n : Nat} {h : Option Nat} {m : Mode} {neg : Bool}
    (hrow : row ∈ Gen.instructions) (hm : row.mnemonic = "FDB") (hv : o.value = .numeric n h m neg)
    (hf : fitsWord n neg = true) : PseudoEmits o row [wordField n neg / 256, wordField n neg % 256] := by
  have := (data_rows row hrow).2.1 hm
  subst this
  have ht := translatePseudo_FDB_single (o := o) (row := fdbRow) rfl (by rw [hv]; simp) (by rw [hv]; rfl)
  rw [hv] at ht
  refine emits_of_fitPkg ht (by rw [fit_fdb, fitNum_word hf]) ?_ rfl
  rw [pkgBytes_additional rfl rfl]
  exact emit_hint4 _ (wordField_lt hf)

/-- **C05, single FDB, out of range**: refused -/
theorem C05_FDB_single_rejected {o : Operand} {row : InstrRow} {n : Nat} {h : Option Nat} {m : Mode} {neg : Bool}
    (hrow : row ∈ Gen.instructions) (hm : row.mnemonic = "FDB") (hv : o.value = .numeric n h m neg)
    (hf : fitsWord n neg = false) : Rejects o row := by
  have := (data_rows row hrow).2.1 hm
  subst this
  have ht := translatePseudo_FDB_single (o := o) (row := fdbRow) rfl (by rw [hv]; simp) (by rw [hv]; rfl)
  rw [hv] at ht
  refine Or.inr ⟨_, ht, ?_⟩
  intro s hr hp
  exact fitWidth_diag (by rw [hr, hp, fit_fdb, fitNum_word_err hf])

/-! ### FCB / FDB: several values -/

/-- **C05, multi-value FCB** on the operand level: a list of two-digit hex strings of bytes -/
theorem C05_FCB_multi {o : Operand} {row : InstrRow} {bs : Bytes}
    (hm : row.mnemonic = "FCB") (hv : o.value = .multiByte (bs.map byteHex)) (hb : ∀ b ∈ bs, b < 256) :
    PseudoEmits o row bs := by
  have hbl : o.value.byteLen? = some bs.length := by rw [hv]; exact byteLen_multiByte bs
  have hnm : o.value.isMultiByte = true := by rw [hv]; rfl
  refine emits_additional (translatePseudo_FCB_multi hm hbl hnm) (fitPkg_nonNumeric row (by rw [hv]; rfl)) ?_ rfl
  rw [hv]; exact emitValue_multiByte bs hb

/-- **C05, multi-value FDB** on the operand level: a list of four-digit hex strings of words -/
theorem C05_FDB_multi {o : Operand} {row : InstrRow} {ws : List Nat}
    (hm : row.mnemonic = "FDB") (hv : o.value = .multiWord (ws.map wordHex)) (hw : ∀ w ∈ ws, w < 65536) :
    PseudoEmits o row (wordBytes ws) ∧ (wordBytes ws).length = 2 * ws.length := by
  have hbl : o.value.byteLen? = some (2 * ws.length) := by rw [hv]; exact byteLen_multiWord ws
  have hnm : o.value.isMultiWord = true := by rw [hv]; rfl
  refine ⟨emits_additional (translatePseudo_FDB_multi hm hbl hnm) (fitPkg_nonNumeric row (by rw [hv]; rfl)) ?_
    (wordBytes_length ws), wordBytes_length ws⟩
  rw [hv]; exact emitValue_multiWord ws hw

/-- **C05, `FCB d1,d2,...,dn`** from the operand text: at least two decimal literals, each below 256,
joined by commas, give exactly those bytes -/
theorem C05_FCB_list (lits : List Str) (h2 : 2 ≤ lits.length)
    (hl : ∀ x ∈ lits, IsDecLit x ∧ parseBase 10 x < 256) (t : SymTab := []) :
    LineEmits (joinWith ',' lits) fcbRow (lits.map (parseBase 10)) t := by
  obtain ⟨a, b, t', rfl⟩ : ∃ a b t', lits = a :: b :: t' := by
    match lits, h2 with
    | a :: b :: t', _ => exact ⟨a, b, t', rfl⟩
  have hmulti := multi2_dec (a :: b :: t') h2 hl
  have hc := createOperand_multiByte (row := fcbRow) rfl rfl rfl (contains_joinWith ',' a b t') hmulti
  refine lineEmits_of hc (resolveOperand_pseudo_plain _ _ rfl (by simp) rfl rfl) rfl (C05_FCB_multi rfl rfl ?_)
  intro v hv
  obtain ⟨x, hx, rfl⟩ := List.mem_map.mp hv
  exact (hl x hx).2

/-- **C05, `FDB d1,d2,...,dn`** from the operand text: decimal literals below 65536 -/
theorem C05_FDB_list (lits : List Str) (h2 : 2 ≤ lits.length)
    (hl : ∀ x ∈ lits, IsDecLit x ∧ parseBase 10 x < 65536) (t : SymTab := []) :
    LineEmits (joinWith ',' lits) fdbRow (wordBytes (lits.map (parseBase 10))) t ∧
    (wordBytes (lits.map (parseBase 10))).length = 2 * lits.length := by
  obtain ⟨a, b, t', rfl⟩ : ∃ a b t', lits = a :: b :: t' := by
    match lits, h2 with
    | a :: b :: t', _ => exact ⟨a, b, t', rfl⟩
  have hmulti := multi4_dec (a :: b :: t') h2 hl
  have hc := createOperand_multiWord (row := fdbRow) rfl rfl rfl rfl (contains_joinWith ',' a b t') hmulti
  have hw : ∀ w ∈ (a :: b :: t').map (parseBase 10), w < 65536 := by
    intro v hv
    obtain ⟨x, hx, rfl⟩ := List.mem_map.mp hv
    exact (hl x hx).2
  exact ⟨lineEmits_of hc (resolveOperand_pseudo_plain _ _ rfl (by simp) rfl rfl) rfl (C05_FDB_multi rfl rfl hw).1,
    by simp [wordBytes_length]⟩

/-- **C05, `FCB e1,...,en` with SIGNED decimal elements** from the operand text: every element −128..255 becomes its
two's complement byte (`FCB 1,-2` is `01 FE`) -/
theorem C05_FCB_signed_list (lits : List (Bool × Str)) (h2 : 2 ≤ lits.length)
    (hl : ∀ e ∈ lits, IsDecLit e.2 ∧ fitsByte (parseBase 10 e.2) e.1 = true) (t : SymTab := []) :
    LineEmits (joinWith ',' (lits.map sdec)) fcbRow (lits.map (fun e => byteField (parseBase 10 e.2) e.1)) t := by
  obtain ⟨a, b, t', rfl⟩ : ∃ a b t', lits = a :: b :: t' := by
    match lits, h2 with
    | a :: b :: t', _ => exact ⟨a, b, t', rfl⟩
  have hmulti := multi2_sdec (a :: b :: t') h2 hl
  have hc := createOperand_multiByte (row := fcbRow) rfl rfl rfl
    (contains_joinWith ',' (sdec a) (sdec b) (t'.map sdec)) hmulti
  refine lineEmits_of hc (resolveOperand_pseudo_plain _ _ rfl (by simp) rfl rfl) rfl (C05_FCB_multi rfl rfl ?_)
  intro v hv
  obtain ⟨e, he, rfl⟩ := List.mem_map.mp hv
  exact byteField_lt (hl e he).2

/-- ... and the line is REFUSED when it is parsed as soon as one element THAT IS A NUMBER TO THE PARSER (`hn`: it has
a minus sign or is below 65536) is outside −128..255 (`FCB 1,300`, `FCB 1,-129`).

RESTATED after the repair of C2 (formerly `C05_FCB_signed_list_rejected`, without `hn`): an element that is not a literal
is no longer refused at parse time, and an unsigned run of digits from 65536 on (`FCB 1,70000`) is not a literal to
`Value.create_from_str` but a symbol name (`pendingElem_dec_big`; as in `C05_finding_FDB_70000_fixed`); such a line is
refused when the list is evaluated (the symbol is undefined): `C05_program_list_big_literal`. -/
theorem C05_FCB_signed_list_rejected_fixed (lits : List (Bool × Str)) (h2 : 2 ≤ lits.length)
    (hl : ∀ e ∈ lits, IsDecLit e.2) {e : Bool × Str} (he : e ∈ lits) (hn : e.1 = true ∨ parseBase 10 e.2 < 65536)
    (hf : fitsByte (parseBase 10 e.2) e.1 = false) :
    ∃ err, createOperand (joinWith ',' (lits.map sdec)) fcbRow = .error err := by
  obtain ⟨a, b, t', rfl⟩ : ∃ a b t', lits = a :: b :: t' := by
    match lits, h2 with
    | a :: b :: t', _ => exact ⟨a, b, t', rfl⟩
  obtain ⟨err, herr⟩ := multi2_sdec_reject (a :: b :: t') h2 hl he hn hf
  exact ⟨err, createOperand_multiByte_reject (row := fcbRow) rfl rfl
    (contains_joinWith ',' (sdec a) (sdec b) (t'.map sdec)) herr⟩

/-- **C05, `FDB e1,...,en` with signed decimal elements**: every element −32768..65535 becomes its two's complement
word (`FDB 1,-1` is `00 01 FF FF`; before the repair `00 01 00 FF`) -/
theorem C05_FDB_signed_list (lits : List (Bool × Str)) (h2 : 2 ≤ lits.length)
    (hl : ∀ e ∈ lits, IsDecLit e.2 ∧ fitsWord (parseBase 10 e.2) e.1 = true) (t : SymTab := []) :
    LineEmits (joinWith ',' (lits.map sdec)) fdbRow
      (wordBytes (lits.map (fun e => wordField (parseBase 10 e.2) e.1))) t := by
  obtain ⟨a, b, t', rfl⟩ : ∃ a b t', lits = a :: b :: t' := by
    match lits, h2 with
    | a :: b :: t', _ => exact ⟨a, b, t', rfl⟩
  have hmulti := multi4_sdec (a :: b :: t') h2 hl
  have hc := createOperand_multiWord (row := fdbRow) rfl rfl rfl rfl
    (contains_joinWith ',' (sdec a) (sdec b) (t'.map sdec)) hmulti
  refine lineEmits_of hc (resolveOperand_pseudo_plain _ _ rfl (by simp) rfl rfl) rfl (C05_FDB_multi rfl rfl ?_).1
  intro v hv
  obtain ⟨e, he, rfl⟩ := List.mem_map.mp hv
  exact wordField_lt (hl e he).2

/-- RESTATED like `C05_FCB_signed_list_rejected_fixed` (formerly `C05_FDB_signed_list_rejected`, without `hn`): what is
left for FDB are the negatives below −32768 (`FDB 1,-32769`); `FDB 1,70000` is refused when the list is evaluated -/
theorem C05_FDB_signed_list_rejected_fixed (lits : List (Bool × Str)) (h2 : 2 ≤ lits.length)
    (hl : ∀ e ∈ lits, IsDecLit e.2) {e : Bool × Str} (he : e ∈ lits) (hn : e.1 = true ∨ parseBase 10 e.2 < 65536)
    (hf : fitsWord (parseBase 10 e.2) e.1 = false) :
    ∃ err, createOperand (joinWith ',' (lits.map sdec)) fdbRow = .error err := by
  obtain ⟨a, b, t', rfl⟩ : ∃ a b t', lits = a :: b :: t' := by
    match lits, h2 with
    | a :: b :: t', _ => exact ⟨a, b, t', rfl⟩
  obtain ⟨err, herr⟩ := multi4_sdec_reject (a :: b :: t') h2 hl he hn hf
  exact ⟨err, createOperand_multiWord_reject (row := fdbRow) rfl rfl rfl
    (contains_joinWith ',' (sdec a) (sdec b) (t'.map sdec)) herr⟩

theorem fcb_mem : fcbRow ∈ Gen.instructions := by decide +kernel
theorem fdb_mem : fdbRow ∈ Gen.instructions := by decide +kernel
theorem rmb_mem : rmbRow ∈ Gen.instructions := by decide +kernel

/-- **C05, `FCB d`** from the operand text: one decimal literal below 256 -/
theorem C05_FCB_literal {x : Str} (hx : IsDecLit x) (hv : parseBase 10 x < 256) (t : SymTab := []) :
    LineEmits x fcbRow [parseBase 10 x] t :=
  have hf : fitsByte (parseBase 10 x) false = true := by
    simp only [fitsByte, Bool.false_eq_true, if_false, decide_eq_true_eq]; omega
  lineEmits_of (createOperand_pseudo_dec (row := fcbRow) rfl rfl rfl (by decide) rfl rfl hx (by omega))
    (resolveOperand_pseudo_plain _ _ rfl (by simp) rfl rfl) rfl
    (C05_FCB_single (n := parseBase 10 x) (neg := false) fcb_mem rfl rfl hf)

/-- **C05, `FCB -d`** from the operand text, 1 ≤ d ≤ 128: the two's complement byte (`FCB -1` is `$FF`;
before the repair the magnitude `$01` was emitted) -/
theorem C05_FCB_neg_literal {ds : Str} (hx : IsDecLit ds) (h1 : 1 ≤ parseBase 10 ds) (h2 : parseBase 10 ds ≤ 128)
    (t : SymTab := []) : LineEmits ('-' :: ds) fcbRow [256 - parseBase 10 ds] t := by
  have := C05_FCB_single (o := { kind := .pseudo, text := '-' :: ds, value := .numeric (parseBase 10 ds) (some 4) .extended true })
    (neg := true) fcb_mem rfl rfl (by simp [fitsByte]; omega)
  have e : byteField (parseBase 10 ds) true = 256 - parseBase 10 ds := by simp only [byteField, if_true]; omega
  rw [e] at this
  exact lineEmits_of (createOperand_pseudo_neg (row := fcbRow) rfl rfl rfl rfl rfl hx (by omega))
    (resolveOperand_pseudo_plain _ _ rfl (by simp) rfl rfl) rfl this

/-- **C05, `FDB d`** from the operand text: one decimal literal below 65536 -/
theorem C05_FDB_literal {x : Str} (hx : IsDecLit x) (hv : parseBase 10 x < 65536) (t : SymTab := []) :
    LineEmits x fdbRow [parseBase 10 x / 256, parseBase 10 x % 256] t :=
  have hf : fitsWord (parseBase 10 x) false = true := by
    simp only [fitsWord, Bool.false_eq_true, if_false, decide_eq_true_eq]; omega
  lineEmits_of (createOperand_pseudo_dec (row := fdbRow) rfl rfl rfl (by decide) rfl rfl hx hv)
    (resolveOperand_pseudo_plain _ _ rfl (by simp) rfl rfl) rfl
    (C05_FDB_single (n := parseBase 10 x) (neg := false) fdb_mem rfl rfl hf)

/-- **C05, `FDB -d`** from the operand text, 1 ≤ d ≤ 32768: the two's complement word (`FDB -1` is `$FF $FF`) -/
theorem C05_FDB_neg_literal {ds : Str} (hx : IsDecLit ds) (h1 : 1 ≤ parseBase 10 ds) (h2 : parseBase 10 ds ≤ 32768)
    (t : SymTab := []) :
    LineEmits ('-' :: ds) fdbRow [(65536 - parseBase 10 ds) / 256, (65536 - parseBase 10 ds) % 256] t := by
  have := C05_FDB_single (o := { kind := .pseudo, text := '-' :: ds, value := .numeric (parseBase 10 ds) (some 4) .extended true })
    (neg := true) fdb_mem rfl rfl (by simp [fitsWord]; omega)
  have e : wordField (parseBase 10 ds) true = 65536 - parseBase 10 ds := by simp only [wordField, if_true]; omega
  rw [e] at this
  exact lineEmits_of (createOperand_pseudo_neg (row := fdbRow) rfl rfl rfl rfl rfl hx h2)
    (resolveOperand_pseudo_plain _ _ rfl (by simp) rfl rfl) rfl this

/-! ### RMB -/

theorem fit_rmb (p : Pkg) : fitPkg rmbRow p = .ok p := fitPkg_skip p rfl

/-- **C05, RMB**: `n` zero bytes, size `n` (every `n`, including 0) -/
theorem C05_RMB {o : Operand} {row : InstrRow} {n : Nat} {h : Option Nat} {m : Mode}
    (hrow : row ∈ Gen.instructions) (hm : row.mnemonic = "RMB") (hv : o.value = .numeric n h m false) :
    PseudoEmits o row (List.replicate n 0) := by
  have := (data_rows row hrow).2.2 hm
  subst this
  exact emits_additional (translatePseudo_RMB rfl hv) (fit_rmb _) (emit_zeros n _) (by simp)

/-- **C05, RMB of a negative count** (also `-0`): refused, "not a number of bytes to reserve" -/
theorem C05_RMB_neg_rejected {o : Operand} {row : InstrRow} {n : Nat} {h : Option Nat} {m : Mode}
    (hm : row.mnemonic = "RMB") (hv : o.value = .numeric n h m true) : Rejects o row :=
  Or.inl ⟨_, translatePseudo_RMB_neg hm hv⟩

/-- **C05, RMB of something that is not a number** (an undefined value, a string, a label): refused -/
theorem C05_RMB_nonNumeric_rejected {o : Operand} {row : InstrRow} (hm : row.mnemonic = "RMB")
    (hn : o.value.isNumeric = false) : Rejects o row := by
  by_cases hv : o.value = .pyNone
  · exact Or.inl ⟨_, translatePseudo_pyNone o row hv (Or.inr (Or.inr (Or.inl hm)))⟩
  · exact Or.inl ⟨_, translatePseudo_RMB_nonNumeric hm hv hn⟩

/-- **C05, `RMB d`** from the operand text -/
theorem C05_RMB_literal {x : Str} (hx : IsDecLit x) (hv : parseBase 10 x < 65536) (t : SymTab := []) :
    LineEmits x rmbRow (List.replicate (parseBase 10 x) 0) t :=
  lineEmits_of (createOperand_pseudo_dec (row := rmbRow) rfl rfl rfl (by decide) rfl rfl hx hv)
    (resolveOperand_pseudo_plain _ _ rfl (by simp) rfl rfl) rfl (C05_RMB rmb_mem rfl rfl)

/-! ### symbols under FCB / FDB / RMB / ORG (since the repair of C2: evaluated through the symbol table) -/

/-- `resolve_symbols` of a data directive whose operand is the name of an EQU constant: the operand becomes the
constant, rebuilt from its SIGNED value (`NumericValue(symbol.signed())`, repair batch B2: before, the magnitude) -/
theorem resolveOperand_pseudo_symbol {o : Operand} {row : InstrRow} {t : SymTab} {name : Str} {mo : Mode}
    {v : Nat} {h : Option Nat} {m : Mode} {neg : Bool} (hk : o.kind = .pseudo)
    (hm : row.mnemonic = "FCB" ∨ row.mnemonic = "FDB" ∨ row.mnemonic = "RMB" ∨ row.mnemonic = "ORG")
    (hv : o.value = .symbol name mo) (ht : t.get? name = some (.numeric v h m neg)) (hlt : v < 65536) :
    resolveOperand o row t =
      .ok { o with value := .numeric v (if v < 256 then some 2 else none) (if v < 256 then .direct else .extended)
                                (neg && decide (0 < v)) } := by
  have hmn : (row.mnemonic == "FCB" || row.mnemonic == "FDB" || row.mnemonic == "RMB" || row.mnemonic == "ORG") = true := by
    rcases hm with hm | hm | hm | hm <;> simp [hm]
  unfold resolveOperand
  rw [hk]
  simp only [hmn, if_true, hv, Value.isSymbol, Bool.true_or]
  cases neg
  · have a : ¬ ((v : Int) > 65535) := by omega
    have b : ¬ ((v : Int) < 0) := by omega
    by_cases hlt' : v < 256 <;>
      simp [resolve_symbol_of_get ht rfl, symPost, Value.isAddress, Value.isNumeric, numericOfInt, a, b, initHint, postInit, hlt', Except.map]
  · have a : ¬ (-(v : Int) > 65535) := by omega
    have e : (-(v : Int)).natAbs = v := by omega
    by_cases h0 : 0 < v
    · by_cases hlt' : v < 256 <;>
        simp [resolve_symbol_of_get ht rfl, symPost, Value.isAddress, Value.isNumeric, numericOfInt, a, e, initHint, postInit, hlt', h0, Except.map]
    · have hz : v = 0 := by omega
      subst hz
      simp [resolve_symbol_of_get ht rfl, symPost, Value.isAddress, Value.isNumeric, numericOfInt, initHint, postInit, Except.map]

/-- **C05, `FCB SYM`** with `SYM EQU v`, v < 256: the byte `v` (before the repair: `$00`) -/
theorem C05_FCB_symbol {o : Operand} {row : InstrRow} {t : SymTab} {name : Str} {mo : Mode} {v : Nat}
    {h : Option Nat} {m : Mode} (hrow : row ∈ Gen.instructions) (hm : row.mnemonic = "FCB")
    (hk : o.kind = .pseudo) (hv : o.value = .symbol name mo) (ht : t.get? name = some (.numeric v h m false))
    (hlt : v < 256) : ∃ o', resolveOperand o row t = .ok o' ∧ o'.kind = .pseudo ∧ PseudoEmits o' row [v] :=
  ⟨_, resolveOperand_pseudo_symbol hk (Or.inl hm) hv ht (by omega), hk,
    C05_FCB_single (neg := false) hrow hm rfl (by simp [fitsByte]; omega)⟩

/-- **C05, `FCB SYM`** with `SYM EQU -v`, 1 ≤ v ≤ 128: the two's complement byte (repair batch B2; before, the
magnitude `v` was emitted) -/
theorem C05_FCB_symbol_neg {o : Operand} {row : InstrRow} {t : SymTab} {name : Str} {mo : Mode} {v : Nat}
    {h : Option Nat} {m : Mode} (hrow : row ∈ Gen.instructions) (hm : row.mnemonic = "FCB")
    (hk : o.kind = .pseudo) (hv : o.value = .symbol name mo) (ht : t.get? name = some (.numeric v h m true))
    (h1 : 1 ≤ v) (h2 : v ≤ 128) :
    ∃ o', resolveOperand o row t = .ok o' ∧ o'.kind = .pseudo ∧ PseudoEmits o' row [256 - v] := by
  have hr := resolveOperand_pseudo_symbol hk (Or.inl hm) hv ht (by omega)
  have h0 : decide (0 < v) = true := by simp; omega
  simp only [h0, Bool.and_true] at hr
  refine ⟨_, hr, hk, ?_⟩
  have hf : fitsByte v true = true := by simp [fitsByte]; omega
  have e : [256 - v] = [byteField v true] := by simp [byteField]; omega
  rw [e]
  exact C05_FCB_single (neg := true) hrow hm rfl hf

/-- **C05, `FDB SYM`** with `SYM EQU v`: the word `v` -/
theorem C05_FDB_symbol {o : Operand} {row : InstrRow} {t : SymTab} {name : Str} {mo : Mode} {v : Nat}
    {h : Option Nat} {m : Mode} (hrow : row ∈ Gen.instructions) (hm : row.mnemonic = "FDB")
    (hk : o.kind = .pseudo) (hv : o.value = .symbol name mo) (ht : t.get? name = some (.numeric v h m false))
    (hlt : v < 65536) :
    ∃ o', resolveOperand o row t = .ok o' ∧ o'.kind = .pseudo ∧ PseudoEmits o' row [v / 256, v % 256] :=
  ⟨_, resolveOperand_pseudo_symbol hk (Or.inr (Or.inl hm)) hv ht hlt, hk,
    C05_FDB_single (neg := false) hrow hm rfl (by simp [fitsWord]; omega)⟩

/-- **C05, `FDB SYM`** with `SYM EQU -v`, 1 ≤ v ≤ 32768: the two's complement word (`X EQU -5 ; FDB X` is `FF FB`) -/
theorem C05_FDB_symbol_neg {o : Operand} {row : InstrRow} {t : SymTab} {name : Str} {mo : Mode} {v : Nat}
    {h : Option Nat} {m : Mode} (hrow : row ∈ Gen.instructions) (hm : row.mnemonic = "FDB")
    (hk : o.kind = .pseudo) (hv : o.value = .symbol name mo) (ht : t.get? name = some (.numeric v h m true))
    (h1 : 1 ≤ v) (h2 : v ≤ 32768) :
    ∃ o', resolveOperand o row t = .ok o' ∧ o'.kind = .pseudo ∧
      PseudoEmits o' row [(65536 - v) / 256, (65536 - v) % 256] := by
  have hr := resolveOperand_pseudo_symbol hk (Or.inr (Or.inl hm)) hv ht (by omega)
  have h0 : decide (0 < v) = true := by simp; omega
  simp only [h0, Bool.and_true] at hr
  refine ⟨_, hr, hk, ?_⟩
  have hf : fitsWord v true = true := by simp [fitsWord]; omega
  have e : 65536 - v = wordField v true := by simp [wordField]; omega
  rw [e]
  exact C05_FDB_single (neg := true) hrow hm rfl hf

/-- **C05, `RMB SYM`** with `SYM EQU v`: `v` bytes are reserved (before the repair: none) -/
theorem C05_RMB_symbol {o : Operand} {row : InstrRow} {t : SymTab} {name : Str} {mo : Mode} {v : Nat}
    {h : Option Nat} {m : Mode} (hrow : row ∈ Gen.instructions) (hm : row.mnemonic = "RMB")
    (hk : o.kind = .pseudo) (hv : o.value = .symbol name mo) (ht : t.get? name = some (.numeric v h m false))
    (hlt : v < 65536) :
    ∃ o', resolveOperand o row t = .ok o' ∧ o'.kind = .pseudo ∧ PseudoEmits o' row (List.replicate v 0) :=
  ⟨_, resolveOperand_pseudo_symbol hk (Or.inr (Or.inr (Or.inl hm))) hv ht hlt, hk, C05_RMB hrow hm rfl⟩

/-- **C05, `RMB SYM`** with `SYM EQU -v`, v ≥ 1: refused (repair batch B2; before, `v` bytes were reserved) -/
theorem C05_RMB_symbol_neg_rejected {o : Operand} {row : InstrRow} {t : SymTab} {name : Str} {mo : Mode} {v : Nat}
    {h : Option Nat} {m : Mode} (hm : row.mnemonic = "RMB")
    (hk : o.kind = .pseudo) (hv : o.value = .symbol name mo) (ht : t.get? name = some (.numeric v h m true))
    (h1 : 1 ≤ v) (hlt : v < 65536) :
    ∃ o', resolveOperand o row t = .ok o' ∧ Rejects o' row := by
  have hr := resolveOperand_pseudo_symbol hk (Or.inr (Or.inr (Or.inl hm))) hv ht hlt
  have h0 : decide (0 < v) = true := by simp; omega
  simp only [h0, Bool.and_true] at hr
  exact ⟨_, hr, C05_RMB_neg_rejected hm rfl⟩

/-- **C05, `ORG SYM`** with `SYM EQU v`: the origin is `v` -/
theorem C05_ORG_symbol {o : Operand} {row : InstrRow} {t : SymTab} {name : Str} {mo : Mode} {v : Nat}
    {h : Option Nat} {m : Mode} (hm : row.mnemonic = "ORG")
    (hk : o.kind = .pseudo) (hv : o.value = .symbol name mo) (ht : t.get? name = some (.numeric v h m false))
    (hlt : v < 65536) :
    ∃ o', resolveOperand o row t = .ok o' ∧ ∃ h' m', translatePseudo o' row = .ok { address := .numeric v h' m' false } :=
  ⟨_, resolveOperand_pseudo_symbol hk (Or.inr (Or.inr (Or.inr hm))) hv ht hlt, _, _,
    translatePseudo_ORG (o := { o with value := _ }) hm rfl⟩

/-- an undefined symbol under a data directive is a diagnostic (the resolve stage fails) -/
theorem C05_undefined_symbol {o : Operand} {row : InstrRow} {t : SymTab} {name : Str} {mo : Mode}
    (hk : o.kind = .pseudo)
    (hm : row.mnemonic = "FCB" ∨ row.mnemonic = "FDB" ∨ row.mnemonic = "RMB" ∨ row.mnemonic = "ORG")
    (hv : o.value = .symbol name mo) (ht : t.get? name = none) : resolveOperand o row t = .error .other := by
  have hmn : (row.mnemonic == "FCB" || row.mnemonic == "FDB" || row.mnemonic == "RMB" || row.mnemonic == "ORG") = true := by
    rcases hm with hm | hm | hm | hm <;> simp [hm]
  unfold resolveOperand
  rw [hk]
  simp [hmn, hv, Value.isSymbol, resolve_symbol_undefined ht, Except.map]

/-! ### FCC -/

/-- **C05, FCC** on the operand level: the character codes, for every string of 8-bit characters -/
theorem C05_FCC {o : Operand} {row : InstrRow} {s : Str}
    (hm : row.mnemonic = "FCC") (hv : o.value = .str s) (hs : ∀ c ∈ s, c.toNat < 256) :
    PseudoEmits o row (s.map Char.toNat) := by
  have hb : o.value.byteLen? = some s.length := by rw [hv]; exact byteLen_str s hs
  refine emits_additional (translatePseudo_FCC hm hb) (fitPkg_nonNumeric row (by rw [hv]; rfl)) ?_ (by simp)
  rw [hv]; exact emitValue_str s hs

/-- `resolve_symbols` leaves the operand of every pseudo operation other than FCB FDB RMB ORG alone -/
theorem resolveOperand_pseudo_other {o : Operand} {row : InstrRow} (t : SymTab) (hk : o.kind = .pseudo)
    (h1 : row.mnemonic ≠ "FCB") (h2 : row.mnemonic ≠ "FDB") (h3 : row.mnemonic ≠ "RMB") (h4 : row.mnemonic ≠ "ORG") :
    resolveOperand o row t = .ok o := by
  unfold resolveOperand
  rw [hk]
  simp [h1, h2, h3, h4]

/-- **C05, `FCC dtextd`** from the operand text, any delimiter character `d` -/
theorem C05_FCC_text (d : Char) (body : Str) (hs : ∀ c ∈ body, c.toNat < 256) (t : SymTab := []) :
    LineEmits (d :: (body ++ [d])) fccRow (body.map Char.toNat) t :=
  lineEmits_of (createOperand_fcc (row := fccRow) rfl rfl rfl rfl rfl rfl d body hs)
    (resolveOperand_pseudo_other t rfl (by decide) (by decide) (by decide) (by decide)) rfl (C05_FCC rfl rfl hs)

/-! ### directives without data -/

/-- a package with nothing in it emits nothing -/
theorem emits_empty {row : InstrRow} {r : R Pkg} {p : Pkg} (hr : r = .ok p) (h1 : p.opCode = .none)
    (h2 : p.postByte = .none) (h3 : p.additional = .none) (h4 : p.size = 0) : Emits row r [] := by
  refine emits_of_fitPkg hr (fitPkg_nonNumeric row (by rw [h3]; rfl)) ?_ (by simp [h4])
  rw [pkgBytes_additional h1 h2, h3]
  exact emitValue_none

/-- **C05, EQU SETDP NAM END INCLUDE SET** (every mnemonic other than the five with a case of their own):
nothing is emitted and the size is 0, whatever the operand value is -/
theorem C05_no_data {o : Operand} {row : InstrRow}
    (h1 : row.mnemonic ≠ "FCB") (h2 : row.mnemonic ≠ "FDB") (h3 : row.mnemonic ≠ "RMB")
    (h4 : row.mnemonic ≠ "ORG") (h5 : row.mnemonic ≠ "FCC") :
    PseudoEmits o row [] ∧ translatePseudo o row = .ok {} := by
  have := translatePseudo_other (o := o) h1 h2 h3 h4 h5
  exact ⟨emits_empty this rfl rfl rfl rfl, this⟩

/-- **C05, ORG** of a non-negative number: nothing is emitted, the size is 0, and the package address is the operand value -/
theorem C05_ORG {o : Operand} {row : InstrRow} {n : Nat} {h : Option Nat} {m : Mode} (hm : row.mnemonic = "ORG")
    (hv : o.value = .numeric n h m false) :
    PseudoEmits o row [] ∧ translatePseudo o row = .ok { address := o.value } := by
  have := translatePseudo_ORG hm hv
  exact ⟨emits_empty this rfl rfl rfl rfl, this⟩

/-- **C05, ORG of a negative number or of something that is not a number**: refused, "not an address" -/
theorem C05_ORG_rejected {o : Operand} {row : InstrRow} (hm : row.mnemonic = "ORG")
    (hv : o.value.isNumeric = false ∨ o.value.isNegative = true) : Rejects o row := by
  by_cases hpn : o.value = .pyNone
  · exact Or.inl ⟨_, translatePseudo_pyNone o row hpn (Or.inr (Or.inr (Or.inr hm)))⟩
  · rcases hv with hv | hv
    · exact Or.inl ⟨_, translatePseudo_ORG_nonNumeric hm hpn hv⟩
    · cases hval : o.value with
      | numeric n h m neg =>
        rw [hval] at hv
        simp only [Value.isNegative] at hv
        subst hv
        exact Or.inl ⟨_, translatePseudo_ORG_neg hm hval⟩
      | _ => rw [hval] at hv; simp [Value.isNegative] at hv

/-- **C05, `ORG SYM`** with `SYM EQU -v`, v ≥ 1: refused, "not an address" -/
theorem C05_ORG_symbol_neg_rejected {o : Operand} {row : InstrRow} {t : SymTab} {name : Str} {mo : Mode} {v : Nat}
    {h : Option Nat} {m : Mode} (hm : row.mnemonic = "ORG")
    (hk : o.kind = .pseudo) (hv : o.value = .symbol name mo) (ht : t.get? name = some (.numeric v h m true))
    (h1 : 1 ≤ v) (hlt : v < 65536) :
    ∃ o', resolveOperand o row t = .ok o' ∧ Rejects o' row := by
  have hr := resolveOperand_pseudo_symbol hk (Or.inr (Or.inr (Or.inr hm))) hv ht hlt
  have h0 : decide (0 < v) = true := by simp; omega
  simp only [h0, Bool.and_true] at hr
  exact ⟨_, hr, C05_ORG_rejected hm (Or.inr rfl)⟩

/-- the six mnemonics without data and without an address -/
theorem C05_no_data_mnemonics {o : Operand} {row : InstrRow}
    (hm : row.mnemonic ∈ ["EQU", "SETDP", "NAM", "END", "INCLUDE", "SET"]) : PseudoEmits o row [] := by
  refine (C05_no_data ?_ ?_ ?_ ?_ ?_).1 <;> (intro h; rw [h] at hm; revert hm; decide)

/-! ### non-vacuity: the hypotheses are met by real lines, with the generated rows -/

/-- `FCB 1,2,3` emits 1 2 3 -/
example : LineEmits (str "1,2,3") fcbRow [1, 2, 3] :=
  C05_FCB_list [str "1", str "2", str "3"] (by decide) (by decide)

/-- `FDB 1,258,65535` emits 00 01 01 02 FF FF -/
example : LineEmits (str "1,258,65535") fdbRow [0, 1, 1, 2, 255, 255] :=
  (C05_FDB_list [str "1", str "258", str "65535"] (by decide) (by decide)).1

/-- `FCB 1,-2,255,-128` emits 01 FE FF 80; `FDB 1,-1` emits 00 01 FF FF; `FCB 1,300` is refused -/
example : LineEmits (str "1,-2,255,-128") fcbRow [1, 0xFE, 255, 0x80] :=
  C05_FCB_signed_list [(false, str "1"), (true, str "2"), (false, str "255"), (true, str "128")] (by decide) (by decide)
example : LineEmits (str "1,-1") fdbRow [0, 1, 0xFF, 0xFF] :=
  C05_FDB_signed_list [(false, str "1"), (true, str "1")] (by decide) (by decide)
example : ∃ err, createOperand (str "1,300") fcbRow = .error err :=
  C05_FCB_signed_list_rejected_fixed [(false, str "1"), (false, str "300")] (by decide) (by decide)
    (e := (false, str "300")) (by decide) (by decide) (by decide)
example : ∃ err, createOperand (str "1,-32769") fdbRow = .error err :=
  C05_FDB_signed_list_rejected_fixed [(false, str "1"), (true, str "32769")] (by decide) (by decide)
    (e := (true, str "32769")) (by decide) (by decide) (by decide)

example : LineEmits (str "255") fcbRow [255] := C05_FCB_literal (x := str "255") (by decide) (by decide)
example : LineEmits (str "-1") fcbRow [255] := C05_FCB_neg_literal (ds := str "1") (by decide) (by decide) (by decide)
example : LineEmits (str "-128") fcbRow [128] := C05_FCB_neg_literal (ds := str "128") (by decide) (by decide) (by decide)
example : LineEmits (str "4660") fdbRow [0x12, 0x34] := C05_FDB_literal (x := str "4660") (by decide) (by decide)
example : LineEmits (str "-1") fdbRow [0xFF, 0xFF] := C05_FDB_neg_literal (ds := str "1") (by decide) (by decide) (by decide)
example : LineEmits (str "3") rmbRow [0, 0, 0] := C05_RMB_literal (x := str "3") (by decide) (by decide)
example : LineEmits (str "0") rmbRow [] := C05_RMB_literal (x := str "0") (by decide) (by decide)
example : LineEmits (str "\"HELLO, WORLD\"") fccRow [72, 69, 76, 76, 79, 44, 32, 87, 79, 82, 76, 68] :=
  C05_FCC_text '"' (str "HELLO, WORLD") (by decide)
example : LineEmits (str "/a/") fccRow [97] := C05_FCC_text '/' (str "a") (by decide)

/-- the same through the table lookup -/
example : ∃ row, findRow (str "FCB") = some row ∧ LineEmits (str "1,2,3") row [1, 2, 3] :=
  ⟨fcbRow, rows_generated.1, C05_FCB_list [str "1", str "2", str "3"] (by decide) (by decide)⟩

/-- operand-level hypotheses are met by what the parser builds for `EQU 5` and `ORG $1234` -/
example : ∃ o, createOperand (str "5") equRow = .ok o ∧ PseudoEmits o equRow [] := by
  refine ⟨{ kind := .pseudo, text := str "5", value := .numeric 5 (some 4) .extended false }, rfl, ?_⟩
  exact (C05_no_data (by decide) (by decide) (by decide) (by decide) (by decide)).1

example : ∃ o, createOperand (str "$1234") orgRow = .ok o ∧ PseudoEmits o orgRow [] ∧
    translatePseudo o orgRow = .ok { address := .numeric 0x1234 (some 4) .extended false } := by
  refine ⟨{ kind := .pseudo, text := str "$1234", value := .numeric 0x1234 (some 4) .extended false }, rfl, ?_⟩
  exact C05_ORG rfl rfl

/-- the symbol theorems are met by what the parser builds for `FCB SIZE` with `SIZE EQU 4` in the table -/
example : ∃ o o', createOperand (str "SIZE") fcbRow = .ok o ∧
    resolveOperand o fcbRow [(str "SIZE", .numeric 4 (some 4) .extended false)] = .ok o' ∧ PseudoEmits o' fcbRow [4] := by
  obtain ⟨o', h1, _, h3⟩ := C05_FCB_symbol (row := fcbRow)
    (o := { kind := .pseudo, text := str "SIZE", value := .symbol (str "SIZE") .extended })
    (t := [(str "SIZE", .numeric 4 (some 4) .extended false)]) fcb_mem rfl rfl rfl rfl (by decide)
  exact ⟨_, o', rfl, h1, h3⟩

/-! ### kernel-checked witnesses on one line

`lineResult text row` runs the stages on one operand text (empty symbol table) and returns the `size` of the
package and the bytes of the fitted statement; `none` = the line is refused at some stage. -/

def lineResult (text : Str) (row : InstrRow) : Option (Nat × Option Bytes) :=
  match createOperand text row with
  | .ok o =>
    match resolveOperand o row [] with
    | .ok o' =>
      match translateOperand o' row with
      | .ok p => (match fitPkg row p with | .ok p' => some (p.size, pkgBytes p') | _ => none)
      | .error _ => none
    | .error _ => none
  | .error _ => none

/-- `lineResult` agrees with `LineEmits` -/
theorem lineResult_of_lineEmits {text : Str} {row : InstrRow} {bytes : Bytes} (h : LineEmits text row bytes) :
    lineResult text row = some (bytes.length, some bytes) := by
  obtain ⟨o, o', ho, hres, _, he⟩ := h
  obtain ⟨p, p', hp, hf, hb, hl⟩ := he.fitPkg
  simp [lineResult, ho, hres, hp, hf, hb, hl]

/-- REPAIRED (formerly `C05_finding_FCB_neg1`: `$01`): `FCB -1` emits `$FF` -/
theorem C05_finding_FCB_neg1_fixed : lineResult (str "-1") fcbRow = some (1, some [0xFF]) := by decide +kernel

/-- REPAIRED (formerly `C05_finding_FCB_300`: `$12`, and `C05_finding_FCB_65535`: `$FF`): refused -/
theorem C05_finding_FCB_300_fixed : lineResult (str "300") fcbRow = none := by decide +kernel
theorem C05_finding_FCB_65535_fixed : lineResult (str "65535") fcbRow = none := by decide +kernel

/-- REPAIRED (formerly `C05_finding_FDB_neg1`: `$00 $01`): `FDB -1` emits `$FF $FF` -/
theorem C05_finding_FDB_neg1_fixed : lineResult (str "-1") fdbRow = some (2, some [0xFF, 0xFF]) := by decide +kernel

/-- REPAIRED (formerly `C05_finding_FDB_70000`: accepted as a symbol and emitted as zeros): `FDB 70000` fails as a
number, is taken as a symbol named "70000", and that symbol is undefined — a diagnostic -/
theorem C05_finding_FDB_70000_fixed : lineResult (str "70000") fdbRow = none := by decide +kernel

/-- REPAIRED (formerly `C05_finding_symbolic`: symbols and expressions never evaluated): an undefined symbol is a
diagnostic, an expression of numbers is evaluated (`FCB 1+2` is `$03`) -/
theorem C05_finding_symbolic_fixed :
    lineResult (str "SYM") fcbRow = none ∧ lineResult (str "1+2") fcbRow = some (1, some [3]) ∧
    lineResult (str "SYM") fdbRow = none ∧ lineResult (str "SYM") rmbRow = none := by
  decide +kernel

/-- REPAIRED (formerly `C05_finding_RMB_neg1`: one byte reserved): `RMB -1` is refused -/
theorem C05_finding_RMB_neg1_fixed : lineResult (str "-1") rmbRow = none := by decide +kernel

/-- REPAIRED (fix 077e4c2; formerly a finding): a list element that does not fit a byte is rejected when the line is
parsed -/
theorem C05_fixed_FCB_list_wide :
    lineResult (str "1,300") fcbRow = none ∧
    lineResult (str "1,4096") fcbRow = none := by decide +kernel

/-- REPAIRED (formerly `C05_finding_list_neg`: `FDB 1,-1` gave `0001 00FF`, a single `FCB -2` gave `$02`): negatives
are complemented at the directive's width, single value and list element alike; `-0` is zero -/
theorem C05_finding_list_neg_fixed :
    lineResult (str "1,-2") fcbRow = some (2, some [1, 0xFE]) ∧
    lineResult (str "-2") fcbRow = some (1, some [0xFE]) ∧
    lineResult (str "1,-1") fdbRow = some (4, some [0, 1, 0xFF, 0xFF]) ∧
    lineResult (str "1,-0") fcbRow = some (2, some [1, 0]) := by decide +kernel

/-- STILL A FINDING: empty list elements are dropped without a diagnostic (`FCB 1,,3` is two bytes, `FCB 1,` one) -/
theorem C05_finding_list_empty :
    lineResult (str "1,,3") fcbRow = some (2, some [1, 3]) ∧ lineResult (str "1,") fcbRow = some (1, some [1]) := by
  decide +kernel

/-- REPAIRED (formerly `C05_finding_list_symbol`: `lineResult (str "1,1+2") fcbRow = none`, a symbol or an expression
INSIDE a list was refused): on the one-line level the element is accepted and holds its place with zeros (`lineResult`
stops before the lists are evaluated); through `assemble` it is evaluated: `FCB 1,1+2` is `01 03`, and with
`SYM EQU 7`, `FCB 1,SYM` is `01 07` -/
theorem C05_finding_list_symbol_fixed (fs : Files) :
    lineResult (str "1,1+2") fcbRow = some (2, some [1, 0]) ∧ lineResult (str "1+2") fcbRow = some (1, some [3]) ∧
    (∃ a, assemble fs (["SYM EQU 7\n", " FCB 1,SYM\n"].map String.toList) = .ok a ∧ a.image = some [0x01, 0x07]) ∧
    (∃ a, assemble fs ([" FCB 1,1+2\n"].map String.toList) = .ok a ∧ a.image = some [0x01, 0x03]) :=
  ⟨by decide +kernel, by decide +kernel, progImage_sound (by decide +kernel) fs, progImage_sound (by decide +kernel) fs⟩

/-- REPAIRED (fix dfad397; formerly the findings `C05_finding_FCC_tab*`): a TAB inside an FCC string is the
byte `$09` like any other character -/
theorem C05_fixed_FCC_tab :
    lineResult ['"', 'A', '\t', 'B', '"'] fccRow = some (3, some [0x41, 0x09, 0x42]) ∧
    lineResult ['"', '\t', '"'] fccRow = some (1, some [0x09]) ∧
    lineResult ['"', '\t', '\t', '"'] fccRow = some (2, some [0x09, 0x09]) := by decide +kernel

/-- on the operand-text level a one-character FCC operand is its own closing delimiter: the text `A` is the empty
string.  (NOT reachable from a source line any more: `parseLine` cuts the operand of `FCC A` down to the empty
text, which is refused — `C05_program_FCC_single_char`.) -/
theorem C05_finding_FCC_single_char : lineResult (str "A") fccRow = some (0, some []) := by decide +kernel

/-! ### whole programs through `assemble`: labels and EQU symbols under the data directives

`progCheck lines check` (Lemmas/EncodeProgram.lean) evaluates the pipeline on an INCLUDE-free program inside the
kernel; `progCheck_sound` turns it into a statement about `assemble fs lines` for every host file system `fs`. -/

def prog (lines : List String) : List Str := lines.map String.toList

/-- **`FDB LABEL`**: the address of the label, backward and forward reference (before the repair: `$0000`) -/
theorem C05_program_FDB_label (fs : Files) :
    ∃ a, assemble fs (prog [" ORG $1000\n", "START NOP\n", " FDB START\n", " FDB LABEL\n", "LABEL NOP\n"]) = .ok a ∧
      a.image = some [0x12, 0x10, 0x00, 0x10, 0x05, 0x12] := by
  obtain ⟨a, ha, hc⟩ := progCheck_sound (check := fun a => a.image == some [0x12, 0x10, 0x00, 0x10, 0x05, 0x12])
    (lines := prog [" ORG $1000\n", "START NOP\n", " FDB START\n", " FDB LABEL\n", "LABEL NOP\n"]) (by decide +kernel) fs
  exact ⟨a, ha, by simpa using hc⟩

/-- **`BUF RMB SIZE`** with `SIZE EQU 4`: four bytes are reserved, `FCB SIZE` / `FDB SIZE` are the constant, and the
label after the buffer has moved accordingly (`FDB BUF2` is `$0004`) -/
theorem C05_program_RMB_symbol (fs : Files) :
    ∃ a, assemble fs (prog ["SIZE EQU 4\n", "BUF RMB SIZE\n", "BUF2 FCB SIZE\n", " FDB SIZE\n", " FDB BUF2\n"]) = .ok a ∧
      a.image = some [0, 0, 0, 0, 4, 0, 4, 0, 4] := by
  obtain ⟨a, ha, hc⟩ := progCheck_sound (check := fun a => a.image == some [0, 0, 0, 0, 4, 0, 4, 0, 4])
    (lines := prog ["SIZE EQU 4\n", "BUF RMB SIZE\n", "BUF2 FCB SIZE\n", " FDB SIZE\n", " FDB BUF2\n"]) (by decide +kernel) fs
  exact ⟨a, ha, by simpa using hc⟩

/-- **`ORG START`** with `START EQU $2000`: the origin is `$2000` and labels count from there -/
theorem C05_program_ORG_symbol (fs : Files) :
    ∃ a, assemble fs (prog ["START EQU $2000\n", " ORG START\n", "L NOP\n", " FDB L\n"]) = .ok a ∧
      a.origin.int? = some 0x2000 ∧ a.image = some [0x12, 0x20, 0x00] := by
  obtain ⟨a, ha, hc⟩ := progCheck_sound
    (check := fun a => a.origin.int? == some 0x2000 && a.image == some [0x12, 0x20, 0x00])
    (lines := prog ["START EQU $2000\n", " ORG START\n", "L NOP\n", " FDB L\n"]) (by decide +kernel) fs
  simp only [Bool.and_eq_true, beq_iff_eq] at hc
  exact ⟨a, ha, hc.1, hc.2⟩

/-- a label under FCB must fit a byte: `FCB L` with `L` at `$1000` is a diagnostic, at `$0000` it is `$00` -/
theorem C05_program_FCB_label (fs : Files) :
    assemble fs (prog [" ORG $1000\n", "L NOP\n", " FCB L\n"]) = .diag ∧
    ∃ a, assemble fs (prog ["L NOP\n", " FCB L\n"]) = .ok a ∧ a.image = some [0x12, 0x00] := by
  refine ⟨progDiag_sound (by decide +kernel) fs, ?_⟩
  obtain ⟨a, ha, hc⟩ := progCheck_sound (check := fun a => a.image == some [0x12, 0x00])
    (lines := prog ["L NOP\n", " FCB L\n"]) (by decide +kernel) fs
  exact ⟨a, ha, by simpa using hc⟩

/-- negative values and lists in a program -/
theorem C05_program_negatives (fs : Files) :
    ∃ a, assemble fs (prog [" FCB -1\n", " FDB -1\n", " FCB 1,-2\n", " FDB 1,-1\n"]) = .ok a ∧
      a.image = some [0xFF, 0xFF, 0xFF, 1, 0xFE, 0, 1, 0xFF, 0xFF] := by
  obtain ⟨a, ha, hc⟩ := progCheck_sound (check := fun a => a.image == some [0xFF, 0xFF, 0xFF, 1, 0xFE, 0, 1, 0xFF, 0xFF])
    (lines := prog [" FCB -1\n", " FDB -1\n", " FCB 1,-2\n", " FDB 1,-1\n"]) (by decide +kernel) fs
  exact ⟨a, ha, by simpa using hc⟩

/-- a NEGATIVE EQU constant under the data directives (repair batch B2): `X EQU -5`, `FDB X` is `FF FB`, `FCB X` is
`FB`; `RMB X` and `ORG X` are refused -/
theorem C05_program_negative_symbol (fs : Files) :
    (∃ a, assemble fs (prog ["X EQU -5\n", " FDB X\n", " FCB X\n"]) = .ok a ∧ a.image = some [0xFF, 0xFB, 0xFB]) ∧
    assemble fs (prog ["X EQU -5\n", " RMB X\n"]) = .diag ∧ assemble fs (prog ["X EQU -5\n", " ORG X\n"]) = .diag := by
  refine ⟨?_, progDiag_sound (by decide +kernel) fs, progDiag_sound (by decide +kernel) fs⟩
  obtain ⟨a, ha, hc⟩ := progCheck_sound (check := fun a => a.image == some [0xFF, 0xFB, 0xFB])
    (lines := prog ["X EQU -5\n", " FDB X\n", " FCB X\n"]) (by decide +kernel) fs
  exact ⟨a, ha, by simpa using hc⟩

/-- what is refused, as programs -/
theorem C05_program_rejected (fs : Files) :
    assemble fs (prog [" FCB 300\n"]) = .diag ∧ assemble fs (prog [" FCB -129\n"]) = .diag ∧
    assemble fs (prog [" RMB -1\n"]) = .diag ∧ assemble fs (prog [" FCB 1,300\n"]) = .diag ∧
    assemble fs (prog [" FDB 70000\n"]) = .diag ∧ assemble fs (prog [" FCB NOSUCH\n"]) = .diag :=
  ⟨progDiag_sound (by decide +kernel) fs, progDiag_sound (by decide +kernel) fs, progDiag_sound (by decide +kernel) fs,
   progDiag_sound (by decide +kernel) fs, progDiag_sound (by decide +kernel) fs, progDiag_sound (by decide +kernel) fs⟩

/-- `FCC A` as a source line: a diagnostic ("a value cannot be empty") -/
theorem C05_program_FCC_single_char (fs : Files) : assemble fs (prog [" FCC A\n"]) = .diag :=
  progDiag_sound (by decide +kernel) fs

/-! ### FCC: the string is taken from the line as it was written (fix d74c37d; finding D3 closed)

Before the fix `parse_line` rebuilt the FCC operand from the `operands` and `comment` groups of ASM_LINE_REGEX (joined by
ONE blank): a run of blanks inside the string collapsed and a `;` after a blank was lost with the blanks around it.  Now
the text from the start of the `operands` group to the end of the line is used (`rstrip (operandsTail line)`). -/

/-- **C05, an FCC line in general**: on the line `label FCC d body d tail` — `d` any non-blank delimiter, `body` ANY
text of 8-bit characters without `d` and without a newline (blanks, runs of blanks, `;`, characters outside the operand
class: all kept), `tail` not ending in a blank — the statement carries exactly the string `body`; the comment is `tail`
without its blanks and leading semicolons -/
theorem C05_FCC_line_as_written (label : Str) (d : Char) (body tail : Str) (hl : ∀ c ∈ label, isLabelCh c = true)
    (hdsp : isSpace d = false) (hd : d ∉ body) (hb : ∀ c ∈ body, c.toNat < 256)
    (hnl : '\n' ∉ d :: (body ++ d :: tail)) (ht : ∀ c ∈ tail.getLast?, isSpace c = false) :
    parseLine (label ++ ' ' :: (str "FCC" ++ ' ' :: (d :: (body ++ d :: tail)))) = .ok (some {
      label := label, mnemonic := str "FCC", row := fccRow,
      operand := { kind := .pseudo, text := d :: (body ++ [d]), value := .str body },
      origText := d :: (body ++ [d]), comment := strip ((strip tail).dropWhile (· == ';')) }) := by
  have hm : ∀ c ∈ str "FCC", isWord c = true := by decide
  have hr : ∀ c ∈ (d :: (body ++ d :: tail)).head?, isSpace c = false := by
    intro c hc; simp at hc; subst hc; exact hdsp
  have hscan := scanLine_line label (str "FCC") (d :: (body ++ d :: tail)) hl hm (by decide) hr
  rw [dotStarEnd_of_noNewline _ (not_mem_dropWhile (not_mem_dropWhile (not_mem_dropWhile hnl)))] at hscan
  have hlast : ∀ c ∈ (d :: (body ++ d :: tail)).getLast?, isSpace c = false := by
    intro c hc
    have e : d :: (body ++ d :: tail) = (d :: body ++ [d]) ++ tail := by simp
    rw [e, List.getLast?_append] at hc
    cases hg : tail.getLast? with
    | none =>
      rw [hg] at hc
      have e2 : (d :: body ++ [d]).getLast? = some d := by rw [List.getLast?_append]; simp
      simp only [Option.none_or, Option.mem_def] at hc
      rw [e2] at hc; cases hc; exact hdsp
    | some x => rw [hg] at hc; simp at hc; subst hc; exact ht _ (by rw [hg]; rfl)
  have hoo : rstrip (operandsTail (label ++ ' ' :: (str "FCC" ++ ' ' :: (d :: (body ++ d :: tail))))) =
      d :: (body ++ d :: tail) := by
    rw [operandsTail_line label (str "FCC") _ hl hm (by decide) hr]
    have := rstrip_append_blanks (d :: (body ++ d :: tail)) [] hlast (by simp)
    simpa using this
  exact parseLine_fcc d body tail hscan rows_generated.2.2.2.1 rfl hoo hd hdsp
    (createOperand_fcc (row := fccRow) rfl rfl rfl rfl rfl rfl d body hb)

/-- ... and the bytes of that statement are the character codes of `body` -/
theorem C05_FCC_line_bytes (label : Str) (d : Char) (body tail : Str) (hl : ∀ c ∈ label, isLabelCh c = true)
    (hdsp : isSpace d = false) (hd : d ∉ body) (hb : ∀ c ∈ body, c.toNat < 256)
    (hnl : '\n' ∉ d :: (body ++ d :: tail)) (ht : ∀ c ∈ tail.getLast?, isSpace c = false) :
    ∃ s, parseLine (label ++ ' ' :: (str "FCC" ++ ' ' :: (d :: (body ++ d :: tail)))) = .ok (some s) ∧
      s.operand.value = .str body ∧ PseudoEmits s.operand s.row (body.map Char.toNat) :=
  ⟨_, C05_FCC_line_as_written label d body tail hl hdsp hd hb hnl ht, rfl, C05_FCC rfl rfl hb⟩

/-- the string and the comment `parseLine` finds on a line (`none`: not a statement with a string operand) -/
def fccOf (line : Str) : Option (Str × Str) :=
  match parseLine line with
  | .ok (some s) => (match s.operand.value with | .str b => some (b, s.comment) | _ => none)
  | _ => none

theorem fccOf_sound {line b c : Str} (h : fccOf line = some (b, c)) :
    ∃ s, parseLine line = .ok (some s) ∧ s.operand.value = .str b ∧ s.comment = c := by
  unfold fccOf at h
  split at h
  · rename_i s hs
    split at h
    · rename_i b' hv
      simp only [Option.some.injEq, Prod.mk.injEq] at h
      exact ⟨s, hs, by rw [hv, h.1], h.2⟩
    · cases h
  · cases h

/-- REPAIRED (fix d74c37d; finding D3: the string was rebuilt from two regex groups): kernel-checked lines, with the
final newline a file gives.  `MSG FCC 'a  b;c'` keeps its two blanks and its `;`; a comment after the closing
delimiter is still a comment, with or without `;`; blanks at the end of the line are not part of anything -/
theorem C05_finding_FCC_rebuilt_fixed :
    fccOf (str "MSG FCC 'a  b;c'\n") = some (str "a  b;c", []) ∧
    fccOf (str "MSG FCC 'a  b;c'  ; note\n") = some (str "a  b;c", str "note") ∧
    fccOf (str " FCC /a b/ hello  \n") = some (str "a b", str "hello") ∧
    fccOf (str " FCC \"x ; y\"\n") = some (str "x ; y", []) := by decide +kernel

/-- the same through `assemble`: `MSG FCC 'a  b;c'` is the six bytes `61 20 20 62 3B 63` -/
theorem C05_program_FCC_as_written (fs : Files) :
    ∃ a, assemble fs (prog ["MSG FCC 'a  b;c'\n", " FCC /x ; y/ ; note\n"]) = .ok a ∧
      a.image = some [0x61, 0x20, 0x20, 0x62, 0x3B, 0x63, 0x78, 0x20, 0x3B, 0x20, 0x79] := by
  obtain ⟨a, ha, hc⟩ := progCheck_sound
    (check := fun a => a.image == some [0x61, 0x20, 0x20, 0x62, 0x3B, 0x63, 0x78, 0x20, 0x3B, 0x20, 0x79])
    (lines := prog ["MSG FCC 'a  b;c'\n", " FCC /x ; y/ ; note\n"]) (by decide +kernel) fs
  exact ⟨a, ha, by simpa using hc⟩

/-- the general theorem is met by a real line -/
example : ∃ s, parseLine (str "MSG FCC 'a  b;c' ;note") = .ok (some s) ∧ s.operand.value = .str (str "a  b;c") ∧
    s.comment = str "note" :=
  ⟨_, C05_FCC_line_as_written (str "MSG") '\'' (str "a  b;c") (str " ;note") (by decide) (by decide) (by decide)
    (by decide) (by decide) (by decide), rfl, by decide⟩

/-! ### the property -/

/-- the integer a numeric value stands for -/
def signedOf (i : Nat) (neg : Bool) : Int := if neg then -(i : Int) else (i : Int)

/-- the byte an integer denotes under FCB: unsigned 0..255 or signed -128..-1 (two's complement) -/
def byteOf? (z : Int) : Option Bytes := if -128 ≤ z ∧ z ≤ 255 then some [(z % 256).toNat] else none

/-- the two bytes an integer denotes under FDB, high byte first -/
def wordOf? (z : Int) : Option Bytes :=
  if -32768 ≤ z ∧ z ≤ 65535 then some [(z % 65536 / 256).toNat, (z % 256).toNat] else none

/-- what is meant to happen: the denoted bytes are emitted; a value without an encoding is refused -/
def Meant (o : Operand) (row : InstrRow) : Option Bytes → Prop
  | some bs => PseudoEmits o row bs
  | none => Rejects o row

/-- C05 at full strength, for the rows of the generated table -/
def C05_Statement : Prop :=
  -- FCB / FDB with one value: every integer, negatives as two's complement, misfits refused
  (∀ (o : Operand) (row : InstrRow) (i : Nat) (h : Option Nat) (m : Mode) (neg : Bool), row ∈ Gen.instructions →
    row.mnemonic = "FCB" → o.value = .numeric i h m neg → Meant o row (byteOf? (signedOf i neg))) ∧
  (∀ (o : Operand) (row : InstrRow) (i : Nat) (h : Option Nat) (m : Mode) (neg : Bool), row ∈ Gen.instructions →
    row.mnemonic = "FDB" → o.value = .numeric i h m neg → Meant o row (wordOf? (signedOf i neg))) ∧
  -- FCB / FDB with a list
  (∀ (o : Operand) (row : InstrRow) (bs : Bytes),
    row.mnemonic = "FCB" → o.value = .multiByte (bs.map byteHex) → (∀ b ∈ bs, b < 256) → PseudoEmits o row bs) ∧
  (∀ (o : Operand) (row : InstrRow) (ws : List Nat),
    row.mnemonic = "FDB" → o.value = .multiWord (ws.map wordHex) → (∀ w ∈ ws, w < 65536) →
      PseudoEmits o row (wordBytes ws)) ∧
  -- RMB: a count; a count written with a minus sign is refused
  (∀ (o : Operand) (row : InstrRow) (n : Nat) (h : Option Nat) (m : Mode) (neg : Bool), row ∈ Gen.instructions →
    row.mnemonic = "RMB" → o.value = .numeric n h m neg →
      Meant o row (if neg = false then some (List.replicate n 0) else none)) ∧
  -- FCC: every string of 8-bit characters
  (∀ (o : Operand) (row : InstrRow) (s : Str),
    row.mnemonic = "FCC" → o.value = .str s → (∀ c ∈ s, c.toNat < 256) → PseudoEmits o row (s.map Char.toNat)) ∧
  -- ORG: nothing is emitted, a non-negative number becomes the address, anything else is refused
  (∀ (o : Operand) (row : InstrRow), row.mnemonic = "ORG" →
    (∀ n h m, o.value = .numeric n h m false → PseudoEmits o row [] ∧ translatePseudo o row = .ok { address := o.value }) ∧
    (o.value.isNumeric = false ∨ o.value.isNegative = true → Rejects o row)) ∧
  -- the rest emit nothing
  (∀ (o : Operand) (row : InstrRow),
    row.mnemonic ∈ ["EQU", "SETDP", "NAM", "END", "INCLUDE", "SET"] → PseudoEmits o row [])

theorem byteOf_fits {i : Nat} {neg : Bool} (h : fitsByte i neg = true) :
    byteOf? (signedOf i neg) = some [byteField i neg] := by
  cases neg <;> simp [fitsByte] at h
  · have e : ((i : Int) % 256).toNat = i := by omega
    have c : (-128 : Int) ≤ i ∧ (i : Int) ≤ 255 := by omega
    simp [byteOf?, signedOf, byteField, c, e]
  · have e : ((-(i : Int)) % 256).toNat = (256 - i) % 256 := by omega
    have c : (-128 : Int) ≤ -(i : Int) ∧ -(i : Int) ≤ 255 := by omega
    simp [byteOf?, signedOf, byteField, c, e]

theorem byteOf_misfit {i : Nat} {neg : Bool} (h : fitsByte i neg = false) : byteOf? (signedOf i neg) = none := by
  cases neg <;> simp [fitsByte] at h
  · have c : ¬ (i : Int) ≤ 255 := by omega
    simp [byteOf?, signedOf, c]
  · have c : ¬ (-128 : Int) ≤ -(i : Int) := by omega
    simp [byteOf?, signedOf, c]

theorem wordOf_fits {i : Nat} {neg : Bool} (h : fitsWord i neg = true) :
    wordOf? (signedOf i neg) = some [wordField i neg / 256, wordField i neg % 256] := by
  cases neg <;> simp [fitsWord] at h
  · have e1 : ((i : Int) % 65536 / 256).toNat = i / 256 := by omega
    have e2 : ((i : Int) % 256).toNat = i % 256 := by omega
    have c : (-32768 : Int) ≤ i ∧ (i : Int) ≤ 65535 := by omega
    simp [wordOf?, signedOf, wordField, c, e1, e2]
  · have e1 : ((-(i : Int)) % 65536 / 256).toNat = (65536 - i) % 65536 / 256 := by omega
    have e2 : ((-(i : Int)) % 256).toNat = (65536 - i) % 65536 % 256 := by omega
    have c : (-32768 : Int) ≤ -(i : Int) ∧ -(i : Int) ≤ 65535 := by omega
    simp [wordOf?, signedOf, wordField, c, e1, e2]

theorem wordOf_misfit {i : Nat} {neg : Bool} (h : fitsWord i neg = false) : wordOf? (signedOf i neg) = none := by
  cases neg <;> simp [fitsWord] at h
  · have c : ¬ (i : Int) ≤ 65535 := by omega
    simp [wordOf?, signedOf, c]
  · have c : ¬ (-32768 : Int) ≤ -(i : Int) := by omega
    simp [wordOf?, signedOf, c]

/-- **C05 holds at full strength** (since the repair of the data directives; formerly `C05_partial` with the
restrictions "non-negative and fits", and refuted by `C05_not_full`, `C05_not_full_RMB`) -/
theorem C05_full : C05_Statement := by
  refine ⟨?_, ?_, ?_, ?_, ?_, ?_, ?_, ?_⟩
  · intro o row i h m neg hrow hm hv
    cases hf : fitsByte i neg
    · rw [byteOf_misfit hf]; exact C05_FCB_single_rejected hrow hm hv hf
    · rw [byteOf_fits hf]; exact C05_FCB_single hrow hm hv hf
  · intro o row i h m neg hrow hm hv
    cases hf : fitsWord i neg
    · rw [wordOf_misfit hf]; exact C05_FDB_single_rejected hrow hm hv hf
    · rw [wordOf_fits hf]; exact C05_FDB_single hrow hm hv hf
  · intro o row bs hm hv hb; exact C05_FCB_multi hm hv hb
  · intro o row ws hm hv hw; exact (C05_FDB_multi hm hv hw).1
  · intro o row n h m neg hrow hm hv
    cases neg
    · simp only [if_true]; exact C05_RMB hrow hm hv
    · simp only [Bool.true_eq_false, if_false]; exact C05_RMB_neg_rejected hm hv
  · intro o row s hm hv hs; exact C05_FCC hm hv hs
  · intro o row hm
    exact ⟨fun n h m hv => C05_ORG hm hv, C05_ORG_rejected hm⟩
  · intro o row hm; exact C05_no_data_mnemonics hm

/-- the proved part IS the whole statement now; kept under the old name for the harness -/
theorem C05_partial : C05_Statement := C05_full

/-- the operand that refuted the old statement (`FCB -1` as the parser builds it: it was meant to emit `$FF` and
emitted `$01`) now emits `$FF` -/
example : PseudoEmits { kind := .pseudo, text := str "-1", value := .numeric 1 (some 4) .extended true } fcbRow [255] :=
  C05_FCB_single (n := 1) (neg := true) fcb_mem rfl rfl (by decide)

/-- and `RMB -1` is refused -/
example : Rejects { kind := .pseudo, text := str "-1", value := .numeric 1 (some 4) .extended true } rmbRow :=
  C05_RMB_neg_rejected rfl rfl

/-- the operand used above is the one `Operand.create_from_str` builds for `FCB -1` -/
example : createOperand (str "-1") fcbRow =
    .ok { kind := .pseudo, text := str "-1", value := .numeric 1 (some 4) .extended true } := rfl

/-! ### symbols, expressions and labels INSIDE a list (repair of finding C2, model batch 8)

When the line is parsed a list element that is not a literal but a symbol or a two-term expression is kept and holds its
place with zeros (`multi` / `elemHexP`: `multi_ok_positions`); after the address pass `evalLists` replaces it by its
value at the width of the directive (`evalElem`), literal positions keep their digits (`evalElems`).  The clauses of
`C05_Statement` about lists (a value that IS a list of hex strings is emitted as it is) are untouched; the theorems
below are the new clause.  Helpers: Lemmas/EncodeLists.lean. -/

/-- what a list element of integer value `z` is meant to become under FCB: two hex digits, −128..255, a negative value in
two's complement; anything else is a diagnostic -/
def elemOf2 (z : Int) : Outcome Str := if -128 ≤ z ∧ z ≤ 255 then .ok (byteHex (z % 256).toNat) else .diag

/-- ... and under FDB: four hex digits, −32768..65535 -/
def elemOf4 (z : Int) : Outcome Str := if -32768 ≤ z ∧ z ≤ 65535 then .ok (wordHex (z % 65536).toNat) else .diag

theorem renderAt2_eq (n : Nat) (neg : Bool) : renderAt 2 n neg = elemOf2 (signedOf n neg) := by
  rw [renderAt_byte]
  cases hf : fitsByte n neg
  · cases neg <;> simp [fitsByte] at hf
    · have c : ¬ (n : Int) ≤ 255 := by omega
      simp [elemOf2, signedOf, c]
    · have c : ¬ (-128 : Int) ≤ -(n : Int) := by omega
      simp [elemOf2, signedOf, c]
  · cases neg <;> simp [fitsByte] at hf
    · have e : ((n : Int) % 256).toNat = n := by omega
      have c : (-128 : Int) ≤ n ∧ (n : Int) ≤ 255 := by omega
      simp [elemOf2, signedOf, byteField, c, e]
    · have e : ((-(n : Int)) % 256).toNat = (256 - n) % 256 := by omega
      have c : (-128 : Int) ≤ -(n : Int) ∧ -(n : Int) ≤ 255 := by omega
      simp [elemOf2, signedOf, byteField, c, e]

theorem renderAt4_eq (n : Nat) (neg : Bool) : renderAt 4 n neg = elemOf4 (signedOf n neg) := by
  rw [renderAt_word]
  cases hf : fitsWord n neg
  · cases neg <;> simp [fitsWord] at hf
    · have c : ¬ (n : Int) ≤ 65535 := by omega
      simp [elemOf4, signedOf, c]
    · have c : ¬ (-32768 : Int) ≤ -(n : Int) := by omega
      simp [elemOf4, signedOf, c]
  · cases neg <;> simp [fitsWord] at hf
    · have e : ((n : Int) % 65536).toNat = n := by omega
      have c : (-32768 : Int) ≤ n ∧ (n : Int) ≤ 65535 := by omega
      simp [elemOf4, signedOf, wordField, c, e]
    · have e : ((-(n : Int)) % 65536).toNat = (65536 - n) % 65536 := by omega
      have c : (-32768 : Int) ≤ -(n : Int) ∧ -(n : Int) ≤ 65535 := by omega
      simp [elemOf4, signedOf, wordField, c, e]

/-- **C05, a list element with a numeric value, FCB**: whatever the element text `x` is (a symbol, an expression of
constants such as `S*2`), if `resolve` yields the number `n` (sign `neg`) the element becomes the two's complement byte of
that number when −128 ≤ n ≤ 255, and the list is refused otherwise -/
theorem C05_list_elem_value_FCB {ss : List Stmt} {t : SymTab} {x : Str} {v : Value} {n : Nat} {h : Option Nat} {m : Mode}
    {neg : Bool} (hc : create 4 x false false true = .ok v) (hr : v.resolve t = .ok (.numeric n h m neg)) :
    evalElem ss t 2 x = elemOf2 (signedOf n neg) := by
  rw [evalElem_numeric hc hr, renderAt2_eq]

/-- **… FDB**: the two's complement word when −32768 ≤ n ≤ 65535, refused otherwise -/
theorem C05_list_elem_value_FDB {ss : List Stmt} {t : SymTab} {x : Str} {v : Value} {n : Nat} {h : Option Nat} {m : Mode}
    {neg : Bool} (hc : create 4 x false false true = .ok v) (hr : v.resolve t = .ok (.numeric n h m neg)) :
    evalElem ss t 4 x = elemOf4 (signedOf n neg) := by
  rw [evalElem_numeric hc hr, renderAt4_eq]

theorem signedOf_negZero (v : Nat) (neg : Bool) : signedOf v (neg && decide (0 < v)) = signedOf v neg := by
  cases neg
  · rfl
  · by_cases h0 : 0 < v
    · simp [h0]
    · have : v = 0 := by omega
      subst this
      simp [signedOf]

/-- **C05, a SYMBOL in an FCB list** (`SYM EQU n` … `FCB 1,SYM`): `x` is read as the symbol `name` (`hc`; what
`createV_sym` of Lemmas/FrontEndSymbol.lean shows for every symbol name), the table binds it to the constant `v` with
sign `neg` -/
theorem C05_list_elem_symbol_FCB {ss : List Stmt} {t : SymTab} {x name : Str} {mo : Mode} {v : Nat} {h : Option Nat}
    {m : Mode} {neg : Bool} (hc : create 4 x false false true = .ok (.symbol name mo))
    (ht : t.get? name = some (.numeric v h m neg)) (hlt : v < 65536) :
    evalElem ss t 2 x = elemOf2 (signedOf v neg) := by
  obtain ⟨h', m', hr⟩ := resolve_symbol_numeric (mo := mo) ht hlt
  rw [C05_list_elem_value_FCB hc hr, signedOf_negZero]

/-- **C05, a symbol in an FDB list** -/
theorem C05_list_elem_symbol_FDB {ss : List Stmt} {t : SymTab} {x name : Str} {mo : Mode} {v : Nat} {h : Option Nat}
    {m : Mode} {neg : Bool} (hc : create 4 x false false true = .ok (.symbol name mo))
    (ht : t.get? name = some (.numeric v h m neg)) (hlt : v < 65536) :
    evalElem ss t 4 x = elemOf4 (signedOf v neg) := by
  obtain ⟨h', m', hr⟩ := resolve_symbol_numeric (mo := mo) ht hlt
  rw [C05_list_elem_value_FDB hc hr, signedOf_negZero]

/-- **C05, a LABEL in an FDB list** (a jump table: `FDB L1,L2`): the table entry of a label is the index `j` of its
statement; the element becomes the address `a` of that statement, high byte first -/
theorem C05_list_elem_label_FDB {ss : List Stmt} {t : SymTab} {x name : Str} {mo m : Mode} {j a : Nat} {h : Option Nat}
    {m' : Mode} (hc : create 4 x false false true = .ok (.symbol name mo)) (ht : t.get? name = some (.address j m))
    (ha : addrOf ss j = some (.numeric a h m' false)) :
    evalElem ss t 4 x = if a ≤ 65535 then .ok (wordHex a) else .diag := by
  rw [evalElem_address hc (resolve_symbol_address ht) ha, renderAt_word]
  simp [fitsWord, wordField]

/-- **C05, a label in an FCB list**: the address if it fits a byte, refused otherwise -/
theorem C05_list_elem_label_FCB {ss : List Stmt} {t : SymTab} {x name : Str} {mo m : Mode} {j a : Nat} {h : Option Nat}
    {m' : Mode} (hc : create 4 x false false true = .ok (.symbol name mo)) (ht : t.get? name = some (.address j m))
    (ha : addrOf ss j = some (.numeric a h m' false)) :
    evalElem ss t 2 x = if a ≤ 255 then .ok (byteHex a) else .diag := by
  rw [evalElem_address hc (resolve_symbol_address ht) ha, renderAt_byte]
  simp [fitsByte, byteField]

/-- **C05, a LABEL EXPRESSION in a list** (`L1+1`, `L2-L1`): if `resolve` yields a label expression, the element is
`calculate_address_offset` on the final addresses (`addrOffset`), rendered at the width of the directive (`renderAt`:
`renderAt2_eq`, `renderAt4_eq`); a failure of the offset (a division by zero, a result above 65535) refuses the list -/
theorem C05_list_elem_label_expr {ss : List Stmt} {t : SymTab} {w : Nat} {x : Str} {v l r : Value} {op : Char} {mo : Mode}
    (hc : create 4 x false false true = .ok v) (hr : v.resolve t = .ok (.expr l r op mo true)) :
    evalElem ss t w x =
      (match addrOffset ss (.expr l r op mo true) with
       | .ok (.numeric n _ _ neg) => renderAt w n neg
       | .ok _ => .diag
       | .diag => .diag
       | .internal => .internal
       | .diverged => .diverged) :=
  evalElem_addrExpr hc hr

/-- **C05, an UNDEFINED symbol in a list**: refused, whatever the width -/
theorem C05_list_elem_undefined {ss : List Stmt} {t : SymTab} {w : Nat} {x name : Str} {mo : Mode}
    (hc : create 4 x false false true = .ok (.symbol name mo)) (ht : t.get? name = none) :
    evalElem ss t w x = .diag :=
  evalElem_resolve_error hc (resolve_symbol_undefined ht)

/-- **C05, the list position by position**: for a list of element texts `xs` with the digits `hs` stored when the line
was parsed (same length: `multi_ok_positions`), the evaluation succeeds with `r` exactly when `r` has one entry per
element, every PENDING element (a symbol or an expression that is not a literal) evaluates to its entry, and every
LITERAL position keeps its digits -/
theorem C05_list_positions {ss : List Stmt} {t : SymTab} {w : Nat} {xs hs r : List Str} (hl : xs.length = hs.length) :
    evalElems ss t w xs hs = .ok r ↔
      r.length = xs.length ∧
      ∀ i (hi : i < xs.length) (hh : i < hs.length) (hr : i < r.length),
        (isPending w xs[i] = true → evalElem ss t w xs[i] = .ok r[i]) ∧ (isPending w xs[i] = false → r[i] = hs[i]) := by
  have key : ∀ (x h v : Str), elemFinal ss t w x h = .ok v ↔
      (isPending w x = true → evalElem ss t w x = .ok v) ∧ (isPending w x = false → v = h) := by
    intro x h v
    unfold elemFinal
    cases hp : isPending w x
    · simp only [Bool.false_eq_true, if_false, Outcome.ok.injEq, false_imp_iff, true_and, forall_const]
      exact eq_comm
    · simp
  constructor
  · intro he
    obtain ⟨hlen, hpos⟩ := encl_evalElems_ok xs hs r hl he
    exact ⟨hlen, fun i hi hh hr => (key _ _ _).mp (hpos i hi hh hr)⟩
  · rintro ⟨hlen, hpos⟩
    exact evalElems_of_forall xs hs r hl hlen (fun i hi hh hr => (key _ _ _).mpr (hpos i hi hh hr))

/-- **C05, a list of literals only** is left exactly as it was parsed (nothing changed for such lists) -/
theorem C05_list_literals_unchanged {ss : List Stmt} {t : SymTab} {w : Nat} {xs hs : List Str}
    (hl : xs.length = hs.length) (hp : ∀ x ∈ xs, isPending w x = false) : evalElems ss t w xs hs = .ok hs :=
  evalElems_literals xs hs hl hp

/-- **C05, one element without a value refuses the list**: if a pending element does not evaluate (an undefined symbol,
a value that does not fit, a division by zero), the evaluation of the list does not succeed -/
theorem C05_list_refused {ss : List Stmt} {t : SymTab} {w : Nat} {xs hs : List Str} (hl : xs.length = hs.length)
    {i : Nat} (hi : i < xs.length) (hp : isPending w xs[i] = true) (hne : ∀ v, evalElem ss t w xs[i] ≠ .ok v) :
    ∀ r, evalElems ss t w xs hs ≠ .ok r :=
  evalElems_not_ok_of_mem xs hs hl i hi (by omega) (fun v => by simpa [elemFinal, hp] using hne v)

/-- the hypotheses are met: `SYM` is read as a symbol, `SYM` and `SYM+1` are pending, `7`, `'A` and `300` are not -/
theorem create_SYM : create 4 (str "SYM") false false true = .ok (.symbol (str "SYM") .extended) := rfl
example : isPending 2 (str "SYM") = true ∧ isPending 4 (str "SYM+1") = true ∧ isPending 2 (str "7") = false ∧
    isPending 2 (str "'A") = false ∧ isPending 2 (str "300") = false := by decide +kernel

/-- `FCB 1,SYM` with `SYM EQU 7` in the table: the element `SYM` becomes `07`; with `SYM EQU 300` it is refused; with
`SYM EQU -2` it is `FE`; as a label at `$2000` under FDB it is `2000` -/
example (ss : List Stmt) : evalElem ss [(str "SYM", .numeric 7 (some 4) .extended false)] 2 (str "SYM") = .ok (str "07") :=
  (C05_list_elem_symbol_FCB (v := 7) create_SYM rfl (by decide)).trans (by decide +kernel)
example (ss : List Stmt) : evalElem ss [(str "SYM", .numeric 300 (some 4) .extended false)] 2 (str "SYM") = .diag :=
  (C05_list_elem_symbol_FCB (v := 300) create_SYM rfl (by decide)).trans (by decide +kernel)
example (ss : List Stmt) : evalElem ss [(str "SYM", .numeric 2 (some 4) .extended true)] 2 (str "SYM") = .ok (str "FE") :=
  (C05_list_elem_symbol_FCB (v := 2) create_SYM rfl (by decide)).trans (by decide +kernel)
example (s : Stmt) : evalElem [{ s with pkg := { s.pkg with address := .numeric 0x2000 (some 4) .extended false } }]
    [(str "SYM", .address 0 .none)] 4 (str "SYM") = .ok (str "2000") :=
  (C05_list_elem_label_FDB (a := 0x2000) create_SYM rfl rfl).trans (by decide +kernel)

/-! #### whole programs through `assemble` (kernel-checked, for every host file system) -/

/-- **a jump table**: `T FDB L1,L2,T,$1234,L1+1,L2-L1` at `$2000` — labels behind the table (forward references), the
label of the table itself, a literal, a label plus a constant, a difference of labels -/
theorem C05_program_list_labels (fs : Files) :
    ∃ a, assemble fs (prog [" ORG $2000\n", "T FDB L1,L2,T,$1234,L1+1,L2-L1\n", "L1 NOP\n", "L2 RTS\n"]) = .ok a ∧
      a.image = some [0x20, 0x0C, 0x20, 0x0D, 0x20, 0x00, 0x12, 0x34, 0x20, 0x0D, 0x00, 0x01, 0x12, 0x39] :=
  progImage_sound (by decide +kernel) fs

/-- **EQU constants in lists**: with `S EQU 7`, `FCB 1,S,S*2,'A,S+1` is `01 07 0E 41 08` and `FDB S,1,S-8` is
`00 07 00 01 FF FF` -/
theorem C05_program_list_symbols (fs : Files) :
    ∃ a, assemble fs (prog ["S EQU 7\n", " FCB 1,S,S*2,'A,S+1\n", " FDB S,1,S-8\n"]) = .ok a ∧
      a.image = some [0x01, 0x07, 0x0E, 0x41, 0x08, 0x00, 0x07, 0x00, 0x01, 0xFF, 0xFF] :=
  progImage_sound (by decide +kernel) fs

/-- **what is refused**: a label that does not fit a byte, an undefined symbol, a constant that does not fit a byte
(defined after its use), a division by zero -/
theorem C05_program_list_rejected (fs : Files) :
    assemble fs (prog [" ORG $100\n", "L NOP\n", " FCB 1,L\n"]) = .diag ∧
    assemble fs (prog [" FCB 1,UNDEF\n"]) = .diag ∧
    assemble fs (prog [" FCB 1,S\n", "S EQU 300\n"]) = .diag ∧
    assemble fs (prog [" FDB 5/Z,1\n", "Z EQU 0\n"]) = .diag :=
  ⟨progDiag_sound (by decide +kernel) fs, progDiag_sound (by decide +kernel) fs, progDiag_sound (by decide +kernel) fs,
   progDiag_sound (by decide +kernel) fs⟩

/-- an unsigned run of digits from 65536 on inside a list (`FCB 1,70000`, `FDB 1,70000`) is a symbol name to the parser
and is refused when the list is evaluated (no such symbol); a negative literal below the range is refused at once
(`C05_FDB_signed_list_rejected_fixed`) — a diagnostic either way -/
theorem C05_program_list_big_literal (fs : Files) :
    assemble fs (prog [" FCB 1,70000\n"]) = .diag ∧ assemble fs (prog [" FDB 1,70000\n"]) = .diag ∧
    assemble fs (prog [" FDB 1,-32769\n"]) = .diag :=
  ⟨progDiag_sound (by decide +kernel) fs, progDiag_sound (by decide +kernel) fs, progDiag_sound (by decide +kernel) fs⟩

end CoCo.Props

section axioms
open CoCo.Props
#print axioms C05_full
#print axioms C05_FCB_symbol
#print axioms C05_FDB_symbol_neg
#print axioms C05_program_negative_symbol
#print axioms C05_program_FDB_label
#print axioms C05_FCC_line_as_written
#print axioms C05_finding_FCC_rebuilt_fixed
#print axioms C05_program_FCC_as_written
#print axioms C05_finding_list_symbol_fixed
#print axioms C05_list_elem_symbol_FCB
#print axioms C05_list_elem_label_FDB
#print axioms C05_list_positions
#print axioms C05_program_list_labels
#print axioms C05_program_list_symbols
#print axioms C05_program_list_rejected
#print axioms C05_FCB_signed_list_rejected_fixed
end axioms
