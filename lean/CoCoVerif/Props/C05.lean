/-
Props/C05.lean — data directives (FCB FDB RMB FCC) emit the bytes they denote, and the directives
without data (EQU ORG SETDP NAM END INCLUDE SET) emit nothing (T4).
Only statements, main theorems, findings and non-vacuity examples live here; helpers are in
Lemmas/EncodeData.lean (which builds on Lemmas/EncodeHex.lean and Lemmas/EncodeSplit.lean).

Result: the property does NOT hold at full strength (`C05_not_full`).  It is proved on the regions
listed in `C05_partial`; outside them the kernel-checked `C05_finding_*` theorems record what the
code does instead.
-/
import CoCoVerif.Lemmas.EncodeData

namespace CoCo.Props
open CoCo CoCo.Asm
open CoCo.Gen (InstrRow)

/-! ### the shape of the claims -/

/-- `r` is a package whose statement emits exactly `bytes`, and its `size` field (what the address
counter advances by) agrees with the number of bytes emitted -/
def Emits (r : R Pkg) (bytes : Bytes) : Prop :=
  ∃ pkg, r = .ok pkg ∧ (∀ s : Stmt, s.pkg = pkg → stmtBytes s = some bytes) ∧ bytes.length = pkg.size

/-- `PseudoOperand.translate()` of operand `o` under instruction `row` emits `bytes` -/
def PseudoEmits (o : Operand) (row : InstrRow) (bytes : Bytes) : Prop := Emits (translatePseudo o row) bytes

/-- operand text `text` under `row`: parse (`Operand.create_from_str`), translate, emit -/
def LineEmits (text : Str) (row : InstrRow) (bytes : Bytes) : Prop :=
  ∃ o, createOperand text row = .ok o ∧ o.kind = .pseudo ∧ Emits (translateOperand o row) bytes

/-- the translation raises -/
def Rejects (o : Operand) (row : InstrRow) : Prop := ∃ e, translatePseudo o row = .error e

theorem Emits.unique {r : R Pkg} {a b : Bytes} (ha : Emits r a) (hb : Emits r b) : a = b := by
  obtain ⟨p, hp, hsa, _⟩ := ha
  obtain ⟨q, hq, hsb, _⟩ := hb
  have hpq : p = q := by rw [hp] at hq; injection hq
  subst hpq
  have h1 := hsa { (default : Stmt) with pkg := p } rfl
  have h2 := hsb { (default : Stmt) with pkg := p } rfl
  rw [h1] at h2
  injection h2

theorem Emits.not_error {e : Exn} {a : Bytes} : ¬ Emits (.error e : R Pkg) a := by
  rintro ⟨p, hp, _⟩; cases hp

/-- a package with only an `additional` part -/
theorem emits_additional {r : R Pkg} {a : Value} {n : Nat} {bytes : Bytes}
    (hr : r = .ok { additional := a, size := n, maxSize := n }) (he : emitValue a = some bytes)
    (hl : bytes.length = n) : Emits r bytes := by
  refine ⟨_, hr, ?_, hl⟩
  intro s hs
  rw [stmtBytes_additional s (by rw [hs]) (by rw [hs]), hs]
  exact he

theorem lineEmits_of {text : Str} {row : InstrRow} {o : Operand} {bytes : Bytes}
    (hc : createOperand text row = .ok o) (hk : o.kind = .pseudo) (he : PseudoEmits o row bytes) :
    LineEmits text row bytes := by
  refine ⟨o, hc, hk, ?_⟩
  simp only [translateOperand, hk]
  exact he

/-! ### the generated rows -/

def fcbRow : InstrRow := ⟨"FCB", none, 0, none, 0, none, 0, none, 0, none, 0, none, 0, true, false, false, false, false, false, false, false, false, false, false, true, false⟩
def fdbRow : InstrRow := ⟨"FDB", none, 0, none, 0, none, 0, none, 0, none, 0, none, 0, true, false, false, false, false, false, false, false, false, false, false, false, true⟩
def rmbRow : InstrRow := ⟨"RMB", none, 0, none, 0, none, 0, none, 0, none, 0, none, 0, true, false, false, false, false, false, false, false, false, false, false, false, false⟩
def fccRow : InstrRow := ⟨"FCC", none, 0, none, 0, none, 0, none, 0, none, 0, none, 0, true, false, true, false, false, false, false, false, false, false, false, false, false⟩
def equRow : InstrRow := ⟨"EQU", none, 0, none, 0, none, 0, none, 0, none, 0, none, 0, true, true, false, false, false, false, false, false, false, false, false, false, false⟩
def orgRow : InstrRow := ⟨"ORG", none, 0, none, 0, none, 0, none, 0, none, 0, none, 0, true, false, false, false, false, false, false, true, false, false, false, false, false⟩

/-- the rows above are the ones in the table generated from `cocoasm/instruction.py` -/
theorem rows_generated :
    findRow (str "FCB") = some fcbRow ∧ findRow (str "FDB") = some fdbRow ∧ findRow (str "RMB") = some rmbRow ∧
    findRow (str "FCC") = some fccRow ∧ findRow (str "EQU") = some equRow ∧ findRow (str "ORG") = some orgRow := by
  decide +kernel

/-- the mnemonics of the pseudo rows of the generated table -/
theorem pseudo_rows_generated :
    (Gen.instructions.filter (·.isPseudo)).map (·.mnemonic) =
      ["END", "ORG", "EQU", "SET", "RMB", "FCB", "FDB", "FCC", "SETDP", "INCLUDE", "NAM"] := by
  decide +kernel

/-! ### FCB / FDB: one value -/

/-- `FCB v` on the operand level.  NOTE the sign flag `neg` is arbitrary: `translate` reads `value.int`
(the magnitude) and never the sign, so this theorem is the intended behaviour for `neg = false` and the
defect `C05_finding_FCB_neg` for `neg = true`. -/
theorem FCB_single_any {o : Operand} {row : InstrRow} {v : Nat} {h : Option Nat} {m : Mode} {neg : Bool}
    (hm : row.mnemonic = "FCB") (hv : o.value = .numeric v h m neg) (hlt : v < 256) :
    PseudoEmits o row [v] := by
  have hi : o.value.int? = some v := by rw [hv]; rfl
  have hb : o.value.byteLen? = some (numHexLen v h / 2) := by rw [hv]; rfl
  have hnm : o.value.isMultiByte = false := by rw [hv]; rfl
  exact emits_additional (translatePseudo_FCB_single hm hi hb hnm (by omega)) (emit_hint2 _ hlt) rfl

/-- **C05, single FCB**: a non-negative value below 256 becomes that one byte -/
theorem C05_FCB_single {o : Operand} {row : InstrRow} {v : Nat} {h : Option Nat} {m : Mode}
    (hm : row.mnemonic = "FCB") (hv : o.value = .numeric v h m false) (hlt : v < 256) :
    PseudoEmits o row [v] := FCB_single_any hm hv hlt

theorem FDB_single_any {o : Operand} {row : InstrRow} {v : Nat} {h : Option Nat} {m : Mode} {neg : Bool}
    (hm : row.mnemonic = "FDB") (hv : o.value = .numeric v h m neg) (hlt : v < 65536) :
    PseudoEmits o row [v / 256, v % 256] := by
  have hi : o.value.int? = some v := by rw [hv]; rfl
  have hb : o.value.byteLen? = some (numHexLen v h / 2) := by rw [hv]; rfl
  have hnm : o.value.isMultiWord = false := by rw [hv]; rfl
  exact emits_additional (translatePseudo_FDB_single hm hi hb hnm hlt) (emit_hint4 _ hlt) rfl

/-- **C05, single FDB**: a non-negative value below 65536 becomes its two bytes, high byte first -/
theorem C05_FDB_single {o : Operand} {row : InstrRow} {v : Nat} {h : Option Nat} {m : Mode}
    (hm : row.mnemonic = "FDB") (hv : o.value = .numeric v h m false) (hlt : v < 65536) :
    PseudoEmits o row [v / 256, v % 256] := FDB_single_any hm hv hlt

/-! ### FCB / FDB: several values -/

/-- **C05, multi-value FCB** on the operand level: a list of two-digit hex strings of bytes -/
theorem C05_FCB_multi {o : Operand} {row : InstrRow} {bs : Bytes}
    (hm : row.mnemonic = "FCB") (hv : o.value = .multiByte (bs.map byteHex)) (hb : ∀ b ∈ bs, b < 256) :
    PseudoEmits o row bs := by
  have hi : o.value.int? = some 0 := by rw [hv]; rfl
  have hbl : o.value.byteLen? = some bs.length := by rw [hv]; exact byteLen_multiByte bs
  have hnm : o.value.isMultiByte = true := by rw [hv]; rfl
  refine emits_additional (translatePseudo_FCB_multi hm hi hbl hnm) ?_ rfl
  rw [hv]; exact emitValue_multiByte bs hb

/-- **C05, multi-value FDB** on the operand level: a list of four-digit hex strings of words -/
theorem C05_FDB_multi {o : Operand} {row : InstrRow} {ws : List Nat}
    (hm : row.mnemonic = "FDB") (hv : o.value = .multiWord (ws.map wordHex)) (hw : ∀ w ∈ ws, w < 65536) :
    PseudoEmits o row (wordBytes ws) ∧ (wordBytes ws).length = 2 * ws.length := by
  have hi : o.value.int? = some 0 := by rw [hv]; rfl
  have hbl : o.value.byteLen? = some (2 * ws.length) := by rw [hv]; exact byteLen_multiWord ws
  have hnm : o.value.isMultiWord = true := by rw [hv]; rfl
  refine ⟨emits_additional (translatePseudo_FDB_multi hm hi hbl hnm) ?_ (wordBytes_length ws), wordBytes_length ws⟩
  rw [hv]; exact emitValue_multiWord ws hw

/-- **C05, `FCB d1,d2,...,dn`** from the operand text: at least two decimal literals, each below 256,
joined by commas, give exactly those bytes -/
theorem C05_FCB_list (lits : List Str) (h2 : 2 ≤ lits.length)
    (hl : ∀ x ∈ lits, IsDecLit x ∧ parseBase 10 x < 256) :
    LineEmits (joinWith ',' lits) fcbRow (lits.map (parseBase 10)) := by
  obtain ⟨a, b, t, rfl⟩ : ∃ a b t, lits = a :: b :: t := by
    match lits, h2 with
    | a :: b :: t, _ => exact ⟨a, b, t, rfl⟩
  have hmulti := multi2_dec (a :: b :: t) h2 hl
  have hc := createOperand_multiByte (row := fcbRow) rfl rfl rfl (contains_joinWith ',' a b t) hmulti
  refine lineEmits_of hc rfl (C05_FCB_multi rfl rfl ?_)
  intro v hv
  obtain ⟨x, hx, rfl⟩ := List.mem_map.mp hv
  exact (hl x hx).2

/-- **C05, `FDB d1,d2,...,dn`** from the operand text: decimal literals below 65536 -/
theorem C05_FDB_list (lits : List Str) (h2 : 2 ≤ lits.length)
    (hl : ∀ x ∈ lits, IsDecLit x ∧ parseBase 10 x < 65536) :
    LineEmits (joinWith ',' lits) fdbRow (wordBytes (lits.map (parseBase 10))) ∧
    (wordBytes (lits.map (parseBase 10))).length = 2 * lits.length := by
  obtain ⟨a, b, t, rfl⟩ : ∃ a b t, lits = a :: b :: t := by
    match lits, h2 with
    | a :: b :: t, _ => exact ⟨a, b, t, rfl⟩
  have hmulti := multi4_dec (a :: b :: t) h2 hl
  have hc := createOperand_multiWord (row := fdbRow) rfl rfl rfl rfl (contains_joinWith ',' a b t) hmulti
  have hw : ∀ w ∈ (a :: b :: t).map (parseBase 10), w < 65536 := by
    intro v hv
    obtain ⟨x, hx, rfl⟩ := List.mem_map.mp hv
    exact (hl x hx).2
  exact ⟨lineEmits_of hc rfl (C05_FDB_multi rfl rfl hw).1, by simp [wordBytes_length]⟩

/-- **C05, `FCB d`** from the operand text: one decimal literal below 256 -/
theorem C05_FCB_literal {x : Str} (hx : IsDecLit x) (hv : parseBase 10 x < 256) :
    LineEmits x fcbRow [parseBase 10 x] :=
  lineEmits_of (createOperand_pseudo_dec (row := fcbRow) rfl rfl rfl (by decide) rfl rfl hx (by omega)) rfl
    (C05_FCB_single rfl rfl hv)

/-- **C05, `FDB d`** from the operand text: one decimal literal below 65536 -/
theorem C05_FDB_literal {x : Str} (hx : IsDecLit x) (hv : parseBase 10 x < 65536) :
    LineEmits x fdbRow [parseBase 10 x / 256, parseBase 10 x % 256] :=
  lineEmits_of (createOperand_pseudo_dec (row := fdbRow) rfl rfl rfl (by decide) rfl rfl hx hv) rfl
    (C05_FDB_single rfl rfl hv)

/-! ### RMB -/

/-- `RMB n` on the operand level, sign flag arbitrary (see `C05_finding_RMB_neg`) -/
theorem RMB_any {o : Operand} {row : InstrRow} {n : Nat} {h : Option Nat} {m : Mode} {neg : Bool}
    (hm : row.mnemonic = "RMB") (hv : o.value = .numeric n h m neg) :
    PseudoEmits o row (List.replicate n 0) := by
  have hi : o.value.int? = some n := by rw [hv]; rfl
  have hb : o.value.byteLen? = some (numHexLen n h / 2) := by rw [hv]; rfl
  exact emits_additional (translatePseudo_RMB hm hi hb) (emit_zeros n _) (by simp)

/-- **C05, RMB**: `n` zero bytes, size `n` (every `n`, including 0) -/
theorem C05_RMB {o : Operand} {row : InstrRow} {n : Nat} {h : Option Nat} {m : Mode}
    (hm : row.mnemonic = "RMB") (hv : o.value = .numeric n h m false) :
    PseudoEmits o row (List.replicate n 0) := RMB_any hm hv

/-- **C05, `RMB d`** from the operand text -/
theorem C05_RMB_literal {x : Str} (hx : IsDecLit x) (hv : parseBase 10 x < 65536) :
    LineEmits x rmbRow (List.replicate (parseBase 10 x) 0) :=
  lineEmits_of (createOperand_pseudo_dec (row := rmbRow) rfl rfl rfl (by decide) rfl rfl hx hv) rfl
    (C05_RMB rfl rfl)

/-! ### FCC -/

/-- **C05, FCC** on the operand level: the character codes, for every string of 8-bit characters
(after fix dfad397 the lower bound `16 ≤ code` is no longer needed) -/
theorem C05_FCC {o : Operand} {row : InstrRow} {s : Str}
    (hm : row.mnemonic = "FCC") (hv : o.value = .str s) (hs : ∀ c ∈ s, c.toNat < 256) :
    PseudoEmits o row (s.map Char.toNat) := by
  have hi : o.value.int? = some 0 := by rw [hv]; rfl
  have hb : o.value.byteLen? = some s.length := by rw [hv]; exact byteLen_str s hs
  refine emits_additional (translatePseudo_FCC hm hi hb) ?_ (by simp)
  rw [hv]; exact emitValue_str s hs

/-- **C05, `FCC dtextd`** from the operand text, any delimiter character `d` -/
theorem C05_FCC_text (d : Char) (body : Str) (hs : ∀ c ∈ body, c.toNat < 256) :
    LineEmits (d :: (body ++ [d])) fccRow (body.map Char.toNat) :=
  lineEmits_of (createOperand_fcc (row := fccRow) rfl rfl rfl rfl rfl rfl d body) rfl (C05_FCC rfl rfl hs)

/-! ### directives without data -/

/-- a package with nothing in it emits nothing -/
theorem emits_empty {r : R Pkg} {p : Pkg} (hr : r = .ok p) (h1 : p.opCode = .none) (h2 : p.postByte = .none)
    (h3 : p.additional = .none) (h4 : p.size = 0) : Emits r [] := by
  refine ⟨p, hr, ?_, by simp [h4]⟩
  intro s hs
  rw [stmtBytes_additional s (by rw [hs, h1]) (by rw [hs, h2]), hs, h3]
  exact emitValue_none

/-- **C05, EQU SETDP NAM END INCLUDE SET** (every mnemonic other than the five with a case of their own):
nothing is emitted and the size is 0, whatever the operand value is (Python `None` excepted, which no
parse produces) -/
theorem C05_no_data {o : Operand} {row : InstrRow}
    (h1 : row.mnemonic ≠ "FCB") (h2 : row.mnemonic ≠ "FDB") (h3 : row.mnemonic ≠ "RMB")
    (h4 : row.mnemonic ≠ "ORG") (h5 : row.mnemonic ≠ "FCC") (hv : o.value ≠ .pyNone) :
    PseudoEmits o row [] ∧ translatePseudo o row = .ok {} := by
  obtain ⟨i, bl, hi, hb⟩ := int_byteLen_of_ne_pyNone o.value hv
  have := translatePseudo_other h1 h2 h3 h4 h5 hi hb
  exact ⟨emits_empty this rfl rfl rfl rfl, this⟩

/-- **C05, ORG**: nothing is emitted, the size is 0, and the package address is the operand value -/
theorem C05_ORG {o : Operand} {row : InstrRow} (hm : row.mnemonic = "ORG") (hv : o.value ≠ .pyNone) :
    PseudoEmits o row [] ∧ translatePseudo o row = .ok { address := o.value } := by
  obtain ⟨i, bl, hi, hb⟩ := int_byteLen_of_ne_pyNone o.value hv
  have := translatePseudo_ORG hm hi hb
  exact ⟨emits_empty this rfl rfl rfl rfl, this⟩

/-- the seven mnemonics in question are covered by the two theorems above -/
theorem C05_no_data_mnemonics {o : Operand} {row : InstrRow} (hv : o.value ≠ .pyNone)
    (hm : row.mnemonic ∈ ["EQU", "ORG", "SETDP", "NAM", "END", "INCLUDE", "SET"]) : PseudoEmits o row [] := by
  by_cases ho : row.mnemonic = "ORG"
  · exact (C05_ORG ho hv).1
  · refine (C05_no_data ?_ ?_ ?_ ho ?_ hv).1 <;>
      (intro h; rw [h] at hm; revert hm; decide)

/-! ### non-vacuity: the hypotheses are met by real lines, with the generated rows -/

/-- `FCB 1,2,3` emits 1 2 3 -/
example : LineEmits (str "1,2,3") fcbRow [1, 2, 3] :=
  C05_FCB_list [str "1", str "2", str "3"] (by decide) (by decide)

/-- `FDB 1,258,65535` emits 00 01 01 02 FF FF -/
example : LineEmits (str "1,258,65535") fdbRow [0, 1, 1, 2, 255, 255] :=
  (C05_FDB_list [str "1", str "258", str "65535"] (by decide) (by decide)).1

example : LineEmits (str "255") fcbRow [255] := C05_FCB_literal (x := str "255") (by decide) (by decide)
example : LineEmits (str "4660") fdbRow [0x12, 0x34] := C05_FDB_literal (x := str "4660") (by decide) (by decide)
example : LineEmits (str "3") rmbRow [0, 0, 0] := C05_RMB_literal (x := str "3") (by decide) (by decide)
example : LineEmits (str "0") rmbRow [] := C05_RMB_literal (x := str "0") (by decide) (by decide)
example : LineEmits (str "\"HELLO, WORLD\"") fccRow [72, 69, 76, 76, 79, 44, 32, 87, 79, 82, 76, 68] :=
  C05_FCC_text '"' (str "HELLO, WORLD") (by decide)
example : LineEmits (str "/a/") fccRow [97] := C05_FCC_text '/' (str "a") (by decide)

/-- the same through the table lookup -/
example : ∃ row, findRow (str "FCB") = some row ∧ LineEmits (str "1,2,3") row [1, 2, 3] :=
  ⟨fcbRow, rows_generated.1, C05_FCB_list [str "1", str "2", str "3"] (by decide) (by decide)⟩

/-- operand-level hypotheses are met by what the parser builds for `EQU 5` and `ORG $1234` -/
example : ∃ o, createOperand (str "5") equRow = .ok o ∧ PseudoEmits o equRow [] := by
  refine ⟨{ kind := .pseudo, text := str "5", value := .numeric 5 (some 4) .extended false }, rfl, ?_⟩
  exact (C05_no_data (by decide) (by decide) (by decide) (by decide) (by decide) (by simp)).1

example : ∃ o, createOperand (str "$1234") orgRow = .ok o ∧ PseudoEmits o orgRow [] ∧
    translatePseudo o orgRow = .ok { address := .numeric 0x1234 (some 4) .extended false } := by
  refine ⟨{ kind := .pseudo, text := str "$1234", value := .numeric 0x1234 (some 4) .extended false }, rfl, ?_⟩
  exact C05_ORG rfl (by simp)

/-! ### findings: what the code does outside the proved regions

`lineResult text row` runs the three stages on one operand text and returns the `size` of the package
and the bytes of the statement (`none` = `get_binary_array` raises IndexError).  Every finding below is
evaluated by the kernel on the generated rows. -/

/-- bytes of a statement depend on its package only -/
def pkgBytes (p : Pkg) : Option Bytes := stmtBytes { (default : Stmt) with pkg := p }

theorem stmtBytes_eq_pkgBytes (s : Stmt) : stmtBytes s = pkgBytes s.pkg := rfl

def lineResult (text : Str) (row : InstrRow) : Option (Nat × Option Bytes) :=
  match createOperand text row with
  | .ok o =>
    match translateOperand o row with
    | .ok p => some (p.size, pkgBytes p)
    | .error _ => none
  | .error _ => none

/-- what a `lineResult` says in terms of the three model functions -/
theorem lineResult_spec {text : Str} {row : InstrRow} {n : Nat} {ob : Option Bytes}
    (h : lineResult text row = some (n, ob)) :
    ∃ o pkg, createOperand text row = .ok o ∧ translateOperand o row = .ok pkg ∧ pkg.size = n ∧
      ∀ s : Stmt, s.pkg = pkg → stmtBytes s = ob := by
  unfold lineResult at h
  split at h
  · rename_i o ho
    split at h
    · rename_i p hp
      simp only [Option.some.injEq, Prod.mk.injEq] at h
      exact ⟨o, p, ho, hp, h.1, fun s hs => by rw [stmtBytes_eq_pkgBytes, hs, h.2]⟩
    · cases h
  · cases h

/-- `lineResult` agrees with `LineEmits` -/
theorem lineResult_of_lineEmits {text : Str} {row : InstrRow} {bytes : Bytes} (h : LineEmits text row bytes) :
    lineResult text row = some (bytes.length, some bytes) := by
  obtain ⟨o, ho, _, p, hp, hs, hl⟩ := h
  have := hs { (default : Stmt) with pkg := p } rfl
  simp [lineResult, ho, hp, hl, pkgBytes, this]

/-- FINDING (sign dropped): `FCB -d` emits the magnitude `d`, not the two's complement `256 - d` -/
theorem C05_finding_FCB_neg {o : Operand} {row : InstrRow} {v : Nat} {h : Option Nat} {m : Mode}
    (hm : row.mnemonic = "FCB") (hv : o.value = .numeric v h m true) (hlt : v < 256) :
    PseudoEmits o row [v] := FCB_single_any hm hv hlt

/-- the same from the operand text: `FCB -d` for every decimal literal `d` below 256 -/
theorem C05_finding_FCB_neg_text {ds : Str} (hx : IsDecLit ds) (hv : parseBase 10 ds < 256) :
    LineEmits ('-' :: ds) fcbRow [parseBase 10 ds] :=
  lineEmits_of (createOperand_pseudo_neg (row := fcbRow) rfl rfl rfl rfl rfl hx (by omega)) rfl
    (C05_finding_FCB_neg rfl rfl hv)

/-- `FCB -1` emits `$01`; the intended byte is `$FF` -/
theorem C05_finding_FCB_neg1 : lineResult (str "-1") fcbRow = some (1, some [1]) := by decide +kernel

/-- FINDING (no range check, front truncation): `FCB v` with 256 ≤ v < 4096 is accepted and emits the
first two of the three hex digits -/
theorem C05_finding_FCB_wide {o : Operand} {row : InstrRow} {v : Nat} {h : Option Nat} {m : Mode} {neg : Bool}
    (hm : row.mnemonic = "FCB") (hv : o.value = .numeric v h m neg) (h1 : 256 ≤ v) (h2 : v < 4096) :
    PseudoEmits o row [v / 16] := by
  have hi : o.value.int? = some v := by rw [hv]; rfl
  have hb : o.value.byteLen? = some (numHexLen v h / 2) := by rw [hv]; rfl
  have hnm : o.value.isMultiByte = false := by rw [hv]; rfl
  exact emits_additional (translatePseudo_FCB_single hm hi hb hnm (by omega)) (emit_hint2_wide _ h1 h2) rfl

/-- `FCB 300` emits `$12` (300 = `$12C`) -/
theorem C05_finding_FCB_300 : lineResult (str "300") fcbRow = some (1, some [0x12]) := by decide +kernel
/-- `FCB 65535` emits `$FF` -/
theorem C05_finding_FCB_65535 : lineResult (str "65535") fcbRow = some (1, some [0xFF]) := by decide +kernel

/-- FINDING (sign dropped): `FDB -d` emits the magnitude -/
theorem C05_finding_FDB_neg {o : Operand} {row : InstrRow} {v : Nat} {h : Option Nat} {m : Mode}
    (hm : row.mnemonic = "FDB") (hv : o.value = .numeric v h m true) (hlt : v < 65536) :
    PseudoEmits o row [v / 256, v % 256] := FDB_single_any hm hv hlt

theorem C05_finding_FDB_neg_text {ds : Str} (hx : IsDecLit ds) (hv : parseBase 10 ds ≤ 32768) :
    LineEmits ('-' :: ds) fdbRow [parseBase 10 ds / 256, parseBase 10 ds % 256] :=
  lineEmits_of (createOperand_pseudo_neg (row := fdbRow) rfl rfl rfl rfl rfl hx hv) rfl
    (C05_finding_FDB_neg rfl rfl (by omega))

/-- `FDB -1` emits `$00 $01`; the intended bytes are `$FF $FF` -/
theorem C05_finding_FDB_neg1 : lineResult (str "-1") fdbRow = some (2, some [0, 1]) := by decide +kernel

/-- FINDING: `FDB 70000` is not refused: the text fails as a number, is then taken as a SYMBOL named
"70000", and a symbol under a pseudo operation is never resolved and emits zeros -/
theorem C05_finding_FDB_70000 : lineResult (str "70000") fdbRow = some (2, some [0, 0]) := by decide +kernel

/-- FINDING: symbols and expressions under FCB / FDB / RMB are never evaluated (`resolveOperand` leaves a
pseudo operand alone, `translate` reads `.int` = 0): `FCB SYM` and `FCB 1+2` emit `$00`, `RMB SYM`
reserves nothing -/
theorem C05_finding_symbolic :
    lineResult (str "SYM") fcbRow = some (1, some [0]) ∧ lineResult (str "1+2") fcbRow = some (1, some [0]) ∧
    lineResult (str "SYM") fdbRow = some (2, some [0, 0]) ∧ lineResult (str "SYM") rmbRow = some (0, some []) := by
  decide +kernel

/-- FINDING (sign dropped): `RMB -n` reserves `n` bytes -/
theorem C05_finding_RMB_neg {o : Operand} {row : InstrRow} {n : Nat} {h : Option Nat} {m : Mode}
    (hm : row.mnemonic = "RMB") (hv : o.value = .numeric n h m true) :
    PseudoEmits o row (List.replicate n 0) := RMB_any hm hv

/-- `RMB -1` reserves one byte -/
theorem C05_finding_RMB_neg1 : lineResult (str "-1") rmbRow = some (1, some [0]) := by decide +kernel

/-- REPAIRED (fix 077e4c2; formerly a finding): a list element that does not fit a byte is rejected when the line is
parsed (`FCB 1,300` used to end in an IndexError when the binary was written, `FCB 1,4096` became three bytes,
`FCB 1,-0` printed `-0` as `100`) -/
theorem C05_fixed_FCB_list_wide :
    lineResult (str "1,300") fcbRow = none ∧
    lineResult (str "1,4096") fcbRow = none ∧
    lineResult (str "1,-0") fcbRow = none := by decide +kernel

/-- FINDING: inside a list a negative byte IS complemented (`FCB 1,-2` gives `01 FE`), unlike a single
`FCB -2`; inside an FDB list a small negative gets the 8-bit complement in a 16-bit field
(`FDB 1,-1` gives `0001 00FF`, intended `0001 FFFF`) -/
theorem C05_finding_list_neg :
    lineResult (str "1,-2") fcbRow = some (2, some [1, 0xFE]) ∧
    lineResult (str "-2") fcbRow = some (1, some [2]) ∧
    lineResult (str "1,-1") fdbRow = some (4, some [0, 1, 0, 0xFF]) := by decide +kernel

/-- FINDING: empty list elements are dropped without a diagnostic (`FCB 1,,3` is two bytes, `FCB 1,` one) -/
theorem C05_finding_list_empty :
    lineResult (str "1,,3") fcbRow = some (2, some [1, 3]) ∧ lineResult (str "1,") fcbRow = some (1, some [1]) := by
  decide +kernel

-- `C05_finding_FCC_tab`, `C05_finding_FCC_tab_operand`, `C05_finding_FCC_two_tabs` (a character code below 16
-- was printed with ONE hex digit): repaired by fix dfad397.  What holds now:

/-- REPAIRED (fix dfad397; formerly the findings `C05_finding_FCC_tab*`): a TAB inside an FCC string is the
byte `$09` like any other character -/
theorem C05_fixed_FCC_tab :
    lineResult ['"', 'A', '\t', 'B', '"'] fccRow = some (3, some [0x41, 0x09, 0x42]) ∧
    lineResult ['"', '\t', '"'] fccRow = some (1, some [0x09]) ∧
    lineResult ['"', '\t', '\t', '"'] fccRow = some (2, some [0x09, 0x09]) := by decide +kernel

/-- FINDING: a one-character FCC operand is its own closing delimiter: `FCC A` is the empty string -/
theorem C05_finding_FCC_single_char : lineResult (str "A") fccRow = some (0, some []) := by decide +kernel

/-! ### the property -/

/-- the integer a numeric value stands for -/
def signedOf (i : Nat) (neg : Bool) : Int := if neg then -(i : Int) else (i : Int)

/-- the byte an integer denotes under FCB: unsigned 0..255 or signed -128..-1 (two's complement) -/
def byteOf? (z : Int) : Option Bytes := if -128 ≤ z ∧ z ≤ 255 then some [(z % 256).toNat] else none

/-- the two bytes an integer denotes under FDB, high byte first -/
def wordOf? (z : Int) : Option Bytes :=
  if -32768 ≤ z ∧ z ≤ 65535 then some [(z % 65536 / 256).toNat, (z % 256).toNat] else none

/-- what is meant to happen: the denoted bytes are emitted; a value without an encoding is refused -/
def Meant (o : Operand) (row : InstrRow) : Option Bytes → Prop
  | some bs => PseudoEmits o row bs
  | none => Rejects o row

/-- C05 at full strength -/
def C05_Statement : Prop :=
  -- FCB / FDB with one value: every integer, negatives as two's complement, misfits refused
  (∀ (o : Operand) (row : InstrRow) (i : Nat) (h : Option Nat) (m : Mode) (neg : Bool),
    row.mnemonic = "FCB" → o.value = .numeric i h m neg → Meant o row (byteOf? (signedOf i neg))) ∧
  (∀ (o : Operand) (row : InstrRow) (i : Nat) (h : Option Nat) (m : Mode) (neg : Bool),
    row.mnemonic = "FDB" → o.value = .numeric i h m neg → Meant o row (wordOf? (signedOf i neg))) ∧
  -- FCB / FDB with a list
  (∀ (o : Operand) (row : InstrRow) (bs : Bytes),
    row.mnemonic = "FCB" → o.value = .multiByte (bs.map byteHex) → (∀ b ∈ bs, b < 256) → PseudoEmits o row bs) ∧
  (∀ (o : Operand) (row : InstrRow) (ws : List Nat),
    row.mnemonic = "FDB" → o.value = .multiWord (ws.map wordHex) → (∀ w ∈ ws, w < 65536) →
      PseudoEmits o row (wordBytes ws)) ∧
  -- RMB: a count; a negative count is refused
  (∀ (o : Operand) (row : InstrRow) (n : Nat) (h : Option Nat) (m : Mode) (neg : Bool),
    row.mnemonic = "RMB" → o.value = .numeric n h m neg →
      Meant o row (if neg = false ∨ n = 0 then some (List.replicate n 0) else none)) ∧
  -- FCC: every string of 8-bit characters
  (∀ (o : Operand) (row : InstrRow) (s : Str),
    row.mnemonic = "FCC" → o.value = .str s → (∀ c ∈ s, c.toNat < 256) → PseudoEmits o row (s.map Char.toNat)) ∧
  -- the rest emit nothing
  (∀ (o : Operand) (row : InstrRow), o.value ≠ .pyNone →
    row.mnemonic ∈ ["EQU", "ORG", "SETDP", "NAM", "END", "INCLUDE", "SET"] → PseudoEmits o row [])

/-- **C05 (partial)**: the statement restricted to non-negative values that fit (FCB below 256, FDB below
65536, any RMB count), values of 65536 and more (refused), and everything else unrestricted (the FCC clause
is the full one since fix dfad397).  The restrictions are exactly where the findings are. -/
theorem C05_partial :
  (∀ (o : Operand) (row : InstrRow) (i : Nat) (h : Option Nat) (m : Mode) (neg : Bool),
    row.mnemonic = "FCB" → o.value = .numeric i h m neg → (neg = false ∧ i < 256) ∨ 65536 ≤ i →
      Meant o row (byteOf? (signedOf i neg))) ∧
  (∀ (o : Operand) (row : InstrRow) (i : Nat) (h : Option Nat) (m : Mode) (neg : Bool),
    row.mnemonic = "FDB" → o.value = .numeric i h m neg → neg = false ∨ 65536 ≤ i →
      Meant o row (wordOf? (signedOf i neg))) ∧
  (∀ (o : Operand) (row : InstrRow) (bs : Bytes),
    row.mnemonic = "FCB" → o.value = .multiByte (bs.map byteHex) → (∀ b ∈ bs, b < 256) → PseudoEmits o row bs) ∧
  (∀ (o : Operand) (row : InstrRow) (ws : List Nat),
    row.mnemonic = "FDB" → o.value = .multiWord (ws.map wordHex) → (∀ w ∈ ws, w < 65536) →
      PseudoEmits o row (wordBytes ws)) ∧
  (∀ (o : Operand) (row : InstrRow) (n : Nat) (h : Option Nat) (m : Mode) (neg : Bool),
    row.mnemonic = "RMB" → o.value = .numeric n h m neg → neg = false ∨ n = 0 →
      Meant o row (if neg = false ∨ n = 0 then some (List.replicate n 0) else none)) ∧
  (∀ (o : Operand) (row : InstrRow) (s : Str),
    row.mnemonic = "FCC" → o.value = .str s → (∀ c ∈ s, c.toNat < 256) →
      PseudoEmits o row (s.map Char.toNat)) ∧
  (∀ (o : Operand) (row : InstrRow), o.value ≠ .pyNone →
    row.mnemonic ∈ ["EQU", "ORG", "SETDP", "NAM", "END", "INCLUDE", "SET"] → PseudoEmits o row []) := by
  refine ⟨?_, ?_, ?_, ?_, ?_, ?_, ?_⟩
  · intro o row i h m neg hm hv hr
    rcases hr with ⟨rfl, hlt⟩ | hge
    · have : byteOf? (signedOf i false) = some [i] := by
        have e : ((i : Int) % 256).toNat = i := by omega
        have c : (-128 : Int) ≤ i ∧ (i : Int) ≤ 255 := by omega
        simp [byteOf?, signedOf, c, e]
      rw [this]; exact C05_FCB_single hm hv hlt
    · have : byteOf? (signedOf i neg) = none := by
        cases neg
        · have c : ¬ (i : Int) ≤ 255 := by omega
          simp [byteOf?, signedOf, c]
        · have c : ¬ (-128 : Int) ≤ -(i : Int) := by omega
          simp [byteOf?, signedOf, c]
      rw [this]
      exact ⟨_, translatePseudo_FCB_reject (bl := numHexLen i h / 2) hm (by rw [hv]; rfl) (by rw [hv]; rfl)
        (by rw [hv]; rfl) hge⟩
  · intro o row i h m neg hm hv hr
    by_cases hge : 65536 ≤ i
    · have : wordOf? (signedOf i neg) = none := by
        cases neg
        · have c : ¬ (i : Int) ≤ 65535 := by omega
          simp [wordOf?, signedOf, c]
        · have c : ¬ (-32768 : Int) ≤ -(i : Int) := by omega
          simp [wordOf?, signedOf, c]
      rw [this]
      exact ⟨_, translatePseudo_FDB_reject (bl := numHexLen i h / 2) hm (by rw [hv]; rfl) (by rw [hv]; rfl)
        (by rw [hv]; rfl) hge⟩
    · have hn : neg = false := by rcases hr with h | h; exact h; omega
      subst hn
      have : wordOf? (signedOf i false) = some [i / 256, i % 256] := by
        have e1 : ((i : Int) % 65536 / 256).toNat = i / 256 := by omega
        have e2 : ((i : Int) % 256).toNat = i % 256 := by omega
        have c : (-32768 : Int) ≤ i ∧ (i : Int) ≤ 65535 := by omega
        simp [wordOf?, signedOf, c, e1, e2]
      rw [this]; exact C05_FDB_single hm hv (by omega)
  · intro o row bs hm hv hb; exact C05_FCB_multi hm hv hb
  · intro o row ws hm hv hw; exact (C05_FDB_multi hm hv hw).1
  · intro o row n h m neg hm hv hr
    rw [if_pos hr]; exact RMB_any hm hv
  · intro o row s hm hv hs; exact C05_FCC hm hv hs
  · intro o row hv hm; exact C05_no_data_mnemonics hv hm

/-- **C05 does not hold at full strength**: `FCB -1` (the operand the parser builds for it) is meant to
emit `$FF` and emits `$01` -/
theorem C05_not_full : ¬ C05_Statement := by
  intro h
  have h1 := h.1 { kind := .pseudo, text := str "-1", value := .numeric 1 (some 4) .extended true } fcbRow
    1 (some 4) .extended true rfl rfl
  have e : byteOf? (signedOf 1 true) = some [255] := by decide
  rw [e] at h1
  have h2 : PseudoEmits { kind := .pseudo, text := str "-1", value := .numeric 1 (some 4) .extended true } fcbRow [1] :=
    C05_finding_FCB_neg rfl rfl (by decide)
  have := Emits.unique h1 h2
  revert this; decide

-- `C05_not_full_FCC` (the FCC clause failed on the one-TAB string): repaired by fix dfad397; the FCC clause of
-- `C05_Statement` is now proved in full in `C05_partial`.

/-- the RMB clause fails on its own: `RMB -1` is not refused -/
theorem C05_not_full_RMB : ¬ C05_Statement := by
  intro h
  have h5 := h.2.2.2.2.1 { kind := .pseudo, text := str "-1", value := .numeric 1 (some 4) .extended true } rmbRow
    1 (some 4) .extended true rfl rfl
  obtain ⟨e, he⟩ := h5
  have h5' : PseudoEmits { kind := .pseudo, text := str "-1", value := .numeric 1 (some 4) .extended true } rmbRow
      (List.replicate 1 0) := C05_finding_RMB_neg rfl rfl
  obtain ⟨p, hp, _⟩ := h5'
  rw [he] at hp
  cases hp

/-- the operand used in `C05_not_full` is the one `Operand.create_from_str` builds for `FCB -1` -/
example : createOperand (str "-1") fcbRow =
    .ok { kind := .pseudo, text := str "-1", value := .numeric 1 (some 4) .extended true } := rfl

end CoCo.Props

