/-
Props/C01.lean — the instruction table agrees with the MC6809 datasheet (i), and every operand class
is encoded so that the datasheet decoder reads back the same operation and operand (ii).
Statements, main theorems, finding witnesses and non-vacuity examples; helpers are in Lemmas/Encode*.lean.

`Encodes o r x` (Lemmas/EncodeDecode.lean): `translateOperand o r = .ok pkg`, every statement carrying row,
operand and `pkg` passes `fitWidth` (`Statement.fit_operand_width`) and then emits `bytes`,
`bytes.length = pkg.size`, and `decode bytes = some (⟨opOf r.mnemonic, x⟩, bytes.length)`.
-/
import CoCoVerif.Lemmas.EncodeIndexed
import CoCoVerif.Lemmas.EncodeWitness
import CoCoVerif.Lemmas.EncodeLabel
import CoCoVerif.Lemmas.EncodeProgram

namespace CoCo.Props
open CoCo CoCo.Asm CoCo.Spec.MC6809
open CoCo.Gen (InstrRow)

/-! ## (i) the table against the datasheet -/

/-- every non-pseudo row: each opcode cell is in the datasheet map under the row's operation (modulo the
datasheet's synonyms), in an addressing mode of that column, and the size column is opcode length plus
operand length; an empty cell has size 0 -/
theorem table_matches_datasheet : ∀ r ∈ Gen.instructions, rowOk r = true := by decide +kernel

/-- every opcode of the datasheet map occurs in some cell of the table -/
theorem map_covered : ∀ e ∈ opcodeMap, reachable e.1 = true := by decide +kernel

def imm16Flag (r : InstrRow) : Bool :=
  match r.imm with
  | some c => (match lookup c with | some (_, .imm16) => r.is16Bit | _ => true)
  | none => true

theorem imm16Flag_all : ∀ r ∈ Gen.instructions, imm16Flag r = true := by decide +kernel

/-- a row whose immediate form takes a 16-bit operand carries the `is_16_bit` flag -/
theorem imm16_rows_flagged : ∀ r ∈ Gen.instructions,
    (∃ c op, r.imm = some c ∧ lookup c = some (op, .imm16)) → r.is16Bit = true := by
  intro r hr ⟨c, op, hc, hl⟩
  have := imm16Flag_all r hr
  simpa [imm16Flag, hc, hl] using this

/-- and conversely the flag is only set on such rows -/
theorem flagged_rows_imm16 : ∀ r ∈ Gen.instructions, r.is16Bit = true →
    ∃ c, r.imm = some c ∧ lookup c = some (opOf r.mnemonic, .imm16) := by
  decide +kernel

/-! ### what the table check says about one cell -/

section cells
variable {r : InstrRow} (hr : r ∈ Gen.instructions) (hp : r.isPseudo = false)
include hr hp

theorem row_cells :
    cellOk r.mnemonic r.inh r.inhSz [.inh] = true ∧ cellOk r.mnemonic r.imm r.immSz [.imm8, .imm16, .pair, .list] = true ∧
    cellOk r.mnemonic r.dir r.dirSz [.dir] = true ∧ cellOk r.mnemonic r.ind r.indSz [.idx] = true ∧
    cellOk r.mnemonic r.ext r.extSz [.ext] = true ∧ cellOk r.mnemonic r.rel r.relSz [.rel8, .rel16] = true := by
  have h := table_matches_datasheet r hr
  simp only [rowOk, hp, Bool.false_or, Bool.and_eq_true] at h
  obtain ⟨⟨⟨⟨⟨h1, h2⟩, h3⟩, h4⟩, h5⟩, h6⟩ := h
  exact ⟨h1, h2, h3, h4, h5, h6⟩

theorem cell_inh {c : Nat} (hc : r.inh = some c) :
    lookup c = some (opOf r.mnemonic, .inh) ∧ r.inhSz = opcodeLen c := by
  have h := (row_cells hr hp).1
  rw [hc] at h
  obtain ⟨am, h1, h2, h3⟩ := cellOk_some h
  simp only [List.mem_singleton] at h2
  subst h2
  exact ⟨h1, by simpa [operandLen] using h3⟩

theorem cell_imm {c : Nat} {op : String} {am : AM} (hc : r.imm = some c) (hl : lookup c = some (op, am)) :
    lookup c = some (opOf r.mnemonic, am) ∧ r.immSz = opcodeLen c + operandLen am := by
  have h := (row_cells hr hp).2.1
  rw [hc] at h
  obtain ⟨am', h1, _, h3⟩ := cellOk_some h
  rw [hl] at h1
  simp only [Option.some.injEq, Prod.mk.injEq] at h1
  obtain ⟨rfl, rfl⟩ := h1
  exact ⟨hl, h3⟩

theorem cell_dir {c : Nat} (hc : r.dir = some c) :
    lookup c = some (opOf r.mnemonic, .dir) ∧ r.dirSz = opcodeLen c + 1 := by
  have h := (row_cells hr hp).2.2.1
  rw [hc] at h
  obtain ⟨am, h1, h2, h3⟩ := cellOk_some h
  simp only [List.mem_singleton] at h2
  subst h2
  exact ⟨h1, by simpa [operandLen] using h3⟩

theorem cell_ind {c : Nat} (hc : r.ind = some c) :
    lookup c = some (opOf r.mnemonic, .idx) ∧ r.indSz = opcodeLen c + 1 := by
  have h := (row_cells hr hp).2.2.2.1
  rw [hc] at h
  obtain ⟨am, h1, h2, h3⟩ := cellOk_some h
  simp only [List.mem_singleton] at h2
  subst h2
  exact ⟨h1, by simpa [operandLen] using h3⟩

theorem cell_ext {c : Nat} (hc : r.ext = some c) :
    lookup c = some (opOf r.mnemonic, .ext) ∧ r.extSz = opcodeLen c + 2 := by
  have h := (row_cells hr hp).2.2.2.2.1
  rw [hc] at h
  obtain ⟨am, h1, h2, h3⟩ := cellOk_some h
  simp only [List.mem_singleton] at h2
  subst h2
  exact ⟨h1, by simpa [operandLen] using h3⟩

end cells

/-- a register-operand row (PSHS … TFR) has only an immediate cell, and that cell is a register-pair or
register-list opcode -/
def specialRowOk (r : InstrRow) : Bool :=
  !r.isSpecial ||
  (r.dir.isNone && r.ind.isNone && r.ext.isNone &&
   match r.imm with
   | some c => (match lookup c with | some (_, .pair) => true | some (_, .list) => true | _ => false)
   | none => true)

theorem special_rows : ∀ r ∈ Gen.instructions, specialRowOk r = true := by decide +kernel

section notSpecial
variable {r : InstrRow} (hr : r ∈ Gen.instructions)
include hr

theorem notSpecial_of_dir {c : Nat} (hc : r.dir = some c) : r.isSpecial = false := by
  have h := special_rows r hr
  cases hs : r.isSpecial <;> simp_all [specialRowOk]

theorem notSpecial_of_ind {c : Nat} (hc : r.ind = some c) : r.isSpecial = false := by
  have h := special_rows r hr
  cases hs : r.isSpecial <;> simp_all [specialRowOk]

theorem notSpecial_of_ext {c : Nat} (hc : r.ext = some c) : r.isSpecial = false := by
  have h := special_rows r hr
  cases hs : r.isSpecial <;> simp_all [specialRowOk]

theorem notSpecial_of_imm {c : Nat} {op : String} {am : AM} (hc : r.imm = some c) (hl : lookup c = some (op, am))
    (ham : am = .imm8 ∨ am = .imm16) : r.isSpecial = false := by
  have h := special_rows r hr
  cases hs : r.isSpecial
  · rfl
  · rcases ham with rfl | rfl <;> simp_all [specialRowOk]

end notSpecial

/-- the four stack instructions: their immediate cell is a register-list opcode of two bytes in all -/
def pshRowOk (r : InstrRow) : Bool :=
  !r.isPseudo && !(r.mnemonic == "EXG" || r.mnemonic == "TFR") &&
  match r.imm with
  | some c => decide (lookup c = some (opOf r.mnemonic, .list)) && r.immSz == opcodeLen c + 1
  | none => false

def isStackMn (mn : String) : Bool := mn == "PSHS" || mn == "PSHU" || mn == "PULS" || mn == "PULU"

theorem psh_rows : ∀ r ∈ Gen.instructions, isStackMn r.mnemonic = true → pshRowOk r = true := by decide +kernel

/-! ## (ii) operand classes -/

/-- signed value of a NumericValue -/
def signedVal (i : Nat) (neg : Bool) : Int := if neg then -(i : Int) else i

/-- two's complement representation in `bits` bits -/
def twos (z : Int) (bits : Nat) : Nat := (z % ((2 ^ bits : Nat) : Int)).toNat

/-- the accumulator names of `A,R B,R D,R` with the datasheet's post-byte codes -/
def accNames : List (Str × Nat) := [(['A'], 6), (['B'], 5), (['D'], 11)]

/-- the operand is inside brackets but is not `[address]`, `[label expression]` (since repair batch B3) or `[number]` -/
def Bracketed (o : Asm.Operand) : Prop :=
  o.kind = .extIndirect ∧ o.value.isAddress = false ∧ o.value.isAddrExpr = false ∧ o.value.isNumeric = false

/-- `PSHU / PULU` (bit 6 of the post byte then means S) -/
def isUStack (mn : String) : Bool := mn == "PSHU" || mn == "PULU"

/-- INTENDED meaning: which datasheet operand a resolved operand of row `r` stands for — every class,
every value that fits the field, regardless of how the value was written (size hints play no role).  A numeric
offset from the program counter (`n,PCR`, since repair A9) takes the 8-bit form when it lies in −128..127 and was not
spelt in extended mode (`$0005,PCR`, or any non-negative literal on an `is_16_bit` row), the 16-bit form otherwise. -/
inductive Intends (r : InstrRow) : Asm.Operand → Spec.MC6809.Operand → Prop
  | inherent {o : Asm.Operand} {c : Nat} : o.kind = .inherent → r.inh = some c → Intends r o .none
  | imm8 {o : Asm.Operand} {c : Nat} {op : String} {i : Nat} {h : Option Nat} {m : Mode} {neg : Bool} : o.kind = .immediate → r.imm = some c → lookup c = some (op, .imm8) →
      o.value = .numeric i h m neg → -128 ≤ signedVal i neg → signedVal i neg ≤ 255 → Intends r o (.imm 8 (twos (signedVal i neg) 8))
  | imm16 {o : Asm.Operand} {c : Nat} {op : String} {i : Nat} {h : Option Nat} {m : Mode} {neg : Bool} : o.kind = .immediate → r.imm = some c → lookup c = some (op, .imm16) →
      o.value = .numeric i h m neg → -32768 ≤ signedVal i neg → signedVal i neg ≤ 65535 →
      Intends r o (.imm 16 (twos (signedVal i neg) 16))
  | direct {o : Asm.Operand} {c : Nat} {v : Nat} {h : Option Nat} {m : Mode} : o.kind = .direct → r.dir = some c → o.value = .numeric v h m false → v < 256 →
      Intends r o (.dir v)
  | extended {o : Asm.Operand} {c : Nat} {v : Nat} {h : Option Nat} {m : Mode} : o.kind = .extended → r.ext = some c → o.value = .numeric v h m false → v < 65536 →
      Intends r o (.ext v)
  | extInd {o : Asm.Operand} {c : Nat} {v : Nat} {h : Option Nat} {m : Mode} : o.kind = .extIndirect → r.ind = some c → o.value = .numeric v h m false → v < 65536 →
      Intends r o (.idx (.extInd v))
  | zero {o : Asm.Operand} {c : Nat} {k : Nat} : o.kind = .indexed → r.ind = some c → o.left = .text [] → k < 4 → o.right = some (regName k) →
      Intends r o (.idx (.off k 0 false 0))
  | inc1 {o : Asm.Operand} {c : Nat} {k : Nat} : o.kind = .indexed → r.ind = some c → o.left = .text [] → k < 4 →
      o.right = some (regName k ++ ['+']) → Intends r o (.idx (.inc1 k))
  | inc2 {o : Asm.Operand} {c : Nat} {k : Nat} : o.kind = .indexed → r.ind = some c → o.left = .text [] → k < 4 →
      o.right = some (regName k ++ ['+', '+']) → Intends r o (.idx (.inc2 k false))
  | dec1 {o : Asm.Operand} {c : Nat} {k : Nat} : o.kind = .indexed → r.ind = some c → o.left = .text [] → k < 4 →
      o.right = some ('-' :: regName k) → Intends r o (.idx (.dec1 k))
  | dec2 {o : Asm.Operand} {c : Nat} {k : Nat} : o.kind = .indexed → r.ind = some c → o.left = .text [] → k < 4 →
      o.right = some ('-' :: '-' :: regName k) → Intends r o (.idx (.dec2 k false))
  | indZero {o : Asm.Operand} {c : Nat} {k : Nat} : Bracketed o → r.ind = some c → o.left = .text [] → k < 4 → o.right = some (regName k) →
      Intends r o (.idx (.off k 0 true 0))
  | indInc2 {o : Asm.Operand} {c : Nat} {k : Nat} : Bracketed o → r.ind = some c → o.left = .text [] → k < 4 →
      o.right = some (regName k ++ ['+', '+']) → Intends r o (.idx (.inc2 k true))
  | indDec2 {o : Asm.Operand} {c : Nat} {k : Nat} : Bracketed o → r.ind = some c → o.left = .text [] → k < 4 →
      o.right = some ('-' :: '-' :: regName k) → Intends r o (.idx (.dec2 k true))
  | acc {o : Asm.Operand} {c : Nat} {k : Nat} {l : Str} {a : Nat} : o.kind = .indexed → r.ind = some c → (l, a) ∈ accNames → o.left = .text l → k < 4 →
      o.right = some (regName k) → Intends r o (.idx (.acc a k false))
  | indAcc {o : Asm.Operand} {c : Nat} {k : Nat} {l : Str} {a : Nat} : Bracketed o → r.ind = some c → (l, a) ∈ accNames → o.left = .text l → k < 4 →
      o.right = some (regName k) → Intends r o (.idx (.acc a k true))
  | off5 {o : Asm.Operand} {c : Nat} {k : Nat} {i : Nat} {h : Option Nat} {m : Mode} {neg : Bool} : o.kind = .indexed → r.ind = some c → o.left = .val (.numeric i h m neg) → i ≠ 0 →
      k < 4 → o.right = some (regName k) → -16 ≤ signedVal i neg → signedVal i neg ≤ 15 →
      Intends r o (.idx (.off k (signedVal i neg) false 5))
  | off8 {o : Asm.Operand} {c : Nat} {k : Nat} {i : Nat} {h : Option Nat} {m : Mode} {neg : Bool} : o.kind = .indexed → r.ind = some c → o.left = .val (.numeric i h m neg) →
      k < 4 → o.right = some (regName k) → ¬ (-16 ≤ signedVal i neg ∧ signedVal i neg ≤ 15) →
      -128 ≤ signedVal i neg → signedVal i neg ≤ 127 → Intends r o (.idx (.off k (signedVal i neg) false 8))
  | off16 {o : Asm.Operand} {c : Nat} {k : Nat} {i : Nat} {h : Option Nat} {m : Mode} {neg : Bool} : o.kind = .indexed → r.ind = some c → o.left = .val (.numeric i h m neg) →
      k < 4 → o.right = some (regName k) → ¬ (-128 ≤ signedVal i neg ∧ signedVal i neg ≤ 127) →
      -32768 ≤ signedVal i neg → signedVal i neg ≤ 65535 →
      Intends r o (.idx (.off k (sext (twos (signedVal i neg) 16) 16) false 16))
  | indOff8 {o : Asm.Operand} {c : Nat} {k : Nat} {i : Nat} {h : Option Nat} {m : Mode} {neg : Bool} : Bracketed o → r.ind = some c → o.left = .val (.numeric i h m neg) → i ≠ 0 →
      k < 4 → o.right = some (regName k) → -128 ≤ signedVal i neg → signedVal i neg ≤ 127 →
      Intends r o (.idx (.off k (signedVal i neg) true 8))
  | indOff16 {o : Asm.Operand} {c : Nat} {k : Nat} {i : Nat} {h : Option Nat} {m : Mode} {neg : Bool} : Bracketed o → r.ind = some c → o.left = .val (.numeric i h m neg) →
      k < 4 → o.right = some (regName k) → ¬ (-128 ≤ signedVal i neg ∧ signedVal i neg ≤ 127) →
      -32768 ≤ signedVal i neg → signedVal i neg ≤ 65535 →
      Intends r o (.idx (.off k (sext (twos (signedVal i neg) 16) 16) true 16))
  | pcr8 {o : Asm.Operand} {c : Nat} {i : Nat} {h : Option Nat} {m : Mode} {neg : Bool} : o.kind = .indexed → r.ind = some c → o.left = .val (.numeric i h m neg) →
      o.right = some (str "PCR") → m ≠ .extended → -128 ≤ signedVal i neg → signedVal i neg ≤ 127 →
      Intends r o (.idx (.pcr (signedVal i neg) false 8))
  | pcr16 {o : Asm.Operand} {c : Nat} {i : Nat} {h : Option Nat} {m : Mode} {neg : Bool} : o.kind = .indexed → r.ind = some c → o.left = .val (.numeric i h m neg) →
      o.right = some (str "PCR") → (m = .extended ∨ ¬ (-128 ≤ signedVal i neg ∧ signedVal i neg ≤ 127)) →
      -32768 ≤ signedVal i neg → signedVal i neg ≤ 65535 →
      Intends r o (.idx (.pcr (sext (twos (signedVal i neg) 16) 16) false 16))
  | indPcr8 {o : Asm.Operand} {c : Nat} {i : Nat} {h : Option Nat} {m : Mode} {neg : Bool} : Bracketed o → r.ind = some c → o.left = .val (.numeric i h m neg) →
      o.right = some (str "PCR") → m ≠ .extended → -128 ≤ signedVal i neg → signedVal i neg ≤ 127 →
      Intends r o (.idx (.pcr (signedVal i neg) true 8))
  | indPcr16 {o : Asm.Operand} {c : Nat} {i : Nat} {h : Option Nat} {m : Mode} {neg : Bool} : Bracketed o → r.ind = some c → o.left = .val (.numeric i h m neg) →
      o.right = some (str "PCR") → (m = .extended ∨ ¬ (-128 ≤ signedVal i neg ∧ signedVal i neg ≤ 127)) →
      -32768 ≤ signedVal i neg → signedVal i neg ≤ 65535 →
      Intends r o (.idx (.pcr (sext (twos (signedVal i neg) 16) 16) true 16))
  | pair {o : Asm.Operand} {a : String} {b : String} : (r.mnemonic = "TFR" ∨ r.mnemonic = "EXG") → o.kind = .special → a ∈ Gen.registers →
      b ∈ Gen.registers → dsPairOk a b = true → o.text = a.toList ++ ',' :: b.toList →
      Intends r o (.pair (dsPairCode a) (dsPairCode b))
  | list {o : Asm.Operand} {regs : List Str} : isStackMn r.mnemonic = true → o.kind = .special → regs ≠ [] →
      (∀ x ∈ regs, (dsBit (isUStack r.mnemonic) x).isSome) → o.text = joinWith ',' regs →
      Intends r o (.list (dsMask (isUStack r.mnemonic) regs))

/-- C01 (ii) at full strength: every operand is encoded as the datasheet operand it stands for -/
def C01_Statement : Prop :=
  ∀ r ∈ Gen.instructions, r.isPseudo = false → ∀ o x, Intends r o x → Encodes o r x

/-- PROVED region: `Intends` spelt out by sign.  Since repair batch B2 (A10: bit $40 is the OTHER stack pointer, the
instruction's own one is refused; A9: numeric `n,PCR`) nothing of `Intends` is left out: `region_sub_intends`, and
every `Intends` operand is encoded (`C01_intends`, `C01_full : C01_Statement`). -/
inductive Region (r : InstrRow) : Asm.Operand → Spec.MC6809.Operand → Prop
  | inherent {o : Asm.Operand} {c : Nat} : o.kind = .inherent → r.inh = some c → Region r o .none
  | imm8 {o : Asm.Operand} {c : Nat} {op : String} {v : Nat} {h : Option Nat} {m : Mode} : o.kind = .immediate → r.imm = some c → lookup c = some (op, .imm8) →
      o.value = .numeric v h m false → v < 256 → Region r o (.imm 8 v)
  | imm8neg {o : Asm.Operand} {c : Nat} {op : String} {i : Nat} {h : Option Nat} {m : Mode} : o.kind = .immediate → r.imm = some c → lookup c = some (op, .imm8) →
      o.value = .numeric i h m true → 1 ≤ i → i ≤ 128 → Region r o (.imm 8 (256 - i))
  | imm16 {o : Asm.Operand} {c : Nat} {op : String} {v : Nat} {h : Option Nat} {m : Mode} : o.kind = .immediate → r.imm = some c → lookup c = some (op, .imm16) →
      o.value = .numeric v h m false → v < 65536 → Region r o (.imm 16 v)
  | imm16neg {o : Asm.Operand} {c : Nat} {op : String} {i : Nat} {h : Option Nat} {m : Mode} : o.kind = .immediate → r.imm = some c → lookup c = some (op, .imm16) →
      o.value = .numeric i h m true → 1 ≤ i → i ≤ 32768 → Region r o (.imm 16 (65536 - i))
  | direct {o : Asm.Operand} {c : Nat} {v : Nat} {h : Option Nat} {m : Mode} : o.kind = .direct → r.dir = some c → o.value = .numeric v h m false → v < 256 →
      Region r o (.dir v)
  | extended {o : Asm.Operand} {c : Nat} {v : Nat} {h : Option Nat} {m : Mode} : o.kind = .extended → r.ext = some c → o.value = .numeric v h m false → v < 65536 →
      Region r o (.ext v)
  | extInd {o : Asm.Operand} {c : Nat} {v : Nat} {h : Option Nat} {m : Mode} : o.kind = .extIndirect → r.ind = some c → o.value = .numeric v h m false → v < 65536 →
      Region r o (.idx (.extInd v))
  | zero {o : Asm.Operand} {c : Nat} {k : Nat} : o.kind = .indexed → r.ind = some c → o.left = .text [] → k < 4 → o.right = some (regName k) →
      Region r o (.idx (.off k 0 false 0))
  | inc1 {o : Asm.Operand} {c : Nat} {k : Nat} : o.kind = .indexed → r.ind = some c → o.left = .text [] → k < 4 →
      o.right = some (regName k ++ ['+']) → Region r o (.idx (.inc1 k))
  | inc2 {o : Asm.Operand} {c : Nat} {k : Nat} : o.kind = .indexed → r.ind = some c → o.left = .text [] → k < 4 →
      o.right = some (regName k ++ ['+', '+']) → Region r o (.idx (.inc2 k false))
  | dec1 {o : Asm.Operand} {c : Nat} {k : Nat} : o.kind = .indexed → r.ind = some c → o.left = .text [] → k < 4 →
      o.right = some ('-' :: regName k) → Region r o (.idx (.dec1 k))
  | dec2 {o : Asm.Operand} {c : Nat} {k : Nat} : o.kind = .indexed → r.ind = some c → o.left = .text [] → k < 4 →
      o.right = some ('-' :: '-' :: regName k) → Region r o (.idx (.dec2 k false))
  | indZero {o : Asm.Operand} {c : Nat} {k : Nat} : Bracketed o → r.ind = some c → o.left = .text [] → k < 4 → o.right = some (regName k) →
      Region r o (.idx (.off k 0 true 0))
  | indInc2 {o : Asm.Operand} {c : Nat} {k : Nat} : Bracketed o → r.ind = some c → o.left = .text [] → k < 4 →
      o.right = some (regName k ++ ['+', '+']) → Region r o (.idx (.inc2 k true))
  | indDec2 {o : Asm.Operand} {c : Nat} {k : Nat} : Bracketed o → r.ind = some c → o.left = .text [] → k < 4 →
      o.right = some ('-' :: '-' :: regName k) → Region r o (.idx (.dec2 k true))
  | acc {o : Asm.Operand} {c : Nat} {k : Nat} {l : Str} {a : Nat} : o.kind = .indexed → r.ind = some c → (l, a) ∈ accNames → o.left = .text l → k < 4 →
      o.right = some (regName k) → Region r o (.idx (.acc a k false))
  | indAcc {o : Asm.Operand} {c : Nat} {k : Nat} {l : Str} {a : Nat} : Bracketed o → r.ind = some c → (l, a) ∈ accNames → o.left = .text l → k < 4 →
      o.right = some (regName k) → Region r o (.idx (.acc a k true))
  | off5pos {o : Asm.Operand} {c : Nat} {k : Nat} {i : Nat} {h : Option Nat} {m : Mode} : o.kind = .indexed → r.ind = some c → o.left = .val (.numeric i h m false) →
      1 ≤ i → i ≤ 15 → k < 4 → o.right = some (regName k) → Region r o (.idx (.off k i false 5))
  | off5neg {o : Asm.Operand} {c : Nat} {k : Nat} {i : Nat} {h : Option Nat} {m : Mode} : o.kind = .indexed → r.ind = some c → o.left = .val (.numeric i h m true) →
      1 ≤ i → i ≤ 16 → k < 4 → o.right = some (regName k) → Region r o (.idx (.off k (-(i : Int)) false 5))
  | off8pos {o : Asm.Operand} {c : Nat} {k : Nat} {i : Nat} {h : Option Nat} {m : Mode} : o.kind = .indexed → r.ind = some c → o.left = .val (.numeric i h m false) →
      16 ≤ i → i ≤ 127 → k < 4 → o.right = some (regName k) → Region r o (.idx (.off k i false 8))
  | off8neg {o : Asm.Operand} {c : Nat} {k : Nat} {i : Nat} {h : Option Nat} {m : Mode} : o.kind = .indexed → r.ind = some c → o.left = .val (.numeric i h m true) →
      17 ≤ i → i ≤ 128 → k < 4 → o.right = some (regName k) → Region r o (.idx (.off k (-(i : Int)) false 8))
  | off16pos {o : Asm.Operand} {c : Nat} {k : Nat} {i : Nat} {h : Option Nat} {m : Mode} : o.kind = .indexed → r.ind = some c → o.left = .val (.numeric i h m false) →
      128 ≤ i → i < 65536 → k < 4 → o.right = some (regName k) →
      Region r o (.idx (.off k (sext i 16) false 16))
  | off16neg {o : Asm.Operand} {c : Nat} {k : Nat} {i : Nat} {h : Option Nat} {m : Mode} : o.kind = .indexed → r.ind = some c → o.left = .val (.numeric i h m true) →
      129 ≤ i → i ≤ 32768 → k < 4 → o.right = some (regName k) → Region r o (.idx (.off k (-(i : Int)) false 16))
  | indOff8pos {o : Asm.Operand} {c : Nat} {k : Nat} {i : Nat} {h : Option Nat} {m : Mode} : Bracketed o → r.ind = some c → o.left = .val (.numeric i h m false) →
      1 ≤ i → i ≤ 127 → k < 4 → o.right = some (regName k) → Region r o (.idx (.off k i true 8))
  | indOff8neg {o : Asm.Operand} {c : Nat} {k : Nat} {i : Nat} {h : Option Nat} {m : Mode} : Bracketed o → r.ind = some c → o.left = .val (.numeric i h m true) →
      1 ≤ i → i ≤ 128 → k < 4 → o.right = some (regName k) → Region r o (.idx (.off k (-(i : Int)) true 8))
  | indOff16pos {o : Asm.Operand} {c : Nat} {k : Nat} {i : Nat} {h : Option Nat} {m : Mode} : Bracketed o → r.ind = some c → o.left = .val (.numeric i h m false) →
      128 ≤ i → i < 65536 → k < 4 → o.right = some (regName k) →
      Region r o (.idx (.off k (sext i 16) true 16))
  | indOff16neg {o : Asm.Operand} {c : Nat} {k : Nat} {i : Nat} {h : Option Nat} {m : Mode} : Bracketed o → r.ind = some c → o.left = .val (.numeric i h m true) →
      129 ≤ i → i ≤ 32768 → k < 4 → o.right = some (regName k) → Region r o (.idx (.off k (-(i : Int)) true 16))
  | pcr8 {o : Asm.Operand} {c : Nat} {i : Nat} {h : Option Nat} {m : Mode} {neg : Bool} : o.kind = .indexed → r.ind = some c → o.left = .val (.numeric i h m neg) →
      o.right = some (str "PCR") → m ≠ .extended → -128 ≤ signedVal i neg → signedVal i neg ≤ 127 →
      Region r o (.idx (.pcr (signedVal i neg) false 8))
  | pcr16 {o : Asm.Operand} {c : Nat} {i : Nat} {h : Option Nat} {m : Mode} {neg : Bool} : o.kind = .indexed → r.ind = some c → o.left = .val (.numeric i h m neg) →
      o.right = some (str "PCR") → (m = .extended ∨ ¬ (-128 ≤ signedVal i neg ∧ signedVal i neg ≤ 127)) →
      -32768 ≤ signedVal i neg → signedVal i neg ≤ 65535 →
      Region r o (.idx (.pcr (sext (twos (signedVal i neg) 16) 16) false 16))
  | indPcr8 {o : Asm.Operand} {c : Nat} {i : Nat} {h : Option Nat} {m : Mode} {neg : Bool} : Bracketed o → r.ind = some c → o.left = .val (.numeric i h m neg) →
      o.right = some (str "PCR") → m ≠ .extended → -128 ≤ signedVal i neg → signedVal i neg ≤ 127 →
      Region r o (.idx (.pcr (signedVal i neg) true 8))
  | indPcr16 {o : Asm.Operand} {c : Nat} {i : Nat} {h : Option Nat} {m : Mode} {neg : Bool} : Bracketed o → r.ind = some c → o.left = .val (.numeric i h m neg) →
      o.right = some (str "PCR") → (m = .extended ∨ ¬ (-128 ≤ signedVal i neg ∧ signedVal i neg ≤ 127)) →
      -32768 ≤ signedVal i neg → signedVal i neg ≤ 65535 →
      Region r o (.idx (.pcr (sext (twos (signedVal i neg) 16) 16) true 16))
  | pair {o : Asm.Operand} {a : String} {b : String} : (r.mnemonic = "TFR" ∨ r.mnemonic = "EXG") → o.kind = .special → a ∈ Gen.registers →
      b ∈ Gen.registers → dsPairOk a b = true → o.text = a.toList ++ ',' :: b.toList →
      Region r o (.pair (dsPairCode a) (dsPairCode b))
  | list {o : Asm.Operand} {regs : List Str} : isStackMn r.mnemonic = true → o.kind = .special → regs ≠ [] →
      (∀ x ∈ regs, (dsBit (isUStack r.mnemonic) x).isSome) → o.text = joinWith ',' regs →
      Region r o (.list (dsMask (isUStack r.mnemonic) regs))

section regions
variable {r : InstrRow} (hr : r ∈ Gen.instructions) (hp : r.isPseudo = false)
include hr hp

/-! ### the region theorems, one per class -/

theorem C01_inherent {o : Asm.Operand} {c : Nat} (hk : o.kind = .inherent) (hc : r.inh = some c) : Encodes o r .none :=
  enc_inherent hk hc (cell_inh hr hp hc).1 (cell_inh hr hp hc).2

/-- 8-bit immediate: every value 0..255, whatever its spelling / size hint -/
theorem C01_imm8 {o : Asm.Operand} {c v : Nat} {op : String} {h : Option Nat} {m : Mode}
    (hk : o.kind = .immediate) (hc : r.imm = some c) (hl : lookup c = some (op, .imm8))
    (hv : o.value = .numeric v h m false) (hv8 : v < 256) : Encodes o r (.imm 8 v) :=
  enc_imm8 hp (notSpecial_of_imm hr hc hl (Or.inl rfl)) hk hc (cell_imm hr hp hc hl).1 (cell_imm hr hp hc hl).2 hv hv8

/-- 8-bit immediate: every value −128..−1 -/
theorem C01_imm8_neg {o : Asm.Operand} {c i : Nat} {op : String} {h : Option Nat} {m : Mode}
    (hk : o.kind = .immediate) (hc : r.imm = some c) (hl : lookup c = some (op, .imm8))
    (hv : o.value = .numeric i h m true) (h1 : 1 ≤ i) (h2 : i ≤ 128) :
    Encodes o r (.imm 8 (256 - i)) :=
  enc_imm8_neg hp (notSpecial_of_imm hr hc hl (Or.inl rfl)) hk hc (cell_imm hr hp hc hl).1 (cell_imm hr hp hc hl).2 hv h1 h2

/-- 16-bit immediate: every value 0..65535, whatever its size hint (`LDX #$10` is `8E 00 10`) -/
theorem C01_imm16 {o : Asm.Operand} {c v : Nat} {op : String} {h : Option Nat} {m : Mode}
    (hk : o.kind = .immediate) (hc : r.imm = some c) (hl : lookup c = some (op, .imm16))
    (hv : o.value = .numeric v h m false) (hv16 : v < 65536) : Encodes o r (.imm 16 v) :=
  enc_imm16 hp (notSpecial_of_imm hr hc hl (Or.inr rfl)) hk hc (cell_imm hr hp hc hl).1 (cell_imm hr hp hc hl).2 hv hv16

/-- 16-bit immediate: every value −32768..−1 (`LDX #-1` is `8E FF FF`) -/
theorem C01_imm16_neg {o : Asm.Operand} {c i : Nat} {op : String} {h : Option Nat} {m : Mode}
    (hk : o.kind = .immediate) (hc : r.imm = some c) (hl : lookup c = some (op, .imm16))
    (hv : o.value = .numeric i h m true) (h1 : 1 ≤ i) (h2 : i ≤ 32768) :
    Encodes o r (.imm 16 (65536 - i)) :=
  enc_imm16_neg hp (notSpecial_of_imm hr hc hl (Or.inr rfl)) hk hc (cell_imm hr hp hc hl).1 (cell_imm hr hp hc hl).2 hv h1 h2

theorem C01_direct {o : Asm.Operand} {c v : Nat} {h : Option Nat} {m : Mode} (hk : o.kind = .direct) (hc : r.dir = some c)
    (hv : o.value = .numeric v h m false) (hv8 : v < 256) : Encodes o r (.dir v) :=
  enc_direct hp (notSpecial_of_dir hr hc) hk hc (cell_dir hr hp hc).1 (cell_dir hr hp hc).2 hv hv8

theorem C01_extended {o : Asm.Operand} {c v : Nat} {h : Option Nat} {m : Mode} (hk : o.kind = .extended)
    (hc : r.ext = some c) (hv : o.value = .numeric v h m false) (hv16 : v < 65536) :
    Encodes o r (.ext v) :=
  enc_extended hp (notSpecial_of_ext hr hc) hk hc (cell_ext hr hp hc).1 (cell_ext hr hp hc).2 hv hv16

/-- `[address]`: every address 0..65535 whatever its size hint, always two address bytes -/
theorem C01_extIndirect {o : Asm.Operand} {c v : Nat} {h : Option Nat} {m : Mode} (hk : o.kind = .extIndirect)
    (hc : r.ind = some c) (hv : o.value = .numeric v h m false) (hv16 : v < 65536) :
    Encodes o r (.idx (.extInd v)) :=
  enc_extInd hp (notSpecial_of_ind hr hc) hk hc (cell_ind hr hp hc).1 (cell_ind hr hp hc).2 hv hv16

/-- `,R  ,R+  ,R++  ,-R  ,--R` for R = X, Y, U, S (k = 0, 1, 2, 3) -/
theorem C01_indexed_noOffset {o : Asm.Operand} {c k : Nat} (hk : o.kind = .indexed) (hc : r.ind = some c)
    (hle : o.left = .text []) (hk4 : k < 4) :
    (o.right = some (regName k) → Encodes o r (.idx (.off k 0 false 0))) ∧
    (o.right = some (regName k ++ ['+']) → Encodes o r (.idx (.inc1 k))) ∧
    (o.right = some (regName k ++ ['+', '+']) → Encodes o r (.idx (.inc2 k false))) ∧
    (o.right = some ('-' :: regName k) → Encodes o r (.idx (.dec1 k))) ∧
    (o.right = some ('-' :: '-' :: regName k) → Encodes o r (.idx (.dec2 k false))) :=
  have hl := cell_ind hr hp hc
  ⟨enc_noOff_zero hk hc hl.1 hl.2 hle hk4, enc_noOff_inc1 hk hc hl.1 hl.2 hle hk4,
   enc_noOff_inc2 hk hc hl.1 hl.2 hle hk4, enc_noOff_dec1 hk hc hl.1 hl.2 hle hk4,
   enc_noOff_dec2 hk hc hl.1 hl.2 hle hk4⟩

/-- `[,R]  [,R++]  [,--R]`; `[,R+]` and `[,-R]` are rejected -/
theorem C01_indirect_noOffset {o : Asm.Operand} {c k : Nat} (hb : Bracketed o) (hc : r.ind = some c)
    (hle : o.left = .text []) (hk4 : k < 4) :
    (o.right = some (regName k) → Encodes o r (.idx (.off k 0 true 0))) ∧
    (o.right = some (regName k ++ ['+', '+']) → Encodes o r (.idx (.inc2 k true))) ∧
    (o.right = some ('-' :: '-' :: regName k) → Encodes o r (.idx (.dec2 k true))) ∧
    (o.right = some (regName k ++ ['+']) ∨ o.right = some ('-' :: regName k) →
      translateOperand o r = .error .operandType) :=
  have hl := cell_ind hr hp hc
  ⟨enc_ind_zero hb.1 hc hl.1 hl.2 hb.2.1 hb.2.2.1 hb.2.2.2 hle hk4, enc_ind_inc2 hb.1 hc hl.1 hl.2 hb.2.1 hb.2.2.1 hb.2.2.2 hle hk4,
   enc_ind_dec2 hb.1 hc hl.1 hl.2 hb.2.1 hb.2.2.1 hb.2.2.2 hle hk4, rej_ind_inc1 hb.1 hc hl.1 hb.2.1 hb.2.2.1 hb.2.2.2 hle hk4⟩

/-- `A,R  B,R  D,R` and `[A,R]  [B,R]  [D,R]` -/
theorem C01_accumulator {o : Asm.Operand} {c k a : Nat} {l : Str} (hc : r.ind = some c) (hla : (l, a) ∈ accNames)
    (hl : o.left = .text l) (hk4 : k < 4) (hrr : o.right = some (regName k)) :
    (o.kind = .indexed → Encodes o r (.idx (.acc a k false))) ∧
    (Bracketed o → Encodes o r (.idx (.acc a k true))) := by
  have hci := cell_ind hr hp hc
  simp only [accNames, List.mem_cons, Prod.mk.injEq, List.not_mem_nil, or_false] at hla
  constructor
  · intro hk
    have := enc_acc hk hc hci.1 hci.2 hk4 hrr
    rcases hla with ⟨rfl, rfl⟩ | ⟨rfl, rfl⟩ | ⟨rfl, rfl⟩
    · exact this.1 hl
    · exact this.2.1 hl
    · exact this.2.2 hl
  · intro hb
    have := enc_ind_acc hb.1 hc hci.1 hci.2 hb.2.1 hb.2.2.1 hb.2.2.2 hk4 hrr
    rcases hla with ⟨rfl, rfl⟩ | ⟨rfl, rfl⟩ | ⟨rfl, rfl⟩
    · exact this.1 hl
    · exact this.2.1 hl
    · exact this.2.2 hl

/-- `n,R` and `-n,R`: 5-bit offsets need NO additional byte; 8-bit offsets one, 16-bit offsets two, of either
sign and whatever the size hint of the literal (`LDD 100,X` is `EC 88 64`, `LDA -17,X` is `A6 88 EF`) -/
theorem C01_offset {o : Asm.Operand} {c k i : Nat} {h : Option Nat} {m : Mode} (hk : o.kind = .indexed)
    (hc : r.ind = some c) (hk4 : k < 4) (hrr : o.right = some (regName k)) :
    (o.left = .val (.numeric i h m false) → 1 ≤ i → i ≤ 15 → Encodes o r (.idx (.off k i false 5))) ∧
    (o.left = .val (.numeric i h m true) → 1 ≤ i → i ≤ 16 → Encodes o r (.idx (.off k (-(i : Int)) false 5))) ∧
    (o.left = .val (.numeric i h m false) → 16 ≤ i → i ≤ 127 → Encodes o r (.idx (.off k i false 8))) ∧
    (o.left = .val (.numeric i h m true) → 17 ≤ i → i ≤ 128 → Encodes o r (.idx (.off k (-(i : Int)) false 8))) ∧
    (o.left = .val (.numeric i h m false) → 128 ≤ i → i < 65536 → Encodes o r (.idx (.off k (sext i 16) false 16))) ∧
    (o.left = .val (.numeric i h m true) → 129 ≤ i → i ≤ 32768 → Encodes o r (.idx (.off k (-(i : Int)) false 16))) :=
  have hl := cell_ind hr hp hc
  have hsp := notSpecial_of_ind hr hc
  ⟨fun hle h1 h2 => enc_off_pos5 hk hc hl.1 hl.2 hle h1 h2 hk4 hrr,
   fun hle h1 h2 => enc_off_neg5 hk hc hl.1 hl.2 hle h1 h2 hk4 hrr,
   fun hle h1 h2 => enc_off_pos8 hp hsp hk hc hl.1 hl.2 hle h1 h2 hk4 hrr,
   fun hle h1 h2 => enc_off_neg8 hp hsp hk hc hl.1 hl.2 hle h1 h2 hk4 hrr,
   fun hle h1 h2 => enc_off_pos16 hp hsp hk hc hl.1 hl.2 hle h1 h2 hk4 hrr,
   fun hle h1 h2 => enc_off_neg16 hp hsp hk hc hl.1 hl.2 hle h1 h2 hk4 hrr⟩

/-- `[n,R]` and `[-n,R]`: 8-bit and 16-bit offsets of either sign (there is no 5-bit indirect form) -/
theorem C01_indirect_offset {o : Asm.Operand} {c k i : Nat} {h : Option Nat} {m : Mode} (hb : Bracketed o)
    (hc : r.ind = some c) (hk4 : k < 4) (hrr : o.right = some (regName k)) :
    (o.left = .val (.numeric i h m false) → 1 ≤ i → i ≤ 127 → Encodes o r (.idx (.off k i true 8))) ∧
    (o.left = .val (.numeric i h m true) → 1 ≤ i → i ≤ 128 → Encodes o r (.idx (.off k (-(i : Int)) true 8))) ∧
    (o.left = .val (.numeric i h m false) → 128 ≤ i → i < 65536 → Encodes o r (.idx (.off k (sext i 16) true 16))) ∧
    (o.left = .val (.numeric i h m true) → 129 ≤ i → i ≤ 32768 → Encodes o r (.idx (.off k (-(i : Int)) true 16))) :=
  have hl := cell_ind hr hp hc
  have hsp := notSpecial_of_ind hr hc
  ⟨fun hle h1 h2 => enc_ind_pos8 hp hsp hb.1 hc hl.1 hl.2 hb.2.1 hb.2.2.1 hb.2.2.2 hle h1 h2 hk4 hrr,
   fun hle h1 h2 => enc_ind_neg8 hp hsp hb.1 hc hl.1 hl.2 hb.2.1 hb.2.2.1 hb.2.2.2 hle h1 h2 hk4 hrr,
   fun hle h1 h2 => enc_ind_pos16 hp hsp hb.1 hc hl.1 hl.2 hb.2.1 hb.2.2.1 hb.2.2.2 hle h1 h2 hk4 hrr,
   fun hle h1 h2 => enc_ind_neg16 hp hsp hb.1 hc hl.1 hl.2 hb.2.1 hb.2.2.1 hb.2.2.2 hle h1 h2 hk4 hrr⟩

omit hp in
/-- TFR / EXG, all 100 register pairs: accepted exactly when the datasheet accepts the pair (same width),
and then the post byte carries the datasheet's register codes -/
theorem C01_tfr_exg {o : Asm.Operand} {a b : String} (hm : r.mnemonic = "TFR" ∨ r.mnemonic = "EXG")
    (hk : o.kind = .special) (ha : a ∈ Gen.registers) (hb : b ∈ Gen.registers)
    (ht : o.text = a.toList ++ ',' :: b.toList) :
    (dsPairOk a b = true → Encodes o r (.pair (dsPairCode a) (dsPairCode b))) ∧
    (dsPairOk a b = false → ∃ e, translateOperand o r = .error e) := by
  have hchk := tfr_exg_check r hr hm a ha b hb
  have hcongr : translateOperand o r = translateOperand (pairOperand a b) r := by
    simp only [translateOperand, hk, pairOperand]
    exact translateSpecial_text _ _ _ (by simpa [pairOperand] using ht)
  constructor
  · intro hok
    rw [hok] at hchk
    exact encodes_congr hcongr (encodes_of_check (by simpa using hchk))
  · intro hno
    rw [hno] at hchk
    simp only [Bool.false_eq_true, if_false] at hchk
    rw [hcongr]
    cases hx : translateOperand (pairOperand a b) r with
    | error e => exact ⟨e, rfl⟩
    | ok p => rw [hx] at hchk; simp [isErr] at hchk

omit hr hp in
/-- the model reads the stack off the mnemonic the way `isUStack` does -/
theorem stackMn_own {mn : String} (hm : isStackMn mn = true) : (mn == "PSHS" || mn == "PULS") = !isUStack mn := by
  simp only [isStackMn, Bool.or_eq_true, beq_iff_eq] at hm
  rcases hm with ((rfl | rfl) | rfl) | rfl <;> decide

omit hp in
/-- PSHS / PULS / PSHU / PULU with a list of registers the datasheet allows for that instruction (the other stack
pointer included: `PSHU S` is `36 40`, repair A10): the post byte is the OR of the datasheet bits -/
theorem C01_push_pull {o : Asm.Operand} {regs : List Str} (hm : isStackMn r.mnemonic = true)
    (hk : o.kind = .special) (hne : regs ≠ [])
    (hreg : ∀ x ∈ regs, (dsBit (isUStack r.mnemonic) x).isSome) (ht : o.text = joinWith ',' regs) :
    Encodes o r (.list (dsMask (isUStack r.mnemonic) regs)) := by
  have hrow := psh_rows r hr hm
  simp only [pshRowOk, Bool.and_eq_true, Bool.not_eq_true'] at hrow
  obtain ⟨⟨_, h2⟩, h3⟩ := hrow
  split at h3
  · rename_i c hc
    simp only [Bool.and_eq_true, decide_eq_true_eq, beq_iff_eq] at h3
    exact enc_psh _ hk (by simpa [isStackMn] using hm) (stackMn_own hm) h2 hc h3.1 h3.2 ht hne hreg
  · exact absurd h3 (by simp)

omit hr hp in
/-- ... and a list that names the instruction's own stack pointer, or anything that is no register, is REJECTED
(`PSHS S`, `PULU A,U`, `PSHS Q`) -/
theorem C01_push_pull_rejected {r : InstrRow} {o : Asm.Operand} (hm : isStackMn r.mnemonic = true) (hk : o.kind = .special)
    (hbad : ∃ x ∈ splitOn ',' o.text, dsBit (isUStack r.mnemonic) x = none) :
    translateOperand o r = .error .operandType := by
  obtain ⟨x, hx, hb⟩ := hbad
  simp only [translateOperand, hk]
  exact translateSpecial_psh_reject _ (by simpa [isStackMn] using hm) (stackMn_own hm) ⟨x, hx, dsBit_none hb⟩

/-- numeric `n,PCR` and `[n,PCR]` (repair A9): an offset from the program counter, 8-bit form when −128 ≤ n ≤ 127
and the literal is not in extended mode (`LDA 5,PCR` is `A6 8C 05`), 16-bit form otherwise (`LDA 128,PCR` is
`A6 8D 00 80`, `LDX 5,PCR` is `AE 8D 00 05`) -/
theorem C01_pcr {o : Asm.Operand} {c i : Nat} {h : Option Nat} {m : Mode} {neg : Bool} (ind : Bool)
    (hk : if ind then Bracketed o else o.kind = .indexed) (hc : r.ind = some c)
    (hle : o.left = .val (.numeric i h m neg)) (hrr : o.right = some (str "PCR")) :
    (m ≠ .extended → -128 ≤ signedVal i neg → signedVal i neg ≤ 127 →
      Encodes o r (.idx (.pcr (signedVal i neg) ind 8))) ∧
    ((m = .extended ∨ ¬ (-128 ≤ signedVal i neg ∧ signedVal i neg ≤ 127)) → -32768 ≤ signedVal i neg →
      signedVal i neg ≤ 65535 → Encodes o r (.idx (.pcr (sext (twos (signedVal i neg) 16) 16) ind 16))) := by
  have hl := cell_ind hr hp hc
  have hsp := notSpecial_of_ind hr hc
  have hk' : if ind then o.kind = .extIndirect ∧ o.value.isAddress = false ∧ o.value.isAddrExpr = false ∧ o.value.isNumeric = false
      else o.kind = .indexed := by cases ind <;> simpa [Bracketed] using hk
  constructor
  · intro hm h1 h2
    have hw : pcrWide i m neg = false := by
      have hm' : (m == Mode.extended) = false := by simpa using hm
      cases neg <;> simp only [signedVal, Bool.false_eq_true, if_false, if_true] at h1 h2 <;>
        simp [pcrWide, hm', is8Bit] <;> omega
    have := enc_pcr8 hp hsp ind hk' hc hl.1 hl.2 hle hrr hw
    cases ind <;> simpa [signedVal] using this
  · intro hm h1 h2
    have hw : pcrWide i m neg = true := by
      rcases hm with rfl | hm
      · simp [pcrWide]
      · cases neg <;> simp only [signedVal, Bool.false_eq_true, if_false, if_true] at hm <;>
          simp [pcrWide, is8Bit] <;> omega
    obtain ⟨e, hf⟩ : twos (signedVal i neg) 16 = wordField i neg ∧ fitsWord i neg = true := by
      cases neg <;> simp only [twos, signedVal, wordField, fitsWord, if_true, Bool.false_eq_true, if_false,
        decide_eq_true_eq] at h1 h2 ⊢ <;> omega
    have := enc_pcr16 hp hsp ind hk' hc hl.1 hl.2 hle hrr hw hf
    rw [e]
    cases ind <;> simpa using this

/-- C01 (ii) on the proved region: every class, with the restrictions recorded in `Region` -/
theorem C01_partial {o : Asm.Operand} {x : Spec.MC6809.Operand} (h : Region r o x) : Encodes o r x := by
  cases h with
  | inherent hk hc => exact C01_inherent hr hp hk hc
  | imm8 hk hc hl hv h8 => exact C01_imm8 hr hp hk hc hl hv h8
  | imm8neg hk hc hl hv h1 h2 => exact C01_imm8_neg hr hp hk hc hl hv h1 h2
  | imm16 hk hc hl hv h16 => exact C01_imm16 hr hp hk hc hl hv h16
  | imm16neg hk hc hl hv h1 h2 => exact C01_imm16_neg hr hp hk hc hl hv h1 h2
  | direct hk hc hv h8 => exact C01_direct hr hp hk hc hv h8
  | extended hk hc hv h16 => exact C01_extended hr hp hk hc hv h16
  | extInd hk hc hv h16 => exact C01_extIndirect hr hp hk hc hv h16
  | zero hk hc hle hk4 hrr => exact (C01_indexed_noOffset hr hp hk hc hle hk4).1 hrr
  | inc1 hk hc hle hk4 hrr => exact (C01_indexed_noOffset hr hp hk hc hle hk4).2.1 hrr
  | inc2 hk hc hle hk4 hrr => exact (C01_indexed_noOffset hr hp hk hc hle hk4).2.2.1 hrr
  | dec1 hk hc hle hk4 hrr => exact (C01_indexed_noOffset hr hp hk hc hle hk4).2.2.2.1 hrr
  | dec2 hk hc hle hk4 hrr => exact (C01_indexed_noOffset hr hp hk hc hle hk4).2.2.2.2 hrr
  | indZero hb hc hle hk4 hrr => exact (C01_indirect_noOffset hr hp hb hc hle hk4).1 hrr
  | indInc2 hb hc hle hk4 hrr => exact (C01_indirect_noOffset hr hp hb hc hle hk4).2.1 hrr
  | indDec2 hb hc hle hk4 hrr => exact (C01_indirect_noOffset hr hp hb hc hle hk4).2.2.1 hrr
  | acc hk hc hla hl hk4 hrr => exact (C01_accumulator hr hp hc hla hl hk4 hrr).1 hk
  | indAcc hb hc hla hl hk4 hrr => exact (C01_accumulator hr hp hc hla hl hk4 hrr).2 hb
  | off5pos hk hc hle h1 h2 hk4 hrr => exact (C01_offset hr hp hk hc hk4 hrr).1 hle h1 h2
  | off5neg hk hc hle h1 h2 hk4 hrr => exact (C01_offset hr hp hk hc hk4 hrr).2.1 hle h1 h2
  | off8pos hk hc hle h1 h2 hk4 hrr => exact (C01_offset hr hp hk hc hk4 hrr).2.2.1 hle h1 h2
  | off8neg hk hc hle h1 h2 hk4 hrr => exact (C01_offset hr hp hk hc hk4 hrr).2.2.2.1 hle h1 h2
  | off16pos hk hc hle h1 h2 hk4 hrr => exact (C01_offset hr hp hk hc hk4 hrr).2.2.2.2.1 hle h1 h2
  | off16neg hk hc hle h1 h2 hk4 hrr => exact (C01_offset hr hp hk hc hk4 hrr).2.2.2.2.2 hle h1 h2
  | indOff8pos hb hc hle h1 h2 hk4 hrr => exact (C01_indirect_offset hr hp hb hc hk4 hrr).1 hle h1 h2
  | indOff8neg hb hc hle h1 h2 hk4 hrr => exact (C01_indirect_offset hr hp hb hc hk4 hrr).2.1 hle h1 h2
  | indOff16pos hb hc hle h1 h2 hk4 hrr => exact (C01_indirect_offset hr hp hb hc hk4 hrr).2.2.1 hle h1 h2
  | indOff16neg hb hc hle h1 h2 hk4 hrr => exact (C01_indirect_offset hr hp hb hc hk4 hrr).2.2.2 hle h1 h2
  | pcr8 hk hc hle hrr hm h1 h2 => exact (C01_pcr hr hp false hk hc hle hrr).1 hm h1 h2
  | pcr16 hk hc hle hrr hm h1 h2 => exact (C01_pcr hr hp false hk hc hle hrr).2 hm h1 h2
  | indPcr8 hb hc hle hrr hm h1 h2 => exact (C01_pcr hr hp true hb hc hle hrr).1 hm h1 h2
  | indPcr16 hb hc hle hrr hm h1 h2 => exact (C01_pcr hr hp true hb hc hle hrr).2 hm h1 h2
  | pair hm hk ha hb hok ht => exact (C01_tfr_exg hr hm hk ha hb ht).1 hok
  | list hm hk hne hreg ht => exact C01_push_pull hr hm hk hne hreg ht

/-- **C01 (ii) on what `fixAll` really does**: for a label-free operand of the region, the step of `fixAll`
(`fix_addresses`, then `fit_operand_width`) on ANY statement carrying row, operand and package, at any position of
any program, yields the bytes the datasheet decoder reads back as the intended operand -/
theorem C01_partial_emitted {o : Asm.Operand} {x : Spec.MC6809.Operand} (h : Region r o x) (hlf : LabelFree o) :
    ∃ pkg bytes, translateOperand o r = .ok pkg ∧
      (∀ (ss : List Stmt) (i : Nat) (s : Stmt), s.row = r → s.operand = o → s.pkg = pkg →
        ∃ s', (match fixOne ss i s with | .ok s1 => fitWidth s1 | o => o) = .ok s' ∧ stmtBytes s' = some bytes) ∧
      bytes.length = pkg.size ∧ decode bytes = some (⟨opOf r.mnemonic, x⟩, bytes.length) :=
  (C01_partial hr hp h).through_fix hlf

end regions

/-- an operand whose value is a number is label-free (unless it is a branch operand) -/
theorem labelFree_of_numeric {o : Asm.Operand} {i : Nat} {h : Option Nat} {m : Mode} {n : Bool}
    (hk : o.kind ≠ .relative) (hv : o.value = .numeric i h m n) : LabelFree o :=
  ⟨hk, by rw [hv]; simp, by rw [hv]; rfl, by rw [hv]; rfl⟩

/-- an operand whose value is the `left,right` pair the parser builds for indexed operands is label-free -/
theorem labelFree_of_leftRight {o : Asm.Operand} {l rr : Str} {m : Mode}
    (hk : o.kind ≠ .relative) (hv : o.value = .leftRight l rr m) : LabelFree o :=
  ⟨hk, by rw [hv]; simp, by rw [hv]; rfl, by rw [hv]; rfl⟩

/-! ### the proved region is part of the intended relation (nothing was re-interpreted) -/

theorem twos8_neg {i : Nat} (h1 : 1 ≤ i) (h2 : i ≤ 128) : twos (signedVal i true) 8 = 256 - i := by
  simp only [twos, signedVal, if_true]
  omega
theorem twos16_neg {i : Nat} (h1 : 1 ≤ i) (h2 : i ≤ 32768) : twos (signedVal i true) 16 = 65536 - i := by
  simp only [twos, signedVal, if_true]
  omega
theorem twos8_pos {v : Nat} (h : v < 256) : twos (signedVal v false) 8 = v := by
  simp only [twos, signedVal, Bool.false_eq_true, if_false]
  omega
theorem twos16_pos {v : Nat} (h : v < 65536) : twos (signedVal v false) 16 = v := by
  simp only [twos, signedVal, Bool.false_eq_true, if_false]
  omega

theorem region_sub_intends {r : InstrRow} {o : Asm.Operand} {x : Spec.MC6809.Operand} (h : Region r o x) :
    Intends r o x := by
  cases h with
  | inherent hk hc => exact .inherent hk hc
  | imm8 hk hc hl hv h8 =>
    have := Intends.imm8 (r := r) hk hc hl hv (by simp [signedVal] <;> omega) (by simp [signedVal] <;> omega)
    rwa [twos8_pos h8] at this
  | imm8neg hk hc hl hv h1 h2 =>
    have := Intends.imm8 (r := r) hk hc hl hv (by simp [signedVal] <;> omega) (by simp [signedVal] <;> omega)
    rwa [twos8_neg h1 h2] at this
  | imm16 hk hc hl hv h16 =>
    have := Intends.imm16 (r := r) hk hc hl hv (by simp [signedVal] <;> omega) (by simp [signedVal] <;> omega)
    rwa [twos16_pos h16] at this
  | imm16neg hk hc hl hv h1 h2 =>
    have := Intends.imm16 (r := r) hk hc hl hv (by simp [signedVal] <;> omega) (by simp [signedVal] <;> omega)
    rwa [twos16_neg h1 h2] at this
  | direct hk hc hv h8 => exact .direct hk hc hv h8
  | extended hk hc hv h16 => exact .extended hk hc hv h16
  | extInd hk hc hv h16 => exact .extInd hk hc hv h16
  | zero hk hc hle hk4 hrr => exact .zero hk hc hle hk4 hrr
  | inc1 hk hc hle hk4 hrr => exact .inc1 hk hc hle hk4 hrr
  | inc2 hk hc hle hk4 hrr => exact .inc2 hk hc hle hk4 hrr
  | dec1 hk hc hle hk4 hrr => exact .dec1 hk hc hle hk4 hrr
  | dec2 hk hc hle hk4 hrr => exact .dec2 hk hc hle hk4 hrr
  | indZero hb hc hle hk4 hrr => exact .indZero hb hc hle hk4 hrr
  | indInc2 hb hc hle hk4 hrr => exact .indInc2 hb hc hle hk4 hrr
  | indDec2 hb hc hle hk4 hrr => exact .indDec2 hb hc hle hk4 hrr
  | acc hk hc hla hl hk4 hrr => exact .acc hk hc hla hl hk4 hrr
  | indAcc hb hc hla hl hk4 hrr => exact .indAcc hb hc hla hl hk4 hrr
  | off5pos hk hc hle h1 h2 hk4 hrr =>
    have := Intends.off5 (r := r) hk hc hle (by omega) hk4 hrr (by simp [signedVal] <;> omega) (by simp [signedVal] <;> omega)
    simpa [signedVal] using this
  | off5neg hk hc hle h1 h2 hk4 hrr =>
    have := Intends.off5 (r := r) hk hc hle (by omega) hk4 hrr (by simp [signedVal] <;> omega) (by simp [signedVal] <;> omega)
    simpa [signedVal] using this
  | off8pos hk hc hle h1 h2 hk4 hrr =>
    have := Intends.off8 (r := r) hk hc hle hk4 hrr (by simp [signedVal] <;> omega) (by simp [signedVal] <;> omega)
      (by simp [signedVal] <;> omega)
    simpa [signedVal] using this
  | off8neg hk hc hle h1 h2 hk4 hrr =>
    have := Intends.off8 (r := r) hk hc hle hk4 hrr (by simp [signedVal] <;> omega) (by simp [signedVal] <;> omega)
      (by simp [signedVal] <;> omega)
    simpa [signedVal] using this
  | off16pos hk hc hle h1 h2 hk4 hrr =>
    have := Intends.off16 (r := r) hk hc hle hk4 hrr (by simp [signedVal] <;> omega) (by simp [signedVal] <;> omega)
      (by simp [signedVal] <;> omega)
    rwa [twos16_pos h2] at this
  | off16neg hk hc hle h1 h2 hk4 hrr =>
    have := Intends.off16 (r := r) hk hc hle hk4 hrr (by simp [signedVal] <;> omega) (by simp [signedVal] <;> omega)
      (by simp [signedVal] <;> omega)
    rwa [twos16_neg (by omega) h2, sext16_neg (by omega) h2] at this
  | indOff8pos hb hc hle h1 h2 hk4 hrr =>
    have := Intends.indOff8 (r := r) hb hc hle (by omega) hk4 hrr (by simp [signedVal] <;> omega) (by simp [signedVal] <;> omega)
    simpa [signedVal] using this
  | indOff8neg hb hc hle h1 h2 hk4 hrr =>
    have := Intends.indOff8 (r := r) hb hc hle (by omega) hk4 hrr (by simp [signedVal] <;> omega) (by simp [signedVal] <;> omega)
    simpa [signedVal] using this
  | indOff16pos hb hc hle h1 h2 hk4 hrr =>
    have := Intends.indOff16 (r := r) hb hc hle hk4 hrr (by simp [signedVal] <;> omega) (by simp [signedVal] <;> omega)
      (by simp [signedVal] <;> omega)
    rwa [twos16_pos h2] at this
  | indOff16neg hb hc hle h1 h2 hk4 hrr =>
    have := Intends.indOff16 (r := r) hb hc hle hk4 hrr (by simp [signedVal] <;> omega) (by simp [signedVal] <;> omega)
      (by simp [signedVal] <;> omega)
    rwa [twos16_neg (by omega) h2, sext16_neg (by omega) h2] at this
  | pcr8 hk hc hle hrr hm h1 h2 => exact .pcr8 hk hc hle hrr hm h1 h2
  | pcr16 hk hc hle hrr hm h1 h2 => exact .pcr16 hk hc hle hrr hm h1 h2
  | indPcr8 hb hc hle hrr hm h1 h2 => exact .indPcr8 hb hc hle hrr hm h1 h2
  | indPcr16 hb hc hle hrr hm h1 h2 => exact .indPcr16 hb hc hle hrr hm h1 h2
  | pair hm hk ha hb hok ht => exact .pair hm hk ha hb hok ht
  | list hm hk hne hreg ht => exact .list hm hk hne hreg ht

/-! ### the whole intended relation is proved (since repair batch B2) -/

theorem twos8_field {i : Nat} {neg : Bool} (h1 : -128 ≤ signedVal i neg) (h2 : signedVal i neg ≤ 255) :
    twos (signedVal i neg) 8 = byteField i neg ∧ fitsByte i neg = true := by
  cases neg <;> simp only [twos, signedVal, byteField, fitsByte, if_true, Bool.false_eq_true, if_false,
    decide_eq_true_eq] at h1 h2 ⊢ <;> omega

theorem twos16_field {i : Nat} {neg : Bool} (h1 : -32768 ≤ signedVal i neg) (h2 : signedVal i neg ≤ 65535) :
    twos (signedVal i neg) 16 = wordField i neg ∧ fitsWord i neg = true := by
  cases neg <;> simp only [twos, signedVal, wordField, fitsWord, if_true, Bool.false_eq_true, if_false,
    decide_eq_true_eq] at h1 h2 ⊢ <;> omega

/-- **C01 (ii) for the whole intended relation** (formerly `C01_full_except_S`, which had to exclude register lists
naming S: finding A10, repaired): every operand of every class, every value that fits its field, whatever the
spelling, is encoded as the datasheet operand it stands for -/
theorem C01_intends {r : InstrRow} (hr : r ∈ Gen.instructions) (hp : r.isPseudo = false) {o : Asm.Operand}
    {x : Spec.MC6809.Operand} (h : Intends r o x) : Encodes o r x := by
  cases h with
  | inherent hk hc => exact C01_inherent hr hp hk hc
  | imm8 hk hc hl hv h1 h2 =>
    obtain ⟨e, hf⟩ := twos8_field h1 h2
    rw [e]
    exact enc_imm8_field hp (notSpecial_of_imm hr hc hl (Or.inl rfl)) hk hc (cell_imm hr hp hc hl).1
      (cell_imm hr hp hc hl).2 hv hf
  | imm16 hk hc hl hv h1 h2 =>
    obtain ⟨e, hf⟩ := twos16_field h1 h2
    rw [e]
    exact enc_imm16_field hp (notSpecial_of_imm hr hc hl (Or.inr rfl)) hk hc (cell_imm hr hp hc hl).1
      (cell_imm hr hp hc hl).2 hv hf
  | direct hk hc hv h8 => exact C01_direct hr hp hk hc hv h8
  | extended hk hc hv h16 => exact C01_extended hr hp hk hc hv h16
  | extInd hk hc hv h16 => exact C01_extIndirect hr hp hk hc hv h16
  | zero hk hc hle hk4 hrr => exact (C01_indexed_noOffset hr hp hk hc hle hk4).1 hrr
  | inc1 hk hc hle hk4 hrr => exact (C01_indexed_noOffset hr hp hk hc hle hk4).2.1 hrr
  | inc2 hk hc hle hk4 hrr => exact (C01_indexed_noOffset hr hp hk hc hle hk4).2.2.1 hrr
  | dec1 hk hc hle hk4 hrr => exact (C01_indexed_noOffset hr hp hk hc hle hk4).2.2.2.1 hrr
  | dec2 hk hc hle hk4 hrr => exact (C01_indexed_noOffset hr hp hk hc hle hk4).2.2.2.2 hrr
  | indZero hb hc hle hk4 hrr => exact (C01_indirect_noOffset hr hp hb hc hle hk4).1 hrr
  | indInc2 hb hc hle hk4 hrr => exact (C01_indirect_noOffset hr hp hb hc hle hk4).2.1 hrr
  | indDec2 hb hc hle hk4 hrr => exact (C01_indirect_noOffset hr hp hb hc hle hk4).2.2.1 hrr
  | acc hk hc hla hl hk4 hrr => exact (C01_accumulator hr hp hc hla hl hk4 hrr).1 hk
  | indAcc hb hc hla hl hk4 hrr => exact (C01_accumulator hr hp hc hla hl hk4 hrr).2 hb
  | off5 hk hc hle hi hk4 hrr h1 h2 =>
    rename_i c k i hh m neg
    cases neg
    · simp only [signedVal, Bool.false_eq_true, if_false] at h1 h2 ⊢
      exact (C01_offset hr hp hk hc hk4 hrr).1 hle (by omega) (by omega)
    · simp only [signedVal, if_true] at h1 h2 ⊢
      exact (C01_offset hr hp hk hc hk4 hrr).2.1 hle (by omega) (by omega)
  | off8 hk hc hle hk4 hrr hn h1 h2 =>
    rename_i c k i hh m neg
    cases neg
    · simp only [signedVal, Bool.false_eq_true, if_false] at hn h1 h2 ⊢
      exact (C01_offset hr hp hk hc hk4 hrr).2.2.1 hle (by omega) (by omega)
    · simp only [signedVal, if_true] at hn h1 h2 ⊢
      exact (C01_offset hr hp hk hc hk4 hrr).2.2.2.1 hle (by omega) (by omega)
  | off16 hk hc hle hk4 hrr hn h1 h2 =>
    rename_i c k i hh m neg
    cases neg
    · have hi : i < 65536 := by simp only [signedVal, Bool.false_eq_true, if_false] at h2; omega
      rw [twos16_pos hi]
      simp only [signedVal, Bool.false_eq_true, if_false] at hn
      exact (C01_offset hr hp hk hc hk4 hrr).2.2.2.2.1 hle (by omega) hi
    · simp only [signedVal, if_true] at hn h1
      rw [twos16_neg (by omega) (by omega), sext16_neg (by omega) (by omega)]
      exact (C01_offset hr hp hk hc hk4 hrr).2.2.2.2.2 hle (by omega) (by omega)
  | indOff8 hb hc hle hi hk4 hrr h1 h2 =>
    rename_i c k i hh m neg
    cases neg
    · simp only [signedVal, Bool.false_eq_true, if_false] at h1 h2 ⊢
      exact (C01_indirect_offset hr hp hb hc hk4 hrr).1 hle (by omega) (by omega)
    · simp only [signedVal, if_true] at h1 h2 ⊢
      exact (C01_indirect_offset hr hp hb hc hk4 hrr).2.1 hle (by omega) (by omega)
  | indOff16 hb hc hle hk4 hrr hn h1 h2 =>
    rename_i c k i hh m neg
    cases neg
    · have hi : i < 65536 := by simp only [signedVal, Bool.false_eq_true, if_false] at h2; omega
      rw [twos16_pos hi]
      simp only [signedVal, Bool.false_eq_true, if_false] at hn
      exact (C01_indirect_offset hr hp hb hc hk4 hrr).2.2.1 hle (by omega) hi
    · simp only [signedVal, if_true] at hn h1
      rw [twos16_neg (by omega) (by omega), sext16_neg (by omega) (by omega)]
      exact (C01_indirect_offset hr hp hb hc hk4 hrr).2.2.2 hle (by omega) (by omega)
  | pcr8 hk hc hle hrr hm h1 h2 => exact (C01_pcr hr hp false hk hc hle hrr).1 hm h1 h2
  | pcr16 hk hc hle hrr hm h1 h2 => exact (C01_pcr hr hp false hk hc hle hrr).2 hm h1 h2
  | indPcr8 hb hc hle hrr hm h1 h2 => exact (C01_pcr hr hp true hb hc hle hrr).1 hm h1 h2
  | indPcr16 hb hc hle hrr hm h1 h2 => exact (C01_pcr hr hp true hb hc hle hrr).2 hm h1 h2
  | pair hm hk ha hb hok ht => exact (C01_tfr_exg hr hm hk ha hb ht).1 hok
  | list hm hk hne hreg ht => exact C01_push_pull hr hm hk hne hreg ht

/-- **C01 (ii) at full strength** (was false through `PSHU S`, `C01_Statement_false`, before repair A10) -/
theorem C01_full : C01_Statement := fun _ hr hp _ _ h => C01_intends hr hp h

/-- and on what `fixAll` really does, for label-free operands -/
theorem C01_full_emitted {r : InstrRow} (hr : r ∈ Gen.instructions) (hp : r.isPseudo = false) {o : Asm.Operand}
    {x : Spec.MC6809.Operand} (h : Intends r o x) (hlf : LabelFree o) :
    ∃ pkg bytes, translateOperand o r = .ok pkg ∧
      (∀ (ss : List Stmt) (i : Nat) (s : Stmt), s.row = r → s.operand = o → s.pkg = pkg →
        ∃ s', (match fixOne ss i s with | .ok s1 => fitWidth s1 | o => o) = .ok s' ∧ stmtBytes s' = some bytes) ∧
      bytes.length = pkg.size ∧ decode bytes = some (⟨opOf r.mnemonic, x⟩, bytes.length) :=
  (C01_intends hr hp h).through_fix hlf

/-! ## repaired findings (kernel-checked witnesses on the same source statements)

`asmOne mn operand` runs `createOperand`, `resolveOperand` (empty symbol table), `translateOperand`, `fitWidth`
and the byte emission of one source statement and returns `(pkg.size, bytes)`; `none` = rejected. -/

/-- REPAIRED (A3; formerly `C01_finding_16bit_row_offset`: 4 bytes for size 3): `LDD 100,X` on an `is_16_bit` row,
the offset is fitted to the one byte the 8-bit form has -/
theorem C01_finding_16bit_row_offset_fixed : asmOne "LDD" "100,X" = some (3, [0xEC, 0x88, 0x64]) := by
  decide +kernel

/-- REPAIRED (A4; formerly `C01_finding_neg8_offset`: size 2): `LDA -17,X` announces the 3 bytes it emits -/
theorem C01_finding_neg8_offset_fixed : asmOne "LDA" "-17,X" = some (3, [0xA6, 0x88, 0xEF]) := by decide +kernel

/-- REPAIRED (A4; formerly `C01_finding_neg16_offset`: size 2): `LDA -200,X` announces 4 bytes -/
theorem C01_finding_neg16_offset_fixed : asmOne "LDA" "-200,X" = some (4, [0xA6, 0x89, 0xFF, 0x38]) := by decide +kernel

/-- REPAIRED (A4; formerly `C01_finding_indirect_neg_offset`: size 2): `LDA [-5,X]` announces 3 bytes -/
theorem C01_finding_indirect_neg_offset_fixed : asmOne "LDA" "[-5,X]" = some (3, [0xA6, 0x98, 0xFB]) := by decide +kernel

/-- REPAIRED (A5; formerly `C01_finding_imm8_256`: accepted, 3 bytes for size 2): `LDA #256` is rejected -/
theorem C01_finding_imm8_256_fixed : asmOne "LDA" "#256" = none := by decide +kernel

/-- REPAIRED (A5; formerly `C01_finding_imm8_neg_wide`: `86 FF`): `LDA #-200` is rejected -/
theorem C01_finding_imm8_neg_wide_fixed : asmOne "LDA" "#-200" = none := by decide +kernel

/-- REPAIRED (A6; formerly `C01_finding_extInd_hint2`: one address byte, undecodable): `LDA [$10]` has two address
bytes and reads back as `[$0010]` -/
theorem C01_finding_extInd_hint2_fixed :
    asmOne "LDA" "[$10]" = some (4, [0xA6, 0x9F, 0x00, 0x10]) ∧
    asmDecode "LDA" "[$10]" = some (⟨"LDA", .idx (.extInd 0x10)⟩, 4) := by decide +kernel

/-- REPAIRED (A7; formerly `C01_finding_explicit_direct_wide`: `96 10 00`): `LDA <$1000` is rejected -/
theorem C01_finding_explicit_direct_wide_fixed : asmOne "LDA" "<$1000" = none := by decide +kernel

/-- REPAIRED (A10; formerly `C01_finding_push_S`: post byte 0 for both): bit $40 is the OTHER stack pointer, so
`PSHU S` is `36 40` and `PSHS U` is `34 40`; an instruction cannot stack its own pointer: `PSHS S`, `PSHU U` are
rejected -/
theorem C01_finding_push_S_fixed :
    asmOne "PSHU" "S" = some (2, [0x36, 0x40]) ∧ asmOne "PSHS" "S" = none ∧
    asmOne "PSHS" "U" = some (2, [0x34, 0x40]) ∧ asmOne "PSHU" "U" = none := by decide +kernel

/-- REPAIRED (A9; the finding was recorded as `C12_finding_numeric_pcr`): a numeric offset from the PC -/
theorem C01_finding_numeric_pcr_fixed :
    asmOne "LDA" "5,PCR" = some (3, [0xA6, 0x8C, 0x05]) ∧ asmOne "LDA" "0,PCR" = some (3, [0xA6, 0x8C, 0x00]) ∧
    asmOne "LDA" "128,PCR" = some (4, [0xA6, 0x8D, 0x00, 0x80]) ∧ asmOne "LDA" "-129,PCR" = some (4, [0xA6, 0x8D, 0xFF, 0x7F]) ∧
    asmOne "LDX" "5,PCR" = some (4, [0xAE, 0x8D, 0x00, 0x05]) ∧ asmOne "LDX" "-5,PCR" = some (3, [0xAE, 0x8C, 0xFB]) ∧
    asmOne "LDA" "[-200,PCR]" = some (4, [0xA6, 0x9D, 0xFF, 0x38]) ∧
    asmDecode "LDA" "5,PCR" = some (⟨"LDA", .idx (.pcr 5 false 8)⟩, 3) ∧
    asmDecode "LDA" "[-200,PCR]" = some (⟨"LDA", .idx (.pcr (-200) true 16)⟩, 4) := by decide +kernel

/-- REPAIRED, general form (formerly `C01_finding_neg8_offset_general`: one byte more than announced): for EVERY
indexed row, register and magnitude 17..128 the statement is encoded, `size` included -/
theorem C01_finding_neg8_offset_general_fixed {r : InstrRow} (hr : r ∈ Gen.instructions) (hp : r.isPseudo = false)
    {o : Asm.Operand} {c k i : Nat} {h : Option Nat} {m : Mode} (hk : o.kind = .indexed) (hc : r.ind = some c)
    (hle : o.left = .val (.numeric i h m true)) (h1 : 17 ≤ i) (h2 : i ≤ 128) (hk4 : k < 4)
    (hrr : o.right = some (regName k)) : Encodes o r (.idx (.off k (-(i : Int)) false 8)) :=
  (C01_offset hr hp hk hc hk4 hrr).2.2.2.1 hle h1 h2

/-- the operand `createOperand` / `resolveOperand` build for `LDD 100,X` -/
def lddOffset : Asm.Operand :=
  { kind := .indexed, text := str "100,X", value := .leftRight (str "100") (str "X") .extended,
    left := .val (.numeric 100 (some 4) .extended false), right := some ['X'] }

/-- REPAIRED (formerly the counterexample of `C01_Statement_false`): the `LDD 100,X` operand is encoded -/
theorem lddOffset_row_fixed : ∃ r ∈ Gen.instructions, r.isPseudo = false ∧ r.ind = some 0xEC ∧
    sizeAndBytes lddOffset r = some (3, [0xEC, 0x88, 0x64]) := by decide +kernel

/-- the operand `createOperand` builds for `PSHU S` -/
def pshuS : Asm.Operand := { kind := .special, text := str "S", value := .none }

theorem pshuS_row_fixed : ∃ r ∈ Gen.instructions, r.isPseudo = false ∧ r.mnemonic = "PSHU" ∧
    sizeAndBytes pshuS r = some (2, [0x36, 0x40]) ∧ decode [0x36, 0x40] = some (⟨"PSHU", .list 0x40⟩, 2) := by
  decide +kernel

/-- REPAIRED (A10; formerly `C01_Statement_false`, whose counterexample this was): `PSHU S` stands for the register
list `$40` (bit 6 is the other stack pointer) and is now encoded as that list -/
theorem C01_Statement_false_fixed : ∃ r ∈ Gen.instructions, r.mnemonic = "PSHU" ∧
    Intends r pshuS (.list 0x40) ∧ Encodes pshuS r (.list 0x40) := by
  obtain ⟨r, hr, hp, hm, _, _⟩ := pshuS_row_fixed
  have hi : Intends r pshuS (.list (dsMask (isUStack r.mnemonic) [str "S"])) :=
    Intends.list (r := r) (o := pshuS) (regs := [str "S"]) (by rw [hm]; decide) rfl (by simp)
      (by intro x hx; simp only [List.mem_singleton] at hx; subst hx; rw [hm]; decide) rfl
  have hmask : dsMask (isUStack r.mnemonic) [str "S"] = 0x40 := by rw [hm]; decide
  rw [hmask] at hi
  exact ⟨r, hr, hm, hi, C01_full r hr hp _ _ hi⟩

/-! ## non-vacuity: source statements inside the proved region, end to end -/

/-- what the front end builds: kind, register text, and the numeric left-hand side (magnitude, hint, sign) -/
structure Shape where
  kind : OpKind
  right : Option Str
  int : Nat
  hint : Option Nat
  neg : Bool
deriving DecidableEq, Repr

def shape (mn operand : String) : Option Shape :=
  match asmOperand mn operand with
  | some (_, o) => (match o.left with | .val (.numeric i h _ n) => some ⟨o.kind, o.right, i, h, n⟩ | _ => none)
  | none => none

example : shape "LDA" "5,X" = some ⟨.indexed, some ['X'], 5, some 2, false⟩ := by decide +kernel
example : shape "LDA" "100,Y" = some ⟨.indexed, some ['Y'], 100, some 2, false⟩ := by decide +kernel
example : shape "LDA" "[5,X]" = some ⟨.extIndirect, some ['X'], 5, some 2, false⟩ := by decide +kernel
example : shape "LDD" "100,X" = some ⟨.indexed, some ['X'], 100, some 4, false⟩ := by decide +kernel
example : shape "LDA" "-17,X" = some ⟨.indexed, some ['X'], 17, none, true⟩ := by decide +kernel

example : asmDecode "NOP" "" = some (⟨"NOP", .none⟩, 1) := by decide +kernel
example : asmDecode "SWI2" "" = some (⟨"SWI2", .none⟩, 2) := by decide +kernel
example : asmDecode "LDA" "#$7F" = some (⟨"LDA", .imm 8 0x7F⟩, 2) := by decide +kernel
example : asmDecode "LDA" "#-1" = some (⟨"LDA", .imm 8 0xFF⟩, 2) := by decide +kernel
example : asmDecode "LDA" "#-128" = some (⟨"LDA", .imm 8 0x80⟩, 2) := by decide +kernel
example : asmDecode "LDX" "#$1234" = some (⟨"LDX", .imm 16 0x1234⟩, 3) := by decide +kernel
example : asmDecode "LDX" "#-1" = some (⟨"LDX", .imm 16 0xFFFF⟩, 3) := by decide +kernel
example : asmDecode "LDA" "$10" = some (⟨"LDA", .dir 0x10⟩, 2) := by decide +kernel
example : asmDecode "LDA" ">$10" = some (⟨"LDA", .ext 0x10⟩, 3) := by decide +kernel
example : asmDecode "LSL" "$1000" = some (⟨"ASL", .ext 0x1000⟩, 3) := by decide +kernel
example : asmDecode "LDA" "[$1000]" = some (⟨"LDA", .idx (.extInd 0x1000)⟩, 4) := by decide +kernel
example : asmDecode "LDA" ",X+" = some (⟨"LDA", .idx (.inc1 0)⟩, 2) := by decide +kernel
example : asmDecode "LDA" "[,--S]" = some (⟨"LDA", .idx (.dec2 3 true)⟩, 2) := by decide +kernel
example : asmOne "LDA" "[,X+]" = none := by decide +kernel
example : asmDecode "LDA" "D,U" = some (⟨"LDA", .idx (.acc 11 2 false)⟩, 2) := by decide +kernel
example : asmDecode "LDA" "5,X" = some (⟨"LDA", .idx (.off 0 5 false 5)⟩, 2) := by decide +kernel
example : asmDecode "LDA" "-16,Y" = some (⟨"LDA", .idx (.off 1 (-16) false 5)⟩, 2) := by decide +kernel
example : asmDecode "LDA" "100,X" = some (⟨"LDA", .idx (.off 0 100 false 8)⟩, 3) := by decide +kernel
example : asmDecode "LDD" "100,X" = some (⟨"LDD", .idx (.off 0 100 false 8)⟩, 3) := by decide +kernel
example : asmDecode "LDA" "-17,X" = some (⟨"LDA", .idx (.off 0 (-17) false 8)⟩, 3) := by decide +kernel
example : asmDecode "LDA" "-200,X" = some (⟨"LDA", .idx (.off 0 (-200) false 16)⟩, 4) := by decide +kernel
example : asmDecode "LDA" "[-5,X]" = some (⟨"LDA", .idx (.off 0 (-5) true 8)⟩, 3) := by decide +kernel
example : asmDecode "LDA" "1000,Y" = some (⟨"LDA", .idx (.off 1 1000 false 16)⟩, 4) := by decide +kernel
example : asmDecode "CMPS" "[300,U]" = some (⟨"CMPS", .idx (.off 2 300 true 16)⟩, 5) := by decide +kernel
example : asmDecode "TFR" "A,B" = some (⟨"TFR", .pair 8 9⟩, 2) := by decide +kernel
example : asmOne "TFR" "A,X" = none := by decide +kernel
example : asmDecode "PSHS" "A,B,X,U" = some (⟨"PSHS", .list 0x56⟩, 2) := by decide +kernel

/-- an instance of `C01_partial` on a concrete row and operand (`LDA 100,X`) -/
example : ∃ r ∈ Gen.instructions, r.mnemonic = "LDA" ∧
    ∀ o : Asm.Operand, o.kind = .indexed → o.left = .val (.numeric 100 (some 2) .direct false) →
      o.right = some ['X'] → Encodes o r (.idx (.off 0 100 false 8)) := by
  have hrow : ∃ r ∈ Gen.instructions, r.mnemonic = "LDA" ∧ r.isPseudo = false ∧ r.ind = some 0xA6 := by
    decide +kernel
  obtain ⟨r, hr, hm, hp, hc⟩ := hrow
  exact ⟨r, hr, hm, fun o hk hl hrr =>
    C01_partial hr hp (.off8pos (k := 0) (i := 100) hk hc hl (by decide) (by decide) (by decide) hrr)⟩

/-- an instance on the formerly excluded operand of `LDD 100,X` (size hint 4 on an 8-bit offset) -/
example : ∃ r ∈ Gen.instructions, r.mnemonic = "LDD" ∧ Encodes lddOffset r (.idx (.off 0 100 false 8)) := by
  have hrow : ∃ r ∈ Gen.instructions, r.mnemonic = "LDD" ∧ r.isPseudo = false ∧ r.ind = some 0xEC := by
    decide +kernel
  obtain ⟨r, hr, hm, hp, hc⟩ := hrow
  exact ⟨r, hr, hm, C01_partial hr hp (.off8pos (k := 0) (i := 100) rfl hc rfl (by decide) (by decide) (by decide) rfl)⟩

/-- `C01_partial_emitted` on `LDD 100,X`: the hypotheses are met -/
example : ∃ r ∈ Gen.instructions, r.mnemonic = "LDD" ∧ ∃ pkg bytes, translateOperand lddOffset r = .ok pkg ∧
    (∀ (ss : List Stmt) (i : Nat) (s : Stmt), s.row = r → s.operand = lddOffset → s.pkg = pkg →
      ∃ s', (match fixOne ss i s with | .ok s1 => fitWidth s1 | o => o) = .ok s' ∧ stmtBytes s' = some bytes) ∧
    bytes.length = pkg.size ∧ decode bytes = some (⟨opOf r.mnemonic, .idx (.off 0 100 false 8)⟩, bytes.length) := by
  have hrow : ∃ r ∈ Gen.instructions, r.mnemonic = "LDD" ∧ r.isPseudo = false ∧ r.ind = some 0xEC := by
    decide +kernel
  obtain ⟨r, hr, hm, hp, hc⟩ := hrow
  exact ⟨r, hr, hm, C01_partial_emitted hr hp
    (.off8pos (k := 0) (i := 100) rfl hc rfl (by decide) (by decide) (by decide) rfl)
    (labelFree_of_leftRight (by decide) rfl)⟩

/-- `C01_intends` on the operand of `LDX #-1` (a negative value with size hint 4 in a 16-bit field): the
intended operand is `$FFFF`, and that is what is encoded -/
example : ∃ r ∈ Gen.instructions, r.mnemonic = "LDX" ∧
    Encodes { kind := .immediate, text := str "#-1", value := .numeric 1 (some 4) .immediate true } r
      (.imm 16 (twos (signedVal 1 true) 16)) ∧ twos (signedVal 1 true) 16 = 0xFFFF := by
  have hrow : ∃ r ∈ Gen.instructions, r.mnemonic = "LDX" ∧ r.isPseudo = false ∧ r.imm = some 0x8E ∧
      lookup 0x8E = some ("LDX", .imm16) := by decide +kernel
  obtain ⟨r, hr, hm, hp, hc, hl⟩ := hrow
  refine ⟨r, hr, hm, ?_, by decide⟩
  exact C01_intends hr hp (Intends.imm16 (h := some 4) (m := .immediate) rfl hc hl rfl (by decide) (by decide))

/-! ### a label as the constant offset of a pointer register (repair batch B3, C3)

`Intends` speaks about NUMERIC operands, whose bytes are final after `translate` and `fit_operand_width`.  A label
offset (`LDA TABLE,X`, `LDB TBL+1,Y`, `LDD [TBL,U]`) is completed by the address pass in between, so its theorem is
stated on the `fixAll` step (`fixFit` = `fixOne` then `fitWidth`) instead of `Encodes`. -/

/-- **label offsets**: for an index operand whose left part is a label or a label expression (`LabelLeft`) and whose
register is X, Y, U or S, bracketed (`ind = true`) or not, `translate` returns the 16-bit offset form — size
`indSz + 2`, fixed (`maxSize` the same, no `choices`), waiting for the address (`needsRes`) — and for every statement
list `ss` in which the label (expression) stands for the address `a < 65536` (`LabelTarget`), the `fixAll` step turns
every statement carrying this package into op code, post byte and the two bytes of `a`, which the datasheet decoder
reads back, in full, as the row's operation on `a,R` / `[a,R]` with a 16-bit offset -/
theorem C01_label_offset {r : InstrRow} (hr : r ∈ Gen.instructions) (hp : r.isPseudo = false) {o : Asm.Operand}
    {c k : Nat} {left l : Value} {lt rt : Str} {vm : Mode} (ind : Bool)
    (hk : o.kind = if ind then .extIndirect else .indexed) (hv : o.value = .leftRight lt rt vm)
    (hc : r.ind = some c) (hl : o.left = .val left) (hll : LabelLeft left l) (hk4 : k < 4)
    (hrr : o.right = some (regName k)) :
    ∃ pkg, translateOperand o r = .ok pkg ∧ pkg.size = r.indSz + 2 ∧ pkg.maxSize = r.indSz + 2 ∧
      pkg.needsRes = true ∧ pkg.choices = [] ∧ pkg.additional = l ∧
      ∀ (ss : List Stmt) (i a : Nat) (s : Stmt) (av : Value), s.row = r → s.operand = o →
        s.pkg = { pkg with address := av } → LabelTarget ss l a → a < 65536 →
        ∃ s' bytes, fixFit ss i s = .ok s' ∧ stmtBytes s' = some bytes ∧ bytes.length = pkg.size ∧
          bytes = opcodeBytes c ++ [128 + 32 * k + (if ind then 25 else 9), a / 256, a % 256] ∧
          decode bytes = some (⟨opOf r.mnemonic, .idx (.off k (sext a 16) (ind = true) 16)⟩, bytes.length) := by
  have hcell := cell_ind hr hp hc
  have hsp := notSpecial_of_ind hr hc
  have h0 := cell_ne_zero hcell.1 (by decide)
  have hlt := cell_lt hcell.1
  have hq : (if ind then 25 else 9) = 9 ∨ (if ind then 25 else 9) = 25 := by cases ind <;> simp
  have hpb : (if ind then 0x80 ||| regBits (regName k) else regBits (regName k)) |||
      ((if ind then 0x90 else 0x80) + 0x09) = 128 + 32 * k + (if ind then 25 else 9) := by
    rw [regBits_regName k hk4]
    cases ind
    · exact or_high k hk4 9 (by omega)
    · exact or_high' k hk4 25 (by omega)
  have ht : translateOperand o r =
      translateOffset ind r left (regName k) (if ind then 0x80 ||| regBits (regName k) else regBits (regName k)) := by
    cases ind
    · simp only [Bool.false_eq_true, if_false] at hk ⊢
      simp only [translateOperand, hk]
      exact translateIndexed_label hc h0 hlt hl hll hrr (regName_valid k)
    · simp only [if_true] at hk ⊢
      simp only [translateOperand, hk]
      exact translateExtInd_label hc h0 hlt (by rw [hv]; rfl) (by rw [hv]; rfl) (by rw [hv]; rfl) hl hll hrr
        (regName_valid k)
  rw [translateOffset_label hc hlt (regName_plain k hk4) hll (by rw [hpb]; cases ind <;> simp <;> omega), hpb] at ht
  refine ⟨_, ht, rfl, rfl, rfl, rfl, rfl, ?_⟩
  intro ss i a s av hrow hop hpkg htar ha
  subst hrow hop
  have hidx : s.operand.kind = .indexed ∨ s.operand.kind = .extIndirect := by
    cases ind
    · exact Or.inl (by simpa using hk)
    · exact Or.inr (by simpa using hk)
  obtain ⟨s', bytes, h1, h2, h3, h4, h5⟩ := fixFit_label (ss := ss) (i := i) (s := s) (c := c) (k := k)
    (q := if ind then 25 else 9) (a := a) hp hsp hcell.1 hidx (by rw [hv]; simp) (by rw [hv]; rfl) (by rw [hv]; rfl)
    (by rw [hpkg]) (by rw [hpkg]) hk4 hq (by rw [hpkg]; simp [hcell.2]) (by rw [hpkg]) (by rw [hpkg])
    (by rw [hpkg]; exact htar) ha
  refine ⟨s', bytes, h1, h2, by rw [h4, hpkg], h3, ?_⟩
  rw [h5]
  cases ind <;> simp

/-- the case of a plain label: `L,R` with `L` the label of statement `j`, which lies at address `a` -/
theorem C01_label_offset_label {r : InstrRow} (hr : r ∈ Gen.instructions) (hp : r.isPseudo = false) {o : Asm.Operand}
    {c k j : Nat} {m : Mode} {lt rt : Str} {vm : Mode} (ind : Bool)
    (hk : o.kind = if ind then .extIndirect else .indexed) (hv : o.value = .leftRight lt rt vm)
    (hc : r.ind = some c) (hl : o.left = .val (.address j m)) (hj : j < 65536) (hk4 : k < 4)
    (hrr : o.right = some (regName k)) :
    ∃ pkg, translateOperand o r = .ok pkg ∧ pkg.size = r.indSz + 2 ∧ pkg.needsRes = true ∧ pkg.choices = [] ∧
      ∀ (ss : List Stmt) (i a : Nat) (s : Stmt) (av : Value), s.row = r → s.operand = o →
        s.pkg = { pkg with address := av } → addrIntOf ss j = some a → a < 65536 →
        ∃ s' bytes, fixFit ss i s = .ok s' ∧ stmtBytes s' = some bytes ∧ bytes.length = pkg.size ∧
          decode bytes = some (⟨opOf r.mnemonic, .idx (.off k (sext a 16) (ind = true) 16)⟩, bytes.length) := by
  obtain ⟨l, h', m', hn, rfl⟩ := numV_ok_enc hj
  obtain ⟨pkg, h1, h2, _, h3, h4, h5, h6⟩ := C01_label_offset hr hp ind hk hv hc hl (.label hn) hk4 hrr
  refine ⟨pkg, h1, h2, h3, h4, ?_⟩
  intro ss i a s av hrow hop hpkg hadr ha
  obtain ⟨s', bytes, g1, g2, g3, _, g5⟩ := h6 ss i a s av hrow hop hpkg (.label hadr) ha
  exact ⟨s', bytes, g1, g2, g3, g5⟩

/-- what the front end builds (`createOperand`, then `resolveOperand` against `t`) for an index operand with a LABEL on
the left: kind, the label's statement number, the register text — provided the value is a `left,right` pair -/
def builtLabelIdx (r : InstrRow) (text : Str) (t : SymTab) : Option (OpKind × Nat × Option Str) :=
  match createOperand text r with
  | .ok o0 =>
    (match resolveOperand o0 r t with
     | .ok o => (match o.value, o.left with
                 | .leftRight _ _ _, .val (.address j _) => some (o.kind, j, o.right)
                 | _, _ => none)
     | .error _ => none)
  | .error _ => none

theorem builtLabelIdx_spec {r : InstrRow} {text : Str} {t : SymTab} {k : OpKind} {j : Nat} {right : Option Str}
    (h : builtLabelIdx r text t = some (k, j, right)) :
    ∃ o0 o lt rt vm m, createOperand text r = .ok o0 ∧ resolveOperand o0 r t = .ok o ∧ o.kind = k ∧
      o.value = .leftRight lt rt vm ∧ o.left = .val (.address j m) ∧ o.right = right := by
  unfold builtLabelIdx at h
  cases h1 : createOperand text r with
  | error e => rw [h1] at h; cases h
  | ok o0 =>
    rw [h1] at h
    dsimp only at h
    cases h2 : resolveOperand o0 r t with
    | error e => rw [h2] at h; cases h
    | ok o =>
      rw [h2] at h
      dsimp only at h
      split at h
      · rename_i lt rt vm j' m hv hl
        simp only [Option.some.injEq, Prod.mk.injEq] at h
        obtain ⟨rfl, rfl, rfl⟩ := h
        exact ⟨o0, o, lt, rt, vm, m, rfl, h2, rfl, hv, hl, rfl⟩
      · cases h

/-- non-vacuity: the operands the front end builds for `LDA T,X` and `LDD [T,U]` when `T` labels statement 0 meet the
hypotheses of `C01_label_offset_label`; with `T` at address `$1234` the statements are `A6 89 12 34` = `LDA $1234,X`
and `EC D9 12 34` = `LDD [$1234,U]` -/
example : ∀ p ∈ [("LDA", "T,X", false, 0, [0xA6, 0x89, 0x12, 0x34]), ("LDD", "[T,U]", true, 2, [0xEC, 0xD9, 0x12, 0x34])],
    ∃ r ∈ Gen.instructions, r.mnemonic = p.1 ∧ ∃ o0 o,
    createOperand p.2.1.toList r = .ok o0 ∧ resolveOperand o0 r [("T".toList, .address 0 .none)] = .ok o ∧
    ∃ pkg, translateOperand o r = .ok pkg ∧ pkg.size = 4 ∧
      ∀ (ss : List Stmt) (i : Nat) (s : Stmt) (av : Value), s.row = r → s.operand = o →
        s.pkg = { pkg with address := av } → addrIntOf ss 0 = some 0x1234 →
        ∃ s', fixFit ss i s = .ok s' ∧ stmtBytes s' = some p.2.2.2.2 ∧
          decode p.2.2.2.2 = some (⟨p.1, .idx (.off p.2.2.2.1 0x1234 (p.2.2.1 = true) 16)⟩, 4) := by
  have hrows : ∀ p ∈ [("LDA", "T,X", false, 0, [0xA6, 0x89, 0x12, 0x34]), ("LDD", "[T,U]", true, 2, [0xEC, 0xD9, 0x12, 0x34])],
      ∃ r ∈ Gen.instructions, r.mnemonic = p.1 ∧ r.isPseudo = false ∧ r.indSz = 2 ∧ p.2.2.2.1 < 4 ∧
        (∃ c, r.ind = some c ∧ opcodeBytes c ++ [128 + 32 * p.2.2.2.1 + (if p.2.2.1 then 25 else 9), 0x12, 0x34] = p.2.2.2.2) ∧
        builtLabelIdx r p.2.1.toList [("T".toList, .address 0 .none)] =
          some (if p.2.2.1 then .extIndirect else .indexed, 0, some (regName p.2.2.2.1)) ∧
        decode p.2.2.2.2 = some (⟨p.1, .idx (.off p.2.2.2.1 0x1234 (p.2.2.1 = true) 16)⟩, 4) := by
    decide +kernel
  intro p hp
  obtain ⟨r, hr, hm, hps, hsz, hk4, ⟨c, hc, hbytes⟩, hb, hdec⟩ := hrows p hp
  obtain ⟨o0, o, lt, rt, vm, m, hcr, hres, hk, hv, hl, hrr⟩ := builtLabelIdx_spec hb
  refine ⟨r, hr, hm, o0, o, hcr, hres, ?_⟩
  obtain ⟨pkg, h1, h2, _, _, _, _, h6⟩ := C01_label_offset (k := p.2.2.2.1) hr hps p.2.2.1 hk hv hc hl
    (.label (numV_byte (v := 0) (by decide))) hk4 hrr
  refine ⟨pkg, h1, by rw [h2, hsz], ?_⟩
  intro ss i s av hrow hop hpkg hadr
  obtain ⟨s', bytes, g1, g2, _, g4, _⟩ := h6 ss i 0x1234 s av hrow hop hpkg (.label hadr) (by decide)
  have hb' : bytes = p.2.2.2.2 := by rw [g4, ← hbytes]
  subst hb'
  exact ⟨s', g1, g2, hdec⟩

/-- whole-program witnesses (repair batch B3, C3): a label, a label expression, and a bracketed label as constant
offsets (`TABLE` at 1: `A6 89 00 01`, `E6 A9 00 02`, `EC D9 00 01`); `[L+1]` is an indirect ADDRESS (`6E 9F 10 02`);
label expressions as offsets after an ORG (`T` at `$1000`: `T-1,S` = `A7 E9 0F FF`, `T*2,X` = `30 89 20 00`,
`[T+1,Y]` = `A6 B9 10 01`) next to a label before PCR, which stays PC-relative (`[T,PCR]` = `A6 9C F0`) -/
theorem C01_label_offset_programs (fs : Files) :
    (∃ a, assemble fs [" NOP\n".toList, "TABLE FCB 1,2,3\n".toList, " LDA TABLE,X\n".toList, " LDB TABLE+1,Y\n".toList,
        " LDD [TABLE,U]\n".toList] = .ok a ∧
      a.image = some [0x12, 0x01, 0x02, 0x03, 0xA6, 0x89, 0x00, 0x01, 0xE6, 0xA9, 0x00, 0x02, 0xEC, 0xD9, 0x00, 0x01]) ∧
    (∃ a, assemble fs [" ORG $1000\n".toList, " NOP\n".toList, "L FDB $2000\n".toList, " JMP [L+1]\n".toList,
        " JMP [L]\n".toList] = .ok a ∧
      a.image = some [0x12, 0x20, 0x00, 0x6E, 0x9F, 0x10, 0x02, 0x6E, 0x9F, 0x10, 0x01]) ∧
    (∃ a, assemble fs [" ORG $1000\n".toList, "T FCB 1\n".toList, " STA T-1,S\n".toList, " LEAX T*2,X\n".toList,
        " LDA [T+1,Y]\n".toList, " LDA [T,PCR]\n".toList] = .ok a ∧
      a.image = some [0x01, 0xA7, 0xE9, 0x0F, 0xFF, 0x30, 0x89, 0x20, 0x00, 0xA6, 0xB9, 0x10, 0x01, 0xA6, 0x9C, 0xF0]) :=
  ⟨progImage_sound (by decide +kernel) fs, progImage_sound (by decide +kernel) fs, progImage_sound (by decide +kernel) fs⟩

/-- ... and the accumulator offsets with auto increment / decrement are diagnostics (repair batch B3) -/
theorem C01_acc_autoincrement_programs (fs : Files) :
    assemble fs [" LDA A,X+\n".toList] = .diag ∧ assemble fs [" LDA B,-X\n".toList] = .diag ∧
    assemble fs [" LDA [D,--Y]\n".toList] = .diag :=
  ⟨progDiag_sound (by decide +kernel) fs, progDiag_sound (by decide +kernel) fs, progDiag_sound (by decide +kernel) fs⟩

end CoCo.Props

section axioms
open CoCo.Props
#print axioms C01_partial
#print axioms C01_partial_emitted
#print axioms C01_intends
#print axioms C01_full
#print axioms C01_full_emitted
#print axioms C01_Statement_false_fixed
#print axioms C01_push_pull_rejected
#print axioms region_sub_intends
#print axioms C01_label_offset
#print axioms C01_label_offset_label
#print axioms C01_label_offset_programs
end axioms
