/-
Props/C18RenameFull.lean — C18-R2 (renaming), END TO END at the level of parsed statements.

"Consistently renaming labels (to names that are not register names) changes no emitted byte, address or symbol
value."  `Props/C18Rename.lean` proves this up to operand resolution; here the renaming is pushed through the whole
back end `back` (everything after INCLUDE expansion: `buildSymTab`, `resolveAll`, `translateAll`, the PCR size loop,
the ORG check, `assignAddrs`, `fixAll`, `evalSyms`, `finalSymTab`; lemmas in `Lemmas/Rename*.lean`, namespace
`CoCo.Asm.Rename`):

* `renameStmt ρ s` — the statement `s` with its label renamed, the symbols in its operand value renamed, and the
  symbols in the TEXT of the left part of an indexed operand renamed (`renameLeftText`: `LDA TABLE,X`, `[L+1,Y]`,
  `LEAX L,PCR` keep that part as text until `resolve_symbols` parses it again);
* `RenOK ρ ss` — the side conditions: `ρ` is injective on the names that occur in `ss`, a renamed label is not empty,
  and for every textual left part: it has one of the shapes `SimpleLeft`, the new names in it are symbols again
  (`[\w@]+`, not a number) and none of them is `A`, `B`, `D` unless the old one was (an index left part `A`/`B`/`D` is an
  accumulator offset) — the property's "names that are not register names"; `renOKb` is the executable form;
* `C18_R2_back` — `back (ss.map (renameStmt ρ)) = (back ss).map (rnAssembly …)`: the same outcome, and the renamed
  assembly when there is one;
* `C18_R2_full` — the same in plain terms (`SameButNames`): same outcome kind; statement by statement the same op code,
  post byte, size, address and bytes, the operand field the same up to the names left in it (equal when it has none);
  the same image and origin; the symbol table with renamed keys and the same numbers (`C18_R2_symtab`);
* `C18_R2_back_text`, `C18_R2_full_text` — the same when the operand TEXTS are renamed too (by any `txt` that leaves the
  register lists of PSHS / EXG alone), which is what parsing a renamed source gives; `C18_R2_text_check`: for two
  concrete statement lists the hypotheses are a decidable check (`renamedTextB`);
* `C18_R2_witness` — a kernel-checked program with labels in branch, immediate, extended, indexed-offset, `[..]` and
  PCR positions, renamed to names with `_`, `@` and the register-looking `AB`, `XY`, `PCR`: equal images, renamed symbol
  table, the side conditions hold, and the parsed renamed TEXT is the renamed parsed text;
* `C18_R2_Statement_false` — the first formalisation `C18_R2_Statement` of `Props/C18.lean` is false as stated (it does
  not tie the operand text, from which PSHS / EXG read their registers): `PSHS A` / `PSHS B`.

Batch 8 (symbols and expressions inside FCB / FDB lists, `evalLists`): the elements of a list are evaluated from the
operand TEXT, which `renameStmt` does not rename and `Rename.rnStmt` only maps by `txt`.
* `RenOK` has the field `lists : ListsSimple ρ ss` (an element that the list pass evaluates — a symbol, an expression — is
  not `A`/`B`/`D`, has one of the shapes `SimpleLeft`, and its new names are symbols again), and `inj` is over `allNames`
  (`progNames` and the symbols of these elements, `Rename.listNames`);
* `TxtOK ρ txt ss` has a second clause: the text of a list is renamed element by element,
  `listElems (txt text) = (listElems text).map (Rename.renameElemText ρ)` (an evaluated element by `renameLeftText ρ`, a
  literal left alone; `txtOK_of_leftText`: the same as `renameLeftText ρ` on every element when all are `SimpleLeft`);
* the theorems with a renaming of the texts (`C18_R2_back_text`, `C18_R2_full_text`, `C18_R2_text_check`) cover jump
  tables `FDB L1,L2,T,L1+1` (`C18_R2_witness_jumptable`); the theorems about `renameStmt` (texts left alone: `C18_R2_back`,
  `C18_R2_full`, `C18_R2_symtab`, `C18_R2_assemble`) ask `NoPendingLists ss` (the lists are lists of literals) in addition —
  the first version of batch 8 had it inside `RenOK`; `RenOK.of_noPending`, `listsSimple_of_noPending`, `txtOK_of_noPending`
  give the new hypotheses from the old ones. `C18_R2_witness_lists`: a program with literal lists.

Not covered: an evaluated list element that is `A`, `B` or `D` (a label of that name inside a list: `renameLeftText` leaves
these alone) or outside `SimpleLeft`; a closed-form text-level theorem (`parseLine` of a textually renamed line for every operand syntax) — the
text level is reached through the check `renamedTextB`; index left parts outside `SimpleLeft` (a mode prefix `<`, `>`,
`#` before a symbol, an operand of an expression that is not a symbol, a decimal up to 65535 or `$` with one to four
hex digits).
-/
import CoCoVerif.Props.C18Rename
import CoCoVerif.Lemmas.RenameBack
import CoCoVerif.Lemmas.LayoutEval

namespace CoCo.Props
open CoCo CoCo.Asm

/-! ## the renaming of a parsed statement -/

/-- the renaming of symbols `ρ` acting on symbol names and on the text of an index left part; `txt` acts on the operand
text, which only the listing, the register lists of PSHS/EXG and NAM read -/
def textRen (ρ txt : Str → Str) : Rename.Ren := ⟨ρ, Rename.renameLeftText ρ, txt⟩

/-- the renaming that leaves operand texts alone -/
def symRen (ρ : Str → Str) : Rename.Ren := textRen ρ id

/-- `s` with its labels renamed: the label (if there is one), the symbols in the operand value and in the text of an
index left part. Row, mnemonic, comment, operand text, listing text and the (still empty) code package are untouched. -/
def renameStmt (ρ : Str → Str) (s : Stmt) : Stmt := Rename.renameStmt (symRen ρ) s

/-- the renaming of values that `renameStmt` applies (`renameValue` of `Props/C18.lean`, except that the left part of a
`left,right` pair is renamed as text) -/
abbrev rnV (ρ : Str → Str) : Value → Value := Rename.rnValue (symRen ρ)

theorem renameStmt_label (ρ : Str → Str) (s : Stmt) :
    (renameStmt ρ s).label = if s.label = [] then [] else ρ s.label := rfl
theorem renameStmt_row (ρ : Str → Str) (s : Stmt) : (renameStmt ρ s).row = s.row := rfl
theorem renameStmt_mnemonic (ρ : Str → Str) (s : Stmt) : (renameStmt ρ s).mnemonic = s.mnemonic := rfl
theorem renameStmt_comment (ρ : Str → Str) (s : Stmt) : (renameStmt ρ s).comment = s.comment := rfl
theorem renameStmt_origText (ρ : Str → Str) (s : Stmt) : (renameStmt ρ s).origText = s.origText := rfl
theorem renameStmt_pkg (ρ : Str → Str) (s : Stmt) : (renameStmt ρ s).pkg = s.pkg := rfl
theorem renameStmt_kind (ρ : Str → Str) (s : Stmt) : (renameStmt ρ s).operand.kind = s.operand.kind := rfl
theorem renameStmt_text (ρ : Str → Str) (s : Stmt) : (renameStmt ρ s).operand.text = s.operand.text := rfl
theorem renameStmt_right (ρ : Str → Str) (s : Stmt) : (renameStmt ρ s).operand.right = s.operand.right := rfl
theorem renameStmt_value (ρ : Str → Str) (s : Stmt) : (renameStmt ρ s).operand.value = rnV ρ s.operand.value := rfl
theorem renameStmt_left_text (ρ : Str → Str) (s : Stmt) (l : Str) (h : s.operand.left = .text l) :
    (renameStmt ρ s).operand.left = .text (Rename.renameLeftText ρ l) := by
  show Rename.rnSide (symRen ρ) s.operand.left = _
  rw [h]; rfl

/-- `renameValue ρ` of `Props/C18.lean` is the instance of `Rename.rnValue` that applies `ρ` to the text of a left
part as a whole -/
theorem rnValue_eq_renameValue (ρ τ : Str → Str) : ∀ (v : Value), Rename.rnValue ⟨ρ, ρ, τ⟩ v = renameValue ρ v
  | .expr l r op m ae => by
    show Value.expr _ _ op m ae = Value.expr _ _ op m ae
    rw [rnValue_eq_renameValue ρ τ l, rnValue_eq_renameValue ρ τ r]
  | .symbol _ _ | .leftRight _ _ _ | .none | .pyNone | .numeric _ _ _ _ | .address _ _ | .str _ | .multiByte _
  | .multiWord _ => rfl

/-- the operand text plays no part in the renaming of values -/
theorem rnValue_textRen (ρ txt : Str → Str) : ∀ (v : Value), Rename.rnValue (textRen ρ txt) v = rnV ρ v
  | .expr l r op m ae => by
    show Value.expr _ _ op m ae = Value.expr _ _ op m ae
    rw [rnValue_textRen ρ txt l, rnValue_textRen ρ txt r]
  | .symbol _ _ | .leftRight _ _ _ | .none | .pyNone | .numeric _ _ _ _ | .address _ _ | .str _ | .multiByte _
  | .multiWord _ => rfl

/-! ## the side conditions -/

/-- (batch 8) no statement of `ss` reaches the evaluation of the FCB / FDB lists (`evalLists`; `Rename.preLists ss` are the
statements at that point) with a byte / word list in its operand field that has a symbol or an expression among the
elements of its operand text (`Rename.litElems`: no element is `pendingAt` width 2 or 4). `noPendingListsB` is the
executable form. -/
def NoPendingLists (ss : List Stmt) : Prop :=
  ∀ x, Rename.preLists ss = some x → ∀ s ∈ x, Rename.isList s.pkg.additional = true →
    Rename.litElems s.operand.text = true

/-- (batch 8, generalised) the elements of the FCB / FDB lists that the list pass evaluates (symbols, expressions:
`Rename.pendingAny`) are simple: not `A` / `B` / `D`, one of the shapes `SimpleLeft` (a symbol, `atom op atom`), and the new
names in them are symbols again (`Rename.ElemSimple`). `preLists ss` are the statements as they reach the list pass.
`listsSimpleB` is the executable form. A program with `NoPendingLists` satisfies it trivially (`listsSimple_of_noPending`). -/
def ListsSimple (ρ : Str → Str) (ss : List Stmt) : Prop :=
  ∀ x, Rename.preLists ss = some x → ∀ s ∈ x, Rename.isList s.pkg.additional = true →
    ∀ e ∈ listElems s.operand.text, Rename.ElemSimple ρ e

theorem listsSimple_of_noPending (ρ : Str → Str) {ss : List Stmt} (h : NoPendingLists ss) : ListsSimple ρ ss := by
  intro x hx s hs hl e he hp
  rw [Rename.litElems_any (h x hx s hs hl) e he] at hp
  cases hp

/-- the names that occur in `ss`: labels, symbols in operands, symbols in index left parts (`Rename.progNames`), and
(batch 8) the symbols in the elements of FCB / FDB lists (`Rename.listNames`) -/
def allNames (ss : List Stmt) : List Str := Rename.progNames ss ++ Rename.listNames ss

/-- what C18-R2 asks of the renaming `ρ` of the program `ss`:
* `inj` — two names that occur in `ss` (labels, symbols in operands, symbols in index left parts, symbols in the
  elements of FCB / FDB lists: `allNames`) are not renamed to the same name;
* `label` — a renamed label is still a label;
* `left` — the text of an index left part (`TABLE` in `LDA TABLE,X`) is one of the shapes `SimpleLeft` (empty, `A`/`B`/`D`,
  a symbol, a number, `atom op atom`, …), the statement is not an FCC, and the new names in it are symbols again and
  not `A`, `B`, `D` unless the old one was;
* `lists` (batch 8, symbols inside FCB / FDB lists) — `ListsSimple ρ ss`: an element of an FCB / FDB LIST that is a symbol
  or an expression is simple, its new names are symbols. Such elements are evaluated from the operand TEXT
  (`evalLists`), which `renameStmt` does not rename: the theorems about `renameStmt` ask `NoPendingLists ss` in
  addition, those with a renaming `txt` of the texts ask `TxtOK` (the texts of the lists renamed element-wise) -/
structure RenOK (ρ : Str → Str) (ss : List Stmt) : Prop where
  inj : Rename.InjOn ρ (allNames ss)
  label : ∀ s ∈ ss, s.label ≠ [] → ρ s.label ≠ []
  left : ∀ s ∈ ss, ∀ l, s.operand.left = .text l →
    s.row.isStringDefine = false ∧ Rename.SimpleLeft l = true ∧ ∀ x ∈ Rename.leftNames l, Rename.GoodName x (ρ x)
  lists : ListsSimple ρ ss

/-- a renaming of operand texts must leave the register lists of PSHS / PULS / EXG / TFR alone, and (batch 8) rename the
texts of the FCB / FDB lists element by element: an element that the list pass evaluates (a symbol, an expression) is
renamed like an index left part (`renameLeftText`), a literal is left alone (`Rename.renameElemText`) -/
def TxtOK (ρ txt : Str → Str) (ss : List Stmt) : Prop :=
  (∀ s ∈ ss, s.operand.kind = .special → txt s.operand.text = s.operand.text) ∧
  ∀ x, Rename.preLists ss = some x → ∀ s ∈ x, Rename.isList s.pkg.additional = true →
    listElems (txt s.operand.text) = (listElems s.operand.text).map (Rename.renameElemText ρ)

/-- the first form of the clause about lists (lists of literals, texts left alone) is an instance -/
theorem txtOK_of_noPending {ρ txt : Str → Str} {ss : List Stmt} (hl : NoPendingLists ss)
    (h1 : ∀ s ∈ ss, s.operand.kind = .special → txt s.operand.text = s.operand.text)
    (h2 : ∀ x, Rename.preLists ss = some x → ∀ s ∈ x, Rename.isList s.pkg.additional = true →
      txt s.operand.text = s.operand.text) : TxtOK ρ txt ss :=
  ⟨h1, fun x hx s hs hli => by rw [h2 x hx s hs hli, Rename.map_renameElem_lit ρ (hl x hx s hs hli)]⟩

/-- the clause about lists with `renameLeftText` on EVERY element ("the operand text renamed element-wise"): the same
when all the elements have one of the shapes `SimpleLeft` (a literal of these shapes has no symbol in it) -/
theorem txtOK_of_leftText {ρ txt : Str → Str} {ss : List Stmt}
    (h1 : ∀ s ∈ ss, s.operand.kind = .special → txt s.operand.text = s.operand.text)
    (hsimple : ∀ x, Rename.preLists ss = some x → ∀ s ∈ x, Rename.isList s.pkg.additional = true →
      ∀ e ∈ listElems s.operand.text, Rename.SimpleLeft e = true)
    (h2 : ∀ x, Rename.preLists ss = some x → ∀ s ∈ x, Rename.isList s.pkg.additional = true →
      listElems (txt s.operand.text) = (listElems s.operand.text).map (Rename.renameLeftText ρ)) : TxtOK ρ txt ss :=
  ⟨h1, fun x hx s hs hl => by rw [h2 x hx s hs hl, Rename.map_renameElem_simple ρ (hsimple x hx s hs hl)]⟩

/-- leaving the texts alone is right when no list has a symbol or an expression among its elements -/
theorem txtOK_id (ρ : Str → Str) {ss : List Stmt} (hl : NoPendingLists ss) : TxtOK ρ id ss :=
  txtOK_of_noPending hl (fun _ _ _ => rfl) (fun _ _ _ _ _ => rfl)

theorem RenOK.listsOK {ρ txt : Str → Str} {ss : List Stmt} (h : RenOK ρ ss) (ht : TxtOK ρ txt ss) :
    Rename.ListsOK (textRen ρ txt) (allNames ss) ss :=
  fun x hx s hs hl => Rename.listRn_simple ρ (textRen ρ txt) rfl (allNames ss) (ht.2 x hx s hs hl)
    (h.lists x hx s hs hl)
    (fun _ he _ hy => List.mem_append.mpr (.inr (Rename.mem_listNames hx hs hl he hy)))

/-- the side conditions in their first form (injective on `progNames`, lists of literals) give `RenOK` -/
theorem RenOK.of_noPending {ρ : Str → Str} {ss : List Stmt} (inj : Rename.InjOn ρ (Rename.progNames ss))
    (label : ∀ s ∈ ss, s.label ≠ [] → ρ s.label ≠ [])
    (left : ∀ s ∈ ss, ∀ l, s.operand.left = .text l →
      s.row.isStringDefine = false ∧ Rename.SimpleLeft l = true ∧ ∀ x ∈ Rename.leftNames l, Rename.GoodName x (ρ x))
    (lists : NoPendingLists ss) : RenOK ρ ss := by
  refine ⟨?_, label, left, listsSimple_of_noPending ρ lists⟩
  have hn := Rename.listNames_lit lists
  intro x hx y hy
  rcases List.mem_append.mp hx with hx | hx
  · rcases List.mem_append.mp hy with hy | hy
    · exact inj x hx y hy
    · exact absurd hy (hn y)
  · exact absurd hx (hn x)

/-- the statements of `ss` meet what the back end lemmas ask -/
theorem RenOK.stmtOK {ρ txt : Str → Str} {ss : List Stmt} (h : RenOK ρ ss) (ht : TxtOK ρ txt ss) :
    ∀ s ∈ ss, Rename.StmtOK (textRen ρ txt) s := by
  intro s hs
  refine ⟨?_, ht.1 s hs, h.label s hs⟩
  cases hl : s.operand.left with
  | text l =>
    obtain ⟨h1, h2, h3⟩ := h.left s hs l hl
    exact Rename.leftOK_simple ρ (textRen ρ txt) rfl rfl s.row h1 h2 h3
  | _ => trivial

/-- a uniform, stronger form of the side conditions: every name that occurs is renamed to a symbol, no name but `A`,
`B`, `D` to one of these, injectively; index left parts are simple -/
theorem RenOK.of_uniform {ρ : Str → Str} {ss : List Stmt} (hinj : Rename.InjOn ρ (Rename.progNames ss))
    (hgood : ∀ x ∈ Rename.progNames ss, Rename.GoodName x (ρ x))
    (hleft : ∀ s ∈ ss, ∀ l, s.operand.left = .text l → s.row.isStringDefine = false ∧ Rename.SimpleLeft l = true)
    (hlists : NoPendingLists ss) :
    RenOK ρ ss := by
  refine RenOK.of_noPending hinj ?_ ?_ hlists
  · intro s hs hl
    have hm : s.label ∈ Rename.progNames ss :=
      List.mem_flatMap.mpr ⟨s, hs, by simp [Rename.stmtNames, hl]⟩
    have := (hgood _ hm).1
    intro hc; rw [hc] at this; cases this
  · intro s hs l hl
    obtain ⟨h1, h2⟩ := hleft s hs l hl
    refine ⟨h1, h2, ?_⟩
    intro x hx
    apply hgood
    refine List.mem_flatMap.mpr ⟨s, hs, ?_⟩
    have := Rename.sideSyms_simple s.row h1 h2 x hx
    simp only [Rename.stmtNames, List.mem_append]
    right; rw [hl]; exact this

/-- `RenOK.of_uniform` with jump tables: every name that occurs (list elements included) is renamed to a symbol, no name
but `A`, `B`, `D` to one of these, injectively; index left parts and the evaluated list elements are simple -/
theorem RenOK.of_uniform_lists {ρ : Str → Str} {ss : List Stmt} (hinj : Rename.InjOn ρ (allNames ss))
    (hgood : ∀ x ∈ allNames ss, Rename.GoodName x (ρ x))
    (hleft : ∀ s ∈ ss, ∀ l, s.operand.left = .text l → s.row.isStringDefine = false ∧ Rename.SimpleLeft l = true)
    (hlists : ∀ x, Rename.preLists ss = some x → ∀ s ∈ x, Rename.isList s.pkg.additional = true →
      ∀ e ∈ listElems s.operand.text, Rename.pendingAny e = true → isABD e = false ∧ Rename.SimpleLeft e = true) :
    RenOK ρ ss := by
  refine ⟨hinj, ?_, ?_, ?_⟩
  · intro s hs hl
    have hm : s.label ∈ allNames ss :=
      List.mem_append.mpr (.inl (List.mem_flatMap.mpr ⟨s, hs, by simp [Rename.stmtNames, hl]⟩))
    have := (hgood _ hm).1
    intro hc; rw [hc] at this; cases this
  · intro s hs l hl
    obtain ⟨h1, h2⟩ := hleft s hs l hl
    refine ⟨h1, h2, ?_⟩
    intro x hx
    apply hgood
    refine List.mem_append.mpr (.inl (List.mem_flatMap.mpr ⟨s, hs, ?_⟩))
    have := Rename.sideSyms_simple s.row h1 h2 x hx
    simp only [Rename.stmtNames, List.mem_append]
    right; rw [hl]; exact this
  · intro x hx s hs hl e he hp
    obtain ⟨h1, h2⟩ := hlists x hx s hs hl e he hp
    refine ⟨h1, h2, ?_⟩
    intro y hy
    apply hgood
    exact List.mem_append.mpr (.inr (Rename.mem_listNames hx hs hl he (by simp [Rename.elemNames, hp, hy])))

/-! ## the theorem -/

/-- C18-R2 for the back end, the operand texts renamed by `txt` as well (what parsing a renamed source gives) -/
theorem C18_R2_back_text (ρ txt : Str → Str) (ss : List Stmt) (h : RenOK ρ ss) (ht : TxtOK ρ txt ss) :
    back (ss.map (Rename.renameStmt (textRen ρ txt))) = (back ss).map (Rename.rnAssembly (textRen ρ txt)) :=
  Rename.back_rn ss (allNames ss) h.inj
    (fun s hs x hx => List.mem_append.mpr (.inl (List.mem_flatMap.mpr ⟨s, hs, hx⟩))) (h.stmtOK ht) (h.listsOK ht)

/-- C18-R2 for the back end: renaming the statements renames the assembly and nothing else. (`renameStmt` leaves the
operand texts alone, hence `NoPendingLists`: with a jump table `FDB L1,L2` use `C18_R2_back_text`.) -/
theorem C18_R2_back (ρ : Str → Str) (ss : List Stmt) (h : RenOK ρ ss) (hl : NoPendingLists ss) :
    back (ss.map (renameStmt ρ)) = (back ss).map (Rename.rnAssembly (symRen ρ)) :=
  C18_R2_back_text ρ id ss h (txtOK_id ρ hl)

/-- what the renamed assembly `a'` has in common with `a` -/
def SameButNames (ρ : Str → Str) (a a' : Assembly) : Prop :=
  a'.stmts.length = a.stmts.length ∧
  (∀ (i : Nat) (s s' : Stmt), a.stmts[i]? = some s → a'.stmts[i]? = some s' →
    s'.pkg = { s.pkg with additional := rnV ρ s.pkg.additional } ∧
    (Rename.nameFree s.pkg.additional = true → s'.pkg = s.pkg) ∧
    s'.pkg.address = s.pkg.address ∧ s'.pkg.size = s.pkg.size ∧ stmtBytes s' = stmtBytes s ∧
    s'.row = s.row ∧ s'.label = (if s.label = [] then [] else ρ s.label)) ∧
  a'.image = a.image ∧ a'.origin = a.origin ∧
  a'.symtab = a.symtab.map (fun kv => (ρ kv.1, rnV ρ kv.2)) ∧
  (∀ k v, (k, v) ∈ a.symtab → v.isNumeric = true → (ρ k, v) ∈ a'.symtab)

theorem sameButNames_rnAssembly (ρ txt : Str → Str) {ss : List Stmt} {a : Assembly} (ha : back ss = .ok a) :
    SameButNames ρ a (Rename.rnAssembly (textRen ρ txt) a) := by
  refine ⟨by simp [Rename.rnAssembly], ?_, Rename.image_rn a, ?_, ?_, ?_⟩
  · intro i s s' hs hs'
    have hmem : s ∈ a.stmts := List.mem_of_getElem? hs
    have haddr := Rename.back_addr_numeric ha s hmem
    have e : s' = Rename.rnStmt (textRen ρ txt) s := by
      have : (Rename.rnAssembly (textRen ρ txt) a).stmts[i]? = some (Rename.rnStmt (textRen ρ txt) s) := by
        simp [Rename.rnAssembly, hs]
      rw [this] at hs'
      exact (Option.some.inj hs').symm
    subst e
    have hpkg : (Rename.rnStmt (textRen ρ txt) s).pkg = { s.pkg with additional := rnV ρ s.pkg.additional } := by
      show Rename.rnPkg (textRen ρ txt) s.pkg = _
      simp only [Rename.rnPkg, Rename.rnValue_of_numeric haddr, rnValue_textRen]
    refine ⟨hpkg, ?_, ?_, rfl, Rename.stmtBytes_rn s, rfl, rfl⟩
    · intro hnf
      rw [hpkg, show rnV ρ s.pkg.additional = s.pkg.additional from Rename.rnValue_nameFree hnf]
    · rw [hpkg]
  · show Rename.rnValue (textRen ρ txt) a.origin = a.origin
    rcases Rename.back_origin_numeric ha with h0 | h0
    · rw [h0]; rfl
    · exact Rename.rnValue_of_numeric h0
  · show Rename.rnTab (textRen ρ txt) a.symtab = _
    unfold Rename.rnTab
    apply List.map_congr_left
    intro kv _
    show (ρ kv.1, Rename.rnValue (textRen ρ txt) kv.2) = _
    rw [rnValue_textRen]
  · intro k v hkv hn
    show (ρ k, v) ∈ Rename.rnTab (textRen ρ txt) a.symtab
    have : (ρ k, v) = (fun kv : Str × Value => ((textRen ρ txt).sym kv.1, Rename.rnValue (textRen ρ txt) kv.2)) (k, v) := by
      show (ρ k, v) = (ρ k, Rename.rnValue (textRen ρ txt) v)
      rw [Rename.rnValue_of_numeric hn]
    rw [this]
    exact List.mem_map_of_mem hkv

/-- C18-R2 in plain terms, the operand texts renamed by `txt` as well -/
theorem C18_R2_full_text (ρ txt : Str → Str) (ss : List Stmt) (h : RenOK ρ ss) (ht : TxtOK ρ txt ss) :
    (back (ss.map (Rename.renameStmt (textRen ρ txt)))).kind = (back ss).kind ∧
    ∀ a, back ss = .ok a →
      ∃ a', back (ss.map (Rename.renameStmt (textRen ρ txt))) = .ok a' ∧ SameButNames ρ a a' ∧
        a'.name = a.name.map txt := by
  have hb := C18_R2_back_text ρ txt ss h ht
  refine ⟨by rw [hb]; cases back ss <;> rfl, ?_⟩
  intro a ha
  rw [ha] at hb
  exact ⟨_, hb, sameButNames_rnAssembly ρ txt ha, rfl⟩

/-- C18-R2 in plain terms. For a renaming `ρ` that satisfies `RenOK` on the statements `ss`:
the renamed program has the same kind of outcome; when `ss` assembles to `a`, the renamed statements assemble to an
`a'` with (`SameButNames`) the same number of statements and, statement by statement, the same code package but for the
names left in the operand field (`s'.pkg.additional = rnV ρ s.pkg.additional`; equal packages when there are none),
hence the same op code, post byte, size, ADDRESS and BYTES; the image and the origin are the same; the symbol table has
the renamed keys and the values `rnV ρ v` — the same numbers. -/
theorem C18_R2_full (ρ : Str → Str) (ss : List Stmt) (h : RenOK ρ ss) (hl : NoPendingLists ss) :
    (back (ss.map (renameStmt ρ))).kind = (back ss).kind ∧
    ∀ a, back ss = .ok a →
      ∃ a', back (ss.map (renameStmt ρ)) = .ok a' ∧ SameButNames ρ a a' ∧ a'.name = a.name := by
  obtain ⟨h1, h2⟩ := C18_R2_full_text ρ id ss h (txtOK_id ρ hl)
  refine ⟨h1, ?_⟩
  intro a ha
  obtain ⟨a', h3, h4, h5⟩ := h2 a ha
  refine ⟨a', h3, h4, ?_⟩
  rw [h5]; cases a.name <;> rfl

/-- when the symbol table of `a` holds numbers only (labels, EQUs that could be evaluated), the renamed table is the old
one with renamed keys -/
theorem C18_R2_symtab (ρ : Str → Str) (ss : List Stmt) (h : RenOK ρ ss) (hl : NoPendingLists ss) (a : Assembly)
    (ha : back ss = .ok a)
    (hnum : ∀ kv ∈ a.symtab, kv.2.isNumeric = true) :
    ∃ a', back (ss.map (renameStmt ρ)) = .ok a' ∧ a'.symtab = a.symtab.map (fun kv => (ρ kv.1, kv.2)) := by
  obtain ⟨a', ha', ⟨_, _, _, _, hsym, _⟩, _⟩ := (C18_R2_full ρ ss h hl).2 a ha
  refine ⟨a', ha', ?_⟩
  rw [hsym]
  apply List.map_congr_left
  intro kv hkv
  show (ρ kv.1, Rename.rnValue (symRen ρ) kv.2) = (ρ kv.1, kv.2)
  rw [Rename.rnValue_of_numeric (hnum kv hkv)]

/-- the same for source programs whose expanded statement lists are renamings of each other (this corollary is the
only statement in this file about `front` / `assemble`; it uses nothing but `assemble_eq`) -/
theorem C18_R2_assemble (ρ : Str → Str) (fs : Files) (la lb : List Str) (pa : List Stmt)
    (hfa : front fs la = .ok pa) (hfb : front fs lb = .ok (pa.map (renameStmt ρ))) (h : RenOK ρ pa)
    (hl : NoPendingLists pa) :
    assemble fs lb = (assemble fs la).map (Rename.rnAssembly (symRen ρ)) := by
  rw [assemble_eq, assemble_eq, hfa, hfb]
  exact C18_R2_back ρ pa h hl

/-! ## an executable form of the side conditions -/

def injOnB (f : Str → Str) (N : List Str) : Bool := N.all (fun x => N.all (fun y => f x != f y || x == y))

def goodNameB (x y : Str) : Bool := Rename.isSymName y && (isABD x || !isABD y)

def leftOKb (ρ : Str → Str) (s : Stmt) : Bool :=
  match s.operand.left with
  | .text l => !s.row.isStringDefine && Rename.SimpleLeft l && (Rename.leftNames l).all (fun x => goodNameB x (ρ x))
  | _ => true

/-- every statement that reaches the list pass with a byte / word list satisfies `p` -/
def listsAllB (ss : List Stmt) (p : Stmt → Bool) : Bool :=
  match Rename.preLists ss with
  | none => true
  | some x => x.all (fun s => !Rename.isList s.pkg.additional || p s)

theorem listsAllB_spec {ss : List Stmt} {p : Stmt → Bool} (h : listsAllB ss p = true) :
    ∀ x, Rename.preLists ss = some x → ∀ s ∈ x, Rename.isList s.pkg.additional = true → p s = true := by
  intro x hx s hs hl
  unfold listsAllB at h
  rw [hx] at h
  have := List.all_eq_true.mp h s hs
  rw [hl] at this
  simpa using this

def noPendingListsB (ss : List Stmt) : Bool := listsAllB ss (fun s => Rename.litElems s.operand.text)

theorem noPendingLists_of_check {ss : List Stmt} (h : noPendingListsB ss = true) : NoPendingLists ss :=
  listsAllB_spec h

def elemSimpleB (ρ : Str → Str) (e : Str) : Bool :=
  !Rename.pendingAny e ||
    (!isABD e && Rename.SimpleLeft e && (Rename.leftNames e).all (fun y => goodNameB y (ρ y)))

theorem goodName_of_check {x y : Str} (hg : goodNameB x y = true) : Rename.GoodName x y := by
  simp only [goodNameB, Bool.and_eq_true, Bool.or_eq_true, Bool.not_eq_true'] at hg
  refine ⟨hg.1, ?_⟩
  intro hx0
  rcases hg.2 with h | h
  · rw [hx0] at h; cases h
  · exact h

theorem elemSimple_of_check {ρ : Str → Str} {e : Str} (h : elemSimpleB ρ e = true) : Rename.ElemSimple ρ e := by
  intro hp
  simp only [elemSimpleB, hp, Bool.not_true, Bool.false_or, Bool.and_eq_true, Bool.not_eq_true',
    List.all_eq_true] at h
  exact ⟨h.1.1, h.1.2, fun y hy => goodName_of_check (h.2 y hy)⟩

def listsSimpleB (ρ : Str → Str) (ss : List Stmt) : Bool :=
  listsAllB ss (fun s => (listElems s.operand.text).all (elemSimpleB ρ))

theorem listsSimple_of_check {ρ : Str → Str} {ss : List Stmt} (h : listsSimpleB ρ ss = true) : ListsSimple ρ ss :=
  fun x hx s hs hl e he => elemSimple_of_check (List.all_eq_true.mp (listsAllB_spec h x hx s hs hl) e he)

def renOKb (ρ : Str → Str) (ss : List Stmt) : Bool :=
  injOnB ρ (allNames ss) && ss.all (fun s => (s.label.isEmpty || !(ρ s.label).isEmpty) && leftOKb ρ s) &&
    listsSimpleB ρ ss

theorem renOK_of_check {ρ : Str → Str} {ss : List Stmt} (h : renOKb ρ ss = true) : RenOK ρ ss := by
  simp only [renOKb, Bool.and_eq_true, List.all_eq_true] at h
  obtain ⟨⟨h1, h2⟩, h4⟩ := h
  refine ⟨?_, ?_, ?_, listsSimple_of_check h4⟩
  · intro x hx y hy he
    have := h1
    simp only [injOnB, List.all_eq_true, Bool.or_eq_true, bne_iff_ne, beq_iff_eq] at this
    rcases this x hx y hy with h | h
    · exact absurd he h
    · exact h
  · intro s hs hl hc
    have := (h2 s hs).1
    rw [hc] at this
    simp only [List.isEmpty_nil, Bool.not_true, Bool.or_false] at this
    cases hs' : s.label with
    | nil => exact hl hs'
    | cons c t => rw [hs'] at this; cases this
  · intro s hs l hl
    have := (h2 s hs).2
    simp only [leftOKb, hl, Bool.and_eq_true, Bool.not_eq_true', List.all_eq_true] at this
    refine ⟨this.1.1, this.1.2, ?_⟩
    intro x hx
    exact goodName_of_check (this.2 x hx)

/-! ## lifting to source texts by a check

Parsing a renamed source line gives the renamed statement with the operand TEXT renamed as well. For two concrete
statement lists this is decidable: `renamedTextB ρ pa pb` checks the side conditions and that `pb` is `pa` renamed, the
operand texts of `pb` being read off as a function of those of `pa`. -/

deriving instance DecidableEq for Value
deriving instance DecidableEq for Side
deriving instance DecidableEq for Operand
deriving instance DecidableEq for Pkg
deriving instance DecidableEq for Stmt

/-- a finite map as a function (the identity elsewhere) -/
def tableFn (t : List (Str × Str)) (x : Str) : Str := match t.find? (·.1 == x) with | some p => p.2 | none => x

/-- the operand texts of `pb` as a function of the operand texts of `pa` -/
def txtOf (pa pb : List Stmt) : Str → Str :=
  tableFn ((pa.zip pb).flatMap (fun p => [(p.1.operand.text, p.2.operand.text), (p.1.origText, p.2.origText)]))

/-- `pb` is `pa` with labels, symbols and operand texts renamed, and `ρ` satisfies the side conditions on `pa` -/
def renamedTextB (ρ : Str → Str) (pa pb : List Stmt) : Bool :=
  renOKb ρ pa && decide (pb = pa.map (Rename.renameStmt (textRen ρ (txtOf pa pb)))) &&
    pa.all (fun s => s.operand.kind != .special || txtOf pa pb s.operand.text == s.operand.text) &&
    listsAllB pa (fun s => listElems (txtOf pa pb s.operand.text)
      == (listElems s.operand.text).map (Rename.renameElemText ρ))

/-- C18-R2 for two statement lists that pass the check (e.g. the parsed forms of a source and of its textual renaming) -/
theorem C18_R2_text_check (ρ : Str → Str) (pa pb : List Stmt) (h : renamedTextB ρ pa pb = true) :
    (back pb).kind = (back pa).kind ∧ ∀ a, back pa = .ok a → ∃ b, back pb = .ok b ∧ SameButNames ρ a b := by
  simp only [renamedTextB, Bool.and_eq_true, decide_eq_true_eq, List.all_eq_true, Bool.or_eq_true, bne_iff_ne,
    beq_iff_eq] at h
  obtain ⟨⟨⟨h1, h2⟩, h3⟩, h5⟩ := h
  have ht : TxtOK ρ (txtOf pa pb) pa := by
    refine ⟨?_, ?_⟩
    · intro s hs hk
      rcases h3 s hs with h | h
      · exact absurd hk h
      · exact h
    · intro x hx s hs hl
      simpa using listsAllB_spec h5 x hx s hs hl
  obtain ⟨k1, k2⟩ := C18_R2_full_text ρ (txtOf pa pb) pa (renOK_of_check h1) ht
  rw [← h2] at k1 k2
  refine ⟨k1, ?_⟩
  intro a ha
  obtain ⟨b, hb, hs, _⟩ := k2 a ha
  exact ⟨b, hb, hs⟩

/-! ## a kernel-checked witness -/

/-- the witness program: labels in immediate, indexed-offset (`L,X`, `L+1,Y`), PCR (forward and backward), `[L,X]`, `[L]`,
extended, branch (short and long) positions, in data directives and EQUs -/
def progRA : List Str := [
  "        ORG $3000\n",
  "START   LDX #TABLE\n",
  "LOOP    LDA TABLE,X\n",
  "        LDB TABLE+1,Y\n",
  "        LEAX DATA,PCR\n",
  "        LEAY LOOP,PCR\n",
  "        LDA [PTR,X]\n",
  "        LDA [PTR]\n",
  "        STA COUNT\n",
  "        LDA #SIZE\n",
  "        ADDA #SIZE+1\n",
  "        LDA B,X\n",
  "        BNE LOOP\n",
  "        LBRA DONE\n",
  "        JMP START\n",
  "DONE    RTS\n",
  "COUNT   FCB 0\n",
  "TABLE   FDB START\n",
  "PTR     FDB TABLE+2\n",
  "DATA    FCB SIZE\n",
  "SIZE    EQU 4\n",
  "LAST    EQU DATA-START\n"].map String.toList

/-- the same program with every label renamed: names with `_` and `@`, and names that look like registers -/
def progRB : List Str := [
  "        ORG $3000\n",
  "ST_1    LDX #AB\n",
  "LOOP@   LDA AB,X\n",
  "        LDB AB+1,Y\n",
  "        LEAX DA,PCR\n",
  "        LEAY LOOP@,PCR\n",
  "        LDA [P@2,X]\n",
  "        LDA [P@2]\n",
  "        STA XY\n",
  "        LDA #PCR\n",
  "        ADDA #PCR+1\n",
  "        LDA B,X\n",
  "        BNE LOOP@\n",
  "        LBRA D_ONE\n",
  "        JMP ST_1\n",
  "D_ONE   RTS\n",
  "XY      FCB 0\n",
  "AB      FDB ST_1\n",
  "P@2     FDB AB+2\n",
  "DA      FCB PCR\n",
  "PCR     EQU 4\n",
  "_Z      EQU DA-ST_1\n"].map String.toList

def renW : List (Str × Str) :=
  [("START", "ST_1"), ("LOOP", "LOOP@"), ("DONE", "D_ONE"), ("COUNT", "XY"), ("TABLE", "AB"), ("PTR", "P@2"),
   ("DATA", "DA"), ("SIZE", "PCR"), ("LAST", "_Z")].map (fun p => (p.1.toList, p.2.toList))

/-- the renaming of the witness: the identity on every other string -/
def ρW (x : Str) : Str := match renW.find? (·.1 == x) with | some p => p.2 | none => x

def imageW : Bytes :=
  [142, 48, 44, 166, 137, 48, 44, 230, 169, 48, 45, 48, 140, 34, 49, 140, 242, 166, 153, 48, 46, 166, 159, 48, 46,
   183, 48, 43, 134, 4, 139, 5, 166, 133, 38, 223, 22, 0, 3, 126, 48, 0, 57, 0, 48, 0, 48, 46, 4]

def symtabW : SymTab :=
  [("START".toList, .numeric 12288 none .extended false), ("LOOP".toList, .numeric 12291 none .extended false),
   ("DONE".toList, .numeric 12330 none .extended false), ("COUNT".toList, .numeric 12331 none .extended false),
   ("TABLE".toList, .numeric 12332 none .extended false), ("PTR".toList, .numeric 12334 none .extended false),
   ("DATA".toList, .numeric 12336 none .extended false), ("SIZE".toList, .numeric 4 (some 4) .extended false),
   ("LAST".toList, .numeric 48 (some 4) .extended false)]

/-- forget the texts that only the listing shows -/
def eraseText (s : Stmt) : Stmt := { s with origText := [], operand := { s.operand with text := [] } }

def parsedOf (ls : List Str) : List Stmt := match parseLines ls with | .ok p => p | _ => []

theorem plainCheckB_parts {ls : List Str} {check : Assembly → Bool} (h : plainCheckB ls check = true) :
    parseLines ls = .ok (parsedOf ls) ∧ ∃ A, back (parsedOf ls) = .ok A ∧ check A = true := by
  unfold plainCheckB at h
  unfold parsedOf
  cases hp : parseLines ls with
  | ok p =>
    rw [hp] at h
    simp only [Bool.and_eq_true] at h
    refine ⟨rfl, ?_⟩
    cases hb : back p with
    | ok A => rw [hb] at h; exact ⟨A, rfl, h.2⟩
    | _ => rw [hb] at h; simp at h
  | _ => rw [hp] at h; cases h

set_option maxRecDepth 1000000 in
theorem progRA_check : plainCheckB progRA (fun a => decide (a.image = some imageW ∧ a.symtab = symtabW)) = true := by
  decide +kernel

set_option maxRecDepth 1000000 in
theorem progRB_check : plainCheckB progRB (fun a => decide (a.image = some imageW ∧
    a.symtab = symtabW.map (fun kv => (ρW kv.1, kv.2)))) = true := by
  decide +kernel

/-- the side conditions of the theorem hold for the witness -/
theorem progRA_renOK : RenOK ρW (parsedOf progRA) :=
  renOK_of_check (by set_option maxRecDepth 1000000 in decide +kernel)

/-- no statement of the witness reaches the list pass as a byte / word list with a symbol or an expression in it
(`FDB START`, `FDB TABLE+2` are single values, not lists) -/
theorem progRA_noPending : NoPendingLists (parsedOf progRA) :=
  noPendingLists_of_check (by set_option maxRecDepth 1000000 in decide +kernel)

/-- parsing the renamed TEXT gives the renamed STATEMENTS (up to the operand text the listing shows) -/
theorem progR_parsed : (parsedOf progRB).map eraseText = ((parsedOf progRA).map (renameStmt ρW)).map eraseText := by
  set_option maxRecDepth 1000000 in decide +kernel

/-- the textual renaming of the witness passes the check of `C18_R2_text_check`: the THEOREM applies to the two parsed
sources -/
theorem progR_renamedText : renamedTextB ρW (parsedOf progRA) (parsedOf progRB) = true := by
  set_option maxRecDepth 1000000 in decide +kernel

/-- the witness at the level of `back`: both texts parse, the second parses to the renaming of the first, the side
conditions hold, both assemble to the same image, the second symbol table is the first with renamed keys, and this
is what `C18_R2_full` says about the renamed statements -/
theorem C18_R2_witness :
    ∃ A B, parseLines progRA = .ok (parsedOf progRA) ∧ parseLines progRB = .ok (parsedOf progRB) ∧
      (parsedOf progRB).map eraseText = ((parsedOf progRA).map (renameStmt ρW)).map eraseText ∧
      RenOK ρW (parsedOf progRA) ∧
      back (parsedOf progRA) = .ok A ∧ back (parsedOf progRB) = .ok B ∧
      A.image = some imageW ∧ B.image = A.image ∧ A.symtab = symtabW ∧
      B.symtab = A.symtab.map (fun kv => (ρW kv.1, kv.2)) ∧
      ∃ A', back ((parsedOf progRA).map (renameStmt ρW)) = .ok A' ∧ A'.image = B.image ∧ A'.symtab = B.symtab := by
  obtain ⟨hpa, A, hA, hcA⟩ := plainCheckB_parts progRA_check
  obtain ⟨hpb, B, hB, hcB⟩ := plainCheckB_parts progRB_check
  have hcA' := of_decide_eq_true hcA
  have hcB' := of_decide_eq_true hcB
  refine ⟨A, B, hpa, hpb, progR_parsed, progRA_renOK, hA, hB, hcA'.1, by rw [hcB'.1, hcA'.1], hcA'.2,
    by rw [hcB'.2, hcA'.2], ?_⟩
  have hnum : ∀ kv ∈ A.symtab, kv.2.isNumeric = true := by
    rw [hcA'.2]; decide
  obtain ⟨A', hA', ⟨_, _, himg, _, _, _⟩, _⟩ := (C18_R2_full ρW _ progRA_renOK progRA_noPending).2 A hA
  obtain ⟨A'', hA'', hsym⟩ := C18_R2_symtab ρW _ progRA_renOK progRA_noPending A hA hnum
  rw [hA'] at hA''
  cases hA''
  exact ⟨A', hA', by rw [himg, hcA'.1, hcB'.1], by rw [hsym, hcB'.2, hcA'.2]⟩

/-- the witness at the level of source texts -/
theorem C18_R2_witness_assemble (fs : Files) :
    ∃ A B, assemble fs progRA = .ok A ∧ assemble fs progRB = .ok B ∧ A.image = some imageW ∧ B.image = A.image ∧
      B.symtab = A.symtab.map (fun kv => (ρW kv.1, kv.2)) := by
  obtain ⟨A, hA, hcA⟩ := assemble_of_plainCheckB (fs := fs) progRA_check
  obtain ⟨B, hB, hcB⟩ := assemble_of_plainCheckB (fs := fs) progRB_check
  have hcA' := of_decide_eq_true hcA
  have hcB' := of_decide_eq_true hcB
  exact ⟨A, B, hA, hB, hcA'.1, by rw [hcB'.1, hcA'.1], by rw [hcB'.2, hcA'.2]⟩

/-! ## a witness with FCB / FDB lists (batch 8)

The lists of this program are lists of literals: the side condition `RenOK.lists` (`NoPendingLists`) holds, two
statements reach the list pass as lists, and the theorem applies to the parsed source and its textual renaming. -/

def progLA : List Str := [
  "        ORG $3000\n",
  "START   LDX #TAB\n",
  "        JMP START\n",
  "TAB     FCB 1,2,$FF\n",
  "WORDS   FDB 10,$1234\n"].map String.toList

def progLB : List Str := [
  "        ORG $3000\n",
  "GO      LDX #T_1\n",
  "        JMP GO\n",
  "T_1     FCB 1,2,$FF\n",
  "W@      FDB 10,$1234\n"].map String.toList

def renL : List (Str × Str) :=
  [("START", "GO"), ("TAB", "T_1"), ("WORDS", "W@")].map (fun p => (p.1.toList, p.2.toList))

def ρL (x : Str) : Str := match renL.find? (·.1 == x) with | some p => p.2 | none => x

def imageL : Bytes := [142, 48, 6, 126, 48, 0, 1, 2, 255, 0, 10, 18, 52]

set_option maxRecDepth 1000000 in
theorem progLA_check : plainCheckB progLA (fun a => decide (a.image = some imageL)) = true := by
  decide +kernel

set_option maxRecDepth 1000000 in
theorem progL_renamedText : renamedTextB ρL (parsedOf progLA) (parsedOf progLB) = true := by
  decide +kernel

set_option maxRecDepth 1000000 in
/-- two statements of the witness reach the list pass as byte / word lists -/
theorem progLA_lists : (match Rename.preLists (parsedOf progLA) with
    | some x => (x.filter (fun s => Rename.isList s.pkg.additional)).length
    | none => 0) = 2 := by
  decide +kernel

/-- C18-R2 on a program with literal FCB / FDB lists: the side conditions (with `NoPendingLists`) hold, and the renamed
source assembles to the same image -/
theorem C18_R2_witness_lists :
    RenOK ρL (parsedOf progLA) ∧
    ∃ A B, back (parsedOf progLA) = .ok A ∧ back (parsedOf progLB) = .ok B ∧ SameButNames ρL A B ∧
      A.image = some imageL ∧ B.image = some imageL := by
  obtain ⟨_, A, hA, hcA⟩ := plainCheckB_parts progLA_check
  have hcA' := of_decide_eq_true hcA
  have hr : RenOK ρL (parsedOf progLA) := by
    have h := progL_renamedText
    simp only [renamedTextB, Bool.and_eq_true] at h
    exact renOK_of_check h.1.1.1
  obtain ⟨B, hB, hs⟩ := (C18_R2_text_check ρL _ _ progL_renamedText).2 A hA
  exact ⟨hr, A, B, hA, hB, hs, hcA', by rw [hs.2.2.1, hcA']⟩

/-! ## a witness with a jump table (batch 8, generalised)

`T FDB L1,L2,T,L1+1`: the elements of the list are labels and a label expression; they are evaluated from the operand
TEXT, which the textual renaming renames element by element. `NoPendingLists` fails, `RenOK` (with `ListsSimple`) and
the check of `C18_R2_text_check` hold: the theorem applies. -/

def progJA : List Str := [
  "        ORG $1000\n",
  "T       FDB L1,L2,T,L1+1\n",
  "L1      NOP\n",
  "L2      RTS\n"].map String.toList

def progJB : List Str := [
  "        ORG $1000\n",
  "TBL     FDB ST_1,AB,TBL,ST_1+1\n",
  "ST_1    NOP\n",
  "AB      RTS\n"].map String.toList

def renJ : List (Str × Str) :=
  [("T", "TBL"), ("L1", "ST_1"), ("L2", "AB")].map (fun p => (p.1.toList, p.2.toList))

def ρJ (x : Str) : Str := match renJ.find? (·.1 == x) with | some p => p.2 | none => x

def imageJ : Bytes := [16, 8, 16, 9, 16, 0, 16, 9, 18, 57]

def symtabJ : SymTab :=
  [("T".toList, .numeric 4096 none .extended false), ("L1".toList, .numeric 4104 none .extended false),
   ("L2".toList, .numeric 4105 none .extended false)]

set_option maxRecDepth 1000000 in
theorem progJA_check : plainCheckB progJA (fun a => decide (a.image = some imageJ ∧ a.symtab = symtabJ)) = true := by
  decide +kernel

set_option maxRecDepth 1000000 in
theorem progJB_check : plainCheckB progJB (fun a => decide (a.image = some imageJ ∧
    a.symtab = symtabJ.map (fun kv => (ρJ kv.1, kv.2)))) = true := by
  decide +kernel

set_option maxRecDepth 1000000 in
/-- the parsed renamed source is the parsed source renamed, the texts of the lists element by element; the side
conditions hold -/
theorem progJ_renamedText : renamedTextB ρJ (parsedOf progJA) (parsedOf progJB) = true := by
  decide +kernel

set_option maxRecDepth 1000000 in
/-- the list of the witness is not a list of literals: the first version of the theorem did not cover it -/
theorem progJA_pending : noPendingListsB (parsedOf progJA) = false := by
  decide +kernel

set_option maxRecDepth 1000000 in
/-- the elements of the list that the list pass evaluates, renamed -/
theorem progJA_elems : (match Rename.preLists (parsedOf progJA) with
    | some x => (x.filter (fun s => Rename.isList s.pkg.additional)).map
        (fun s => (listElems s.operand.text).map (fun e => (Rename.pendingAny e, Rename.renameElemText ρJ e)))
    | none => []) = [[(true, "ST_1".toList), (true, "AB".toList), (true, "TBL".toList), (true, "ST_1+1".toList)]] := by
  decide +kernel

/-- C18-R2 on a program with a jump table: the side conditions (with `ListsSimple`) hold, the renamed source assembles
to the same image, the symbol table is the renamed one -/
theorem C18_R2_witness_jumptable :
    RenOK ρJ (parsedOf progJA) ∧
    ∃ A B, back (parsedOf progJA) = .ok A ∧ back (parsedOf progJB) = .ok B ∧ SameButNames ρJ A B ∧
      A.image = some imageJ ∧ B.image = A.image ∧ A.symtab = symtabJ ∧
      B.symtab = A.symtab.map (fun kv => (ρJ kv.1, kv.2)) := by
  obtain ⟨_, A, hA, hcA⟩ := plainCheckB_parts progJA_check
  obtain ⟨_, B', hB', hcB⟩ := plainCheckB_parts progJB_check
  have hcA' := of_decide_eq_true hcA
  have hcB' := of_decide_eq_true hcB
  have hr : RenOK ρJ (parsedOf progJA) := by
    have h := progJ_renamedText
    simp only [renamedTextB, Bool.and_eq_true] at h
    exact renOK_of_check h.1.1.1
  obtain ⟨B, hB, hs⟩ := (C18_R2_text_check ρJ _ _ progJ_renamedText).2 A hA
  have e : B = B' := by rw [hB] at hB'; exact Outcome.ok.inj hB'
  subst e
  exact ⟨hr, A, B, hA, hB, hs, hcA'.1, by rw [hcB'.1, hcA'.1], hcA'.2, by rw [hcB'.2, hcA'.2]⟩

/-! ## the first formalisation `C18_R2_Statement` (Props/C18.lean) is too loose

`RenamedStmt ρ s t` relates label, row, operand kind, value, left and right part, but NOT the operand text — and the
register lists of PSHS / PULS / EXG / TFR are read from the text (`translateSpecial`). With `ρ` the identity, `PSHS A`
and `PSHS B` are "renamings" of each other and have different post bytes. `C18_R2_full` (with `renameStmt`, which keeps
the operand text, or `C18_R2_full_text` with `TxtOK`) is the repaired statement. -/

instance (ρ : Str → Str) (s t : Stmt) : Decidable (RenamedStmt ρ s t) := by
  unfold RenamedStmt; infer_instance

def r2cexA : List Str := [" PSHS A\n".toList]
def r2cexB : List Str := [" PSHS B\n".toList]

theorem r2cexA_ok : plainCheckB r2cexA (fun a => decide (a.image = some [0x34, 0x02])) = true := by decide +kernel
theorem r2cexB_ok : plainCheckB r2cexB (fun a => decide (a.image = some [0x34, 0x04])) = true := by decide +kernel

theorem r2cex_renamed :
    ((parsedOf r2cexA).zip (parsedOf r2cexB)).all (fun p => decide (RenamedStmt id p.1 p.2)) = true ∧
    (parsedOf r2cexA).length = (parsedOf r2cexB).length ∧
    (parsedOf r2cexA).all (fun s => !s.row.isInclude && s.label.isEmpty) = true := by
  decide +kernel

theorem zip_all_pointwise {α β : Type} {p : α × β → Bool} : ∀ {l : List α} {l' : List β},
    (l.zip l').all p = true → ∀ (i : Nat) (a : α) (b : β), l[i]? = some a → l'[i]? = some b → p (a, b) = true
  | [], _, _, i, a, b, ha, _ => by simp at ha
  | _ :: _, [], _, i, a, b, _, hb => by simp at hb
  | x :: xs, y :: ys, h, i, a, b, ha, hb => by
    simp only [List.zip_cons_cons, List.all_cons, Bool.and_eq_true] at h
    cases i with
    | zero =>
      simp only [List.getElem?_cons_zero, Option.some.injEq] at ha hb
      subst ha; subst hb; exact h.1
    | succ j =>
      simp only [List.getElem?_cons_succ] at ha hb
      exact zip_all_pointwise h.2 j a b ha hb

/-- counterexample: `PSHS A` / `PSHS B` with the identity renaming -/
theorem C18_R2_Statement_false : ¬ C18_R2_Statement := by
  intro h
  obtain ⟨hpa, _, _, _⟩ := plainCheckB_parts r2cexA_ok
  obtain ⟨hpb, _, _, _⟩ := plainCheckB_parts r2cexB_ok
  obtain ⟨A, hA, cA⟩ := assemble_of_plainCheckB (fs := []) r2cexA_ok
  obtain ⟨B, hB, cB⟩ := assemble_of_plainCheckB (fs := []) r2cexB_ok
  obtain ⟨h1, h2, h3⟩ := r2cex_renamed
  simp only [List.all_eq_true, Bool.and_eq_true, Bool.not_eq_true', List.isEmpty_iff] at h3
  have := (h id r2cexA r2cexB _ _ A B hpa hpb (fun s hs => (h3 s hs).1) h2
    (fun i s t hs ht => of_decide_eq_true (zip_all_pointwise h1 i s t hs ht))
    (fun x y hxy => hxy) (fun x _ => rfl) (fun s hs hl => absurd (h3 s hs).2 hl) hA hB).1
  rw [of_decide_eq_true cA, of_decide_eq_true cB] at this
  exact absurd this (by decide)

/-! ## axioms -/

#print axioms C18_R2_back
#print axioms C18_R2_full
#print axioms C18_R2_symtab
#print axioms C18_R2_assemble
#print axioms RenOK.of_uniform
#print axioms renOK_of_check
#print axioms C18_R2_text_check
#print axioms progR_renamedText
#print axioms C18_R2_witness
#print axioms C18_R2_witness_assemble
#print axioms C18_R2_witness_lists
#print axioms C18_R2_back_text
#print axioms C18_R2_full_text
#print axioms RenOK.of_noPending
#print axioms C18_R2_witness_jumptable
#print axioms progJA_pending
#print axioms progJA_elems
#print axioms progLA_lists
#print axioms C18_R2_Statement_false

end CoCo.Props
