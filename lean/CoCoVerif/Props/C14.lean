/-
Props/C14.lean — every cassette image written is a well-formed CoCo tape stream.
Only statements, main theorems and non-vacuity examples live here; helpers are in Lemmas/.
-/
import CoCoVerif.Lemmas.Cassette

namespace CoCo.Props
open CoCo CoCo.Cas CoCo.Spec.Tape

/-- the tape-level view of a stored file -/
def toTape (f : CFile) : Spec.Tape.File :=
  { name := padName f.name, ftype := f.ftype, dtype := f.dtype, gap := 0,
    load := f.load, exec := f.exec, data := f.data }

/-- inputs the writer is specified for: every field fits its width -/
def ValidFile (f : CFile) : Prop :=
  (∀ c ∈ f.name, c < 256) ∧ f.ftype < 256 ∧ f.dtype < 256 ∧ f.load < 65536 ∧ f.exec < 65536 ∧
  (∀ b ∈ f.data, b < 256)

/-- C14 at full strength: for every list of files the image is a well-formed tape stream holding
exactly those files (framing, lengths, checksums, 15-byte name-file payload, ≤255-byte data blocks,
EOF block), and consists of bytes. -/
def C14_Statement : Prop :=
  ∀ fs : List CFile, (∀ f ∈ fs, ValidFile f) →
    WellFormed (fs.map toTape) (Cas.write fs) ∧ (∀ b ∈ Cas.write fs, b < 256)

theorem filler_nil : Filler [] := ⟨0, 0, rfl⟩
theorem filler_gap_leader : Filler (blank ++ leader) := ⟨128, 128, rfl⟩

/-- the data blocks written for `d`, preceded by filler `g`, form a `DataBlocks` derivation -/
theorem dataBlocks_wf (n : Nat) : ∀ (d g : Bytes), d.length ≤ n → d ≠ [] → Filler g →
    DataBlocks d (g ++ dataBlocks d) := by
  induction n with
  | zero => intro d g hl hne; cases d <;> simp_all
  | succ n ih =>
    intro d g hl hne hg
    have hpos : d.length ≠ 0 := by cases d <;> simp_all
    rw [dataBlocks_eq]
    simp only [hpos, if_false]
    split
    · rename_i hlt
      have := DataBlocks.cons (p := d) (d := []) (g := g) (bs := []) (by omega) (by omega) hg DataBlocks.nil
      simpa [block, frame] using this
    · rename_i hge
      have hd : d = d.take 255 ++ d.drop 255 := (List.take_append_drop 255 d).symm
      by_cases hrest : d.drop 255 = []
      · have h1 : dataBlocks (d.drop 255) = [] := by rw [hrest]; rfl
        have htake : d.take 255 = d := by
          have := hd; rw [hrest, List.append_nil] at this; exact this.symm
        have := DataBlocks.cons (p := d) (d := []) (g := g) (bs := []) (by omega)
          (by have := congrArg List.length htake; simp [List.length_take] at this; omega) hg DataBlocks.nil
        rw [h1, htake]
        simpa [block, frame] using this
      · have hlen : (d.drop 255).length ≤ n := by simp [List.length_drop]; omega
        have ih' := ih (d.drop 255) [] hlen hrest filler_nil
        have := DataBlocks.cons (p := d.take 255) (d := d.drop 255) (g := g)
          (bs := [] ++ dataBlocks (d.drop 255))
          (by simp [List.length_take]; omega) (by simp [List.length_take]; omega) hg ih'
        rw [List.take_append_drop] at this
        simpa [block, frame, List.append_assoc] using this

theorem header_eq_frame (f : CFile) : header f = frame 0x00 (namePayload (toTape f)) := by
  have hl : (hdrPayload f).length = 15 := by simp [hdrPayload, padName_length]
  have : namePayload (toTape f) = hdrPayload f := by simp [namePayload, toTape, hdrPayload]
  rw [this]
  simp [header, frame, hl]

theorem fileBytes_stream (f : CFile) : FileStream (toTape f) (fileBytes f) := by
  refine ⟨by simp [toTape, padName_length], ?_⟩
  by_cases hd : f.data = []
  · refine ⟨blank ++ leader, [], blank ++ leader, filler_gap_leader, ?_, filler_gap_leader, ?_⟩
    · simpa [toTape, hd] using DataBlocks.nil
    · have : dataBlocks f.data = [] := by rw [hd]; rfl
      simp [fileBytes, this, header_eq_frame, eof, frame, List.append_assoc]
  · refine ⟨blank ++ leader, (blank ++ leader) ++ dataBlocks f.data, [], filler_gap_leader, ?_, filler_nil, ?_⟩
    · exact dataBlocks_wf f.data.length f.data _ (Nat.le_refl _) hd filler_gap_leader
    · simp [fileBytes, header_eq_frame, eof, frame, List.append_assoc]

theorem block_bytes (p : Bytes) (hp : ∀ b ∈ p, b < 256) (hl : p.length < 256) : ∀ b ∈ block p, b < 256 := by
  simp only [block, List.forall_mem_append, List.forall_mem_cons]
  simp
  exact ⟨⟨hl, hp⟩, Nat.mod_lt _ (by decide)⟩

theorem dataBlocks_bytes (n : Nat) : ∀ d : Bytes, d.length ≤ n → (∀ b ∈ d, b < 256) →
    ∀ b ∈ dataBlocks d, b < 256 := by
  induction n with
  | zero =>
    intro d hl _ b hb
    have : d = [] := by cases d <;> simp_all
    subst this; simp [dataBlocks, dataBlocksF] at hb
  | succ n ih =>
    intro d hl hd b hb
    rw [dataBlocks_eq] at hb
    split at hb
    · simp at hb
    · split at hb
      · exact block_bytes d hd (by omega) b hb
      · rename_i h0 h1
        rcases List.mem_append.mp hb with h | h
        · exact block_bytes _ (fun x hx => hd x (List.mem_of_mem_take hx)) (by simp [List.length_take]; omega) b h
        · exact ih (d.drop 255) (by simp [List.length_drop]; omega)
            (fun x hx => hd x (List.mem_of_mem_drop hx)) b h

theorem fileBytes_bytes (f : CFile) (hv : ValidFile f) : ∀ b ∈ fileBytes f, b < 256 := by
  obtain ⟨hn, ht, hdt, hl, he, hd⟩ := hv
  have hdb := dataBlocks_bytes _ _ (Nat.le_refl _) hd
  simp only [fileBytes, header, hdrPayload, padName, blank, leader, eof, List.forall_mem_append,
    List.forall_mem_cons]
  simp
  exact ⟨⟨⟨fun x hx => hn x (List.mem_of_mem_take hx), ht, hdt, by omega, by omega, by omega, by omega⟩,
    Nat.mod_lt _ (by decide)⟩, hdb⟩

/-- **C14** — proved at full strength. -/
theorem C14_full : C14_Statement := by
  intro fs
  induction fs with
  | nil => intro _; exact ⟨by simpa [write] using WellFormed.nil filler_nil, by simp [write]⟩
  | cons f fs ih =>
    intro hv
    have ih' := ih (fun g hg => hv g (List.mem_cons_of_mem _ hg))
    rw [write_cons]
    refine ⟨WellFormed.cons (fileBytes_stream f) ih'.1, ?_⟩
    intro b hb
    rcases List.mem_append.mp hb with h | h
    · exact fileBytes_bytes f (hv f List.mem_cons_self) b h
    · exact ih'.2 b h

/-- non-vacuity: a concrete two-file list (one with marker-rich data, one empty) meets the hypotheses -/
example : ∀ f ∈ ([{ name := [65, 66], ext := [], ftype := 2, dtype := 0, gaps := 0, load := 0x3F00, exec := 0x3F00,
                     data := [0x55, 0x3C, 0x00, 0xFF] },
                   { name := [], ext := [], ftype := 0, dtype := 0xFF, gaps := 0, load := 0, exec := 0, data := [] }] : List CFile),
    ValidFile f := by
  intro f hf
  simp only [List.mem_cons, List.not_mem_nil, or_false] at hf
  rcases hf with rfl | rfl <;> simp [ValidFile]

end CoCo.Props
