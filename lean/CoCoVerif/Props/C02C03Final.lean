/-
Props/C02C03Final.lean — the full-strength statements of C02 and C03, closed.

`Props/C02Full.lean` and `Props/C03Full.lean` reduce them to the byte-count theorem of `Props/C02Size.lean` and to the
PC-relative width theorem of `Props/C03Width.lean`; this file imports both sides and states the corollaries.
Since fix f9c374f (an ORG after the first label or byte is a diagnostic) no exclusion is left.
-/
import CoCoVerif.Props.C02Full
import CoCoVerif.Props.C03Full
import CoCoVerif.Props.C02Size
import CoCoVerif.Props.C03Width

namespace CoCo.Props
open CoCo CoCo.Asm

/-- **C02 at full strength (restated: `C02_Statement_v2`)**: for every accepted program the image exists and is the
in-order concatenation, addresses form the chain, every statement emits exactly `size` bytes, loading the image at the
reported origin places every statement's bytes at its listing address (`Placement`), every label has the listing address of
its statement, labels are unique, and every EQU symbol has its defined value. -/
theorem C02_full_v2 : C02_Statement_v2 := fun _ _ _ h => C02_v2_of_size h (C02_bytes_eq_size h)

/-- **C03 at full strength**: every branch and every label,PCR operand of every accepted program carries the displacement
that reaches its target from the following instruction, in a field wide enough; no hypothesis about ORG is left. -/
theorem C03_full : C03_Statement :=
  C03_full_of_pcr (fun _ _ _ h _ _ _ _ _ hs hc hl ht _ => C03_pcr_label h hs hc hl ht)

#print axioms C02_full_v2
#print axioms C03_full

end CoCo.Props
