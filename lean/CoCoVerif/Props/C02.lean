/-
Props/C02.lean — layout of an accepted program: addresses form a chain (each statement starts where
the previous one ends, ORG restarts the chain), the image is the concatenation of the statements'
bytes, symbols are bound to the address of the statement that carries the label.
-/
import CoCoVerif.Lemmas.LayoutEval

namespace CoCo.Props
open CoCo CoCo.Asm

/-- (a) the address chain: every statement has a numeric address; a first statement that is not an ORG sits
at 0; a statement that is not an ORG starts where its predecessor ends -/
def AddressChain (a : Assembly) : Prop :=
  (∀ (j : Nat) (s : Stmt), a.stmts[j]? = some s → ∃ x, addrNat s = some x) ∧
  (∀ s : Stmt, a.stmts[0]? = some s → s.row.mnemonic ≠ "ORG" → addrNat s = some 0) ∧
  (∀ (j : Nat) (s t : Stmt), a.stmts[j]? = some s → a.stmts[j + 1]? = some t → t.row.mnemonic ≠ "ORG" →
      addrNat t = (addrNat s).map (· + s.pkg.size))

/-- (b) `get_binary_array` is the concatenation of the bytes of the statements, in order -/
def ImageConcat (a : Assembly) : Prop :=
  ∀ img, a.image = some img → img = (a.stmts.filterMap stmtBytes).flatten

/-- (c) symbols: a label of an ordinary statement is bound to that statement's address, a label of an
EQU-like statement (`isPseudoDefine`) to the operand value; labels are unique -/
def SymbolsBound (a : Assembly) (pseudoHyp : Stmt → Prop) : Prop :=
  (∀ (i : Nat) (s : Stmt), a.stmts[i]? = some s → s.label.isEmpty = false →
      (s.row.isPseudoDefine = false → a.symtab.get? s.label = some s.pkg.address) ∧
      (s.row.isPseudoDefine = true → pseudoHyp s → a.symtab.get? s.label = some s.operand.value)) ∧
  (∀ (i j : Nat) (s t : Stmt), a.stmts[i]? = some s → a.stmts[j]? = some t → s.label.isEmpty = false → s.label = t.label → i = j)

/-- C02 at full strength -/
def C02_Statement : Prop :=
  ∀ (fs : Files) (lines : List Str) (a : Assembly), assemble fs lines = .ok a →
    (∃ img, a.image = some img) ∧ ImageConcat a ∧ AddressChain a ∧
    (∀ s ∈ a.stmts, (stmtBytes s).map List.length = some s.pkg.size) ∧
    (∀ (j : Nat) (s : Stmt), a.stmts[j]? = some s → s.row.mnemonic = "ORG" → j = 0) ∧
    SymbolsBound a (fun _ => True)

/-! ### (a) the chain -/

theorem C02_chain {fs : Files} {lines : List Str} {a : Assembly} (h : assemble fs lines = .ok a) :
    AddressChain a := by
  obtain ⟨st⟩ := assemble_stages h
  have hc := st.chained
  refine ⟨fun j s hs => hc.isSome hs, ?_, ?_⟩
  · intro s hs hm
    exact hc.head hs (st.flag_false hs hm)
  · intro j s t hs ht hm
    exact hc.step hs ht (st.flag_false ht hm)

/-- the telescoping form of the chain: without an ORG in `(lo, hi]`, the distance between two statements
is the sum of the sizes in between -/
theorem C02_telescope {fs : Files} {lines : List Str} {a : Assembly} (h : assemble fs lines = .ok a)
    {lo hi : Nat} (hle : lo ≤ hi) {s t : Stmt} (hs : a.stmts[lo]? = some s) (ht : a.stmts[hi]? = some t)
    (hno : ∀ j u, lo < j → j ≤ hi → a.stmts[j]? = some u → u.row.mnemonic ≠ "ORG")
    {x : Nat} (hx : addrNat s = some x) : addrNat t = some (x + sumSize a.stmts lo hi) := by
  obtain ⟨st⟩ := assemble_stages h
  refine st.chained.telescope hle hs ht ?_ hx
  intro j h1 h2
  have hlen : j < a.stmts.length := by
    have : hi < a.stmts.length := by
      rcases Nat.lt_or_ge hi a.stmts.length with h' | h'
      · exact h'
      · rw [List.getElem?_eq_none_iff.mpr h'] at ht; cases ht
    omega
  have hu := List.getElem?_eq_getElem hlen
  exact st.flag_false hu (hno j _ h1 h2 hu)

/-- the only statements whose address is not dictated by the chain are ORGs whose operand is present:
`translatePseudo` copies the operand value into `pkg.address` -/
theorem C02_org_address (o : Operand) (row : Gen.InstrRow) (p : Pkg) (hk : o.kind = .pseudo)
    (hm : row.mnemonic = "ORG") (h : translateOperand o row = .ok p) : p.address = o.value := by
  unfold translateOperand at h
  rw [hk] at h
  dsimp only at h
  unfold translatePseudo at h
  have e1 : (("ORG" : String) == "FCB") = false := by decide
  have e2 : (("ORG" : String) == "FDB") = false := by decide
  have e3 : (("ORG" : String) == "RMB") = false := by decide
  have e4 : (("ORG" : String) == "ORG") = true := by decide
  simp only [hm, e1, e2, e3, e4, bind, Except.bind, pure, Except.pure, Bool.false_eq_true, if_false, if_true] at h
  repeat' split at h
  all_goals first | (cases h; rfl) | (cases h; done)

/-! ### (b) the image -/

theorem C02_image {fs : Files} {lines : List Str} {a : Assembly} (_h : assemble fs lines = .ok a) :
    ImageConcat a := by
  intro img himg
  obtain ⟨bs, hbs, rfl⟩ := image_eq himg
  rw [(mapM_some hbs).2]

/-- offsets: let `k` be a statement before which nothing is emitted and after which there is no ORG (typically
the initial ORG, `k = 0`). If every statement emits as many bytes as its size, then the bytes of statement
`i ≥ k` start at offset `address i − address k` of the image. -/
theorem C02_offset {fs : Files} {lines : List Str} {a : Assembly} (h : assemble fs lines = .ok a)
    {img : Bytes} (himg : a.image = some img)
    (hsz : ∀ s ∈ a.stmts, (stmtBytes s).map List.length = some s.pkg.size)
    (k : Nat) (hk0 : ∀ j s, j < k → a.stmts[j]? = some s → s.pkg.size = 0)
    (hk1 : ∀ j s, k < j → a.stmts[j]? = some s → s.row.mnemonic ≠ "ORG")
    {i : Nat} (hki : k ≤ i) {sk s : Stmt} (hsk : a.stmts[k]? = some sk) (hs : a.stmts[i]? = some s) :
    ∃ pre b post ak ai, img = pre ++ b ++ post ∧ stmtBytes s = some b ∧
      addrNat sk = some ak ∧ addrNat s = some ai ∧ pre.length + ak = ai := by
  obtain ⟨bs, hbs, rfl⟩ := image_eq himg
  have hpw := (mapM_some hbs).1
  obtain ⟨b, hb, hsb⟩ := hpw.get hs
  obtain ⟨ak, hak⟩ := (C02_chain h).1 k sk hsk
  have hai := C02_telescope h hki hsk hs (fun j u h1 _ hu => hk1 j u h1 hu) hak
  have hlen : i ≤ a.stmts.length := by
    rcases Nat.lt_or_ge i a.stmts.length with h' | h'
    · omega
    · rw [List.getElem?_eq_none_iff.mpr h'] at hs; cases hs
  have hpre := prefix_length hpw hsz k hk0 i hlen
  refine ⟨(bs.take i).flatten, b, (bs.drop (i + 1)).flatten, ak, _, flatten_split hb, hsb, hak, hai, ?_⟩
  rw [hpre]
  by_cases hik : i ≤ k
  · have : i = k := by omega
    subst this; simp [sumSize_self]
  · simp [hik]; omega

/-! ### (c) symbols -/

/-- the instruction table: an EQU-like row is not one of FCB / FDB / RMB / ORG, so its operand is never rewritten -/
theorem pseudoDefine_not_data : ∀ r ∈ Gen.instructions, r.isPseudoDefine = true → isDataRow r = false := by
  decide +kernel

/-- what is needed of an EQU-like statement for "the label keeps the operand value": the operand is a pseudo
operand (always the case for statements produced by `parseLine`) whose value is not a statement index and
(batch 4, fixes 0f280be and d7356d4) not an expression: an EQU defined by an expression is bound to the VALUE of the
expression, see `C02_equ_symbol` and `C02_equ_expression_symbol` below -/
def PseudoValueHyp (s : Stmt) : Prop :=
  s.operand.kind = .pseudo ∧ s.operand.value.isAddress = false ∧
  s.operand.value.isExpression = false ∧ s.operand.value.isAddrExpr = false

theorem not_expr_of_flags {v : Value} (h1 : v.isExpression = false) (h2 : v.isAddrExpr = false) :
    ∀ l r op m ae, v ≠ .expr l r op m ae := by
  intro l r op m ae he
  subst he
  cases ae
  · cases h1
  · cases h2

theorem C02_symbols {fs : Files} {lines : List Str} {a : Assembly} (h : assemble fs lines = .ok a) :
    SymbolsBound a PseudoValueHyp := by
  obtain ⟨st⟩ := assemble_stages h
  obtain ⟨htab, hnodup⟩ := buildSymTab_some st.hsym
  have hnodup := hnodup (by simp [SymTab.keys])
  simp only [List.nil_append] at htab
  have k05 := st.keep05
  refine ⟨?_, ?_⟩
  · intro i s hs hl
    obtain ⟨s0, hs0, hk⟩ := k05.get' hs
    have hl0 : s0.label.isEmpty = false := by rw [← hk.1]; exact hl
    have hmem := symEntries_mem (i := 0) hs0 hl0
    rw [← htab, Nat.zero_add] at hmem
    have hget := get?_of_mem hnodup hmem
    obtain ⟨v1, v', hev, hv', hfin⟩ := st.symtab_get hget
    rw [hk.1]
    constructor
    · intro hpd
      have hpd0 : s0.row.isPseudoDefine = false := by rw [← hk.2]; exact hpd
      simp only [hpd0, Bool.false_eq_true, if_false, evalSym_address, Outcome.ok.injEq] at hev
      subst hev
      simp only [finalVal, addrOf, hs, Option.map_some] at hfin
      rw [hv', ← hfin]
    · intro hpd hph
      obtain ⟨hkind, hna, hne1, hne2⟩ := hph
      have hpd0 : s0.row.isPseudoDefine = true := by rw [← hk.2]; exact hpd
      have hdata : isDataRow s0.row = false :=
        pseudoDefine_not_data s0.row (by rw [← hk.2]; exact st.row_mem hs) hpd0
      have hop : s.operand = s0.operand := (st.op05.2 i s0 s hs0 hs).2 hdata (Or.inr hkind)
      simp only [hpd0, if_true] at hev
      rw [← hop, evalSym_plain _ _ (not_expr_of_flags hne1 hne2)] at hev
      cases hev
      rw [hv', ← hfin]
      unfold finalVal
      split
      · rename_i heq; rw [heq] at hna; simp [Value.isAddress] at hna
      · rename_i heq; rw [heq] at hfin; simp [finalVal] at hfin
      · rfl
  · intro i j s t hs ht hl hlt
    obtain ⟨s0, hs0, hks⟩ := k05.get' hs
    obtain ⟨t0, ht0, hkt⟩ := k05.get' ht
    have hl0 : s0.label.isEmpty = false := by rw [← hks.1]; exact hl
    have hlt0 : s0.label = t0.label := by rw [← hks.1, ← hkt.1]; exact hlt
    rcases Nat.lt_trichotomy i j with hij | hij | hij
    · have := buildSymTab_dup hij hs0 ht0 hlt0 hl0
      rw [st.hsym] at this; cases this
    · exact hij
    · have := buildSymTab_dup hij ht0 hs0 hlt0.symm (by rw [← hlt0]; exact hl0)
      rw [st.hsym] at this; cases this

/-! #### EQU defined by an expression (batch 4, fixes 0f280be and d7356d4) -/

/-- the general form of the EQU clause: the label of an EQU-like statement with a pseudo operand is bound to its
operand value passed through `evalSym` (an expression is evaluated against the table `st.t` built from the labels,
anything else is kept) and `finalVal` -/
theorem C02_equ_symbol {fs : Files} {lines : List Str} {a : Assembly} (st : Stages fs lines a)
    {i : Nat} {s : Stmt} (hs : a.stmts[i]? = some s) (hl : s.label.isEmpty = false)
    (hpd : s.row.isPseudoDefine = true) (hkind : s.operand.kind = .pseudo) :
    ∃ v1 v', evalSym a.stmts st.t s.operand.value = .ok v1 ∧ finalVal a.stmts v1 = some v' ∧
      a.symtab.get? s.label = some v' := by
  obtain ⟨htab, hnodup⟩ := buildSymTab_some st.hsym
  have hnodup := hnodup (by simp [SymTab.keys])
  simp only [List.nil_append] at htab
  obtain ⟨s0, hs0, hk⟩ := st.keep05.get' hs
  have hl0 : s0.label.isEmpty = false := by rw [← hk.1]; exact hl
  have hmem := symEntries_mem (i := 0) hs0 hl0
  rw [← htab, Nat.zero_add] at hmem
  have hget := get?_of_mem hnodup hmem
  have hpd0 : s0.row.isPseudoDefine = true := by rw [← hk.2]; exact hpd
  have hdata : isDataRow s0.row = false :=
    pseudoDefine_not_data s0.row (by rw [← hk.2]; exact st.row_mem hs) hpd0
  have hop : s.operand = s0.operand := (st.op05.2 i s0 s hs0 hs).2 hdata (Or.inr hkind)
  simp only [hpd0, if_true] at hget
  rw [← hop, ← hk.1] at hget
  obtain ⟨v1, v', hev, hv', hfin⟩ := st.symtab_get hget
  exact ⟨v1, v', hev, hfin, hv'⟩

/-- an EQU defined by an expression of constants (`resolve` against the label table gives a number): the final symbol
table binds the label to that number -/
theorem C02_equ_expression_symbol {fs : Files} {lines : List Str} {a : Assembly} (st : Stages fs lines a)
    {i : Nat} {s : Stmt} (hs : a.stmts[i]? = some s) (hl : s.label.isEmpty = false)
    (hpd : s.row.isPseudoDefine = true) (hkind : s.operand.kind = .pseudo)
    {l r : Value} {op : Char} {m : Mode} {ae : Bool} (hv : s.operand.value = .expr l r op m ae)
    {x : Value} (hx : s.operand.value.resolve st.t = .ok x) (hn : x.isNumeric = true) :
    a.symtab.get? s.label = some x := by
  obtain ⟨v1, v', hev, hfin, hget⟩ := C02_equ_symbol st hs hl hpd hkind
  rw [hv, evalSym_expr, ← hv, hx] at hev
  have hna : x.isAddrExpr = false := by cases x <;> first | rfl | cases hn
  simp only [hna, Bool.false_eq_true, if_false, hn, if_true, Outcome.ok.injEq] at hev
  subst hev
  cases x with
  | numeric _ _ _ _ => simp only [finalVal, Option.some.injEq] at hfin; rw [hget, hfin]
  | _ => cases hn

/-- an EQU defined by a label expression (`resolve` gives an expression with a statement index in it): the final
symbol table binds the label to the number `calculate_address_offset` computes on the final addresses -/
theorem C02_equ_label_expression_symbol {fs : Files} {lines : List Str} {a : Assembly} (st : Stages fs lines a)
    {i : Nat} {s : Stmt} (hs : a.stmts[i]? = some s) (hl : s.label.isEmpty = false)
    (hpd : s.row.isPseudoDefine = true) (hkind : s.operand.kind = .pseudo)
    {l r : Value} {op : Char} {m : Mode} {ae : Bool} (hv : s.operand.value = .expr l r op m ae)
    {x y : Value} (hx : s.operand.value.resolve st.t = .ok x) (hae : x.isAddrExpr = true)
    (hy : addrOffset a.stmts x = .ok y) : a.symtab.get? s.label = some y := by
  obtain ⟨v1, v', hev, hfin, hget⟩ := C02_equ_symbol st hs hl hpd hkind
  have hn := addrOffset_isNumeric hy
  rw [hv, evalSym_expr, ← hv, hx] at hev
  simp only [hae, if_true, hy, hn, Outcome.ok.injEq] at hev
  subst hev
  cases y with
  | numeric _ _ _ _ => simp only [finalVal, Option.some.injEq] at hfin; rw [hget, hfin]
  | _ => cases hn

/-- `L NOP / T EQU L+1`: the listing's symbol table shows T with the value 1, the address of L plus 1 (the Python
prints `$0001 T`) -/
def C02_equWitness : List Str := ["L NOP\n", "T EQU L+1\n"].map String.toList

private def equCheck (a : Assembly) : Bool :=
  (match a.symtab.get? "T".toList with
   | some (.numeric 1 _ _ false) => true
   | _ => false) &&
  symtabLines a.symtab == some ["$00   L".toList, "$0001 T".toList]

theorem C02_equ_label_expression_witness :
    ∃ a h md, assemble [] C02_equWitness = .ok a ∧ a.symtab.get? "T".toList = some (.numeric 1 h md false) ∧
      symtabLines a.symtab = some ["$00   L".toList, "$0001 T".toList] := by
  obtain ⟨a, ha, hchk⟩ := checkProgram_sound (lines := C02_equWitness) (check := equCheck) (by decide +kernel) []
  unfold equCheck at hchk
  simp only [Bool.and_eq_true, beq_iff_eq] at hchk
  obtain ⟨h1, h2⟩ := hchk
  split at h1
  · rename_i h md hg
    exact ⟨a, h, md, ha, hg, h2⟩
  · cases h1

/-- `A EQU 2*3 / B EQU A+1 / LDA #B`: an EQU defined through another EQU; B is listed as 7 and `LDA #B` loads 7 -/
def C02_equChainWitness : List Str := ["A EQU 2*3\n", "B EQU A+1\n", " LDA #B\n"].map String.toList

private def equChainCheck (a : Assembly) : Bool :=
  symtabLines a.symtab == some ["$06   A".toList, "$07   B".toList] && a.image == some [0x86, 7]

theorem C02_equ_chain_witness :
    ∃ a, assemble [] C02_equChainWitness = .ok a ∧
      symtabLines a.symtab = some ["$06   A".toList, "$07   B".toList] ∧ a.image = some [0x86, 7] := by
  obtain ⟨a, ha, hchk⟩ :=
    checkProgram_sound (lines := C02_equChainWitness) (check := equChainCheck) (by decide +kernel) []
  unfold equChainCheck at hchk
  simp only [Bool.and_eq_true, beq_iff_eq] at hchk
  exact ⟨a, ha, hchk.1, hchk.2⟩

/-- a label that occurs twice (after INCLUDE expansion) is rejected with a diagnostic -/
theorem C02_duplicate_label {fs : Files} {lines : List Str} {parsed ss0 : List Stmt}
    (hp : parseLines lines = .ok parsed) (he : expand fs (includeFuel fs) [] parsed = .ok ss0)
    {i j : Nat} {s t : Stmt} (hij : i < j) (hs : ss0[i]? = some s) (ht : ss0[j]? = some t)
    (hl : s.label = t.label) (hne : s.label.isEmpty = false) : assemble fs lines = .diag := by
  unfold assemble
  rw [hp]; dsimp only
  rw [he]; dsimp only
  rw [buildSymTab_dup hij hs ht hl hne]

/-- What is proved of C02: the chain, the image as a concatenation, the symbols, rejection of duplicate
labels; `C02_offset` is the conditional statement about offsets inside the image.
The byte count of a statement equals its size: `Props/C02Size.lean`.  Not claimed (known finding): an ORG is first. -/
theorem C02_partial :
    (∀ (fs : Files) (lines : List Str) (a : Assembly), assemble fs lines = .ok a →
        AddressChain a ∧ ImageConcat a ∧ SymbolsBound a PseudoValueHyp) ∧
    (∀ (fs : Files) (lines : List Str) (parsed ss0 : List Stmt) (i j : Nat) (s t : Stmt),
        parseLines lines = .ok parsed → expand fs (includeFuel fs) [] parsed = .ok ss0 → i < j → ss0[i]? = some s → ss0[j]? = some t →
        s.label = t.label → s.label.isEmpty = false → assemble fs lines = .diag) :=
  ⟨fun _ _ _ h => ⟨C02_chain h, C02_image h, C02_symbols h⟩,
   fun _ _ _ _ _ _ _ _ hp he hij hs ht hl hne => C02_duplicate_label hp he hij hs ht hl hne⟩

/-! ### the full statement does not hold -/

/-- `LDA -100,X`: formerly size 2 with 3 bytes emitted (negative 8-bit offsets did not increase `size`;
`C02_size_counterexample`); after the repair the size is 3 -/
def C02_sizeWitness : List Str := [" LDA -100,X\n"].map String.toList

private def sizeCheck (a : Assembly) : Bool :=
  match a.stmts[0]? with
  | some s => s.pkg.size == 3 && (stmtBytes s).map List.length == some 3
  | none => false

theorem C02_size_fixed :
    ∃ a s, assemble [] C02_sizeWitness = .ok a ∧ a.stmts[0]? = some s ∧ s.pkg.size = 3 ∧
      (stmtBytes s).map List.length = some 3 := by
  obtain ⟨a, ha, hchk⟩ := checkProgram_sound (lines := C02_sizeWitness) (check := sizeCheck) (by decide +kernel) []
  unfold sizeCheck at hchk
  split at hchk
  · rename_i s hs
    simp only [Bool.and_eq_true, beq_iff_eq] at hchk
    exact ⟨a, s, ha, hs, hchk.1, hchk.2⟩
  · cases hchk

/-- an ORG in the middle of a program -/
def C02_orgWitness : List Str := [" NOP\n", " ORG $100\n", " NOP\n"].map String.toList

/-- REPAIRED (finding B1, formerly `C02_org_counterexample` / `C02_Statement_false`): an ORG after the first byte of
the program used to be accepted, with an image that is the plain concatenation while the listing addresses jump;
since fix f9c374f it is a diagnostic ("ORG must come before the first label and the first byte"). -/
theorem C02_org_counterexample_fixed (fs : Files) : assemble fs C02_orgWitness = .diag :=
  diagProgram_sound (by decide +kernel) fs

/-- the known-finding witness `NOP / ORG $10 / NOP / ORG $5 / NOP` is rejected as well -/
theorem C02_finding_B1_fixed (fs : Files) :
    assemble fs ([" NOP\n", " ORG $10\n", " NOP\n", " ORG $5\n", " NOP\n"].map String.toList) = .diag :=
  diagProgram_sound (by decide +kernel) fs

/-- an ORG after statements that emit nothing and carry no address label (EQU, NAM) is still accepted -/
theorem C02_org_after_equ_accepted (fs : Files) :
    ∃ a, assemble fs (["C1 EQU 5\n", " NAM X\n", " ORG $100\n", "S NOP\n"].map String.toList) = .ok a ∧
      a.image = some [0x12] ∧ (a.stmts[3]?).bind addrNat = some 0x100 := by
  obtain ⟨a, ha, hchk⟩ := checkProgram_sound
    (lines := ["C1 EQU 5\n", " NAM X\n", " ORG $100\n", "S NOP\n"].map String.toList)
    (check := fun a => a.image == some [0x12] && (a.stmts[3]?).bind addrNat == some 0x100)
    (by decide +kernel) fs
  simp only [Bool.and_eq_true, beq_iff_eq] at hchk
  exact ⟨a, ha, hchk.1, hchk.2⟩

/-! ### non-vacuity -/

/-- ORG first, a label, an EQU: the hypotheses of `C02_offset` (with `k = 0`) and `PseudoValueHyp` hold -/
def C02_example : List Str :=
  [" ORG $0E00\n", "TEN EQU 10\n", "START LDA #TEN\n", " NOP\n", "DONE RTS\n"].map String.toList

private def exampleCheck (a : Assembly) : Bool :=
  a.image.isSome &&
  a.stmts.all (fun s => (stmtBytes s).map List.length == some s.pkg.size) &&
  (a.stmts.drop 1).all (fun s => s.row.mnemonic != "ORG") &&
  (match a.stmts[1]? with
   | some s => s.row.isPseudoDefine && s.operand.kind == .pseudo && !s.operand.value.isAddress &&
       !s.operand.value.isExpression && !s.operand.value.isAddrExpr
   | none => false) &&
  (match a.stmts[4]? with
   | some s => addrNat s == some 0x0E03 && a.symtab.get? s.label == some s.pkg.address
   | none => false)

example : ∃ a, assemble [] C02_example = .ok a ∧ exampleCheck a = true :=
  checkProgram_sound (by decide +kernel) []

end CoCo.Props
