/-
Lemmas/RelocNeg.lean — relocation (C18-R1), part 12 (repair batch B3): the fourth statement class `MovedNeg`:
`number - label` (`FDB 5-L`, `LDX #$4000-L`).  Since B3 `calculate_address_offset` combines its operands in the written
order, so `5-L` is five MINUS the address (before, it was `L-5`).  The value is `(c - a) mod $10000`; under relocation
the label moves by `D` and the field by MINUS `D` modulo `$10000` (`Stmt.shiftAdditionalNeg`).
`number * label` and `number / label` are outside all classes, like `label * k` (`reloc_no_claim_b3` of
Props/C18RelocText.lean).
-/
import CoCoVerif.Lemmas.RelocMod

namespace CoCo.Asm
open CoCo

/-- `l` is a number of magnitude `k`, negative iff `nn`; `r` is the label of statement `t`, at address `a` in the
layout `as` -/
structure NumLabel (as : List Stmt) (l r : Value) (t a k : Nat) (nn : Bool) : Prop where
  num : ∃ hh mm, l = .numeric k hh mm nn
  lab : r.isAddress = true
  idx : r.int? = some t
  addr : addrIntOf as t = some a

/-- the usual spelling -/
theorem NumLabel.mk' {as : List Stmt} {t a k : Nat} {m0 : Mode} {hh : Option Nat} {mm : Mode} {nn : Bool}
    (h : addrIntOf as t = some a) : NumLabel as (.numeric k hh mm nn) (.address t m0) t a k nn :=
  ⟨⟨hh, mm, rfl⟩, rfl, rfl, h⟩

theorem NumLabel.reloc {D : Nat} {as as' : List Stmt} {l r : Value} {t a k : Nat} {nn : Bool}
    (hpw : PW (AddrShiftI D) as as') (h : NumLabel as l r t a k nn) : NumLabel as' l r t (a + D) k nn :=
  ⟨h.num, h.lab, h.idx, by rw [addrIntOf_reloc hpw, h.addr]; rfl⟩

/-- `calculate_address_offset` on `number op label`: the constant is the LEFT argument of the arithmetic -/
theorem addrOffset_numLabel {as : List Stmt} {l r : Value} {t a k : Nat} {nn : Bool}
    (h : NumLabel as l r t a k nn) (op : Char) (m : Mode) (ae : Bool) :
    addrOffset as (.expr l r op m ae) = addrCombine op (signedK k nn) a := by
  obtain ⟨⟨hh, mm, rfl⟩, hlab, hi, ha⟩ := h
  have hr : addrOperand as r = .ok (a : Int) := by
    unfold addrOperand
    rw [if_pos hlab, hi]
    dsimp only
    rw [ha]
  rw [addrOffset_expr, addrOperand_numeric_signed, hr]

/-- move a numeric value by MINUS `D` modulo `$10000` -/
def shiftVneg (D : Nat) : Value → Value
  | .numeric a h m n => .numeric ((a + (65536 - D % 65536)) % 65536) h m n
  | v => v

/-- move the `additional` field by MINUS `D` modulo `$10000` -/
def Stmt.shiftAdditionalNeg (D : Nat) (s : Stmt) : Stmt :=
  { s with pkg := { s.pkg with additional := shiftVneg D s.pkg.additional } }

/-- `c - a` in the two layouts: when the original layout accepts it (`c - a ≤ $FFFF`: always, for a constant from
source text), so does the moved one; the values are `x` and `(x - D) mod $10000` -/
theorem addrCombine_numLabel_minus {D a : Nat} {c : Int} (h1 : c - (a : Int) ≤ 65535) :
    ∃ x : Nat, x < 65536 ∧ (x : Int) = (c - (a : Int)) % 65536 ∧
      addrCombine '-' c a = .ok (.numeric x (some 4) .extended false) ∧
      addrCombine '-' c ((a + D : Nat) : Int) =
        .ok (.numeric ((x + (65536 - D % 65536)) % 65536) (some 4) .extended false) := by
  have p0 : 0 ≤ (c - (a : Int)) % 65536 := Int.emod_nonneg _ (by decide)
  have p1 : (c - (a : Int)) % 65536 < 65536 := Int.emod_lt_of_pos _ (by decide)
  refine ⟨((c - (a : Int)) % 65536).toNat, by omega, by omega, ?_, ?_⟩
  · rw [addrCombine_minus_int, if_pos h1]
  · rw [addrCombine_minus_int, if_pos (by omega)]
    congr 2
    omega

/-- `number - label` as the OPERAND (no PCR) in a four-digit field that `fit_operand_width` looks at, accepted in the
original layout (`c - a ≤ $FFFF`) -/
def MovedNeg (as : List Stmt) (s : Stmt) : Prop :=
  (s.operand.kind == .relative) = false ∧ s.pkg.needsRes = false ∧ Field4 s ∧
  ∃ l r m t a k nn, s.operand.value = .expr l r '-' m true ∧ NumLabel as l r t a k nn ∧
    signedK k nn - (a : Int) ≤ 65535

theorem MovedNeg.not_numeric {as : List Stmt} {s : Stmt} (h : MovedNeg as s) :
    s.operand.value.isNumeric = false ∨ s.pkg.needsRes = true := by
  obtain ⟨_, _, _, l, r, m, _, _, _, _, hv, _⟩ := h
  left; rw [hv]; rfl

section
variable {D : Nat} {as as' : List Stmt}

/-- (b, moved backwards) both layouts accept the statement; the four-digit field holds `x` resp.
`(x - D) mod $10000` -/
theorem fixFit_movedNeg_aux (h : PW (AddrShiftI D) as as') (i : Nat) {s : Stmt} (hc : MovedNeg as s) :
    ∃ x, x < 65536 ∧ fixFit as i s = .ok (withAdditional s (.numeric x (some 4) .extended false)) ∧
      fixFit as' i s =
        .ok (withAdditional s (.numeric ((x + (65536 - D % 65536)) % 65536) (some 4) .extended false)) := by
  obtain ⟨hk, hn, hf, l, r, m, t, a, k, nn, hv, hl, hb⟩ := hc
  obtain ⟨x, hx, _, e1, e2⟩ := addrCombine_numLabel_minus (D := D) hb
  refine ⟨x, hx, ?_, ?_⟩
  · unfold fixFit
    rw [fixOne_expr_eq _ _ _ hk hv hn, addrOffset_numLabel hl, e1]
    exact fitWidth_field4_nat hf hx
  · unfold fixFit
    rw [fixOne_expr_eq _ _ _ hk hv hn, addrOffset_numLabel (hl.reloc h), e2]
    exact fitWidth_field4_nat hf (Nat.mod_lt _ (by decide))

/-- (b, moved backwards) the same outcome (accepted, in fact), the operand field moved by MINUS `D` modulo `$10000` -/
theorem fixFit_movedNeg (h : PW (AddrShiftI D) as as') (i : Nat) {s : Stmt} (hc : MovedNeg as s) :
    fixFit as' i s = (fixFit as i s).map (Stmt.shiftAdditionalNeg D) := by
  obtain ⟨x, _, e1, e2⟩ := fixFit_movedNeg_aux h i hc
  rw [e1, e2]; rfl

end

end CoCo.Asm
