/-
Lemmas/LayoutPreset.lean — `translateOperand` leaves `pkg.address` empty except in the ORG branch of
`translatePseudo`; consequently a statement enters `assignAddrs` with an address only if it is an ORG.
-/
import CoCoVerif.Lemmas.LayoutAddr

namespace CoCo.Asm
open CoCo

/-! ### only ORG presets an address -/

/-- every package a translation returns has no address -/
def AN (x : R Pkg) : Prop := ∀ p, x = .ok p → p.address = .none

theorem AN.pure (p : Pkg) (h : p.address = .none) : AN (Pure.pure p) := by
  intro q hq; cases hq; exact h
theorem AN.ok (p : Pkg) (h : p.address = .none) : AN (.ok p) := by
  intro q hq; cases hq; exact h
theorem AN.throw (e : Exn) : AN (throw e) := by intro q hq; cases hq
theorem AN.error (e : Exn) : AN (.error e) := by intro q hq; cases hq
theorem AN.bind {α : Type} {x : R α} {f : α → R Pkg} (h : ∀ a, AN (f a)) : AN (x >>= f) := by
  intro q hq
  cases x with
  | error e => cases hq
  | ok a => exact h a q hq
theorem AN.ite {c : Prop} [Decidable c] {x y : R Pkg} (hx : c → AN x) (hy : ¬c → AN y) : AN (if c then x else y) := by
  split
  · exact hx ‹_›
  · exact hy ‹_›

macro "an_step" : tactic => `(tactic| first
  | exact AN.pure _ rfl
  | exact AN.ok _ rfl
  | exact AN.throw _
  | exact AN.error _
  | (refine AN.bind ?_; intro _)
  | (refine AN.ite ?_ ?_ <;> intro _)
  | split)

theorem translateOffset_AN (ind row left right raw0) : AN (translateOffset ind row left right raw0) := by
  unfold translateOffset
  cases left <;> repeat' an_step

theorem translateSpecial_AN (o row) : AN (translateSpecial o row) := by
  unfold translateSpecial
  repeat' an_step

theorem translateIndexed_AN (o row) : AN (translateIndexed o row) := by
  unfold translateIndexed
  rcases o with ⟨kind, text, value, left, right⟩
  cases left <;> cases right <;> dsimp only <;>
    repeat' first | exact translateOffset_AN _ _ _ _ _ | an_step

theorem translateExtIndirect_AN (o row) : AN (translateExtIndirect o row) := by
  unfold translateExtIndirect
  rcases o with ⟨kind, text, value, left, right⟩
  cases left <;> cases right <;> dsimp only <;>
    repeat' first | exact translateOffset_AN _ _ _ _ _ | an_step

theorem translatePseudo_AN (o : Operand) (row : Gen.InstrRow) (h : (row.mnemonic == "ORG") = false) :
    AN (translatePseudo o row) := by
  unfold translatePseudo
  repeat' an_step
  all_goals simp_all

theorem translateOperand_AN (o : Operand) (row : Gen.InstrRow) (h : (row.mnemonic == "ORG") = false) :
    AN (translateOperand o row) := by
  unfold translateOperand
  cases o.kind
  case pseudo => exact translatePseudo_AN o row h
  case special => exact translateSpecial_AN o row
  case extIndirect => exact translateExtIndirect_AN o row
  case indexed => exact translateIndexed_AN o row
  all_goals (dsimp only; repeat' an_step)


/-- a translated statement with an address is an ORG -/
theorem translate_preset {o : Operand} {row : Gen.InstrRow} {p : Pkg} (h : translateOperand o row = .ok p)
    (hp : p.address ≠ .none) : row.mnemonic = "ORG" := by
  cases hm : row.mnemonic == "ORG" with
  | true => simpa using hm
  | false => exact absurd (translateOperand_AN o row hm p h) hp

end CoCo.Asm
