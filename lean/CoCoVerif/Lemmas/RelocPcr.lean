/-
Lemmas/RelocPcr.lean — relocation (C18-R1), part 6: the PCR size loop does not read `operand`,
`origText` or `pkg.address`: two lists that agree on every other field go through `pcrLoop` in lockstep.
-/
import CoCoVerif.Lemmas.RelocAll
import CoCoVerif.Lemmas.FrontPcr

namespace CoCo.Asm
open CoCo

/-- replace the three fields the back end before `assignAddrs` never reads (operand apart from `resolve`
/ `translate`, which come earlier) -/
def Stmt.setInert (s : Stmt) (o : Operand) (tx : Str) (a : Value) : Stmt :=
  { s with operand := o, origText := tx, pkg := { s.pkg with address := a } }

/-- equal except for `operand`, `origText`, `pkg.address` -/
def Inert (s s' : Stmt) : Prop := s' = s.setInert s'.operand s'.origText s'.pkg.address

theorem Inert.refl (s : Stmt) : Inert s s := rfl

section simp_lemmas
variable (s : Stmt) (o : Operand) (tx : Str) (a : Value)
@[simp] theorem setInert_fixedSize : (s.setInert o tx a).fixedSize = s.fixedSize := by cases s; rfl
@[simp] theorem setInert_pcrHint : (s.setInert o tx a).pcrHint = s.pcrHint := by cases s; rfl
@[simp] theorem setInert_row : (s.setInert o tx a).row = s.row := by cases s; rfl
@[simp] theorem setInert_label : (s.setInert o tx a).label = s.label := by cases s; rfl
@[simp] theorem setInert_choices : (s.setInert o tx a).pkg.choices = s.pkg.choices := by cases s; rfl
@[simp] theorem setInert_additional : (s.setInert o tx a).pkg.additional = s.pkg.additional := by cases s; rfl
@[simp] theorem setInert_size : (s.setInert o tx a).pkg.size = s.pkg.size := by cases s; rfl
@[simp] theorem setInert_maxSize : (s.setInert o tx a).pkg.maxSize = s.pkg.maxSize := by cases s; rfl
@[simp] theorem setInert_postByte : (s.setInert o tx a).pkg.postByte = s.pkg.postByte := by cases s; rfl
@[simp] theorem setInert_needsRes : (s.setInert o tx a).pkg.needsRes = s.pkg.needsRes := by cases s; rfl
@[simp] theorem setInert_opCode : (s.setInert o tx a).pkg.opCode = s.pkg.opCode := by cases s; rfl
@[simp] theorem setInert_address : (s.setInert o tx a).pkg.address = a := by cases s; rfl
@[simp] theorem setInert_operand : (s.setInert o tx a).operand = o := by cases s; rfl
@[simp] theorem setInert_origText : (s.setInert o tx a).origText = tx := by cases s; rfl
end simp_lemmas

theorem Inert.fixedSize {s s' : Stmt} (h : Inert s s') : s'.fixedSize = s.fixedSize := by rw [h]; simp
theorem Inert.size {s s' : Stmt} (h : Inert s s') : s'.pkg.size = s.pkg.size := by rw [h]; simp
theorem Inert.maxSize {s s' : Stmt} (h : Inert s s') : s'.pkg.maxSize = s.pkg.maxSize := by rw [h]; simp
theorem Inert.choices {s s' : Stmt} (h : Inert s s') : s'.pkg.choices = s.pkg.choices := by rw [h]; simp

/-! ### sums -/

theorem sumSizes_inert {ss ss' : List Stmt} (h : PW Inert ss ss') (lo hi : Nat) :
    sumSizes ss' lo hi = sumSizes ss lo hi := by
  have hm : ss'.map (fun s => (s.pkg.size, s.pkg.maxSize)) = ss.map (fun s => (s.pkg.size, s.pkg.maxSize)) := by
    apply List.ext_getElem?
    intro j
    simp only [List.getElem?_map]
    cases hj : ss[j]? with
    | none =>
      have : ss.length ≤ j := List.getElem?_eq_none_iff.mp hj
      rw [List.getElem?_eq_none_iff.mpr (by rw [h.1]; exact this)]
    | some s =>
      obtain ⟨s', hs', hr⟩ := h.get hj
      simp [hs', hr.size, hr.maxSize]
  have key : ∀ l : List Stmt, ∀ init : Nat × Nat,
      l.foldl (fun (a : Nat × Nat) s => (a.1 + s.pkg.size, a.2 + s.pkg.maxSize)) init
        = (l.map (fun s => (s.pkg.size, s.pkg.maxSize))).foldl (fun (a : Nat × Nat) p => (a.1 + p.1, a.2 + p.2)) init := by
    intro l
    induction l with
    | nil => intro init; rfl
    | cons x xs ih => intro init; simp only [List.foldl_cons, List.map_cons]; exact ih _
  unfold sumSizes
  rw [key, key, List.map_take, List.map_drop, List.map_take, List.map_drop, hm]

/-! ### `determine` -/

theorem orPost_setInert (s : Stmt) (o : Operand) (tx : Str) (a : Value) (c : Nat) :
    orPost (s.setInert o tx a) c = orPost s c := by
  unfold orPost
  simp only [setInert_postByte]

theorem settle_setInert (s : Stmt) (o : Operand) (tx : Str) (a : Value) (e hnt c : Nat) :
    settle (s.setInert o tx a) e hnt c = (settle s e hnt c).map (·.setInert o tx a) := by
  unfold settle
  rw [orPost_setInert]
  cases orPost s c <;> rfl

theorem determine_setInert {ss ss' : List Stmt} (h : PW Inert ss ss') (i : Nat) (s : Stmt)
    (o : Operand) (tx : Str) (a : Value) :
    determine ss' i (s.setInert o tx a) = (determine ss i s).map (·.setInert o tx a) := by
  unfold determine
  simp only [setInert_choices, setInert_additional, setInert_size, settle_setInert, sumSizes_inert h, h.1]
  split
  · rename_i c0 c1 _
    generalize settle s 2 4 c1 = q1
    generalize settle s 1 2 c0 = q0
    cases q0 <;> cases q1 <;> simp only [Option.map_none, Option.map_some] <;> (repeat' split) <;> rfl
  · rfl
  · rfl

theorem determine_inert {ss ss' : List Stmt} (h : PW Inert ss ss') (i : Nat) {s s' : Stmt} (hs : Inert s s') :
    OutRel Inert (determine ss i s) (determine ss' i s') := by
  rw [hs, determine_setInert h]
  refine OutRel.of_map _ ?_
  intro t _
  show _ = _
  simp

/-! ### one pass -/

theorem PW.set₂ {α β : Type} {R : α → β → Prop} {l : List α} {l' : List β} (h : PW R l l') (i : Nat)
    {a : α} {b : β} (hab : R a b) : PW R (l.set i a) (l'.set i b) := by
  refine ⟨by simp [h.1], ?_⟩
  intro j x y hx hy
  rw [List.getElem?_set] at hx hy
  by_cases hij : i = j
  · subst hij
    simp only [if_true] at hx hy
    split at hx
    · split at hy
      · cases hx; cases hy; exact hab
      · cases hy
    · cases hx
  · simp only [hij, if_false] at hx hy
    exact h.2 j x y hx hy

theorem pcrPass_inert : ∀ (n : Nat) (ss ss' : List Stmt) (i : Nat) (p : Bool), PW Inert ss ss' →
    OutRel (fun (x y : List Stmt × Bool) => PW Inert x.1 y.1 ∧ y.2 = x.2) (pcrPass n ss i p) (pcrPass n ss' i p) := by
  intro n
  induction n with
  | zero => intro ss ss' i p h; exact .ok ⟨h, rfl⟩
  | succ n ih =>
    intro ss ss' i p h
    cases hs : ss[i]? with
    | none =>
      have hs' : ss'[i]? = none := by
        have : ss.length ≤ i := List.getElem?_eq_none_iff.mp hs
        exact List.getElem?_eq_none_iff.mpr (by rw [h.1]; exact this)
      rw [pcrPass_end hs, pcrPass_end hs']
      exact .ok ⟨h, rfl⟩
    | some s =>
      obtain ⟨s', hs', hr⟩ := h.get hs
      rw [pcrPass_step hs, pcrPass_step hs', hr.fixedSize]
      split
      · exact ih _ _ _ _ h
      · have hd := determine_inert h i hr
        generalize determine ss i s = o at hd ⊢
        generalize determine ss' i s' = o' at hd ⊢
        cases hd with
        | ok r =>
          rename_i t t'
          dsimp only
          rw [r.fixedSize]
          exact ih _ _ _ _ (PW.set₂ h i r)
        | diag => exact .diag
        | internal => exact .internal
        | diverged => exact .diverged

/-! ### `forceFirst`, `allFixed`, the loop -/

theorem allFixed_inert {ss ss' : List Stmt} (h : PW Inert ss ss') : allFixed ss' = allFixed ss := by
  induction ss generalizing ss' with
  | nil => rw [h.nil_left]
  | cons s r ih =>
    obtain ⟨s', r', rfl, hr, hrest⟩ := h.cons_left
    simp only [allFixed, List.all_cons, hr.fixedSize]
    have := ih hrest
    simp only [allFixed] at this
    rw [this]

theorem forceFirst_inert : ∀ (ss ss' : List Stmt), PW Inert ss ss' →
    (forceFirst ss = none ∧ forceFirst ss' = none) ∨
    ∃ r r', forceFirst ss = some r ∧ forceFirst ss' = some r' ∧ PW Inert r r' := by
  intro ss
  induction ss with
  | nil => intro ss' h; rw [h.nil_left]; exact .inr ⟨[], [], rfl, rfl, .nil⟩
  | cons s rest ih =>
    intro ss' h
    obtain ⟨s', rest', rfl, hr, hrest⟩ := h.cons_left
    rw [forceFirst, forceFirst, hr.fixedSize]
    split
    · rcases ih rest' hrest with ⟨h1, h2⟩ | ⟨r, r', h1, h2, h3⟩
      · left; rw [h1, h2]; exact ⟨rfl, rfl⟩
      · right; rw [h1, h2]; exact ⟨_, _, rfl, rfl, .cons hr h3⟩
    · rw [hr.choices]
      split
      · rename_i c0 c1 _
        have e : settle s' 2 4 c1 = (settle s 2 4 c1).map (·.setInert s'.operand s'.origText s'.pkg.address) := by
          have := settle_setInert s s'.operand s'.origText s'.pkg.address 2 4 c1
          rw [← hr] at this
          exact this
        rw [e]
        cases settle s 2 4 c1 with
        | none => left; exact ⟨rfl, rfl⟩
        | some t =>
          right
          refine ⟨_, _, rfl, rfl, .cons ?_ hrest⟩
          show _ = _
          simp
      · left; exact ⟨rfl, rfl⟩

/-- the PCR loop on two lists that agree outside `operand`, `origText`, `pkg.address`: same outcome kind,
results again in agreement -/
theorem pcrLoop_inert : ∀ (fuel : Nat) (ss ss' : List Stmt), PW Inert ss ss' →
    OutRel (PW Inert) (pcrLoop fuel ss) (pcrLoop fuel ss') := by
  intro fuel
  induction fuel with
  | zero =>
    intro ss ss' h
    rw [pcrLoop, pcrLoop, allFixed_inert h]
    split
    · exact .ok h
    · exact .diverged
  | succ fuel ih =>
    intro ss ss' h
    rw [pcrLoop, pcrLoop, allFixed_inert h, h.1]
    split
    · exact .ok h
    · have hp := pcrPass_inert ss.length ss ss' 0 false h
      generalize pcrPass ss.length ss 0 false = o at hp ⊢
      generalize pcrPass ss.length ss' 0 false = o' at hp ⊢
      cases hp with
      | ok r =>
        rename_i x y
        obtain ⟨x1, x2⟩ := x
        obtain ⟨y1, y2⟩ := y
        obtain ⟨r1, r2⟩ := r
        dsimp only at r1 r2
        subst r2
        cases y2 with
        | true => exact ih _ _ r1
        | false =>
          dsimp only
          rcases forceFirst_inert x1 y1 r1 with ⟨h1, h2⟩ | ⟨q, q', h1, h2, h3⟩
          · rw [h1, h2]; exact .internal
          · rw [h1, h2]; exact ih _ _ h3
      | diag => exact .diag
      | internal => exact .internal
      | diverged => exact .diverged

end CoCo.Asm
