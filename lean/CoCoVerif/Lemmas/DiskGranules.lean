/-
Lemmas/DiskGranules.lean — write_to_granules equals writing the stream preamble ++ data ++ postamble
cut into 2304-byte pieces, piece i at granule gs[i]; frame and read-back lemmas for that.
-/
import CoCoVerif.Lemmas.DiskBytes
namespace CoCo.Dsk
open CoCo

def postBytes (post : Option Bytes) : Bytes := match post with | some t => t | none => []

def writeStream (b : Bytes) : List Nat → Bytes → Bytes
  | [], _ => b
  | g :: gs, s => writeStream (splice b (seek g) (s.take 2304)) gs (s.drop 2304)

@[simp] theorem writeStream_empty (b : Bytes) (gs : List Nat) : writeStream b gs [] = b := by
  induction gs generalizing b with
  | nil => rfl
  | cons g gs ih => simp [writeStream, ih]

/-- the body of `write_to_granules` after the optional preamble write -/
def wtgBody (b1 : Bytes) (data : Bytes) (g : Nat) (gs' : List Nat) (skip : Nat) (post : Option Bytes) : Option Bytes :=
  let p := seek g + skip
  if data.length < G - skip then
    match writeBytes b1 p data with
    | none => none
    | some b2 =>
      match post with
      | none => some b2
      | some tr =>
        let remaining := G - skip - data.length
        match writeBytes b2 (p + data.length) (tr.take remaining) with
        | none => none
        | some b3 =>
          if remaining < tr.length then
            match gs' with
            | [] => none
            | g2 :: _ => writeBytes b3 (seek g2) (tr.drop remaining)
          else some b3
  else
    match writeBytes b1 p (data.take (G - skip)) with
    | none => none
    | some b2 => writeToGranules b2 (data.drop (G - skip)) gs' [] post false

theorem wtg_true (b data g gs' pre post) :
    writeToGranules b data (g :: gs') pre post true =
      match writeBytes b (seek g) pre with
      | none => none
      | some b1 => wtgBody b1 data g gs' pre.length post := by
  rw [writeToGranules]; simp only [if_true]; rfl

theorem wtg_false (b data g gs' pre post) :
    writeToGranules b data (g :: gs') pre post false = wtgBody b data g gs' 0 post := by
  rw [writeToGranules]; rfl

theorem take3_A (pre data pb : Bytes) (n : Nat) (h : pre.length + data.length ≤ n) :
    (pre ++ data ++ pb).take n = pre ++ data ++ pb.take (n - pre.length - data.length) := by
  rw [List.take_append, List.take_of_length_le (by simp; omega)]
  simp [Nat.sub_sub]

theorem drop3_A (pre data pb : Bytes) (n : Nat) (h : pre.length + data.length ≤ n) :
    (pre ++ data ++ pb).drop n = pb.drop (n - pre.length - data.length) := by
  rw [List.drop_append, List.drop_of_length_le (by simp; omega)]
  simp [Nat.sub_sub]

theorem take3_B (pre data pb : Bytes) (n : Nat) (h1 : pre.length ≤ n) (h : n ≤ pre.length + data.length) :
    (pre ++ data ++ pb).take n = pre ++ data.take (n - pre.length) := by
  rw [List.take_append, List.take_append, List.take_of_length_le h1]
  have : n - (pre.length + data.length) = 0 := by omega
  simp [this]

theorem drop3_B (pre data pb : Bytes) (n : Nat) (h1 : pre.length ≤ n) (h : n ≤ pre.length + data.length) :
    (pre ++ data ++ pb).drop n = data.drop (n - pre.length) ++ pb := by
  rw [List.drop_append, List.drop_append, List.drop_of_length_le h1]
  have : n - (pre.length + data.length) = 0 := by omega
  simp [this]

theorem writeToGranules_eq (gs : List Nat) : ∀ (b data pre : Bytes) (post : Option Bytes) (first : Bool),
    b.length = 161280 → (∀ g ∈ gs, g < 68) →
    (if first then pre else []).length ≤ 2304 → (postBytes post).length ≤ 2304 →
    (if first then pre else []).length + data.length + (postBytes post).length < gs.length * 2304 →
    writeToGranules b data gs pre post first
      = some (writeStream b gs ((if first then pre else []) ++ data ++ postBytes post)) := by
  induction gs with
  | nil => intro b data pre post first _ _ _ _ h; simp at h
  | cons g gs' ih =>
    intro b data pre post first hb hlt hpre hpost htot
    have hg : g < 68 := hlt g List.mem_cons_self
    have hgin := seek_in g hg
    -- common body
    have body : ∀ (pre' : Bytes), pre'.length ≤ 2304 →
        pre'.length + data.length + (postBytes post).length < (gs'.length + 1) * 2304 →
        wtgBody (splice b (seek g) pre') data g gs' pre'.length post
          = some (writeStream b (g :: gs') (pre' ++ data ++ postBytes post)) := by
      intro pre' hp ht
      have hb1 : (splice b (seek g) pre').length = 161280 := by rw [splice_length (by omega), hb]
      unfold wtgBody
      simp only [G_eq]
      by_cases hA : data.length < 2304 - pre'.length
      · simp only [hA, if_true]
        rw [writeBytes_eq (by omega), splice_append (by omega)]
        simp only []
        cases post with
        | none =>
          simp only [postBytes, List.append_nil, writeStream]
          rw [List.take_of_length_le (by simp; omega), List.drop_of_length_le (by simp; omega)]
          simp
        | some tr =>
          simp only [postBytes] at hpost ht ⊢
          have hl : (pre' ++ data ++ tr.take (2304 - pre'.length - data.length)).length ≤ 2304 := by
            simp [List.length_take]; omega
          have hb2 : (splice b (seek g) (pre' ++ data)).length = 161280 := by
            rw [splice_length (by simp; omega), hb]
          rw [writeBytes_eq (by rw [hb2]; simp [List.length_take]; omega)]
          simp only []
          have e1 : seek g + pre'.length + data.length = seek g + (pre' ++ data).length := by simp; omega
          rw [e1, splice_append (by simp [List.length_take]; omega)]
          simp only [writeStream]
          rw [take3_A _ _ _ _ (by omega), drop3_A _ _ _ _ (by omega)]
          by_cases hr : 2304 - pre'.length - data.length < tr.length
          · simp only [hr, if_true]
            cases gs' with
            | nil => simp at ht; omega
            | cons g2 gs'' =>
              have hg2 : g2 < 68 := hlt g2 (by simp)
              have := seek_in g2 hg2
              simp only []
              rw [writeBytes_eq (by rw [splice_length (by omega)]; simp [List.length_drop]; omega)]
              simp only [writeStream]
              have hdl : (tr.drop (2304 - pre'.length - data.length)).length ≤ 2304 := by
                simp [List.length_drop]; omega
              rw [List.take_of_length_le hdl, List.drop_of_length_le hdl]
              simp
          · simp only [hr, if_false]
            rw [List.drop_of_length_le (by omega)]
            simp
      · simp only [hA, if_false]
        rw [writeBytes_eq (by simp [List.length_take]; omega), splice_append (by simp [List.length_take]; omega)]
        simp only []
        have hb2 : (splice b (seek g) (pre' ++ data.take (2304 - pre'.length))).length = 161280 := by
          rw [splice_length (by simp [List.length_take]; omega), hb]
        have := ih (splice b (seek g) (pre' ++ data.take (2304 - pre'.length))) (data.drop (2304 - pre'.length))
          [] post false hb2 (fun x hx => hlt x (List.mem_cons_of_mem _ hx)) (by simp) hpost
          (by simp [List.length_drop] at ht ⊢; omega)
        rw [this]
        simp only [writeStream]
        rw [take3_B _ _ _ _ hp (by omega), drop3_B _ _ _ _ hp (by omega)]
        simp
    cases first with
    | true =>
      simp only [if_true] at hpre htot ⊢
      rw [wtg_true, writeBytes_eq (by omega)]
      exact body pre hpre (by simpa using htot)
    | false =>
      simp only [Bool.false_eq_true, if_false] at hpre htot ⊢
      rw [wtg_false]
      have := body [] (by simp) (by simpa using htot)
      simpa using this

open Spec.DiskBasic in
theorem granuleBytes_eq (b : Bytes) (g : Nat) : granuleBytes b g = (b.drop (seek g)).take 2304 := by
  unfold granuleBytes granuleSize; rw [seek_eq]

theorem writeStream_length {gs : List Nat} : ∀ {b s : Bytes}, b.length = 161280 → (∀ g ∈ gs, g < 68) →
    (writeStream b gs s).length = 161280 := by
  induction gs with
  | nil => intro b s hb _; exact hb
  | cons g gs ih =>
    intro b s hb hlt
    simp only [writeStream]
    have := seek_in g (hlt g List.mem_cons_self)
    apply ih
    · rw [splice_length (by simp [List.length_take]; omega), hb]
    · exact fun x hx => hlt x (List.mem_cons_of_mem _ hx)

theorem writeStream_frame {gs : List Nat} : ∀ {b s : Bytes}, b.length = 161280 → (∀ g ∈ gs, g < 68) →
    ∀ i, (∀ g ∈ gs, i < seek g ∨ seek g + 2304 ≤ i) → (writeStream b gs s)[i]? = b[i]? := by
  induction gs with
  | nil => intro b s _ _ i _; rfl
  | cons g gs ih =>
    intro b s hb hlt i hi
    simp only [writeStream]
    have hin := seek_in g (hlt g List.mem_cons_self)
    have hl : (s.take 2304).length ≤ 2304 := by simp [List.length_take]; omega
    rw [ih (by rw [splice_length (by omega), hb]) (fun x hx => hlt x (List.mem_cons_of_mem _ hx)) i
      (fun x hx => hi x (List.mem_cons_of_mem _ hx))]
    apply splice_frame (by omega)
    have := hi g List.mem_cons_self
    omega

open Spec.DiskBasic in
theorem granuleBytes_length {b : Bytes} {g : Nat} (hb : b.length = 161280) (hg : g < 68) :
    (granuleBytes b g).length = 2304 := by
  rw [granuleBytes_eq]; have := seek_in g hg
  exact slice_length (by omega)

open Spec.DiskBasic in
/-- the stream written along a duplicate-free chain is read back by concatenating the granules -/
theorem writeStream_read {gs : List Nat} : ∀ {b s : Bytes}, gs.Nodup → (∀ g ∈ gs, g < 68) → b.length = 161280 →
    s.length ≤ 2304 * gs.length → (streamOf (writeStream b gs s) gs).take s.length = s := by
  induction gs with
  | nil => intro b s _ _ _ hs; simp at hs; simp [hs]
  | cons g gs ih =>
    intro b s hnd hlt hb hs
    have hg : g < 68 := hlt g List.mem_cons_self
    have hin := seek_in g hg
    have hlt' : ∀ x ∈ gs, x < 68 := fun x hx => hlt x (List.mem_cons_of_mem _ hx)
    obtain ⟨hgn, hnd'⟩ := List.nodup_cons.mp hnd
    have hl : (s.take 2304).length ≤ 2304 := by simp [List.length_take]; omega
    have hb1 : (splice b (seek g) (s.take 2304)).length = 161280 := by rw [splice_length (by omega), hb]
    simp only [writeStream, streamOf, List.map_cons, List.flatten_cons]
    -- later writes do not touch granule g
    have hsame : granuleBytes (writeStream (splice b (seek g) (s.take 2304)) gs (s.drop 2304)) g
        = granuleBytes (splice b (seek g) (s.take 2304)) g := by
      rw [granuleBytes_eq, granuleBytes_eq]
      apply slice_congr
      intro i h1 h2
      apply writeStream_frame hb1 hlt'
      intro g' hg'
      have hne : g ≠ g' := fun e => hgn (e ▸ hg')
      have := seek_disj g g' hg (hlt' g' hg') hne
      omega
    have hfirst : (granuleBytes (splice b (seek g) (s.take 2304)) g).take (s.take 2304).length = s.take 2304 := by
      rw [granuleBytes_eq, List.take_take, Nat.min_eq_left hl]
      exact splice_read (by omega)
    have hlenG : (granuleBytes (splice b (seek g) (s.take 2304)) g).length = 2304 := granuleBytes_length hb1 hg
    have hrec := ih (b := splice b (seek g) (s.take 2304)) (s := s.drop 2304) hnd' hlt' hb1
      (by simp [List.length_drop] at hs ⊢; omega)
    rw [hsame]
    simp only [streamOf] at hrec
    by_cases hsl : s.length ≤ 2304
    · have : s.take 2304 = s := List.take_of_length_le hsl
      rw [this] at hfirst
      rw [List.take_append_of_le_length (by omega)]
      rw [this]; exact hfirst
    · have hsl' : 2304 < s.length := by omega
      have htk : (s.take 2304).length = 2304 := by simp [List.length_take]; omega
      rw [htk] at hfirst
      have hg1 : granuleBytes (splice b (seek g) (s.take 2304)) g = s.take 2304 := by
        have := List.take_of_length_le (l := granuleBytes (splice b (seek g) (s.take 2304)) g) (i := 2304) (by omega)
        rw [← this]; exact hfirst
      rw [hg1]
      rw [List.take_append, htk]
      have h1' : (s.take 2304).take s.length = s.take 2304 := by
        apply List.take_of_length_le; simp [List.length_take]; omega
      have h2' : s.length - 2304 = (s.drop 2304).length := by simp [List.length_drop]
      rw [h1', h2', hrec]
      exact List.take_append_drop 2304 s

end CoCo.Dsk

