/-
Lemmas/RelocMod.lean — relocation (C18-R1), part 11 (repair batches B2, B3): the third statement class `MovedMod`:
`label + N` / `label - N` (SIGNED `N`) in a four-digit field with no more side condition than acceptance in both
layouts needs — as the operand (`MovedModRef`: `FDB A+N`, `LDX #A-N`, `LDA [A+N]`) or, since B3, as constant offset of
a pointer register (`MovedModAbs`: `LDA A+N,X`).  The field holds the value modulo `$10000` (`calculate_address_offset`
reduces a negative result modulo `$10000` and rejects one above `$FFFF`, for both operators since B3), and under
relocation it moves by `D` MODULO `$10000` (`Stmt.shiftAdditionalMod`).
-/
import CoCoVerif.Lemmas.RelocSigned

namespace CoCo.Asm
open CoCo

/-- `label + N` / `label - N` as the OPERAND (no PCR) in a four-digit field that `fit_operand_width` looks at; the
value `a ± c`, moved by `D`, is at most `$FFFF` (so that both layouts accept it).  Since B3 the condition is the same
for both operators, and there is no lower bound. -/
def MovedModRef (D : Nat) (as : List Stmt) (s : Stmt) : Prop :=
  (s.operand.kind == .relative) = false ∧ s.pkg.needsRes = false ∧ Field4 s ∧
  ModExpr D as s.operand.value

/-- (repair batch B3) `label + N` / `label - N` as CONSTANT OFFSET of a pointer register (`LDA A+N,X`, `LDD [A-N,U]`):
no label in the operand value, `needsRes` without post byte choices, the expression sits in `additional` -/
def MovedModAbs (D : Nat) (as : List Stmt) (s : Stmt) : Prop :=
  (s.operand.kind == .relative) = false ∧ s.operand.value ≠ .pyNone ∧ s.operand.value.isAddrExpr = false ∧
  s.operand.value.isAddress = false ∧ s.pkg.needsRes = true ∧ s.pkg.choices.isEmpty = true ∧ s.isIdx = true ∧
  Field4 s ∧ ModExpr D as s.pkg.additional

/-- the third class: a `label ± N` reference in a four-digit field that both layouts accept -/
def MovedMod (D : Nat) (as : List Stmt) (s : Stmt) : Prop := MovedModRef D as s ∨ MovedModAbs D as s

/-- in either sub-class the operand value is not a number (so the statement is not an ORG) -/
theorem MovedMod.not_numeric {D : Nat} {as : List Stmt} {s : Stmt} (h : MovedMod D as s) :
    s.operand.value.isNumeric = false ∨ s.pkg.needsRes = true := by
  rcases h with ⟨_, _, _, he⟩ | h
  · left
    obtain ⟨l, r, op, m, hv⟩ := he.isAddrExpr
    rw [hv]; rfl
  · exact .inr h.2.2.2.2.1

section
variable {D : Nat} {as as' : List Stmt}

/-- `fix_addresses` on a constant offset `label ± c` of a pointer register whose value is `x`: `x` is stored -/
theorem fixOne_abs_expr {ss : List Stmt} (i : Nat) {s : Stmt} {l r : Value} {op : Char} {m : Mode} {x : Nat}
    (hk : (s.operand.kind == .relative) = false) (hv : s.operand.value ≠ .pyNone)
    (hE : s.operand.value.isAddrExpr = false) (hA : s.operand.value.isAddress = false)
    (hn : s.pkg.needsRes = true) (hc : s.pkg.choices.isEmpty = true) (hidx : s.isIdx = true)
    (he : s.pkg.additional = .expr l r op m true) (hx : x < 65536)
    (ho : addrOffset ss (.expr l r op m true) = .ok (.numeric x (some 4) .extended false)) :
    fixOne ss i s = .ok (withAdditional s (.numeric x (some 4) .extended false)) := by
  rw [fixOne_abs_eq _ _ _ hk hv hE hA hn hc, fixPartAbs_eq, fixRelTarget_expr _ _ hidx he, ho]
  dsimp only [Value.int?]
  rw [if_pos (by omega)]
  rfl

/-- (b, moved modulo) both layouts accept the statement; the four-digit field holds `x` resp. `(x + D) mod $10000` -/
theorem fixFit_movedMod_aux (h : PW (AddrShiftI D) as as') (i : Nat) {s : Stmt} (hc : MovedMod D as s) :
    ∃ x, x < 65536 ∧ fixFit as i s = .ok (withAdditional s (.numeric x (some 4) .extended false)) ∧
      fixFit as' i s = .ok (withAdditional s (.numeric ((x + D) % 65536) (some 4) .extended false)) := by
  rcases hc with ⟨hk, hn, hf, he⟩ | ⟨hk, hv, hE, hA, hn, hcc, hidx, hf, he⟩
  · obtain ⟨x, hx, e1, e2⟩ := he.reloc h
    obtain ⟨l, r, op, m, hv⟩ := he.isAddrExpr
    rw [hv] at e1 e2
    refine ⟨x, hx, ?_, ?_⟩
    · unfold fixFit
      rw [fixOne_expr_eq _ _ _ hk hv hn, e1]
      exact fitWidth_field4_nat hf hx
    · unfold fixFit
      rw [fixOne_expr_eq _ _ _ hk hv hn, e2]
      exact fitWidth_field4_nat hf (Nat.mod_lt _ (by decide))
  · obtain ⟨x, hx, e1, e2⟩ := he.reloc h
    obtain ⟨l, r, op, m, hadd⟩ := he.isAddrExpr
    rw [hadd] at e1 e2
    refine ⟨x, hx, ?_, ?_⟩
    · unfold fixFit
      rw [fixOne_abs_expr i hk hv hE hA hn hcc hidx hadd hx e1]
      exact fitWidth_field4_nat hf hx
    · unfold fixFit
      rw [fixOne_abs_expr i hk hv hE hA hn hcc hidx hadd (Nat.mod_lt _ (by decide)) e2]
      exact fitWidth_field4_nat hf (Nat.mod_lt _ (by decide))

/-- (b, moved modulo) the same outcome (accepted, in fact), the operand field moved by `D` modulo `$10000` -/
theorem fixFit_movedMod (h : PW (AddrShiftI D) as as') (i : Nat) {s : Stmt} (hc : MovedMod D as s) :
    fixFit as' i s = (fixFit as i s).map (Stmt.shiftAdditionalMod D) := by
  obtain ⟨x, _, e1, e2⟩ := fixFit_movedMod_aux h i hc
  rw [e1, e2]; rfl

end

end CoCo.Asm
