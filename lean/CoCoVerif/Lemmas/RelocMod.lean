/-
Lemmas/RelocMod.lean — relocation (C18-R1), part 11 (repair batch B2): the third statement class `MovedMod`:
`label + N` / `label - N` (SIGNED `N`) in a four-digit operand field with no more side condition than acceptance
in both layouts needs.  The field holds the value modulo `$10000` (a negative `label + N` in two's complement), and
under relocation it moves by `D` MODULO `$10000` (`Stmt.shiftAdditionalMod`).
-/
import CoCoVerif.Lemmas.RelocSigned

namespace CoCo.Asm
open CoCo

/-- `label + N` / `label - N` (no PCR) in a four-digit field that `fit_operand_width` looks at; for `+` the value
`a + c` is at least `-$8000` and `a + c + D` at most `$FFFF` (so that both layouts accept it); for `-` no condition -/
def MovedMod (D : Nat) (as : List Stmt) (s : Stmt) : Prop :=
  (s.operand.kind == .relative) = false ∧ s.pkg.needsRes = false ∧ Field4 s ∧
  ∃ l r op m t a k nn, s.operand.value = .expr l r op m true ∧ LabelNum as l r t a k nn ∧
    ((op = '+' ∧ -32768 ≤ (a : Int) + signedK k nn ∧ (a : Int) + signedK k nn + D ≤ 65535) ∨ op = '-')

section
variable {D : Nat} {as as' : List Stmt}

/-- (b, moved modulo) both layouts accept the statement; the four-digit field holds `x` resp. `(x + D) mod $10000` -/
theorem fixFit_movedMod_aux (h : PW (AddrShiftI D) as as') (i : Nat) {s : Stmt} (hc : MovedMod D as s) :
    ∃ x, x < 65536 ∧ fixFit as i s = .ok (withAdditional s (.numeric x (some 4) .extended false)) ∧
      fixFit as' i s = .ok (withAdditional s (.numeric ((x + D) % 65536) (some 4) .extended false)) := by
  obtain ⟨hk, hn, hf, l, r, op, m, t, a, k, nn, hv, hl, hcase⟩ := hc
  rcases hcase with ⟨rfl, h0, h1⟩ | rfl
  · have p0 : 0 ≤ ((a : Int) + signedK k nn) % 65536 := Int.emod_nonneg _ (by decide)
    have p1 : ((a : Int) + signedK k nn) % 65536 < 65536 := Int.emod_lt_of_pos _ (by decide)
    refine ⟨(((a : Int) + signedK k nn) % 65536).toNat, by omega, ?_, ?_⟩
    · rw [fixFit_label_plus hl i hf hk hv hn, if_pos ⟨h0, by omega⟩]
    · rw [fixFit_label_plus (hl.reloc h) i hf hk hv hn, if_pos ⟨by omega, by omega⟩]
      have e : ((((a + D : Nat) : Int) + signedK k nn) % 65536).toNat
          = ((((a : Int) + signedK k nn) % 65536).toNat + D) % 65536 := by omega
      rw [e]
  · have p0 : 0 ≤ ((a : Int) - signedK k nn) % 65536 := Int.emod_nonneg _ (by decide)
    have p1 : ((a : Int) - signedK k nn) % 65536 < 65536 := Int.emod_lt_of_pos _ (by decide)
    refine ⟨(((a : Int) - signedK k nn) % 65536).toNat, by omega, fixFit_label_minus hl i hf hk hv hn, ?_⟩
    rw [fixFit_label_minus (hl.reloc h) i hf hk hv hn]
    have e : ((((a + D : Nat) : Int) - signedK k nn) % 65536).toNat
        = ((((a : Int) - signedK k nn) % 65536).toNat + D) % 65536 := by omega
    rw [e]

/-- (b, moved modulo) the same outcome (accepted, in fact), the operand field moved by `D` modulo `$10000` -/
theorem fixFit_movedMod (h : PW (AddrShiftI D) as as') (i : Nat) {s : Stmt} (hc : MovedMod D as s) :
    fixFit as' i s = (fixFit as i s).map (Stmt.shiftAdditionalMod D) := by
  obtain ⟨x, _, e1, e2⟩ := fixFit_movedMod_aux h i hc
  rw [e1, e2]; rfl

end

end CoCo.Asm
