/-
Lemmas/RelocFix.lean — relocation (C18-R1), part 2: `fix_addresses` (`fixOne`) in two layouts whose
addresses differ by `D` (`PW (AddrShiftI D) as as'` / `PW (AddrShift D) as as'`).

The statement `s` is the SAME on both sides in the lemmas `*_reloc`; the frame lemmas `*_setAddress`
then move the statement's own address field (which `fixOne` never reads).
-/
import CoCoVerif.Lemmas.RelocAddr

namespace CoCo

/-- functorial map on outcomes -/
def Outcome.map {α β : Type} (f : α → β) : Outcome α → Outcome β
  | .ok a => .ok (f a)
  | .diag => .diag
  | .internal => .internal
  | .diverged => .diverged

@[simp] theorem Outcome.map_ok {α β : Type} (f : α → β) (a : α) : (Outcome.ok a).map f = .ok (f a) := rfl
@[simp] theorem Outcome.map_diag {α β : Type} (f : α → β) : (Outcome.diag : Outcome α).map f = .diag := rfl
@[simp] theorem Outcome.map_internal {α β : Type} (f : α → β) : (Outcome.internal : Outcome α).map f = .internal := rfl
@[simp] theorem Outcome.map_diverged {α β : Type} (f : α → β) : (Outcome.diverged : Outcome α).map f = .diverged := rfl

theorem Outcome.map_id' {α : Type} (o : Outcome α) : o.map (fun x => x) = o := by cases o <;> rfl

theorem Outcome.map_eq_ok {α β : Type} {f : α → β} {o : Outcome α} {b : β} (h : o.map f = .ok b) :
    ∃ a, o = .ok a ∧ f a = b := by
  cases o with
  | ok a => exact ⟨a, rfl, by simpa using h⟩
  | _ => cases h

end CoCo

namespace CoCo.Asm
open CoCo

/-- replace the address field -/
def Stmt.setAddress (s : Stmt) (v : Value) : Stmt := { s with pkg := { s.pkg with address := v } }

/-- move the `additional` field (the operand bytes) by `D` -/
def Stmt.shiftAdditional (D : Nat) (s : Stmt) : Stmt :=
  { s with pkg := { s.pkg with additional := shiftV D s.pkg.additional } }

/-! ### relative branches: the displacement is a sum of sizes -/

theorem fixBranch_reloc {D : Nat} {as as' : List Stmt} (h : PW (AddrShiftI D) as as') (i : Nat) (s : Stmt) :
    fixBranch as' i s = fixBranch as i s := by
  unfold fixBranch
  simp only [sumSize_reloc h]

/-! ### `calculate_address_offset` -/

/-- `NumericValue(z, size_hint=4, mode=EXTENDED)` in closed form -/
theorem numericOfInt_ext4 {z : Int} (h : z ≤ 65535) :
    numericOfInt z (some 4) .extended = .ok (.numeric z.natAbs (some 4) .extended (decide (z < 0))) := by
  unfold numericOfInt
  rw [if_neg (by omega)]
  simp [initHint, postInit]

theorem numericOfInt_ext4_nat {z : Nat} (h : z ≤ 65535) :
    numericOfInt (z : Int) (some 4) .extended = .ok (.numeric z (some 4) .extended false) := by
  rw [numericOfInt_ext4 (by omega)]
  have : ¬ ((z : Int) < 0) := by omega
  simp [this]

/-- one operand of a label expression in the moved layout: a label's address is `D` higher, a number is the same -/
theorem addrOperand_reloc {D : Nat} {as as' : List Stmt} (h : PW (AddrShiftI D) as as') (v : Value) :
    addrOperand as' v = (addrOperand as v).map (fun x => if v.isAddress then x + (D : Int) else x) := by
  unfold addrOperand
  by_cases hA : v.isAddress = true
  · simp only [hA, if_true]
    cases v.int? with
    | none => rfl
    | some j =>
      dsimp only
      rw [addrIntOf_reloc h]
      cases addrIntOf as j with
      | none => rfl
      | some x => simp only [Option.map_some, Outcome.map_ok, Int.natCast_add]
  · simp only [hA, if_false, Bool.false_eq_true]
    split
    · cases v.int? <;> rfl
    · rfl

theorem addrOperand_numeric_signed (ss : List Stmt) (k : Nat) (h : Option Nat) (m : Mode) (n : Bool) :
    addrOperand ss (.numeric k h m n) = .ok (signedK k n) := rfl

/-- the last step of `calculate_address_offset` (repair batch B3): a result `z` below zero is reduced modulo `$10000`,
one above `$FFFF` is rejected; in closed form, the value is `z mod $10000` whenever `z ≤ $FFFF` -/
theorem wrapNumeric (z : Int) :
    (match numericOfInt (if z < 0 then z % 65536 else z) (some 4) .extended with
     | .ok nv => Outcome.ok nv | .error _ => .diag)
      = if z ≤ 65535 then .ok (.numeric (z % 65536).toNat (some 4) .extended false) else .diag := by
  by_cases h : z ≤ 65535
  · rw [if_pos h]
    have h0 : 0 ≤ z % 65536 := Int.emod_nonneg _ (by decide)
    have h1 : z % 65536 < 65536 := Int.emod_lt_of_pos _ (by decide)
    have e : (if z < 0 then z % 65536 else z) = (((z % 65536).toNat : Nat) : Int) := by split <;> omega
    rw [e, numericOfInt_ext4_nat (by omega)]
  · rw [if_neg h, if_neg (by omega), numericOfInt_big (by omega)]

/-- `a + c` (SIGNED operands, since B3 in the written order): above `$FFFF` the expression is rejected, otherwise
the value is `(a + c) mod $10000` — a NEGATIVE sum is reduced modulo `$10000` (before B3 it stayed a negative
number) -/
theorem addrCombine_plus_int (a c : Int) :
    addrCombine '+' a c =
      if a + c ≤ 65535 then .ok (.numeric ((a + c) % 65536).toNat (some 4) .extended false) else .diag := by
  unfold addrCombine
  simp only [beq_self_eq_true, if_true]
  exact wrapNumeric _

/-- `a + c` whose value lies in `0 .. $FFFF` -/
theorem addrCombine_plus_int_nonneg {a c : Int} (h0 : 0 ≤ a + c) (h1 : a + c ≤ 65535) :
    addrCombine '+' a c = .ok (.numeric (a + c).toNat (some 4) .extended false) := by
  rw [addrCombine_plus_int, if_pos h1]
  have h3 : (a + c) % 65536 = a + c := by omega
  rw [h3]

theorem addrCombine_plus (a k : Nat) :
    addrCombine '+' a k = if a + k ≤ 65535 then .ok (.numeric (a + k) (some 4) .extended false) else .diag := by
  by_cases hle : a + k ≤ 65535
  · rw [if_pos hle, addrCombine_plus_int_nonneg (by omega) (by omega)]
    congr 2
  · rw [if_neg hle, addrCombine_plus_int, if_neg (by omega)]

/-- the sum does not depend on the order of the operands -/
theorem addrCombine_plus_comm (a c : Int) : addrCombine '+' a c = addrCombine '+' c a := by
  rw [addrCombine_plus_int, addrCombine_plus_int, Int.add_comm]

/-- `a - c` (SIGNED operands, in the written order): above `$FFFF` rejected (since B3; `label - N` with a negative
`N` can exceed `$FFFF`), otherwise the value is `(a - c) mod $10000` -/
theorem addrCombine_minus_int (a c : Int) :
    addrCombine '-' a c =
      if a - c ≤ 65535 then .ok (.numeric ((a - c) % 65536).toNat (some 4) .extended false) else .diag := by
  unfold addrCombine
  simp only [show ('-' == '+') = false from rfl, Bool.false_eq_true, if_false, beq_self_eq_true, if_true]
  exact wrapNumeric _

/-- `label - k` with an unsigned `k` and a label inside the 64K space: never rejected, the value modulo `$10000` -/
theorem addrCombine_minus {a : Nat} (k : Nat) (ha : a ≤ 65535) :
    addrCombine '-' a k = .ok (.numeric (((a : Int) - k) % 65536).toNat (some 4) .extended false) := by
  rw [addrCombine_minus_int, if_pos (by omega)]

/-- the arithmetic core of the relocation of `label ± c` (SIGNED `c`): when the value in the original layout is
`z` with `z + D ≤ $FFFF`, the value in the moved layout is `z + D` -/
theorem addrCombine_reloc_num {D : Nat} {a c : Int} {op : Char} (hop : op = '+' ∨ op = '-')
    (hb : ∀ v, addrCombine op a c = .ok v → ∃ z, v = .numeric z (some 4) .extended false ∧ z + D ≤ 65535) :
    addrCombine op (a + D) c = (addrCombine op a c).map (shiftV D) := by
  rcases hop with rfl | rfl
  · rw [addrCombine_plus_int] at hb ⊢
    rw [addrCombine_plus_int]
    by_cases h1 : a + c ≤ 65535
    · rw [if_pos h1] at hb
      obtain ⟨z, hz, hzD⟩ := hb _ rfl
      simp only [Value.numeric.injEq, and_true] at hz
      rw [if_pos h1, if_pos (by omega)]
      simp only [Outcome.map_ok, shiftV_numeric]
      congr 2
      omega
    · rw [if_neg h1, if_neg (by omega)]; rfl
  · rw [addrCombine_minus_int] at hb ⊢
    rw [addrCombine_minus_int]
    by_cases h1 : a - c ≤ 65535
    · rw [if_pos h1] at hb
      obtain ⟨z, hz, hzD⟩ := hb _ rfl
      simp only [Value.numeric.injEq, and_true] at hz
      rw [if_pos h1, if_pos (by omega)]
      simp only [Outcome.map_ok, shiftV_numeric]
      congr 2
      omega
    · rw [if_neg h1, if_neg (by omega)]; rfl

/-- where the label of `label ± number` may stand: since B3 the operands are combined IN THE WRITTEN ORDER, so the
label is the LEFT operand, or the operator is `+` (`number - label` is a different thing: it moves by MINUS `D`) -/
def LabelSide (l r : Value) (op : Char) : Prop := l.isAddress = true ∨ (r.isAddress = true ∧ op = '+')

/-- the label operand of `label ± number` -/
theorem LabelSide.isAddress {l r : Value} {op : Char} (h : LabelSide l r op) :
    (if l.isAddress then l else r).isAddress = true := by
  rcases h with h | ⟨h, _⟩
  · rw [if_pos h]; exact h
  · split <;> assumption

/-- `calculate_address_offset` on `label ± number` / `number + label`: the label's address `a` and the SIGNED
constant `c` give `addrCombine op a c` -/
theorem addrOffset_label_num (ss : List Stmt) {l r : Value} {op : Char} (m : Mode) (ae : Bool)
    {k : Nat} {hh : Option Nat} {mm : Mode} {nn : Bool}
    (hother : (if l.isAddress then r else l) = .numeric k hh mm nn) (hside : LabelSide l r op) :
    addrOffset ss (.expr l r op m ae) =
      (match addrOperand ss (if l.isAddress then l else r) with
       | .ok a => addrCombine op a (signedK k nn)
       | .diag => .diag | .internal => .internal | .diverged => .diverged) := by
  rw [addrOffset_expr]
  by_cases hl : l.isAddress = true
  · rw [if_pos hl] at hother ⊢
    subst hother
    simp only [addrOperand_numeric_signed]
    cases addrOperand ss l <;> rfl
  · rw [if_neg hl] at hother ⊢
    subst hother
    rcases hside with h | ⟨_, rfl⟩
    · exact absurd h hl
    · simp only [addrOperand_numeric_signed]
      cases addrOperand ss r with
      | ok a => exact addrCombine_plus_comm _ _
      | _ => rfl

/-- `label + c`, `label - c`, `c + label` (the other operand is a number, SIGNED since repair batch B2: the constant
is `signedK k nn`): the value moves by `D`, provided the moved result still fits 16 bits.  Since B3 a negative
result is reduced modulo `$10000` for `+` as well, so the bound `z + D ≤ $FFFF` is about the reduced value. -/
theorem addrOffset_reloc_num {D : Nat} {as as' : List Stmt} (h : PW (AddrShiftI D) as as')
    (l r : Value) (op : Char) (m : Mode) (ae : Bool) {k : Nat} {hh : Option Nat} {mm : Mode} {nn : Bool}
    (hother : (if l.isAddress then r else l) = .numeric k hh mm nn) (hop : op = '+' ∨ op = '-')
    (hside : LabelSide l r op)
    (hb : ∀ v, addrOffset as (.expr l r op m ae) = .ok v →
      ∃ z, v = .numeric z (some 4) .extended false ∧ z + D ≤ 65535) :
    addrOffset as' (.expr l r op m ae) = (addrOffset as (.expr l r op m ae)).map (shiftV D) := by
  rw [addrOffset_label_num as m ae hother hside] at hb ⊢
  rw [addrOffset_label_num as' m ae hother hside, addrOperand_reloc h, hside.isAddress]
  cases ha : addrOperand as (if l.isAddress then l else r) with
  | ok a =>
    rw [ha] at hb
    exact addrCombine_reloc_num hop hb
  | _ => rfl

/-- move a numeric value by `D` modulo `$10000` -/
def shiftVmod (D : Nat) : Value → Value
  | .numeric a h m n => .numeric ((a + D) % 65536) h m n
  | v => v

/-- `a ± c` accepted in the moved layout (`a ± c + D ≤ $FFFF`): accepted in the original one as well, and the value
moves by `D` modulo `$10000` -/
theorem addrCombine_shift_mod {a c : Int} {D : Nat} {op : Char} (hop : op = '+' ∨ op = '-')
    (h : (if op = '+' then a + c else a - c) + D ≤ 65535) :
    addrCombine op (a + D) c = (addrCombine op a c).map (shiftVmod D) := by
  rcases hop with rfl | rfl
  · rw [if_pos rfl] at h
    rw [addrCombine_plus_int, addrCombine_plus_int, if_pos (by omega), if_pos (by omega)]
    simp only [Outcome.map_ok, shiftVmod]
    congr 2
    omega
  · rw [if_neg (by decide)] at h
    rw [addrCombine_minus_int, addrCombine_minus_int, if_pos (by omega), if_pos (by omega)]
    simp only [Outcome.map_ok, shiftVmod]
    congr 2
    omega

theorem addrCombine_minus_shift_int (a c : Int) (D : Nat) (h : a - c + D ≤ 65535) :
    addrCombine '-' (a + D) c = (addrCombine '-' a c).map (shiftVmod D) :=
  addrCombine_shift_mod (.inr rfl) (by rw [if_neg (by decide)]; exact h)

theorem addrCombine_plus_shift_int (a c : Int) (D : Nat) (h : a + c + D ≤ 65535) :
    addrCombine '+' (a + D) c = (addrCombine '+' a c).map (shiftVmod D) :=
  addrCombine_shift_mod (.inl rfl) (by rw [if_pos rfl]; exact h)

/-- `label ± c` (SIGNED `c`) that the MOVED layout accepts: the value moves by `D` modulo `$10000` (since B3 both
operators reduce a negative result modulo `$10000` and reject one above `$FFFF`; before, only `label - c` was
reduced, and unconditionally) -/
theorem addrOffset_reloc_mod {D : Nat} {as as' : List Stmt} (h : PW (AddrShiftI D) as as')
    (l r : Value) (op : Char) (m : Mode) (ae : Bool) {k : Nat} {hh : Option Nat} {mm : Mode} {nn : Bool}
    (hother : (if l.isAddress then r else l) = .numeric k hh mm nn) (hop : op = '+' ∨ op = '-')
    (hside : LabelSide l r op)
    (hacc : ∀ a, addrOperand as (if l.isAddress then l else r) = .ok a →
      (if op = '+' then a + signedK k nn else a - signedK k nn) + D ≤ 65535) :
    addrOffset as' (.expr l r op m ae) = (addrOffset as (.expr l r op m ae)).map (shiftVmod D) := by
  rw [addrOffset_label_num as m ae hother hside, addrOffset_label_num as' m ae hother hside,
    addrOperand_reloc h, hside.isAddress]
  cases ha : addrOperand as (if l.isAddress then l else r) with
  | ok a => exact addrCombine_shift_mod hop (hacc a ha)
  | _ => rfl

/-- `label - label`: the difference of two addresses does not move -/
theorem addrOffset_reloc_diff {D : Nat} {as as' : List Stmt} (h : PW (AddrShiftI D) as as')
    (l r : Value) (m : Mode) (ae : Bool) (hother : (if l.isAddress then r else l).isAddress = true) :
    addrOffset as' (.expr l r '-' m ae) = addrOffset as (.expr l r '-' m ae) := by
  have hl : l.isAddress = true := by
    by_cases hl : l.isAddress = true
    · exact hl
    · rw [if_neg hl] at hother; exact hother
  have hr : r.isAddress = true := by rw [if_pos hl] at hother; exact hother
  rw [addrOffset_expr, addrOffset_expr, addrOperand_reloc h l, addrOperand_reloc h r]
  simp only [hl, hr, if_true]
  cases addrOperand as l with
  | ok a =>
    cases addrOperand as r with
    | ok b =>
      simp only [Outcome.map_ok]
      have e1 : a + (D : Int) - (b + (D : Int)) = a - b := by omega
      rw [addrCombine_minus_int, addrCombine_minus_int, e1]
    | _ => rfl
  | _ => rfl

/-! ### the three parts of `fixOne` for non-relative statements -/

/-- part 1 (address expressions), `label ± k` -/
theorem fixPart1_reloc_num {D : Nat} {as as' : List Stmt} (h : PW (AddrShiftI D) as as') (s : Stmt)
    (l r : Value) (op : Char) (m : Mode) {k : Nat} {hh : Option Nat} {mm : Mode} {nn : Bool}
    (hother : (if l.isAddress then r else l) = .numeric k hh mm nn) (hop : op = '+' ∨ op = '-')
    (hside : LabelSide l r op)
    (hb : ∀ v, addrOffset as (.expr l r op m true) = .ok v →
      ∃ z, v = .numeric z (some 4) .extended false ∧ z + D ≤ 65535) :
    fixPart1 as' s (.expr l r op m true) = (fixPart1 as s (.expr l r op m true)).map (Stmt.shiftAdditional D) := by
  unfold fixPart1
  simp only [Value.isAddrExpr, if_true]
  rw [addrOffset_reloc_num h l r op m true hother hop hside hb]
  cases addrOffset as (.expr l r op m true) <;> rfl

/-- part 1, `label - label` -/
theorem fixPart1_reloc_diff {D : Nat} {as as' : List Stmt} (h : PW (AddrShiftI D) as as') (s : Stmt)
    (l r : Value) (m : Mode) (hother : (if l.isAddress then r else l).isAddress = true) :
    fixPart1 as' s (.expr l r '-' m true) = fixPart1 as s (.expr l r '-' m true) := by
  unfold fixPart1
  rw [addrOffset_reloc_diff h l r m true hother]

theorem fixPart1_nonexpr (ss : List Stmt) (s : Stmt) {ov : Value} (hE : ov.isAddrExpr = false) :
    fixPart1 ss s ov = .ok s := by
  unfold fixPart1; simp [hE]

/-- part 2 (a plain label): the stored address value moves by `D` -/
theorem fixPart2_reloc {D : Nat} {as as' : List Stmt} (h : PW (AddrShift D) as as') (ov : Value) (s1 : Stmt) :
    fixPart2 as' ov s1 = (fixPart2 as ov s1).map (fun x => if ov.isAddress then x.shiftAdditional D else x) := by
  unfold fixPart2
  by_cases hA : ov.isAddress = true
  · simp only [hA, if_true]
    cases ov.int? with
    | none => rfl
    | some t =>
      dsimp only
      rw [addrOf_reloc h]
      cases addrOf as t <;> rfl
  · simp only [hA, if_false, Bool.false_eq_true]; rfl

theorem fixPart2_nonaddr (ss : List Stmt) (s1 : Stmt) {ov : Value} (hA : ov.isAddress = false) :
    fixPart2 ss ov s1 = .ok s1 := by
  unfold fixPart2; simp [hA]

theorem fixPart2_needsRes {ss : List Stmt} {ov : Value} {s1 s2 : Stmt} (h : fixPart2 ss ov s1 = .ok s2) :
    s2.pkg.needsRes = s1.pkg.needsRes := by
  unfold fixPart2 at h
  split at h
  · split at h
    · split at h
      · cases h; rfl
      · cases h
    · cases h
  · cases h; rfl

theorem fixPart1_needsRes {ss : List Stmt} {ov : Value} {s s1 : Stmt} (h : fixPart1 ss s ov = .ok s1) :
    s1.pkg.needsRes = s.pkg.needsRes := by
  unfold fixPart1 at h
  split at h
  · cases ho : addrOffset ss ov <;> rw [ho] at h <;> cases h; rfl
  · cases h; rfl

/-- the operand is indexed or extended-indirect -/
def Stmt.isIdx (s : Stmt) : Bool := s.operand.kind == .indexed || s.operand.kind == .extIndirect

/-- the PCR target is a statement index (not a label expression) -/
theorem fixRelTarget_plain (ss : List Stmt) (s2 : Stmt)
    (hp : s2.isIdx = false ∨ s2.pkg.additional.isAddrExpr = false) :
    fixRelTarget ss s2 =
      (match s2.pkg.additional.int? with
       | some t => (match addrIntOf ss t with | some a => .ok a | none => .internal)
       | none => .internal) := by
  unfold fixRelTarget
  dsimp only
  split
  · rename_i e hidx heq
    exfalso
    rcases hp with hp | hp
    · simp [Stmt.isIdx, hidx] at hp
    · split at heq
      · rename_i h2; rw [h2] at hp; simp [Value.isAddrExpr] at hp
      · cases heq
  · rfl

/-- the PCR target is a label expression -/
theorem fixRelTarget_expr (ss : List Stmt) (s2 : Stmt) {l r : Value} {op : Char} {m : Mode}
    (hidx : s2.isIdx = true) (he : s2.pkg.additional = .expr l r op m true) :
    fixRelTarget ss s2 =
      (match addrOffset ss (.expr l r op m true) with
       | .ok v => (match v.int? with | some n => .ok n | none => .internal)
       | .diag => .diag | .internal => .internal | .diverged => .diverged) := by
  unfold fixRelTarget
  unfold Stmt.isIdx at hidx
  simp only [he, hidx]
  rfl

theorem fixRelTarget_reloc_plain {D : Nat} {as as' : List Stmt} (h : PW (AddrShiftI D) as as') (s2 : Stmt)
    (hp : s2.isIdx = false ∨ s2.pkg.additional.isAddrExpr = false) :
    fixRelTarget as' s2 = (fixRelTarget as s2).map (· + D) := by
  rw [fixRelTarget_plain _ _ hp, fixRelTarget_plain _ _ hp]
  cases s2.pkg.additional.int? with
  | none => rfl
  | some t =>
    dsimp only
    rw [addrIntOf_reloc h]
    cases addrIntOf as t <;> rfl

theorem fixRelTarget_reloc_num {D : Nat} {as as' : List Stmt} (h : PW (AddrShiftI D) as as') (s2 : Stmt)
    {l r : Value} {op : Char} {m : Mode} {k : Nat} {hh : Option Nat} {mm : Mode} {nn : Bool}
    (hidx : s2.isIdx = true) (he : s2.pkg.additional = .expr l r op m true)
    (hother : (if l.isAddress then r else l) = .numeric k hh mm nn) (hop : op = '+' ∨ op = '-')
    (hside : LabelSide l r op)
    (hb : ∀ v, addrOffset as (.expr l r op m true) = .ok v →
      ∃ z, v = .numeric z (some 4) .extended false ∧ z + D ≤ 65535) :
    fixRelTarget as' s2 = (fixRelTarget as s2).map (· + D) := by
  rw [fixRelTarget_expr _ _ hidx he, fixRelTarget_expr _ _ hidx he,
    addrOffset_reloc_num h l r op m true hother hop hside hb]
  cases ho : addrOffset as (.expr l r op m true) with
  | ok v =>
    obtain ⟨z, rfl, _⟩ := hb v ho
    rfl
  | _ => rfl

/-- `label - label` as a PCR target: the TARGET does not move (so the displacement does) -/
theorem fixRelTarget_reloc_diff {D : Nat} {as as' : List Stmt} (h : PW (AddrShiftI D) as as') (s2 : Stmt)
    {l r : Value} {m : Mode} (hidx : s2.isIdx = true) (he : s2.pkg.additional = .expr l r '-' m true)
    (hother : (if l.isAddress then r else l).isAddress = true) :
    fixRelTarget as' s2 = fixRelTarget as s2 := by
  rw [fixRelTarget_expr _ _ hidx he, fixRelTarget_expr _ _ hidx he, addrOffset_reloc_diff h l r m true hother]

/-- part 3 (PCR: `needsRes` with post byte choices): when the target moves by `D`, the displacement is IDENTICAL -/
theorem fixPart3_reloc_of_target {D : Nat} {as as' : List Stmt} (h : PW (AddrShiftI D) as as') (i : Nat) (s2 : Stmt)
    (hc : s2.pkg.choices.isEmpty = false)
    (ht : fixRelTarget as' s2 = (fixRelTarget as s2).map (· + D)) :
    fixPart3 as' i s2 = fixPart3 as i s2 := by
  unfold fixPart3
  split
  · rw [if_neg (by simp [hc]), if_neg (by simp [hc]), ht, addrIntOf_reloc h]
    cases fixRelTarget as s2 with
    | ok r =>
      cases addrIntOf as i with
      | none => rfl
      | some start =>
        have e : ((r + D : Nat) : Int) - ((start + D : Nat) : Int) - (s2.pkg.size : Int)
            = (r : Int) - (start : Int) - (s2.pkg.size : Int) := by omega
        simp only [Outcome.map_ok, Option.map_some, e]
    | diag => rfl
    | internal => cases addrIntOf as i <;> rfl
    | diverged => cases addrIntOf as i <;> rfl
  · rfl

/-- part 3 (PCR), a target that moves by `D` MODULO `$10000` (a negative `label + N`, reduced modulo `$10000` by
`calculate_address_offset` since B3): the displacement is computed modulo `$10000` as well, so it is still IDENTICAL -/
theorem fixPart3_reloc_of_target_mod {D : Nat} {as as' : List Stmt} (h : PW (AddrShiftI D) as as') (i : Nat) (s2 : Stmt)
    (hc : s2.pkg.choices.isEmpty = false)
    (ht : fixRelTarget as' s2 = (fixRelTarget as s2).map (fun x => (x + D) % 65536)) :
    fixPart3 as' i s2 = fixPart3 as i s2 := by
  unfold fixPart3
  split
  · rw [if_neg (by simp [hc]), if_neg (by simp [hc]), ht, addrIntOf_reloc h]
    cases fixRelTarget as s2 with
    | ok r =>
      cases addrIntOf as i with
      | none => rfl
      | some start =>
        have e : ((((r + D) % 65536 : Nat) : Int) - ((start + D : Nat) : Int) - (s2.pkg.size : Int) + 0x8000) % 0x10000
            = ((r : Int) - (start : Int) - (s2.pkg.size : Int) + 0x8000) % 0x10000 := by omega
        simp only [Outcome.map_ok, Option.map_some, e]
    | diag => rfl
    | internal => cases addrIntOf as i <;> rfl
    | diverged => cases addrIntOf as i <;> rfl
  · rfl

/-- part 3 (repair batch B3) of a `needsRes` statement WITHOUT post byte choices — a label as constant offset of a
pointer register (`LDA TABLE,X`): the target address itself becomes the 16-bit offset -/
theorem fixPart3_abs (ss : List Stmt) (i : Nat) {s2 : Stmt} (hn : s2.pkg.needsRes = true)
    (hc : s2.pkg.choices.isEmpty = true) : fixPart3 ss i s2 = fixPartAbs ss s2 := by
  unfold fixPart3; rw [if_pos hn, if_pos hc]

/-- the absolute offset in closed form -/
theorem fixPartAbs_eq (ss : List Stmt) (s2 : Stmt) :
    fixPartAbs ss s2 =
      (match fixRelTarget ss s2 with
       | .ok r => if r ≤ 65535 then .ok { s2 with pkg := { s2.pkg with additional := .numeric r (some 4) .extended false } }
                  else .internal
       | .diag => .diag | .internal => .internal | .diverged => .internal) := by
  unfold fixPartAbs
  cases fixRelTarget ss s2 with
  | ok r =>
    dsimp only
    by_cases hr : r ≤ 65535
    · rw [if_pos hr, numericOfInt_nat hr 4]
    · rw [if_neg hr, numericOfInt_big (by omega)]
  | _ => rfl

/-- part 3 (absolute offset): when the target moves by `D` and stays inside the 64K space, the stored 16-bit offset
moves by `D` -/
theorem fixPartAbs_reloc_of_target {D : Nat} {as as' : List Stmt} (s2 : Stmt)
    (ht : fixRelTarget as' s2 = (fixRelTarget as s2).map (· + D))
    (hb : ∀ r, fixRelTarget as s2 = .ok r → r + D ≤ 65535) :
    fixPartAbs as' s2 = (fixPartAbs as s2).map (Stmt.shiftAdditional D) := by
  rw [fixPartAbs_eq, fixPartAbs_eq, ht]
  cases hr : fixRelTarget as s2 with
  | ok r =>
    have := hb r hr
    simp only [Outcome.map_ok]
    rw [if_pos (by omega), if_pos (by omega)]
    rfl
  | _ => rfl

theorem fixPart3_noRes (ss : List Stmt) (i : Nat) {s2 : Stmt} (hn : s2.pkg.needsRes = false) :
    fixPart3 ss i s2 = .ok s2 := by
  unfold fixPart3; simp [hn]

/-! ### `fixNonRel` by class -/

theorem fixNonRel_plain (ss : List Stmt) (i : Nat) (s : Stmt) {ov : Value}
    (hE : ov.isAddrExpr = false) (hA : ov.isAddress = false) : fixNonRel ss i s ov = fixPart3 ss i s := by
  unfold fixNonRel
  rw [fixPart1_nonexpr ss s hE]
  dsimp only
  rw [fixPart2_nonaddr ss s hA]

theorem fixNonRel_address (ss : List Stmt) (i : Nat) (s : Stmt) {ov : Value}
    (hA : ov.isAddress = true) (hn : s.pkg.needsRes = false) : fixNonRel ss i s ov = fixPart2 ss ov s := by
  have hE : ov.isAddrExpr = false := by cases ov <;> simp_all [Value.isAddress, Value.isAddrExpr]
  unfold fixNonRel
  rw [fixPart1_nonexpr ss s hE]
  dsimp only
  cases h2 : fixPart2 ss ov s with
  | ok s2 => exact fixPart3_noRes ss i (by rw [fixPart2_needsRes h2, hn])
  | _ => rfl

theorem fixNonRel_expr (ss : List Stmt) (i : Nat) (s : Stmt) (l r : Value) (op : Char) (m : Mode)
    (hn : s.pkg.needsRes = false) :
    fixNonRel ss i s (.expr l r op m true) = fixPart1 ss s (.expr l r op m true) := by
  unfold fixNonRel
  cases h1 : fixPart1 ss s (.expr l r op m true) with
  | ok s1 =>
    dsimp only
    rw [fixPart2_nonaddr ss s1 (show (Value.expr l r op m true).isAddress = false from rfl)]
    exact fixPart3_noRes ss i (by rw [fixPart1_needsRes h1, hn])
  | _ => rfl

theorem fixOne_nonrel_eq (ss : List Stmt) (i : Nat) (s : Stmt) (hk : (s.operand.kind == .relative) = false)
    (hv : s.operand.value ≠ .pyNone) : fixOne ss i s = fixNonRel ss i s s.operand.value := by
  rw [fixOne_eq, if_neg (by simp [hk])]
  split
  · rename_i hp; exact absurd hp hv
  · rfl

theorem fixOne_pyNone (ss : List Stmt) (i : Nat) (s : Stmt) (hk : (s.operand.kind == .relative) = false)
    (hv : s.operand.value = .pyNone) : fixOne ss i s = .internal := by
  rw [fixOne_eq, if_neg (by simp [hk]), hv]

end CoCo.Asm
