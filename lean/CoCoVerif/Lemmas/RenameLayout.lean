/-
Lemmas/RenameLayout.lean — C18-R2 (renaming), part 4: the stages after `translate` — the PCR size loop, the ORG check,
address assignment, `fix_addresses`, the evaluation of EQU expressions and the final symbol table — commute with the
renaming of statements `rnStmt` (they read sizes, statement indices and addresses, never a name). Batch 8: the evaluation
of the FCB / FDB lists (`evalLists`, inside `fixAllL`) reads element TEXTS; it commutes when the element texts of the renamed operand text are
faithful renamings of the element texts (`ElemRn`, `evalElem_rn`, `evalLists_rn`, `fixAllL_rn`), hence the hypothesis
`ListsOK` of `back_rn`.
-/
import CoCoVerif.Lemmas.RenameTranslate
import CoCoVerif.Lemmas.LayoutSym
import CoCoVerif.Lemmas.EvalLists

namespace CoCo.Asm.Rename
open CoCo
open CoCo.Gen (InstrRow)

variable {ρ : Ren}

@[simp] theorem rnStmt_row (s : Stmt) : (rnStmt ρ s).row = s.row := rfl
@[simp] theorem rnStmt_pkg (s : Stmt) : (rnStmt ρ s).pkg = rnPkg ρ s.pkg := rfl
@[simp] theorem rnStmt_fixedSize (s : Stmt) : (rnStmt ρ s).fixedSize = s.fixedSize := rfl
@[simp] theorem rnStmt_pcrHint (s : Stmt) : (rnStmt ρ s).pcrHint = s.pcrHint := rfl
@[simp] theorem rnStmt_operand (s : Stmt) : (rnStmt ρ s).operand = rnOperand ρ s.operand := rfl
@[simp] theorem rnStmt_label (s : Stmt) : (rnStmt ρ s).label = rnLabel ρ s.label := rfl
@[simp] theorem rnPkg_size (p : Pkg) : (rnPkg ρ p).size = p.size := rfl
@[simp] theorem rnPkg_maxSize (p : Pkg) : (rnPkg ρ p).maxSize = p.maxSize := rfl
@[simp] theorem rnPkg_choices (p : Pkg) : (rnPkg ρ p).choices = p.choices := rfl
@[simp] theorem rnPkg_needsRes (p : Pkg) : (rnPkg ρ p).needsRes = p.needsRes := rfl
@[simp] theorem rnPkg_postByte (p : Pkg) : (rnPkg ρ p).postByte = p.postByte := rfl
@[simp] theorem rnPkg_opCode (p : Pkg) : (rnPkg ρ p).opCode = p.opCode := rfl
@[simp] theorem rnPkg_additional (p : Pkg) : (rnPkg ρ p).additional = rnValue ρ p.additional := rfl
@[simp] theorem rnPkg_address (p : Pkg) : (rnPkg ρ p).address = rnValue ρ p.address := rfl

theorem sumSizes_rn (ss : List Stmt) (lo hi : Nat) : sumSizes (ss.map (rnStmt ρ)) lo hi = sumSizes ss lo hi := by
  unfold sumSizes
  rw [← List.map_drop, ← List.map_take, List.foldl_map]
  rfl

theorem relIndex_rn (v : Value) : relIndex (rnValue ρ v) = relIndex v := by
  cases v with
  | expr l r op m ae =>
    cases ae
    · rfl
    · simp only [relIndex, rnValue, rnValue_isAddress, rnValue_int?]
  | _ => rfl

theorem exprForces_rn (v : Value) : exprForces (rnValue ρ v) = exprForces v := by
  cases v with
  | expr l r op m ae =>
    cases ae
    · rfl
    · simp only [exprForces, rnValue, rnValue_isAddress]
      by_cases h : l.isAddress = true <;> simp [h]
  | _ => rfl

theorem exprExtra_rn (v : Value) : exprExtra (rnValue ρ v) = exprExtra v := by
  cases v with
  | expr l r op m ae =>
    cases ae
    · rfl
    · simp only [exprExtra, rnValue, rnValue_isAddress, rnValue_int?]
  | _ => rfl

theorem settle_rn (s : Stmt) (e h c : Nat) : settle (rnStmt ρ s) e h c = (settle s e h c).map (rnStmt ρ) := by
  unfold settle orPost
  simp only [rnStmt_pkg, rnPkg_postByte, rnPkg_size]
  cases s.pkg.postByte.int? with
  | none => rfl
  | some raw =>
    dsimp only
    cases numV (raw ||| c) <;> rfl

theorem determine_rn (ss : List Stmt) (i : Nat) (s : Stmt) :
    determine (ss.map (rnStmt ρ)) i (rnStmt ρ s) = (determine ss i s).map (rnStmt ρ) := by
  unfold determine
  simp only [rnStmt_pkg, rnPkg_choices, rnPkg_additional, exprForces_rn, relIndex_rn, exprExtra_rn, sumSizes_rn,
    List.length_map, rnPkg_size, settle_rn]
  rcases s.pkg.choices with _ | ⟨c0, _ | ⟨c1, _ | _⟩⟩
  · rfl
  · rfl
  · dsimp only
    cases settle s 2 4 c1 <;> cases settle s 1 2 c0 <;> simp only [Option.map] <;>
      repeat' (first | rfl | split)
  · rfl


/-! ### the PCR size loop -/

theorem pcrPass_rn : ∀ (n : Nat) (ss : List Stmt) (i : Nat) (p : Bool),
    pcrPass n (ss.map (rnStmt ρ)) i p = (pcrPass n ss i p).map (fun x => (x.1.map (rnStmt ρ), x.2)) := by
  intro n
  induction n with
  | zero => intro ss i p; rfl
  | succ n ih =>
    intro ss i p
    rw [pcrPass, pcrPass, List.getElem?_map]
    cases hs : ss[i]? with
    | none => rfl
    | some s =>
      simp only [Option.map_some]
      by_cases hf : s.fixedSize = true
      · simp only [rnStmt_fixedSize, hf, if_true]; exact ih ss (i + 1) p
      · simp only [rnStmt_fixedSize, hf, if_false, Bool.false_eq_true]
        rw [determine_rn]
        cases hd : determine ss i s with
        | ok s' =>
          simp only [Outcome.map_ok, rnStmt_fixedSize]
          rw [← List.map_set]
          exact ih _ _ _
        | _ => rfl

theorem forceFirst_rn : ∀ (ss : List Stmt),
    forceFirst (ss.map (rnStmt ρ)) = (forceFirst ss).map (List.map (rnStmt ρ)) := by
  intro ss
  induction ss with
  | nil => rfl
  | cons s rest ih =>
    rw [List.map_cons, forceFirst, forceFirst]
    by_cases hf : s.fixedSize = true
    · simp only [rnStmt_fixedSize, hf, if_true]
      rw [ih]
      cases forceFirst rest <;> rfl
    · simp only [rnStmt_fixedSize, rnStmt_pkg, rnPkg_choices, hf, if_false, Bool.false_eq_true]
      rcases s.pkg.choices with _ | ⟨c0, _ | ⟨c1, _ | _⟩⟩
      · rfl
      · rfl
      · dsimp only
        rw [settle_rn]
        cases settle s 2 4 c1 <;> rfl
      · rfl

theorem allFixed_rn (ss : List Stmt) : allFixed (ss.map (rnStmt ρ)) = allFixed ss := by
  unfold allFixed
  rw [List.all_map]
  rfl

theorem pcrLoop_rn : ∀ (fuel : Nat) (ss : List Stmt),
    pcrLoop fuel (ss.map (rnStmt ρ)) = (pcrLoop fuel ss).map (List.map (rnStmt ρ)) := by
  intro fuel
  induction fuel with
  | zero =>
    intro ss
    rw [pcrLoop, pcrLoop, allFixed_rn]
    split <;> rfl
  | succ fuel ih =>
    intro ss
    rw [pcrLoop, pcrLoop, allFixed_rn]
    by_cases hf : allFixed ss = true
    · rw [if_pos hf, if_pos hf]; rfl
    · rw [if_neg hf, if_neg hf, List.length_map, pcrPass_rn]
      cases hp : pcrPass ss.length ss 0 false with
      | ok x =>
        obtain ⟨ss', b⟩ := x
        cases b with
        | true => exact ih ss'
        | false =>
          simp only [Outcome.map_ok]
          rw [forceFirst_rn]
          cases hff : forceFirst ss' with
          | none => rfl
          | some ss'' => exact ih ss''
      | _ => rfl

/-! ### the ORG check, address assignment -/

theorem orgOK_rn : ∀ (ss : List Stmt) (b : Bool), (∀ s ∈ ss, s.label ≠ [] → ρ.sym s.label ≠ []) →
    orgOK (ss.map (rnStmt ρ)) b = orgOK ss b := by
  intro ss
  induction ss with
  | nil => intro b _; rfl
  | cons s rest ih =>
    intro b hl
    rw [List.map_cons, orgOK, orgOK]
    simp only [rnStmt_row, rnStmt_pkg, rnPkg_size, rnStmt_label, rnLabel_isEmpty (hl s (by simp))]
    rw [ih _ (fun x hx => hl x (by simp [hx]))]
    rfl

theorem assignAddrs_rn : ∀ (ss : List Stmt) (a : Nat),
    assignAddrs (ss.map (rnStmt ρ)) a = (assignAddrs ss a).map (List.map (rnStmt ρ)) := by
  intro ss
  induction ss with
  | nil => intro a; rfl
  | cons s rest ih =>
    intro a
    rw [List.map_cons, assignAddrs, assignAddrs]
    by_cases hn : s.pkg.address.isNone = true
    · simp only [rnStmt_pkg, rnPkg_address, rnValue_isNone, rnPkg_size, rnValue_int?, hn, if_true]
      cases hv : numV a with
      | error e => rfl
      | ok v =>
        dsimp only
        rw [ih]
        cases assignAddrs rest (a + s.pkg.size) with
        | ok r =>
          simp only [Outcome.map_ok, List.map_cons]
          congr 2
          simp only [rnStmt, rnPkg, numV_ok_rn hv]
        | _ => rfl
    · simp only [rnStmt_pkg, rnPkg_address, rnValue_isNone, rnPkg_size, rnValue_int?, hn, if_false,
        Bool.false_eq_true]
      cases s.pkg.address.int? with
      | none => rfl
      | some a' =>
        dsimp only
        rw [ih]
        cases assignAddrs rest (a' + s.pkg.size) <;> rfl

/-! ### `fix_addresses` -/

theorem addrOf_rn (ss : List Stmt) (j : Nat) :
    addrOf (ss.map (rnStmt ρ)) j = (addrOf ss j).map (rnValue ρ) := by
  unfold addrOf
  rw [List.getElem?_map]
  cases ss[j]? <;> rfl

theorem addrIntOf_rn (ss : List Stmt) (j : Nat) : addrIntOf (ss.map (rnStmt ρ)) j = addrIntOf ss j := by
  unfold addrIntOf
  rw [addrOf_rn]
  cases addrOf ss j with
  | none => rfl
  | some a => exact rnValue_int? a

theorem addrOperand_rn (ss : List Stmt) (x : Value) :
    addrOperand (ss.map (rnStmt ρ)) (rnValue ρ x) = addrOperand ss x := by
  unfold addrOperand
  simp only [rnValue_isAddress, rnValue_int?, rnValue_isNumeric, rnValue_isNegative, addrIntOf_rn]

theorem addrOffset_rn (ss : List Stmt) (v : Value) :
    addrOffset (ss.map (rnStmt ρ)) (rnValue ρ v) = addrOffset ss v := by
  cases v with
  | expr l r op m ae =>
    simp only [rnValue]
    rw [addrOffset_expr, addrOffset_expr, addrOperand_rn, addrOperand_rn]
  | _ => rfl

theorem addrOffset_ok_rn {ss : List Stmt} {v x : Value} (h : addrOffset ss v = .ok x) : rnValue ρ x = x :=
  rnValue_of_numeric (addrOffset_isNumeric h)

theorem sumSize_rn (ss : List Stmt) (lo hi : Nat) : sumSize (ss.map (rnStmt ρ)) lo hi = sumSize ss lo hi := by
  unfold sumSize; rw [sumSizes_rn]

theorem rnStmt_withAdditional (s : Stmt) (v : Value) :
    rnStmt ρ { s with pkg := { s.pkg with additional := v } }
      = { rnStmt ρ s with pkg := { (rnStmt ρ s).pkg with additional := rnValue ρ v } } := rfl

theorem numericOfInt_ok_rn {z : Int} {h : Option Nat} {m : Mode} {v : Value} (hv : numericOfInt z h m = .ok v) :
    rnValue ρ v = v := rnValue_of_numeric (numericOfInt_isNumeric' hv)

/-- `match numericOfInt … with | .ok v => .ok { s with additional := v } | .error _ => .internal` -/
theorem setNum_rn (s : Stmt) (z : Int) (h : Option Nat) (m : Mode) :
    (match numericOfInt z h m with
      | .ok v => Outcome.ok { rnStmt ρ s with pkg := { (rnStmt ρ s).pkg with additional := v } }
      | .error _ => Outcome.internal)
    = (match numericOfInt z h m with
      | .ok v => Outcome.ok { s with pkg := { s.pkg with additional := v } }
      | .error _ => Outcome.internal).map (rnStmt ρ) := by
  cases hv : numericOfInt z h m with
  | error e => rfl
  | ok v =>
    simp only [Outcome.map_ok, rnStmt_withAdditional, numericOfInt_ok_rn hv]

theorem fixBranch_rn (ss : List Stmt) (i : Nat) (s : Stmt) :
    fixBranch (ss.map (rnStmt ρ)) i (rnStmt ρ s) = (fixBranch ss i s).map (rnStmt ρ) := by
  unfold fixBranch
  simp only [rnStmt_pkg, rnPkg_additional, rnValue_int?, rnStmt_row, sumSize_rn]
  cases s.pkg.additional.int? with
  | none => rfl
  | some b =>
    dsimp only
    split
    · split
      · rfl
      · exact setNum_rn s _ _ _
    · split
      · rfl
      · exact setNum_rn s _ _ _

theorem fixPart1_rn (ss : List Stmt) (s : Stmt) (ov : Value) :
    fixPart1 (ss.map (rnStmt ρ)) (rnStmt ρ s) (rnValue ρ ov) = (fixPart1 ss s ov).map (rnStmt ρ) := by
  unfold fixPart1
  simp only [rnValue_isAddrExpr, addrOffset_rn]
  split
  · cases hv : addrOffset ss ov with
    | ok v => simp only [Outcome.map_ok, rnStmt_withAdditional, addrOffset_ok_rn hv]
    | _ => rfl
  · rfl

theorem fixPart2_rn (ss : List Stmt) (ov : Value) (s1 : Stmt) :
    fixPart2 (ss.map (rnStmt ρ)) (rnValue ρ ov) (rnStmt ρ s1) = (fixPart2 ss ov s1).map (rnStmt ρ) := by
  unfold fixPart2
  simp only [rnValue_isAddress, rnValue_int?, addrOf_rn]
  split
  · cases ov.int? with
    | none => rfl
    | some t =>
      dsimp only
      cases addrOf ss t <;> rfl
  · rfl

theorem fixRelTarget_rn (ss : List Stmt) (s2 : Stmt) :
    fixRelTarget (ss.map (rnStmt ρ)) (rnStmt ρ s2) = fixRelTarget ss s2 := by
  unfold fixRelTarget
  simp only [rnStmt_operand, rnOperand_kind, rnStmt_pkg, rnPkg_additional, rnValue_int?, addrIntOf_rn]
  generalize s2.pkg.additional = a
  generalize (s2.operand.kind == OpKind.indexed || s2.operand.kind == OpKind.extIndirect) = b
  cases a with
  | expr l r op m ae =>
    cases ae with
    | false => simp only [rnValue]
    | true =>
      have := addrOffset_rn (ρ := ρ) ss (.expr l r op m true)
      simp only [rnValue] at this ⊢
      cases b
      · rfl
      · simp only [this]
  | _ => simp only [rnValue]

theorem fixPartAbs_rn (ss : List Stmt) (s2 : Stmt) :
    fixPartAbs (ss.map (rnStmt ρ)) (rnStmt ρ s2) = (fixPartAbs ss s2).map (rnStmt ρ) := by
  unfold fixPartAbs
  rw [fixRelTarget_rn]
  cases fixRelTarget ss s2 with
  | ok r => exact setNum_rn s2 _ _ _
  | _ => rfl

theorem fixPart3_rn (ss : List Stmt) (i : Nat) (s2 : Stmt) :
    fixPart3 (ss.map (rnStmt ρ)) i (rnStmt ρ s2) = (fixPart3 ss i s2).map (rnStmt ρ) := by
  unfold fixPart3
  simp only [fixPartAbs_rn, fixRelTarget_rn, addrIntOf_rn]
  dsimp +instances only [rnStmt_pkg, rnPkg_needsRes, rnPkg_choices, rnPkg_size, rnStmt_pcrHint]
  by_cases hn : s2.pkg.needsRes = true
  · rw [if_pos hn, if_pos hn]
    by_cases hc : s2.pkg.choices.isEmpty = true
    · rw [if_pos hc, if_pos hc]
    · rw [if_neg hc, if_neg hc]
      cases fixRelTarget ss s2 with
      | ok r =>
        cases addrIntOf ss i with
        | none => rfl
        | some start =>
          dsimp only
          split
          · rfl
          · exact setNum_rn s2 _ _ _
      | _ => rfl
  · rw [if_neg hn, if_neg hn]
    rfl

theorem fixNonRel_rn (ss : List Stmt) (i : Nat) (s : Stmt) (ov : Value) :
    fixNonRel (ss.map (rnStmt ρ)) i (rnStmt ρ s) (rnValue ρ ov) = (fixNonRel ss i s ov).map (rnStmt ρ) := by
  unfold fixNonRel
  rw [fixPart1_rn]
  cases fixPart1 ss s ov with
  | ok s1 =>
    simp only [Outcome.map_ok]
    rw [fixPart2_rn]
    cases fixPart2 ss ov s1 with
    | ok s2 => exact fixPart3_rn ss i s2
    | _ => rfl
  | _ => rfl

theorem fixOne_rn (ss : List Stmt) (i : Nat) (s : Stmt) :
    fixOne (ss.map (rnStmt ρ)) i (rnStmt ρ s) = (fixOne ss i s).map (rnStmt ρ) := by
  rw [fixOne_eq, fixOne_eq]
  dsimp +instances only [rnStmt_operand, rnOperand_kind, rnOperand_value]
  split
  · exact fixBranch_rn ss i s
  · generalize hv : s.operand.value = ov
    cases ov with
    | pyNone => rfl
    | _ => exact fixNonRel_rn ss i s _

theorem fitNum_ok_rn {n : Nat} {neg : Bool} {d : Nat} {v : Value} (h : fitNum n neg d = .ok v) :
    rnValue ρ v = v := by
  unfold fitNum at h
  dsimp only at h
  repeat' split at h
  all_goals first | exact numericOfInt_ok_rn h | cases h

theorem fitWidth_rn (s : Stmt) : fitWidth (rnStmt ρ s) = (fitWidth s).map (rnStmt ρ) := by
  unfold fitWidth
  dsimp +instances only [rnStmt_row, rnStmt_pkg, rnPkg_additional, rnPkg_opCode, rnPkg_postByte, rnPkg_size]
  split
  · rfl
  · cases ha : s.pkg.additional with
    | numeric n h m neg =>
      simp only [rnValue]
      cases s.pkg.opCode.hexLen? with
      | none => rfl
      | some a =>
        cases s.pkg.postByte.hexLen? with
        | none => rfl
        | some b =>
          dsimp only
          split
          · cases hv : fitNum n neg (2 * (s.pkg.size : Int) - a - b).toNat with
            | error e => rfl
            | ok v =>
              simp only [Outcome.map_ok, rnStmt_withAdditional, fitNum_ok_rn hv]
              rfl
          · rfl
    | _ => rfl

theorem fixFit_rn (ss : List Stmt) (i : Nat) (s : Stmt) :
    fixFit (ss.map (rnStmt ρ)) i (rnStmt ρ s) = (fixFit ss i s).map (rnStmt ρ) := by
  unfold fixFit
  rw [fixOne_rn]
  cases fixOne ss i s with
  | ok s1 => exact fitWidth_rn s1
  | _ => rfl

theorem fixAll_rn (ss : List Stmt) : ∀ (l : List Stmt) (i : Nat),
    fixAll (ss.map (rnStmt ρ)) i (l.map (rnStmt ρ)) = (fixAll ss i l).map (List.map (rnStmt ρ)) := by
  intro l
  induction l with
  | nil => intro i; rfl
  | cons s rest ih =>
    intro i
    rw [List.map_cons, fixAll_cons, fixAll_cons, fixFit_rn, ih]
    cases fixFit ss i s with
    | ok s' => cases fixAll ss (i + 1) rest <;> rfl
    | _ => rfl

/-! ### the FCB / FDB lists (batch 8: `evalLists` after `fixAll`)

`evalLists` reads, for a statement whose operand field is a byte / word list, the element TEXTS of the operand text that
are symbols or expressions (`pendingAt`) and evaluates them against the label table. The renaming `rnStmt` maps the
operand text by `ρ.txt`; the pass commutes with it when the elements of the renamed text are, one by one, faithful
renamings of the elements of the text (`ElemRn`): an element that is evaluated is still evaluated, `create` of the new
text is the renamed `create` of the old one, and its symbols are inside the injectivity domain `N` of `ρ`. -/

/-- the value is a byte / word list -/
def isList (v : Value) : Bool := v.isMultiByte || v.isMultiWord

/-- the element is evaluated by `evalLists` at the width of an FCB or at the width of an FDB -/
def pendingAny (x : Str) : Bool := pendingAt 2 x || pendingAt 4 x

/-- no element of the list operand text `txt` is a symbol or an expression that `evalLists` would evaluate (neither at
the width of an FCB nor at the width of an FDB): the list is a list of literals -/
def litElems (txt : Str) : Bool := (listElems txt).all (fun x => !pendingAt 2 x && !pendingAt 4 x)

theorem litElems_at {txt : Str} (h : litElems txt = true) {w : Nat} (hw : w = 2 ∨ w = 4) :
    ∀ x ∈ listElems txt, pendingAt w x = false := by
  intro x hx
  have := List.all_eq_true.mp h x hx
  simp only [Bool.and_eq_true, Bool.not_eq_true'] at this
  rcases hw with rfl | rfl
  · exact this.1
  · exact this.2

theorem litElems_any {txt : Str} (h : litElems txt = true) : ∀ x ∈ listElems txt, pendingAny x = false := by
  intro x hx
  unfold pendingAny
  rw [litElems_at h (.inl rfl) x hx, litElems_at h (.inr rfl) x hx]; rfl

theorem pendingAny_false {x : Str} (h : pendingAny x = false) {w : Nat} (hw : w = 2 ∨ w = 4) : pendingAt w x = false := by
  unfold pendingAny at h
  simp only [Bool.or_eq_false_iff] at h
  rcases hw with rfl | rfl
  · exact h.1
  · exact h.2

/-- literal elements keep their digits whatever the program and the table are -/
theorem evalElems_lit (ss ss' : List Stmt) (t t' : SymTab) (w : Nat) : ∀ (xs hs : List Str),
    (∀ x ∈ xs, pendingAt w x = false) → evalElems ss' t' w xs hs = evalElems ss t w xs hs := by
  intro xs
  induction xs with
  | nil => intro hs _; rw [evalElems_nil_left, evalElems_nil_left]
  | cons x xs ih =>
    intro hs hp
    cases hs with
    | nil => rw [evalElems_nil_right, evalElems_nil_right]
    | cons h hs =>
      rw [evalElems_cons, evalElems_cons, ih hs (fun y hy => hp y (by simp [hy]))]
      have e : ∀ (a : List Stmt) (b : SymTab), evalElem1 a b w x h = .ok h := by
        intro a b; unfold evalElem1; rw [hp x (by simp)]; rfl
      rw [e, e]

/-- `x'` is a faithful renaming of the list element text `x` at the width `w`: it is evaluated by the list pass iff `x`
is, and then `create` of `x'` is the renamed `create` of `x` and the symbols of `x` are in `N` -/
def ElemRn (ρ : Ren) (N : List Str) (w : Nat) (x x' : Str) : Prop :=
  pendingAt w x' = pendingAt w x ∧
  (pendingAt w x = true →
    create 4 x' false false true = (create 4 x false false true).map (rnValue ρ) ∧
    ∀ v, create 4 x false false true = .ok v → ∀ y ∈ valSyms v, y ∈ N)

theorem elemRn_refl (N : List Str) {w : Nat} {x : Str} (h : pendingAt w x = false) : ElemRn ρ N w x x :=
  ⟨rfl, fun h' => by rw [h] at h'; cases h'⟩

theorem elemNum_rn (ss : List Stmt) (r : Value) :
    elemNum (ss.map (rnStmt ρ)) (rnValue ρ r) = (elemNum ss r).map (rnValue ρ) := by
  unfold elemNum
  simp only [rnValue_isAddress, rnValue_int?, rnValue_isAddrExpr, addrOf_rn, addrOffset_rn]
  split
  · cases r.int? with
    | none => rfl
    | some j => dsimp only; cases addrOf ss j <;> rfl
  · split
    · cases ho : addrOffset ss r with
      | ok x => simp only [Outcome.map_ok, addrOffset_ok_rn ho]
      | _ => rfl
    · rfl

theorem elemRender_rn (w : Nat) (o : Outcome Value) : elemRender w (o.map (rnValue ρ)) = elemRender w o := by
  cases o with
  | ok v => cases v <;> rfl
  | _ => rfl

/-- (4) the element-level lemma: the evaluation of a list element commutes with the renaming -/
theorem evalElem_rn (N : List Str) (hinj : InjOn ρ.sym N) (t : SymTab) (ht : TabIn N t) (ss : List Stmt) (w : Nat)
    {x x' : Str} (hc : create 4 x' false false true = (create 4 x false false true).map (rnValue ρ))
    (hN : ∀ v, create 4 x false false true = .ok v → ∀ y ∈ valSyms v, y ∈ N) :
    evalElem (ss.map (rnStmt ρ)) (rnTab ρ t) w x' = evalElem ss t w x := by
  rw [evalElem_eq, evalElem_eq, hc]
  cases hv : create 4 x false false true with
  | error e => rfl
  | ok v =>
    simp only [Except.map]
    rw [resolve_rn N hinj t ht v (hN v hv)]
    cases v.resolve t with
    | error e => rfl
    | ok r =>
      simp only [Except.map]
      rw [elemNum_rn, elemRender_rn]

theorem evalElem1_rn (N : List Str) (hinj : InjOn ρ.sym N) (t : SymTab) (ht : TabIn N t) (ss : List Stmt) (w : Nat)
    {x x' : Str} (h : ElemRn ρ N w x x') (d : Str) :
    evalElem1 (ss.map (rnStmt ρ)) (rnTab ρ t) w x' d = evalElem1 ss t w x d := by
  unfold evalElem1
  rw [h.1]
  cases hp : pendingAt w x with
  | false => rfl
  | true =>
    obtain ⟨hc, hN⟩ := h.2 hp
    simp only [if_true]
    exact evalElem_rn N hinj t ht ss w hc hN

/-- two lists related element by element -/
inductive All2 {α β : Type} (R : α → β → Prop) : List α → List β → Prop
  | nil : All2 R [] []
  | cons {a : α} {b : β} {l : List α} {l' : List β} : R a b → All2 R l l' → All2 R (a :: l) (b :: l')

theorem All2.imp {α β : Type} {R S : α → β → Prop} (h : ∀ a b, R a b → S a b) : ∀ {l : List α} {l' : List β},
    All2 R l l' → All2 S l l'
  | _, _, .nil => .nil
  | _, _, .cons hab ht => .cons (h _ _ hab) (All2.imp h ht)

theorem evalElems_rn (N : List Str) (hinj : InjOn ρ.sym N) (t : SymTab) (ht : TabIn N t) (ss : List Stmt) (w : Nat) :
    ∀ (xs xs' hs : List Str), All2 (ElemRn ρ N w) xs xs' →
      evalElems (ss.map (rnStmt ρ)) (rnTab ρ t) w xs' hs = evalElems ss t w xs hs := by
  intro xs xs' hs hf
  induction hf generalizing hs with
  | nil => rw [evalElems_nil_left, evalElems_nil_left]
  | cons hx _ ih =>
    cases hs with
    | nil => rw [evalElems_nil_right, evalElems_nil_right]
    | cons d ds => rw [evalElems_cons, evalElems_cons, evalElem1_rn N hinj t ht ss w hx d, ih ds]

/-- the elements of the renamed list text are faithful renamings of the elements of the list text -/
def ListRn (ρ : Ren) (N : List Str) (txt : Str) : Prop :=
  All2 (fun x x' => ElemRn ρ N 2 x x' ∧ ElemRn ρ N 4 x x') (listElems txt) (listElems (ρ.txt txt))

theorem forall2_self {α : Type} {R : α → α → Prop} : ∀ (l : List α), (∀ x ∈ l, R x x) → All2 R l l
  | [], _ => .nil
  | a :: l, h => .cons (h a (by simp)) (forall2_self l (fun x hx => h x (by simp [hx])))

theorem forall2_map_right {α β : Type} {R : α → β → Prop} (f : α → β) : ∀ (l : List α), (∀ x ∈ l, R x (f x)) →
    All2 R l (l.map f)
  | [], _ => .nil
  | a :: l, h => .cons (h a (by simp)) (forall2_map_right f l (fun x hx => h x (by simp [hx])))

/-- a list of literals whose text is left alone -/
theorem listRn_lit (N : List Str) {txt : Str} (h1 : litElems txt = true) (h2 : ρ.txt txt = txt) : ListRn ρ N txt := by
  unfold ListRn
  rw [h2]
  exact forall2_self _ (fun x hx => ⟨elemRn_refl N (litElems_at h1 (.inl rfl) x hx),
    elemRn_refl N (litElems_at h1 (.inr rfl) x hx)⟩)

theorem evalList1_rn (N : List Str) (hinj : InjOn ρ.sym N) (t : SymTab) (ht : TabIn N t) (ss : List Stmt) (s : Stmt)
    (h : isList s.pkg.additional = true → ListRn ρ N s.operand.text) :
    evalList1 (rnTab ρ t) (ss.map (rnStmt ρ)) (rnStmt ρ s) = (evalList1 t ss s).map (rnStmt ρ) := by
  unfold evalList1
  have e : (rnStmt ρ s).pkg.additional = rnValue ρ s.pkg.additional := rfl
  have e2 : (rnStmt ρ s).operand.text = ρ.txt s.operand.text := rfl
  rw [e, e2]
  cases ha : s.pkg.additional with
  | multiByte hs =>
    have h1 := h (by rw [ha]; rfl)
    simp only [rnValue]
    rw [evalElems_rn N hinj t ht ss 2 _ _ hs (All2.imp (fun _ _ h => h.1) h1)]
    cases evalElems ss t 2 (listElems s.operand.text) hs <;> rfl
  | multiWord hs =>
    have h1 := h (by rw [ha]; rfl)
    simp only [rnValue]
    rw [evalElems_rn N hinj t ht ss 4 _ _ hs (All2.imp (fun _ _ h => h.2) h1)]
    cases evalElems ss t 4 (listElems s.operand.text) hs <;> rfl
  | _ => first | rfl | (simp only [rnValue]; rfl)

theorem evalLists_rn (N : List Str) (hinj : InjOn ρ.sym N) (t : SymTab) (ht : TabIn N t) (ss : List Stmt) :
    ∀ (l : List Stmt), (∀ s ∈ l, isList s.pkg.additional = true → ListRn ρ N s.operand.text) →
    evalLists (rnTab ρ t) (ss.map (rnStmt ρ)) (l.map (rnStmt ρ)) = (evalLists t ss l).map (List.map (rnStmt ρ)) := by
  intro l
  induction l with
  | nil => intro _; rfl
  | cons s rest ih =>
    intro hl
    rw [List.map_cons, evalLists_cons, evalLists_cons, evalList1_rn N hinj t ht ss s (hl s (by simp)),
      ih (fun x hx => hl x (by simp [hx]))]
    cases evalList1 t ss s with
    | ok s' => cases evalLists t ss rest <;> rfl
    | _ => rfl

theorem fixAllL_rn (N : List Str) (hinj : InjOn ρ.sym N) (t : SymTab) (ht : TabIn N t) (ss4 : List Stmt)
    (h : ∀ x, fixAll ss4 0 ss4 = .ok x → ∀ s ∈ x, isList s.pkg.additional = true → ListRn ρ N s.operand.text) :
    fixAllL (rnTab ρ t) (ss4.map (rnStmt ρ)) = (fixAllL t ss4).map (List.map (rnStmt ρ)) := by
  unfold fixAllL
  rw [fixAll_rn]
  cases hf : fixAll ss4 0 ss4 with
  | ok x =>
    simp only [Outcome.map_ok]
    exact evalLists_rn N hinj t ht x x (h x hf)
  | _ => rfl

/-- the statements as they reach the evaluation of the FCB / FDB lists: the stages of `back` up to and including
`fixAll` (the ORG check left out) -/
def preLists (ss : List Stmt) : Option (List Stmt) :=
  match buildSymTab ss 0 [] with
  | none => none
  | some t =>
    match resolveAll t ss with
    | none => none
    | some ss1 =>
      match translateAll ss1 with
      | none => none
      | some ss2 =>
        match pcrLoop (ss2.length + 1) ss2 with
        | .ok ss3 =>
          (match assignAddrs ss3 0 with
           | .ok ss4 => (match fixAll ss4 0 ss4 with | .ok x => some x | _ => none)
           | _ => none)
        | _ => none

/-- the side condition of C18-R2 about FCB / FDB lists (batch 8, generalised): for a statement that reaches the list pass
with a byte / word list as its operand field, the elements of the renamed operand text are faithful renamings
(`ListRn`, `ElemRn`) of the elements of its operand text, with their symbols in `N`. -/
def ListsOK (ρ : Ren) (N : List Str) (ss : List Stmt) : Prop :=
  ∀ x, preLists ss = some x → ∀ s ∈ x, isList s.pkg.additional = true → ListRn ρ N s.operand.text

/-- the condition of the first version of the batch: lists of literals, texts left alone -/
theorem listsOK_of_lit (N : List Str) {ss : List Stmt}
    (h : ∀ x, preLists ss = some x → ∀ s ∈ x, isList s.pkg.additional = true →
      litElems s.operand.text = true ∧ ρ.txt s.operand.text = s.operand.text) : ListsOK ρ N ss :=
  fun x hx s hs hl => listRn_lit N (h x hx s hs hl).1 (h x hx s hs hl).2


/-! ### the symbol table after layout -/

theorem evalSym_rn (N : List Str) (hinj : InjOn ρ.sym N) (t : SymTab) (ht : TabIn N t) (ss : List Stmt) (v : Value)
    (hv : ∀ x ∈ valSyms v, x ∈ N) :
    evalSym (ss.map (rnStmt ρ)) (rnTab ρ t) (rnValue ρ v) = (evalSym ss t v).map (rnValue ρ) := by
  unfold evalSym
  simp only [rnValue_isExpression, rnValue_isAddrExpr, resolve_rn N hinj t ht v hv]
  split
  · cases hr : v.resolve t with
    | error e => rfl
    | ok r =>
      simp only [Except.map, rnValue_isAddrExpr]
      by_cases hae : r.isAddrExpr = true
      · simp only [hae, if_true, addrOffset_rn]
        cases ho : addrOffset ss r with
        | ok r' =>
          have hn := addrOffset_isNumeric ho
          simp only [hn, if_true, Outcome.map_ok, rnValue_of_numeric hn]
        | _ => rfl
      · simp only [hae, if_false, Bool.false_eq_true, Outcome.map_ok, rnValue_isNumeric]
        split <;> rfl
  · rfl

theorem evalSyms_rn (N : List Str) (hinj : InjOn ρ.sym N) (t : SymTab) (ht : TabIn N t) (ss : List Stmt) :
    ∀ (x : SymTab), (∀ kv ∈ x, ∀ y ∈ valSyms kv.2, y ∈ N) →
    evalSyms (ss.map (rnStmt ρ)) (rnTab ρ t) (rnTab ρ x) = (evalSyms ss t x).map (rnTab ρ) := by
  intro x
  induction x with
  | nil => intro _; rfl
  | cons kv rest ih =>
    intro hx
    obtain ⟨k, v⟩ := kv
    have e : rnTab ρ ((k, v) :: rest) = (ρ.sym k, rnValue ρ v) :: rnTab ρ rest := rfl
    rw [e, evalSyms_cons, evalSyms_cons, evalSym_rn N hinj t ht ss v (hx (k, v) (by simp)),
      ih (fun kv hkv => hx kv (by simp [hkv]))]
    cases evalSym ss t v with
    | ok v' => cases evalSyms ss t rest <;> rfl
    | _ => rfl

theorem finalSymTab_rn (ss : List Stmt) : ∀ (x : SymTab),
    finalSymTab (ss.map (rnStmt ρ)) (rnTab ρ x) = (finalSymTab ss x).map (rnTab ρ) := by
  intro x
  induction x with
  | nil => rfl
  | cons kv rest ih =>
    obtain ⟨k, v⟩ := kv
    have e : rnTab ρ ((k, v) :: rest) = (ρ.sym k, rnValue ρ v) :: rnTab ρ rest := rfl
    rw [e, finalSymTab, finalSymTab, ih]
    cases finalSymTab ss rest with
    | ok r =>
      cases v with
      | address i m =>
        simp only [rnValue, Outcome.map_ok, addrOf_rn]
        cases addrOf ss i <;> rfl
      | _ => rfl
    | _ => rfl

/-! ### the whole back end -/

/-- the renaming of a finished assembly -/
def rnAssembly (ρ : Ren) (a : Assembly) : Assembly :=
  { stmts := a.stmts.map (rnStmt ρ), symtab := rnTab ρ a.symtab, origin := rnValue ρ a.origin,
    name := a.name.map ρ.txt }

theorem foldl_origin_rn : ∀ (l : List Stmt) (o : Value),
    (l.map (rnStmt ρ)).foldl (fun o s => if s.row.isOrigin then s.pkg.address else o) (rnValue ρ o)
      = rnValue ρ (l.foldl (fun o s => if s.row.isOrigin then s.pkg.address else o) o) := by
  intro l
  induction l with
  | nil => intro o; rfl
  | cons s rest ih =>
    intro o
    simp only [List.map_cons, List.foldl_cons]
    have e : (if (rnStmt ρ s).row.isOrigin = true then (rnStmt ρ s).pkg.address else rnValue ρ o)
        = rnValue ρ (if s.row.isOrigin = true then s.pkg.address else o) := by
      by_cases h : s.row.isOrigin = true
      · simp only [rnStmt_row, h, if_true]; rfl
      · simp only [rnStmt_row, h, if_false, Bool.false_eq_true]
    rw [e]
    exact ih _

theorem foldl_name_rn : ∀ (l : List Stmt) (o : Option Str),
    (l.map (rnStmt ρ)).foldl (fun o s => if s.row.isName then some s.operand.text else o) (o.map ρ.txt)
      = (l.foldl (fun o s => if s.row.isName then some s.operand.text else o) o).map ρ.txt := by
  intro l
  induction l with
  | nil => intro o; rfl
  | cons s rest ih =>
    intro o
    simp only [List.map_cons, List.foldl_cons]
    have e : (if (rnStmt ρ s).row.isName = true then some (rnStmt ρ s).operand.text else o.map ρ.txt)
        = (if s.row.isName = true then some s.operand.text else o).map ρ.txt := by
      by_cases h : s.row.isName = true
      · simp only [rnStmt_row, h, if_true]; rfl
      · simp only [rnStmt_row, h, if_false, Bool.false_eq_true]
    rw [e]
    exact ih _

/-- the labels of the statements that enter the ORG check are those of the statements given to `back` -/
theorem labels_kept {t : SymTab} {n : Nat} {ss ss1 ss2 ss3 : List Stmt} (h1 : resolveAll t ss = some ss1)
    (h2 : translateAll ss1 = some ss2) (h3 : pcrLoop n ss2 = .ok ss3) :
    ∀ s3 ∈ ss3, ∃ s ∈ ss, s3.label = s.label := by
  intro s3 hs3
  obtain ⟨j, hj⟩ := List.getElem?_of_mem hs3
  obtain ⟨s2, hs2, _, _, _, _, _, e3⟩ := (pcrLoop_pw _ _ h3).get' hj
  obtain ⟨s1, hs1, p, _, e2⟩ := (translateAll_pw h2).get' hs2
  obtain ⟨s0, hs0, o, _, e1⟩ := (resolveAll_pw h1).get' hs1
  refine ⟨s0, List.mem_of_getElem? hs0, ?_⟩
  rw [e3, e2, e1]

theorem back_rn (ss : List Stmt) (N : List Str) (hinj : InjOn ρ.sym N)
    (hN : ∀ s ∈ ss, ∀ x ∈ stmtNames s, x ∈ N) (hok : ∀ s ∈ ss, StmtOK ρ s) (hlists : ListsOK ρ N ss) :
    back (ss.map (renameStmt ρ)) = (back ss).map (rnAssembly ρ) := by
  unfold back
  have hb := buildSymTab_rn (R := ρ) N hinj ss 0 []
    (fun s hs hl => ⟨hN s hs _ (by simp [stmtNames, hl]), (hok s hs).label hl⟩) (by intro kv hkv; cases hkv)
  rw [show rnTab ρ [] = [] from rfl] at hb
  rw [hb]
  cases hbt : buildSymTab ss 0 [] with
  | none => rfl
  | some t =>
    have ht : TabIn N t := buildSymTab_tabIn N ss 0 [] t hN (by intro kv hkv; cases hkv) hbt
    simp only [Option.map_some]
    rw [resolveAll_rn N hinj t ht ss hN (fun s hs => (hok s hs).side)]
    cases hr : resolveAll t ss with
    | none => rfl
    | some ss1 =>
      simp only [Option.map_some]
      rw [translateAll_rn ss1 (resolveAll_stmtOK hr hok)]
      cases htr : translateAll ss1 with
      | none => rfl
      | some ss2 =>
        simp only [Option.map_some, List.length_map]
        rw [pcrLoop_rn]
        cases hp : pcrLoop (ss2.length + 1) ss2 with
        | ok ss3 =>
          simp only [Outcome.map_ok]
          have hlab : ∀ s ∈ ss3, s.label ≠ [] → ρ.sym s.label ≠ [] := by
            intro s3 hs3
            obtain ⟨s0, hs0, e⟩ := labels_kept hr htr hp s3 hs3
            rw [e]; exact (hok s0 hs0).label
          rw [orgOK_rn ss3 false hlab]
          by_cases ho : orgOK ss3 false = true
          · simp only [ho, Bool.not_true, Bool.false_eq_true, if_false]
            rw [assignAddrs_rn]
            cases ha : assignAddrs ss3 0 with
            | ok ss4 =>
              simp only [Outcome.map_ok]
              rw [fixAllL_rn N hinj t ht ss4 (fun x hx => hlists x (by unfold preLists; simp only [hbt, hr, htr, hp, ha, hx]))]
              cases hf : fixAllL t ss4 with
              | ok ss5 =>
                simp only [Outcome.map_ok]
                rw [evalSyms_rn N hinj t ht ss5 t (fun kv hkv => (ht kv hkv).2)]
                cases he : evalSyms ss5 t t with
                | ok t1 =>
                  simp only [Outcome.map_ok]
                  rw [finalSymTab_rn]
                  cases hfin : finalSymTab ss5 t1 with
                  | ok t' =>
                    simp only [Outcome.map_ok, rnAssembly]
                    have e1 := foldl_origin_rn (ρ := ρ) ss5 Value.none
                    have e2 := foldl_name_rn (ρ := ρ) ss5 none
                    rw [show rnValue ρ Value.none = Value.none from rfl] at e1
                    rw [show Option.map ρ.txt (none : Option Str) = none from rfl] at e2
                    rw [e1, e2]
                  | _ => rfl
                | _ => rfl
              | _ => rfl
            | _ => rfl
          · have ho' : orgOK ss3 false = false := by simpa using ho
            simp only [ho', Bool.not_false, if_true]
            rfl
        | _ => rfl

end CoCo.Asm.Rename
