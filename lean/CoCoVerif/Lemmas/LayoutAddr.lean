/-
Lemmas/LayoutAddr.lean — address assignment: the chain `address(next) = address + size`, the
telescoping sum of sizes, and the frame lemmas that carry the chain through `fixAll`.
-/
import CoCoVerif.Lemmas.LayoutRel

namespace CoCo.Asm
open CoCo

/-- the address of a statement as a number -/
def addrNat (s : Stmt) : Option Nat := s.pkg.address.int?

/-- the statement carries an address before `assignAddrs` runs (only ORG does, see `translate_preset`) -/
def Stmt.preset (s : Stmt) : Bool := !s.pkg.address.isNone

theorem numV_int {a : Nat} {v : Value} (h : numV a = .ok v) : v.int? = some a := by
  unfold numV numericOfInt at h
  split at h
  · cases h
  · simp only [Except.ok.injEq] at h
    subst h; simp [Value.int?]

/-- `assignAddrs` sets nothing but `pkg.address` -/
def AddrRel (s s' : Stmt) : Prop := ∃ v, s' = { s with pkg := { s.pkg with address := v } }

theorem assignAddrs_cons {s : Stmt} {rest l' : List Stmt} {a : Nat} (h : assignAddrs (s :: rest) a = .ok l') :
    ∃ s' r a0, l' = s' :: r ∧ AddrRel s s' ∧ addrNat s' = some a0 ∧ (s.preset = false → a0 = a) ∧
      (s.preset = true → s' = s) ∧ assignAddrs rest (a0 + s.pkg.size) = .ok r := by
  unfold assignAddrs at h
  split at h
  · rename_i hn
    split at h
    · rename_i v hv
      cases hr : assignAddrs rest (a + s.pkg.size) with
      | ok r =>
        rw [hr] at h; cases h
        exact ⟨_, r, a, rfl, ⟨v, rfl⟩, numV_int hv, fun _ => rfl, fun hp => by simp [Stmt.preset, hn] at hp, hr⟩
      | _ => rw [hr] at h; cases h
    · cases h
  · rename_i hn
    split at h
    · rename_i a' ha
      cases hr : assignAddrs rest (a' + s.pkg.size) with
      | ok r =>
        rw [hr] at h; cases h
        exact ⟨s, r, a', rfl, ⟨_, rfl⟩, ha, fun hp => by simp [Stmt.preset, hn] at hp, fun _ => rfl, hr⟩
      | _ => rw [hr] at h; cases h
    · cases h

theorem assignAddrs_pw {l l' : List Stmt} {a : Nat} (h : assignAddrs l a = .ok l') : PW AddrRel l l' := by
  induction l generalizing a l' with
  | nil => simp [assignAddrs] at h; subst h; exact .nil
  | cons s rest ih =>
    obtain ⟨s', r, a0, rfl, hrel, _, _, _, hr⟩ := assignAddrs_cons h
    exact .cons hrel (ih hr)

/-- `Chained ps l a`: every statement of `l` has a numeric address; a statement whose flag in `ps` is
`false` (not preset) sits at the running address `a`; the running address then advances by the size. -/
def Chained : List Bool → List Stmt → Nat → Prop
  | [], [], _ => True
  | p :: ps, s :: r, a => ∃ a0, addrNat s = some a0 ∧ (p = false → a0 = a) ∧ Chained ps r (a0 + s.pkg.size)
  | _, _, _ => False

theorem assignAddrs_chained {l l' : List Stmt} {a : Nat} (h : assignAddrs l a = .ok l') :
    Chained (l.map Stmt.preset) l' a := by
  induction l generalizing a l' with
  | nil => simp [assignAddrs] at h; subst h; simp [Chained]
  | cons s rest ih =>
    obtain ⟨s', r, a0, rfl, hrel, ha, hp, _, hr⟩ := assignAddrs_cons h
    obtain ⟨v, rfl⟩ := hrel
    exact ⟨a0, ha, hp, ih hr⟩

/-- the chain only looks at addresses and sizes -/
theorem Chained.congr {ps : List Bool} {l l' : List Stmt} {a : Nat} (h : Chained ps l a)
    (hp : PW (fun s s' => s'.pkg.address = s.pkg.address ∧ s'.pkg.size = s.pkg.size) l l') : Chained ps l' a := by
  induction l generalizing ps l' a with
  | nil =>
    have : l' = [] := List.eq_nil_of_length_eq_zero (by simpa using hp.1)
    subst this; exact h
  | cons s r ih =>
    cases l' with
    | nil => have := hp.1; simp at this
    | cons s' r' =>
      cases ps with
      | nil => simp [Chained] at h
      | cons p ps =>
        obtain ⟨a0, h1, h2, h3⟩ := h
        have h0 := hp.2 0 s s' (by simp) (by simp)
        have hr : PW (fun s s' => s'.pkg.address = s.pkg.address ∧ s'.pkg.size = s.pkg.size) r r' :=
          ⟨by have := hp.1; simpa using this, fun j a b ha hb => hp.2 (j + 1) a b (by simpa using ha) (by simpa using hb)⟩
        refine ⟨a0, by simpa [addrNat, h0.1] using h1, h2, ?_⟩
        rw [h0.2]; exact ih h3 hr

theorem Chained.length_eq {ps : List Bool} {l : List Stmt} {a : Nat} (h : Chained ps l a) : ps.length = l.length := by
  induction l generalizing ps a with
  | nil => cases ps <;> simp_all [Chained]
  | cons s r ih =>
    cases ps with
    | nil => simp [Chained] at h
    | cons p ps => obtain ⟨_, _, _, h3⟩ := h; simp [ih h3]

theorem Chained.isSome {ps : List Bool} {l : List Stmt} {a : Nat} (h : Chained ps l a) {j : Nat} {s : Stmt}
    (hs : l[j]? = some s) : ∃ x, addrNat s = some x := by
  induction l generalizing ps a j with
  | nil => simp at hs
  | cons s0 r ih =>
    cases ps with
    | nil => simp [Chained] at h
    | cons p ps =>
      obtain ⟨a0, h1, _, h3⟩ := h
      cases j with
      | zero => simp at hs; subst hs; exact ⟨a0, h1⟩
      | succ j => simp at hs; exact ih h3 hs

theorem Chained.head {ps : List Bool} {l : List Stmt} {a : Nat} (h : Chained ps l a) {s : Stmt}
    (hs : l[0]? = some s) (hp : ps[0]? = some false) : addrNat s = some a := by
  cases l with
  | nil => simp at hs
  | cons s0 r =>
    cases ps with
    | nil => simp at hp
    | cons p ps =>
      simp at hs hp; subst hs hp
      obtain ⟨a0, h1, h2, _⟩ := h
      rw [h1, h2 rfl]

/-- consecutive statements: the second one, when not preset, starts where the first one ends -/
theorem Chained.step {ps : List Bool} {l : List Stmt} {a : Nat} (h : Chained ps l a) {j : Nat} {s t : Stmt}
    (hs : l[j]? = some s) (ht : l[j + 1]? = some t) (hp : ps[j + 1]? = some false) :
    addrNat t = (addrNat s).map (· + s.pkg.size) := by
  induction l generalizing ps a j with
  | nil => simp at hs
  | cons s0 r ih =>
    cases ps with
    | nil => simp [Chained] at h
    | cons p ps =>
      obtain ⟨a0, h1, _, h3⟩ := h
      cases j with
      | zero =>
        simp at hs ht hp; subst hs
        rw [h3.head (by simpa using ht) (by simpa using hp), h1]; rfl
      | succ j =>
        simp at hs ht hp
        exact ih h3 hs (by simpa using ht) (by simpa using hp)

/-! ### sums of sizes -/

theorem foldl_sizes (l : List Stmt) (a b : Nat) :
    (l.foldl (fun (a : Nat × Nat) s => (a.1 + s.pkg.size, a.2 + s.pkg.maxSize)) (a, b)).1
      = a + (l.map (·.pkg.size)).sum := by
  induction l generalizing a b with
  | nil => simp
  | cons s r ih => simp [ih]; omega

theorem sumSize_eq (ss : List Stmt) (lo hi : Nat) :
    sumSize ss lo hi = (((ss.drop lo).take (hi - lo)).map (·.pkg.size)).sum := by
  simp [sumSize, sumSizes, foldl_sizes]

theorem sumSize_self (ss : List Stmt) (lo : Nat) : sumSize ss lo lo = 0 := by simp [sumSize_eq]

theorem sumSize_succ {ss : List Stmt} {lo hi : Nat} {s : Stmt} (hlo : lo ≤ hi) (hs : ss[hi]? = some s) :
    sumSize ss lo (hi + 1) = sumSize ss lo hi + s.pkg.size := by
  have hlen : hi < ss.length := by
    rcases Nat.lt_or_ge hi ss.length with h | h
    · exact h
    · rw [List.getElem?_eq_none_iff.mpr h] at hs; cases hs
  rw [sumSize_eq, sumSize_eq]
  have h1 : hi + 1 - lo = (hi - lo) + 1 := by omega
  have h2 : (ss.drop lo)[hi - lo]? = some s := by rw [List.getElem?_drop]; rw [← hs]; congr 1; omega
  have hlt : hi - lo < (ss.drop lo).length := by simp; omega
  rw [h1, List.take_succ_eq_append_getElem hlt]
  have : (ss.drop lo)[hi - lo] = s := by
    have := List.getElem?_eq_getElem hlt; rw [h2] at this; cases this; rfl
  simp [this]

/-- statements of index `i+1 ≤ j ≤ hi` not preset: the address of statement `hi` is the address of statement
`lo` plus the sizes of the statements in between (the telescoping sum used for branch displacements) -/
theorem Chained.telescope {ps : List Bool} {l : List Stmt} {a : Nat} (h : Chained ps l a) {lo hi : Nat}
    (hle : lo ≤ hi) {s t : Stmt} (hs : l[lo]? = some s) (ht : l[hi]? = some t)
    (hp : ∀ j, lo < j → j ≤ hi → ps[j]? = some false) {x : Nat} (hx : addrNat s = some x) :
    addrNat t = some (x + sumSize l lo hi) := by
  induction hi generalizing t with
  | zero =>
    have : lo = 0 := by omega
    subst this; rw [hs] at ht; cases ht; simp [sumSize_self, hx]
  | succ hi ih =>
    rcases Nat.eq_or_lt_of_le hle with heq | hlt
    · subst heq; rw [hs] at ht; cases ht; simp [sumSize_self, hx]
    · have hle' : lo ≤ hi := by omega
      have hlen : hi + 1 < l.length := by
        rcases Nat.lt_or_ge (hi + 1) l.length with h | h
        · exact h
        · rw [List.getElem?_eq_none_iff.mpr h] at ht; cases ht
      have hm : l[hi]? = some l[hi] := List.getElem?_eq_getElem (by omega)
      have hmid := ih hle' hm (fun j h1 h2 => hp j h1 (by omega))
      have hstep := h.step hm ht (hp (hi + 1) (by omega) (Nat.le_refl _))
      rw [hstep, hmid, sumSize_succ hle' hm]
      simp; omega

end CoCo.Asm
