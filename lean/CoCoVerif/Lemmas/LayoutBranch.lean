/-
Lemmas/LayoutBranch.lean — `fixOne` on relative (branch) statements and on PCR statements.
-/
import CoCoVerif.Lemmas.LayoutTrace
import CoCoVerif.Spec.MC6809

namespace CoCo.Asm
open CoCo
open CoCo.Spec.MC6809 (sext)

theorem numericOfInt_nat {n : Nat} (h : n ≤ 65535) (hint : Nat) :
    numericOfInt (n : Int) (some hint) .none = .ok (.numeric n (some hint) .extended false) := by
  unfold numericOfInt
  have h1 : ¬ ((n : Int) > 65535) := by omega
  have h2 : ¬ ((n : Int) < 0) := by omega
  simp [h1, h2, postInit, initHint]

theorem numericOfInt_big {z : Int} (h : z > 65535) (hint : Option Nat) (m : Mode) :
    numericOfInt z hint m = .error .valueType := by
  unfold numericOfInt; simp [h]

/-- `fixOne` on a relative statement, as a function of the target index `b` -/
theorem fixOne_relative {ss : List Stmt} {i : Nat} {s : Stmt} {b : Nat}
    (hk : s.operand.kind = .relative) (hb : s.pkg.additional.int? = some b) :
    fixOne ss i s =
      if b ≤ i then
        (if (s.row.isShortBranch = true ∧ 1 + sumSize ss b (i + 1) > 129) ∨ 1 + sumSize ss b (i + 1) > 0x10000 then .diag
         else match numericOfInt ((if s.row.isShortBranch = true then (0x101 : Int) else 0x10001) - (1 + sumSize ss b (i + 1) : Nat))
                 (some (if s.row.isShortBranch = true then 2 else 4)) .none with
           | .ok v => .ok { s with pkg := { s.pkg with additional := v } }
           | .error _ => .internal)
      else
        (if (s.row.isShortBranch = true ∧ sumSize ss (i + 1) b > 127) ∨ sumSize ss (i + 1) b > 0xFFFF then .diag
         else match numericOfInt (sumSize ss (i + 1) b : Nat) (some (if s.row.isShortBranch = true then 2 else 4)) .none with
           | .ok v => .ok { s with pkg := { s.pkg with additional := v } }
           | .error _ => .internal) := by
  unfold fixOne
  simp only [hk, beq_self_eq_true, if_true, hb]
  rfl

/-- (batch 8) a branch field is a number after `fixOne` (so the pass over the lists leaves it alone) -/
theorem fixOne_relative_isNumeric {ss : List Stmt} {i : Nat} {s s1 : Stmt}
    (hk : s.operand.kind = .relative) (h : fixOne ss i s = .ok s1) : s1.pkg.additional.isNumeric = true := by
  cases hb : s.pkg.additional.int? with
  | none => unfold fixOne at h; simp only [hk, beq_self_eq_true, if_true, hb] at h; cases h
  | some b =>
    rw [fixOne_relative hk hb] at h
    split at h
    · split at h
      · cases h
      · split at h
        · rename_i v hv; cases h; exact EL.numericOfInt_isNumeric hv
        · cases h
    · split at h
      · cases h
      · split at h
        · rename_i v hv; cases h; exact EL.numericOfInt_isNumeric hv
        · cases h

/-- the value stored for a branch: `n` with the size hint of the branch class -/
def branchValue (short : Bool) (n : Nat) : Value := .numeric n (some (if short then 2 else 4)) .extended false

def withAdditional (s : Stmt) (v : Value) : Stmt := { s with pkg := { s.pkg with additional := v } }

section
variable {ss : List Stmt} {i : Nat} {s : Stmt} {b : Nat}
  (hk : s.operand.kind = .relative) (hb : s.pkg.additional.int? = some b)
include hk hb

/-- out of range is reported for short branches that do not fit a byte and (after fix 145359a) for any branch
whose distance does not fit the 16-bit field -/
theorem fixOne_relative_diag_iff :
    fixOne ss i s = .diag ↔
      (s.row.isShortBranch = true ∧ (if b ≤ i then sumSize ss b (i + 1) > 128 else sumSize ss (i + 1) b > 127)) ∨
      (if b ≤ i then sumSize ss b (i + 1) > 65535 else sumSize ss (i + 1) b > 65535) := by
  rw [fixOne_relative hk hb]
  by_cases hbi : b ≤ i
  · simp only [hbi, if_true]
    by_cases hc : (s.row.isShortBranch = true ∧ 1 + sumSize ss b (i + 1) > 129) ∨ 1 + sumSize ss b (i + 1) > 0x10000
    · rw [if_pos hc]; simp only [true_iff]
      rcases hc with hc | hc
      · exact Or.inl ⟨hc.1, by omega⟩
      · exact Or.inr (by omega)
    · rw [if_neg hc]
      constructor
      · intro h; split at h <;> cases h
      · intro h; exfalso; apply hc
        rcases h with h | h
        · exact Or.inl ⟨h.1, by omega⟩
        · exact Or.inr (by omega)
  · simp only [hbi, if_false]
    by_cases hc : (s.row.isShortBranch = true ∧ sumSize ss (i + 1) b > 127) ∨ sumSize ss (i + 1) b > 0xFFFF
    · rw [if_pos hc]; simp only [true_iff]; exact hc
    · rw [if_neg hc]
      constructor
      · intro h; split at h <;> cases h
      · intro h; exact absurd h hc

/-- (after fix 145359a) `fix_addresses` on a relative statement whose `additional` has an `int` never ends in
an internal error, provided a long branch statement itself has a size (the sum over `b..i` is not 0;
otherwise a long backward branch would compute the offset 65536) -/
theorem fixOne_relative_ne_internal (hpos : s.row.isShortBranch = false → b ≤ i → 1 ≤ sumSize ss b (i + 1)) :
    fixOne ss i s ≠ .internal := by
  rw [fixOne_relative hk hb]
  by_cases hbi : b ≤ i
  · simp only [hbi, if_true]
    split
    · simp
    · rename_i hc
      have hle : 1 + sumSize ss b (i + 1) ≤ 0x10000 := by omega
      have hpos := fun h => hpos h hbi
      generalize sumSize ss b (i + 1) = n at hle hc hpos
      have : ¬ ((if s.row.isShortBranch = true then (0x101 : Int) else 0x10001) - ((1 + n : Nat) : Int) > 65535) := by
        cases hsb : s.row.isShortBranch
        · have := hpos hsb; simp; omega
        · simp; omega
      unfold numericOfInt
      simp only [this, if_false]
      simp
  · simp only [hbi, if_false]
    split
    · simp
    · rename_i hc
      have hle : sumSize ss (i + 1) b ≤ 0xFFFF := by omega
      rw [numericOfInt_nat (by omega)]
      simp

theorem fixOne_short_backward (hs : s.row.isShortBranch = true) (hbi : b ≤ i)
    (h1 : 1 ≤ sumSize ss b (i + 1)) (h2 : sumSize ss b (i + 1) ≤ 128) :
    fixOne ss i s = .ok (withAdditional s (branchValue true (256 - sumSize ss b (i + 1)))) ∧
      256 - sumSize ss b (i + 1) < 256 ∧
      sext (256 - sumSize ss b (i + 1)) 8 = -(sumSize ss b (i + 1) : Int) := by
  rw [fixOne_relative hk hb]
  generalize sumSize ss b (i + 1) = n at h1 h2
  have hc : ¬ ((s.row.isShortBranch = true ∧ 1 + n > 129) ∨ 1 + n > 0x10000) := by omega
  simp only [hbi, if_true]
  rw [if_neg hc]
  simp only [hs, if_true]
  have he : ((0x101 : Int) - ((1 + n : Nat) : Int)) = ((256 - n : Nat) : Int) := by omega
  rw [he, numericOfInt_nat (by omega)]
  refine ⟨rfl, by omega, ?_⟩
  unfold sext
  have : (2 : Nat) ^ (8 - 1) = 128 := by decide
  have h8 : (2 : Nat) ^ 8 = 256 := by decide
  rw [this, h8]
  have : 256 - n ≥ 128 := by omega
  simp only [this, if_true]
  omega

theorem fixOne_short_forward (hs : s.row.isShortBranch = true) (hbi : ¬ b ≤ i)
    (h2 : sumSize ss (i + 1) b ≤ 127) :
    fixOne ss i s = .ok (withAdditional s (branchValue true (sumSize ss (i + 1) b))) ∧
      sext (sumSize ss (i + 1) b) 8 = (sumSize ss (i + 1) b : Int) := by
  rw [fixOne_relative hk hb]
  generalize sumSize ss (i + 1) b = n at h2
  have hc : ¬ ((s.row.isShortBranch = true ∧ n > 127) ∨ n > 0xFFFF) := by omega
  simp only [hbi, if_false]
  rw [if_neg hc]
  simp only [hs, if_true]
  rw [numericOfInt_nat (by omega)]
  refine ⟨rfl, ?_⟩
  unfold sext
  have : (2 : Nat) ^ (8 - 1) = 128 := by decide
  rw [this]
  have : ¬ n ≥ 128 := by omega
  simp only [this, if_false]

theorem fixOne_long_backward (hs : s.row.isShortBranch = false) (hbi : b ≤ i)
    (h1 : 1 ≤ sumSize ss b (i + 1)) (h2 : sumSize ss b (i + 1) ≤ 65535) :
    fixOne ss i s = .ok (withAdditional s (branchValue false (65536 - sumSize ss b (i + 1)))) ∧
      65536 - sumSize ss b (i + 1) < 65536 ∧
      sext (65536 - sumSize ss b (i + 1)) 16 % 65536 = (-(sumSize ss b (i + 1) : Int)) % 65536 := by
  rw [fixOne_relative hk hb]
  generalize sumSize ss b (i + 1) = n at h1 h2
  have hc : ¬ (1 + n > 0x10000) := by omega
  simp only [hbi, if_true, hs, Bool.false_eq_true, false_and, if_false, false_or, hc]
  have he : ((0x10001 : Int) - ((1 + n : Nat) : Int)) = ((65536 - n : Nat) : Int) := by omega
  rw [he, numericOfInt_nat (by omega)]
  refine ⟨rfl, by omega, ?_⟩
  unfold sext
  have : (2 : Nat) ^ (16 - 1) = 32768 := by decide
  have h8 : (2 : Nat) ^ 16 = 65536 := by decide
  rw [this, h8]
  split <;> omega

theorem fixOne_long_forward (hs : s.row.isShortBranch = false) (hbi : ¬ b ≤ i)
    (h2 : sumSize ss (i + 1) b ≤ 65535) :
    fixOne ss i s = .ok (withAdditional s (branchValue false (sumSize ss (i + 1) b))) ∧
      sext (sumSize ss (i + 1) b) 16 % 65536 = (sumSize ss (i + 1) b : Int) % 65536 := by
  rw [fixOne_relative hk hb]
  generalize sumSize ss (i + 1) b = n at h2
  have hc : ¬ (n > 0xFFFF) := by omega
  simp only [hbi, if_false, hs, Bool.false_eq_true, false_and, false_or, hc]
  rw [numericOfInt_nat (by omega)]
  refine ⟨rfl, ?_⟩
  unfold sext
  have : (2 : Nat) ^ (16 - 1) = 32768 := by decide
  have h8 : (2 : Nat) ^ 16 = 65536 := by decide
  rw [this, h8]
  split <;> omega

end

/-! ### PCR statements -/

/-- (batch B2) the step also says the range check of the 8-bit form passed -/
theorem fixStep3_pcr_in {ss : List Stmt} {i : Nat} {s2 s' : Stmt} (hn : s2.pkg.needsRes = true)
    (hc : s2.pkg.choices.isEmpty = false) (h : fixStep3 ss i s2 = .ok s') :
    ∃ r start v, fixRel ss s2 = .ok r ∧ addrIntOf ss i = some start ∧
      numericOfInt (pcrJump s2 r start) (some s2.pcrHint) .none = .ok v ∧ s' = withAdditional s2 v ∧
      ¬ pcrOut s2 r start := by
  unfold fixStep3 at h
  rw [if_pos hn, if_neg (by simp [hc])] at h
  split at h
  · rename_i r start hr hst
    split at h
    · cases h
    · rename_i hout
      split at h
      · rename_i v hv; cases h; exact ⟨r, start, v, hr, hst, hv, rfl, hout⟩
      · cases h
  · cases h
  · cases h
  · cases h

theorem fixStep3_pcr {ss : List Stmt} {i : Nat} {s2 s' : Stmt} (hn : s2.pkg.needsRes = true)
    (hc : s2.pkg.choices.isEmpty = false) (h : fixStep3 ss i s2 = .ok s') :
    ∃ r start v, fixRel ss s2 = .ok r ∧ addrIntOf ss i = some start ∧
      numericOfInt (pcrJump s2 r start) (some s2.pcrHint) .none = .ok v ∧ s' = withAdditional s2 v := by
  obtain ⟨r, start, v, h1, h2, h3, h4, _⟩ := fixStep3_pcr_in hn hc h
  exact ⟨r, start, v, h1, h2, h3, h4⟩

/-- (batch B3) a label as constant offset (`needsRes` without choices): the target address itself is stored, in the
16-bit field -/
theorem fixStep3_abs {ss : List Stmt} {i : Nat} {s2 s' : Stmt} (hn : s2.pkg.needsRes = true)
    (hc : s2.pkg.choices.isEmpty = true) (h : fixStep3 ss i s2 = .ok s') :
    ∃ r v, fixRel ss s2 = .ok r ∧ numericOfInt (r : Int) (some 4) .none = .ok v ∧ s' = withAdditional s2 v := by
  unfold fixStep3 at h
  rw [if_pos hn, if_pos hc] at h
  unfold fixAbs at h
  split at h
  · rename_i r hr
    split at h
    · rename_i v hv; cases h; exact ⟨r, v, hr, hv, rfl⟩
    · cases h
  · cases h
  · cases h

/-- the target of a PCR operand whose offset is a plain label: the address of the statement it names -/
theorem fixRel_plain {ss : List Stmt} {s2 : Stmt} {t : Nat}
    (he : s2.pkg.additional.isAddrExpr = false) (ht : s2.pkg.additional.int? = some t) :
    fixRel ss s2 = (match addrIntOf ss t with | some a => .ok a | none => .internal : Outcome Nat) := by
  unfold fixRel
  dsimp only
  split
  · rename_i e _ heq
    exfalso
    split at heq
    · rename_i h2; rw [h2] at he; simp [Value.isAddrExpr] at he
    · cases heq
  · simp only [ht]
    cases addrIntOf ss t <;> rfl

/-- `fix_addresses` on a PCR statement: the stored offset is `target − own address − own size`
(reduced mod 65536 when the 16-bit form was chosen) -/
theorem fixOne_pcr {ss : List Stmt} {i : Nat} {s s' : Stmt} (hk : (s.operand.kind == .relative) = false)
    (hv1 : s.operand.value.isAddrExpr = false) (hv2 : s.operand.value.isAddress = false)
    (hv3 : s.operand.value ≠ .pyNone) (hn : s.pkg.needsRes = true) (hc : s.pkg.choices.isEmpty = false)
    (h : fixOne ss i s = .ok s') :
    ∃ r start v, fixRel ss s = .ok r ∧ addrIntOf ss i = some start ∧
      numericOfInt (pcrJump s r start) (some s.pcrHint) .none = .ok v ∧ s' = withAdditional s v := by
  rw [fixOne_nonrel ss i s hk hv3] at h
  have h1 : fixStep1 ss s = .ok s := by unfold fixStep1; simp [hv1]
  have h2 : fixStep2 ss s.operand.value s = .ok s := by unfold fixStep2; simp [hv2]
  rw [h1] at h
  simp only [Outcome.bind] at h
  rw [h2] at h
  exact fixStep3_pcr hn hc h

/-- (batch B2, with the range check) `fix_addresses` on a PCR statement: the stored offset is `target − own address − own size`
(reduced mod 65536 when the 16-bit form was chosen) -/
theorem fixOne_pcr_in {ss : List Stmt} {i : Nat} {s s' : Stmt} (hk : (s.operand.kind == .relative) = false)
    (hv1 : s.operand.value.isAddrExpr = false) (hv2 : s.operand.value.isAddress = false)
    (hv3 : s.operand.value ≠ .pyNone) (hn : s.pkg.needsRes = true) (hc : s.pkg.choices.isEmpty = false)
    (h : fixOne ss i s = .ok s') :
    ∃ r start v, fixRel ss s = .ok r ∧ addrIntOf ss i = some start ∧
      numericOfInt (pcrJump s r start) (some s.pcrHint) .none = .ok v ∧ s' = withAdditional s v ∧
      ¬ pcrOut s r start := by
  rw [fixOne_nonrel ss i s hk hv3] at h
  have h1 : fixStep1 ss s = .ok s := by unfold fixStep1; simp [hv1]
  have h2 : fixStep2 ss s.operand.value s = .ok s := by unfold fixStep2; simp [hv2]
  rw [h1] at h
  simp only [Outcome.bind] at h
  rw [h2] at h
  exact fixStep3_pcr_in hn hc h

/-! ### sums of sizes and addresses -/

theorem sumSize_head {l : List Stmt} {i b : Nat} {s : Stmt} (hib : i < b) (hs : l[i]? = some s) :
    sumSize l i b = s.pkg.size + sumSize l (i + 1) b := by
  have hlt : i < l.length := by
    rcases Nat.lt_or_ge i l.length with h | h
    · exact h
    · rw [List.getElem?_eq_none_iff.mpr h] at hs; cases hs
  have hsi : l[i] = s := by
    have := List.getElem?_eq_getElem hlt; rw [hs] at this; cases this; rfl
  rw [sumSize_eq, sumSize_eq]
  have h1 : l.drop i = s :: l.drop (i + 1) := by rw [← hsi]; exact List.drop_eq_getElem_cons hlt
  have h2 : b - i = (b - (i + 1)) + 1 := by omega
  rw [h1, h2, List.take_succ_cons]
  simp

theorem sumSize_congr {l l' : List Stmt} (h : PW (fun s s' => s'.pkg.size = s.pkg.size) l l') (lo hi : Nat) :
    sumSize l' lo hi = sumSize l lo hi := by
  have hm : l'.map (·.pkg.size) = l.map (·.pkg.size) := by
    apply List.ext_getElem?
    intro j
    simp only [List.getElem?_map]
    cases hj : l[j]? with
    | none =>
      have : l.length ≤ j := List.getElem?_eq_none_iff.mp hj
      rw [List.getElem?_eq_none_iff.mpr (by rw [h.1]; exact this)]
    | some s =>
      obtain ⟨s', hs', hr⟩ := h.get hj
      simp [hs', hr]
  rw [sumSize_eq, sumSize_eq, List.map_take, List.map_drop, List.map_take, List.map_drop, hm]

/-- a backward branch: the end of the branch statement is the target plus the sizes of statements `b..i` -/
theorem Chained.backward {ps : List Bool} {l : List Stmt} {a : Nat} (h : Chained ps l a) {b i : Nat} {s t : Stmt}
    {x y : Nat} (hbi : b ≤ i) (hs : l[i]? = some s) (ht : l[b]? = some t)
    (hp : ∀ j, b < j → j ≤ i → ps[j]? = some false) (hx : addrNat s = some x) (hy : addrNat t = some y) :
    x + s.pkg.size = y + sumSize l b (i + 1) := by
  have := h.telescope hbi ht hs hp hy
  rw [hx] at this; cases this
  rw [sumSize_succ hbi hs]; omega

/-- a forward branch: the target is the end of the branch statement plus the sizes of the statements in between -/
theorem Chained.forward {ps : List Bool} {l : List Stmt} {a : Nat} (h : Chained ps l a) {b i : Nat} {s t : Stmt}
    {x y : Nat} (hib : i < b) (hs : l[i]? = some s) (ht : l[b]? = some t)
    (hp : ∀ j, i < j → j ≤ b → ps[j]? = some false) (hx : addrNat s = some x) (hy : addrNat t = some y) :
    y = x + s.pkg.size + sumSize l (i + 1) b := by
  have := h.telescope (Nat.le_of_lt hib) hs ht hp hx
  rw [hy] at this; cases this
  rw [sumSize_head hib hs]; omega

/-! ### from the translated statement to the statement that enters `fixAll` -/

theorem translate_relative {o : Operand} {row : Gen.InstrRow} {p : Pkg} (h : translateOperand o row = .ok p)
    (hk : o.kind = .relative) :
    p.additional = o.value ∧ o.value.isAddress = true ∧ p.size = row.relSz ∧ opVal row.rel = .ok p.opCode ∧
      p.postByte = .none ∧ p.needsRes = false ∧ p.choices = [] := by
  unfold translateOperand at h
  rw [hk] at h
  simp only [bind, Except.bind, pure, Except.pure, throw, throwThe, MonadExceptOf.throw] at h
  split at h
  · cases h
  · rename_i op hop
    split at h
    · cases h
    · split at h
      · cases h
      · rename_i hna
        cases h
        exact ⟨rfl, by simpa using hna, rfl, hop, rfl, rfl, rfl⟩

/-- operand, row, `additional` and size class are the same -/
def AddlRel (s s' : Stmt) : Prop :=
  s'.operand = s.operand ∧ s'.row = s.row ∧ s'.pkg.additional = s.pkg.additional ∧ s'.pkg.needsRes = s.pkg.needsRes

theorem AddlRel.trans {a b c : Stmt} (h1 : AddlRel a b) (h2 : AddlRel b c) : AddlRel a c :=
  ⟨h2.1.trans h1.1, h2.2.1.trans h1.2.1, h2.2.2.1.trans h1.2.2.1, h2.2.2.2.trans h1.2.2.2⟩

theorem Stages.addl24 {fs : Files} {lines : List Str} {a : Assembly} (st : Stages fs lines a) :
    PW AddlRel st.ss2 st.ss4 := by
  have h23 : PW AddlRel st.ss2 st.ss3 :=
    (pcrLoop_pw _ _ st.hpcr).mono (by rintro s s' ⟨_, _, _, _, _, rfl⟩; exact ⟨rfl, rfl, rfl, rfl⟩)
  have h34 : PW AddlRel st.ss3 st.ss4 :=
    (assignAddrs_pw st.haddr).mono (by rintro s s' ⟨_, rfl⟩; exact ⟨rfl, rfl, rfl, rfl⟩)
  exact h23.trans h34 (fun _ _ _ => AddlRel.trans)

/-! ### `fitWidth` leaves a branch field as `fixOne` stored it -/

theorem fitNum_nat {n w : Nat} (hw : w = 2 ∨ w = 4) (h : n < 16 ^ w) :
    fitNum n false w = .ok (.numeric n (some w) .extended false) := by
  unfold fitNum
  have hn : n ≤ 65535 := by
    rcases hw with rfl | rfl
    · have : (16 : Nat) ^ 2 = 256 := by decide
      omega
    · have : (16 : Nat) ^ 4 = 65536 := by decide
      omega
  rcases hw with rfl | rfl
  · have e1 : (2 : Int) ^ (4 * 2) = 256 := by decide
    have e2 : (2 : Int) ^ (4 * 2 - 1) = 128 := by decide
    have e3 : (16 : Nat) ^ 2 = 256 := by decide
    simp only [Bool.false_eq_true, if_false, e1, e2]
    rw [if_pos ⟨by omega, by omega⟩, Int.emod_eq_of_lt (by omega) (by omega)]
    exact numericOfInt_nat hn 2
  · have e1 : (2 : Int) ^ (4 * 4) = 65536 := by decide
    have e2 : (2 : Int) ^ (4 * 4 - 1) = 32768 := by decide
    have e3 : (16 : Nat) ^ 4 = 65536 := by decide
    simp only [Bool.false_eq_true, if_false, e1, e2]
    rw [if_pos ⟨by omega, by omega⟩, Int.emod_eq_of_lt (by omega) (by omega)]
    exact numericOfInt_nat hn 4

/-- the signed number `NumericValue.fit` looks at -/
def fitInt (n : Nat) (neg : Bool) : Int := if neg then -(n : Int) else n

/-- what `fitNum` returns: the number is in `-2^(4w-1) .. 2^(4w)-1`, the field is its residue modulo `2^(4w)`, with
size hint `w` -/
theorem fitNum_ok {n : Nat} {neg : Bool} {w : Nat} {v : Value} (hw : w = 2 ∨ w = 4) (h : fitNum n neg w = .ok v) :
    -((2 : Int) ^ (4 * w - 1)) ≤ fitInt n neg ∧ fitInt n neg < (2 : Int) ^ (4 * w) ∧
      v = .numeric (fitInt n neg % (2 : Int) ^ (4 * w)).toNat (some w) .extended false := by
  unfold fitNum at h
  change (if -((2 : Int) ^ (4 * w - 1)) ≤ fitInt n neg ∧ fitInt n neg < (2 : Int) ^ (4 * w) then
      numericOfInt (fitInt n neg % (2 : Int) ^ (4 * w)) (some w) .none else .error .valueType) = .ok v at h
  split at h
  · rename_i hr
    refine ⟨hr.1, hr.2, ?_⟩
    have hpow : (0 : Int) < (2 : Int) ^ (4 * w) ∧ (2 : Int) ^ (4 * w) ≤ 65536 := by
      rcases hw with rfl | rfl
      · have : (2 : Int) ^ (4 * 2) = 256 := by decide
        omega
      · have : (2 : Int) ^ (4 * 4) = 65536 := by decide
        omega
    generalize (2 : Int) ^ (4 * w) = P at h hpow hr ⊢
    have h0 : 0 ≤ fitInt n neg % P := Int.emod_nonneg _ (by omega)
    have h1 : fitInt n neg % P < P := Int.emod_lt_of_pos _ hpow.1
    generalize fitInt n neg % P = z at h h0 h1 ⊢
    unfold numericOfInt at h
    rw [if_neg (by omega)] at h
    simp only [postInit, initHint] at h
    have hz : ¬ z < 0 := by omega
    simp [hz] at h
    rw [← h]
    congr 1
    omega
  · cases h

/-- the statement classes `fitWidth` leaves alone -/
def fitSkipped (row : Gen.InstrRow) : Bool :=
  (row.isPseudo && !(row.isMultiByte || row.isMultiWord)) || row.isSpecial

/-- `fitWidth` on a statement with a numeric field: the field gets the width `w` (2 or 4 hex digits) that the size
leaves after op code and post byte, and holds the residue of the signed number modulo `16^w` -/
theorem fitWidth_numeric {s s' : Stmt} {n : Nat} {h : Option Nat} {m : Mode} {neg : Bool}
    (hfit : fitWidth s = .ok s') (hrow : fitSkipped s.row = false)
    (hadd : s.pkg.additional = .numeric n h m neg) :
    ∃ a b w, s.pkg.opCode.hexLen? = some a ∧ s.pkg.postByte.hexLen? = some b ∧ (w = 2 ∨ w = 4) ∧
      2 * s.pkg.size = a + b + w ∧
      -((2 : Int) ^ (4 * w - 1)) ≤ fitInt n neg ∧ fitInt n neg < (2 : Int) ^ (4 * w) ∧
      s' = withAdditional s (.numeric (fitInt n neg % (2 : Int) ^ (4 * w)).toNat (some w) .extended false) := by
  unfold fitWidth at hfit
  unfold fitSkipped at hrow
  rw [if_neg (by rw [hrow]; simp), hadd] at hfit
  dsimp only at hfit
  split at hfit
  · rename_i a b ha hb
    split at hfit
    · rename_i hdig
      have hw : ∃ w : Nat, (w = 2 ∨ w = 4) ∧ (2 * (s.pkg.size : Int) - a - b) = (w : Int) := by
        rcases hdig with hd | hd
        · exact ⟨2, .inl rfl, hd⟩
        · exact ⟨4, .inr rfl, hd⟩
      obtain ⟨w, hw, hweq⟩ := hw
      rw [hweq, Int.toNat_natCast] at hfit
      cases hf : fitNum n neg w with
      | error e => rw [hf] at hfit; cases hfit
      | ok v =>
        rw [hf] at hfit
        obtain ⟨r1, r2, rfl⟩ := fitNum_ok hw hf
        cases hfit
        exact ⟨a, b, w, ha, hb, hw, by omega, r1, r2, rfl⟩
    · cases hfit
  · cases hfit

/-- `fitWidth` on a statement whose field is not a number (none, or a literal list / string) changes nothing -/
theorem fitWidth_nonnumeric {s s' : Stmt} (hfit : fitWidth s = .ok s') (hadd : s.pkg.additional.isNumeric = false) :
    s' = s := by
  unfold fitWidth at hfit
  split at hfit
  · cases hfit; rfl
  · split at hfit
    · rename_i heq; rw [heq] at hadd; cases hadd
    · cases hfit; rfl

theorem fitWidth_skipped {s s' : Stmt} (hfit : fitWidth s = .ok s') (hrow : fitSkipped s.row = true) : s' = s := by
  unfold fitWidth at hfit
  unfold fitSkipped at hrow
  rw [if_pos hrow] at hfit
  cases hfit; rfl

/-- the instruction table: a branch row is neither pseudo nor special, and its size is the op code plus a field
of 2 (short) or 4 (long) hex digits -/
def relRowOk (r : Gen.InstrRow) : Bool :=
  !(r.isShortBranch || r.isLongBranch) ||
    (!r.isPseudo && !r.isSpecial &&
      match opVal r.rel with
      | .ok v => (match v.hexLen? with
                  | some a => 2 * r.relSz == a + (if r.isShortBranch then 2 else 4)
                  | none => false)
      | .error _ => false)

theorem relRowOk_all : ∀ r ∈ Gen.instructions, relRowOk r = true := by decide +kernel

theorem withAdditional_self {s : Stmt} {v : Value} (h : s.pkg.additional = v) : withAdditional s v = s := by
  subst h; rfl

/-- a statement whose field was stored by `fixOne` with the width of its branch class passes `fitWidth` unchanged -/
theorem fitWidth_branch {s : Stmt} {d a : Nat} (hp : s.row.isPseudo = false) (hsp : s.row.isSpecial = false)
    (hadd : s.pkg.additional = branchValue s.row.isShortBranch d)
    (hd : d < 16 ^ (if s.row.isShortBranch then 2 else 4))
    (hop : s.pkg.opCode.hexLen? = some a) (hpb : s.pkg.postByte = .none)
    (hsz : 2 * s.pkg.size = a + (if s.row.isShortBranch then 2 else 4)) : fitWidth s = .ok s := by
  obtain ⟨label, mn, row, operand, ot, cm, pkg, fx, hint⟩ := s
  obtain ⟨opc, addr, pb, addl, sz, nr, ch, mx⟩ := pkg
  dsimp only at hp hsp hadd hd hop hpb hsz
  subst hadd hpb
  unfold fitWidth
  dsimp only
  rw [if_neg (by simp [hp, hsp])]
  unfold branchValue
  dsimp only
  rw [hop]
  dsimp only [Value.hexLen?]
  have hdig : (2 * (sz : Int) - (a : Nat) - (0 : Nat)) = ((if row.isShortBranch then 2 else 4 : Nat) : Int) := by
    omega
  rw [hdig]
  have hw : (if row.isShortBranch then 2 else 4 : Nat) = 2 ∨ (if row.isShortBranch then 2 else 4 : Nat) = 4 := by
    cases row.isShortBranch <;> simp
  rw [if_pos (by rcases hw with h | h <;> rw [h] <;> simp)]
  rw [Int.toNat_natCast, fitNum_nat hw hd]

/-- a branch statement of the instruction table whose field was stored by `fixOne` passes `fitWidth` unchanged -/
theorem branch_fit {s4 : Stmt} (hrow : s4.row ∈ Gen.instructions)
    (hbr : (s4.row.isShortBranch || s4.row.isLongBranch) = true) (hopc : opVal s4.row.rel = .ok s4.pkg.opCode)
    (hpb : s4.pkg.postByte = .none) (hsz : s4.pkg.size = s4.row.relSz) {d : Nat}
    (hd : d < 16 ^ (if s4.row.isShortBranch then 2 else 4)) :
    fitWidth (withAdditional s4 (branchValue s4.row.isShortBranch d)) =
      .ok (withAdditional s4 (branchValue s4.row.isShortBranch d)) := by
  have htab := relRowOk_all _ hrow
  unfold relRowOk at htab
  rw [hbr, hopc] at htab
  simp only [Bool.not_true, Bool.false_or, Bool.and_eq_true, Bool.not_eq_true'] at htab
  obtain ⟨⟨hp, hsp⟩, hlen⟩ := htab
  cases hl : s4.pkg.opCode.hexLen? with
  | none => rw [hl] at hlen; cases hlen
  | some a =>
    rw [hl] at hlen
    simp only [beq_iff_eq] at hlen
    exact fitWidth_branch (s := withAdditional s4 (branchValue s4.row.isShortBranch d)) (a := a) hp hsp rfl hd hl hpb
      (by show 2 * s4.pkg.size = _; rw [hsz]; exact hlen)

/-- the statement `s4` that enters `fixAll` at index `i`, for a final statement `s` with a relative operand: its
`additional` is the operand value, a statement index; `s1` is the statement after `fixOne`, `s` after `fitWidth`;
the row is a branch row of the instruction table, the op code is that of the row, there is no post byte -/
theorem Stages.branch_pre {fs : Files} {lines : List Str} {a : Assembly} (st : Stages fs lines a)
    {i : Nat} {s : Stmt} (hs : a.stmts[i]? = some s) (hk : s.operand.kind = .relative) :
    ∃ s4 s1, st.ss4[i]? = some s4 ∧ fixOne st.ss4 i s4 = .ok s1 ∧ fitWidth s1 = .ok s ∧ SameButAdditional s4 s1 ∧
      SameButAdditional s4 s ∧
      s4.pkg.additional = s.operand.value ∧ s.operand.value.isAddress = true ∧
      s4.row ∈ Gen.instructions ∧ (s4.row.isShortBranch || s4.row.isLongBranch) = true ∧
      opVal s4.row.rel = .ok s4.pkg.opCode ∧ s4.pkg.postByte = .none ∧ s4.pkg.size = s4.row.relSz := by
  obtain ⟨tr⟩ := st.trace hs
  have hop : s.operand = tr.o := tr.operand_eq
  have hko : tr.o.kind = .relative := by rw [← hop]; exact hk
  -- the parsed operand is relative as well, so the row is a branch row
  have hk0 : tr.s0.operand.kind = .relative := by
    rcases resolveOperand_kind tr.hres with h | ⟨_, h | h⟩
    · rw [← h]; exact hko
    · rw [hko] at h; cases h
    · rw [hko] at h; cases h
  obtain ⟨txt, hcr⟩ := tr.parsed.2
  obtain ⟨k1, k2, k3, k4⟩ := createOperand_kind hcr
  have hbr : (tr.s0.row.isShortBranch || tr.s0.row.isLongBranch) = true := by
    cases hp : tr.s0.row.isPseudo with
    | true => have := k1 hp; rw [hk0] at this; cases this
    | false =>
      cases hsp : tr.s0.row.isSpecial with
      | true => have := k2 hp hsp; rw [hk0] at this; cases this
      | false =>
        cases hb : (tr.s0.row.isShortBranch || tr.s0.row.isLongBranch) with
        | true => rfl
        | false =>
          have := k4 hp hsp hb
          rw [hk0] at this
          rcases this with h | h | h | h | h <;> cases h
  obtain ⟨t1, t2, t3, t4, t5, t6, t7⟩ := translate_relative tr.htr hko
  have hfixed : (mkTranslated tr.s0 tr.o tr.p).fixedSize = true := by
    show tr.p.choices.isEmpty = true
    rw [t7]; rfl
  have h3 := tr.fixed hfixed
  obtain ⟨v4, h4⟩ := tr.addr
  have hrow4 : tr.s4.row = tr.s0.row := by rw [h4, h3]; rfl
  have hpkg4 : tr.s4.pkg = { tr.p with address := v4 } := by rw [h4, h3]; rfl
  -- (batch 8) the field is a number after `fixOne` and `fitWidth`: the pass over the lists leaves the statement alone
  have hk4 : tr.s4.operand.kind = .relative := by
    have : tr.s4.operand = tr.o := by rw [h4, h3]; rfl
    rw [this]; exact hko
  have hsw : tr.sw = s := by
    have hnum := fitWidth_isNumeric tr.hfit (fixOne_relative_isNumeric hk4 tr.hfix)
    have := tr.hlist
    rw [evalList1_numeric _ _ hnum] at this
    exact Outcome.ok.inj this
  have hfit : fitWidth tr.sf = .ok s := tr.hfit.trans (congrArg Outcome.ok hsw)
  refine ⟨tr.s4, tr.sf, tr.h4, tr.hfix, hfit, fixOne_same tr.hfix,
    (fixOne_same tr.hfix).trans (fitWidth_same hfit), ?_, ?_, ?_, ?_, ?_, ?_, ?_⟩
  · rw [hpkg4, hop]; exact t1
  · rw [hop]; exact t2
  · rw [hrow4]; exact tr.parsed.1
  · rw [hrow4]; exact hbr
  · rw [hrow4, hpkg4]; exact t4
  · rw [hpkg4]; exact t5
  · rw [hrow4, hpkg4]; exact t3

end CoCo.Asm
