/-
Lemmas/LayoutBranch.lean — `fixOne` on relative (branch) statements and on PCR statements.
-/
import CoCoVerif.Lemmas.LayoutImage
import CoCoVerif.Spec.MC6809

namespace CoCo.Asm
open CoCo
open CoCo.Spec.MC6809 (sext)

theorem numericOfInt_nat {n : Nat} (h : n ≤ 65535) (hint : Nat) :
    numericOfInt (n : Int) (some hint) .none = .ok (.numeric n (some hint) .extended false) := by
  unfold numericOfInt
  have h1 : ¬ ((n : Int) > 65535) := by omega
  have h2 : ¬ ((n : Int) < 0) := by omega
  simp [h1, h2, postInit, initHint]

theorem numericOfInt_big {z : Int} (h : z > 65535) (hint : Option Nat) (m : Mode) :
    numericOfInt z hint m = .error .valueType := by
  unfold numericOfInt; simp [h]

/-- `fixOne` on a relative statement, as a function of the target index `b` -/
theorem fixOne_relative {ss : List Stmt} {i : Nat} {s : Stmt} {b : Nat}
    (hk : s.operand.kind = .relative) (hb : s.pkg.additional.int? = some b) :
    fixOne ss i s =
      if b ≤ i then
        (if (s.row.isShortBranch = true ∧ 1 + sumSize ss b (i + 1) > 129) ∨ 1 + sumSize ss b (i + 1) > 0x10000 then .diag
         else match numericOfInt ((if s.row.isShortBranch = true then (0x101 : Int) else 0x10001) - (1 + sumSize ss b (i + 1) : Nat))
                 (some (if s.row.isShortBranch = true then 2 else 4)) .none with
           | .ok v => .ok { s with pkg := { s.pkg with additional := v } }
           | .error _ => .internal)
      else
        (if (s.row.isShortBranch = true ∧ sumSize ss (i + 1) b > 127) ∨ sumSize ss (i + 1) b > 0xFFFF then .diag
         else match numericOfInt (sumSize ss (i + 1) b : Nat) (some (if s.row.isShortBranch = true then 2 else 4)) .none with
           | .ok v => .ok { s with pkg := { s.pkg with additional := v } }
           | .error _ => .internal) := by
  unfold fixOne
  simp only [hk, beq_self_eq_true, if_true, hb]
  rfl

/-- the value stored for a branch: `n` with the size hint of the branch class -/
def branchValue (short : Bool) (n : Nat) : Value := .numeric n (some (if short then 2 else 4)) .extended false

def withAdditional (s : Stmt) (v : Value) : Stmt := { s with pkg := { s.pkg with additional := v } }

section
variable {ss : List Stmt} {i : Nat} {s : Stmt} {b : Nat}
  (hk : s.operand.kind = .relative) (hb : s.pkg.additional.int? = some b)
include hk hb

/-- out of range is reported for short branches that do not fit a byte and (after fix 145359a) for any branch
whose distance does not fit the 16-bit field -/
theorem fixOne_relative_diag_iff :
    fixOne ss i s = .diag ↔
      (s.row.isShortBranch = true ∧ (if b ≤ i then sumSize ss b (i + 1) > 128 else sumSize ss (i + 1) b > 127)) ∨
      (if b ≤ i then sumSize ss b (i + 1) > 65535 else sumSize ss (i + 1) b > 65535) := by
  rw [fixOne_relative hk hb]
  by_cases hbi : b ≤ i
  · simp only [hbi, if_true]
    by_cases hc : (s.row.isShortBranch = true ∧ 1 + sumSize ss b (i + 1) > 129) ∨ 1 + sumSize ss b (i + 1) > 0x10000
    · rw [if_pos hc]; simp only [true_iff]
      rcases hc with hc | hc
      · exact Or.inl ⟨hc.1, by omega⟩
      · exact Or.inr (by omega)
    · rw [if_neg hc]
      constructor
      · intro h; split at h <;> cases h
      · intro h; exfalso; apply hc
        rcases h with h | h
        · exact Or.inl ⟨h.1, by omega⟩
        · exact Or.inr (by omega)
  · simp only [hbi, if_false]
    by_cases hc : (s.row.isShortBranch = true ∧ sumSize ss (i + 1) b > 127) ∨ sumSize ss (i + 1) b > 0xFFFF
    · rw [if_pos hc]; simp only [true_iff]; exact hc
    · rw [if_neg hc]
      constructor
      · intro h; split at h <;> cases h
      · intro h; exact absurd h hc

/-- (after fix 145359a) `fix_addresses` on a relative statement whose `additional` has an `int` never ends in
an internal error, provided a long branch statement itself has a size (the sum over `b..i` is not 0;
otherwise a long backward branch would compute the offset 65536) -/
theorem fixOne_relative_ne_internal (hpos : s.row.isShortBranch = false → b ≤ i → 1 ≤ sumSize ss b (i + 1)) :
    fixOne ss i s ≠ .internal := by
  rw [fixOne_relative hk hb]
  by_cases hbi : b ≤ i
  · simp only [hbi, if_true]
    split
    · simp
    · rename_i hc
      have hle : 1 + sumSize ss b (i + 1) ≤ 0x10000 := by omega
      have hpos := fun h => hpos h hbi
      generalize sumSize ss b (i + 1) = n at hle hc hpos
      have : ¬ ((if s.row.isShortBranch = true then (0x101 : Int) else 0x10001) - ((1 + n : Nat) : Int) > 65535) := by
        cases hsb : s.row.isShortBranch
        · have := hpos hsb; simp; omega
        · simp; omega
      unfold numericOfInt
      simp only [this, if_false]
      simp
  · simp only [hbi, if_false]
    split
    · simp
    · rename_i hc
      have hle : sumSize ss (i + 1) b ≤ 0xFFFF := by omega
      rw [numericOfInt_nat (by omega)]
      simp

theorem fixOne_short_backward (hs : s.row.isShortBranch = true) (hbi : b ≤ i)
    (h1 : 1 ≤ sumSize ss b (i + 1)) (h2 : sumSize ss b (i + 1) ≤ 128) :
    fixOne ss i s = .ok (withAdditional s (branchValue true (256 - sumSize ss b (i + 1)))) ∧
      256 - sumSize ss b (i + 1) < 256 ∧
      sext (256 - sumSize ss b (i + 1)) 8 = -(sumSize ss b (i + 1) : Int) := by
  rw [fixOne_relative hk hb]
  generalize sumSize ss b (i + 1) = n at h1 h2
  have hc : ¬ ((s.row.isShortBranch = true ∧ 1 + n > 129) ∨ 1 + n > 0x10000) := by omega
  simp only [hbi, if_true]
  rw [if_neg hc]
  simp only [hs, if_true]
  have he : ((0x101 : Int) - ((1 + n : Nat) : Int)) = ((256 - n : Nat) : Int) := by omega
  rw [he, numericOfInt_nat (by omega)]
  refine ⟨rfl, by omega, ?_⟩
  unfold sext
  have : (2 : Nat) ^ (8 - 1) = 128 := by decide
  have h8 : (2 : Nat) ^ 8 = 256 := by decide
  rw [this, h8]
  have : 256 - n ≥ 128 := by omega
  simp only [this, if_true]
  omega

theorem fixOne_short_forward (hs : s.row.isShortBranch = true) (hbi : ¬ b ≤ i)
    (h2 : sumSize ss (i + 1) b ≤ 127) :
    fixOne ss i s = .ok (withAdditional s (branchValue true (sumSize ss (i + 1) b))) ∧
      sext (sumSize ss (i + 1) b) 8 = (sumSize ss (i + 1) b : Int) := by
  rw [fixOne_relative hk hb]
  generalize sumSize ss (i + 1) b = n at h2
  have hc : ¬ ((s.row.isShortBranch = true ∧ n > 127) ∨ n > 0xFFFF) := by omega
  simp only [hbi, if_false]
  rw [if_neg hc]
  simp only [hs, if_true]
  rw [numericOfInt_nat (by omega)]
  refine ⟨rfl, ?_⟩
  unfold sext
  have : (2 : Nat) ^ (8 - 1) = 128 := by decide
  rw [this]
  have : ¬ n ≥ 128 := by omega
  simp only [this, if_false]

theorem fixOne_long_backward (hs : s.row.isShortBranch = false) (hbi : b ≤ i)
    (h1 : 1 ≤ sumSize ss b (i + 1)) (h2 : sumSize ss b (i + 1) ≤ 65535) :
    fixOne ss i s = .ok (withAdditional s (branchValue false (65536 - sumSize ss b (i + 1)))) ∧
      65536 - sumSize ss b (i + 1) < 65536 ∧
      sext (65536 - sumSize ss b (i + 1)) 16 % 65536 = (-(sumSize ss b (i + 1) : Int)) % 65536 := by
  rw [fixOne_relative hk hb]
  generalize sumSize ss b (i + 1) = n at h1 h2
  have hc : ¬ (1 + n > 0x10000) := by omega
  simp only [hbi, if_true, hs, Bool.false_eq_true, false_and, if_false, false_or, hc]
  have he : ((0x10001 : Int) - ((1 + n : Nat) : Int)) = ((65536 - n : Nat) : Int) := by omega
  rw [he, numericOfInt_nat (by omega)]
  refine ⟨rfl, by omega, ?_⟩
  unfold sext
  have : (2 : Nat) ^ (16 - 1) = 32768 := by decide
  have h8 : (2 : Nat) ^ 16 = 65536 := by decide
  rw [this, h8]
  split <;> omega

theorem fixOne_long_forward (hs : s.row.isShortBranch = false) (hbi : ¬ b ≤ i)
    (h2 : sumSize ss (i + 1) b ≤ 65535) :
    fixOne ss i s = .ok (withAdditional s (branchValue false (sumSize ss (i + 1) b))) ∧
      sext (sumSize ss (i + 1) b) 16 % 65536 = (sumSize ss (i + 1) b : Int) % 65536 := by
  rw [fixOne_relative hk hb]
  generalize sumSize ss (i + 1) b = n at h2
  have hc : ¬ (n > 0xFFFF) := by omega
  simp only [hbi, if_false, hs, Bool.false_eq_true, false_and, false_or, hc]
  rw [numericOfInt_nat (by omega)]
  refine ⟨rfl, ?_⟩
  unfold sext
  have : (2 : Nat) ^ (16 - 1) = 32768 := by decide
  have h8 : (2 : Nat) ^ 16 = 65536 := by decide
  rw [this, h8]
  split <;> omega

end

/-! ### PCR statements -/

theorem fixStep3_pcr {ss : List Stmt} {i : Nat} {s2 s' : Stmt} (hn : s2.pkg.needsRes = true)
    (h : fixStep3 ss i s2 = .ok s') :
    ∃ r start v, fixRel ss s2 = .ok r ∧ addrIntOf ss i = some start ∧
      numericOfInt (pcrJump s2 r start) (some s2.pcrHint) .none = .ok v ∧ s' = withAdditional s2 v := by
  unfold fixStep3 at h
  rw [if_pos hn] at h
  split at h
  · rename_i r start hr hst
    split at h
    · rename_i v hv; cases h; exact ⟨r, start, v, hr, hst, hv, rfl⟩
    · cases h
  · cases h
  · cases h
  · cases h

/-- the target of a PCR operand whose offset is a plain label: the address of the statement it names -/
theorem fixRel_plain {ss : List Stmt} {s2 : Stmt} {t : Nat}
    (he : s2.pkg.additional.isAddrExpr = false) (ht : s2.pkg.additional.int? = some t) :
    fixRel ss s2 = (match addrIntOf ss t with | some a => .ok a | none => .internal : Outcome Nat) := by
  unfold fixRel
  dsimp only
  split
  · rename_i e _ heq
    exfalso
    split at heq
    · rename_i h2; rw [h2] at he; simp [Value.isAddrExpr] at he
    · cases heq
  · simp only [ht]
    cases addrIntOf ss t <;> rfl

/-- `fix_addresses` on a PCR statement: the stored offset is `target − own address − own size`
(reduced mod 65536 when the 16-bit form was chosen) -/
theorem fixOne_pcr {ss : List Stmt} {i : Nat} {s s' : Stmt} (hk : (s.operand.kind == .relative) = false)
    (hv1 : s.operand.value.isAddrExpr = false) (hv2 : s.operand.value.isAddress = false)
    (hv3 : s.operand.value ≠ .pyNone) (hn : s.pkg.needsRes = true) (h : fixOne ss i s = .ok s') :
    ∃ r start v, fixRel ss s = .ok r ∧ addrIntOf ss i = some start ∧
      numericOfInt (pcrJump s r start) (some s.pcrHint) .none = .ok v ∧ s' = withAdditional s v := by
  rw [fixOne_nonrel ss i s hk hv3] at h
  have h1 : fixStep1 ss s = .ok s := by unfold fixStep1; simp [hv1]
  have h2 : fixStep2 ss s.operand.value s = .ok s := by unfold fixStep2; simp [hv2]
  rw [h1] at h
  simp only [Outcome.bind] at h
  rw [h2] at h
  exact fixStep3_pcr hn h

/-! ### sums of sizes and addresses -/

theorem sumSize_head {l : List Stmt} {i b : Nat} {s : Stmt} (hib : i < b) (hs : l[i]? = some s) :
    sumSize l i b = s.pkg.size + sumSize l (i + 1) b := by
  have hlt : i < l.length := by
    rcases Nat.lt_or_ge i l.length with h | h
    · exact h
    · rw [List.getElem?_eq_none_iff.mpr h] at hs; cases hs
  have hsi : l[i] = s := by
    have := List.getElem?_eq_getElem hlt; rw [hs] at this; cases this; rfl
  rw [sumSize_eq, sumSize_eq]
  have h1 : l.drop i = s :: l.drop (i + 1) := by rw [← hsi]; exact List.drop_eq_getElem_cons hlt
  have h2 : b - i = (b - (i + 1)) + 1 := by omega
  rw [h1, h2, List.take_succ_cons]
  simp

theorem sumSize_congr {l l' : List Stmt} (h : PW (fun s s' => s'.pkg.size = s.pkg.size) l l') (lo hi : Nat) :
    sumSize l' lo hi = sumSize l lo hi := by
  have hm : l'.map (·.pkg.size) = l.map (·.pkg.size) := by
    apply List.ext_getElem?
    intro j
    simp only [List.getElem?_map]
    cases hj : l[j]? with
    | none =>
      have : l.length ≤ j := List.getElem?_eq_none_iff.mp hj
      rw [List.getElem?_eq_none_iff.mpr (by rw [h.1]; exact this)]
    | some s =>
      obtain ⟨s', hs', hr⟩ := h.get hj
      simp [hs', hr]
  rw [sumSize_eq, sumSize_eq, List.map_take, List.map_drop, List.map_take, List.map_drop, hm]

/-- a backward branch: the end of the branch statement is the target plus the sizes of statements `b..i` -/
theorem Chained.backward {ps : List Bool} {l : List Stmt} {a : Nat} (h : Chained ps l a) {b i : Nat} {s t : Stmt}
    {x y : Nat} (hbi : b ≤ i) (hs : l[i]? = some s) (ht : l[b]? = some t)
    (hp : ∀ j, b < j → j ≤ i → ps[j]? = some false) (hx : addrNat s = some x) (hy : addrNat t = some y) :
    x + s.pkg.size = y + sumSize l b (i + 1) := by
  have := h.telescope hbi ht hs hp hy
  rw [hx] at this; cases this
  rw [sumSize_succ hbi hs]; omega

/-- a forward branch: the target is the end of the branch statement plus the sizes of the statements in between -/
theorem Chained.forward {ps : List Bool} {l : List Stmt} {a : Nat} (h : Chained ps l a) {b i : Nat} {s t : Stmt}
    {x y : Nat} (hib : i < b) (hs : l[i]? = some s) (ht : l[b]? = some t)
    (hp : ∀ j, i < j → j ≤ b → ps[j]? = some false) (hx : addrNat s = some x) (hy : addrNat t = some y) :
    y = x + s.pkg.size + sumSize l (i + 1) b := by
  have := h.telescope (Nat.le_of_lt hib) hs ht hp hx
  rw [hy] at this; cases this
  rw [sumSize_head hib hs]; omega

/-! ### from the translated statement to the statement that enters `fixAll` -/

theorem translate_relative {o : Operand} {row : Gen.InstrRow} {p : Pkg} (h : translateOperand o row = .ok p)
    (hk : o.kind = .relative) : p.additional = (if o.value.isAddress then o.value else .none) ∧ p.size = row.relSz := by
  unfold translateOperand at h
  rw [hk] at h
  simp only [bind, Except.bind, pure, Except.pure, throw, throwThe, MonadExceptOf.throw] at h
  split at h
  · cases h
  · split at h
    · cases h
    · cases h; exact ⟨rfl, rfl⟩

/-- operand, row, `additional` and size class are the same -/
def AddlRel (s s' : Stmt) : Prop :=
  s'.operand = s.operand ∧ s'.row = s.row ∧ s'.pkg.additional = s.pkg.additional ∧ s'.pkg.needsRes = s.pkg.needsRes

theorem AddlRel.trans {a b c : Stmt} (h1 : AddlRel a b) (h2 : AddlRel b c) : AddlRel a c :=
  ⟨h2.1.trans h1.1, h2.2.1.trans h1.2.1, h2.2.2.1.trans h1.2.2.1, h2.2.2.2.trans h1.2.2.2⟩

theorem Stages.addl24 {fs : Files} {lines : List Str} {a : Assembly} (st : Stages fs lines a) :
    PW AddlRel st.ss2 st.ss4 := by
  have h23 : PW AddlRel st.ss2 st.ss3 :=
    (pcrLoop_pw _ _ st.hpcr).mono (by rintro s s' ⟨_, _, _, _, _, rfl⟩; exact ⟨rfl, rfl, rfl, rfl⟩)
  have h34 : PW AddlRel st.ss3 st.ss4 :=
    (assignAddrs_pw st.haddr).mono (by rintro s s' ⟨_, rfl⟩; exact ⟨rfl, rfl, rfl, rfl⟩)
  exact h23.trans h34 (fun _ _ _ => AddlRel.trans)

/-- the statement `s4` that enters `fixAll` at index `i`, for a final statement `s` with a relative operand:
its `additional` is the operand value when that is a statement index -/
theorem Stages.branch_pre {fs : Files} {lines : List Str} {a : Assembly} (st : Stages fs lines a)
    {i : Nat} {s : Stmt} (hs : a.stmts[i]? = some s) (hk : s.operand.kind = .relative) :
    ∃ s4, st.ss4[i]? = some s4 ∧ fixOne st.ss4 i s4 = .ok s ∧ SameButAdditional s4 s ∧
      s4.pkg.additional = (if s.operand.value.isAddress then s.operand.value else .none) := by
  obtain ⟨s4, hs4, hsame⟩ := (fixAll_pw st.hfix).get' hs
  obtain ⟨s', hs', hfix⟩ := (fixAll_ok st.hfix).2 i s4 hs4
  rw [hs] at hs'; cases hs'
  rw [Nat.zero_add] at hfix
  obtain ⟨s2, hs2, hop, hrow, hadd, _⟩ := st.addl24.get' hs4
  obtain ⟨s1, hs1, p, htr, rfl⟩ := (translateAll_pw st.htranslate).get' hs2
  obtain ⟨v, rfl⟩ := hsame
  have hop' : s4.operand = s1.operand := hop
  have hk1 : s1.operand.kind = .relative := by rw [← hop']; exact hk
  refine ⟨s4, hs4, hfix, ⟨v, rfl⟩, ?_⟩
  rw [hadd]
  show p.additional = _
  rw [(translate_relative htr hk1).1]
  show _ = if s4.operand.value.isAddress = true then s4.operand.value else Value.none
  rw [hop']

end CoCo.Asm
