/-
Lemmas/RenameValue.lean — C18-R2 (renaming), part 1: a renaming `R : Ren` acts on values (`rnValue`), on the symbol
table (`rnTab`), on operands and statements; `SymTab.get?`, `Value.resolve` and `buildSymTab` commute with it when
`R.sym` is injective ON THE NAMES THAT OCCUR (a list `N`), not necessarily everywhere.

`R.sym` renames symbol names, `R.left` the (still textual) left part of an indexed operand, `R.txt` the operand text
(which only the listing, the register lists of PSHS/EXG and NAM read).
-/
import CoCoVerif.Lemmas.FrontFix
import CoCoVerif.Lemmas.RelocFix

namespace CoCo.Asm.Rename
open CoCo

structure Ren where
  sym : Str → Str
  left : Str → Str
  txt : Str → Str

def rnValue (R : Ren) : Value → Value
  | .symbol n m => .symbol (R.sym n) m
  | .expr l r op m a => .expr (rnValue R l) (rnValue R r) op m a
  | .leftRight l r m => .leftRight (R.left l) r m
  | v => v

def rnSide (R : Ren) : Side → Side
  | .text l => .text (R.left l)
  | .val v => .val (rnValue R v)
  | .noneV => .noneV

def rnTab (R : Ren) (t : SymTab) : SymTab := t.map (fun kv => (R.sym kv.1, rnValue R kv.2))

def rnOperand (R : Ren) (o : Operand) : Operand :=
  { o with text := R.txt o.text, value := rnValue R o.value, left := rnSide R o.left }

/-- op code and post byte are numbers (`opVal`, `numV`); names can only sit in `address` (the operand of an ORG) and
`additional` (the operand bytes before `fix_addresses`) -/
def rnPkg (R : Ren) (p : Pkg) : Pkg :=
  { p with address := rnValue R p.address, additional := rnValue R p.additional }

def rnLabel (R : Ren) (l : Str) : Str := if l = [] then [] else R.sym l

/-- the renaming of a statement as it comes from the parser: label and operand (the listing text `origText` follows
the operand text); row, mnemonic, comment and the (still empty) code package are untouched -/
def renameStmt (R : Ren) (s : Stmt) : Stmt :=
  { s with label := rnLabel R s.label, operand := rnOperand R s.operand, origText := R.txt s.origText }

/-- the renaming of a statement in the later stages: the values in the code package as well -/
def rnStmt (R : Ren) (s : Stmt) : Stmt :=
  { s with label := rnLabel R s.label, operand := rnOperand R s.operand, origText := R.txt s.origText,
           pkg := rnPkg R s.pkg }

/-- the symbol names inside a value (what `resolve` can look up) -/
def valSyms : Value → List Str
  | .symbol n _ => [n]
  | .expr l r _ _ _ => valSyms l ++ valSyms r
  | _ => []

section
variable {R : Ren}

/-! ### the shape of a value is not changed -/

@[simp] theorem rnValue_isAddress (v : Value) : (rnValue R v).isAddress = v.isAddress := by cases v <;> rfl
@[simp] theorem rnValue_isNumeric (v : Value) : (rnValue R v).isNumeric = v.isNumeric := by cases v <;> rfl
@[simp] theorem rnValue_isNone (v : Value) : (rnValue R v).isNone = v.isNone := by cases v <;> rfl
@[simp] theorem rnValue_isLeftRight (v : Value) : (rnValue R v).isLeftRight = v.isLeftRight := by cases v <;> rfl
@[simp] theorem rnValue_isSymbol (v : Value) : (rnValue R v).isSymbol = v.isSymbol := by cases v <;> rfl
@[simp] theorem rnValue_isMultiByte (v : Value) : (rnValue R v).isMultiByte = v.isMultiByte := by cases v <;> rfl
@[simp] theorem rnValue_isMultiWord (v : Value) : (rnValue R v).isMultiWord = v.isMultiWord := by cases v <;> rfl
@[simp] theorem rnValue_isNegative (v : Value) : (rnValue R v).isNegative = v.isNegative := by cases v <;> rfl
@[simp] theorem rnValue_mode (v : Value) : (rnValue R v).mode = v.mode := by cases v <;> rfl
@[simp] theorem rnValue_int? (v : Value) : (rnValue R v).int? = v.int? := by cases v <;> rfl
@[simp] theorem rnValue_hex? (v : Value) (n : Nat) : (rnValue R v).hex? n = v.hex? n := by cases v <;> rfl
@[simp] theorem rnValue_hexLen? (v : Value) : (rnValue R v).hexLen? = v.hexLen? := by cases v <;> rfl
@[simp] theorem rnValue_byteLen? (v : Value) : (rnValue R v).byteLen? = v.byteLen? := by
  simp [Value.byteLen?]
@[simp] theorem rnValue_isExtendedLike (v : Value) : (rnValue R v).isExtendedLike = v.isExtendedLike := by
  simp [Value.isExtendedLike]
@[simp] theorem rnValue_isDirect (v : Value) : (rnValue R v).isDirect = v.isDirect := by simp [Value.isDirect]
@[simp] theorem rnValue_isImmediate (v : Value) : (rnValue R v).isImmediate = v.isImmediate := by
  simp [Value.isImmediate]
@[simp] theorem rnValue_isExplicitDirect (v : Value) : (rnValue R v).isExplicitDirect = v.isExplicitDirect := by
  simp [Value.isExplicitDirect]
@[simp] theorem rnValue_isExplicitExtended (v : Value) :
    (rnValue R v).isExplicitExtended = v.isExplicitExtended := by
  simp [Value.isExplicitExtended]
@[simp] theorem rnValue_isExpression (v : Value) : (rnValue R v).isExpression = v.isExpression := by
  cases v with
  | expr l r op m ae => cases ae <;> rfl
  | _ => rfl
@[simp] theorem rnValue_isAddrExpr (v : Value) : (rnValue R v).isAddrExpr = v.isAddrExpr := by
  cases v with
  | expr l r op m ae => cases ae <;> rfl
  | _ => rfl

theorem rnValue_of_numeric {v : Value} (h : v.isNumeric = true) : rnValue R v = v := by
  cases v <;> first | rfl | cases h

theorem rnValue_of_address {v : Value} (h : v.isAddress = true) : rnValue R v = v := by
  cases v <;> first | rfl | cases h

@[simp] theorem rnValue_numeric (i : Nat) (h : Option Nat) (m : Mode) (n : Bool) :
    rnValue R (.numeric i h m n) = .numeric i h m n := rfl
@[simp] theorem rnValue_address (i : Nat) (m : Mode) : rnValue R (.address i m) = .address i m := rfl
@[simp] theorem rnValue_none : rnValue R .none = .none := rfl
@[simp] theorem rnValue_pyNone : rnValue R .pyNone = .pyNone := rfl

theorem rnValue_eq_pyNone {v : Value} : rnValue R v = .pyNone ↔ v = .pyNone := by
  cases v <;> simp [rnValue]

theorem numericOfInt_isNumeric' {z : Int} {h : Option Nat} {m : Mode} {x : Value}
    (hx : numericOfInt z h m = .ok x) : x.isNumeric = true := by
  unfold numericOfInt at hx
  split at hx
  · cases hx
  · simp only [Except.ok.injEq] at hx
    subst hx; rfl

theorem numericOfStr_isNumeric'' {s : Str} {h : Option Nat} {m : Mode} {x : Value}
    (hx : numericOfStr s h m = .ok x) : x.isNumeric = true := by
  unfold numericOfStr at hx
  dsimp only at hx
  split at hx
  · rename_i heq
    simp only [Except.ok.injEq] at hx
    subst hx
    split at heq
    · split at heq
      · simp only [Option.some.injEq] at heq; subst heq; rfl
      · cases heq
    · cases heq
  · repeat' split at hx
    all_goals first | (cases hx; done) | (cases hx; rfl)

theorem numericOfInt_rn (z : Int) (h : Option Nat) (m : Mode) :
    (numericOfInt z h m).map (rnValue R) = numericOfInt z h m := by
  cases hx : numericOfInt z h m with
  | error e => rfl
  | ok x => simp [Except.map, rnValue_of_numeric (numericOfInt_isNumeric' hx)]

theorem numV_rn (n : Nat) : (numV n).map (rnValue R) = numV n := numericOfInt_rn _ _ _

theorem numV_ok_rn {n : Nat} {v : Value} (h : numV n = .ok v) : rnValue R v = v :=
  rnValue_of_numeric (numericOfInt_isNumeric' h)

theorem opVal_ok_rn {o : Option Nat} {v : Value} (h : opVal o = .ok v) : rnValue R v = v := by
  cases o with
  | none => cases h
  | some n => exact rnValue_of_numeric (numericOfInt_isNumeric' (z := (n : Int)) (h := none) (m := .none) h)

theorem numericOfStr_rn (s : Str) (h : Option Nat) (m : Mode) :
    (numericOfStr s h m).map (rnValue R) = numericOfStr s h m := by
  cases hx : numericOfStr s h m with
  | error e => rfl
  | ok x => simp [Except.map, rnValue_of_numeric (numericOfStr_isNumeric'' hx)]

/-! ### lookups -/

theorem get?_rn (t : SymTab) (k : Str) (hinj : ∀ kv ∈ t, R.sym kv.1 = R.sym k → kv.1 = k) :
    (rnTab R t).get? (R.sym k) = (t.get? k).map (rnValue R) := by
  induction t with
  | nil => rfl
  | cons kv rest ih =>
    obtain ⟨k0, v0⟩ := kv
    have hb : (R.sym k0 == R.sym k) = (k0 == k) := by
      by_cases h : k0 = k
      · subst h; rw [beq_self_eq_true, beq_self_eq_true]
      · have : R.sym k0 ≠ R.sym k := fun hc => h (hinj (k0, v0) (by simp) hc)
        rw [beq_eq_false_iff_ne.mpr this, beq_eq_false_iff_ne.mpr h]
    have ih' := ih (fun kv hkv => hinj kv (by simp [hkv]))
    simp only [SymTab.get?, rnTab, List.map_cons, List.find?_cons, hb] at ih' ⊢
    cases k0 == k with
    | true => rfl
    | false => exact ih'

theorem rnTab_length (t : SymTab) : (rnTab R t).length = t.length := by simp [rnTab]

theorem rnTab_append (t d : SymTab) : rnTab R (t ++ d) = rnTab R t ++ rnTab R d := by simp [rnTab]

/-- `R.sym` is injective on the list `N` -/
def InjOn (f : Str → Str) (N : List Str) : Prop := ∀ x ∈ N, ∀ y ∈ N, f x = f y → x = y

/-- keys and the symbols of the entries of `t` are in `N` -/
def TabIn (N : List Str) (t : SymTab) : Prop := ∀ kv ∈ t, kv.1 ∈ N ∧ ∀ x ∈ valSyms kv.2, x ∈ N

theorem get?_rn_of (N : List Str) (hinj : InjOn R.sym N) (t : SymTab) (ht : TabIn N t) (k : Str) (hk : k ∈ N) :
    (rnTab R t).get? (R.sym k) = (t.get? k).map (rnValue R) :=
  get?_rn t k (fun kv hkv he => hinj _ (ht kv hkv).1 _ hk he)

theorem get?_mem {t : SymTab} {k : Str} {v : Value} (h : t.get? k = some v) : ∃ k', (k', v) ∈ t := by
  unfold SymTab.get? at h
  cases hf : t.find? (·.1 == k) with
  | none => rw [hf] at h; cases h
  | some kv =>
    rw [hf] at h
    simp only [Option.map_some, Option.some.injEq] at h
    subst h
    exact ⟨kv.1, List.mem_of_find?_eq_some hf⟩

/-! ### `Value.resolve` -/

theorem resolveExprCore_rn (l r : Value) (op : Char) (mode : Mode) :
    resolveExprCore (rnValue R l) (rnValue R r) op mode
      = (resolveExprCore l r op mode).map (rnValue R) := by
  by_cases hn : l.isNumeric = true ∧ r.isNumeric = true
  · obtain ⟨h1, h2⟩ := hn
    rw [rnValue_of_numeric h1, rnValue_of_numeric h2]
    cases l <;> first | cases h1 | skip
    cases r <;> first | cases h2 | skip
    unfold resolveExprCore
    dsimp only
    split
    · rfl
    · generalize hx : numericOfStr _ _ _ = x
      cases x with
      | error e => rfl
      | ok w => simp [Except.map, rnValue_of_numeric (numericOfStr_isNumeric'' hx)]
  · have key : ∀ a b : Value, ¬ (a.isNumeric = true ∧ b.isNumeric = true) →
        resolveExprCore a b op mode =
          if a.isAddress || b.isAddress then .ok (.expr a b op mode true) else .error .other := by
      intro a b hab
      cases a <;> cases b <;> first | rfl | (exfalso; exact hab ⟨rfl, rfl⟩)
    rw [key l r hn, key _ _ (by simpa using hn)]
    simp only [rnValue_isAddress]
    split <;> rfl

theorem symPost_rn (s : Value) : symPost (rnValue R s) = (symPost s).map (rnValue R) := by
  cases s with
  | address i m' => rfl
  | numeric i h m' n =>
    simp only [symPost, Value.isAddress, Value.isNumeric, rnValue, Bool.false_eq_true, if_false, if_true]
    exact (numericOfInt_rn _ _ _).symm
  | _ => rfl

/-- `resolveF` commutes with a renaming that is injective on the names that occur -/
theorem resolveF_rn (N : List Str) (hinj : InjOn R.sym N) (t : SymTab) (ht : TabIn N t) : ∀ (n : Nat) (v : Value),
    (∀ x ∈ valSyms v, x ∈ N) →
    resolveF n (rnValue R v) (rnTab R t) = (resolveF n v t).map (rnValue R) := by
  intro n
  induction n with
  | zero => intro v _; rfl
  | succ n ih =>
    intro v hv
    have hsym : ∀ name : Str, name ∈ N →
        getSymF n (rnTab R t) (R.sym name) = (getSymF n t name).map (rnValue R) := by
      intro name hname
      unfold getSymF
      rw [get?_rn_of N hinj t ht name hname]
      cases hg : t.get? name with
      | none => rfl
      | some s =>
        simp only [Option.map_some, rnValue_isExpression]
        split
        · obtain ⟨k', hk'⟩ := get?_mem hg
          exact ih s (ht _ hk').2
        · rfl
    have hlook : ∀ x : Value, (∀ y ∈ valSyms x, y ∈ N) →
        lookF n (rnTab R t) (rnValue R x) = (lookF n t x).map (rnValue R) := by
      intro x hx
      cases x with
      | symbol name m => exact hsym name (hx name (by simp [valSyms]))
      | _ => rfl
    cases v with
    | symbol name m =>
      simp only [rnValue]
      rw [resolveF_symbol, resolveF_symbol, hsym name (hv name (by simp [valSyms]))]
      cases getSymF n t name with
      | error e => rfl
      | ok s => exact symPost_rn s
    | expr l r op mode ae =>
      simp only [rnValue]
      rw [resolveF_expr, resolveF_expr, hlook l (fun y hy => hv y (by simp [valSyms, hy])),
        hlook r (fun y hy => hv y (by simp [valSyms, hy]))]
      cases lookF n t l with
      | error e => rfl
      | ok l' =>
        cases lookF n t r with
        | error e => rfl
        | ok r' => exact resolveExprCore_rn l' r' op mode
    | _ => rfl

theorem resolve_rn (N : List Str) (hinj : InjOn R.sym N) (t : SymTab) (ht : TabIn N t) (v : Value)
    (hv : ∀ x ∈ valSyms v, x ∈ N) :
    (rnValue R v).resolve (rnTab R t) = (v.resolve t).map (rnValue R) := by
  rw [resolve_eq, resolve_eq, rnTab_length]
  exact resolveF_rn N hinj t ht _ v hv

end

end CoCo.Asm.Rename
