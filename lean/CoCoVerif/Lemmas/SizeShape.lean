/-
Lemmas/SizeShape.lean — the shape of an operand as `createOperand` builds it (`OpShape0`) and as
`resolveOperand` leaves it (`OpShape1`), for property C02 "bytes = size".
-/
import CoCoVerif.Lemmas.SizeValue
import CoCoVerif.Lemmas.LayoutEmit

namespace CoCo.Asm
open CoCo
open CoCo.Gen (InstrRow)

/-! ### literal lists -/

theorem fmtHex4_length {v : Nat} (h : v < 65536) : (fmtHex 4 v).length = 4 := by
  rw [fmtHex4 v h]; rfl

theorem elemHex_length {w : Nat} (hw : w = 2 ∨ w = 4) {x h : Str} (he : elemHex w x = .ok h) : h.length = w := by
  unfold elemHex at he
  split at he
  · rename_i i _ _ neg _
    split at he
    · rename_i v hf
      obtain ⟨_, h2, rfl⟩ := fitNum_ok hw hf
      have hpos : (0 : Int) < (2 : Int) ^ (4 * w) := by
        rcases hw with rfl | rfl <;> decide
      have h0 := Int.emod_nonneg (fitInt i neg) (Int.ne_of_gt hpos)
      have h1 := Int.emod_lt_of_pos (fitInt i neg) hpos
      simp only [Value.hex?] at he
      simp only [Except.ok.injEq] at he
      subst he
      unfold numHex
      rcases hw with rfl | rfl
      · have e : (2 : Int) ^ (4 * 2) = 256 := by decide
        rw [e] at h0 h1 ⊢
        simp only [getNegative, Bool.not_false, if_true]
        exact fmtHex2_length (by omega)
      · have e : (2 : Int) ^ (4 * 4) = 65536 := by decide
        rw [e] at h0 h1 ⊢
        simp only [getNegative, Bool.not_false, if_true]
        exact fmtHex4_length (by omega)
    · cases he
  · cases he
  · cases he

theorem mapM_elemHex_length {w : Nat} (hw : w = 2 ∨ w = 4) : ∀ (xs : List Str) (hs : List Str),
    xs.mapM (elemHex w) = .ok hs → ∀ h ∈ hs, h.length = w := by
  intro xs
  induction xs with
  | nil => intro hs h; simp [List.mapM_nil, pure, Except.pure] at h; subst h; simp
  | cons x r ih =>
    intro hs h
    rw [List.mapM_cons] at h
    simp only [bind, Except.bind, pure, Except.pure] at h
    split at h
    · cases h
    · rename_i y hy
      split at h
      · cases h
      · rename_i ys hys
        cases h
        intro z hz
        rcases List.mem_cons.mp hz with rfl | hz
        · exact elemHex_length hw hy
        · exact ih ys hys z hz

theorem elemHexP_length {w : Nat} (hw : w = 2 ∨ w = 4) {x h : Str} (he : elemHexP w x = .ok h) : h.length = w := by
  unfold elemHexP at he
  split at he
  · rename_i h0 hh
    cases he
    exact elemHex_length hw hh
  · split at he
    · cases he; simp
    · cases he

theorem mapM_elemHexP_length {w : Nat} (hw : w = 2 ∨ w = 4) : ∀ (xs : List Str) (hs : List Str),
    xs.mapM (elemHexP w) = .ok hs → hs.length = xs.length ∧ ∀ h ∈ hs, h.length = w := by
  intro xs
  induction xs with
  | nil => intro hs h; simp [List.mapM_nil, pure, Except.pure] at h; subst h; simp
  | cons x r ih =>
    intro hs h
    rw [List.mapM_cons] at h
    simp only [bind, Except.bind, pure, Except.pure] at h
    split at h
    · cases h
    · rename_i y hy
      split at h
      · cases h
      · rename_i ys hys
        cases h
        refine ⟨by simp [(ih ys hys).1], ?_⟩
        intro z hz
        rcases List.mem_cons.mp hz with rfl | hz
        · exact elemHexP_length hw hy
        · exact (ih ys hys).2 z hz

theorem multi_length {w : Nat} (hw : w = 2 ∨ w = 4) {s : Str} {hs : List Str} (h : multi w s = .ok hs) :
    ∀ x ∈ hs, x.length = w := by
  unfold multi at h
  split at h
  · cases h
  · exact (mapM_elemHexP_length hw _ _ h).2

theorem multi_count {w : Nat} (hw : w = 2 ∨ w = 4) {s : Str} {hs : List Str} (h : multi w s = .ok hs) :
    hs.length = (listElems s).length := by
  unfold multi at h
  split at h
  · cases h
  · exact (mapM_elemHexP_length hw _ _ h).1

/-! ### the operand `createOperand` builds -/

/-- the value of an FCB / FDB operand: something `resolve` works on, or a literal list of 2- / 4-digit items -/
def DataShape0 (row : InstrRow) (v : Value) : Prop :=
  Plain v ∨ (row.isMultiByte = true ∧ ∃ hs, v = .multiByte hs ∧ ∀ h ∈ hs, h.length = 2) ∨
    (row.isMultiByte = false ∧ row.isMultiWord = true ∧ ∃ hs, v = .multiWord hs ∧ ∀ h ∈ hs, h.length = 4)

structure OpShape0 (row : InstrRow) (o : Operand) : Prop where
  pv : PV o.value
  plain : o.kind = .immediate ∨ o.kind = .unknown → Plain o.value
  data : o.kind = .pseudo → (row.isMultiByte || row.isMultiWord) = true → row.isStringDefine = false →
    DataShape0 row o.value
  nov : o.kind = .special ∨ o.kind = .inherent → o.value = .none
  left1 : ∀ v, o.left ≠ .val v
  left2 : ∀ l, o.left = .text l → ',' ∉ l
  left3 : ∀ l, o.left = .text l → o.kind = .indexed ∨ o.kind = .extIndirect
  left4 : ∀ l, o.left = .text l → o.value.isLeftRight = true
  nodir : o.kind ≠ .direct ∧ o.kind ≠ .extended

theorem createV_plain {s : Str} {b c : Bool} {v : Value} (h : createV s false b c = .ok v) (hc : ',' ∉ s) :
    Plain v := by
  have h2 := create_nostr h
  have h3 := create_noLR h hc
  rcases create_created h with (h1 | h1 | h1 | h1) | ⟨x, rfl⟩
  · exact .inl h1
  · exact .inr (.inl h1)
  · exact .inr (.inr h1)
  · rw [h1] at h3; cases h3
  · exact absurd rfl (h2 x)

theorem createV_plain' {s : Str} {b c : Bool} {v : Value} (h : createV s false b c = .ok v)
    (hn : ∀ l r m, v ≠ .leftRight l r m) : Plain v := by
  have h2 := create_nostr h
  rcases create_created h with (h1 | h1 | h1 | h1) | ⟨x, rfl⟩
  · exact .inl h1
  · exact .inr (.inl h1)
  · exact .inr (.inr h1)
  · cases v <;> first | (cases h1; done) | exact absurd rfl (hn _ _ _)
  · exact absurd rfl (h2 x)

theorem createOperand_shape0 {s : Str} {row : InstrRow} {o : Operand} (h : createOperand s row = .ok o)
    (hstr : row.isPseudo = false → row.isStringDefine = false) : OpShape0 row o := by
  unfold createOperand at h
  split at h
  · -- pseudo
    dsimp only at h
    split at h
    · cases h
    · rename_i v hv0
      have hv : PV v ∧ ((row.isMultiByte || row.isMultiWord) = true → row.isStringDefine = false →
          DataShape0 row v) := by
        split at hv0
        · rename_i hmb
          split at hv0
          · obtain ⟨hs, hm, rfl⟩ := map_ok hv0
            have hl := multi_length (.inl rfl) hm
            exact ⟨hl, fun _ _ => .inr (.inl ⟨hmb, hs, rfl, hl⟩)⟩
          · rename_i hc
            refine ⟨createV_pv hv0, fun _ hsd => .inl ?_⟩
            rw [hsd] at hv0
            exact createV_plain hv0 (by intro hm; exact hc (List.contains_iff_mem.mpr hm))
        · rename_i hmb
          have hmb : row.isMultiByte = false := by simpa using hmb
          split at hv0
          · rename_i hmw
            split at hv0
            · obtain ⟨hs, hm, rfl⟩ := map_ok hv0
              have hl := multi_length (.inr rfl) hm
              exact ⟨hl, fun _ _ => .inr (.inr ⟨hmb, hmw, hs, rfl, hl⟩)⟩
            · rename_i hc
              refine ⟨createV_pv hv0, fun _ hsd => .inl ?_⟩
              rw [hsd] at hv0
              exact createV_plain hv0 (by intro hm; exact hc (List.contains_iff_mem.mpr hm))
          · rename_i hmw
            have hmw : row.isMultiWord = false := by simpa using hmw
            split at hv0
            · cases hv0; exact ⟨trivial, fun hm => by simp [hmb, hmw] at hm⟩
            · exact ⟨createV_pv hv0, fun hm => by simp [hmb, hmw] at hm⟩
      repeat' split at h
      all_goals first
        | (cases h; done)
        | (cases h; exact ⟨hv.1, by simp, fun _ => hv.2, by simp, by simp, by simp, by simp, by simp [Value.isLeftRight], by simp⟩)
        | (obtain ⟨a, ha, hf⟩ := map_ok h; subst hf
           exact ⟨numericOfInt_pv (.inl rfl) ha, by simp, fun _ _ _ => .inl (.inl (numericOfInt_isNumeric ha)),
             by simp, by simp, by simp, by simp, by simp [Value.isLeftRight], by simp⟩)
  · rename_i hp
    have hsd : row.isStringDefine = false := hstr (by simpa using hp)
    rw [hsd] at h
    split at h
    · cases h; exact ⟨trivial, by simp, by simp, fun _ => rfl, by simp, by simp, by simp, by simp [Value.isLeftRight], by simp⟩
    · split at h
      · obtain ⟨a, ha, hf⟩ := map_ok h; subst hf
        exact ⟨createV_pv ha, by simp, by simp, by simp, by simp, by simp, by simp, by simp [Value.isLeftRight], by simp⟩
      · split at h
        · cases h; exact ⟨trivial, by simp, by simp, fun _ => rfl, by simp, by simp, by simp, by simp [Value.isLeftRight], by simp⟩
        · dsimp only at h
          split at h
          · rename_i heq
            cases h
            split at heq
            · split at heq
              · rename_i v hcv
                have hpv := createV_pv hcv
                split at heq
                · cases heq
                  exact ⟨hpv, by simp, by simp, by simp, by simp, by intro l hl; cases hl; exact hpv, by simp, by simp [Value.isLeftRight], by simp⟩
                · cases heq
                  exact ⟨hpv, by simp, by simp, by simp, by simp, by simp, by simp, by simp [Value.isLeftRight], by simp⟩
              · cases heq
            · cases heq
          · split at h
            · cases h
            · rename_i v hcv
              have hpv := createV_pv hcv
              split at h
              · cases h
                exact ⟨hpv, by simp, by simp, by simp, by simp, by intro l hl; cases hl; exact hpv, by simp, by simp [Value.isLeftRight], by simp⟩
              · rename_i hnlr
                have hpl : Plain v := createV_plain' hcv (fun l r m he => hnlr l r m he)
                split at h
                · cases h; exact ⟨hpv, fun _ => hpl, by simp, by simp, by simp, by simp, by simp, by simp [Value.isLeftRight], by simp⟩
                · cases h; exact ⟨hpv, fun _ => hpl, by simp, by simp, by simp, by simp, by simp, by simp [Value.isLeftRight], by simp⟩

/-- (batch 8) a list value has as many items as the operand text has elements -/
theorem createOperand_multi_count {s : Str} {row : InstrRow} {o : Operand} (h : createOperand s row = .ok o)
    (hp : row.isPseudo = true) :
    ∀ hs, (o.value = .multiByte hs ∨ o.value = .multiWord hs) →
      hs.length = (listElems o.text).length ∧ (row.isMultiByte || row.isMultiWord) = true := by
  unfold createOperand at h
  rw [if_pos hp] at h
  dsimp only at h
  split at h
  · cases h
  · rename_i v hv0
    have hcv : ∀ {b c : Bool}, createV s b c = .ok v →
        ∀ hs, (v = .multiByte hs ∨ v = .multiWord hs) →
          hs.length = (listElems s).length ∧ (row.isMultiByte || row.isMultiWord) = true := by
      intro b c hcr hs hm
      rcases create_created hcr with (h1 | h1 | h1 | h1) | ⟨x, rfl⟩
      all_goals first
        | (rcases hm with rfl | rfl <;> cases h1; done)
        | (rcases hm with hm | hm <;> cases hm)
    have hv : ∀ hs, (v = .multiByte hs ∨ v = .multiWord hs) →
        hs.length = (listElems s).length ∧ (row.isMultiByte || row.isMultiWord) = true := by
      split at hv0
      · rename_i hmb
        split at hv0
        · obtain ⟨hs0, hm, rfl⟩ := map_ok hv0
          intro hs hh
          rcases hh with hh | hh <;> cases hh
          exact ⟨multi_count (.inl rfl) hm, by rw [hmb]; rfl⟩
        · exact hcv hv0
      · split at hv0
        · rename_i hmw
          split at hv0
          · obtain ⟨hs0, hm, rfl⟩ := map_ok hv0
            intro hs hh
            rcases hh with hh | hh <;> cases hh
            exact ⟨multi_count (.inr rfl) hm, by rw [hmw]; simp⟩
          · exact hcv hv0
        · split at hv0
          · cases hv0; intro hs hh; rcases hh with hh | hh <;> cases hh
          · exact hcv hv0
    repeat' split at h
    all_goals first
      | (cases h; done)
      | (cases h; exact hv)
      | (obtain ⟨a, ha, hf⟩ := map_ok h; subst hf
         intro hs hh
         have := numericOfInt_isNumeric ha
         rcases hh with hh | hh <;> (dsimp only at hh; rw [hh] at this; cases this))

/-! ### the operand `resolveOperand` leaves -/

/-- the value of an FCB / FDB operand after `resolve_symbols` -/
def DataShape (row : InstrRow) (v : Value) : Prop :=
  Fieldable v ∨ (row.isMultiByte = true ∧ ∃ hs, v = .multiByte hs ∧ ∀ h ∈ hs, h.length = 2) ∨
    (row.isMultiByte = false ∧ row.isMultiWord = true ∧ ∃ hs, v = .multiWord hs ∧ ∀ h ∈ hs, h.length = 4)

structure OpShape1 (row : InstrRow) (o : Operand) : Prop where
  val : o.kind = .immediate ∨ o.kind = .direct ∨ o.kind = .extended → Fieldable o.value
  data : o.kind = .pseudo → (row.isMultiByte || row.isMultiWord) = true → DataShape row o.value
  plain : o.kind = .pseudo → isDataRow row = false → PV o.value
  nov : o.kind = .special ∨ o.kind = .inherent → o.value = .none
  left1 : ∀ v, o.left = .val v → Fieldable v
  left2 : ∀ l, o.left = .text l → l = [] ∨ isABD l = true
  known : o.kind ≠ .unknown

theorem leftPost_fieldable {t : SymTab} {v r : Value} (hv : Fieldable v ∨ v.isExpression = true)
    (h : leftPost t v = .ok r) : Fieldable r := by
  cases v with
  | numeric i hh m n => cases h; exact .inl rfl
  | address i m => cases h; exact .inr (.inl rfl)
  | expr l r' op m ae =>
    have : leftPost t (.expr l r' op m ae) = (Value.expr l r' op m ae).resolve t := by
      cases ae <;> rfl
    rw [this] at h
    rcases resolve_expr_fieldable h with h | h
    · exact .inl h
    · exact .inr (.inr h)
  | _ => rcases hv with (hv | hv | hv) | hv <;> cases hv

theorem resolveLeft_fieldable {l : Str} {row : InstrRow} {t : SymTab} {v : Value}
    (h : resolveLeft l row t = .ok v) (hsd : row.isStringDefine = false) (hc : ',' ∉ l) : Fieldable v := by
  rw [resolveLeft_eq, hsd] at h
  cases hcr : create 4 l false row.is16Bit false with
  | error e => rw [hcr] at h; cases h
  | ok v0 =>
    rw [hcr] at h
    dsimp only at h
    have hpl : Plain v0 := createV_plain (s := l) (b := row.is16Bit) (c := false) hcr hc
    split at h
    · rename_i hsym
      cases v0 with
      | symbol name m =>
        cases hr : (Value.symbol name m).resolve t with
        | error e => rw [hr] at h; cases h
        | ok v2 =>
          rw [hr] at h
          refine leftPost_fieldable (.inl ?_) h
          rcases resolve_symbol_fieldable hr with h' | h'
          · exact .inl h'
          · exact .inr (.inl h')
      | _ => cases hsym
    · rename_i hsym
      refine leftPost_fieldable ?_ h
      rcases hpl with h' | h' | h'
      · exact .inl (.inl h')
      · exact absurd h' hsym
      · exact .inr h'

theorem resolveOperand_shape1 {o o' : Operand} {row : InstrRow} {t : SymTab} (h0 : OpShape0 row o)
    (hsd : o.kind ≠ .pseudo → row.isStringDefine = false)
    (hmulti : (row.isMultiByte || row.isMultiWord) = true → isDataRow row = true ∧ row.isStringDefine = false)
    (h : resolveOperand o row t = .ok o') : OpShape1 row o' := by
  have hleft : ∀ (l : Str), o.left = .text l → o.kind ≠ .pseudo →
      (if (l != [] && !isABD l) = true then
          (resolveLeft l row t).map (fun v => { o with left := .val v }) else .ok o) = .ok o' →
      o'.kind = o.kind ∧ o'.value = o.value ∧ (∀ v, o'.left = .val v → Fieldable v) ∧
        (∀ l, o'.left = .text l → l = [] ∨ isABD l = true) := by
    intro l hl hk h
    split at h
    · obtain ⟨a, ha, hf⟩ := map_ok h
      subst hf
      refine ⟨rfl, rfl, ?_, by simp⟩
      intro v hv
      cases hv
      exact resolveLeft_fieldable ha (hsd hk) (h0.left2 l hl)
    · rename_i hc
      cases h
      refine ⟨rfl, rfl, fun v hv => absurd hv (h0.left1 v), ?_⟩
      intro l' hl'
      rw [hl] at hl'
      cases hl'
      by_cases hnil : l = []
      · exact .inl hnil
      · right
        have : (l != []) = true := by simpa using hnil
        simp only [this, Bool.true_and, Bool.not_eq_true', Bool.not_eq_false] at hc
        simpa using hc
  have hkeep : ∀ l, o.left = .text l → o.kind ≠ .indexed → o.kind ≠ .extIndirect → False := by
    intro l hl h1 h2
    rcases h0.left3 l hl with h | h
    · exact h1 h
    · exact h2 h
  unfold resolveOperand at h
  cases hk : o.kind <;> simp only [hk] at h
  case special =>
    cases h
    exact ⟨by simp [hk], by simp [hk], by simp [hk], fun _ => h0.nov (.inl hk), fun v hv => absurd hv (h0.left1 v),
      fun l hl => (hkeep l hl (by simp [hk]) (by simp [hk])).elim, by simp [hk]⟩
  case pseudo =>
    have hfin : ∀ v', o' = { o with value := v' } →
        ((row.isMultiByte || row.isMultiWord) = true → DataShape row v') → (isDataRow row = false → PV v') →
        OpShape1 row o' := by
      intro v' he hd hp
      subst he
      exact ⟨by simp [hk], fun _ hm => hd hm, fun _ hr => hp hr, by simp [hk], fun v hv => absurd hv (h0.left1 v),
        fun l hl => (hkeep l hl (by simp [hk]) (by simp [hk])).elim, by simp [hk]⟩
    have hsame : DataShape0 row o.value → o.value.isSymbol = false → o.value.isExpression = false →
        DataShape row o.value := by
      intro hd h1 h2
      rcases hd with (h | h | h) | h | h
      · exact .inl (.inl h)
      · rw [h1] at h; cases h
      · rw [h2] at h; cases h
      · exact .inr (.inl h)
      · exact .inr (.inr h)
    split at h
    · rename_i hdr
      have hdr : isDataRow row = true := hdr
      split at h
      · cases h
      · split at h
        · rename_i hse
          obtain ⟨a, ha, hf⟩ := map_ok h
          refine hfin a (by rw [← hf, hk]) (fun hm => ?_) (fun hr => by rw [hdr] at hr; cases hr)
          have hd := h0.data hk hm (hmulti hm).2
          rcases hd with hd | hd | hd
          · exact .inl (resolve_plain hd ha)
          · obtain ⟨_, hs, he, _⟩ := hd; rw [he] at hse; simp [Value.isSymbol, Value.isExpression] at hse
          · obtain ⟨_, _, hs, he, _⟩ := hd; rw [he] at hse; simp [Value.isSymbol, Value.isExpression] at hse
        · rename_i hse
          cases h
          simp only [Bool.or_eq_true, not_or, Bool.not_eq_true] at hse
          exact hfin o.value rfl (fun hm => hsame (h0.data hk hm (hmulti hm).2) hse.1 hse.2)
            (fun hr => by rw [hdr] at hr; cases hr)
    · rename_i hdr
      have hdr : isDataRow row = false := by simpa [isDataRow] using hdr
      cases h
      exact hfin o.value rfl (fun hm => by rw [(hmulti hm).1] at hdr; cases hdr) (fun _ => h0.pv)
  case indexed =>
    cases hl : o.left with
    | text l =>
      rw [hl] at h
      obtain ⟨e1, e2, e3, e4⟩ := hleft l hl (by simp [hk]) (by rw [hk]; exact h)
      exact ⟨by simp [e1, hk], by simp [e1, hk], by simp [e1, hk], by simp [e1, hk], e3, e4, by simp [e1, hk]⟩
    | noneV =>
      rw [hl] at h; cases h
      exact ⟨by simp [hk], by simp [hk], by simp [hk], by simp [hk], by simp [hl], by simp [hl], by simp [hk]⟩
    | val v => exact absurd hl (h0.left1 v)
  case extIndirect =>
    split at h
    · rename_i hc
      obtain ⟨a, ha, hf⟩ := map_ok h
      subst hf
      refine ⟨by simp [hk], by simp [hk], by simp [hk], by simp [hk], fun v hv => absurd hv (h0.left1 v), ?_, by simp [hk]⟩
      intro l hl
      have := h0.left4 l hl
      simp [this] at hc
    · cases hl : o.left with
      | text l =>
        rw [hl] at h
        obtain ⟨e1, e2, e3, e4⟩ := hleft l hl (by simp [hk]) (by rw [hk]; exact h)
        exact ⟨by simp [e1, hk], by simp [e1, hk], by simp [e1, hk], by simp [e1, hk], e3, e4, by simp [e1, hk]⟩
      | noneV => rw [hl] at h; cases h
      | val v => exact absurd hl (h0.left1 v)
  case direct => exact absurd hk h0.nodir.1
  case extended => exact absurd hk h0.nodir.2
  all_goals
    cases hr : o.value.resolve t with
    | error e => rw [hr] at h; cases h
    | ok v =>
      rw [hr] at h
      dsimp only at h
      have hL1 : ∀ (o2 : Operand), o2.left = o.left → (∀ v, o2.left = .val v → Fieldable v) ∧
          (∀ l, o2.left = .text l → l = [] ∨ isABD l = true) := by
        intro o2 he
        rw [he]
        exact ⟨fun v hv => absurd hv (h0.left1 v), fun l hl => (hkeep l hl (by simp [hk]) (by simp [hk])).elim⟩
      first
        | (-- relative / inherent / immediate
           simp only [bne_iff_ne, ne_eq, reduceCtorEq, not_false_eq_true, if_true, decide_true] at h
           cases h
           refine ⟨?_, by simp, by simp, ?_, (hL1 _ rfl).1, (hL1 _ rfl).2, by simp⟩
           · intro hkk
             first
               | exact resolve_plain (h0.plain (.inl hk)) hr
               | (simp at hkk)
           · intro hkk
             first
               | (have := h0.nov (.inr hk); rw [this] at hr; cases hr; rfl)
               | (simp at hkk))
        | (-- unknown
           have hf : Fieldable v := resolve_plain (h0.plain (.inr hk)) hr
           simp only [bne_self_eq_false, Bool.false_eq_true, if_false] at h
           repeat' split at h
           all_goals first
             | (cases h; done)
             | (cases h
                exact ⟨fun _ => hf, by simp, by simp, by simp, (hL1 _ rfl).1, (hL1 _ rfl).2, by simp⟩)
             | (obtain ⟨a, ha, hf'⟩ := map_ok h; subst hf'
                exact ⟨fun _ => .inl (numericOfInt_isNumeric ha), by simp, by simp, by simp, (hL1 _ rfl).1,
                  (hL1 _ rfl).2, by simp⟩))

/-- (batch 8) `resolve_symbols` leaves an FCB / FDB list operand as it is -/
theorem resolveOperand_multi_keep {o o' : Operand} {row : InstrRow} {t : SymTab}
    (h : resolveOperand o row t = .ok o') (hk : o.kind = .pseudo)
    (hm : o'.value.isMultiByte = true ∨ o'.value.isMultiWord = true) : o' = o := by
  unfold resolveOperand at h
  simp only [hk] at h
  split at h
  · split at h
    · cases h
    · split at h
      · rename_i hse
        obtain ⟨a, ha, hf⟩ := map_ok h
        subst hf
        have hpl : Plain o.value := by
          simp only [Bool.or_eq_true] at hse
          rcases hse with hse | hse
          · exact .inr (.inl hse)
          · exact .inr (.inr hse)
        have hf := resolve_plain hpl ha
        exfalso
        dsimp only at hm
        cases a <;> first
          | (rcases hf with hf | hf | hf <;> cases hf; done)
          | (rcases hm with hm | hm <;> cases hm)
      · cases h; rfl
  · cases h; rfl

end CoCo.Asm
