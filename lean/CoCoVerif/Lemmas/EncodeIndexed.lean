/-
Lemmas/EncodeIndexed.lean — indexed operands without a constant offset, for the four index registers:
`,R  ,R+  ,R++  ,-R  ,--R`, `A,R B,R D,R`, and their bracketed forms.
-/
import CoCoVerif.Lemmas.EncodeOffset

namespace CoCo.Asm
open CoCo CoCo.Spec.MC6809
open CoCo.Gen (InstrRow)

theorem k_cases {k : Nat} (h : k < 4) : k = 0 ∨ k = 1 ∨ k = 2 ∨ k = 3 := by omega

section
variable {o : Operand} {r : InstrRow} {c k : Nat}

/-- `,R` -/
theorem enc_noOff_zero (hk : o.kind = .indexed) (hc : r.ind = some c) (hlk : lookup c = some (opOf r.mnemonic, .idx))
    (hs : r.indSz = opcodeLen c + 1) (hle : o.left = .text []) (hk4 : k < 4) (hr : o.right = some (regName k)) :
    Encodes o r (.idx (.off k 0 false 0)) := by
  rcases k_cases hk4 with rfl | rfl | rfl | rfl <;>
    exact enc_indexed_noOff hk hc hlk hs hle hr (by decide) (by decide) (by decide) (by decide)

/-- `,R+` -/
theorem enc_noOff_inc1 (hk : o.kind = .indexed) (hc : r.ind = some c) (hlk : lookup c = some (opOf r.mnemonic, .idx))
    (hs : r.indSz = opcodeLen c + 1) (hle : o.left = .text []) (hk4 : k < 4) (hr : o.right = some (regName k ++ ['+'])) :
    Encodes o r (.idx (.inc1 k)) := by
  rcases k_cases hk4 with rfl | rfl | rfl | rfl <;>
    exact enc_indexed_noOff hk hc hlk hs hle hr (by decide) (by decide) (by decide) (by decide)

/-- `,R++` -/
theorem enc_noOff_inc2 (hk : o.kind = .indexed) (hc : r.ind = some c) (hlk : lookup c = some (opOf r.mnemonic, .idx))
    (hs : r.indSz = opcodeLen c + 1) (hle : o.left = .text []) (hk4 : k < 4) (hr : o.right = some (regName k ++ ['+', '+'])) :
    Encodes o r (.idx (.inc2 k false)) := by
  rcases k_cases hk4 with rfl | rfl | rfl | rfl <;>
    exact enc_indexed_noOff hk hc hlk hs hle hr (by decide) (by decide) (by decide) (by decide)

/-- `,-R` -/
theorem enc_noOff_dec1 (hk : o.kind = .indexed) (hc : r.ind = some c) (hlk : lookup c = some (opOf r.mnemonic, .idx))
    (hs : r.indSz = opcodeLen c + 1) (hle : o.left = .text []) (hk4 : k < 4) (hr : o.right = some ('-' :: regName k)) :
    Encodes o r (.idx (.dec1 k)) := by
  rcases k_cases hk4 with rfl | rfl | rfl | rfl <;>
    exact enc_indexed_noOff hk hc hlk hs hle hr (by decide) (by decide) (by decide) (by decide)

/-- `,--R` -/
theorem enc_noOff_dec2 (hk : o.kind = .indexed) (hc : r.ind = some c) (hlk : lookup c = some (opOf r.mnemonic, .idx))
    (hs : r.indSz = opcodeLen c + 1) (hle : o.left = .text []) (hk4 : k < 4) (hr : o.right = some ('-' :: '-' :: regName k)) :
    Encodes o r (.idx (.dec2 k false)) := by
  rcases k_cases hk4 with rfl | rfl | rfl | rfl <;>
    exact enc_indexed_noOff hk hc hlk hs hle hr (by decide) (by decide) (by decide) (by decide)

/-- `[,R]` -/
theorem enc_ind_zero (hk : o.kind = .extIndirect) (hc : r.ind = some c) (hlk : lookup c = some (opOf r.mnemonic, .idx))
    (hs : r.indSz = opcodeLen c + 1) (hna : o.value.isAddress = false) (hne : o.value.isAddrExpr = false) (hnn : o.value.isNumeric = false)
    (hle : o.left = .text []) (hk4 : k < 4) (hr : o.right = some (regName k)) :
    Encodes o r (.idx (.off k 0 true 0)) := by
  rcases k_cases hk4 with rfl | rfl | rfl | rfl <;>
    exact enc_extInd_noOff hk hc hlk hs hna hne hnn hle hr (by decide) (by decide) (by decide) (by decide) (by decide)

/-- `[,R++]` -/
theorem enc_ind_inc2 (hk : o.kind = .extIndirect) (hc : r.ind = some c) (hlk : lookup c = some (opOf r.mnemonic, .idx))
    (hs : r.indSz = opcodeLen c + 1) (hna : o.value.isAddress = false) (hne : o.value.isAddrExpr = false) (hnn : o.value.isNumeric = false)
    (hle : o.left = .text []) (hk4 : k < 4) (hr : o.right = some (regName k ++ ['+', '+'])) :
    Encodes o r (.idx (.inc2 k true)) := by
  rcases k_cases hk4 with rfl | rfl | rfl | rfl <;>
    exact enc_extInd_noOff hk hc hlk hs hna hne hnn hle hr (by decide) (by decide) (by decide) (by decide) (by decide)

/-- `[,--R]` -/
theorem enc_ind_dec2 (hk : o.kind = .extIndirect) (hc : r.ind = some c) (hlk : lookup c = some (opOf r.mnemonic, .idx))
    (hs : r.indSz = opcodeLen c + 1) (hna : o.value.isAddress = false) (hne : o.value.isAddrExpr = false) (hnn : o.value.isNumeric = false)
    (hle : o.left = .text []) (hk4 : k < 4) (hr : o.right = some ('-' :: '-' :: regName k)) :
    Encodes o r (.idx (.dec2 k true)) := by
  rcases k_cases hk4 with rfl | rfl | rfl | rfl <;>
    exact enc_extInd_noOff hk hc hlk hs hna hne hnn hle hr (by decide) (by decide) (by decide) (by decide) (by decide)

/-- `[,R+]` and `[,-R]` are rejected (the datasheet has no such mode) -/
theorem rej_ind_inc1 (hk : o.kind = .extIndirect) (hc : r.ind = some c) (hlk : lookup c = some (opOf r.mnemonic, .idx))
    (hna : o.value.isAddress = false) (hne : o.value.isAddrExpr = false) (hnn : o.value.isNumeric = false)
    (hle : o.left = .text []) (hk4 : k < 4) (hr : o.right = some (regName k ++ ['+']) ∨ o.right = some ('-' :: regName k)) :
    translateOperand o r = .error .operandType := by
  have h0 := cell_ne_zero hlk (by decide)
  have ht : translateOperand o r = translateExtIndirect o r := by simp [translateOperand, hk]
  rw [ht]
  rcases hr with hr | hr <;> rcases k_cases hk4 with rfl | rfl | rfl | rfl <;>
    exact translateExtInd_bad hc h0 (cell_lt hlk) hna hne hnn hle hr (by decide) (by decide) (by decide) (by decide)

/-- `A,R` `B,R` `D,R`: the datasheet's accumulator codes are 6, 5, 11 -/
theorem enc_acc (hk : o.kind = .indexed) (hc : r.ind = some c) (hlk : lookup c = some (opOf r.mnemonic, .idx))
    (hs : r.indSz = opcodeLen c + 1) (hk4 : k < 4) (hr : o.right = some (regName k)) :
    (o.left = .text ['A'] → Encodes o r (.idx (.acc 6 k false))) ∧
    (o.left = .text ['B'] → Encodes o r (.idx (.acc 5 k false))) ∧
    (o.left = .text ['D'] → Encodes o r (.idx (.acc 11 k false))) := by
  refine ⟨fun hl => ?_, fun hl => ?_, fun hl => ?_⟩ <;> rcases k_cases hk4 with rfl | rfl | rfl | rfl <;>
    exact enc_indexed_acc hk hc hlk hs hl (by decide) hr (by decide) (by decide) (by decide) (by decide) (by decide)

/-- `[A,R]` `[B,R]` `[D,R]` -/
theorem enc_ind_acc (hk : o.kind = .extIndirect) (hc : r.ind = some c) (hlk : lookup c = some (opOf r.mnemonic, .idx))
    (hs : r.indSz = opcodeLen c + 1) (hna : o.value.isAddress = false) (hne : o.value.isAddrExpr = false) (hnn : o.value.isNumeric = false)
    (hk4 : k < 4) (hr : o.right = some (regName k)) :
    (o.left = .text ['A'] → Encodes o r (.idx (.acc 6 k true))) ∧
    (o.left = .text ['B'] → Encodes o r (.idx (.acc 5 k true))) ∧
    (o.left = .text ['D'] → Encodes o r (.idx (.acc 11 k true))) := by
  refine ⟨fun hl => ?_, fun hl => ?_, fun hl => ?_⟩ <;> rcases k_cases hk4 with rfl | rfl | rfl | rfl <;>
    exact enc_extInd_acc hk hc hlk hs hna hne hnn hl (by decide) hr (by decide) (by decide) (by decide) (by decide) (by decide)

end
end CoCo.Asm
