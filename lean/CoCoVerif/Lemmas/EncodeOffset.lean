/-
Lemmas/EncodeOffset.lean — constant-offset indexed operands `n,R` and `[n,R]`: the branches of
`translateOffset` computed symbolically, and the round trip through the datasheet post-byte decoder.
-/
import CoCoVerif.Lemmas.EncodeClasses

namespace CoCo.Asm
open CoCo CoCo.Spec.MC6809
open CoCo.Gen (InstrRow)

/-- the hypotheses on the register text shared by every branch: no auto increment, not PCR -/
structure PlainReg (right : Str) : Prop where
  noPlus : hasSub ['+'] right = false
  noMinus : hasSub ['-'] right = false
  noPcr : hasSub (str "PCR") right = false

/-- 5-bit non-negative offset -/
theorem translateOffset_pos5 {row : InstrRow} {c i : Nat} {h : Option Nat} {m : Mode} {right : Str} {raw0 : Nat}
    (hc : row.ind = some c) (hc' : c < 65536) (hr : PlainReg right) (hi : i ≤ 15) (hraw : raw0 ||| i < 256) :
    translateOffset false row (.numeric i h m false) right raw0 =
      .ok { opCode := opv c, postByte := .numeric (raw0 ||| i) (some 2) .direct false, additional := .none,
            size := row.indSz, maxSize := row.indSz, needsRes := false } := by
  simp [translateOffset, hr.noPlus, hr.noMinus, hr.noPcr, hc, opVal_ok hc', Value.isExpression, Value.isAddrExpr,
    is4Bit, hi, numV_byte hraw]
  rfl

/-- 5-bit negative offset -/
theorem translateOffset_neg5 {row : InstrRow} {c i : Nat} {h : Option Nat} {m : Mode} {right : Str} {raw0 : Nat}
    (hc : row.ind = some c) (hc' : c < 65536) (hr : PlainReg right) (hi : i ≤ 16)
    (hraw : raw0 ||| 0x10 ||| (0x10 - i) < 256) :
    translateOffset false row (.numeric i h m true) right raw0 =
      .ok { opCode := opv c, postByte := .numeric (raw0 ||| 0x10 ||| (0x10 - i)) (some 2) .direct false,
            additional := .none, size := row.indSz, maxSize := row.indSz, needsRes := false } := by
  simp [translateOffset, hr.noPlus, hr.noMinus, hr.noPcr, hc, opVal_ok hc', Value.isExpression, Value.isAddrExpr,
    is4Bit, hi, numV_byte hraw]
  rfl

/-- 8-bit non-negative offset (`ind`: inside brackets, where there is no 5-bit form) -/
theorem translateOffset_pos8 {ind : Bool} {row : InstrRow} {c i : Nat} {h : Option Nat} {m : Mode} {right : Str}
    {raw0 : Nat} (hc : row.ind = some c) (hc' : c < 65536) (hr : PlainReg right)
    (hlo : ind = true ∨ 16 ≤ i) (hi : i ≤ 127) (hraw : raw0 ||| ((if ind then 0x90 else 0x80) + 0x08) < 256) :
    translateOffset ind row (.numeric i h m false) right raw0 =
      .ok { opCode := opv c, postByte := .numeric (raw0 ||| ((if ind then 0x90 else 0x80) + 0x08)) (some 2) .direct false,
            additional := .numeric i h m false, size := row.indSz + 1, maxSize := row.indSz + 1, needsRes := false } := by
  have h4 : (!ind && is4Bit i false) = false := by
    rcases hlo with rfl | h16
    · simp
    · have : ¬ i ≤ 15 := by omega
      simp [is4Bit, this]
  simp [translateOffset, hr.noPlus, hr.noMinus, hr.noPcr, hc, opVal_ok hc', Value.isExpression, Value.isAddrExpr,
    h4, is8Bit, hi, numV_byte hraw]
  rfl

/-- 16-bit non-negative offset -/
theorem translateOffset_pos16 {ind : Bool} {row : InstrRow} {c i : Nat} {h : Option Nat} {m : Mode} {right : Str}
    {raw0 : Nat} (hc : row.ind = some c) (hc' : c < 65536) (hr : PlainReg right)
    (hlo : 128 ≤ i) (hi : i < 65536) (hraw : raw0 ||| ((if ind then 0x90 else 0x80) + 0x09) < 256) :
    translateOffset ind row (.numeric i h m false) right raw0 =
      .ok { opCode := opv c, postByte := .numeric (raw0 ||| ((if ind then 0x90 else 0x80) + 0x09)) (some 2) .direct false,
            additional := .numeric i (some 4) .extended false, size := row.indSz + 2, maxSize := row.indSz + 2,
            needsRes := false } := by
  have h4 : (!ind && is4Bit i false) = false := by
    have : ¬ i ≤ 15 := by omega
    simp [is4Bit, this]
  have h8 : ¬ i ≤ 127 := by omega
  simp [translateOffset, hr.noPlus, hr.noMinus, hr.noPcr, hc, opVal_ok hc', Value.isExpression, Value.isAddrExpr,
    h4, is8Bit, h8, numV_byte hraw, numericOfInt_hint 4 hi]
  rfl

/-- 8-bit negative offset: the two's complement byte, counted in `size` (since the repair of A4) -/
theorem translateOffset_neg8 {ind : Bool} {row : InstrRow} {c i : Nat} {h : Option Nat} {m : Mode} {right : Str}
    {raw0 : Nat} (hc : row.ind = some c) (hc' : c < 65536) (hr : PlainReg right)
    (hlo : ind = true ∨ 17 ≤ i) (h1 : 1 ≤ i) (hi : i ≤ 128) (hraw : raw0 ||| ((if ind then 0x90 else 0x80) + 0x08) < 256) :
    translateOffset ind row (.numeric i h m true) right raw0 =
      .ok { opCode := opv c, postByte := .numeric (raw0 ||| ((if ind then 0x90 else 0x80) + 0x08)) (some 2) .direct false,
            additional := .numeric (0x100 - i) (some 2) .direct false, size := row.indSz + 1, maxSize := row.indSz + 1,
            needsRes := false } := by
  have h4 : (!ind && is4Bit i true) = false := by
    rcases hlo with rfl | h16
    · simp
    · have : ¬ i ≤ 16 := by omega
      simp [is4Bit, this]
  simp [translateOffset, hr.noPlus, hr.noMinus, hr.noPcr, hc, opVal_ok hc', Value.isExpression, Value.isAddrExpr,
    h4, is8Bit, hi, numV_byte hraw, numV_byte (show 0x100 - i < 256 by omega)]
  rfl

/-- `NumericValue(v)` of a value 256..65535 -/
theorem numericOfInt_word {v : Nat} (h1 : 256 ≤ v) (h2 : v < 65536) :
    numericOfInt (v : Int) none .none = .ok (.numeric v none .extended false) := numV_word h1 h2

/-- 16-bit negative offset: the two's complement word, counted in `size` -/
theorem translateOffset_neg16 {ind : Bool} {row : InstrRow} {c i : Nat} {h : Option Nat} {m : Mode} {right : Str}
    {raw0 : Nat} (hc : row.ind = some c) (hc' : c < 65536) (hr : PlainReg right)
    (hlo : 129 ≤ i) (hi : i ≤ 32768) (hraw : raw0 ||| ((if ind then 0x90 else 0x80) + 0x09) < 256) :
    translateOffset ind row (.numeric i h m true) right raw0 =
      .ok { opCode := opv c, postByte := .numeric (raw0 ||| ((if ind then 0x90 else 0x80) + 0x09)) (some 2) .direct false,
            additional := .numeric (0x10000 - i) none .extended false, size := row.indSz + 2, maxSize := row.indSz + 2,
            needsRes := false } := by
  have h4 : (!ind && is4Bit i true) = false := by
    have : ¬ i ≤ 16 := by omega
    simp [is4Bit, this]
  have h8 : ¬ i ≤ 128 := by omega
  have e : (65536 : Int) - (i : Int) = ((0x10000 - i : Nat) : Int) := by omega
  simp [translateOffset, hr.noPlus, hr.noMinus, hr.noPcr, hc, opVal_ok hc', Value.isExpression, Value.isAddrExpr,
    h4, is8Bit, h8, numV_byte hraw, e, numericOfInt_word (show 256 ≤ 0x10000 - i by omega) (show 0x10000 - i < 65536 by omega)]
  rfl

/-! ### from the operand to `translateOffset` -/

theorem translateIndexed_offset {o : Operand} {r : InstrRow} {c i : Nat} {h : Option Nat} {m : Mode} {neg : Bool}
    {right : Str} (hc : r.ind = some c) (h0 : c ≠ 0) (hc' : c < 65536)
    (hl : o.left = .val (.numeric i h m neg)) (hi : i ≠ 0) (hr : o.right = some right)
    (hvr : validIndexReg right = true) :
    translateIndexed o r = translateOffset false r (.numeric i h m neg) right (regBits right) := by
  obtain ⟨j, rfl⟩ : ∃ j, i = j + 1 := ⟨i - 1, by omega⟩
  simp [translateIndexed, hc, h0, hl, hr, opVal_ok hc', hvr]
  rfl

theorem translateExtInd_offset {o : Operand} {r : InstrRow} {c i : Nat} {h : Option Nat} {m : Mode} {neg : Bool}
    {right : Str} (hc : r.ind = some c) (h0 : c ≠ 0) (hc' : c < 65536) (hna : o.value.isAddress = false)
    (hne : o.value.isAddrExpr = false) (hnn : o.value.isNumeric = false)
    (hl : o.left = .val (.numeric i h m neg)) (hi : i ≠ 0) (hr : o.right = some right)
    (hvr : validIndexReg right = true) :
    translateExtIndirect o r = translateOffset true r (.numeric i h m neg) right (0x80 ||| regBits right) := by
  obtain ⟨j, rfl⟩ : ∃ j, i = j + 1 := ⟨i - 1, by omega⟩
  simp [translateExtIndirect, hc, h0, hl, hr, opVal_ok hc', hna, hne, hnn, hvr]
  rfl

/-! ### the four index registers -/

/-- X, Y, U, S by their datasheet register number -/
def regName (k : Nat) : Str := match k with | 0 => ['X'] | 1 => ['Y'] | 2 => ['U'] | _ => ['S']

theorem regName_plain : ∀ k, k < 4 → PlainReg (regName k) := by
  intro k hk
  have : k = 0 ∨ k = 1 ∨ k = 2 ∨ k = 3 := by omega
  rcases this with rfl | rfl | rfl | rfl <;> exact ⟨by decide, by decide, by decide⟩

theorem regName_valid (k : Nat) : validIndexReg (regName k) = true := by
  match k with
  | 0 | 1 | 2 => rfl
  | _ + 3 => rfl

theorem regBits_regName : ∀ k, k < 4 → regBits (regName k) = 32 * k := by decide

theorem or_low : ∀ k, k < 4 → ∀ x, x < 32 → (32 * k) ||| x = 32 * k + x := by decide
theorem or_high : ∀ k, k < 4 → ∀ x, x < 32 → (32 * k) ||| (128 + x) = 128 + 32 * k + x := by decide
theorem or_high' : ∀ k, k < 4 → ∀ x, x < 32 → (128 ||| 32 * k) ||| (128 + x) = 128 + 32 * k + x := by decide
theorem or_neg5 : ∀ i, i < 17 → 1 ≤ i → 0x10 ||| (0x10 - i) = 32 - i := by decide

/-! ### round trips -/

theorem byteField_pos {i : Nat} : byteField i false = i := rfl
theorem wordField_pos {i : Nat} : wordField i false = i := rfl

theorem enc_off_pos5 {o : Operand} {r : InstrRow} {c i k : Nat} {h : Option Nat} {m : Mode}
    (hk : o.kind = .indexed) (hc : r.ind = some c) (hlk : lookup c = some (opOf r.mnemonic, .idx))
    (hs : r.indSz = opcodeLen c + 1) (hl : o.left = .val (.numeric i h m false)) (h1 : 1 ≤ i) (h2 : i ≤ 15)
    (hk4 : k < 4) (hr : o.right = some (regName k)) : Encodes o r (.idx (.off k i false 5)) := by
  have h0 := cell_ne_zero hlk (by decide)
  have hp : regBits (regName k) ||| i = 32 * k + i := by rw [regBits_regName k hk4, or_low k hk4 i (by omega)]
  have ht : translateOperand o r = translateIndexed o r := by simp [translateOperand, hk]
  rw [translateIndexed_offset hc h0 (cell_lt hlk) hl (by omega) hr (regName_valid k),
    translateOffset_pos5 hc (cell_lt hlk) (regName_plain k hk4) h2 (by rw [hp]; omega), hp] at ht
  refine enc_idx_gen hlk ht rfl rfl rfl (by omega) rfl (by simp [hs]) ?_
  have a : 32 * k + i < 128 := by omega
  have b : (32 * k + i) / 32 % 4 = k := by omega
  have d : (32 * k + i) % 32 = i := by omega
  have e : ¬ i ≥ 16 := by omega
  rw [decodePostByte_cons, if_pos a, b, d]
  simp [sext, e]

theorem enc_off_neg5 {o : Operand} {r : InstrRow} {c i k : Nat} {h : Option Nat} {m : Mode}
    (hk : o.kind = .indexed) (hc : r.ind = some c) (hlk : lookup c = some (opOf r.mnemonic, .idx))
    (hs : r.indSz = opcodeLen c + 1) (hl : o.left = .val (.numeric i h m true)) (h1 : 1 ≤ i) (h2 : i ≤ 16)
    (hk4 : k < 4) (hr : o.right = some (regName k)) : Encodes o r (.idx (.off k (-(i : Int)) false 5)) := by
  have h0 := cell_ne_zero hlk (by decide)
  have hp : regBits (regName k) ||| 0x10 ||| (0x10 - i) = 32 * k + (32 - i) := by
    rw [regBits_regName k hk4, Nat.or_assoc, or_neg5 i (by omega) h1, or_low k hk4 _ (by omega)]
  have ht : translateOperand o r = translateIndexed o r := by simp [translateOperand, hk]
  rw [translateIndexed_offset hc h0 (cell_lt hlk) hl (by omega) hr (regName_valid k),
    translateOffset_neg5 hc (cell_lt hlk) (regName_plain k hk4) h2 (by rw [hp]; omega), hp] at ht
  refine enc_idx_gen hlk ht rfl rfl rfl (by omega) rfl (by simp [hs]) ?_
  have a : 32 * k + (32 - i) < 128 := by omega
  have b : (32 * k + (32 - i)) / 32 % 4 = k := by omega
  have d : (32 * k + (32 - i)) % 32 = 32 - i := by omega
  have e : 32 - i ≥ 16 := by omega
  rw [decodePostByte_cons, if_pos a, b, d]
  simp [sext, e]
  omega

/-- the decoder on an 8-bit offset post byte (`q` = 8 direct, 24 indirect) -/
theorem decode_off8 {k q b : Nat} (hk4 : k < 4) (hq : q = 8 ∨ q = 24) (rest : Bytes) :
    decodePostByte ((128 + 32 * k + q) :: b :: rest) = some (.off k (sext b 8) (q = 24) 8, 2) := by
  have a : ¬ 128 + 32 * k + q < 128 := by omega
  have b' : (128 + 32 * k + q) / 32 % 4 = k := by omega
  have d : (128 + 32 * k + q) % 16 = 8 := by omega
  rw [decodePostByte_cons, if_neg a, b', d]
  rcases hq with rfl | rfl
  · have e : (128 + 32 * k + 8) / 16 % 2 = 0 := by omega
    simp [e]
  · have e : (128 + 32 * k + 24) / 16 % 2 = 1 := by omega
    simp [e]

/-- the decoder on a 16-bit offset post byte (`q` = 9 direct, 25 indirect) -/
theorem decode_off16 {k q hi lo : Nat} (hk4 : k < 4) (hq : q = 9 ∨ q = 25) (rest : Bytes) :
    decodePostByte ((128 + 32 * k + q) :: hi :: lo :: rest) = some (.off k (sext (hi * 256 + lo) 16) (q = 25) 16, 3) := by
  have a : ¬ 128 + 32 * k + q < 128 := by omega
  have b' : (128 + 32 * k + q) / 32 % 4 = k := by omega
  have d : (128 + 32 * k + q) % 16 = 9 := by omega
  rw [decodePostByte_cons, if_neg a, b', d]
  rcases hq with rfl | rfl
  · have e : (128 + 32 * k + 9) / 16 % 2 = 0 := by omega
    simp [e]
  · have e : (128 + 32 * k + 25) / 16 % 2 = 1 := by omega
    simp [e]

theorem sext8_pos {i : Nat} (h : i ≤ 127) : sext i 8 = (i : Int) := by
  have : ¬ i ≥ 128 := by omega
  simp [sext, this]
theorem sext8_neg {i : Nat} (h1 : 1 ≤ i) (h2 : i ≤ 128) : sext (256 - i) 8 = -(i : Int) := by
  have : 256 - i ≥ 128 := by omega
  simp [sext, this]; omega
theorem sext16_neg {i : Nat} (h1 : 1 ≤ i) (h2 : i ≤ 32768) : sext (65536 - i) 16 = -(i : Int) := by
  have : 65536 - i ≥ 32768 := by omega
  simp [sext, this]; omega

section fitted
variable {o : Operand} {r : InstrRow} {c i k : Nat} {h : Option Nat} {m : Mode}
  (hpr : r.isPseudo = false) (hsp : r.isSpecial = false)
include hpr hsp

/-- `n,R`, 16 ≤ n ≤ 127, whatever the size hint of the literal (the field is fitted to one byte) -/
theorem enc_off_pos8 (hk : o.kind = .indexed) (hc : r.ind = some c) (hlk : lookup c = some (opOf r.mnemonic, .idx))
    (hs : r.indSz = opcodeLen c + 1) (hl : o.left = .val (.numeric i h m false)) (h1 : 16 ≤ i) (h2 : i ≤ 127)
    (hk4 : k < 4) (hr : o.right = some (regName k)) :
    Encodes o r (.idx (.off k i false 8)) := by
  have h0 := cell_ne_zero hlk (by decide)
  have hp : regBits (regName k) ||| ((if false = true then 0x90 else 0x80) + 0x08) = 128 + 32 * k + 8 := by
    rw [regBits_regName k hk4]; exact or_high k hk4 8 (by omega)
  have ht : translateOperand o r = translateIndexed o r := by simp [translateOperand, hk]
  rw [translateIndexed_offset hc h0 (cell_lt hlk) hl (by omega) hr (regName_valid k),
    translateOffset_pos8 hc (cell_lt hlk) (regName_plain k hk4) (Or.inr h1) h2 (by rw [hp]; omega), hp] at ht
  have hf : fitsByte i false = true := by simp [fitsByte]; omega
  refine enc_idx_fit (ad := [byteField i false]) hpr hsp hlk ht rfl rfl rfl (by omega) rfl (.byte hf) (by simp [hs]) ?_
  rw [decode_off8 hk4 (Or.inl rfl), byteField_pos, sext8_pos h2]
  simp

/-- `-n,R`, 17 ≤ n ≤ 128: post byte, then the two's complement byte; `size` counts it -/
theorem enc_off_neg8 (hk : o.kind = .indexed) (hc : r.ind = some c) (hlk : lookup c = some (opOf r.mnemonic, .idx))
    (hs : r.indSz = opcodeLen c + 1) (hl : o.left = .val (.numeric i h m true)) (h1 : 17 ≤ i) (h2 : i ≤ 128)
    (hk4 : k < 4) (hr : o.right = some (regName k)) :
    Encodes o r (.idx (.off k (-(i : Int)) false 8)) := by
  have h0 := cell_ne_zero hlk (by decide)
  have hp : regBits (regName k) ||| ((if false = true then 0x90 else 0x80) + 0x08) = 128 + 32 * k + 8 := by
    rw [regBits_regName k hk4]; exact or_high k hk4 8 (by omega)
  have ht : translateOperand o r = translateIndexed o r := by simp [translateOperand, hk]
  rw [translateIndexed_offset hc h0 (cell_lt hlk) hl (by omega) hr (regName_valid k),
    translateOffset_neg8 hc (cell_lt hlk) (regName_plain k hk4) (Or.inr h1) (by omega) h2 (by rw [hp]; omega), hp] at ht
  have hf : fitsByte (0x100 - i) false = true := by simp [fitsByte]; omega
  refine enc_idx_fit (ad := [byteField (0x100 - i) false]) hpr hsp hlk ht rfl rfl rfl (by omega) rfl (.byte hf) (by simp [hs]) ?_
  rw [decode_off8 hk4 (Or.inl rfl), byteField_pos, sext8_neg (by omega) h2]
  simp

/-- `n,R`, 128 ≤ n ≤ 65535 -/
theorem enc_off_pos16 (hk : o.kind = .indexed) (hc : r.ind = some c) (hlk : lookup c = some (opOf r.mnemonic, .idx))
    (hs : r.indSz = opcodeLen c + 1) (hl : o.left = .val (.numeric i h m false)) (h1 : 128 ≤ i) (h2 : i < 65536)
    (hk4 : k < 4) (hr : o.right = some (regName k)) :
    Encodes o r (.idx (.off k (sext i 16) false 16)) := by
  have h0 := cell_ne_zero hlk (by decide)
  have hp : regBits (regName k) ||| ((if false = true then 0x90 else 0x80) + 0x09) = 128 + 32 * k + 9 := by
    rw [regBits_regName k hk4]; exact or_high k hk4 9 (by omega)
  have ht : translateOperand o r = translateIndexed o r := by simp [translateOperand, hk]
  rw [translateIndexed_offset hc h0 (cell_lt hlk) hl (by omega) hr (regName_valid k),
    translateOffset_pos16 hc (cell_lt hlk) (regName_plain k hk4) h1 h2 (by rw [hp]; omega), hp] at ht
  have hf : fitsWord i false = true := by simp [fitsWord]; omega
  refine enc_idx_fit (ad := [wordField i false / 256, wordField i false % 256]) hpr hsp hlk ht rfl rfl rfl (by omega) rfl
    (.word hf) (by simp [hs]) ?_
  rw [decode_off16 hk4 (Or.inl rfl), wordField_pos, hi_lo]
  simp

/-- `-n,R`, 129 ≤ n ≤ 32768: post byte, then the two's complement word; `size` counts both bytes -/
theorem enc_off_neg16 (hk : o.kind = .indexed) (hc : r.ind = some c) (hlk : lookup c = some (opOf r.mnemonic, .idx))
    (hs : r.indSz = opcodeLen c + 1) (hl : o.left = .val (.numeric i h m true)) (h1 : 129 ≤ i) (h2 : i ≤ 32768)
    (hk4 : k < 4) (hr : o.right = some (regName k)) :
    Encodes o r (.idx (.off k (-(i : Int)) false 16)) := by
  have h0 := cell_ne_zero hlk (by decide)
  have hp : regBits (regName k) ||| ((if false = true then 0x90 else 0x80) + 0x09) = 128 + 32 * k + 9 := by
    rw [regBits_regName k hk4]; exact or_high k hk4 9 (by omega)
  have ht : translateOperand o r = translateIndexed o r := by simp [translateOperand, hk]
  rw [translateIndexed_offset hc h0 (cell_lt hlk) hl (by omega) hr (regName_valid k),
    translateOffset_neg16 hc (cell_lt hlk) (regName_plain k hk4) h1 h2 (by rw [hp]; omega), hp] at ht
  have hf : fitsWord (0x10000 - i) false = true := by simp [fitsWord]; omega
  refine enc_idx_fit (ad := [wordField (0x10000 - i) false / 256, wordField (0x10000 - i) false % 256]) hpr hsp hlk ht
    rfl rfl rfl (by omega) rfl (.word hf) (by simp [hs]) ?_
  rw [decode_off16 hk4 (Or.inl rfl), wordField_pos, hi_lo, sext16_neg (by omega) h2]
  simp

/-- `[n,R]` with an 8-bit non-negative offset -/
theorem enc_ind_pos8 (hk : o.kind = .extIndirect) (hc : r.ind = some c) (hlk : lookup c = some (opOf r.mnemonic, .idx))
    (hs : r.indSz = opcodeLen c + 1) (hna : o.value.isAddress = false) (hne : o.value.isAddrExpr = false) (hnn : o.value.isNumeric = false)
    (hl : o.left = .val (.numeric i h m false)) (h1 : 1 ≤ i) (h2 : i ≤ 127)
    (hk4 : k < 4) (hr : o.right = some (regName k)) :
    Encodes o r (.idx (.off k i true 8)) := by
  have h0 := cell_ne_zero hlk (by decide)
  have hp : (0x80 ||| regBits (regName k)) ||| ((if true = true then 0x90 else 0x80) + 0x08) = 128 + 32 * k + 24 := by
    rw [regBits_regName k hk4]; exact or_high' k hk4 24 (by omega)
  have ht : translateOperand o r = translateExtIndirect o r := by simp [translateOperand, hk]
  rw [translateExtInd_offset hc h0 (cell_lt hlk) hna hne hnn hl (by omega) hr (regName_valid k),
    translateOffset_pos8 hc (cell_lt hlk) (regName_plain k hk4) (Or.inl rfl) h2 (by rw [hp]; omega), hp] at ht
  have hf : fitsByte i false = true := by simp [fitsByte]; omega
  refine enc_idx_fit (ad := [byteField i false]) hpr hsp hlk ht rfl rfl rfl (by omega) rfl (.byte hf) (by simp [hs]) ?_
  rw [decode_off8 hk4 (Or.inr rfl), byteField_pos, sext8_pos h2]
  simp

/-- `[-n,R]`, 1 ≤ n ≤ 128 (there is no 5-bit indirect form) -/
theorem enc_ind_neg8 (hk : o.kind = .extIndirect) (hc : r.ind = some c) (hlk : lookup c = some (opOf r.mnemonic, .idx))
    (hs : r.indSz = opcodeLen c + 1) (hna : o.value.isAddress = false) (hne : o.value.isAddrExpr = false) (hnn : o.value.isNumeric = false)
    (hl : o.left = .val (.numeric i h m true)) (h1 : 1 ≤ i) (h2 : i ≤ 128)
    (hk4 : k < 4) (hr : o.right = some (regName k)) :
    Encodes o r (.idx (.off k (-(i : Int)) true 8)) := by
  have h0 := cell_ne_zero hlk (by decide)
  have hp : (0x80 ||| regBits (regName k)) ||| ((if true = true then 0x90 else 0x80) + 0x08) = 128 + 32 * k + 24 := by
    rw [regBits_regName k hk4]; exact or_high' k hk4 24 (by omega)
  have ht : translateOperand o r = translateExtIndirect o r := by simp [translateOperand, hk]
  rw [translateExtInd_offset hc h0 (cell_lt hlk) hna hne hnn hl (by omega) hr (regName_valid k),
    translateOffset_neg8 hc (cell_lt hlk) (regName_plain k hk4) (Or.inl rfl) h1 h2 (by rw [hp]; omega), hp] at ht
  have hf : fitsByte (0x100 - i) false = true := by simp [fitsByte]; omega
  refine enc_idx_fit (ad := [byteField (0x100 - i) false]) hpr hsp hlk ht rfl rfl rfl (by omega) rfl (.byte hf) (by simp [hs]) ?_
  rw [decode_off8 hk4 (Or.inr rfl), byteField_pos, sext8_neg h1 h2]
  simp

/-- `[n,R]` with a 16-bit non-negative offset -/
theorem enc_ind_pos16 (hk : o.kind = .extIndirect) (hc : r.ind = some c) (hlk : lookup c = some (opOf r.mnemonic, .idx))
    (hs : r.indSz = opcodeLen c + 1) (hna : o.value.isAddress = false) (hne : o.value.isAddrExpr = false) (hnn : o.value.isNumeric = false)
    (hl : o.left = .val (.numeric i h m false)) (h1 : 128 ≤ i) (h2 : i < 65536)
    (hk4 : k < 4) (hr : o.right = some (regName k)) :
    Encodes o r (.idx (.off k (sext i 16) true 16)) := by
  have h0 := cell_ne_zero hlk (by decide)
  have hp : (0x80 ||| regBits (regName k)) ||| ((if true = true then 0x90 else 0x80) + 0x09) = 128 + 32 * k + 25 := by
    rw [regBits_regName k hk4]; exact or_high' k hk4 25 (by omega)
  have ht : translateOperand o r = translateExtIndirect o r := by simp [translateOperand, hk]
  rw [translateExtInd_offset hc h0 (cell_lt hlk) hna hne hnn hl (by omega) hr (regName_valid k),
    translateOffset_pos16 hc (cell_lt hlk) (regName_plain k hk4) h1 h2 (by rw [hp]; omega), hp] at ht
  have hf : fitsWord i false = true := by simp [fitsWord]; omega
  refine enc_idx_fit (ad := [wordField i false / 256, wordField i false % 256]) hpr hsp hlk ht rfl rfl rfl (by omega) rfl
    (.word hf) (by simp [hs]) ?_
  rw [decode_off16 hk4 (Or.inr rfl), wordField_pos, hi_lo]
  simp

/-- `[-n,R]`, 129 ≤ n ≤ 32768 -/
theorem enc_ind_neg16 (hk : o.kind = .extIndirect) (hc : r.ind = some c) (hlk : lookup c = some (opOf r.mnemonic, .idx))
    (hs : r.indSz = opcodeLen c + 1) (hna : o.value.isAddress = false) (hne : o.value.isAddrExpr = false) (hnn : o.value.isNumeric = false)
    (hl : o.left = .val (.numeric i h m true)) (h1 : 129 ≤ i) (h2 : i ≤ 32768)
    (hk4 : k < 4) (hr : o.right = some (regName k)) :
    Encodes o r (.idx (.off k (-(i : Int)) true 16)) := by
  have h0 := cell_ne_zero hlk (by decide)
  have hp : (0x80 ||| regBits (regName k)) ||| ((if true = true then 0x90 else 0x80) + 0x09) = 128 + 32 * k + 25 := by
    rw [regBits_regName k hk4]; exact or_high' k hk4 25 (by omega)
  have ht : translateOperand o r = translateExtIndirect o r := by simp [translateOperand, hk]
  rw [translateExtInd_offset hc h0 (cell_lt hlk) hna hne hnn hl (by omega) hr (regName_valid k),
    translateOffset_neg16 hc (cell_lt hlk) (regName_plain k hk4) h1 h2 (by rw [hp]; omega), hp] at ht
  have hf : fitsWord (0x10000 - i) false = true := by simp [fitsWord]; omega
  refine enc_idx_fit (ad := [wordField (0x10000 - i) false / 256, wordField (0x10000 - i) false % 256]) hpr hsp hlk ht
    rfl rfl rfl (by omega) rfl (.word hf) (by simp [hs]) ?_
  rw [decode_off16 hk4 (Or.inr rfl), wordField_pos, hi_lo, sext16_neg (by omega) h2]
  simp

end fitted

/-! ### numeric `n,PCR` and `[n,PCR]` (repair A9) -/

/-- whether a numeric offset from the PC takes the 16-bit form: spelt in extended mode, or outside −128..127 -/
def pcrWide (i : Nat) (m : Mode) (neg : Bool) : Bool := m == .extended || !(is8Bit i neg)

theorem is4_or_is8 (i : Nat) (neg : Bool) : (is4Bit i neg || is8Bit i neg) = is8Bit i neg := by
  cases neg <;> simp [is4Bit, is8Bit] <;> omega

/-- the PCR branch of `translateOffset` on a plain number -/
theorem translateOffset_pcr {ind : Bool} {row : InstrRow} {c i : Nat} {h : Option Nat} {m : Mode} {neg : Bool}
    {raw0 : Nat} (hc : row.ind = some c) (hc' : c < 65536)
    (hraw : raw0 ||| ((if ind then 0x90 else 0x80) + (if pcrWide i m neg then 0x0D else 0x0C)) < 256) :
    translateOffset ind row (.numeric i h m neg) (str "PCR") raw0 =
      .ok { opCode := opv c,
            postByte := .numeric (raw0 ||| ((if ind then 0x90 else 0x80) + (if pcrWide i m neg then 0x0D else 0x0C)))
              (some 2) .direct false,
            additional := .numeric i h m neg,
            size := row.indSz + (if pcrWide i m neg then 2 else 1),
            maxSize := row.indSz + (if pcrWide i m neg then 2 else 1) } := by
  have hp : hasSub ['+'] (str "PCR") = false := by decide
  have hm' : hasSub ['-'] (str "PCR") = false := by decide
  have hpcr : hasSub (str "PCR") (str "PCR") = true := by decide
  have hn := numV_byte hraw
  unfold pcrWide at hn hraw ⊢
  by_cases hme : m = .extended
  · subst hme
    simp [translateOffset, hp, hm', hpcr, hc, opVal_ok hc', Value.isExpression, Value.isAddrExpr, Value.mode] at hn ⊢
    simp [hn]
    rfl
  · have hme' : (m == Mode.extended) = false := by simpa using hme
    cases h8 : is8Bit i neg
    · have h4 : is4Bit i neg = false := by
        have := is4_or_is8 i neg
        rw [h8] at this
        simpa using this
      simp [translateOffset, hp, hm', hpcr, hc, opVal_ok hc', Value.isExpression, Value.isAddrExpr, Value.mode, hme',
        h4, h8] at hn ⊢
      simp [hn]
      rfl
    · simp [translateOffset, hp, hm', hpcr, hc, opVal_ok hc', Value.isExpression, Value.isAddrExpr, Value.mode, hme',
        h8] at hn ⊢
      simp [hn]
      rfl


theorem translateIndexed_pcr {o : Operand} {r : InstrRow} {c i : Nat} {h : Option Nat} {m : Mode} {neg : Bool}
    (hc : r.ind = some c) (h0 : c ≠ 0) (hc' : c < 65536)
    (hl : o.left = .val (.numeric i h m neg)) (hr : o.right = some (str "PCR")) :
    translateIndexed o r = translateOffset false r (.numeric i h m neg) (str "PCR") 0 := by
  have hv : validIndexReg (str "PCR") = true := by decide
  have hpcr : hasSub (str "PCR") (str "PCR") = true := by decide
  have hrb : regBits (str "PCR") = 0 := by decide
  cases i <;> simp [translateIndexed, hc, h0, hl, hr, opVal_ok hc', hv, hpcr, hrb] <;> rfl

theorem translateExtInd_pcr {o : Operand} {r : InstrRow} {c i : Nat} {h : Option Nat} {m : Mode} {neg : Bool}
    (hc : r.ind = some c) (h0 : c ≠ 0) (hc' : c < 65536) (hna : o.value.isAddress = false)
    (hne : o.value.isAddrExpr = false) (hnn : o.value.isNumeric = false)
    (hl : o.left = .val (.numeric i h m neg)) (hr : o.right = some (str "PCR")) :
    translateExtIndirect o r = translateOffset true r (.numeric i h m neg) (str "PCR") 0x80 := by
  have hv : validIndexReg (str "PCR") = true := by decide
  have hpcr : hasSub (str "PCR") (str "PCR") = true := by decide
  have hrb : regBits (str "PCR") = 0 := by decide
  cases i <;> simp [translateExtIndirect, hc, h0, hl, hr, opVal_ok hc', hna, hne, hnn, hv, hpcr, hrb] <;> rfl

/-- the decoder on a PC-relative post byte (`$8C`/`$9C`: 8-bit, `$8D`/`$9D`: 16-bit) -/
theorem decode_pcr8 (ind : Bool) (b : Nat) (rest : Bytes) :
    decodePostByte (((if ind then 0x90 else 0x80) + 0x0C) :: b :: rest) = some (.pcr (sext b 8) (ind = true) 8, 2) := by
  cases ind <;> simp [decodePostByte_cons]
theorem decode_pcr16 (ind : Bool) (hi lo : Nat) (rest : Bytes) :
    decodePostByte (((if ind then 0x90 else 0x80) + 0x0D) :: hi :: lo :: rest) =
      some (.pcr (sext (hi * 256 + lo) 16) (ind = true) 16, 3) := by
  cases ind <;> simp [decodePostByte_cons]

/-- the signed value of an 8-bit field -/
theorem sext_byteField {i : Nat} {neg : Bool} (h : is8Bit i neg = true) :
    sext (byteField i neg) 8 = (if neg then -(i : Int) else (i : Int)) := by
  cases neg
  · simp only [is8Bit, Bool.false_eq_true, if_false, decide_eq_true_eq] at h
    simp only [byteField, Bool.false_eq_true, if_false]
    exact sext8_pos h
  · simp only [is8Bit, if_true, decide_eq_true_eq] at h
    simp only [byteField, if_true]
    by_cases h0 : i = 0
    · subst h0; decide
    · have : (256 - i) % 256 = 256 - i := by omega
      rw [this]; exact sext8_neg (by omega) h

theorem is8Bit_fits {i : Nat} {neg : Bool} (h : is8Bit i neg = true) : fitsByte i neg = true := by
  cases neg <;> simp [is8Bit, fitsByte] at h ⊢ <;> omega

section pcr
variable {o : Operand} {r : InstrRow} {c i : Nat} {h : Option Nat} {m : Mode} {neg : Bool}
  (hpr : r.isPseudo = false) (hsp : r.isSpecial = false)
include hpr hsp

/-- `n,PCR` (`ind = false`, an IndexedOperand) and `[n,PCR]` (`ind = true`, bracketed), 8-bit form: the literal is not
spelt in extended mode and −128 ≤ n ≤ 127 -/
theorem enc_pcr8 (ind : Bool) (hk : if ind then o.kind = .extIndirect ∧ o.value.isAddress = false ∧ o.value.isAddrExpr = false ∧ o.value.isNumeric = false
      else o.kind = .indexed)
    (hc : r.ind = some c) (hlk : lookup c = some (opOf r.mnemonic, .idx))
    (hs : r.indSz = opcodeLen c + 1) (hl : o.left = .val (.numeric i h m neg)) (hr : o.right = some (str "PCR"))
    (hw : pcrWide i m neg = false) :
    Encodes o r (.idx (.pcr (if neg then -(i : Int) else (i : Int)) (ind = true) 8)) := by
  have h0 := cell_ne_zero hlk (by decide)
  have h8 : is8Bit i neg = true := by
    simp only [pcrWide, Bool.or_eq_false_iff, Bool.not_eq_false'] at hw; exact hw.2
  have ht : translateOperand o r = translateOffset ind r (.numeric i h m neg) (str "PCR") (if ind then 0x80 else 0) := by
    cases ind
    · simp only [Bool.false_eq_true, if_false] at hk ⊢
      simp only [translateOperand, hk]
      exact translateIndexed_pcr hc h0 (cell_lt hlk) hl hr
    · simp only [if_true] at hk ⊢
      simp only [translateOperand, hk.1]
      exact translateExtInd_pcr hc h0 (cell_lt hlk) hk.2.1 hk.2.2.1 hk.2.2.2 hl hr
  have hp : (if ind then 0x80 else 0) ||| ((if ind then 0x90 else 0x80) + (if pcrWide i m neg then 0x0D else 0x0C)) =
      (if ind then 0x90 else 0x80) + 0x0C := by rw [hw]; cases ind <;> decide
  rw [translateOffset_pcr hc (cell_lt hlk) (by rw [hp]; cases ind <;> decide), hp] at ht
  simp only [hw, Bool.false_eq_true, if_false] at ht
  refine enc_idx_fit (ad := [byteField i neg]) hpr hsp hlk ht rfl rfl rfl (by cases ind <;> decide) rfl
    (.byte (is8Bit_fits h8)) (by simp [hs]) ?_
  rw [decode_pcr8, sext_byteField h8]
  simp

/-- 16-bit form: the literal is spelt in extended mode, or n is outside −128..127 (−32768 ≤ n ≤ 65535) -/
theorem enc_pcr16 (ind : Bool) (hk : if ind then o.kind = .extIndirect ∧ o.value.isAddress = false ∧ o.value.isAddrExpr = false ∧ o.value.isNumeric = false
      else o.kind = .indexed)
    (hc : r.ind = some c) (hlk : lookup c = some (opOf r.mnemonic, .idx))
    (hs : r.indSz = opcodeLen c + 1) (hl : o.left = .val (.numeric i h m neg)) (hr : o.right = some (str "PCR"))
    (hw : pcrWide i m neg = true) (hf : fitsWord i neg = true) :
    Encodes o r (.idx (.pcr (sext (wordField i neg) 16) (ind = true) 16)) := by
  have h0 := cell_ne_zero hlk (by decide)
  have ht : translateOperand o r = translateOffset ind r (.numeric i h m neg) (str "PCR") (if ind then 0x80 else 0) := by
    cases ind
    · simp only [Bool.false_eq_true, if_false] at hk ⊢
      simp only [translateOperand, hk]
      exact translateIndexed_pcr hc h0 (cell_lt hlk) hl hr
    · simp only [if_true] at hk ⊢
      simp only [translateOperand, hk.1]
      exact translateExtInd_pcr hc h0 (cell_lt hlk) hk.2.1 hk.2.2.1 hk.2.2.2 hl hr
  have hp : (if ind then 0x80 else 0) ||| ((if ind then 0x90 else 0x80) + (if pcrWide i m neg then 0x0D else 0x0C)) =
      (if ind then 0x90 else 0x80) + 0x0D := by rw [hw]; cases ind <;> decide
  rw [translateOffset_pcr hc (cell_lt hlk) (by rw [hp]; cases ind <;> decide), hp] at ht
  simp only [hw, if_true] at ht
  refine enc_idx_fit (ad := [wordField i neg / 256, wordField i neg % 256]) hpr hsp hlk ht rfl rfl rfl
    (by cases ind <;> decide) rfl (.word hf) (by simp [hs]) ?_
  rw [decode_pcr16, hi_lo]
  simp

end pcr

/-! ### the remaining branches of `translateOffset` (for the soundness theorem C12) -/

/-- a constant offset before an auto increment / decrement register is refused -/
theorem translateOffset_pm_reject {ind : Bool} {row : InstrRow} {left : Value} {right : Str} {raw0 : Nat}
    (h : (hasSub ['+'] right || hasSub ['-'] right) = true) :
    translateOffset ind row left right raw0 = .error .operandType := by
  unfold translateOffset
  simp only [h, if_true]
  rfl

/-- a non-negative offset above 65535 cannot be built -/
theorem translateOffset_pos_big {ind : Bool} {row : InstrRow} {c i : Nat} {h : Option Nat} {m : Mode} {right : Str}
    {raw0 : Nat} (hc : row.ind = some c) (hc' : c < 65536) (hr : PlainReg right) (hi : 65536 ≤ i)
    (hraw : raw0 ||| ((if ind then 0x90 else 0x80) + 0x09) < 256) :
    ∃ e, translateOffset ind row (.numeric i h m false) right raw0 = .error e := by
  have h4 : (!ind && is4Bit i false) = false := by
    have : ¬ i ≤ 15 := by omega
    simp [is4Bit, this]
  have h8 : ¬ i ≤ 127 := by omega
  have hbig : numericOfInt (i : Int) (some 4) .none = .error .valueType := by
    have : (i : Int) > 65535 := by omega
    simp [numericOfInt, this]
  refine ⟨.valueType, ?_⟩
  simp [translateOffset, hr.noPlus, hr.noMinus, hr.noPcr, hc, opVal_ok hc', Value.isExpression, Value.isAddrExpr,
    h4, is8Bit, h8, numV_byte hraw, hbig]
  rfl

/-- a negative offset below −128, whatever its magnitude: the 16-bit form with SOME numeric field (which
`fit_operand_width` accepts or refuses) -/
theorem translateOffset_neg16_any {ind : Bool} {row : InstrRow} {c i : Nat} {h : Option Nat} {m : Mode} {right : Str}
    {raw0 : Nat} (hc : row.ind = some c) (hc' : c < 65536) (hr : PlainReg right)
    (hlo : 129 ≤ i) (hraw : raw0 ||| ((if ind then 0x90 else 0x80) + 0x09) < 256) :
    ∃ n' h' m' neg', translateOffset ind row (.numeric i h m true) right raw0 =
      .ok { opCode := opv c, postByte := .numeric (raw0 ||| ((if ind then 0x90 else 0x80) + 0x09)) (some 2) .direct false,
            additional := .numeric n' h' m' neg', size := row.indSz + 2, maxSize := row.indSz + 2,
            needsRes := false } := by
  have h4 : (!ind && is4Bit i true) = false := by
    have : ¬ i ≤ 16 := by omega
    simp [is4Bit, this]
  have h8 : ¬ i ≤ 128 := by omega
  have hle : ¬ ((65536 : Int) - (i : Int) > 65535) := by omega
  obtain ⟨x, hx⟩ : ∃ x, numericOfInt ((65536 : Int) - (i : Int)) none .none = .ok x := by
    simp [numericOfInt, hle]
  have hxn : x.isNumeric = true := by
    unfold numericOfInt at hx
    rw [if_neg hle] at hx
    simp only [Except.ok.injEq] at hx; subst hx; rfl
  cases x with
  | numeric n' h' m' neg' =>
    refine ⟨n', h', m', neg', ?_⟩
    simp [translateOffset, hr.noPlus, hr.noMinus, hr.noPcr, hc, opVal_ok hc', Value.isExpression, Value.isAddrExpr,
      h4, is8Bit, h8, numV_byte hraw, hx]
    rfl
  | _ => simp [Value.isNumeric] at hxn

end CoCo.Asm
