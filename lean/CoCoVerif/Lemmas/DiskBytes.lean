/-
Lemmas/DiskBytes.lean — buffer writes on the flat image (`writeBytes` as a splice), slices,
and the geometry of granules (all arithmetic by `omega`).
-/
import CoCoVerif.Model.Disk
import CoCoVerif.Spec.DiskBasic

namespace CoCo.Dsk
open CoCo

/-! ### constants (these break if the generated constants change) -/
theorem fatOffset_eq : Gen.fatOffset = 78592 := rfl
theorem dirOffset_eq : Gen.dirOffset = 78848 := rfl
theorem halfTrackLen_eq : Gen.halfTrackLen = 2304 := rfl
theorem imageSize_eq : Gen.imageSize = 161280 := rfl
theorem totalGranules_eq : Gen.totalGranules = 68 := rfl
theorem bytesPerSector_eq : Gen.bytesPerSector = 256 := rfl
theorem FAT_eq : FAT = 78592 := rfl
theorem DIR_eq : DIR = 78848 := rfl
theorem G_eq : G = 2304 := rfl
theorem SIZE_eq : SIZE = 161280 := rfl

/-! ### geometry -/
theorem seek_eq (g : Nat) : seek g = Spec.DiskBasic.granuleOffset g := by
  unfold seek Spec.DiskBasic.granuleOffset
  simp only [G_eq]
  split <;> split <;> omega

theorem seek_in (g : Nat) (h : g < 68) : seek g + 2304 ≤ 161280 := by
  unfold seek; simp only [G_eq]; split <;> omega

theorem seek_disj (g h : Nat) (hg : g < 68) (hh : h < 68) (hne : g ≠ h) :
    seek g + 2304 ≤ seek h ∨ seek h + 2304 ≤ seek g := by
  unfold seek; simp only [G_eq]; split <;> split <;> omega

theorem seek_track17 (g : Nat) (hg : g < 68) : seek g + 2304 ≤ 78336 ∨ 82944 ≤ seek g := by
  unfold seek; simp only [G_eq]; split <;> omega

/-! ### splice -/
def splice (b : Bytes) (p : Nat) (xs : Bytes) : Bytes := b.take p ++ xs ++ b.drop (p + xs.length)

theorem writeBytes_eq {b : Bytes} {p : Nat} {xs : Bytes} (h : p + xs.length ≤ b.length) :
    writeBytes b p xs = some (splice b p xs) := by
  unfold writeBytes splice; simp [h]

@[simp] theorem splice_nil (b : Bytes) (p : Nat) : splice b p [] = b := by
  unfold splice; simp

@[simp] theorem writeBytes_nil (b : Bytes) (p : Nat) : writeBytes b p [] = some b := by
  unfold writeBytes; simp

theorem splice_length {b : Bytes} {p : Nat} {xs : Bytes} (h : p + xs.length ≤ b.length) :
    (splice b p xs).length = b.length := by
  unfold splice; simp [List.length_take, List.length_drop]; omega

theorem splice_get {b : Bytes} {p : Nat} {xs : Bytes} (h : p + xs.length ≤ b.length) (i : Nat) :
    (splice b p xs)[i]? = if p ≤ i ∧ i < p + xs.length then xs[i - p]? else b[i]? := by
  unfold splice
  have hp : (b.take p).length = p := by simp [List.length_take]; omega
  by_cases h1 : i < p
  · have : ¬ (p ≤ i ∧ i < p + xs.length) := by omega
    simp only [this, if_false, List.append_assoc]
    rw [List.getElem?_append_left (by omega), List.getElem?_take]; simp [h1]
  · by_cases h2 : i < p + xs.length
    · have : p ≤ i ∧ i < p + xs.length := by omega
      simp only [this, and_self, if_true]
      rw [List.getElem?_append_left (by simp [hp]; omega), List.getElem?_append_right (by omega), hp]
    · have : ¬ (p ≤ i ∧ i < p + xs.length) := by omega
      simp only [this, if_false]
      rw [List.getElem?_append_right (by simp [hp]; omega)]
      simp only [List.length_append, hp, List.getElem?_drop]
      congr 1; omega

theorem splice_frame {b : Bytes} {p : Nat} {xs : Bytes} (h : p + xs.length ≤ b.length) (i : Nat)
    (hi : i < p ∨ p + xs.length ≤ i) : (splice b p xs)[i]? = b[i]? := by
  rw [splice_get h]
  have : ¬ (p ≤ i ∧ i < p + xs.length) := by omega
  simp [this]

theorem splice_append {b : Bytes} {p : Nat} {xs ys : Bytes} (h : p + xs.length + ys.length ≤ b.length) :
    splice (splice b p xs) (p + xs.length) ys = splice b p (xs ++ ys) := by
  apply List.ext_getElem?
  intro i
  have h1 : p + xs.length ≤ b.length := by omega
  rw [splice_get (by rw [splice_length h1]; omega), splice_get h1, splice_get (by simp; omega)]
  by_cases c1 : i < p
  · have a1 : ¬ (p + xs.length ≤ i ∧ i < p + xs.length + ys.length) := by omega
    have a2 : ¬ (p ≤ i ∧ i < p + xs.length) := by omega
    have a3 : ¬ (p ≤ i ∧ i < p + (xs ++ ys).length) := by omega
    simp only [a1, a2, a3, if_false]
  · by_cases c2 : i < p + xs.length
    · have a1 : ¬ (p + xs.length ≤ i ∧ i < p + xs.length + ys.length) := by omega
      have a2 : (p ≤ i ∧ i < p + xs.length) := by omega
      have a3 : (p ≤ i ∧ i < p + (xs ++ ys).length) := by simp; omega
      simp only [a1, a2, a3, if_false, and_self, if_true]
      rw [List.getElem?_append_left (by omega)]
    · by_cases c3 : i < p + xs.length + ys.length
      · have a1 : (p + xs.length ≤ i ∧ i < p + xs.length + ys.length) := by omega
        have a3 : (p ≤ i ∧ i < p + (xs ++ ys).length) := by simp; omega
        simp only [a1, a3, and_self, if_true]
        rw [List.getElem?_append_right (by omega)]
        congr 1; omega
      · have a1 : ¬ (p + xs.length ≤ i ∧ i < p + xs.length + ys.length) := by omega
        have a2 : ¬ (p ≤ i ∧ i < p + xs.length) := by omega
        have a3 : ¬ (p ≤ i ∧ i < p + (xs ++ ys).length) := by simp; omega
        simp only [a1, a2, a3, if_false]

/-! ### slices -/
theorem slice_get (b : Bytes) (q n i : Nat) :
    ((b.drop q).take n)[i]? = if i < n then b[q + i]? else none := by
  rw [List.getElem?_take]; split <;> simp

theorem slice_congr {b b' : Bytes} {q n : Nat} (h : ∀ i, q ≤ i → i < q + n → b'[i]? = b[i]?) :
    (b'.drop q).take n = (b.drop q).take n := by
  apply List.ext_getElem?
  intro i
  rw [slice_get, slice_get]
  split
  · exact h _ (by omega) (by omega)
  · rfl

theorem slice_length {b : Bytes} {q n : Nat} (h : q + n ≤ b.length) : ((b.drop q).take n).length = n := by
  simp [List.length_take, List.length_drop]; omega

theorem getD_congr {b b' : Bytes} {i : Nat} (h : b'[i]? = b[i]?) : b'.getD i 0 = b.getD i 0 := by
  simp [List.getD_eq_getElem?_getD, h]

theorem getElem?_eq_getD {b : Bytes} {i : Nat} (h : i < b.length) : b[i]? = some (b.getD i 0) := by
  simp [List.getD_eq_getElem?_getD, List.getElem?_eq_getElem h]

/-- after splicing `xs` at `p`, the slice at `p` reads `xs` -/
theorem splice_read {b : Bytes} {p : Nat} {xs : Bytes} (h : p + xs.length ≤ b.length) :
    ((splice b p xs).drop p).take xs.length = xs := by
  apply List.ext_getElem?
  intro i
  rw [slice_get]
  split
  · rename_i hi
    rw [splice_get h]
    have : p ≤ p + i ∧ p + i < p + xs.length := by omega
    simp only [this, and_self, if_true]
    congr 1; omega
  · rename_i hi
    exact (List.getElem?_eq_none (by omega)).symm

theorem slice_getD (b : Bytes) (q n i : Nat) (hi : i < n) :
    ((b.drop q).take n).getD i 0 = b.getD (q + i) 0 := by
  simp [List.getD_eq_getElem?_getD, hi]

end CoCo.Dsk
