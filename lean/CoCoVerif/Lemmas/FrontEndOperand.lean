/-
Lemmas/FrontEndOperand.lean — the source-text front end of one machine instruction:
`Operand.create_from_str` (`createOperand`) followed by `resolve_symbols` (`resolveOperand`, empty
symbol table) computed on the literal spelling families; `encodeText` (text to size and bytes) and the
bridge from `Encodes` of the resolved operand to the text-level statement.
-/
import CoCoVerif.Lemmas.FrontEndLit
import CoCoVerif.Lemmas.EncodeWitness

namespace CoCo.Asm
open CoCo CoCo.Spec.MC6809
open CoCo.Gen (InstrRow)

/-! ### the end-to-end function -/

/-- operand text to the resolved operand: `createOperand` then `resolveOperand` with the EMPTY symbol table -/
def frontEnd (row : InstrRow) (text : Str) : R Operand :=
  match createOperand text row with
  | .ok o => resolveOperand o row []
  | .error e => .error e

/-- operand text of an instruction of row `row` to `(size, bytes)`: `createOperand`, `resolveOperand` (empty
symbol table), `translateOperand`, `fitWidth` on the statement that carries row, operand and package, and
`stmtBytes` of the fitted statement; `none` = rejected at any of these stages -/
def encodeText (row : InstrRow) (text : Str) : Option (Nat × Bytes) :=
  match frontEnd row text with
  | .ok o =>
    match translateOperand o row with
    | .ok pkg =>
      (match fitWidth (mkStmt row o pkg) with
       | .ok s' => (stmtBytes s').map (fun b => (pkg.size, b))
       | _ => none)
    | .error _ => none
  | .error _ => none

theorem fitted_mkStmt (row : InstrRow) (o : Operand) (pkg : Pkg) (f : Bytes → Nat × Bytes) :
    (match fitWidth (mkStmt row o pkg) with
     | .ok s' => (stmtBytes s').map f
     | _ => none) = (fittedBytes row pkg).map f := by
  rw [fitWidth_eq]
  show (match withFitted (mkStmt row o pkg) (fitPkg row pkg) with
     | .ok s' => (stmtBytes s').map f
     | _ => none) = (fittedBytes row pkg).map f
  unfold fittedBytes
  cases fitPkg row pkg <;> rfl

/-- `asmOne` (used for the kernel-checked witnesses of Props/C01.lean) is `encodeText` after the row lookup -/
theorem asmOne_eq_encodeText (mn operand : String) :
    asmOne mn operand = (findRow mn.toList).bind (fun row => encodeText row operand.toList) := by
  cases h1 : findRow mn.toList with
  | none => simp [asmOne, asmOperand, h1]
  | some row =>
    cases h2 : createOperand operand.toList row with
    | error e => simp [asmOne, asmOperand, encodeText, frontEnd, h1, h2]
    | ok o =>
      cases h3 : resolveOperand o row [] with
      | error e => simp [asmOne, asmOperand, encodeText, frontEnd, h1, h2, h3]
      | ok o' =>
        cases h4 : translateOperand o' row with
        | error e => simp [asmOne, asmOperand, encodeText, frontEnd, sizeAndBytes, h1, h2, h3, h4]
        | ok pkg =>
          simp only [asmOne, asmOperand, encodeText, frontEnd, sizeAndBytes, h1, h2, h3, h4, Option.bind_some]
          exact (fitted_mkStmt row o' pkg _).symm

/-- the text-level statement of C01 (ii): the operand text assembles to `size` bytes which the datasheet decoder
reads back as the operation of the row with operand `x`, consuming all of them -/
def TextEncodes (r : InstrRow) (text : Str) (x : Spec.MC6809.Operand) : Prop :=
  ∃ size bytes, encodeText r text = some (size, bytes) ∧ bytes.length = size ∧
    decode bytes = some (⟨opOf r.mnemonic, x⟩, size)

theorem textEncodes_of {r : InstrRow} {text : Str} {o : Operand} {x : Spec.MC6809.Operand}
    (hf : frontEnd r text = .ok o) (he : Encodes o r x) : TextEncodes r text x := by
  obtain ⟨pkg, bytes, ht, _, hb, hl, hd⟩ := he
  refine ⟨pkg.size, bytes, ?_, hl, by rw [← hl]; exact hd⟩
  obtain ⟨s', hf', hb'⟩ := hb (mkStmt r o pkg) rfl rfl rfl
  simp [encodeText, hf, ht, hf', hb']

theorem encodeText_none_of {r : InstrRow} {text : Str} {o : Operand} {e : Exn}
    (hf : frontEnd r text = .ok o) (ht : translateOperand o r = .error e) : encodeText r text = none := by
  simp only [encodeText, hf, ht]

/-- a statement the front end builds and `translate` accepts, but `fitWidth` refuses -/
theorem encodeText_none_of_fit {r : InstrRow} {text : Str} {o : Operand} {pkg : Pkg}
    (hf : frontEnd r text = .ok o) (ht : translateOperand o r = .ok pkg)
    (hd : ∀ s : Stmt, s.row = r → s.operand = o → s.pkg = pkg → fitWidth s = .diag) : encodeText r text = none := by
  simp only [encodeText, hf, ht, hd (mkStmt r o pkg) rfl rfl rfl]

/-! ### a zero offset written out (`0,R`): translated exactly like the empty offset -/

theorem ne_pcr_of_noSub {right : Str} (hpcr : hasSub (str "PCR") right = false) : (right == str "PCR") = false := by
  cases hb : right == str "PCR"
  · rfl
  · have : right = str "PCR" := by simpa using hb
    subst this
    exact absurd hpcr (by decide)

/-- (since repair A9 this needs a register other than PCR: `0,PCR` is an offset of 0 from the program counter) -/
theorem translateIndexed_zero_val (o : Operand) (r : InstrRow) {h : Option Nat} {m : Mode} {n : Bool} {right : Str}
    (hl : o.left = .val (.numeric 0 h m n)) (hr : o.right = some right) (hpcr : hasSub (str "PCR") right = false) :
    translateIndexed o r = translateIndexed { o with left := .text [] } r := by
  have hne := ne_pcr_of_noSub hpcr
  simp only [translateIndexed, hl, hr, pure_bind, hpcr, hne, Bool.false_and, Bool.not_false, Bool.and_false]
  rfl

theorem translateExtInd_zero_val (o : Operand) (r : InstrRow) {h : Option Nat} {m : Mode} {n : Bool} {right : Str}
    (hl : o.left = .val (.numeric 0 h m n)) (hr : o.right = some right) (hpcr : hasSub (str "PCR") right = false) :
    translateExtIndirect o r = translateExtIndirect { o with left := .text [] } r := by
  have hne := ne_pcr_of_noSub hpcr
  simp only [translateExtIndirect, hl, hr, pure_bind, hpcr, hne, Bool.false_and, Bool.not_false, Bool.and_false]
  rfl

theorem translateOperand_zero_val (o : Operand) (r : InstrRow) {h : Option Nat} {m : Mode} {n : Bool} {right : Str}
    (hk : o.kind = .indexed ∨ o.kind = .extIndirect) (hl : o.left = .val (.numeric 0 h m n))
    (hr : o.right = some right) (hpcr : hasSub (str "PCR") right = false) :
    translateOperand o r = translateOperand { o with left := .text [] } r := by
  rcases hk with hk | hk
  · simp only [translateOperand, hk]; exact translateIndexed_zero_val o r hl hr hpcr
  · simp only [translateOperand, hk]; exact translateExtInd_zero_val o r hl hr hpcr

/-! ### rows of machine instructions -/

/-- the flags that steer `createOperand` into the machine-instruction part of the cascade -/
structure InstrFlags (row : InstrRow) : Prop where
  notPseudo : row.isPseudo = false
  notSpecial : row.isSpecial = false
  notShort : row.isShortBranch = false
  notLong : row.isLongBranch = false
  notStr : row.isStringDefine = false

section cascade
variable {row : InstrRow} (hf : InstrFlags row)
include hf

/-! ### `createOperand` -/

theorem createOperand_empty :
    createOperand [] row = .ok { kind := .inherent, text := [], value := .none } := by
  simp [createOperand, hf.notPseudo, hf.notSpecial, hf.notShort, hf.notLong]

/-- not bracketed, the value is numeric and not immediate: UnknownOperand -/
theorem createOperand_unknown {s : Str} {i : Nat} {h : Option Nat} {m : Mode} {n : Bool}
    (hne : s ≠ []) (hb : s.head? ≠ some '[') (hm : m ≠ .immediate)
    (hv : createV s false row.is16Bit = .ok (.numeric i h m n)) :
    createOperand s row = .ok { kind := .unknown, text := s, value := .numeric i h m n } := by
  have he : s.isEmpty = false := by cases s <;> simp_all
  have hb' : (s.head? == some '[') = false := by simpa using hb
  simp [createOperand, hf.notPseudo, hf.notSpecial, hf.notShort, hf.notLong, hf.notStr, he, hb', hv,
    Value.isImmediate, Value.mode, hm]

theorem createOperand_immediate {s : Str} {i : Nat} {h : Option Nat} {n : Bool}
    (hne : s ≠ []) (hb : s.head? ≠ some '[')
    (hv : createV s false row.is16Bit = .ok (.numeric i h .immediate n)) :
    createOperand s row = .ok { kind := .immediate, text := s, value := .numeric i h .immediate n } := by
  have he : s.isEmpty = false := by cases s <;> simp_all
  have hb' : (s.head? == some '[') = false := by simpa using hb
  simp [createOperand, hf.notPseudo, hf.notSpecial, hf.notShort, hf.notLong, hf.notStr, he, hb', hv,
    Value.isImmediate, Value.mode]

theorem createOperand_indexed {s l r : Str} {m : Mode}
    (hne : s ≠ []) (hb : s.head? ≠ some '[')
    (hv : createV s false row.is16Bit = .ok (.leftRight l r m)) :
    createOperand s row =
      .ok { kind := .indexed, text := s, value := .leftRight l r m, left := .text l, right := some r } := by
  have he : s.isEmpty = false := by cases s <;> simp_all
  have hb' : (s.head? == some '[') = false := by simpa using hb
  simp [createOperand, hf.notPseudo, hf.notSpecial, hf.notShort, hf.notLong, hf.notStr, he, hb', hv]

/-- `[inner]` with a numeric inner value -/
theorem createOperand_bracket_numeric {inner : Str} {i : Nat} {h : Option Nat} {m : Mode} {n : Bool}
    (hv : createV inner false row.is16Bit = .ok (.numeric i h m n)) :
    createOperand ('[' :: (inner ++ [']'])) row =
      .ok { kind := .extIndirect, text := '[' :: (inner ++ [']']), value := .numeric i h m n } := by
  have h1 : (('[' :: (inner ++ [']'])).getLast? == some ']') = true := by
    simp [List.getLast?_cons, List.getLast?_append]
  have h2 : (('[' :: (inner ++ [']'])).drop 1).dropLast = inner := by simp
  simp only [createOperand, hf.notPseudo, hf.notSpecial, hf.notShort, hf.notLong, hf.notStr, Bool.false_eq_true,
    if_false, Bool.or_self, List.isEmpty_cons, List.head?_cons, beq_self_eq_true, h1, Bool.and_self, if_true, h2, hv]

/-- `[left,right]` -/
theorem createOperand_bracket_leftRight {inner l r : Str} {m : Mode}
    (hv : createV inner false row.is16Bit = .ok (.leftRight l r m)) :
    createOperand ('[' :: (inner ++ [']'])) row =
      .ok { kind := .extIndirect, text := '[' :: (inner ++ [']']), value := .leftRight l r m,
            left := .text l, right := some r } := by
  have h1 : (('[' :: (inner ++ [']'])).getLast? == some ']') = true := by
    simp [List.getLast?_cons, List.getLast?_append]
  have h2 : (('[' :: (inner ++ [']'])).drop 1).dropLast = inner := by simp
  simp only [createOperand, hf.notPseudo, hf.notSpecial, hf.notShort, hf.notLong, hf.notStr, Bool.false_eq_true,
    if_false, Bool.or_self, List.isEmpty_cons, List.head?_cons, beq_self_eq_true, h1, Bool.and_self, if_true, h2, hv]

end cascade

/-! ### `resolveOperand` with the empty symbol table -/

theorem resolve_numeric (i : Nat) (h : Option Nat) (m : Mode) (n : Bool) (t : SymTab) :
    (Value.numeric i h m n).resolve t = .ok (.numeric i h m n) := rfl

/-- UnknownOperand with an EXTENDED-mode number becomes an ExtendedOperand carrying the same value -/
theorem resolveOperand_unknown_extended (row : InstrRow) (s : Str) (i : Nat) (h : Option Nat) (n : Bool) (t : SymTab) :
    resolveOperand { kind := .unknown, text := s, value := .numeric i h .extended n } row t =
      .ok { kind := .extended, text := s, value := .numeric i h .extended n } := by
  simp [resolveOperand, resolve_numeric, Value.isDirect, Value.isExplicitDirect, Value.isExplicitExtended, Value.mode]

/-- UnknownOperand with a DIRECT-mode byte becomes a DirectOperand whose value is REBUILT (hint 2) -/
theorem resolveOperand_unknown_direct (row : InstrRow) (s : Str) {i : Nat} (h : Option Nat) (t : SymTab)
    (hi : i < 256) :
    resolveOperand { kind := .unknown, text := s, value := .numeric i h .direct false } row t =
      .ok { kind := .direct, text := s, value := .numeric i (some 2) .direct false } := by
  have a : ¬ ((i : Int) > 65535) := by omega
  have b : ¬ ((i : Int) < 0) := by omega
  simp [resolveOperand, resolve_numeric, Value.isDirect, Value.isExplicitExtended, Value.mode, numericOfInt, a, b, initHint, postInit, hi, Except.map]

/-- UnknownOperand written with `>`: an ExtendedOperand whatever the value (fix A6) -/
theorem resolveOperand_unknown_explExtended (row : InstrRow) (s : Str) (i : Nat) (h : Option Nat) (n : Bool) (t : SymTab) :
    resolveOperand { kind := .unknown, text := s, value := .numeric i h .explExtended n } row t =
      .ok { kind := .extended, text := s, value := .numeric i h .explExtended n } := by
  simp [resolveOperand, resolve_numeric, Value.isExplicitExtended, Value.mode]

/-- UnknownOperand written with `<`: a DirectOperand whose value is REBUILT without a size hint -/
theorem resolveOperand_unknown_explDirect (row : InstrRow) (s : Str) {i : Nat} (h : Option Nat) (t : SymTab)
    (hi : i < 65536) :
    resolveOperand { kind := .unknown, text := s, value := .numeric i h .explDirect false } row t =
      .ok { kind := .direct, text := s, value := .numeric i (if i < 256 then some 2 else none) .direct false } := by
  have a : ¬ ((i : Int) > 65535) := by omega
  have b : ¬ ((i : Int) < 0) := by omega
  by_cases hlt : i < 256 <;>
    simp [resolveOperand, resolve_numeric, Value.isDirect, Value.isExplicitDirect, Value.isExplicitExtended, Value.mode,
      numericOfInt, a, b, initHint, postInit, hlt, Except.map]

theorem resolveOperand_immediate (row : InstrRow) (s : Str) (i : Nat) (h : Option Nat) (m : Mode) (n : Bool) (t : SymTab) :
    resolveOperand { kind := .immediate, text := s, value := .numeric i h m n } row t =
      .ok { kind := .immediate, text := s, value := .numeric i h m n } := by
  simp [resolveOperand, resolve_numeric]

theorem resolveOperand_inherent (row : InstrRow) (t : SymTab) :
    resolveOperand { kind := .inherent, text := [], value := .none } row t =
      .ok { kind := .inherent, text := [], value := .none } := by
  have hn : Value.none.resolve t = .ok .none := rfl
  simp [resolveOperand, hn]

theorem resolveOperand_bracket_numeric (row : InstrRow) (s : Str) (i : Nat) (h : Option Nat) (m : Mode) (n : Bool)
    (t : SymTab) :
    resolveOperand { kind := .extIndirect, text := s, value := .numeric i h m n } row t =
      .ok { kind := .extIndirect, text := s, value := .numeric i h m n } := by
  simp [resolveOperand, resolve_numeric, Value.isNone, Value.isLeftRight, Except.map]

/-- `,R` and `A,R`: the left text stays a string -/
theorem resolveOperand_indexed_keep (row : InstrRow) (s l r : Str) (m : Mode) (t : SymTab)
    (hl : l = [] ∨ isABD l = true) :
    resolveOperand { kind := .indexed, text := s, value := .leftRight l r m, left := .text l, right := some r } row t =
      .ok { kind := .indexed, text := s, value := .leftRight l r m, left := .text l, right := some r } := by
  rcases hl with rfl | hl <;> simp [resolveOperand, *]

theorem resolveOperand_bracket_keep (row : InstrRow) (s l r : Str) (m : Mode) (t : SymTab)
    (hl : l = [] ∨ isABD l = true) :
    resolveOperand { kind := .extIndirect, text := s, value := .leftRight l r m, left := .text l, right := some r } row t =
      .ok { kind := .extIndirect, text := s, value := .leftRight l r m, left := .text l, right := some r } := by
  rcases hl with rfl | hl <;> simp [resolveOperand, Value.isNone, Value.isLeftRight, *]

/-- `n,R`: the left text is replaced by the value `resolveLeft` builds -/
theorem resolveOperand_indexed_val (row : InstrRow) (s l r : Str) (m : Mode) (t : SymTab) {v : Value}
    (hne : l ≠ []) (hab : isABD l = false) (hv : resolveLeft l row t = .ok v) :
    resolveOperand { kind := .indexed, text := s, value := .leftRight l r m, left := .text l, right := some r } row t =
      .ok { kind := .indexed, text := s, value := .leftRight l r m, left := .val v, right := some r } := by
  have : (l != []) = true := by simpa using hne
  simp [resolveOperand, this, hab, hv, Except.map]

theorem resolveOperand_bracket_val (row : InstrRow) (s l r : Str) (m : Mode) (t : SymTab) {v : Value}
    (hne : l ≠ []) (hab : isABD l = false) (hv : resolveLeft l row t = .ok v) :
    resolveOperand { kind := .extIndirect, text := s, value := .leftRight l r m, left := .text l, right := some r } row t =
      .ok { kind := .extIndirect, text := s, value := .leftRight l r m, left := .val v, right := some r } := by
  have : (l != []) = true := by simpa using hne
  simp [resolveOperand, Value.isNone, Value.isLeftRight, this, hab, hv, Except.map]

/-- `resolveLeft` on a numeric left-hand side is just `create … false` (mode NONE default) -/
theorem resolveLeft_numeric {row : InstrRow} {l : Str} {t : SymTab} {i : Nat} {h : Option Nat} {m : Mode} {n : Bool}
    (hsd : row.isStringDefine = false)
    (hv : create 4 l false row.is16Bit false = .ok (.numeric i h m n)) :
    resolveLeft l row t = .ok (.numeric i h m n) := by
  simp [resolveLeft, hsd, hv, bind, Except.bind, Value.isSymbol, Value.isAddrExpr, Value.isExpression, pure, Except.pure]

/-! ### `createV` (default mode EXTENDED) on the literal spellings -/

/-- the first character is none of the mode prefixes and not an opening bracket -/
def OperandHead (s : Str) : Prop := ∀ c ∈ s.head?, c ≠ '<' ∧ c ≠ '>' ∧ c ≠ '#' ∧ c ≠ '['

theorem OperandHead.plain {s : Str} (h : OperandHead s) : PlainHead s :=
  fun c hc => ⟨(h c hc).1, (h c hc).2.1, (h c hc).2.2.1⟩

theorem OperandHead.noBracket {s : Str} (h : OperandHead s) : s.head? ≠ some '[' := by
  intro e
  exact (h '[' (by simp [e])).2.2.2 rfl

theorem operandHead_cons {c : Char} (s : Str) (h : c ≠ '<' ∧ c ≠ '>' ∧ c ≠ '#' ∧ c ≠ '[') : OperandHead (c :: s) := by
  intro d hd
  simp only [List.head?_cons, Option.mem_def, Option.some.injEq] at hd
  subst hd
  exact h

theorem operandHead_dollar (s : Str) : OperandHead ('$' :: s) := operandHead_cons s (by decide)
theorem operandHead_minus (s : Str) : OperandHead ('-' :: s) := operandHead_cons s (by decide)
theorem operandHead_comma (s : Str) : OperandHead (',' :: s) := operandHead_cons s (by decide)

theorem operandHead_word_append {s : Str} (hne : s ≠ []) (h : ∀ c ∈ s, isWord c = true) (t : Str) :
    OperandHead (s ++ t) := by
  cases s with
  | nil => exact absurd rfl hne
  | cons a u => exact operandHead_cons _ (isWord_ne_prefix (h a (by simp)))

theorem decLit_word {x : Str} (hx : IsDecLit x) : ∀ c ∈ x, isWord c = true :=
  fun c hc => isDigit_isWord (List.all_eq_true.mp hx.2 c hc)

theorem operandHead_dec {x : Str} (hx : IsDecLit x) (t : Str) : OperandHead (x ++ t) :=
  operandHead_word_append hx.1 (decLit_word hx) t

/-- a decimal literal as the whole operand: mode EXTENDED forces hint 4 — also for a value below 256 -/
theorem createV_decLit {x : Str} (hx : IsDecLit x) (hv : parseBase 10 x < 65536) (is16 : Bool) :
    createV x false is16 = .ok (.numeric (parseBase 10 x) (some 4) .extended false) := by
  have hh : OperandHead x := by simpa using operandHead_dec hx []
  refine create_numeric hh.plain (splitExpr_dec hx) (decLit_no_comma hx) ?_
  rw [numericOfStr_dec hx _ _ hv]
  cases is16 <;> simp [initHint, postInit]

/-- `$hhhh` -/
theorem createV_hex4 {hs : Str} (h : IsHexLit 4 hs) (is16 : Bool) :
    createV ('$' :: hs) false is16 = .ok (.numeric (parseBase 16 hs) (some 4) .extended false) := by
  refine create_numeric (operandHead_dollar hs).plain (splitExpr_hexLit h) ?_ ?_
  · simpa using hexLit_no_comma h
  · rw [numericOfStr_hex4 h]
    cases is16 <;> simp [initHint]

/-- `$hh` on a row without `is_16_bit`: DIRECT with hint 2 -/
theorem createV_hex2 {hs : Str} (h : IsHexLit 2 hs) :
    createV ('$' :: hs) false false = .ok (.numeric (parseBase 16 hs) (some 2) .direct false) := by
  refine create_numeric (operandHead_dollar hs).plain (splitExpr_hexLit h) ?_ ?_
  · simpa using hexLit_no_comma h
  · rw [numericOfStr_hex2 h]
    simp

/-- `$hh` on an `is_16_bit` row: the size hint 4 of the row wins, the value stays EXTENDED -/
theorem createV_hex2_16 {hs : Str} (h : IsHexLit 2 hs) :
    createV ('$' :: hs) false true = .ok (.numeric (parseBase 16 hs) (some 4) .extended false) := by
  refine create_numeric (operandHead_dollar hs).plain (splitExpr_hexLit h) ?_ ?_
  · simpa using hexLit_no_comma h
  · rw [numericOfStr_hex2 h]
    simp [initHint]

/-- `#n` -/
theorem createV_imm_dec {x : Str} (hx : IsDecLit x) (hv : parseBase 10 x < 65536) (is16 : Bool) :
    createV ('#' :: x) false is16 =
      .ok (.numeric (parseBase 10 x) (if is16 then some 4 else none) .immediate false) := by
  refine create_immediate (splitExpr_dec hx) (decLit_no_comma hx) ?_
  rw [numericOfStr_dec hx _ _ hv]
  cases is16 <;> simp [initHint, postInit]

/-- `#-n` : no `postInit`, the hint is the row's -/
theorem createV_imm_neg {x : Str} (hx : IsDecLit x) (hv : parseBase 10 x ≤ 32768) (is16 : Bool) :
    createV ('#' :: '-' :: x) false is16 =
      .ok (.numeric (parseBase 10 x) (if is16 then some 4 else none) .immediate true) := by
  refine create_immediate (splitExpr_neg x) ?_ ?_
  · have := decLit_no_comma hx
    simpa using this
  · rw [numericOfStr_neg hx _ _ hv]
    cases is16 <;> simp [initHint]

/-- `#$hh` -/
theorem createV_imm_hex2 {hs : Str} (h : IsHexLit 2 hs) (is16 : Bool) :
    createV ('#' :: '$' :: hs) false is16 =
      .ok (.numeric (parseBase 16 hs) (if is16 then some 4 else some 2) .immediate false) := by
  refine create_immediate (splitExpr_hexLit h) ?_ ?_
  · simpa using hexLit_no_comma h
  · rw [numericOfStr_hex2 h]
    cases is16 <;> simp [initHint]

/-- `#$hhhh` -/
theorem createV_imm_hex4 {hs : Str} (h : IsHexLit 4 hs) (is16 : Bool) :
    createV ('#' :: '$' :: hs) false is16 =
      .ok (.numeric (parseBase 16 hs) (if is16 then some 4 else none) .immediate false) := by
  refine create_immediate (splitExpr_hexLit h) ?_ ?_
  · simpa using hexLit_no_comma h
  · rw [numericOfStr_hex4 h]
    cases is16 <;> simp [initHint]

/-- `>$hh` : the explicit `>` keeps the two digits from becoming direct; EXTENDED forces hint 4 -/
theorem createV_gt_hex2 {hs : Str} (h : IsHexLit 2 hs) (is16 : Bool) :
    createV ('>' :: '$' :: hs) false is16 = .ok (.numeric (parseBase 16 hs) (some 4) .explExtended false) := by
  refine create_explExtended (splitExpr_hexLit h) ?_ ?_
  · simpa using hexLit_no_comma h
  · rw [numericOfStr_hex2 h]
    cases is16 <;> simp [initHint]

/-- `>n` -/
theorem createV_gt_dec {x : Str} (hx : IsDecLit x) (hv : parseBase 10 x < 65536) (is16 : Bool) :
    createV ('>' :: x) false is16 = .ok (.numeric (parseBase 10 x) (some 4) .explExtended false) := by
  refine create_explExtended (splitExpr_dec hx) (decLit_no_comma hx) ?_
  rw [numericOfStr_dec hx _ _ hv]
  cases is16 <;> simp [initHint, postInit]

/-- `<n` : hint and mode depend on the row and the value, the operand is forced direct either way -/
theorem createV_lt_dec {x : Str} (hx : IsDecLit x) (hv : parseBase 10 x < 65536) (is16 : Bool) :
    ∃ h m, createV ('<' :: x) false is16 = .ok (.numeric (parseBase 10 x) h m false) ∧
      (m = .explDirect ∨ (m = .direct ∧ parseBase 10 x < 256)) := by
  have hc := create_explDirect (fuel := 3) (is16 := is16) (defExt := true) (splitExpr_dec hx) (decLit_no_comma hx)
    (numericOfStr_dec hx _ _ hv)
  refine ⟨_, _, hc, ?_⟩
  cases is16 <;> by_cases hlt : parseBase 10 x < 256 <;> simp [initHint, postInit, hlt]

/-- `left,right` -/
theorem createV_leftRight {l r : Str} (hh : OperandHead (l ++ ',' :: r)) (hs : splitExpr (l ++ ',' :: r) = none)
    (hl : ',' ∉ l) (hr : ',' ∉ r) (is16 : Bool) :
    createV (l ++ ',' :: r) false is16 = .ok (.leftRight l r .extended) := by
  have := create_leftRight (fuel := 3) (is16 := is16) (defExt := true) hh.plain hs hl hr
  simpa [createV] using this

/-! ### the left-hand side of `n,R` (default mode NONE) -/

/-- `n` : without a row size hint a value below 256 becomes DIRECT with hint 2 (`postInit`), a larger one
EXTENDED without hint; on an `is_16_bit` row the hint is 4 -/
theorem resolveLeft_dec {row : InstrRow} (hsd : row.isStringDefine = false) {x : Str} (hx : IsDecLit x)
    (hv : parseBase 10 x < 65536) (t : SymTab) :
    resolveLeft x row t =
      .ok (.numeric (parseBase 10 x)
        (if row.is16Bit then some 4 else if parseBase 10 x < 256 then some 2 else none)
        (if row.is16Bit then .extended else if parseBase 10 x < 256 then .direct else .extended) false) := by
  have hh : OperandHead x := by simpa using operandHead_dec hx []
  refine resolveLeft_numeric hsd (create_numeric hh.plain (splitExpr_dec hx) (decLit_no_comma hx) ?_)
  rw [numericOfStr_dec hx _ _ hv]
  cases row.is16Bit <;> by_cases h : parseBase 10 x < 256 <;> simp [initHint, postInit, h]

/-- `-n` : the hint is the row's, the mode stays NONE -/
theorem resolveLeft_neg {row : InstrRow} (hsd : row.isStringDefine = false) {x : Str} (hx : IsDecLit x)
    (hv : parseBase 10 x ≤ 32768) (t : SymTab) :
    resolveLeft ('-' :: x) row t =
      .ok (.numeric (parseBase 10 x) (if row.is16Bit then some 4 else none) .none true) := by
  refine resolveLeft_numeric hsd (create_numeric (operandHead_minus x).plain (splitExpr_neg x) ?_ ?_)
  · have := decLit_no_comma hx
    simpa using this
  · rw [numericOfStr_neg hx _ _ hv]
    cases row.is16Bit <;> simp [initHint]

theorem isABD_dec {x : Str} (hx : IsDecLit x) : isABD x = false := by
  have hall := List.all_eq_true.mp hx.2
  simp only [isABD, Bool.or_eq_false_iff, beq_eq_false_iff_ne]
  refine ⟨⟨?_, ?_⟩, ?_⟩ <;> (rintro rfl; have := hall _ (List.mem_singleton.mpr rfl); revert this; decide)

theorem isABD_neg (x : Str) : isABD ('-' :: x) = false := by
  simp [isABD]

/-! ### `frontEnd` per family -/

section families
variable {row : InstrRow} (hf : InstrFlags row)
include hf

theorem frontEnd_empty : frontEnd row [] = .ok { kind := .inherent, text := [], value := .none } := by
  simp [frontEnd, createOperand_empty hf, resolveOperand_inherent]

theorem frontEnd_immediate {s : Str} {i : Nat} {h : Option Nat} {n : Bool}
    (hv : createV ('#' :: s) false row.is16Bit = .ok (.numeric i h .immediate n)) :
    frontEnd row ('#' :: s) = .ok { kind := .immediate, text := '#' :: s, value := .numeric i h .immediate n } := by
  simp [frontEnd, createOperand_immediate hf (by simp) (by simp) hv, resolveOperand_immediate]

theorem frontEnd_extended {s : Str} {i : Nat} {h : Option Nat} {n : Bool} (hh : OperandHead s) (hne : s ≠ [])
    (hv : createV s false row.is16Bit = .ok (.numeric i h .extended n)) :
    frontEnd row s = .ok { kind := .extended, text := s, value := .numeric i h .extended n } := by
  simp [frontEnd, createOperand_unknown hf hne hh.noBracket (by decide) hv, resolveOperand_unknown_extended]

/-- `>atom` : extended, the value as written -/
theorem frontEnd_explExtended {s : Str} {i : Nat} {h : Option Nat} {n : Bool}
    (hv : createV ('>' :: s) false row.is16Bit = .ok (.numeric i h .explExtended n)) :
    frontEnd row ('>' :: s) = .ok { kind := .extended, text := '>' :: s, value := .numeric i h .explExtended n } := by
  simp [frontEnd, createOperand_unknown hf (by simp) (by simp) (by decide) hv, resolveOperand_unknown_explExtended]

/-- `<n` : forced direct, the value rebuilt (hint 2 below 256, none above) -/
theorem frontEnd_explDirect_dec {x : Str} (hx : IsDecLit x) (hv : parseBase 10 x < 65536) :
    frontEnd row ('<' :: x) =
      .ok { kind := .direct, text := '<' :: x,
            value := .numeric (parseBase 10 x) (if parseBase 10 x < 256 then some 2 else none) .direct false } := by
  obtain ⟨h, m, hc, hm⟩ := createV_lt_dec hx hv row.is16Bit
  rcases hm with rfl | ⟨rfl, hlt⟩
  · simp [frontEnd, createOperand_unknown hf (by simp) (by simp) (by decide) hc, resolveOperand_unknown_explDirect _ _ _ _ hv]
  · simp [frontEnd, createOperand_unknown hf (by simp) (by simp) (by decide) hc, resolveOperand_unknown_direct _ _ _ _ hlt, hlt]

theorem frontEnd_direct {s : Str} {i : Nat} {h : Option Nat} (hh : OperandHead s) (hne : s ≠ [])
    (hv : createV s false row.is16Bit = .ok (.numeric i h .direct false)) (hi : i < 256) :
    frontEnd row s = .ok { kind := .direct, text := s, value := .numeric i (some 2) .direct false } := by
  simp [frontEnd, createOperand_unknown hf hne hh.noBracket (by decide) hv, resolveOperand_unknown_direct _ _ _ _ hi]

theorem frontEnd_bracket_numeric {inner : Str} {i : Nat} {h : Option Nat} {m : Mode} {n : Bool}
    (hv : createV inner false row.is16Bit = .ok (.numeric i h m n)) :
    frontEnd row ('[' :: (inner ++ [']'])) =
      .ok { kind := .extIndirect, text := '[' :: (inner ++ [']']), value := .numeric i h m n } := by
  simp [frontEnd, createOperand_bracket_numeric hf hv, resolveOperand_bracket_numeric]

/-- `,R…` and `A,R`: the left text is kept -/
theorem frontEnd_indexed_keep {l r : Str} (hh : OperandHead (l ++ ',' :: r)) (hs : splitExpr (l ++ ',' :: r) = none)
    (hl : ',' ∉ l) (hr : ',' ∉ r) (hk : l = [] ∨ isABD l = true) :
    frontEnd row (l ++ ',' :: r) =
      .ok { kind := .indexed, text := l ++ ',' :: r, value := .leftRight l r .extended, left := .text l, right := some r } := by
  have hv := createV_leftRight hh hs hl hr row.is16Bit
  simp [frontEnd, createOperand_indexed hf (by simp) hh.noBracket hv, resolveOperand_indexed_keep _ _ _ _ _ _ hk]

theorem frontEnd_bracket_keep {l r : Str} (hh : OperandHead (l ++ ',' :: r)) (hs : splitExpr (l ++ ',' :: r) = none)
    (hl : ',' ∉ l) (hr : ',' ∉ r) (hk : l = [] ∨ isABD l = true) :
    frontEnd row ('[' :: ((l ++ ',' :: r) ++ [']'])) =
      .ok { kind := .extIndirect, text := '[' :: ((l ++ ',' :: r) ++ [']']), value := .leftRight l r .extended,
            left := .text l, right := some r } := by
  have hv := createV_leftRight hh hs hl hr row.is16Bit
  simp only [frontEnd, createOperand_bracket_leftRight hf hv, resolveOperand_bracket_keep _ _ _ _ _ _ hk]

/-- `n,R`: the left text becomes a value -/
theorem frontEnd_indexed_val {l r : Str} {v : Value} (hh : OperandHead (l ++ ',' :: r))
    (hs : splitExpr (l ++ ',' :: r) = none) (hl : ',' ∉ l) (hr : ',' ∉ r) (hne : l ≠ []) (hab : isABD l = false)
    (hv : resolveLeft l row [] = .ok v) :
    frontEnd row (l ++ ',' :: r) =
      .ok { kind := .indexed, text := l ++ ',' :: r, value := .leftRight l r .extended, left := .val v, right := some r } := by
  have hc := createV_leftRight hh hs hl hr row.is16Bit
  simp [frontEnd, createOperand_indexed hf (by simp) hh.noBracket hc, resolveOperand_indexed_val _ _ _ _ _ _ hne hab hv]

theorem frontEnd_bracket_val {l r : Str} {v : Value} (hh : OperandHead (l ++ ',' :: r))
    (hs : splitExpr (l ++ ',' :: r) = none) (hl : ',' ∉ l) (hr : ',' ∉ r) (hne : l ≠ []) (hab : isABD l = false)
    (hv : resolveLeft l row [] = .ok v) :
    frontEnd row ('[' :: ((l ++ ',' :: r) ++ [']'])) =
      .ok { kind := .extIndirect, text := '[' :: ((l ++ ',' :: r) ++ [']']), value := .leftRight l r .extended,
            left := .val v, right := some r } := by
  have hc := createV_leftRight hh hs hl hr row.is16Bit
  simp only [frontEnd, createOperand_bracket_leftRight hf hc, resolveOperand_bracket_val _ _ _ _ _ _ hne hab hv]

end families

end CoCo.Asm
