/-
Lemmas/LayoutImage.lean — the binary image is the concatenation of the statements' bytes; the
offset of a statement's bytes inside the image.
-/
import CoCoVerif.Lemmas.LayoutSym

namespace CoCo.Asm
open CoCo

theorem mapM_some {α β : Type} {f : α → Option β} {l : List α} {r : List β} (h : l.mapM f = some r) :
    PW (fun x y => f x = some y) l r ∧ l.filterMap f = r := by
  induction l generalizing r with
  | nil => simp at h; subst h; exact ⟨.nil, rfl⟩
  | cons x xs ih =>
    rw [List.mapM_cons] at h
    cases hx : f x with
    | none => simp [hx] at h
    | some y =>
      cases hr : xs.mapM f with
      | none => simp [hx, hr] at h
      | some ys =>
        simp [hx, hr] at h; subst h
        obtain ⟨h1, h2⟩ := ih hr
        exact ⟨.cons hx h1, by simp [hx, h2]⟩

theorem image_eq {a : Assembly} {img : Bytes} (h : a.image = some img) :
    ∃ bs, a.stmts.mapM stmtBytes = some bs ∧ img = bs.flatten := by
  unfold Assembly.image at h
  cases hb : a.stmts.mapM stmtBytes with
  | none => simp [hb] at h
  | some bs => simp [hb] at h; exact ⟨bs, rfl, h.symm⟩

theorem flatten_take_succ {bs : List Bytes} {i : Nat} {b : Bytes} (h : bs[i]? = some b) :
    (bs.take (i + 1)).flatten = (bs.take i).flatten ++ b := by
  have hlt : i < bs.length := by
    rcases Nat.lt_or_ge i bs.length with h' | h'
    · exact h'
    · rw [List.getElem?_eq_none_iff.mpr h'] at h; cases h
  have : bs[i] = b := by
    have := List.getElem?_eq_getElem hlt; rw [h] at this; cases this; rfl
  rw [List.take_succ_eq_append_getElem hlt, this]; simp

theorem flatten_split {bs : List Bytes} {i : Nat} {b : Bytes} (h : bs[i]? = some b) :
    bs.flatten = (bs.take i).flatten ++ b ++ (bs.drop (i + 1)).flatten := by
  have h1 : bs = bs.take (i + 1) ++ bs.drop (i + 1) := (List.take_append_drop _ _).symm
  conv => lhs; rw [h1]
  rw [List.flatten_append, flatten_take_succ h]

/-- prefix length: the bytes emitted before statement `i` number `sumSize k i` when the statements before `k`
are empty and byte counts equal sizes -/
theorem prefix_length {ss : List Stmt} {bs : List Bytes} (hpw : PW (fun s b => stmtBytes s = some b) ss bs)
    (hsz : ∀ s ∈ ss, (stmtBytes s).map List.length = some s.pkg.size)
    (k : Nat) (hk0 : ∀ j s, j < k → ss[j]? = some s → s.pkg.size = 0)
    (i : Nat) (hi : i ≤ ss.length) :
    ((bs.take i).flatten).length = if i ≤ k then 0 else sumSize ss k i := by
  induction i with
  | zero => simp
  | succ i ih =>
    have hlt : i < ss.length := by omega
    have hs : ss[i]? = some ss[i] := List.getElem?_eq_getElem hlt
    obtain ⟨b, hb, hsb⟩ := hpw.get hs
    have hlen : b.length = ss[i].pkg.size := by
      have := hsz ss[i] (List.getElem_mem hlt)
      rw [hsb] at this; simpa using this
    rw [flatten_take_succ hb, List.length_append, ih (by omega), hlen]
    by_cases h1 : i + 1 ≤ k
    · have : i ≤ k := by omega
      simp [h1, this, hk0 i _ (by omega) hs]
    · by_cases h2 : i ≤ k
      · have : i = k := by omega
        subst this
        simp [h1, sumSize_succ (Nat.le_refl _) hs, sumSize_self]
      · simp [h1, h2, sumSize_succ (by omega : k ≤ i) hs]

end CoCo.Asm
