/-
Lemmas/DiskFsck.lean — the invariant implies the Disk BASIC consistency check, and the reference
reader returns exactly the recorded files.
-/
import CoCoVerif.Lemmas.DiskInv
namespace CoCo.Dsk
open CoCo Spec.DiskBasic CoCo.Props

theorem range_filterMap {α β} (l : List α) (f : Nat → Option β) (g : α → β)
    (h : ∀ k e, l[k]? = some e → f k = some (g e)) :
    ∀ n, n ≤ l.length → (List.range n).filterMap f = (l.take n).map g := by
  intro n
  induction n with
  | zero => intro _; simp
  | succ n ih =>
    intro hn
    have hget : l[n]? = some l[n] := List.getElem?_eq_getElem (by omega)
    rw [List.range_succ, List.filterMap_append, ih (by omega), List.take_add_one, hget]
    simp only [List.filterMap_cons, h n _ hget, List.filterMap_nil, Option.toList_some, List.map_append, List.map_cons, List.map_nil]

theorem range_mapM {α β} (l : List α) (f : Nat → Option β) (g : α → β)
    (h : ∀ k e, l[k]? = some e → f k = some (g e)) :
    ∀ n, n ≤ l.length → (List.range n).mapM f = some ((l.take n).map g) := by
  intro n
  induction n with
  | zero => intro _; simp
  | succ n ih =>
    intro hn
    have hget : l[n]? = some l[n] := List.getElem?_eq_getElem (by omega)
    rw [List.range_succ, List.mapM_append, ih (by omega), List.take_add_one, hget]
    simp only [List.mapM_cons, List.mapM_nil, h n _ hget, Option.toList_some, List.map_append, List.map_cons, List.map_nil]
    rfl

theorem filter_range_lt (m n : Nat) (h : m ≤ n) :
    (List.range n).filter (fun k => decide (k < m)) = List.range m := by
  induction n with
  | zero => have : m = 0 := by omega
            subst this; rfl
  | succ n ih =>
    rw [List.range_succ, List.filter_append]
    by_cases hm : m ≤ n
    · rw [ih hm]
      have : ¬ n < m := by omega
      simp [this]
    · have hm' : m = n + 1 := by omega
      subst hm'
      have : (List.range n).filter (fun k => decide (k < n + 1)) = List.range n := by
        rw [List.filter_eq_self]
        intro a ha
        have := List.mem_range.mp ha
        simp; omega
      rw [this, List.range_succ]
      simp

theorem needs_le (f : CFile) (h : f.data.length ≤ 65535) : needs f ≤ 29 := by
  unfold needs
  have h1 := fpre_length_le f
  have h2 := fpost_length_le f
  rw [stream_length]; omega

theorem Inv.liveSlots_eq {img : Bytes} {abs : List Ent} (h : Inv img abs) :
    liveSlots img = List.range abs.length := by
  unfold liveSlots
  rw [← filter_range_lt abs.length 72 h.slots]
  apply List.filter_congr
  intro k hk
  exact h.live_iff k (List.mem_range.mp hk)

theorem Inv.chain_nodup {img : Bytes} {abs : List Ent} (h : Inv img abs) {e : Ent} (he : e ∈ abs) :
    e.chain.Nodup := by
  have : List.Sublist e.chain (chains abs) := by
    unfold chains; rw [List.flatMap_def]
    exact List.sublist_flatten_of_mem (List.mem_map_of_mem (f := (·.chain)) he)
  exact this.nodup h.nodup

theorem Inv.chain_ne_nil {img : Bytes} {abs : List Ent} (h : Inv img abs) {e : Ent} (he : e ∈ abs) :
    e.chain ≠ [] := by
  intro hn
  have := h.chainLen e he
  have := needs_pos e.file
  rw [hn] at *; simp at *; omega

theorem headD_eq_head (l : List Nat) (h : l ≠ []) : l.headD 0 = l.head h := by
  cases l with
  | nil => exact absurd rfl h
  | cons a l => rfl

theorem Inv.chainOf_eq {img : Bytes} {abs : List Ent} (h : Inv img abs) (k : Nat) (e : Ent)
    (hk : abs[k]? = some e) : chainOf img k = some (e.chain, flgs e.file) := by
  have he : e ∈ abs := List.mem_of_getElem? hk
  have hne := h.chain_ne_nil he
  unfold chainOf
  rw [h.dir k e hk, deb_first]
  have hd : e.chain.headD 0 = e.chain.head hne := headD_eq_head _ hne
  rw [hd]
  have hlen : e.chain.length ≤ 68 := by
    rw [h.chainLen e he]
    have := needs_le e.file (h.valid e he).2.2.2.2.2.2.2
    omega
  have := walk_encodes img e.chain (flgs e.file) [] 68 hne (h.enc e he) (flgs_range e.file).2
    (by simpa using h.chain_nodup he) (h.chainLt e he) hlen
  simpa using this

theorem Inv.allGranules_eq {img : Bytes} {abs : List Ent} (h : Inv img abs) :
    allGranules img = chains abs := by
  unfold allGranules
  rw [h.liveSlots_eq]
  have := range_filterMap abs (chainOf img) (fun e => (e.chain, flgs e.file)) h.chainOf_eq abs.length (Nat.le_refl _)
  rw [this, List.take_length]
  unfold chains
  rw [List.flatMap_map]

theorem Inv.storedStream_eq {img : Bytes} {abs : List Ent} (h : Inv img abs) (k : Nat) (e : Ent)
    (hk : abs[k]? = some e) : storedStream img k = some (streamOfFile e.file) := by
  have he : e ∈ abs := List.mem_of_getElem? hk
  unfold storedStream
  rw [h.chainOf_eq k e hk]
  simp only []
  rw [h.dir k e hk, deb_lastBytes, h.chainLen e he, implied_eq]
  have := needs_bound e.file
  have hle : (streamOfFile e.file).length ≤ needs e.file * granuleSize := by
    unfold granuleSize; omega
  rw [if_pos hle, h.stream e he]

theorem divmod256 (a : Nat) : a / 256 * 256 + a % 256 = a := by omega

theorem parseML_stream (data : Bytes) (a x : Nat) :
    parseML ([0x00, data.length / 256, data.length % 256, a / 256, a % 256] ++ data ++
      [0xFF, 0x00, 0x00, x / 256, x % 256]) = some (a, data, x) := by
  have h1 := divmod256 data.length
  have h2 := divmod256 a
  have h3 := divmod256 x
  simp only [List.cons_append, List.nil_append, parseML]
  simp [h1, h2, h3]

theorem parseBasic_stream (data : Bytes) :
    parseBasic ([0xFF, data.length / 256, data.length % 256] ++ data) = some data := by
  have h1 := divmod256 data.length
  simp only [List.cons_append, List.nil_append, parseBasic]
  simp [h1]

theorem readSlot_stream (img : Bytes) (k : Nat) (f : CFile) (a : Nat)
    (hd : dirEntry img k = dirEntryBytes f a (flsb f))
    (hs : storedStream img k = some (streamOfFile f)) :
    readSlot img k = some (toDFile f) ∧ lengthOK img k = true := by
  unfold readSlot lengthOK
  rw [hs, hd]
  simp only [deb_ftype, deb_ascii, deb_name, deb_ext]
  by_cases h2 : f.ftype = 0x02
  · have hk : kindOf f.ftype f.dtype = .ml := by unfold kindOf; simp [h2]
    have hst : streamOfFile f = [0x00, f.data.length / 256, f.data.length % 256, f.load / 256, f.load % 256]
        ++ f.data ++ [0xFF, 0x00, 0x00, f.exec / 256, f.exec % 256] := by
      unfold streamOfFile; rw [hk]; rfl
    rw [if_pos h2, if_pos h2, hst, parseML_stream]
    unfold toDFile; rw [hk]; simp
  · by_cases hff : f.dtype = 0xFF
    · have hk : kindOf f.ftype f.dtype = .ascii := by unfold kindOf; simp [h2, hff]
      have hst : streamOfFile f = f.data := by
        unfold streamOfFile; rw [hk]; simp [preamble, postamble]
      rw [if_neg h2, if_neg h2, if_pos hff, if_pos hff, hst]
      unfold toDFile; rw [hk]; simp
    · have hk : kindOf f.ftype f.dtype = .basic := by unfold kindOf; simp [h2, hff]
      have hst : streamOfFile f = [0xFF, f.data.length / 256, f.data.length % 256] ++ f.data := by
        unfold streamOfFile; rw [hk]; simp [preamble, postamble]
      rw [if_neg h2, if_neg h2, if_neg hff, if_neg hff, hst, parseBasic_stream]
      unfold toDFile; rw [hk]; simp

theorem Inv.fsck {img : Bytes} {abs : List Ent} (h : Inv img abs) : Fsck img := by
  refine ⟨h.len, ?_, ?_, ?_, ?_, ?_⟩
  · intro k hk
    rw [h.liveSlots_eq] at hk
    have hlt := List.mem_range.mp hk
    rw [h.chainOf_eq k abs[k] (List.getElem?_eq_getElem hlt)]
    rfl
  · unfold disjointOK; rw [h.allGranules_eq]; exact h.nodup
  · unfold exactOK exactOKWith; rw [h.allGranules_eq]
    intro g hg hne
    apply Classical.byContradiction
    intro hn
    exact hne (h.fatFree g hg hn)
  · intro k hk
    rw [h.liveSlots_eq] at hk
    have hlt := List.mem_range.mp hk
    have hget : abs[k]? = some abs[k] := List.getElem?_eq_getElem hlt
    exact (readSlot_stream img k _ _ (h.dir k _ hget) (h.storedStream_eq k _ hget)).2
  · unfold untouched untouchedWith; rw [h.allGranules_eq]
    exact ⟨h.granFree, h.t17a, h.t17b⟩

theorem Inv.read_eq {img : Bytes} {abs : List Ent} (h : Inv img abs) :
    Spec.DiskBasic.read img = some (abs.map (fun e => toDFile e.file)) := by
  unfold Spec.DiskBasic.read
  rw [h.liveSlots_eq]
  have := range_mapM abs (readSlot img) (fun e => toDFile e.file)
    (fun k e hk => (readSlot_stream img k _ _ (h.dir k e hk) (h.storedStream_eq k e hk)).1)
    abs.length (Nat.le_refl _)
  rw [this, List.take_length]

end CoCo.Dsk

