/-
Lemmas/PcrWidthPost.lean — the post byte of a `label,PCR` statement and the width hint of the size loop.

The theorems of Props/C03Width speak of `pcrHint = 2` (the 8-bit form) and `pcrHint = 4` (the 16-bit form), a field of
the model's statement record.  This file ties the hint to the EMITTED post byte: a PCR statement with a label offset
leaves the size loop with `pcrHint = 2` and a post byte whose low nibble is `$C` (`1xx01100`, "8-bit offset from PC")
or with `pcrHint = 4` and low nibble `$D` (`1xx01101`, "16-bit offset from PC").

* `PostOK`            — the invariant: undecided → choices `[c, c+1]`, `c mod 16 = 12`, low nibble of the post byte clear;
                        decided → hint and low nibble agree.
* `translateOperand_post`, `translateAll_post` — it holds after `translate`.
* `pcrLoop_post`      — it is kept by the size loop.
* `Stages.pcr_postbyte` — the final statement of an accepted program.
-/
import CoCoVerif.Lemmas.PcrWidthFix

namespace CoCo.Asm
open CoCo
open CoCo.Gen (InstrRow)

/-- the post byte of a PCR statement with a label offset (`choices ≠ []`; `settle` keeps `choices`) -/
def PostOK (s : Stmt) : Prop :=
  s.pkg.choices ≠ [] →
    ∃ raw c, s.pkg.postByte.int? = some raw ∧ s.pkg.choices = [c, c + 1] ∧ c % 16 = 12 ∧
      ((s.fixedSize = false ∧ raw % 16 = 0) ∨
       (s.fixedSize = true ∧ ((s.pcrHint = 2 ∧ raw % 16 = 12) ∨ (s.pcrHint = 4 ∧ raw % 16 = 13))))

/-- the same of a translated package (before `fixedSize` is set) -/
def PostPkg (p : Pkg) : Prop :=
  p.choices ≠ [] → ∃ raw c, p.postByte.int? = some raw ∧ p.choices = [c, c + 1] ∧ c % 16 = 12 ∧ raw % 16 = 0

theorem PostPkg.of_nil {p : Pkg} (h : p.choices = []) : PostPkg p := fun hc => absurd h hc

/-! ### arithmetic on the low nibble -/

theorem or_mod16 (a b : Nat) : (a ||| b) % 16 = a % 16 ||| b % 16 := Nat.or_mod_two_pow (n := 4)

theorem regBits_mod16 (r : Str) : regBits r % 16 = 0 := by
  unfold regBits
  split <;> split <;> split <;> decide

theorem extRaw_mod16 (r : Str) : (0x80 ||| regBits r) % 16 = 0 := by
  rw [or_mod16, regBits_mod16]; decide

/-! ### `translate` -/

theorem offBody_post {ind : Bool} {row : InstrRow} {right : Str} {raw0 : Nat} {needs : Bool} {l : Value}
    {p : Pkg} (hraw : raw0 % 16 = 0) (h : offBody ind row right raw0 needs l = .ok p) : PostPkg p := by
  unfold offBody at h
  simp only [bind, Except.bind, pure, Except.pure, throw, throwThe, MonadExceptOf.throw] at h
  repeat' split at h
  all_goals first
    | (cases h; done)
    | (cases h; exact .of_nil rfl)
    | (cases h
       intro _
       have hi := numV_int ‹numV raw0 = _›
       cases ind <;> dsimp only [Bool.false_eq_true, if_false, if_true] <;>
         first
         | exact ⟨raw0, 0x8C, hi, rfl, by decide, hraw⟩
         | exact ⟨raw0, 0x9C, hi, rfl, by decide, hraw⟩)

theorem translateOffset_post {ind : Bool} {row : InstrRow} {left : Value} {right : Str} {raw0 : Nat} {p : Pkg}
    (hraw : raw0 % 16 = 0) (h : translateOffset ind row left right raw0 = .ok p) : PostPkg p := by
  rw [translateOffset_eq] at h
  split at h
  · cases h
  · split at h
    · cases h
    · split at h
      · exact offBody_post hraw h
      · cases h
    · exact offBody_post hraw h

theorem translateIndexed_post {row : InstrRow} {o : Operand} {p : Pkg} (h : translateIndexed o row = .ok p) :
    PostPkg p := by
  unfold translateIndexed at h
  rcases o with ⟨kind, text, value, left, right⟩
  cases left <;> cases right
  all_goals simp only [bind, Except.bind, pure, Except.pure, throw, throwThe, MonadExceptOf.throw, Bool.and_false,
    Bool.false_eq_true, if_false] at h
  case val.some =>
    generalize translateIndexed.match_3 (fun x => Bool) (Side.val _) _ _ _ = b at h
    repeat' split at h
    all_goals first
    | (cases h; done)
    | (cases h; exact .of_nil rfl)
    | exact translateOffset_post (regBits_mod16 _) h
  case text.some =>
    generalize translateIndexed.match_3 (fun x => Bool) (Side.text _) _ _ _ = b at h
    repeat' split at h
    all_goals first
    | (cases h; done)
    | (cases h; exact .of_nil rfl)
  all_goals
    repeat' split at h
    all_goals first
    | (cases h; done)

theorem translateExtIndirect_post {row : InstrRow} {o : Operand} {p : Pkg} (h : translateExtIndirect o row = .ok p) :
    PostPkg p := by
  unfold translateExtIndirect at h
  rcases o with ⟨kind, text, value, left, right⟩
  cases left <;> cases right
  all_goals simp only [bind, Except.bind, pure, Except.pure, throw, throwThe, MonadExceptOf.throw, Bool.and_false,
    Bool.false_eq_true, if_false] at h
  case val.some =>
    by_cases hc : (row.ind.isNone || row.ind == some 0) = true
    · rw [if_pos hc] at h; cases h
    rw [if_neg hc] at h
    generalize translateIndexed.match_3 (fun x => Bool) (Side.val _) _ _ _ = b at h
    repeat' split at h
    all_goals first
    | (cases h; done)
    | (cases h; exact .of_nil rfl)
    | exact translateOffset_post (extRaw_mod16 _) h
  case text.some =>
    by_cases hc : (row.ind.isNone || row.ind == some 0) = true
    · rw [if_pos hc] at h; cases h
    rw [if_neg hc] at h
    generalize translateIndexed.match_3 (fun x => Bool) (Side.text _) _ _ _ = b at h
    generalize (if (_ == ['A']) = true then 22 else if (_ == ['B']) = true then 21 else 27 : Nat) = k at h
    repeat' split at h
    all_goals first
    | (cases h; done)
    | (cases h; exact .of_nil rfl)
    | exact translateOffset_post (extRaw_mod16 _) h
  all_goals
    repeat' split at h
    all_goals first
    | (cases h; done)
    | (cases h; exact .of_nil rfl)

theorem translatePseudo_post {row : InstrRow} {o : Operand} {p : Pkg} (h : translatePseudo o row = .ok p) :
    PostPkg p := by
  unfold translatePseudo at h
  simp only [bind, Except.bind, pure, Except.pure, throw, throwThe, MonadExceptOf.throw] at h
  repeat' split at h
  all_goals first
    | (cases h; done)
    | (cases h; exact .of_nil rfl)

theorem translateSpecial_post {row : InstrRow} {o : Operand} {p : Pkg} (h : translateSpecial o row = .ok p) :
    PostPkg p := by
  unfold translateSpecial at h
  simp only [bind, Except.bind, pure, Except.pure, throw, throwThe, MonadExceptOf.throw] at h
  repeat' split at h
  all_goals first
    | (cases h; done)
    | (cases h; exact .of_nil rfl)

theorem translateOperand_post {row : InstrRow} {o : Operand} {p : Pkg} (h : translateOperand o row = .ok p) :
    PostPkg p := by
  unfold translateOperand at h
  cases hk : o.kind <;> simp only [hk] at h
  case pseudo => exact translatePseudo_post h
  case special => exact translateSpecial_post h
  case indexed => exact translateIndexed_post h
  case extIndirect => exact translateExtIndirect_post h
  all_goals
    try simp only [bind, Except.bind, pure, Except.pure, throw, throwThe, MonadExceptOf.throw] at h
    repeat' split at h
    all_goals first
      | (cases h; done)
      | (cases h; exact .of_nil rfl)

theorem translateAll_post {a r : List Stmt} (h : translateAll a = some r) : ∀ s ∈ r, PostOK s := by
  intro s hs
  obtain ⟨j, hj⟩ := List.getElem?_of_mem hs
  obtain ⟨s0, _, p, htr, rfl⟩ := (translateAll_pw h).get' hj
  intro hc
  have hc' : p.choices ≠ [] := hc
  obtain ⟨raw, c, h1, h2, h3, h4⟩ := translateOperand_post htr hc'
  refine ⟨raw, c, h1, h2, h3, .inl ⟨?_, h4⟩⟩
  show p.choices.isEmpty = false
  rw [h2]; rfl

/-! ### the size loop -/

theorem orPost_int {s : Stmt} {c raw : Nat} {pb : Value} (hr : s.pkg.postByte.int? = some raw)
    (h : orPost s c = some pb) : pb.int? = some (raw ||| c) := by
  unfold orPost at h
  rw [hr] at h
  dsimp only at h
  cases hn : numV (raw ||| c) with
  | error e => rw [hn] at h; cases h
  | ok v => rw [hn] at h; cases h; exact numV_int hn

/-- settling an undecided statement on the 8-bit form with its first choice, or on the 16-bit form with its second -/
theorem settle_post {s s' : Stmt} {c0 c1 : Nat} (hs : PostOK s) (hf : s.fixedSize = false)
    (hch : s.pkg.choices = [c0, c1]) (h : settle s 1 2 c0 = some s' ∨ settle s 2 4 c1 = some s') : PostOK s' := by
  obtain ⟨raw, c, h1, h2, h3, h4⟩ := hs (by rw [hch]; simp)
  rw [hch] at h2
  simp only [List.cons.injEq, and_true] at h2
  obtain ⟨rfl, rfl⟩ := h2
  have hraw : raw % 16 = 0 := by
    rcases h4 with ⟨_, h⟩ | ⟨h, _⟩
    · exact h
    · rw [hf] at h; cases h
  intro _
  rcases h with h | h
  · unfold settle at h
    cases ho : orPost s c0 with
    | none => rw [ho] at h; cases h
    | some pb =>
      rw [ho] at h
      simp only [Option.map_some, Option.some.injEq] at h
      subst h
      refine ⟨raw ||| c0, c0, orPost_int h1 ho, hch, h3, .inr ⟨rfl, .inl ⟨rfl, ?_⟩⟩⟩
      rw [or_mod16, hraw, h3]; decide
  · unfold settle at h
    cases ho : orPost s (c0 + 1) with
    | none => rw [ho] at h; cases h
    | some pb =>
      rw [ho] at h
      simp only [Option.map_some, Option.some.injEq] at h
      subst h
      refine ⟨raw ||| (c0 + 1), c0, orPost_int h1 ho, hch, h3, .inr ⟨rfl, .inr ⟨rfl, ?_⟩⟩⟩
      have : (c0 + 1) % 16 = 13 := by omega
      rw [or_mod16, hraw, this]; decide

/-- what `determine` does to a statement: nothing, first choice with the 8-bit form, second with the 16-bit form -/
theorem determine_settle {ss : List Stmt} {i : Nat} {s s' : Stmt} (h : determine ss i s = .ok s') :
    ∃ c0 c1, s.pkg.choices = [c0, c1] ∧ (s' = s ∨ settle s 1 2 c0 = some s' ∨ settle s 2 4 c1 = some s') := by
  unfold determine at h
  split at h
  · rename_i c0 c1 hch
    refine ⟨c0, c1, hch, ?_⟩
    by_cases hfo : exprForces s.pkg.additional = true
    · rw [if_pos hfo] at h
      cases hs : settle s 2 4 c1 with
      | none => rw [hs] at h; cases h
      | some x => rw [hs] at h; cases h; exact .inr (.inr rfl)
    rw [if_neg hfo] at h
    cases hr : relIndex s.pkg.additional with
    | none => rw [hr] at h; cases h
    | some rel =>
      rw [hr] at h
      dsimp only at h
      split at h
      · cases h
      · generalize (if rel ≤ i then sumSizes ss rel i else sumSizes ss i rel) = pr at h
        generalize (if rel ≤ i then s.pkg.size - 1 else 0) + exprExtra s.pkg.additional = adj at h
        generalize (if rel ≤ i then 128 else 127) = lim at h
        obtain ⟨mn, mx⟩ := pr
        dsimp only at h
        by_cases hcond : mn + 2 + adj ≤ lim ∧ mx + 2 + adj ≤ lim
        · rw [if_pos hcond] at h
          cases hs : settle s 1 2 c0 with
          | none => rw [hs] at h; cases h
          | some x => rw [hs] at h; cases h; exact .inr (.inl rfl)
        · rw [if_neg hcond] at h
          by_cases hc2 : mn + 2 + adj > lim ∧ mx + 2 + adj > lim
          · rw [if_pos hc2] at h
            cases hs : settle s 2 4 c1 with
            | none => rw [hs] at h; cases h
            | some x => rw [hs] at h; cases h; exact .inr (.inr rfl)
          · rw [if_neg hc2] at h
            cases h; exact .inl rfl
  · cases h
  · cases h

theorem forceFirst_cases : ∀ {ss r : List Stmt}, forceFirst ss = some r →
    r = ss ∨ ∃ i s s' c0 c1, ss[i]? = some s ∧ s.fixedSize = false ∧ s.pkg.choices = [c0, c1] ∧
      settle s 2 4 c1 = some s' ∧ r = ss.set i s' := by
  intro ss
  induction ss with
  | nil => intro r h; simp [forceFirst] at h; exact .inl h
  | cons s rest ih =>
    intro r h
    unfold forceFirst at h
    split at h
    · cases hr : forceFirst rest with
      | none => simp [hr] at h
      | some r' =>
        simp [hr] at h; subst h
        rcases ih hr with h1 | ⟨i, t, t', c0, c1, h1, h2, h3, h4, h5⟩
        · left; rw [h1]
        · right; exact ⟨i + 1, t, t', c0, c1, by simpa using h1, h2, h3, h4, by simp [h5]⟩
    · rename_i hf
      have hf : s.fixedSize = false := by simpa using hf
      split at h
      · rename_i c0 c1 hch
        cases hs : settle s 2 4 c1 with
        | none => simp [hs] at h
        | some s' =>
          simp [hs] at h; subst h
          right; exact ⟨0, s, s', c0, c1, by simp, hf, hch, hs, by simp⟩
      · cases h

theorem mem_set_cases {l : List Stmt} {i : Nat} {s' x : Stmt} (h : x ∈ l.set i s') : x = s' ∨ x ∈ l := by
  rcases List.mem_or_eq_of_mem_set h with h | h
  · exact .inr h
  · exact .inl h

theorem pcrPass_post {n : Nat} {ss : List Stmt} {i : Nat} {p : Bool} {r : List Stmt} {p' : Bool}
    (h : pcrPass n ss i p = .ok (r, p')) : (∀ s ∈ ss, PostOK s) → ∀ s ∈ r, PostOK s := by
  refine pcrPass_ind (fun ss _ _ r _ => (∀ s ∈ ss, PostOK s) → ∀ s ∈ r, PostOK s) ?_ ?_ ?_ n ss i p r p' h
  · intro ss _ _ hI; exact hI
  · intro _ _ _ _ _ _ _ _ ih; exact ih
  · intro ss i _ r _ s s' hs hf hd ih hI
    apply ih
    intro x hx
    rcases mem_set_cases hx with rfl | hx
    · obtain ⟨c0, c1, hch, hcase⟩ := determine_settle hd
      have hps := hI s (List.mem_of_getElem? hs)
      rcases hcase with rfl | hcase
      · exact hps
      · exact settle_post hps hf hch hcase
    · exact hI x hx

theorem forceFirst_post {ss r : List Stmt} (h : forceFirst ss = some r) (hI : ∀ s ∈ ss, PostOK s) :
    ∀ s ∈ r, PostOK s := by
  rcases forceFirst_cases h with rfl | ⟨i, s, s', c0, c1, hs, hf, hch, hset, rfl⟩
  · exact hI
  · intro x hx
    rcases mem_set_cases hx with rfl | hx
    · exact settle_post (hI s (List.mem_of_getElem? hs)) hf hch (.inr hset)
    · exact hI x hx

theorem pcrLoop_post (fuel : Nat) (ss : List Stmt) {fin : List Stmt} (h : pcrLoop fuel ss = .ok fin)
    (hI : ∀ s ∈ ss, PostOK s) : ∀ s ∈ fin, PostOK s := by
  induction fuel generalizing ss with
  | zero =>
    unfold pcrLoop at h
    split at h
    · cases h; exact hI
    · cases h
  | succ fuel ih =>
    unfold pcrLoop at h
    split at h
    · cases h; exact hI
    · split at h
      · rename_i ss1 hp
        exact ih _ h (pcrPass_post hp hI)
      · rename_i ss1 hp
        split at h
        · rename_i ss2 hff
          exact ih _ h (forceFirst_post hff (pcrPass_post hp hI))
        · cases h
      · cases h
      · cases h
      · cases h

/-! ### the final statement -/

/-- **post byte and width hint of a PCR statement of an accepted program**: the statement left the size loop with
the 8-bit form and a post byte `1xx01100` (low nibble `$C`), or with the 16-bit form and `1xx01101` (low nibble `$D`) -/
theorem Stages.pcr_postbyte {fs : Files} {lines : List Str} {a : Assembly} (st : Stages fs lines a)
    {i : Nat} {s s3 s4 : Stmt} (pre : PcrPre st i s s3 s4) :
    ∃ pb, s.pkg.postByte.int? = some pb ∧
      ((s.pcrHint = 2 ∧ pb % 16 = 12) ∨ (s.pcrHint = 4 ∧ pb % 16 = 13)) := by
  have hpost : PostOK s3 :=
    pcrLoop_post _ _ st.hpcr (translateAll_post st.htranslate) s3 (List.mem_of_getElem? pre.h3)
  have e34 : s4.pkg.postByte = s3.pkg.postByte ∧ s4.pcrHint = s3.pcrHint ∧ s4.pkg.choices = s3.pkg.choices := by
    obtain ⟨v, rfl⟩ := pre.rel34; exact ⟨rfl, rfl, rfl⟩
  have e4 : s.pkg.postByte = s4.pkg.postByte ∧ s.pcrHint = s4.pcrHint := by
    obtain ⟨v, rfl⟩ := pre.rel4; exact ⟨rfl, rfl⟩
  have hfx : s3.fixedSize = true := by
    have hall := pcrLoop_ok_allFixed _ _ st.hpcr
    simp only [allFixed, List.all_eq_true] at hall
    exact hall s3 (List.mem_of_getElem? pre.h3)
  obtain ⟨raw, c, h1, _, _, h4⟩ := hpost (by rw [← e34.2.2]; exact pre.choices)
  refine ⟨raw, by rw [e4.1, e34.1]; exact h1, ?_⟩
  rw [e4.2, e34.2.1]
  rcases h4 with ⟨h, _⟩ | ⟨_, h⟩
  · rw [hfx] at h; cases h
  · exact h

/-! ### batch B3: the post byte of a label offset of a pointer register -/

/-- the post byte of a package `fix_addresses` resolves WITHOUT post byte choices (`LDA TABLE,X`): low nibble `9`,
"16-bit constant offset from the register" (`1xx01001` / indirect `1xx11001`) -/
def AbsPost (p : Pkg) : Prop :=
  p.needsRes = true → p.choices = [] → ∃ raw, p.postByte.int? = some raw ∧ raw % 16 = 9

theorem offBody_abs {ind : Bool} {row : InstrRow} {right : Str} {raw0 : Nat} {needs : Bool} {l : Value}
    {p : Pkg} (hraw : raw0 % 16 = 0) (h : offBody ind row right raw0 needs l = .ok p) : AbsPost p := by
  unfold offBody at h
  simp only [bind, Except.bind, pure, Except.pure, throw, throwThe, MonadExceptOf.throw] at h
  repeat' split at h
  all_goals first
    | (cases h; done)
    | (cases h
       intro hn hc
       first
       | (cases hc; done)
       | (cases hn; done)
       | contradiction
       | (rename_i pb hpb
          have hi := numV_int hpb
          refine ⟨_, hi, ?_⟩
          rw [or_mod16, hraw]
          cases ind <;> rfl))

theorem translateOffset_abs {ind : Bool} {row : InstrRow} {left : Value} {right : Str} {raw0 : Nat} {p : Pkg}
    (hraw : raw0 % 16 = 0) (h : translateOffset ind row left right raw0 = .ok p) : AbsPost p := by
  rw [translateOffset_eq] at h
  split at h
  · cases h
  · split at h
    · cases h
    · split at h
      · exact offBody_abs hraw h
      · cases h
    · exact offBody_abs hraw h

theorem AbsPost.of_false {p : Pkg} (h : p.needsRes = false) : AbsPost p := fun hn => by rw [h] at hn; cases hn

theorem translateIndexed_abs {row : InstrRow} {o : Operand} {p : Pkg} (h : translateIndexed o row = .ok p) :
    AbsPost p := by
  unfold translateIndexed at h
  rcases o with ⟨kind, text, value, left, right⟩
  cases left <;> cases right
  all_goals simp only [bind, Except.bind, pure, Except.pure, throw, throwThe, MonadExceptOf.throw, Bool.and_false,
    Bool.false_eq_true, if_false] at h
  case val.some =>
    generalize translateIndexed.match_3 (fun x => Bool) (Side.val _) _ _ _ = b at h
    repeat' split at h
    all_goals first
    | (cases h; done)
    | (cases h; exact .of_false rfl)
    | exact translateOffset_abs (regBits_mod16 _) h
  case text.some =>
    generalize translateIndexed.match_3 (fun x => Bool) (Side.text _) _ _ _ = b at h
    repeat' split at h
    all_goals first
    | (cases h; done)
    | (cases h; exact .of_false rfl)
  all_goals
    repeat' split at h
    all_goals first
    | (cases h; done)

theorem translateExtIndirect_abs {row : InstrRow} {o : Operand} {p : Pkg} (h : translateExtIndirect o row = .ok p) :
    AbsPost p := by
  unfold translateExtIndirect at h
  rcases o with ⟨kind, text, value, left, right⟩
  cases left <;> cases right
  all_goals simp only [bind, Except.bind, pure, Except.pure, throw, throwThe, MonadExceptOf.throw, Bool.and_false,
    Bool.false_eq_true, if_false] at h
  case val.some =>
    by_cases hc : (row.ind.isNone || row.ind == some 0) = true
    · rw [if_pos hc] at h; cases h
    rw [if_neg hc] at h
    generalize translateIndexed.match_3 (fun x => Bool) (Side.val _) _ _ _ = b at h
    repeat' split at h
    all_goals first
    | (cases h; done)
    | (cases h; exact .of_false rfl)
    | exact translateOffset_abs (extRaw_mod16 _) h
  case text.some =>
    by_cases hc : (row.ind.isNone || row.ind == some 0) = true
    · rw [if_pos hc] at h; cases h
    rw [if_neg hc] at h
    generalize translateIndexed.match_3 (fun x => Bool) (Side.text _) _ _ _ = b at h
    generalize (if (_ == ['A']) = true then 22 else if (_ == ['B']) = true then 21 else 27 : Nat) = k at h
    repeat' split at h
    all_goals first
    | (cases h; done)
    | (cases h; exact .of_false rfl)
    | exact translateOffset_abs (extRaw_mod16 _) h
  all_goals
    repeat' split at h
    all_goals first
    | (cases h; done)
    | (cases h; exact .of_false rfl)

theorem translateOperand_abs {row : InstrRow} {o : Operand} {p : Pkg} (h : translateOperand o row = .ok p) :
    AbsPost p := by
  unfold translateOperand at h
  cases hk : o.kind <;> simp only [hk] at h
  case pseudo =>
    unfold translatePseudo at h
    simp only [bind, Except.bind, pure, Except.pure, throw, throwThe, MonadExceptOf.throw] at h
    repeat' split at h
    all_goals first
      | (cases h; done)
      | (cases h; exact .of_false rfl)
  case special =>
    unfold translateSpecial at h
    simp only [bind, Except.bind, pure, Except.pure, throw, throwThe, MonadExceptOf.throw] at h
    repeat' split at h
    all_goals first
      | (cases h; done)
      | (cases h; exact .of_false rfl)
  case indexed => exact translateIndexed_abs h
  case extIndirect => exact translateExtIndirect_abs h
  all_goals
    try simp only [bind, Except.bind, pure, Except.pure, throw, throwThe, MonadExceptOf.throw] at h
    repeat' split at h
    all_goals first
      | (cases h; done)
      | (cases h; exact .of_false rfl)

/-- **post byte of a label offset of an accepted program**: a final statement with `needsRes` and without post byte
choices carries a post byte with low nibble `9` (16-bit constant offset): the size loop never touched it -/
theorem Stages.abs_postbyte {fs : Files} {lines : List Str} {a : Assembly} (st : Stages fs lines a)
    {i : Nat} {s : Stmt} (hs : a.stmts[i]? = some s) (hn : s.pkg.needsRes = true) (hc : s.pkg.choices = []) :
    ∃ pb, s.pkg.postByte.int? = some pb ∧ pb % 16 = 9 := by
  obtain ⟨s4, hs4, hsame⟩ := (fixAllL_pw st.hfix).get' hs
  obtain ⟨s3, hs3, hrel34⟩ := (assignAddrs_pw st.haddr).get' hs4
  obtain ⟨s2, hs2, hrel23⟩ := (pcrLoop_pw _ _ st.hpcr).get' hs3
  obtain ⟨s1, _, p, htr, rfl⟩ := (translateAll_pw st.htranslate).get' hs2
  have e : s.pkg.postByte = s4.pkg.postByte ∧ s.pkg.needsRes = s4.pkg.needsRes ∧ s.pkg.choices = s4.pkg.choices := by
    obtain ⟨v, rfl⟩ := hsame; exact ⟨rfl, rfl, rfl⟩
  have e34 : s4.pkg.postByte = s3.pkg.postByte ∧ s4.pkg.needsRes = s3.pkg.needsRes ∧
      s4.pkg.choices = s3.pkg.choices := by
    obtain ⟨v, rfl⟩ := hrel34; exact ⟨rfl, rfl, rfl⟩
  have hc3 : s3.pkg.choices = [] := by rw [← e34.2.2, ← e.2.2]; exact hc
  have hn3 : s3.pkg.needsRes = true := by rw [← e34.2.1, ← e.2.1]; exact hn
  -- the statement was fixed from the start, the loop left it alone
  have hc2 : p.choices = [] := by
    obtain ⟨_, _, _, _, _, h23⟩ := hrel23
    have : s3.pkg.choices = p.choices := by rw [h23]
    rw [← this]; exact hc3
  have hfix2 : ({ s1 with pkg := p, fixedSize := p.choices.isEmpty } : Stmt).fixedSize = true := by
    show p.choices.isEmpty = true
    rw [hc2]; rfl
  have h32 := ((pcrLoop_width st.htranslate st.hpcr).1.2 i _ s3 hs2 hs3).2.2 hfix2
  subst h32
  obtain ⟨raw, h1, h2⟩ := translateOperand_abs htr hn3 hc2
  exact ⟨raw, by rw [e.1, e34.1]; exact h1, h2⟩

end CoCo.Asm
