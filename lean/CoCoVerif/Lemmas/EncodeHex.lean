/-
Lemmas/EncodeHex.lean — the hex path of `Program.get_binary_array`: what `fmtHex` prints, what
`emitPairs` reads back, and `emitValue` of the values the translators build (T2).
-/
import CoCoVerif.Model.Program

namespace CoCo.Asm
open CoCo

/-! ### digits -/

theorem digitVal_hexChar : ∀ d, d < 16 → digitVal (hexChar d) = d := by decide

/-- the `w` base-16 digits of `v`, most significant first -/
def digitsBE : Nat → Nat → List Nat
  | 0, _ => []
  | w + 1, v => digitsBE w (v / 16) ++ [v % 16]

theorem digitsBE_length (w v : Nat) : (digitsBE w v).length = w := by
  induction w generalizing v with
  | zero => rfl
  | succ w ih => simp [digitsBE, ih]

theorem digitsBE_zero (w : Nat) : digitsBE w 0 = List.replicate w 0 := by
  induction w with
  | zero => rfl
  | succ w ih => simp [digitsBE, ih, List.replicate_succ']

theorem digitsBE_lt (w v : Nat) : ∀ d ∈ digitsBE w v, d < 16 := by
  induction w generalizing v with
  | zero => simp [digitsBE]
  | succ w ih =>
    intro d hd
    simp only [digitsBE, List.mem_append, List.mem_singleton] at hd
    rcases hd with hd | hd
    · exact ih _ _ hd
    · omega

theorem natHexF_length_le (f v : Nat) : (natHexF f v).length ≤ f := by
  induction f generalizing v with
  | zero => simp [natHexF]
  | succ f ih =>
    simp only [natHexF]
    split
    · simp
    · have := ih (v / 16); simp; omega

/-- `"{:X}"` padded on the left with zero digits to width `w` is the `w`-digit expansion, as soon as
the value fits (`v < 16^w`) and the fuel suffices -/
theorem natHexF_pad (w : Nat) : ∀ f v, w ≤ f → 1 ≤ w → v < 16 ^ w →
    List.replicate (w - (natHexF f v).length) 0 ++ natHexF f v = digitsBE w v := by
  induction w with
  | zero => intro f v _ h; omega
  | succ w ih =>
    intro f v hf _ hv
    obtain ⟨f', rfl⟩ : ∃ f', f = f' + 1 := ⟨f - 1, by omega⟩
    simp only [natHexF, digitsBE]
    by_cases h16 : v < 16
    · have h0 : v / 16 = 0 := by omega
      have hm : v % 16 = v := by omega
      simp [h16, h0, hm, digitsBE_zero]
    · have hw : 1 ≤ w := by
        cases w with
        | zero => simp at hv; omega
        | succ w => omega
      have hv' : v / 16 < 16 ^ w := by
        rw [Nat.pow_succ] at hv; omega
      have := ih f' (v / 16) (by omega) hw hv'
      simp only [h16, if_false, List.length_append, List.length_singleton]
      rw [← this]
      have e : w + 1 - ((natHexF f' (v / 16)).length + 1) = w - (natHexF f' (v / 16)).length := by omega
      rw [e, List.append_assoc]

/-- the key fact about `"{:0>wX}".format(v)`: for a value that fits it is exactly its `w` digits -/
theorem fmtHex_digits (w v : Nat) (hw1 : 1 ≤ w) (hw : w ≤ 20) (hv : v < 16 ^ w) :
    fmtHex w v = (digitsBE w v).map hexChar := by
  have h := natHexF_pad w 20 v hw hw1 hv
  simp only [fmtHex]
  rw [← h, List.map_append, List.map_replicate]
  rfl

/-- the two hex digits of a byte -/
def byteHex (b : Nat) : Str := [hexChar (b / 16), hexChar (b % 16)]

theorem fmtHex_byte {v : Nat} (h : v < 256) : fmtHex 2 v = byteHex v := by
  rw [fmtHex_digits 2 v (by omega) (by omega) (by omega)]
  have : v / 16 % 16 = v / 16 := by omega
  simp [digitsBE, byteHex, this]

theorem fmtHex_word {v : Nat} (h : v < 65536) : fmtHex 4 v = byteHex (v / 256) ++ byteHex (v % 256) := by
  rw [fmtHex_digits 4 v (by omega) (by omega) (by omega)]
  have e1 : v / 16 / 16 / 16 % 16 = v / 256 / 16 := by omega
  have e2 : v / 16 / 16 % 16 = v / 256 % 16 := by omega
  have e3 : v / 16 % 16 = v % 256 / 16 := by omega
  have e4 : v % 16 = v % 256 % 16 := by omega
  simp only [digitsBE, byteHex, List.nil_append, List.cons_append, List.map_cons, List.map_nil, e1, e2, e3]
  rw [← e4]

theorem natHexF_lt16 {v : Nat} (h : v < 16) : natHexF 20 v = [v] := by simp [natHexF, h]

/-- number of hex digits `"{:X}"` prints -/
theorem natHexF_len_1 {v : Nat} (h : v < 16) : (natHexF 20 v).length = 1 := by simp [natHexF, h]
theorem natHexF_len_2 {v : Nat} (h1 : 16 ≤ v) (h2 : v < 256) : (natHexF 20 v).length = 2 := by
  have h16 : ¬ v < 16 := by omega
  have h16' : v / 16 < 16 := by omega
  simp [natHexF, h16, h16']
theorem natHexF_len_3 {v : Nat} (h1 : 256 ≤ v) (h2 : v < 4096) : (natHexF 20 v).length = 3 := by
  have a : ¬ v < 16 := by omega
  have b : ¬ v / 16 < 16 := by omega
  have c : v / 16 / 16 < 16 := by omega
  simp [natHexF, a, b, c]
theorem natHexF_len_4 {v : Nat} (h1 : 4096 ≤ v) (h2 : v < 65536) : (natHexF 20 v).length = 4 := by
  have a : ¬ v < 16 := by omega
  have b : ¬ v / 16 < 16 := by omega
  have c : ¬ v / 16 / 16 < 16 := by omega
  have d : v / 16 / 16 / 16 < 16 := by omega
  simp [natHexF, a, b, c, d]

/-- a value wider than the field is NOT truncated by the formatter: `fmtHex 2` of a 3-digit value has 3 digits -/
theorem fmtHex_wide3 {v : Nat} (h1 : 256 ≤ v) (h2 : v < 4096) :
    fmtHex 2 v = [hexChar (v / 256), hexChar (v / 16 % 16), hexChar (v % 16)] := by
  have h := natHexF_pad 3 20 v (by omega) (by omega) (by omega)
  have hl : (natHexF 20 v).length = 3 := natHexF_len_3 h1 h2
  simp only [hl, Nat.sub_self, List.replicate_zero, List.nil_append] at h
  simp only [fmtHex, h]
  have : v / 16 / 16 % 16 = v / 256 := by omega
  simp [digitsBE, this]

/-- `hex_len()` of a NumericValue without a size hint: digits rounded up to even -/
theorem numHexLen_none_byte {v : Nat} (h : v < 256) : numHexLen v none = 2 := by
  by_cases h16 : v < 16
  · simp [numHexLen, natHexF_len_1 h16]
  · simp [numHexLen, natHexF_len_2 (by omega) h]
theorem numHexLen_none_word {v : Nat} (h1 : 256 ≤ v) (h2 : v < 65536) : numHexLen v none = 4 := by
  by_cases h : v < 4096
  · simp [numHexLen, natHexF_len_3 h1 h]
  · simp [numHexLen, natHexF_len_4 (by omega) h2]

/-! ### reading the pairs back -/

theorem emitPairs_byteHex (bs : Bytes) (hb : ∀ b ∈ bs, b < 256) (rest : Str) (acc : Bytes) :
    emitPairs bs.length (bs.flatMap byteHex ++ rest) acc = some (acc.reverse ++ bs) := by
  induction bs generalizing acc with
  | nil => simp [emitPairs]
  | cons b bs ih =>
    have hb0 : b < 256 := hb b (by simp)
    have ih' := ih (fun x hx => hb x (by simp [hx])) ((digitVal (hexChar (b / 16)) * 16 + digitVal (hexChar (b % 16))) :: acc)
    simp only [List.flatMap_cons, byteHex, List.cons_append, List.nil_append, List.length_cons, emitPairs]
    rw [ih', digitVal_hexChar _ (by omega), digitVal_hexChar _ (by omega)]
    have : b / 16 * 16 + b % 16 = b := by omega
    simp [this]

theorem emitHex_byteHex (bs : Bytes) (hb : ∀ b ∈ bs, b < 256) (rest : Str) :
    emitHex (bs.flatMap byteHex ++ rest) (2 * bs.length) = some bs := by
  have : (2 * bs.length + 1) / 2 = bs.length := by omega
  simp [emitHex, this, emitPairs_byteHex bs hb rest []]

theorem emitHex_byte {v : Nat} (h : v < 256) (rest : Str) : emitHex (byteHex v ++ rest) 2 = some [v] := by
  have := emitHex_byteHex [v] (by simpa using h) rest
  simpa using this

theorem emitHex_word {a b : Nat} (ha : a < 256) (hb : b < 256) (rest : Str) :
    emitHex (byteHex a ++ byteHex b ++ rest) 4 = some [a, b] := by
  have := emitHex_byteHex [a, b] (by simp; omega) rest
  simpa using this

/-! ### `emitValue` of numerics -/

@[simp] theorem emitValue_none : emitValue .none = some [] := by
  simp [emitValue, Value.hex?, Value.hexLen?, emitHex, emitPairs]

theorem emitValue_numeric (i : Nat) (h : Option Nat) (m : Mode) (n : Bool) :
    emitValue (.numeric i h m n) = emitHex (numHex i h n) (numHexLen i h) := by
  simp [emitValue, Value.hex?, Value.hexLen?]

/-- size hint 2, value fits a byte -/
theorem emit_hint2 {v : Nat} (m : Mode) (h : v < 256) : emitValue (.numeric v (some 2) m false) = some [v] := by
  rw [emitValue_numeric]
  simp only [numHex, numHexLen, getNegative]
  simpa [fmtHex_byte h] using emitHex_byte h []

/-- size hint 4, value fits a word -/
theorem emit_hint4 {v : Nat} (m : Mode) (h : v < 65536) :
    emitValue (.numeric v (some 4) m false) = some [v / 256, v % 256] := by
  rw [emitValue_numeric]
  simp only [numHex, numHexLen, getNegative]
  have := emitHex_word (a := v / 256) (b := v % 256) (by omega) (by omega) []
  simpa [fmtHex_word h] using this

/-- no size hint, value fits a byte (e.g. an immediate `#5`) -/
theorem emit_hintNone_byte {v : Nat} (m : Mode) (h : v < 256) : emitValue (.numeric v none m false) = some [v] := by
  rw [emitValue_numeric]
  have hl := numHexLen_none_byte h
  simp only [numHex, hl, getNegative]
  simpa [fmtHex_byte h] using emitHex_byte h []

/-- no size hint, 256 ≤ v: TWO bytes are emitted (this explains `LDA #256` being accepted with 3 bytes) -/
theorem emit_hintNone_word {v : Nat} (m : Mode) (h1 : 256 ≤ v) (h2 : v < 65536) :
    emitValue (.numeric v none m false) = some [v / 256, v % 256] := by
  rw [emitValue_numeric]
  have hl := numHexLen_none_word h1 h2
  simp only [numHex, hl, getNegative]
  have := emitHex_word (a := v / 256) (b := v % 256) (by omega) (by omega) []
  simpa [fmtHex_word h2] using this

/-- a byte-sized value (hint `none` or 2) -/
theorem emit_byte {v : Nat} {h : Option Nat} (m : Mode) (hv : v < 256) (hh : h = none ∨ h = some 2) :
    emitValue (.numeric v h m false) = some [v] := by
  rcases hh with rfl | rfl
  · exact emit_hintNone_byte m hv
  · exact emit_hint2 m hv

/-- a word-sized value (hint 4, or no hint and at least 256) -/
theorem emit_word {v : Nat} {h : Option Nat} (m : Mode) (hv : v < 65536) (hh : h = some 4 ∨ (h = none ∧ 256 ≤ v)) :
    emitValue (.numeric v h m false) = some [v / 256, v % 256] := by
  rcases hh with rfl | ⟨rfl, h1⟩
  · exact emit_hint4 m hv
  · exact emit_hintNone_word m h1 hv

/-- negative 8-bit: the two's complement byte -/
theorem emit_neg8 {i : Nat} {h : Option Nat} (m : Mode) (h1 : 1 ≤ i) (h2 : i ≤ 128) (hh : h = none ∨ h = some 2) :
    emitValue (.numeric i h m true) = some [256 - i] := by
  rw [emitValue_numeric]
  have hg : getNegative i true = 256 - i := by simp [getNegative, h2]
  have hb : 256 - i < 256 := by omega
  rcases hh with rfl | rfl
  · have hl := numHexLen_none_byte (show i < 256 by omega)
    simp only [numHex, hl, hg]
    simpa [fmtHex_byte hb] using emitHex_byte hb []
  · simp only [numHex, numHexLen, hg]
    simpa [fmtHex_byte hb] using emitHex_byte hb []

/-- negative 16-bit with 4 hex digits of magnitude (or hint 4): the two's complement word -/
theorem emit_neg16 {i : Nat} {h : Option Nat} (m : Mode) (h1 : 129 ≤ i) (h2 : i ≤ 32768)
    (hh : h = some 4 ∨ (h = none ∧ 256 ≤ i)) :
    emitValue (.numeric i h m true) = some [(65536 - i) / 256, (65536 - i) % 256] := by
  rw [emitValue_numeric]
  have hg : getNegative i true = 65536 - i := by
    have : ¬ i ≤ 128 := by omega
    simp [getNegative, this]
  have hb : 65536 - i < 65536 := by omega
  have := emitHex_word (a := (65536 - i) / 256) (b := (65536 - i) % 256) (by omega) (by omega) []
  rcases hh with rfl | ⟨rfl, h3⟩
  · simp only [numHex, numHexLen, hg]
    simpa [fmtHex_word hb] using this
  · have hl := numHexLen_none_word h3 (show i < 65536 by omega)
    simp only [numHex, hl, hg]
    simpa [fmtHex_word hb] using this

/-! ### the values the translators build -/

theorem numV_byte {v : Nat} (h : v < 256) : numV v = .ok (.numeric v (some 2) .direct false) := by
  have h1 : ¬ ((v : Int) > 65535) := by omega
  have h2 : ¬ ((v : Int) < 0) := by omega
  simp [numV, numericOfInt, h1, h2, initHint, postInit, h]

theorem numV_word {v : Nat} (h1 : 256 ≤ v) (h2 : v < 65536) : numV v = .ok (.numeric v none .extended false) := by
  have a : ¬ ((v : Int) > 65535) := by omega
  have b : ¬ ((v : Int) < 0) := by omega
  have c : ¬ v < 256 := by omega
  simp [numV, numericOfInt, a, b, initHint, postInit, c]

theorem emit_numV_byte {v : Nat} (h : v < 256) : ∃ x, numV v = .ok x ∧ emitValue x = some [v] :=
  ⟨_, numV_byte h, emit_hint2 _ h⟩

theorem emit_numV_word {v : Nat} (h1 : 256 ≤ v) (h2 : v < 65536) :
    ∃ x, numV v = .ok x ∧ emitValue x = some [v / 256, v % 256] :=
  ⟨_, numV_word h1 h2, emit_hintNone_word _ h1 h2⟩

/-- `NumericValue(int, size_hint=hint)` with an explicit hint -/
theorem numericOfInt_hint {v : Nat} (hint : Nat) (h : v < 65536) :
    numericOfInt (v : Int) (some hint) .none = .ok (.numeric v (some hint) .extended false) := by
  have a : ¬ ((v : Int) > 65535) := by omega
  have b : ¬ ((v : Int) < 0) := by omega
  simp [numericOfInt, a, b, initHint, postInit]

/-! ### truncation facts behind the known defects -/

/-- hint 2 but a 3-digit value: one byte is read from the front of a 3-digit string (`FCB 300` gives `$12`) -/
theorem emit_hint2_wide {v : Nat} (m : Mode) (h1 : 256 ≤ v) (h2 : v < 4096) :
    emitValue (.numeric v (some 2) m false) = some [v / 16] := by
  rw [emitValue_numeric]
  simp only [numHex, numHexLen, getNegative]
  have hq : v / 16 < 256 := by omega
  have e : fmtHex 2 v = byteHex (v / 16) ++ [hexChar (v % 16)] := by
    rw [fmtHex_wide3 h1 h2]
    have a : v / 16 / 16 = v / 256 := by omega
    simp [byteHex, a]
  simpa [e] using emitHex_byte hq [hexChar (v % 16)]

/-- hint 2 on a two-byte quantity that fits a byte emits ONE byte (`[v]` with hint 2: one address byte) -/
theorem emit_hint2_one {v : Nat} (m : Mode) (h : v < 256) :
    (emitValue (.numeric v (some 2) m false)).map List.length = some 1 := by
  simp [emit_hint2 m h]

/-- hint 4 on a byte-sized value emits TWO bytes (`LDD 100,X`: the offset has hint 4) -/
theorem emit_hint4_two {v : Nat} (m : Mode) (h : v < 65536) :
    (emitValue (.numeric v (some 4) m false)).map List.length = some 2 := by
  simp [emit_hint4 m h]

/-- a negative value with no hint whose magnitude has at most 2 digits but is above 128 emits only the
HIGH byte of the 16-bit two's complement (`FDB`-less contexts: `-200` gives `$FF`) -/
theorem emit_neg_trunc {i : Nat} (m : Mode) (h1 : 129 ≤ i) (h2 : i < 256) :
    emitValue (.numeric i none m true) = some [(65536 - i) / 256] := by
  rw [emitValue_numeric]
  have hg : getNegative i true = 65536 - i := by
    have : ¬ i ≤ 128 := by omega
    simp [getNegative, this]
  have hl := numHexLen_none_byte h2
  simp only [numHex, hl, hg]
  simp only [beq_self_eq_true, if_true, show (2 % 2 == 1) = false from rfl, Bool.false_eq_true, if_false]
  -- fmtHex 2 of a 4-digit value keeps its 4 digits
  have hpad := natHexF_pad 4 20 (65536 - i) (by omega) (by omega) (by omega)
  have hlen : (natHexF 20 (65536 - i)).length = 4 := natHexF_len_4 (by omega) (by omega)
  simp only [hlen, Nat.sub_self, List.replicate_zero, List.nil_append] at hpad
  have hw := fmtHex_word (show 65536 - i < 65536 by omega)
  have e : fmtHex 2 (65536 - i) = fmtHex 4 (65536 - i) := by simp [fmtHex, hlen]
  rw [e, hw]
  simpa using emitHex_byte (show (65536 - i) / 256 < 256 by omega) (byteHex ((65536 - i) % 256))

/-- four hex digits of a negative value: the 16-bit two's complement (repair batch B2; `X EQU -5` is listed as `$FFFB`) -/
theorem numHex_neg_word (i : Nat) (h : Option Nat) : numHex i h true 4 = fmtHex 4 (0x10000 - i) := by
  simp [numHex]

end CoCo.Asm
