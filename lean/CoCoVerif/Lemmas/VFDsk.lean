/-
Lemmas/VFDsk.lean — disk side of the VirtualFile proofs: the disk writer does not see normalisation
(for names without blanks), `addFiles` over an append, one `storeTo` step on a disk target.
-/
import CoCoVerif.Lemmas.VFCas
import CoCoVerif.Lemmas.DiskAddFile
import CoCoVerif.Props.C07

namespace CoCo.VF
open CoCo CoCo.Props

/-- the character map inside `padUpper` -/
def padCh (c : Nat) : Nat := if Dsk.upper c = 0 then 0x20 else Dsk.upper c

theorem padUpper_eq (n : Nat) (s : List Nat) :
    Dsk.padUpper n s = ((s.take n) ++ List.replicate (n - s.length) 0x20).map padCh := rfl

theorem padCh_idem (c : Nat) : padCh (padCh c) = padCh c := by
  unfold padCh Dsk.upper
  repeat' split
  all_goals omega

theorem padCh_space : padCh 0x20 = 0x20 := by decide

theorem padCh_ne_space (c : Nat) (h1 : c ≠ 0x20) (h2 : c ≠ 0) : padCh c ≠ 0x20 := by
  unfold padCh Dsk.upper
  repeat' split
  all_goals omega

/-- padding a string that already has the width only maps the characters -/
theorem padUpper_of_length (n : Nat) (s : List Nat) (h : s.length = n) : Dsk.padUpper n s = s.map padCh := by
  rw [padUpper_eq, List.take_of_length_le (by omega), h]; simp

theorem padUpper_padUpper (n : Nat) (s : List Nat) : Dsk.padUpper n (Dsk.padUpper n s) = Dsk.padUpper n s := by
  rw [padUpper_of_length n _ (Dsk.padUpper_length n s), padUpper_eq, List.map_map]
  apply List.map_congr_left
  intro c _
  exact padCh_idem c

/-- names without blanks and NULs -/
def NoSpace (f : CFile) : Prop := ∀ c ∈ f.name, c ≠ 0x20 ∧ c ≠ 0

theorem filter_padUpper (n : Nat) (s : List Nat) (h : ∀ c ∈ s, c ≠ 0x20 ∧ c ≠ 0) :
    (Dsk.padUpper n s).filter (· != 0x20) = (s.take n).map padCh := by
  rw [padUpper_eq, List.map_append, List.filter_append]
  have h1 : ((s.take n).map padCh).filter (· != 0x20) = (s.take n).map padCh := by
    rw [List.filter_eq_self]
    intro x hx
    obtain ⟨c, hc, rfl⟩ := List.mem_map.mp hx
    have := h c (List.mem_of_mem_take hc)
    simpa using padCh_ne_space c this.1 this.2
  have h2 : ((List.replicate (n - s.length) 0x20).map padCh).filter (· != 0x20) = [] := by
    rw [List.filter_eq_nil_iff]
    intro x hx
    obtain ⟨c, hc, rfl⟩ := List.mem_map.mp hx
    have := (List.mem_replicate.mp hc).2
    subst this
    simp [padCh_space]
  rw [h1, h2, List.append_nil]

theorem padUpper_norm_name (n : Nat) (s : List Nat) (h : ∀ c ∈ s, c ≠ 0x20 ∧ c ≠ 0) :
    Dsk.padUpper n ((Dsk.padUpper n s).filter (· != 0x20)) = Dsk.padUpper n s := by
  rw [filter_padUpper n s h]
  rw [padUpper_eq, padUpper_eq, List.map_append, List.map_append, ← List.map_take, List.take_take,
    Nat.min_self, List.map_map, List.length_map, List.length_take]
  congr 1
  · apply List.map_congr_left
    intro c _
    exact padCh_idem c
  · congr 2
    omega

theorem kindOf_norm (f : CFile) : Dsk.kindOf (Dsk.norm f).ftype (Dsk.norm f).dtype = Dsk.kindOf f.ftype f.dtype := rfl

theorem preamble_norm (f : CFile) :
    Dsk.preamble (Dsk.kindOf f.ftype f.dtype) (Dsk.norm f).data.length (Dsk.norm f).load
      = Dsk.preamble (Dsk.kindOf f.ftype f.dtype) f.data.length f.load := by
  unfold Dsk.norm
  cases h : Dsk.kindOf f.ftype f.dtype <;> simp [Dsk.preamble]

theorem postamble_norm (f : CFile) :
    Dsk.postamble (Dsk.kindOf f.ftype f.dtype) (Dsk.norm f).exec
      = Dsk.postamble (Dsk.kindOf f.ftype f.dtype) f.exec := by
  unfold Dsk.norm
  cases h : Dsk.kindOf f.ftype f.dtype <;> simp [Dsk.postamble]

theorem dirEntryBytes_norm (f : CFile) (hs : NoSpace f) (a c : Nat) :
    Dsk.dirEntryBytes (Dsk.norm f) a c = Dsk.dirEntryBytes f a c := by
  unfold Dsk.dirEntryBytes
  have h1 : Dsk.padUpper 8 (Dsk.norm f).name = Dsk.padUpper 8 f.name := padUpper_norm_name 8 f.name hs
  have h2 : Dsk.padUpper 3 (Dsk.norm f).ext = Dsk.padUpper 3 f.ext := padUpper_padUpper 3 f.ext
  rw [h1, h2]
  rfl

/-- **normalisation is invisible to the disk writer** (names without blanks) -/
theorem addFile_norm (order : List Nat) (b : Bytes) (f : CFile) (hs : NoSpace f) :
    Dsk.addFile order b (Dsk.norm f) = Dsk.addFile order b f := by
  unfold Dsk.addFile
  simp only [kindOf_norm, preamble_norm, postamble_norm, dirEntryBytes_norm f hs]
  rfl

theorem addFiles_norm (order : List Nat) (fs : List CFile) (hs : ∀ f ∈ fs, NoSpace f) :
    ∀ b, Dsk.addFiles order b (fs.map Dsk.norm) = Dsk.addFiles order b fs := by
  induction fs with
  | nil => intro b; rfl
  | cons f rest ih =>
    intro b
    simp only [List.map_cons, Dsk.addFiles]
    rw [addFile_norm order b f (hs f List.mem_cons_self)]
    cases Dsk.addFile order b f with
    | ok b' => exact ih (fun g hg => hs g (List.mem_cons_of_mem _ hg)) b'
    | diag => rfl
    | internal => rfl
    | diverged => rfl

theorem addFiles_append (order : List Nat) (xs ys : List CFile) :
    ∀ b, Dsk.addFiles order b (xs ++ ys) = (Dsk.addFiles order b xs).bind (fun b' => Dsk.addFiles order b' ys) := by
  induction xs with
  | nil => intro b; rfl
  | cons f rest ih =>
    intro b
    simp only [List.cons_append, Dsk.addFiles]
    cases Dsk.addFile order b f with
    | ok b' => exact ih b'
    | diag => rfl
    | internal => rfl
    | diverged => rfl

theorem write_norm_append_dsk (order : List Nat) (a b : List CFile) (hs : ∀ f ∈ a, NoSpace f) :
    Dsk.write order (a.map Dsk.norm ++ b) = Dsk.write order (a ++ b) := by
  unfold Dsk.write
  rw [addFiles_append, addFiles_append, addFiles_norm order a hs]

/-- a successful write of `a ++ b` passes through a successful write of `a` -/
theorem write_prefix_ok {order : List Nat} {a b : List CFile} {img : Bytes}
    (h : Dsk.write order (a ++ b) = .ok img) : ∃ img0, Dsk.write order a = .ok img0 := by
  unfold Dsk.write at h ⊢
  rw [addFiles_append] at h
  cases hx : Dsk.addFiles order Dsk.blank a with
  | ok b' => exact ⟨b', rfl⟩
  | diag => rw [hx] at h; simp [Outcome.bind] at h
  | internal => rw [hx] at h; simp [Outcome.bind] at h
  | diverged => rw [hx] at h; simp [Outcome.bind] at h

theorem validOrder_default : ValidOrder Gen.granuleFillOrder := by
  unfold ValidOrder Gen.granuleFillOrder
  decide

/-- the sniffer on a tool-written disk image -/
theorem sniff_dsk_write {order : List Nat} {fs : List CFile} {img : Bytes} (ho : ValidOrder order)
    (hv : ∀ f ∈ fs, ValidDFile f) (hw : Dsk.write order fs = .ok img) :
    sniff img = .ok (fs.map Dsk.norm, .disk) := by
  unfold sniff
  rw [C07_write_list order fs img ho hv hw]

/-- re-opening a tool-written disk image and adding a batch rewrites it from all files, old ones first -/
theorem storeTo_dsk_reopen (fs : FS) (path : Path) (done batch : List CFile) (img img' : Bytes)
    (hg : fs.get? path = some img) (hwd : Dsk.write Gen.granuleFillOrder done = .ok img)
    (hv : ∀ f ∈ done, ValidDFile f) (hs : ∀ f ∈ done, NoSpace f)
    (hw : Dsk.write Gen.granuleFillOrder (done ++ batch) = .ok img') :
    storeTo fs path .disk batch true = .ok (fs.set path img') :=
  storeTo_append fs path .disk img (done.map Dsk.norm) batch img' hg
    (sniff_dsk_write validOrder_default hv hwd)
    (by simp only [buildImage]; rw [write_norm_append_dsk _ _ _ hs]; exact hw)

end CoCo.VF
