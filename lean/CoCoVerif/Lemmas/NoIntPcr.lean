/-
Lemmas/NoIntPcr.lean — C13, "no internal error": the statement invariant `StmtOK`, its establishment by
`buildSymTab` / `resolveAll` / `translateAll` on parsed statements, and the PCR size loop.
-/
import CoCoVerif.Lemmas.NoIntOp

namespace CoCo.Asm
open CoCo
open CoCo.Gen (InstrRow)

/-- a translated statement (`N` = number of statements of the program) -/
structure StmtOK (N : Nat) (s : Stmt) : Prop where
  val : s.operand.value.Good N
  addr : s.pkg.address.Good 0            -- no label in a preset address: a 16-bit magnitude
  codes : s.pkg.opCode ≠ .pyNone ∧ s.pkg.postByte ≠ .pyNone   -- `hex_len()` is defined on both (`fitWidth`)
  choices : ChoicesOK N s.pkg
  rel : s.operand.kind = .relative →
    (∃ b, s.pkg.additional.int? = some b) ∧ (s.row.isShortBranch = false → 1 ≤ s.pkg.size)
  needs : s.pkg.needsRes = true →
    s.operand.value.isLeftRight = true ∧ (s.operand.kind = .indexed ∨ s.operand.kind = .extIndirect)
  addl : s.pkg.needsRes = true → AddlOK N s.pkg.additional   -- (batch B3) what `fix_addresses` resolves, with or without choices

/-! ### settle / determine -/

theorem settle_ok {N : Nat} {s : Stmt} (hs : StmtOK N s) {c0 c1 : Nat} (hch : s.pkg.choices = [c0, c1])
    (e hint c : Nat) (hc : c = c0 ∨ c = c1) : ∃ s', settle s e hint c = some s' ∧ StmtOK N s' := by
  rcases hs.choices with h0 | ⟨d0, d1, hd, hd0, hd1, ⟨raw, hraw, hrawlt, _⟩, hadd⟩
  · rw [hch] at h0; cases h0
  · rw [hch] at hd
    simp only [List.cons.injEq, and_true] at hd
    obtain ⟨rfl, rfl⟩ := hd
    have hclt : c < 256 := by rcases hc with rfl | rfl <;> assumption
    obtain ⟨pb, hpb⟩ := numV_ok (a := raw ||| c) (by have := or_lt_256 hrawlt hclt; omega)
    have hlen := numV_hexLen hpb (or_lt_256 hrawlt hclt)
    obtain ⟨hh, mm, rfl, _⟩ := numV_eq hpb
    have hset : settle s e hint c = some { s with
        pkg := { s.pkg with size := s.pkg.size + e, maxSize := s.pkg.size + e,
                            postByte := .numeric (raw ||| c) hh mm false },
        pcrHint := hint, fixedSize := true } := by
      simp [settle, orPost, hraw, hpb]
    refine ⟨_, hset, ?_⟩
    refine ⟨hs.val, hs.addr, ⟨hs.codes.1, nofun⟩, Or.inr ⟨c0, c1, hch, hd0, hd1, ⟨raw ||| c, rfl, or_lt_256 hrawlt hclt, hlen⟩, hadd⟩, ?_, hs.needs, hs.addl⟩
    intro hk
    obtain ⟨h1, h2⟩ := hs.rel hk
    exact ⟨h1, fun hsb => by have := h2 hsb; show 1 ≤ s.pkg.size + e; omega⟩

theorem determine_ok_choices {ss : List Stmt} {i : Nat} {s s' : Stmt} (h : determine ss i s = .ok s') :
    ∃ c0 c1, s.pkg.choices = [c0, c1] := by
  unfold determine at h
  split at h
  · exact ⟨_, _, ‹_›⟩
  · cases h
  · cases h

theorem ite3 (P Q : Prop) [Decidable P] [Decidable Q] (a b c : Stmt) (R : Outcome Stmt → Prop)
    (ha : R (.ok a)) (hb : R (.ok b)) (hc : R (.ok c)) :
    R (if P then .ok a else if Q then .ok b else .ok c) := by
  split
  · exact ha
  · split
    · exact hb
    · exact hc

/-- `determine_pcr_relative_sizes` on a good statement: no internal error, and the result is good -/
theorem determine_good {N : Nat} {ss : List Stmt} (hlen : ss.length = N) (i : Nat) {s : Stmt} (hs : StmtOK N s) :
    determine ss i s ≠ .internal ∧ ∀ s', determine ss i s = .ok s' → StmtOK N s' := by
  rcases hs.choices with h0 | ⟨d0, d1, hd, hd0, hd1, ⟨raw, hraw, hrawlt, _⟩, hgood, ⟨r, hr, hrlt⟩, _⟩
  · unfold determine
    rw [h0]
    exact ⟨by simp, fun s' h => by cases h⟩
  · obtain ⟨sa, hsa, hsaok⟩ := settle_ok hs hd 1 2 d0 (Or.inl rfl)
    obtain ⟨sb, hsb, hsbok⟩ := settle_ok hs hd 2 4 d1 (Or.inr rfl)
    unfold determine
    rw [hd]
    dsimp only
    by_cases hfo : exprForces s.pkg.additional = true
    · rw [if_pos hfo, hsb]
      exact ⟨by simp, fun s' h => by cases h; exact hsbok⟩
    · rw [if_neg hfo, hr]
      dsimp only
      have hnot : ¬ r > ss.length := by omega
      rw [if_neg hnot]
      generalize (if r ≤ i then sumSizes ss r i else sumSizes ss i r) = pr
      obtain ⟨mn, mx⟩ := pr
      dsimp only
      rw [hsa, hsb]
      dsimp only
      exact ite3 _ _ sa sb s (fun o => o ≠ .internal ∧ ∀ s', o = .ok s' → StmtOK N s')
        ⟨by simp, fun s' h => by cases h; exact hsaok⟩
        ⟨by simp, fun s' h => by cases h; exact hsbok⟩
        ⟨by simp, fun s' h => by cases h; exact hs⟩

/-! ### pcrPass -/

theorem pcrPass_good {N : Nat} : ∀ (n : Nat) (ss : List Stmt) (i : Nat) (p : Bool), ss.length = N →
    (∀ s ∈ ss, StmtOK N s) →
    pcrPass n ss i p ≠ .internal ∧ ∀ r p', pcrPass n ss i p = .ok (r, p') → ∀ s ∈ r, StmtOK N s := by
  intro n
  induction n with
  | zero =>
    intro ss i p _ hall
    refine ⟨by simp [pcrPass], fun r p' h => ?_⟩
    simp [pcrPass] at h; obtain ⟨rfl, rfl⟩ := h; exact hall
  | succ n ih =>
    intro ss i p hlen hall
    cases hs : ss[i]? with
    | none =>
      rw [pcrPass_end hs]
      refine ⟨by simp, fun r p' h => ?_⟩
      simp at h; obtain ⟨rfl, rfl⟩ := h; exact hall
    | some s =>
      rw [pcrPass_step hs]
      have hsok := hall s (List.mem_of_getElem? hs)
      split
      · exact ih ss (i + 1) p hlen hall
      · obtain ⟨hni, hok⟩ := determine_good hlen i hsok
        cases hd : determine ss i s with
        | ok s' =>
          dsimp only
          refine ih (ss.set i s') (i + 1) _ (by simp [hlen]) ?_
          intro x hx
          rcases List.mem_or_eq_of_mem_set hx with hx | hx
          · exact hall x hx
          · subst hx; exact hok _ hd
        | diag => exact ⟨by simp, fun r p' h => by cases h⟩
        | internal => exact absurd hd hni
        | diverged => exact ⟨by simp, fun r p' h => by cases h⟩

/-- a pass that made no progress ran `determine` on every undecided statement, and left it as it was -/
theorem pcrPass_false_det : ∀ (n : Nat) (ss : List Stmt) (i : Nat) (p : Bool) (r : List Stmt),
    pcrPass n ss i p = .ok (r, false) → ∀ j s, i ≤ j → j < i + n → ss[j]? = some s → s.fixedSize = false →
      ∃ s', determine ss j s = .ok s' := by
  intro n
  induction n with
  | zero => intro ss i p r _ j s h1 h2; omega
  | succ n ih =>
    intro ss i p r h j s h1 h2 hj hf
    cases hs : ss[i]? with
    | none =>
      have : ss.length ≤ i := List.getElem?_eq_none_iff.mp hs
      have : j < ss.length := (List.getElem?_eq_some_iff.mp hj).1
      omega
    | some s0 =>
      rw [pcrPass_step hs] at h
      by_cases hf0 : s0.fixedSize = true
      · rw [if_pos hf0] at h
        have hne : j ≠ i := by
          rintro rfl
          rw [hs] at hj; cases hj
          rw [hf] at hf0; cases hf0
        exact ih ss (i + 1) p r h j s (by omega) (by omega) hj hf
      · rw [if_neg hf0] at h
        cases hd : determine ss i s0 with
        | ok s' =>
          rw [hd] at h
          dsimp only at h
          have hflag : (p || s'.fixedSize) = false := by
            cases hx : (p || s'.fixedSize) with
            | false => rfl
            | true => have := pcrPass_flag h hx; cases this
          have hs'f : s'.fixedSize = false := by
            cases hx : s'.fixedSize with
            | false => rfl
            | true => rw [hx] at hflag; simp at hflag
          have hsame : s' = s0 := by
            rcases (determine_ok hd).1 with h1 | h1
            · rw [hs'f] at h1; cases h1
            · exact h1
          subst hsame
          rw [set_self hs] at h
          by_cases hji : j = i
          · subst hji
            rw [hs] at hj; cases hj
            exact ⟨_, hd⟩
          · exact ih ss (i + 1) _ r h j s (by omega) (by omega) hj hf
        | diag => rw [hd] at h; cases h
        | internal => rw [hd] at h; cases h
        | diverged => rw [hd] at h; cases h

/-! ### forceFirst -/

theorem forceFirst_good {N : Nat} : ∀ (ss : List Stmt), (∀ s ∈ ss, StmtOK N s) →
    (∀ s ∈ ss, s.fixedSize = false → ∃ c0 c1, s.pkg.choices = [c0, c1]) →
    ∃ r, forceFirst ss = some r ∧ ∀ s ∈ r, StmtOK N s := by
  intro ss
  induction ss with
  | nil => intro _ _; exact ⟨[], rfl, by simp⟩
  | cons s rest ih =>
    intro hall hch
    unfold forceFirst
    by_cases hf : s.fixedSize = true
    · rw [if_pos hf]
      obtain ⟨r, hr, hrok⟩ := ih (fun x hx => hall x (by simp [hx])) (fun x hx => hch x (by simp [hx]))
      rw [hr]
      refine ⟨s :: r, rfl, ?_⟩
      intro x hx
      rcases List.mem_cons.mp hx with rfl | hx
      · exact hall _ (by simp)
      · exact hrok x hx
    · rw [if_neg hf]
      obtain ⟨c0, c1, hc⟩ := hch s (by simp) (by simpa using hf)
      rw [hc]
      dsimp only
      obtain ⟨s', hs', hok⟩ := settle_ok (hall s (by simp)) hc 2 4 c1 (Or.inr rfl)
      rw [hs']
      refine ⟨s' :: rest, rfl, ?_⟩
      intro x hx
      rcases List.mem_cons.mp hx with rfl | hx
      · exact hok
      · exact hall x (by simp [hx])

/-! ### pcrLoop -/

theorem pcrLoop_good {N : Nat} : ∀ (fuel : Nat) (ss : List Stmt), ss.length = N → (∀ s ∈ ss, StmtOK N s) →
    pcrLoop fuel ss ≠ .internal ∧
      ∀ r, pcrLoop fuel ss = .ok r → r.length = N ∧ allFixed r = true ∧ ∀ s ∈ r, StmtOK N s := by
  intro fuel
  induction fuel with
  | zero =>
    intro ss hlen hall
    unfold pcrLoop
    split
    · rename_i hf
      exact ⟨by simp, fun r h => by cases h; exact ⟨hlen, hf, hall⟩⟩
    · exact ⟨by simp, fun r h => by cases h⟩
  | succ fuel ih =>
    intro ss hlen hall
    unfold pcrLoop
    split
    · rename_i hf
      exact ⟨by simp, fun r h => by cases h; exact ⟨hlen, hf, hall⟩⟩
    · obtain ⟨hni, hok⟩ := pcrPass_good ss.length ss 0 false hlen hall
      cases hp : pcrPass ss.length ss 0 false with
      | ok x =>
        obtain ⟨ss', fl⟩ := x
        have hlen' : ss'.length = N := by rw [pcrPass_length hp]; exact hlen
        have hall' := hok ss' fl hp
        cases fl with
        | true => exact ih ss' hlen' hall'
        | false =>
          dsimp only
          have hsame : ss' = ss := pcrPass_noprogress hp rfl
          subst hsame
          have hch : ∀ s ∈ ss', s.fixedSize = false → ∃ c0 c1, s.pkg.choices = [c0, c1] := by
            intro s hs hf
            obtain ⟨j, hj, hjs⟩ := List.getElem_of_mem hs
            have hj' : ss'[j]? = some s := by rw [List.getElem?_eq_getElem hj, hjs]
            obtain ⟨s', hd⟩ := pcrPass_false_det _ _ _ _ _ hp j s (by omega) (by omega) hj' hf
            exact determine_ok_choices hd
          obtain ⟨r, hr, hrok⟩ := forceFirst_good ss' hall' hch
          rw [hr]
          exact ih r (by rw [forceFirst_length hr]; exact hlen') hrok
      | diag => exact ⟨by simp, fun r h => by cases h⟩
      | internal => exact absurd hp hni
      | diverged => exact ⟨by simp, fun r h => by cases h⟩

/-! ### from the parser to `StmtOK` -/

-- `Parsed`, `parseLine_row`, `parseLine_parsed`, `expand_parsed`: see Lemmas/LayoutTrace.lean

set_option maxRecDepth 100000 in
/-- every long branch of the instruction table has a size (used for backward long branches) -/
theorem longBranch_size : ∀ r ∈ Gen.instructions, r.isLongBranch = true → 1 ≤ r.relSz := by decide

theorem buildSymTab_good (N : Nat) : ∀ (a : List Stmt) (i0 : Nat) (t0 t : SymTab),
    buildSymTab a i0 t0 = some t → (∀ s ∈ a, s.operand.value.Good N) →
    SymTab.Good N t0 → i0 + a.length ≤ N → SymTab.Good N t := by
  intro a
  induction a with
  | nil => intro i0 t0 t h _ h0 _; simp [buildSymTab] at h; subst h; exact h0
  | cons s rest ih =>
    intro i0 t0 t h hg h0 hlen
    rw [buildSymTab] at h
    simp only [List.length_cons] at hlen
    have hg' : ∀ x ∈ rest, x.operand.value.Good N := fun x hx => hg x (by simp [hx])
    split at h
    · exact ih _ _ _ h hg' h0 (by omega)
    · split at h
      · cases h
      · refine ih _ _ _ h hg' ?_ (by omega)
        intro kv hkv
        rcases List.mem_append.mp hkv with hkv | hkv
        · exact h0 kv hkv
        · simp only [List.mem_singleton] at hkv
          subst hkv
          dsimp only
          split
          · exact hg s (by simp)
          · show i0 < N
            omega

theorem translateAll_good {N : Nat} (hN : 0 < N) : ∀ {a r : List Stmt}, translateAll a = some r →
    (∀ s ∈ a, OpRes N s.row s.operand ∧ (s.row.isLongBranch = true → 1 ≤ s.row.relSz)) →
    ∀ s' ∈ r, StmtOK N s' := by
  intro a
  induction a with
  | nil => intro r h _ s' hs; simp [translateAll] at h; subst h; simp at hs
  | cons s rest ih =>
    intro r h ha s' hs
    rw [translateAll] at h
    cases hr : translateOperand s.operand s.row with
    | error e => rw [hr] at h; cases h
    | ok p =>
      rw [hr] at h
      dsimp only at h
      cases hr2 : translateAll rest with
      | none => rw [hr2] at h; cases h
      | some r2 =>
        rw [hr2] at h
        simp at h; subst h
        rcases List.mem_cons.mp hs with hs | hs
        · subst hs
          obtain ⟨hres, hrow⟩ := ha s (by simp)
          have hp := translateOperand_ok hN hres hrow hr
          exact ⟨hres.good, hp.addr, hp.codes, hp.choices, hp.rel, hp.needs, hp.addl⟩
        · exact ih hr2 (fun x hx => ha x (by simp [hx])) s' hs

/-- **front half of the invariant**: after `buildSymTab`, `resolveAll` and `translateAll` on parsed statements
the symbol table is good and every statement is `StmtOK` -/
theorem translated_good {ss0 ss1 ss2 : List Stmt} {t : SymTab} (hpar : ∀ s ∈ ss0, Parsed s)
    (h0 : buildSymTab ss0 0 [] = some t) (h1 : resolveAll t ss0 = some ss1) (h2 : translateAll ss1 = some ss2) :
    SymTab.Good ss0.length t ∧ ss2.length = ss0.length ∧ ∀ s ∈ ss2, StmtOK ss0.length s := by
  have hinit : ∀ s ∈ ss0, OpInit s.row s.operand := fun s hs => by
    obtain ⟨_, txt, ht⟩ := hpar s hs
    exact createOperand_init ht
  have ht : SymTab.Good ss0.length t :=
    buildSymTab_good ss0.length ss0 0 [] t h0 (fun s hs => (hinit s hs).good _) (fun kv hkv => by simp at hkv)
      (by simp)
  have hlen : ss2.length = ss0.length := by rw [translateAll_length h2, resolveAll_length h1]
  refine ⟨ht, hlen, ?_⟩
  intro s' hs'
  have hN : 0 < ss0.length := by
    have : 0 < ss2.length := List.length_pos_of_mem hs'
    omega
  refine translateAll_good hN h2 ?_ s' hs'
  intro s1 hs1
  obtain ⟨s, hs, o, ho, rfl⟩ := resolveAll_mem h1 s1 hs1
  exact ⟨resolveOperand_res ht (hinit s hs) ho, longBranch_size s.row (hpar s hs).1⟩

end CoCo.Asm
