/-
Lemmas/VFCas.lean — cassette side of the VirtualFile proofs: the writer does not see normalisation,
short buffers are never disks, and one `storeTo` step on a cassette target.
-/
import CoCoVerif.Lemmas.VirtualFile
import CoCoVerif.Lemmas.Cassette
import CoCoVerif.Props.C06

namespace CoCo.VF
open CoCo CoCo.Props

/-! ### normalisation is invisible to the cassette writer -/

theorem padName_of_length (m : List Nat) (h : m.length = 8) : Cas.padName m = m := by
  unfold Cas.padName
  rw [List.take_of_length_le (by omega), h]; simp

theorem padName_padName (n : List Nat) : Cas.padName (Cas.padName n) = Cas.padName n :=
  padName_of_length _ (Cas.padName_length n)

theorem hdrPayload_norm (f : CFile) : Cas.hdrPayload (Cas.norm f) = Cas.hdrPayload f := by
  simp [Cas.hdrPayload, Cas.norm, padName_padName]

theorem fileBytes_norm (f : CFile) : Cas.fileBytes (Cas.norm f) = Cas.fileBytes f := by
  unfold Cas.fileBytes Cas.header
  rw [hdrPayload_norm]
  rfl

theorem norm_norm (f : CFile) : Cas.norm (Cas.norm f) = Cas.norm f := by
  cases f
  simp only [Cas.norm, padName_padName]
  congr

theorem write_append (a b : List CFile) : Cas.write (a ++ b) = Cas.write a ++ Cas.write b := by
  rw [Cas.write_eq_flatten, Cas.write_eq_flatten, Cas.write_eq_flatten, List.map_append, List.flatten_append]

theorem write_map_norm (fs : List CFile) : Cas.write (fs.map Cas.norm) = Cas.write fs := by
  rw [Cas.write_eq_flatten, Cas.write_eq_flatten, List.map_map]
  have : List.map (Cas.fileBytes ∘ Cas.norm) fs = List.map Cas.fileBytes fs :=
    List.map_congr_left (fun f _ => fileBytes_norm f)
  rw [this]

theorem write_norm_append (a b : List CFile) : Cas.write (a.map Cas.norm ++ b) = Cas.write (a ++ b) := by
  rw [write_append, write_append, write_map_norm]

theorem write_nil : Cas.write [] = [] := rfl

/-! ### short buffers are not disks -/

theorem dskList_short (buf : Bytes) (h : buf.length < 161280) : Dsk.list buf = .diag := by
  unfold Dsk.list
  rw [if_pos (by show buf.length < Gen.imageSize; unfold Gen.imageSize; exact h)]

/-- a buffer the disk reader refuses and the cassette reader lists -/
theorem sniff_of_casList {buf : Bytes} {fs : List CFile} (hd : Dsk.list buf = .diag)
    (hc : Cas.list buf = .ok fs) (hne : fs ≠ [] ∨ buf = []) : sniff buf = .ok (fs, .cassette) := by
  unfold sniff
  rw [hd]; simp only [hc]
  rcases hne with h | h
  · cases fs with
    | nil => exact absurd rfl h
    | cons a t => simp
  · subst h; simp

/-- the sniffer on a tool-written cassette below the disk image size -/
theorem sniff_cas_write (fs : List CFile) (hn : ∀ f ∈ fs, AsciiName f.name)
    (hv : ∀ f ∈ fs, ValidFile f) (hK : ∀ f ∈ fs, K_C06_emptyData f.data = false)
    (hlen : (Cas.write fs).length < 161280) :
    sniff (Cas.write fs) = .ok (fs.map Cas.norm, .cassette) := by
  apply sniff_of_casList (dskList_short _ hlen) (C06_roundtrip_partial fs hn hv hK)
  cases fs with
  | nil => right; rfl
  | cons a t => left; simp

/-! ### one `storeTo` on a cassette target -/

/-- the hypotheses of `C06_roundtrip_partial` on a list of files -/
def CasOK (fs : List CFile) : Prop :=
  (∀ f ∈ fs, AsciiName f.name) ∧ (∀ f ∈ fs, ValidFile f) ∧ (∀ f ∈ fs, K_C06_emptyData f.data = false)

theorem CasOK.nil : CasOK [] := ⟨by simp, by simp, by simp⟩

theorem CasOK.append {a b : List CFile} (ha : CasOK a) (hb : CasOK b) : CasOK (a ++ b) := by
  obtain ⟨a1, a2, a3⟩ := ha
  obtain ⟨b1, b2, b3⟩ := hb
  refine ⟨?_, ?_, ?_⟩ <;> intro f hf <;> rcases List.mem_append.mp hf with h | h <;> first
    | exact a1 f h | exact a2 f h | exact a3 f h | exact b1 f h | exact b2 f h | exact b3 f h

theorem storeTo_fresh (fs : FS) (path : Path) (k : Kind) (files : List CFile) (ap : Bool) (img : Bytes)
    (hfresh : fs.get? path = none) (hb : buildImage k files = .ok img) :
    storeTo fs path k files ap = .ok (fs.set path img) := by
  unfold storeTo openVF
  simp only [hfresh]
  rw [foldl_addCoco]
  simp [saveVF, hb]

theorem storeTo_append (fs : FS) (path : Path) (k : Kind) (old : Bytes) (oldFiles files : List CFile)
    (img : Bytes) (hold : fs.get? path = some old) (hs : sniff old = .ok (oldFiles, k))
    (hb : buildImage k (oldFiles ++ files) = .ok img) :
    storeTo fs path k files true = .ok (fs.set path img) := by
  unfold storeTo openVF
  simp only [hold, hs]
  simp only [ne_eq, not_true_eq_false, if_false]
  rw [foldl_addCoco]
  simp [saveVF, hb]

/-- re-opening a tool-written cassette and adding a batch rewrites it from all files, old ones first -/
theorem storeTo_cas_reopen (fs : FS) (path : Path) (done batch : List CFile)
    (hg : fs.get? path = some (Cas.write done)) (hok : CasOK done) (hl : (Cas.write done).length < 161280) :
    storeTo fs path .cassette batch true = .ok (fs.set path (Cas.write (done ++ batch))) := by
  obtain ⟨h1, h2, h3⟩ := hok
  exact storeTo_append fs path .cassette _ (done.map Cas.norm) batch _ hg (sniff_cas_write done h1 h2 h3 hl)
    (by simp [buildImage, write_norm_append])

end CoCo.VF
