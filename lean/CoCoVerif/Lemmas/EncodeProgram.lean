/-
Lemmas/EncodeProgram.lean — evaluating `assemble` on concrete INCLUDE-free programs inside the kernel
(for the whole-program witnesses of C05).  `expand` is defined by well-founded recursion and does not
reduce; for programs without INCLUDE it is the identity, and the rest of the pipeline (`assembleNoInc`) is
structurally recursive.  (Same device as Lemmas/LayoutEval.lean, under names of its own so that this file does not
depend on the layout lemmas.)
-/
import CoCoVerif.Model.Program

namespace CoCo.Asm
open CoCo

/-- `assemble` after INCLUDE expansion -/
def assembleNoInc (ss0 : List Stmt) : Outcome Assembly :=
  match buildSymTab ss0 0 [] with
  | none => .diag
  | some t =>
    match resolveAll t ss0 with
    | none => .diag
    | some ss1 =>
      match translateAll ss1 with
      | none => .diag
      | some ss2 =>
        match pcrLoop (ss2.length + 1) ss2 with
        | .ok ss3 =>
          if !orgOK ss3 false then .diag else
          match assignAddrs ss3 0 with
          | .ok ss4 =>
            match fixAllL t ss4 with
            | .ok ss5 =>
              match evalSyms ss5 t t with
              | .ok t1 =>
                match finalSymTab ss5 t1 with
                | .ok t' =>
                  let origin := ss5.foldl (fun o s => if s.row.isOrigin then s.pkg.address else o) Value.none
                  let name := ss5.foldl (fun o s => if s.row.isName then some s.operand.text else o) none
                  .ok { stmts := ss5, symtab := t', origin := origin, name := name }
                | .diag => .diag
                | .internal => .internal
                | .diverged => .diverged
              | .diag => .diag
              | .internal => .internal
              | .diverged => .diverged
            | .diag => .diag
            | .internal => .internal
            | .diverged => .diverged
          | .diag => .diag
          | .internal => .internal
          | .diverged => .diverged
        | .diag => .diag
        | .internal => .internal
        | .diverged => .diverged

theorem assemble_eq_noInc {fs : Files} {lines : List Str} {parsed ss0 : List Stmt}
    (hp : parseLines lines = .ok parsed) (he : expand fs (includeFuel fs) [] parsed = .ok ss0) :
    assemble fs lines = assembleNoInc ss0 := by
  unfold assemble assembleNoInc
  rw [hp]; dsimp only; rw [he]
  rfl

theorem expandGo_noInc (fs : Files) (fuel : Nat) (inc : List Str) (ss : List Stmt)
    (h : ss.all (fun s => !s.row.isInclude) = true) : expand.go fs fuel inc ss = .ok ss := by
  induction ss with
  | nil => rw [expand.go]
  | cons s r ih =>
    simp only [List.all_cons, Bool.and_eq_true, Bool.not_eq_true'] at h
    rw [expand.go]
    simp only [h.1, Bool.false_and, Bool.false_eq_true, if_false]
    rw [ih (by simpa using h.2)]

theorem expand_noInc (fs : Files) (fuel : Nat) (inc : List Str) (ss : List Stmt)
    (h : ss.all (fun s => !s.row.isInclude) = true) : expand fs (fuel + 1) inc ss = .ok ss := by
  rw [expand]; exact expandGo_noInc fs fuel inc ss h

/-- run a check on the result of assembling an INCLUDE-free program -/
def progCheck (lines : List Str) (check : Assembly → Bool) : Bool :=
  match parseLines lines with
  | .ok p => p.all (fun s => !s.row.isInclude) &&
      (match assembleNoInc p with | .ok a => check a | _ => false)
  | _ => false

theorem progCheck_sound {lines : List Str} {check : Assembly → Bool} (h : progCheck lines check = true)
    (fs : Files) : ∃ a, assemble fs lines = .ok a ∧ check a = true := by
  unfold progCheck at h
  split at h
  · rename_i p hp
    simp only [Bool.and_eq_true] at h
    obtain ⟨h1, h2⟩ := h
    split at h2
    · rename_i a ha
      exact ⟨a, by rw [assemble_eq_noInc hp (expand_noInc fs fs.length [] p h1), ha], h2⟩
    · cases h2
  · cases h

/-- whole-program witness: the image of an INCLUDE-free program -/
theorem progImage_sound {lines : List Str} {img : Bytes} (h : progCheck lines (fun a => a.image == some img) = true)
    (fs : Files) : ∃ a, assemble fs lines = .ok a ∧ a.image = some img := by
  obtain ⟨a, ha, hc⟩ := progCheck_sound (check := fun a => a.image == some img) (lines := lines) h fs
  exact ⟨a, ha, by simpa using hc⟩

/-- an INCLUDE-free program whose assembly ends in a diagnostic -/
def progDiag (lines : List Str) : Bool :=
  match parseLines lines with
  | .ok p => p.all (fun s => !s.row.isInclude) &&
      (match assembleNoInc p with | .diag => true | _ => false)
  | .diag => true
  | _ => false

theorem progDiag_sound {lines : List Str} (h : progDiag lines = true) (fs : Files) :
    assemble fs lines = .diag := by
  unfold progDiag at h
  split at h
  · rename_i p hp
    simp only [Bool.and_eq_true] at h
    obtain ⟨h1, h2⟩ := h
    split at h2
    · rename_i ha
      rw [assemble_eq_noInc hp (expand_noInc fs fs.length [] p h1), ha]
    · cases h2
  · rename_i hp
    unfold assemble
    rw [hp]
  · cases h

end CoCo.Asm
