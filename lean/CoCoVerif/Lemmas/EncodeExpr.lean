/-
Lemmas/EncodeExpr.lean — `ExpressionValue.resolve` and `calculate_address_offset` in closed form
(helpers of C04).  The resolve path prints the Python int with `"{}".format` and re-reads it with the
STRING constructor of NumericValue; `EncodeDecimal` shows that round trip is the identity.
-/
import CoCoVerif.Lemmas.EncodeDecimal
import CoCoVerif.Model.Program
import CoCoVerif.Lemmas.AddrOther
import CoCoVerif.Lemmas.EncodeResolve

namespace CoCo.Asm
open CoCo

/-- the mode `ExpressionValue.resolve` hands to the NumericValue constructor -/
def exprMode (ma mb : Mode) : Mode :=
  if (ma == .extended || ma == .explExtended) || (mb == .extended || mb == .explExtended)
  then .extended else .direct

theorem exprMode_cases (ma mb : Mode) : exprMode ma mb = .extended ∨ exprMode ma mb = .direct := by
  unfold exprMode; split <;> simp

/-- the mode of the RESULT: a value above 255 computed from direct-page operands is extended (fix A13) -/
def resMode (ma mb : Mode) (z : Int) : Mode := if z > 255 then .extended else exprMode ma mb

theorem resMode_cases (ma mb : Mode) (z : Int) : resMode ma mb z = .extended ∨ resMode ma mb z = .direct := by
  unfold resMode; split
  · exact Or.inl rfl
  · exact exprMode_cases ma mb

/-- `resMode` is what the model computes -/
theorem resMode_eq (ma mb : Mode) (z : Int) :
    (if (decide (z > 255) && exprMode ma mb == Mode.direct) = true then Mode.extended else exprMode ma mb) = resMode ma mb z := by
  unfold resMode
  by_cases hz : z > 255
  · rcases exprMode_cases ma mb with h | h <;> simp [hz, h]
  · simp [hz]

/-- the non-negative result value the model builds for mode `m` (extended or direct) -/
def posNum (m : Mode) (n : Nat) : Value :=
  .numeric n (if m = .extended then some 4 else if n < 256 then some 2 else none) m false

/-- the negative result value (magnitude `n`) the model builds for mode `m` -/
def negNum (m : Mode) (n : Nat) : Value :=
  .numeric n (if m = .extended then some 4 else none) m true

/-- `NumericValue("{}".format(z), mode=m)` with every exception mapped to `other`, as `resolve` does -/
def numResult (m : Mode) (z : Int) : R Value :=
  if z < 0 then (if z.natAbs > 32768 then .error .other else .ok (negNum m z.natAbs))
  else (if z.natAbs > 65535 then .error .other else .ok (posNum m z.natAbs))

/-- `NumericValue.signed()`: the Python int a magnitude and its minus flag stand for -/
def sInt (n : Nat) (neg : Bool) : Int := if neg then -(n : Int) else n

@[simp] theorem sInt_false (n : Nat) : sInt n false = (n : Int) := rfl
@[simp] theorem sInt_true (n : Nat) : sInt n true = -(n : Int) := rfl

/-- the Python int the model computes from the two SIGNED operands (repair batch B2: the minus flags are
consulted; division is `int(left / right)`, truncation towards zero) -/
def modelArith (op : Char) (a b : Int) : Option Int :=
  if op == '+' then some (a + b)
  else if op == '-' then some (a - b)
  else if op == '*' then some (a * b)
  else if op == '/' then (if b = 0 then none else some (Int.tdiv a b))
  else some 0

theorem numericOfStr_int (m : Mode) (hm : m = .extended ∨ m = .direct) (z : Int) :
    (match numericOfStr (if z < 0 then '-' :: (toString z.natAbs).toList else (toString z.natAbs).toList)
        none m with
      | .ok nv => (.ok nv : R Value)
      | .error _ => .error .other) = numResult m z := by
  unfold numResult
  by_cases hz : z < 0
  · simp only [hz, if_true]
    have := numericOfStr_neg_decStr z.natAbs m
    simp only [decStr] at this
    rw [this]
    by_cases h : z.natAbs > 32768 <;> rcases hm with rfl | rfl <;> simp [h, negNum, initHint]
  · simp only [hz, if_false]
    have := numericOfStr_decStr z.natAbs m
    simp only [decStr] at this
    rw [this]
    by_cases h : z.natAbs > 65535 <;> rcases hm with rfl | rfl
    · simp [h]
    · simp [h]
    · simp [h, posNum, initHint, postInit]
    · by_cases h' : z.natAbs < 256 <;> simp [h, posNum, initHint, postInit, h']

/-- closed form of one level of `resolve` on an expression whose two operands are numeric literals, whatever the lookup -/
theorem resolveStep_expr_numeric (gs : Str → R Value) (a b : Nat) (ha hb : Option Nat) (ma mb : Mode) (na nb : Bool)
    (op : Char) (m : Mode) (ae : Bool) :
    resolveStep gs (Value.expr (.numeric a ha ma na) (.numeric b hb mb nb) op m ae) =
      (match modelArith op (sInt a na) (sInt b nb) with
       | none => .error .other
       | some z => numResult (resMode ma mb z) z) := by
  change (match modelArith op (sInt a na) (sInt b nb) with
    | none => (.error .other : R Value)
    | some z => match numericOfStr (if z < 0 then '-' :: (toString z.natAbs).toList else (toString z.natAbs).toList)
        none (if (decide (z > 255) && exprMode ma mb == Mode.direct) = true then Mode.extended else exprMode ma mb) with
      | .ok nv => (.ok nv : R Value)
      | .error _ => .error .other) = _
  cases modelArith op (sInt a na) (sInt b nb) with
  | none => rfl
  | some z =>
    simp only [resMode_eq]
    exact numericOfStr_int _ (resMode_cases ma mb z) z

/-- ... at any fuel but 0 (the operands are literals: nothing is looked up) -/
theorem resolveF_expr_numeric (n : Nat) (a b : Nat) (ha hb : Option Nat) (ma mb : Mode) (na nb : Bool)
    (op : Char) (m : Mode) (ae : Bool) (t : SymTab) :
    resolveF (n + 1) (Value.expr (.numeric a ha ma na) (.numeric b hb mb nb) op m ae) t =
      (match modelArith op (sInt a na) (sInt b nb) with
       | none => .error .other
       | some z => numResult (resMode ma mb z) z) := by
  rw [resolveF_succ]; exact resolveStep_expr_numeric _ a b ha hb ma mb na nb op m ae

/-- closed form of `resolve` on an expression whose two operands are numeric literals -/
theorem resolve_expr_numeric (a b : Nat) (ha hb : Option Nat) (ma mb : Mode) (na nb : Bool)
    (op : Char) (m : Mode) (ae : Bool) (t : SymTab) :
    (Value.expr (.numeric a ha ma na) (.numeric b hb mb nb) op m ae).resolve t =
      (match modelArith op (sInt a na) (sInt b nb) with
       | none => .error .other
       | some z => numResult (resMode ma mb z) z) :=
  resolveF_expr_numeric _ a b ha hb ma mb na nb op m ae t

/-! ### symbols inside expressions

Since fix 0f280be a symbol whose table entry is an EQU EXPRESSION (`isExpression`) is evaluated where it is used; an
entry of any other kind is taken as it is, as before. -/

theorem lookStep_symbol_plain {n : Nat} {t : SymTab} {x : Str} {mx : Mode} {s : Value} (hx : t.get? x = some s)
    (he : s.isExpression = false) (hs : s.isSymbol = false) :
    lookStep (getSymF n t) (.symbol x mx) = lookStep (getSymF n t) s := by
  rw [lookStep_symbol, getSymF_plain hx he, lookStep_atom _ _ hs]

theorem resolve_expr_symbol_left (x : Str) (mx : Mode) (s r : Value) (op : Char) (m : Mode) (ae : Bool)
    (t : SymTab) (hx : t.get? x = some s) (hs : s.isSymbol = false) (he : s.isExpression = false) :
    (Value.expr (.symbol x mx) r op m ae).resolve t = (Value.expr s r op m ae).resolve t := by
  rw [resolve_eq_step, resolve_eq_step]
  simp only [resolveStep, lookStep_symbol_plain hx he hs]

theorem resolve_expr_symbol_right (x : Str) (mx : Mode) (s l : Value) (op : Char) (m : Mode) (ae : Bool)
    (t : SymTab) (hx : t.get? x = some s) (hs : s.isSymbol = false) (he : s.isExpression = false) :
    (Value.expr l (.symbol x mx) op m ae).resolve t = (Value.expr l s op m ae).resolve t := by
  rw [resolve_eq_step, resolve_eq_step]
  simp only [resolveStep, lookStep_symbol_plain hx he hs]

theorem resolve_expr_undefined_left (x : Str) (mx : Mode) (r : Value) (op : Char) (m : Mode) (ae : Bool)
    (t : SymTab) (hx : t.get? x = none) :
    (Value.expr (.symbol x mx) r op m ae).resolve t = .error .other := by
  rw [resolve_eq_step]
  simp only [resolveStep, lookStep_symbol, getSymF_none hx]

theorem resolve_expr_undefined_right (x : Str) (mx : Mode) (l : Value) (op : Char) (m : Mode) (ae : Bool)
    (t : SymTab) (hx : t.get? x = none) :
    (Value.expr l (.symbol x mx) op m ae).resolve t = .error .other := by
  rw [resolve_eq_step]
  simp only [resolveStep, lookStep_symbol, getSymF_none hx]
  split <;> simp_all

/-- a symbol whose table entry is an EQU EXPRESSION, as an operand: the value of that expression takes its place
(when that value is not a symbol — it never is: `resolve` returns numbers, labels and label expressions) -/
theorem resolve_expr_symbol_left_expr (x : Str) (mx : Mode) (s s' r : Value) (op : Char) (m : Mode) (ae : Bool)
    (t : SymTab) (hx : t.get? x = some s) (he : s.isExpression = true) (hr : resolveF t.length s t = .ok s')
    (hs : s'.isSymbol = false) :
    (Value.expr (.symbol x mx) r op m ae).resolve t = (Value.expr s' r op m ae).resolve t := by
  rw [resolve_eq_step, resolve_eq_step]
  simp only [resolveStep, lookStep_symbol, getSymF_expr hx he, hr, lookStep_atom _ _ hs]

theorem resolve_expr_symbol_right_expr (x : Str) (mx : Mode) (s s' l : Value) (op : Char) (m : Mode) (ae : Bool)
    (t : SymTab) (hx : t.get? x = some s) (he : s.isExpression = true) (hr : resolveF t.length s t = .ok s')
    (hs : s'.isSymbol = false) :
    (Value.expr l (.symbol x mx) op m ae).resolve t = (Value.expr l s' op m ae).resolve t := by
  rw [resolve_eq_step, resolve_eq_step]
  simp only [resolveStep, lookStep_symbol, getSymF_expr hx he, hr, lookStep_atom _ _ hs]

/-! ### calculate_address_offset -/

/-- the Python int `calculate_address_offset` computes from the LEFT operand value `a` and the RIGHT operand value `b`,
in the written order (repair batch B3; a label contributes its address, a constant its signed value) -/
def addrArith (op : Char) (a b : Int) : Option Int :=
  if op == '+' then some (a + b) else if op == '-' then some (a - b)
  else if op == '*' then some (a * b) else (if b = 0 then none else some (Int.tdiv a b))

/-- a result below zero is an address modulo 65536 (repair batch B3: for every operator) -/
def addrWrap (z : Int) : Int := if z < 0 then z % 65536 else z

theorem addrWrap_nonneg (z : Int) : 0 ≤ addrWrap z := by unfold addrWrap; split <;> omega
theorem addrWrap_of_nonneg {z : Int} (h : 0 ≤ z) : addrWrap z = z := by unfold addrWrap; split <;> omega
theorem addrWrap_of_neg {z : Int} (h : z < 0) : addrWrap z = z % 65536 := by unfold addrWrap; simp [h]
theorem addrWrap_neg_lt {z : Int} (h : z < 0) : addrWrap z < 65536 := by rw [addrWrap_of_neg h]; omega

/-- `NumericValue(z, size_hint=4, mode=EXTENDED)`; a value that does not fit is reported as a
TranslationError (`diag`) since fix 8dc2b21/316e504 (it used to escape as `internal`) -/
def addrResult (z : Int) : Outcome Value :=
  if z > 65535 then .diag else .ok (.numeric z.natAbs (some 4) .extended (decide (z < 0)))

theorem numericOfInt_ext (z : Int) :
    (match numericOfInt z (some 4) .extended with | .ok nv => Outcome.ok nv | .error _ => .diag) =
      addrResult z := by
  unfold numericOfInt addrResult
  by_cases h : z > 65535 <;> simp [h, initHint, postInit]

/-- the result value is never negative: the wrapped integer as a 16-bit extended number, or a diagnostic -/
theorem addrResult_wrap (z : Int) :
    addrResult (addrWrap z) =
      if addrWrap z > 65535 then .diag else .ok (.numeric (addrWrap z).toNat (some 4) .extended false) := by
  have := addrWrap_nonneg z
  unfold addrResult
  split
  · rfl
  · have h1 : decide (addrWrap z < 0) = false := by simp; omega
    have h2 : (addrWrap z).natAbs = (addrWrap z).toNat := by omega
    rw [h1, h2]

/-- `addrCombine` (the arithmetic half of `addrOffset`, see Lemmas/AddrOther.lean) in closed form -/
theorem addrCombine_eq (op : Char) (a b : Int) :
    addrCombine op a b = (match addrArith op a b with | none => .diag | some z => addrResult (addrWrap z)) := by
  change (match addrArith op a b with
    | none => Outcome.diag
    | some z => (match numericOfInt (addrWrap z) (some 4) .extended with | .ok nv => Outcome.ok nv | .error _ => .diag)) = _
  cases addrArith op a b with
  | none => rfl
  | some z => exact numericOfInt_ext _

/-- label `op` constant -/
theorem addrOffset_addr_num (ss : List Stmt) (ai a k : Nat) (ma mk m : Mode) (hk : Option Nat) (nk ae : Bool)
    (op : Char) (h : addrIntOf ss ai = some a) :
    addrOffset ss (.expr (.address ai ma) (.numeric k hk mk nk) op m ae) =
      (match addrArith op a (sInt k nk) with | none => .diag | some z => addrResult (addrWrap z)) := by
  rw [addrOffset_expr, addrOperand_address, addrOperand_numeric, h]
  exact addrCombine_eq op a (sInt k nk)

/-- constant `op` label: since repair batch B3 the operands are taken in the written order (`5-LABEL` is 5 minus
the address, `$4000/LABEL` divides by the address) -/
theorem addrOffset_num_addr (ss : List Stmt) (ai a k : Nat) (ma mk m : Mode) (hk : Option Nat) (nk ae : Bool)
    (op : Char) (h : addrIntOf ss ai = some a) :
    addrOffset ss (.expr (.numeric k hk mk nk) (.address ai ma) op m ae) =
      (match addrArith op (sInt k nk) a with | none => .diag | some z => addrResult (addrWrap z)) := by
  rw [addrOffset_expr, addrOperand_address, addrOperand_numeric, h]
  exact addrCombine_eq op (sInt k nk) a

/-- label `op` label (since fix 9045646): both operands are the ADDRESSES of the labels' statements, `a_i op a_j` -/
theorem addrOffset_addr_addr (ss : List Stmt) (ai aj a b : Nat) (ma mb m : Mode) (ae : Bool) (op : Char)
    (h : addrIntOf ss ai = some a) (h' : addrIntOf ss aj = some b) :
    addrOffset ss (.expr (.address ai ma) (.address aj mb) op m ae) =
      (match addrArith op (a : Int) (b : Int) with | none => .diag | some z => addrResult (addrWrap z)) := by
  rw [addrOffset_expr, addrOperand_address, addrOperand_address, h, h']
  exact addrCombine_eq op a b

/-- what ONE operand of a label expression stands for: a label its statement's address, a number its signed value -/
inductive AddrOpd (ss : List Stmt) : Value → Int → Prop
  | label {ai a : Nat} {m : Mode} : addrIntOf ss ai = some a → AddrOpd ss (.address ai m) (a : Int)
  | num {k : Nat} {h : Option Nat} {m : Mode} {n : Bool} : AddrOpd ss (.numeric k h m n) (sInt k n)

theorem AddrOpd.operand {ss : List Stmt} {v : Value} {x : Int} (h : AddrOpd ss v x) : addrOperand ss v = .ok x := by
  cases h with
  | label h => rw [addrOperand_address, h]
  | num => rfl

/-- **`calculate_address_offset` in general** (labels and numbers in any combination and order): the written
operation on the two operand values, below zero reduced modulo 65536, above 65535 a diagnostic -/
theorem addrOffset_opd {ss : List Stmt} {l r : Value} {x y : Int} (hl : AddrOpd ss l x) (hr : AddrOpd ss r y)
    (op : Char) (m : Mode) (ae : Bool) :
    addrOffset ss (.expr l r op m ae) =
      (match addrArith op x y with
       | none => .diag
       | some z => if addrWrap z > 65535 then .diag else .ok (.numeric (addrWrap z).toNat (some 4) .extended false)) := by
  rw [addrOffset_expr, hl.operand, hr.operand]
  simp only [addrCombine_eq, addrResult_wrap]

/-- a label expression whose other operand is neither a number nor a label (a symbol that stayed a string, a
multi-byte value, ...): "unresolved expression", a diagnostic.  Label on the left (the label names a statement): -/
theorem addrOffset_addr_other (ss : List Stmt) (ai a : Nat) (ma m : Mode) (ae : Bool) (op : Char) (r : Value)
    (h : addrIntOf ss ai = some a) (hr1 : r.isAddress = false) (hr2 : r.isNumeric = false) :
    addrOffset ss (.expr (.address ai ma) r op m ae) = .diag := by
  rw [addrOffset_expr, addrOperand_address, h, addrOperand_other ss r hr1 hr2]

/-- ... and label (or anything else) on the right: whatever the statement list is -/
theorem addrOffset_other_addr (ss : List Stmt) (m : Mode) (ae : Bool) (op : Char) (l r : Value)
    (hl1 : l.isAddress = false) (hl2 : l.isNumeric = false) :
    addrOffset ss (.expr l r op m ae) = .diag := by
  rw [addrOffset_expr, addrOperand_other ss l hl1 hl2]

/-- a second label that names no statement is still an internal error (it cannot happen after `buildSymTab`:
every `.address j` of the symbol table is a statement index) -/
theorem addrOffset_addr_addr_missing (ss : List Stmt) (ai aj : Nat) (ma mb m : Mode) (ae : Bool) (op : Char)
    (h' : addrIntOf ss aj = none) :
    addrOffset ss (.expr (.address ai ma) (.address aj mb) op m ae) = .internal := by
  rw [addrOffset_expr, addrOperand_address, addrOperand_address, h']
  cases addrIntOf ss ai <;> rfl

end CoCo.Asm
