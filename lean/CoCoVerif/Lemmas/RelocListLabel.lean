/-
Lemmas/RelocListLabel.lean — relocation (C18-R1), part 12 (model batch 8): LABEL elements of FCB / FDB lists.

`Lemmas/RelocList.lean` covers the lists none of whose elements resolves to a label (`ListsConst`).  Here: the elements that
DO move.  `ssA`, `ssB` are the statements of a program and of the program moved by `D` (`PW (AddrShiftAny D) ssA ssB`: same
length, the address of statement `j` in `ssB` is the one in `ssA` plus `D`, everything inside the 64K space), `t` the label
table (the same in both: it holds statement indices).

* a plain label element (`FDB L`): the digits are those of the address, resp. of the address `+ D` (`evalElem_reloc_label`);
* `label ± N` (`ModExpr`): the value moves by `D` modulo `$10000` (`evalElem_reloc_modExpr`);
* `label - label` (`DiffExpr`): the same digits (`evalElem_reloc_diffExpr`);
* anything that does not resolve to a label or a label expression: the same digits (`evalElem_reloc_const`, RelocList).

`movedElem` / `movedDigits`: the digits expected in the moved program, computed from the original layout; `evalElems_reloc`:
position by position the list pass on the moved program gives exactly those.  `evalList1_reloc`: one list statement.
-/
import CoCoVerif.Lemmas.RelocList
import CoCoVerif.Lemmas.RelocAny
import CoCoVerif.Lemmas.RelocEqu
import CoCoVerif.Lemmas.EncodeData

namespace CoCo.Asm
open CoCo

/-! ### rendering a number at the width of the directive -/

/-- a non-negative number below `16 ^ w`, rendered at width `w` -/
theorem elemRender_nat {w n : Nat} (hw : w = 2 ∨ w = 4) (hn : n < 16 ^ w) (h : Option Nat) (m : Mode) :
    elemRender w (.ok (.numeric n h m false)) = .ok (fmtHex w n) := by
  have hf := fitNum_nat hw hn
  unfold elemRender
  simp only [hf]
  have hw0 : (w == 0) = false := by rcases hw with rfl | rfl <;> rfl
  simp [Value.hex?, numHex, hw0, getNegative]

/-- a non-negative number that does not fit `w` digits is rejected -/
theorem elemRender_big {w n : Nat} (hw : w = 2 ∨ w = 4) (hn : 16 ^ w ≤ n) (h : Option Nat) (m : Mode) :
    elemRender w (.ok (.numeric n h m false)) = .diag := by
  have hp : (2 : Int) ^ (4 * w) = ((16 ^ w : Nat) : Int) := by
    rcases hw with rfl | rfl <;> decide
  have hf : ∃ e, fitNum n false w = .error e := by
    unfold fitNum
    simp only [Bool.false_eq_true, if_false, hp]
    rw [if_neg (by omega)]
    exact ⟨_, rfl⟩
  obtain ⟨e, hf⟩ := hf
  unfold elemRender
  simp only [hf]

/-- the digits of a non-negative number at width `w`, whatever it is -/
theorem elemRender_nat_ok {w n : Nat} {h : Option Nat} {m : Mode} {g : Str} (hw : w = 2 ∨ w = 4)
    (he : elemRender w (.ok (.numeric n h m false)) = .ok g) : n < 16 ^ w ∧ g = fmtHex w n := by
  by_cases hn : n < 16 ^ w
  · rw [elemRender_nat hw hn] at he
    cases he
    exact ⟨hn, rfl⟩
  · rw [elemRender_big hw (by omega)] at he
    cases he

/-! ### `evalElem` once `create` and `resolve` are known -/

theorem evalElem_of {ss : List Stmt} {t : SymTab} {w : Nat} {x : Str} {v r : Value}
    (hv : create 4 x false false true = .ok v) (hr : v.resolve t = .ok r) :
    evalElem ss t w x = elemRender w (elemNum ss r) := by
  rw [evalElem_eq, hv]
  dsimp only
  rw [hr]

theorem elemNum_address (ss : List Stmt) (j : Nat) (m : Mode) :
    elemNum ss (.address j m) = (match addrOf ss j with | some a => .ok a | none => .internal) := rfl

theorem elemNum_addrExpr (ss : List Stmt) (l r : Value) (op : Char) (m : Mode) :
    elemNum ss (.expr l r op m true) = addrOffset ss (.expr l r op m true) := rfl

theorem elemRender_internal (w : Nat) : elemRender w .internal = .internal := rfl

/-! ### a plain label element -/

section
variable {D : Nat} {ssA ssB : List Stmt}

/-- the value of a label element in the two layouts: the address of the label's statement, `D` apart -/
theorem elemNum_reloc_label (h : PW (AddrShiftAny D) ssA ssB) (j : Nat) (m : Mode) :
    (elemNum ssA (.address j m) = .internal ∧ elemNum ssB (.address j m) = .internal) ∨
    ∃ a hh mm hh' mm', addrIntOf ssA j = some a ∧ addrIntOf ssB j = some (a + D) ∧ a + D < 65536 ∧
      elemNum ssA (.address j m) = .ok (.numeric a hh mm false) ∧
      elemNum ssB (.address j m) = .ok (.numeric (a + D) hh' mm' false) := by
  rw [elemNum_address, elemNum_address]
  rcases addrOf_reloc_any h j with ⟨e1, e2⟩ | ⟨v, v', e1, e2, a, hh, mm, hh', mm', rfl, rfl, hlt⟩
  · rw [e1, e2]; exact .inl ⟨rfl, rfl⟩
  · refine .inr ⟨a, hh, mm, hh', mm', ?_, ?_, hlt, ?_, ?_⟩
    · unfold addrIntOf; rw [e1]; rfl
    · unfold addrIntOf; rw [e2]; rfl
    · rw [e1]
    · rw [e2]

/-- (C18-R1, lists) a plain LABEL element of an FCB / FDB list (`FDB L`): when the original program renders it, the
digits are those of the address `a` of the label's statement; in the program moved by `D` they are those of `a + D`
(which is below `$10000`; at the width 2 of an FCB list the element is rejected when `a + D` has more than two digits) -/
theorem evalElem_reloc_label (h : PW (AddrShiftAny D) ssA ssB) {t : SymTab} {w : Nat} {x : Str} {v : Value}
    {j : Nat} {m : Mode} {gA : Str} (hw : w = 2 ∨ w = 4)
    (hv : create 4 x false false true = .ok v) (hr : v.resolve t = .ok (.address j m))
    (hA : evalElem ssA t w x = .ok gA) :
    ∃ a, addrIntOf ssA j = some a ∧ addrIntOf ssB j = some (a + D) ∧ a + D < 65536 ∧ gA = fmtHex w a ∧
      evalElem ssB t w x = if a + D < 16 ^ w then .ok (fmtHex w (a + D)) else .diag := by
  rw [evalElem_of hv hr] at hA ⊢
  rcases elemNum_reloc_label h j m with ⟨e1, _⟩ | ⟨a, hh, mm, hh', mm', i1, i2, hlt, e1, e2⟩
  · rw [e1] at hA; cases hA
  · rw [e1] at hA
    rw [e2]
    obtain ⟨_, rfl⟩ := elemRender_nat_ok hw hA
    refine ⟨a, i1, i2, hlt, rfl, ?_⟩
    by_cases hf : a + D < 16 ^ w
    · rw [if_pos hf, elemRender_nat hw hf]
    · rw [if_neg hf, elemRender_big hw (by omega)]

/-- the jump table case: a label element of an FDB list holds the address, resp. the address `+ D` -/
theorem evalElem_reloc_label_word (h : PW (AddrShiftAny D) ssA ssB) {t : SymTab} {x : Str} {v : Value}
    {j : Nat} {m : Mode} {gA : Str}
    (hv : create 4 x false false true = .ok v) (hr : v.resolve t = .ok (.address j m))
    (hA : evalElem ssA t 4 x = .ok gA) :
    ∃ a, addrIntOf ssA j = some a ∧ addrIntOf ssB j = some (a + D) ∧ a + D < 65536 ∧ gA = fmtHex 4 a ∧
      evalElem ssB t 4 x = .ok (fmtHex 4 (a + D)) := by
  obtain ⟨a, i1, i2, hlt, e, hB⟩ := evalElem_reloc_label h (.inr rfl) hv hr hA
  refine ⟨a, i1, i2, hlt, e, ?_⟩
  rw [hB, if_pos (by have : (16 : Nat) ^ 4 = 65536 := by decide
                     omega)]

/-- a label element of an FCB list: the low byte page only — stated with the hypothesis that `a + D` has two digits -/
theorem evalElem_reloc_label_byte (h : PW (AddrShiftAny D) ssA ssB) {t : SymTab} {x : Str} {v : Value}
    {j : Nat} {m : Mode} {gA : Str}
    (hv : create 4 x false false true = .ok v) (hr : v.resolve t = .ok (.address j m))
    (hA : evalElem ssA t 2 x = .ok gA) :
    ∃ a, addrIntOf ssA j = some a ∧ addrIntOf ssB j = some (a + D) ∧ gA = fmtHex 2 a ∧
      (a + D < 256 → evalElem ssB t 2 x = .ok (fmtHex 2 (a + D))) ∧
      (256 ≤ a + D → evalElem ssB t 2 x = .diag) := by
  obtain ⟨a, i1, i2, hlt, e, hB⟩ := evalElem_reloc_label h (.inl rfl) hv hr hA
  have e16 : (16 : Nat) ^ 2 = 256 := by decide
  refine ⟨a, i1, i2, e, fun hf => ?_, fun hf => ?_⟩
  · rw [hB, if_pos (by omega)]
  · rw [hB, if_neg (by omega)]

/-! ### `label ± N`, `label - label` -/

/-- (C18-R1, lists) an element `label ± N` (`ModExpr`: the moved layout accepts it): the value `z` of the original program
moves by `D` modulo `$10000` -/
theorem evalElem_reloc_modExpr (h : PW (AddrShiftI D) ssA ssB) {t : SymTab} {w : Nat} {x : Str} {v r : Value} {gA : Str}
    (hw : w = 2 ∨ w = 4) (hv : create 4 x false false true = .ok v) (hr : v.resolve t = .ok r)
    (hc : ModExpr D ssA r) (hA : evalElem ssA t w x = .ok gA) :
    ∃ z, z < 65536 ∧ addrOffset ssA r = .ok (.numeric z (some 4) .extended false) ∧ gA = fmtHex w z ∧
      evalElem ssB t w x = if (z + D) % 65536 < 16 ^ w then .ok (fmtHex w ((z + D) % 65536)) else .diag := by
  obtain ⟨z, hz, e1, e2⟩ := hc.reloc h
  obtain ⟨l, r', op, m, rfl⟩ := hc.isAddrExpr
  rw [evalElem_of hv hr, elemNum_addrExpr] at hA ⊢
  rw [e1] at hA
  rw [e2]
  obtain ⟨_, rfl⟩ := elemRender_nat_ok hw hA
  refine ⟨z, hz, e1, rfl, ?_⟩
  by_cases hf : (z + D) % 65536 < 16 ^ w
  · rw [if_pos hf, elemRender_nat hw hf]
  · rw [if_neg hf, elemRender_big hw (by omega)]

/-- (C18-R1, lists) an element `label - label`: the same in both programs -/
theorem evalElem_reloc_diffExpr (h : PW (AddrShiftI D) ssA ssB) {t : SymTab} (w : Nat) {x : Str} {v r : Value}
    (hv : create 4 x false false true = .ok v) (hr : v.resolve t = .ok r) (hc : DiffExpr r) :
    evalElem ssB t w x = evalElem ssA t w x := by
  have e := addrOffset_diffExpr h hc
  obtain ⟨l, r', m, rfl, _⟩ := hc
  rw [evalElem_of hv hr, evalElem_of hv hr, elemNum_addrExpr, elemNum_addrExpr, e]

end

/-! ### the digits expected in the moved program -/

/-- the resolved element moves with the program: a label, or `label ± number` (the label on the left, or `+`) -/
def valueMovesB : Value → Bool
  | .address _ _ => true
  | .expr l r op _ true => (if l.isAddress then r else l).isNumeric && (l.isAddress || (r.isAddress && op == '+'))
  | _ => false

theorem valueMovesB_expr (l r : Value) (op : Char) (m : Mode) :
    valueMovesB (.expr l r op m true) =
      ((if l.isAddress then r else l).isNumeric && (l.isAddress || (r.isAddress && op == '+'))) := rfl

/-- the number a value stands for (not negative) -/
def numVal : Outcome Value → Option Nat
  | .ok (.numeric n _ _ false) => some n
  | _ => none

/-- the list element `x` moves with the program (on the label table `t`) -/
def elemMovesB (t : SymTab) (x : Str) : Bool :=
  match create 4 x false false true with
  | .ok v => (match v.resolve t with | .ok r => valueMovesB r | .error _ => false)
  | .error _ => false

/-- the number the list element `x` stands for in the layout `ss` -/
def elemVal (ss : List Stmt) (t : SymTab) (x : Str) : Option Nat :=
  match create 4 x false false true with
  | .ok v => (match v.resolve t with | .ok r => numVal (elemNum ss r) | .error _ => none)
  | .error _ => none

/-- the digits of the evaluated element `x` in the program moved by `D`, from the layout `ssA` of the original program and
the digits `gA` the original program has: an element that moves holds its value `+ D` (modulo `$10000`), any other element
keeps its digits -/
def movedElem (D : Nat) (ssA : List Stmt) (t : SymTab) (w : Nat) (x gA : Str) : Str :=
  if elemMovesB t x then (match elemVal ssA t x with | some z => fmtHex w ((z + D) % 65536) | none => gA) else gA

/-- the digits of a list in the program moved by `D`, position by position: an evaluated element (`pendingAt`) that moves
holds its value `+ D`, every other position has the digits `gsA` of the original program -/
def movedDigits (D : Nat) (ssA : List Stmt) (t : SymTab) (w : Nat) : List Str → List Str → List Str
  | x :: xs, g :: gs => (if pendingAt w x then movedElem D ssA t w x g else g) :: movedDigits D ssA t w xs gs
  | _, _ => []

theorem movedDigits_nil_left (D : Nat) (ssA : List Stmt) (t : SymTab) (w : Nat) (gs : List Str) :
    movedDigits D ssA t w [] gs = [] := by
  unfold movedDigits; rfl

theorem movedDigits_nil_right (D : Nat) (ssA : List Stmt) (t : SymTab) (w : Nat) (xs : List Str) :
    movedDigits D ssA t w xs [] = [] := by
  cases xs <;> (unfold movedDigits; rfl)

theorem movedDigits_cons (D : Nat) (ssA : List Stmt) (t : SymTab) (w : Nat) (x : Str) (xs : List Str) (g : Str)
    (gs : List Str) :
    movedDigits D ssA t w (x :: xs) (g :: gs) =
      (if pendingAt w x then movedElem D ssA t w x g else g) :: movedDigits D ssA t w xs gs := by
  rw [movedDigits]

theorem elemMovesB_of {t : SymTab} {x : Str} {v r : Value}
    (hv : create 4 x false false true = .ok v) (hr : v.resolve t = .ok r) : elemMovesB t x = valueMovesB r := by
  unfold elemMovesB
  rw [hv]
  dsimp only
  rw [hr]

theorem elemVal_of {ss : List Stmt} {t : SymTab} {x : Str} {v r : Value}
    (hv : create 4 x false false true = .ok v) (hr : v.resolve t = .ok r) :
    elemVal ss t x = numVal (elemNum ss r) := by
  unfold elemVal
  rw [hv]
  dsimp only
  rw [hr]

theorem movedElem_of {D : Nat} {ssA : List Stmt} {t : SymTab} {w : Nat} {x gA : Str} {v r : Value}
    (hv : create 4 x false false true = .ok v) (hr : v.resolve t = .ok r) :
    movedElem D ssA t w x gA =
      if valueMovesB r then (match numVal (elemNum ssA r) with | some z => fmtHex w ((z + D) % 65536) | none => gA)
      else gA := by
  unfold movedElem
  rw [elemMovesB_of hv hr, elemVal_of hv hr]

/-- an element that is rejected by `create` or `resolve` does not move -/
theorem movedElem_unresolved {D : Nat} {ssA : List Stmt} {t : SymTab} {w : Nat} {x gA : Str}
    (h : elemMovesB t x = false) : movedElem D ssA t w x gA = gA := by
  unfold movedElem
  rw [h]
  rfl

/-! ### the element classes -/

/-- what the resolved element `r` may be: no label and no label expression; a plain label; `label ± N` that the moved
layout accepts (`ModExpr`); `label - label` (`DiffExpr`).  Not covered: `N - label` (moves by MINUS `D`), products and
quotients of labels. -/
def ValueCovered (D : Nat) (ssA : List Stmt) (r : Value) : Prop :=
  (r.isAddress = false ∧ r.isAddrExpr = false) ∨ r.isAddress = true ∨ ModExpr D ssA r ∨ DiffExpr r

/-- the list element `x` resolves to a value of one of the four classes (or is rejected before) -/
def ElemCovered (D : Nat) (ssA : List Stmt) (t : SymTab) (x : Str) : Prop :=
  ∀ v r, create 4 x false false true = .ok v → v.resolve t = .ok r → ValueCovered D ssA r

/-- the moved value of the element has `w` digits (no condition at `w = 4`: `elemFits_word`) -/
def ElemFits (D : Nat) (ssA : List Stmt) (t : SymTab) (w : Nat) (x : Str) : Prop :=
  elemMovesB t x = true → ∀ z, elemVal ssA t x = some z → (z + D) % 65536 < 16 ^ w

theorem elemFits_word (D : Nat) (ssA : List Stmt) (t : SymTab) (x : Str) : ElemFits D ssA t 4 x := by
  intro _ z _
  have : (16 : Nat) ^ 4 = 65536 := by decide
  omega

theorem ElemConst.covered {D : Nat} {ssA : List Stmt} {t : SymTab} {x : Str} (h : ElemConst t x) :
    ElemCovered D ssA t x := fun v r hv hr => .inl (h v r hv hr)

theorem valueMovesB_const {r : Value} (h1 : r.isAddress = false) (h2 : r.isAddrExpr = false) :
    valueMovesB r = false := by
  cases r <;> first | rfl | cases h1 | skip
  rename_i l r op m ae
  cases ae
  · rfl
  · cases h2

theorem valueMovesB_modExpr {D : Nat} {ssA : List Stmt} {r : Value} (h : ModExpr D ssA r) : valueMovesB r = true := by
  obtain ⟨l, r', op, m, tt, a, k, nn, rfl, hl, _⟩ := h
  obtain ⟨hh, mm, ho⟩ := hl.other
  rw [valueMovesB_expr, ho]
  rcases hl.side with hs | ⟨hs, rfl⟩
  · simp [hs, Value.isNumeric]
  · simp [hs, Value.isNumeric]

theorem valueMovesB_diffExpr {r : Value} (h : DiffExpr r) : valueMovesB r = false := by
  obtain ⟨l, r', m, rfl, ho⟩ := h
  rw [valueMovesB_expr]
  have : (if l.isAddress then r' else l).isNumeric = false := by
    generalize (if l.isAddress then r' else l) = q at ho
    cases q <;> first | rfl | cases ho
  simp only [this, Bool.false_and]

/-! ### one element, all classes -/

section
variable {D : Nat} {ssA ssB : List Stmt}

/-- the resolved element `r` in the two layouts: rendered in the original program with the digits `gA`, it is rendered in
the moved program with the digits `movedElem` says -/
theorem elemRender_reloc (h : PW (AddrShiftAny D) ssA ssB) {w : Nat} {r : Value} {gA : Str} (hw : w = 2 ∨ w = 4)
    (hc : ValueCovered D ssA r)
    (hfit : valueMovesB r = true → ∀ z, numVal (elemNum ssA r) = some z → (z + D) % 65536 < 16 ^ w)
    (hA : elemRender w (elemNum ssA r) = .ok gA) :
    elemRender w (elemNum ssB r) =
      .ok (if valueMovesB r then (match numVal (elemNum ssA r) with | some z => fmtHex w ((z + D) % 65536) | none => gA)
           else gA) := by
  have hI : PW (AddrShiftI D) ssA ssB := h.mono (fun _ _ => AddrShiftAny.toI)
  rcases hc with ⟨h1, h2⟩ | h1 | hm | hd
  · rw [valueMovesB_const h1 h2, elemNum_const h1 h2]
    rw [elemNum_const h1 h2] at hA
    exact hA
  · cases r <;> first | cases h1 | skip
    rename_i j m
    have hmv : valueMovesB (.address j m) = true := rfl
    rcases elemNum_reloc_label h j m with ⟨e1, _⟩ | ⟨a, hh, mm, hh', mm', _, _, hlt, e1, e2⟩
    · rw [e1] at hA; cases hA
    · have hf := hfit hmv a (by rw [e1]; rfl)
      rw [hmv, e1, e2]
      simp only [if_true, numVal]
      have e : (a + D) % 65536 = a + D := by omega
      rw [e] at hf ⊢
      exact elemRender_nat hw hf _ _
  · obtain ⟨z, hz, e1, e2⟩ := hm.reloc hI
    have hmv := valueMovesB_modExpr hm
    obtain ⟨l, r', op, m, rfl⟩ := hm.isAddrExpr
    rw [elemNum_addrExpr] at hfit ⊢
    have hf := hfit hmv z (by rw [e1]; rfl)
    rw [hmv, elemNum_addrExpr, e1, e2]
    simp only [if_true, numVal]
    exact elemRender_nat hw hf _ _
  · have e := addrOffset_diffExpr hI hd
    rw [valueMovesB_diffExpr hd]
    obtain ⟨l, r', m, rfl, _⟩ := hd
    rw [elemNum_addrExpr] at hA ⊢
    rw [e]
    exact hA

/-- (C18-R1, lists) one evaluated element of a list, all classes: the digits in the moved program are `movedElem` -/
theorem evalElem_reloc (h : PW (AddrShiftAny D) ssA ssB) {t : SymTab} {w : Nat} {x gA : Str} (hw : w = 2 ∨ w = 4)
    (hc : ElemCovered D ssA t x) (hfit : ElemFits D ssA t w x) (hA : evalElem ssA t w x = .ok gA) :
    evalElem ssB t w x = .ok (movedElem D ssA t w x gA) := by
  rw [evalElem_eq] at hA ⊢
  cases hv : create 4 x false false true with
  | error e => rw [hv] at hA; cases hA
  | ok v =>
    rw [hv] at hA
    dsimp only at hA ⊢
    cases hr : v.resolve t with
    | error e => rw [hr] at hA; cases hA
    | ok r =>
      rw [hr] at hA
      dsimp only at hA ⊢
      rw [movedElem_of hv hr]
      refine elemRender_reloc h hw (hc v r hv hr) ?_ hA
      intro hm z hz
      exact hfit (by rw [elemMovesB_of hv hr]; exact hm) z (by rw [elemVal_of hv hr]; exact hz)

/-- one position of a list through the pass, original and moved program -/
theorem evalElem1_reloc (h : PW (AddrShiftAny D) ssA ssB) {t : SymTab} {w : Nat} {x g gA : Str} (hw : w = 2 ∨ w = 4)
    (hc : pendingAt w x = true → ElemCovered D ssA t x) (hfit : pendingAt w x = true → ElemFits D ssA t w x)
    (hA : evalElem1 ssA t w x g = .ok gA) :
    evalElem1 ssB t w x g = .ok (if pendingAt w x then movedElem D ssA t w x gA else gA) := by
  unfold evalElem1 at hA ⊢
  cases hp : pendingAt w x with
  | false =>
    rw [hp] at hA
    simp only [Bool.false_eq_true, if_false] at hA ⊢
    exact hA
  | true =>
    rw [hp] at hA
    simp only [if_true] at hA ⊢
    exact evalElem_reloc h hw (hc hp) (hfit hp) hA

/-- (C18-R1, lists) the digits of a list, position by position: when the original program gives the digits `gsA`, the
program moved by `D` gives `movedDigits D ssA t w xs gsA` — the digits of the original program except at the positions of
labels and of `label ± N`, which hold the value `+ D` -/
theorem evalElems_reloc (h : PW (AddrShiftAny D) ssA ssB) {t : SymTab} {w : Nat} (hw : w = 2 ∨ w = 4) :
    ∀ (xs hs gsA : List Str),
    (∀ x ∈ xs, pendingAt w x = true → ElemCovered D ssA t x) →
    (∀ x ∈ xs, pendingAt w x = true → ElemFits D ssA t w x) →
    evalElems ssA t w xs hs = .ok gsA →
    evalElems ssB t w xs hs = .ok (movedDigits D ssA t w xs gsA) := by
  intro xs
  induction xs with
  | nil =>
    intro hs gsA _ _ _
    rw [evalElems_nil_left, movedDigits_nil_left]
  | cons x xs ih =>
    intro hs gsA hc hfit hA
    cases hs with
    | nil =>
      rw [evalElems_nil_right] at hA ⊢
      cases hA
      rw [movedDigits_nil_right]
    | cons g hs =>
      rw [evalElems_cons] at hA ⊢
      cases h1 : evalElem1 ssA t w x g with
      | ok gA =>
        rw [h1] at hA
        dsimp only at hA
        cases h2 : evalElems ssA t w xs hs with
        | ok rA =>
          rw [h2] at hA
          dsimp only at hA
          cases hA
          rw [evalElem1_reloc h hw (hc x (by simp)) (hfit x (by simp)) h1]
          dsimp only
          rw [ih hs rA (fun y hy => hc y (by simp [hy])) (fun y hy => hfit y (by simp [hy])) h2, movedDigits_cons]
        | diag => rw [h2] at hA; cases hA
        | internal => rw [h2] at hA; cases hA
        | diverged => rw [h2] at hA; cases hA
      | diag => rw [h1] at hA; cases hA
      | internal => rw [h1] at hA; cases hA
      | diverged => rw [h1] at hA; cases hA

end

/-! ### one list statement -/

/-- every evaluated element of the FCB / FDB list statement `s` is in one of the four classes (`ElemCovered`); in an FCB
list the moved values have two digits.  `ListsConst` is the special case "no element moves". -/
def ListsCovered (D : Nat) (ssA : List Stmt) (t : SymTab) (s : Stmt) : Prop :=
  (∀ hs, s.pkg.additional = .multiByte hs → ∀ x ∈ listElems s.operand.text, pendingAt 2 x = true →
    ElemCovered D ssA t x ∧ ElemFits D ssA t 2 x) ∧
  (∀ hs, s.pkg.additional = .multiWord hs → ∀ x ∈ listElems s.operand.text, pendingAt 4 x = true →
    ElemCovered D ssA t x)

theorem elemMovesB_const {t : SymTab} {x : Str} (h : ElemConst t x) : elemMovesB t x = false := by
  unfold elemMovesB
  cases hv : create 4 x false false true with
  | error e => rfl
  | ok v =>
    dsimp only
    cases hr : v.resolve t with
    | error e => rfl
    | ok r =>
      dsimp only
      obtain ⟨h1, h2⟩ := h v r hv hr
      exact valueMovesB_const h1 h2

theorem ListsConst.covered {D : Nat} {ssA : List Stmt} {t : SymTab} {s : Stmt} (h : ListsConst t s) :
    ListsCovered D ssA t s :=
  ⟨fun hs e x hx hp => ⟨(h.1 hs e x hx hp).covered, fun hm => by rw [elemMovesB_const (h.1 hs e x hx hp)] at hm; cases hm⟩,
   fun hs e x hx hp => (h.2 hs e x hx hp).covered⟩

/-- the operand field of a list statement in the moved program, from the statement `y` the original program ends with:
the digits `movedDigits` gives; a field that is not a list as it is -/
def movedList (D : Nat) (ssA : List Stmt) (t : SymTab) (y : Stmt) : Value :=
  match y.pkg.additional with
  | .multiByte gs => .multiByte (movedDigits D ssA t 2 (listElems y.operand.text) gs)
  | .multiWord gs => .multiWord (movedDigits D ssA t 4 (listElems y.operand.text) gs)
  | v => v

section
variable {D : Nat} {ssA ssB : List Stmt} {R : Stmt → Stmt → Prop}

/-- (C18-R1, lists) one statement through the list pass, original and moved program (`x`, `x'` related as the statements
that leave `fixAll` are: same operand, same list field): when the original program ends with the statement `y`, the moved
program ends with `x'` whose list field holds the digits `movedList` says; a statement that is not a list is left alone -/
theorem evalList1_reloc (hR : ListStable R) (h : PW (AddrShiftAny D) ssA ssB) (t : SymTab) {x x' y : Stmt}
    (hx : R x x') (hc : ListsCovered D ssA t x) (hA : evalList1 t ssA x = .ok y) :
    evalList1 t ssB x' =
      .ok (if x.pkg.additional.isList then { x' with pkg := { x'.pkg with additional := movedList D ssA t y } } else x') := by
  cases hl : x.pkg.additional.isList with
  | false =>
    obtain ⟨b1, b2⟩ := Value.isList_false (hR.nonlist hx hl)
    rw [evalList1_keep t ssB b1 b2]
    rfl
  | true =>
    have he := hR.list hx hl
    have ho := hR.operand hx
    simp only [if_true]
    cases ha : x.pkg.additional with
    | multiByte hs =>
      have ha' : x'.pkg.additional = .multiByte hs := by rw [he, ha]
      have eo : listElems x'.operand.text = listElems x.operand.text := by rw [ho]
      unfold evalList1 at hA ⊢
      rw [ha] at hA
      rw [ha']
      dsimp only at hA ⊢
      rw [eo]
      cases hg : evalElems ssA t 2 (listElems x.operand.text) hs with
      | ok gs =>
        rw [hg] at hA
        cases hA
        rw [evalElems_reloc h (.inl rfl) _ hs gs (fun z hz hp => (hc.1 hs ha z hz hp).1)
          (fun z hz hp => (hc.1 hs ha z hz hp).2) hg]
        rfl
      | diag => rw [hg] at hA; cases hA
      | internal => rw [hg] at hA; cases hA
      | diverged => rw [hg] at hA; cases hA
    | multiWord hs =>
      have ha' : x'.pkg.additional = .multiWord hs := by rw [he, ha]
      have eo : listElems x'.operand.text = listElems x.operand.text := by rw [ho]
      unfold evalList1 at hA ⊢
      rw [ha] at hA
      rw [ha']
      dsimp only at hA ⊢
      rw [eo]
      cases hg : evalElems ssA t 4 (listElems x.operand.text) hs with
      | ok gs =>
        rw [hg] at hA
        cases hA
        rw [evalElems_reloc h (.inr rfl) _ hs gs (fun z hz hp => hc.2 hs ha z hz hp)
          (fun z _ _ => elemFits_word D ssA t z) hg]
        rfl
      | diag => rw [hg] at hA; cases hA
      | internal => rw [hg] at hA; cases hA
      | diverged => rw [hg] at hA; cases hA
    | _ => rw [ha] at hl; cases hl

end

/-! ### the words of a jump table -/

/-- the words of an FDB list in the program moved by `D`, from the words `ns` of the original program: an evaluated element
that moves (a label, `label ± N`) holds its value `+ D` modulo `$10000`, every other position keeps its word -/
def movedWords (D : Nat) (ssA : List Stmt) (t : SymTab) : List Str → List Nat → List Nat
  | x :: xs, n :: ns =>
    (if pendingAt 4 x && elemMovesB t x then (match elemVal ssA t x with | some z => (z + D) % 65536 | none => n) else n)
      :: movedWords D ssA t xs ns
  | _, _ => []

/-- `movedDigits` on the digits of words are the digits of `movedWords` -/
theorem movedDigits_words (D : Nat) (ssA : List Stmt) (t : SymTab) : ∀ (xs : List Str) (ns : List Nat),
    movedDigits D ssA t 4 xs (ns.map wordHex) = (movedWords D ssA t xs ns).map wordHex := by
  intro xs
  induction xs with
  | nil => intro ns; rw [movedDigits_nil_left]; unfold movedWords; rfl
  | cons x xs ih =>
    intro ns
    cases ns with
    | nil => rw [List.map_nil, movedDigits_nil_right]; unfold movedWords; rfl
    | cons n ns =>
      rw [List.map_cons, movedDigits_cons, ih ns, movedWords, List.map_cons]
      congr 1
      unfold movedElem
      cases pendingAt 4 x with
      | false => rfl
      | true =>
        cases elemMovesB t x with
        | false => rfl
        | true =>
          simp only [if_true, Bool.and_self]
          cases elemVal ssA t x with
          | none => rfl
          | some z =>
            dsimp only
            rw [fmtHex_word (Nat.mod_lt _ (by decide))]
            rfl

theorem movedWords_lt (D : Nat) (ssA : List Stmt) (t : SymTab) : ∀ (xs : List Str) (ns : List Nat),
    (∀ n ∈ ns, n < 65536) → ∀ n ∈ movedWords D ssA t xs ns, n < 65536 := by
  intro xs
  induction xs with
  | nil => intro ns _ n hn; unfold movedWords at hn; cases hn
  | cons x xs ih =>
    intro ns hns n hn
    cases ns with
    | nil => unfold movedWords at hn; cases hn
    | cons n0 ns =>
      rw [movedWords, List.mem_cons] at hn
      rcases hn with rfl | hn
      · have h0 := hns n0 (by simp)
        split
        · split
          · exact Nat.mod_lt _ (by decide)
          · exact h0
        · exact h0
      · exact ih ns (fun m hm => hns m (by simp [hm])) n hn

/-- the bytes of the moved jump table: the big-endian bytes of `movedWords` -/
theorem emitValue_movedWords (D : Nat) (ssA : List Stmt) (t : SymTab) (xs : List Str) (ns : List Nat)
    (hns : ∀ n ∈ ns, n < 65536) :
    emitValue (.multiWord (movedDigits D ssA t 4 xs (ns.map wordHex))) = some (wordBytes (movedWords D ssA t xs ns)) := by
  rw [movedDigits_words, emitValue_multiWord _ (movedWords_lt D ssA t xs ns hns)]

/-! ### executable checks (for evaluated samples) -/

/-- `AddrShiftAny`, executable -/
def addrShiftAnyB (D : Nat) (s s' : Stmt) : Bool :=
  s'.pkg.size == s.pkg.size &&
  (match s.pkg.address, s'.pkg.address with
   | .numeric a _ _ false, .numeric b _ _ false => b == a + D && decide (a + D < 65536)
   | _, _ => false)

theorem addrShiftAnyB_sound {D : Nat} {s s' : Stmt} (h : addrShiftAnyB D s s' = true) : AddrShiftAny D s s' := by
  unfold addrShiftAnyB at h
  rw [Bool.and_eq_true] at h
  obtain ⟨h1, h2⟩ := h
  refine ⟨by simpa using h1, ?_⟩
  split at h2
  · rename_i a hh mm b hh' mm' e1 e2
    rw [Bool.and_eq_true] at h2
    obtain ⟨h3, h4⟩ := h2
    have h3 : b = a + D := by simpa using h3
    subst h3
    exact ⟨a, hh, mm, hh', mm', e1, e2, by simpa using h4⟩
  · cases h2

/-- `PW`, executable -/
def pwB (f : Stmt → Stmt → Bool) : List Stmt → List Stmt → Bool
  | [], [] => true
  | a :: l, b :: l' => f a b && pwB f l l'
  | _, _ => false

theorem pwB_sound {f : Stmt → Stmt → Bool} {R : Stmt → Stmt → Prop} (hf : ∀ a b, f a b = true → R a b) :
    ∀ (l l' : List Stmt), pwB f l l' = true → PW R l l' := by
  intro l
  induction l with
  | nil =>
    intro l' h
    cases l' with
    | nil => exact .nil
    | cons b l' => unfold pwB at h; cases h
  | cons a l ih =>
    intro l' h
    cases l' with
    | nil => unfold pwB at h; cases h
    | cons b l' =>
      rw [pwB, Bool.and_eq_true] at h
      exact .cons (hf a b h.1) (ih l' h.2)

/-- `ElemCovered` for the two simplest classes, executable: the element is rejected, resolves to no label and no label
expression, or resolves to a plain label -/
def elemCoveredB (t : SymTab) (x : Str) : Bool :=
  match create 4 x false false true with
  | .ok v => (match v.resolve t with | .ok r => (!r.isAddress && !r.isAddrExpr) || r.isAddress | .error _ => true)
  | .error _ => true

theorem elemCoveredB_sound {D : Nat} {ssA : List Stmt} {t : SymTab} {x : Str} (h : elemCoveredB t x = true) :
    ElemCovered D ssA t x := by
  intro v r hv hr
  unfold elemCoveredB at h
  rw [hv] at h
  dsimp only at h
  rw [hr] at h
  dsimp only at h
  cases hA : r.isAddress with
  | true => exact .inr (.inl hA)
  | false =>
    rw [hA] at h
    exact .inl ⟨hA, by simpa using h⟩

end CoCo.Asm
