/-
Lemmas/DiskFat.lean — the allocation loop, free-granule counting, write_to_fat, the spec's chain walk
on an encoded chain, and the directory-slot search.
-/
import CoCoVerif.Lemmas.DiskBytes
namespace CoCo.Dsk
open CoCo Spec.DiskBasic

/-! ### single-byte reads -/
theorem fatAt_eq_get {b : Bytes} {g : Nat} (hb : b.length = 161280) (hg : g < 68) :
    b[FAT + g]? = some (fatAt b g) := by
  unfold fatAt fatOff; rw [FAT_eq]; exact getElem?_eq_getD (by omega)

theorem fatAt_congr {b b' : Bytes} {g : Nat} (h : b'[FAT + g]? = b[FAT + g]?) : fatAt b' g = fatAt b g := by
  unfold fatAt fatOff; rw [FAT_eq] at h; exact getD_congr h

theorem fatAt_splice_same {b : Bytes} {g v : Nat} (hb : b.length = 161280) (hg : g < 68) :
    fatAt (splice b (FAT + g) [v]) g = v := by
  unfold fatAt fatOff
  rw [FAT_eq]
  have h := splice_get (b := b) (p := 78592 + g) (xs := [v]) (by simp; omega) (78592 + g)
  simp [List.getD_eq_getElem?_getD, h]

theorem fatAt_splice_other {b : Bytes} {g x v : Nat} (hb : b.length = 161280) (hg : g < 68) (hx : x ≠ g) :
    fatAt (splice b (FAT + g) [v]) x = fatAt b x := by
  apply fatAt_congr
  apply splice_frame (by rw [FAT_eq]; simp; omega)
  simp; omega

/-! ### allocation -/
theorem granuleInUse_eq {b : Bytes} {g : Nat} (hb : b.length = 161280) (hg : g < 68) :
    granuleInUse b g = .ok (fatAt b g != 0xFF) := by
  unfold granuleInUse
  have : ¬ g > 67 := by omega
  simp only [this, if_false, fatAt_eq_get hb hg]

theorem findEmptyIn_eq {b : Bytes} (hb : b.length = 161280) (l : List Nat) (hl : ∀ g ∈ l, g < 68) :
    findEmptyIn b l = match l.find? (fun g => fatAt b g == 0xFF) with | some g => .ok g | none => .diag := by
  induction l with
  | nil => rfl
  | cons g l ih =>
    have hg := hl g List.mem_cons_self
    rw [findEmptyIn, granuleInUse_eq hb hg, List.find?_cons]
    by_cases h : fatAt b g = 0xFF
    · have h1 : (fatAt b g != 255) = false := by simp [h]
      have h2 : (fatAt b g == 255) = true := by simp [h]
      simp only [h1, h2]
    · have h1 : (fatAt b g != 255) = true := by simp [h]
      have h2 : (fatAt b g == 255) = false := by simp [h]
      simp only [h1, h2]
      exact ih (fun x hx => hl x (List.mem_cons_of_mem _ hx))


theorem findEmptyGranule_ok {b : Bytes} {order : List Nat} {g : Nat} (hb : b.length = 161280)
    (ho : ∀ g ∈ order, g < 68) (h : findEmptyGranule b order = .ok g) :
    g ∈ order ∧ g < 68 ∧ fatAt b g = 0xFF := by
  unfold findEmptyGranule at h
  split at h
  · cases h
  · rw [findEmptyIn_eq hb order ho] at h
    split at h
    · rename_i g' hf
      cases h
      have h1 := List.find?_some hf
      have h2 := List.mem_of_find?_eq_some hf
      exact ⟨h2, ho _ h2, by simpa using h1⟩
    · cases h

theorem findEmptyGranule_cases {b : Bytes} {order : List Nat} (hb : b.length = 161280)
    (ho : ∀ g ∈ order, g < 68) :
    (∃ g, findEmptyGranule b order = .ok g) ∨ findEmptyGranule b order = .diag := by
  unfold findEmptyGranule
  split
  · right; rfl
  · rw [findEmptyIn_eq hb order ho]
    split
    · left; exact ⟨_, rfl⟩
    · right; rfl

theorem findEmptyGranule_none {b : Bytes} {order : List Nat} (hb : b.length = 161280)
    (ho : ∀ g ∈ order, g < 68) (hn : ∀ g, g < 68 → fatAt b g ≠ 0xFF) :
    findEmptyGranule b order = .diag := by
  rcases findEmptyGranule_cases hb ho with ⟨g, hg⟩ | h
  · have := findEmptyGranule_ok hb ho hg
    exact absurd this.2.2 (hn g this.2.1)
  · exact h

theorem complete_length : ∀ (n : Nat) (l : List Nat), (∀ g, g < n → g ∈ l) → n ≤ l.length := by
  intro n
  induction n with
  | zero => intro l _; omega
  | succ n ih =>
    intro l h
    have hn : n ∈ l := h n (by omega)
    have := ih (l.erase n) (fun g hg => (List.mem_erase_of_ne (by omega)).mpr (h g (by omega)))
    rw [List.length_erase_of_mem hn] at this
    have : 0 < l.length := List.length_pos_of_mem hn
    omega

theorem findEmptyGranule_some {b : Bytes} {order : List Nat} (hb : b.length = 161280)
    (ho : ∀ g ∈ order, g < 68) (hc : ∀ g, g < 68 → g ∈ order) {g0 : Nat} (hg0 : g0 < 68)
    (hfree : fatAt b g0 = 0xFF) : ∃ g, findEmptyGranule b order = .ok g := by
  unfold findEmptyGranule
  have := complete_length 68 order hc
  have hl : ¬ order.length < Gen.totalGranules := by rw [totalGranules_eq]; omega
  simp only [hl, if_false]
  rw [findEmptyIn_eq hb order ho]
  cases hf : order.find? (fun g => fatAt b g == 0xFF) with
  | some g => exact ⟨g, rfl⟩
  | none =>
    have := List.find?_eq_none.mp hf g0 (hc g0 hg0)
    simp [hfree] at this

/-! ### counting free granules -/
theorem filter_length_flip {l : List Nat} (hnd : l.Nodup) {p q : Nat → Bool} {g0 : Nat} (hmem : g0 ∈ l)
    (hp : p g0 = true) (hq : q g0 = false) (h : ∀ x, x ≠ g0 → q x = p x) :
    (l.filter q).length + 1 = (l.filter p).length := by
  induction l with
  | nil => cases hmem
  | cons a l ih =>
    obtain ⟨ha, hnd'⟩ := List.nodup_cons.mp hnd
    by_cases e : a = g0
    · subst e
      have : l.filter q = l.filter p := by
        apply List.filter_congr
        intro x hx
        exact h x (fun e => ha (e ▸ hx))
      simp [hp, hq, this]
    · have hm : g0 ∈ l := by
        rcases List.mem_cons.mp hmem with e' | hm
        · exact absurd e'.symm e
        · exact hm
      have := ih hnd' hm
      rw [List.filter_cons, List.filter_cons, h a e]
      split
      · simp; omega
      · exact this

theorem freeGranules_mark {b : Bytes} {g v : Nat} (hb : b.length = 161280) (hg : g < 68)
    (hfree : fatAt b g = 0xFF) (hv : v ≠ 0xFF) :
    freeGranules (splice b (FAT + g) [v]) + 1 = freeGranules b := by
  unfold freeGranules
  apply filter_length_flip List.nodup_range (g0 := g) (by simp; omega)
  · simp [hfree]
  · rw [fatAt_splice_same hb hg]; simp [hv]
  · intro x hx; rw [fatAt_splice_other hb hg hx]

theorem freeGranules_pos {b : Bytes} {g : Nat} (hg : g < 68) (hfree : fatAt b g = 0xFF) :
    0 < freeGranules b := by
  unfold freeGranules
  apply List.length_pos_of_mem (a := g)
  simp [hfree, hg]

theorem freeGranules_zero {b : Bytes} (h : freeGranules b = 0) : ∀ g, g < 68 → fatAt b g ≠ 0xFF := by
  intro g hg hfree
  have := freeGranules_pos hg hfree
  omega

/-! ### the allocation loop -/
theorem alloc_spec {order : List Nat} (ho : ∀ g ∈ order, g < 68) :
    ∀ (n : Nat) (b : Bytes) (gs : List Nat) (b1 : Bytes), b.length = 161280 →
    alloc order n b = .ok (gs, b1) →
    gs.length = n ∧ gs.Nodup ∧ (∀ g ∈ gs, g < 68 ∧ fatAt b g = 0xFF) ∧ b1.length = 161280 ∧
    (∀ i, (∀ g ∈ gs, i ≠ FAT + g) → b1[i]? = b[i]?) ∧ (∀ g ∈ gs, fatAt b1 g = 0x99) ∧
    freeGranules b1 + n = freeGranules b := by
  intro n
  induction n with
  | zero =>
    intro b gs b1 hb h
    simp only [alloc] at h
    cases h
    simp [hb]
  | succ n ih =>
    intro b gs b1 hb h
    rw [alloc] at h
    split at h
    · rename_i g hg
      obtain ⟨hmem, hlt, hfree⟩ := findEmptyGranule_ok hb ho hg
      have hin : FAT + g + [0x99].length ≤ b.length := by rw [FAT_eq, hb]; simp; omega
      rw [writeBytes_eq hin] at h
      simp only [] at h
      have hb' : (splice b (FAT + g) [0x99]).length = 161280 := by rw [splice_length hin, hb]
      split at h
      · rename_i gs0 b0 hrec
        cases h
        obtain ⟨hlen, hnd, hall, hl, hframe, hmark, hcnt⟩ := ih _ _ _ hb' hrec
        have hg_notin : g ∉ gs0 := by
          intro hin'
          have := (hall g hin').2
          rw [fatAt_splice_same hb hlt] at this
          cases this
        refine ⟨by simp [hlen], List.nodup_cons.mpr ⟨hg_notin, hnd⟩, ?_, hl, ?_, ?_, ?_⟩
        · intro x hx
          rcases List.mem_cons.mp hx with rfl | hx
          · exact ⟨hlt, hfree⟩
          · have := hall x hx
            refine ⟨this.1, ?_⟩
            have hne : x ≠ g := fun e => hg_notin (e ▸ hx)
            rw [← fatAt_splice_other hb hlt hne]; exact this.2
        · intro i hi
          rw [hframe i (fun x hx => hi x (List.mem_cons_of_mem _ hx))]
          apply splice_frame hin
          have := hi g List.mem_cons_self
          simp; omega
        · intro x hx
          rcases List.mem_cons.mp hx with rfl | hx
          · have e1 : fatAt b1 x = fatAt (splice b (FAT + x) [0x99]) x := by
              apply fatAt_congr
              apply hframe
              intro y hy e
              have : x = y := by omega
              exact hg_notin (this ▸ hy)
            rw [e1, fatAt_splice_same hb hlt]
          · exact hmark x hx
        · have := freeGranules_mark (v := 0x99) hb hlt hfree (by decide)
          omega
      all_goals cases h
    all_goals cases h

theorem alloc_cases {order : List Nat} (ho : ∀ g ∈ order, g < 68) :
    ∀ (n : Nat) (b : Bytes), b.length = 161280 →
    (∃ gs b1, alloc order n b = .ok (gs, b1)) ∨ alloc order n b = .diag := by
  intro n
  induction n with
  | zero => intro b _; left; exact ⟨[], b, rfl⟩
  | succ n ih =>
    intro b hb
    rw [alloc]
    rcases findEmptyGranule_cases hb ho with ⟨g, hg⟩ | hd
    · obtain ⟨_, hlt, _⟩ := findEmptyGranule_ok hb ho hg
      have hin : FAT + g + [0x99].length ≤ b.length := by rw [FAT_eq, hb]; simp; omega
      rw [hg]; simp only []
      rw [writeBytes_eq hin]; simp only []
      rcases ih (splice b (FAT + g) [0x99]) (by rw [splice_length hin, hb]) with ⟨gs, b1, h⟩ | h
      · left; rw [h]; exact ⟨_, _, rfl⟩
      · right; rw [h]
    · right; rw [hd]

theorem alloc_total {order : List Nat} (ho : ∀ g ∈ order, g < 68) (hc : ∀ g, g < 68 → g ∈ order) :
    ∀ (n : Nat) (b : Bytes), b.length = 161280 → n ≤ freeGranules b →
    ∃ gs b1, alloc order n b = .ok (gs, b1) := by
  intro n
  induction n with
  | zero => intro b _ _; exact ⟨[], b, rfl⟩
  | succ n ih =>
    intro b hb hn
    rw [alloc]
    have : ∃ g0, g0 < 68 ∧ fatAt b g0 = 0xFF := by
      apply Classical.byContradiction
      intro hne
      have : freeGranules b = 0 := by
        unfold freeGranules
        rw [List.length_eq_zero_iff, List.filter_eq_nil_iff]
        intro g hg hfree
        exact hne ⟨g, by simpa using hg, by simpa using hfree⟩
      omega
    obtain ⟨g0, hg0, hfree0⟩ := this
    obtain ⟨g, hg⟩ := findEmptyGranule_some hb ho hc hg0 hfree0
    obtain ⟨_, hlt, hfree⟩ := findEmptyGranule_ok hb ho hg
    have hin : FAT + g + [0x99].length ≤ b.length := by rw [FAT_eq, hb]; simp; omega
    rw [hg]; simp only []
    rw [writeBytes_eq hin]; simp only []
    have := freeGranules_mark (v := 0x99) hb hlt hfree (by decide)
    obtain ⟨gs, b1, h⟩ := ih (splice b (FAT + g) [0x99]) (by rw [splice_length hin, hb]) (by omega)
    rw [h]; exact ⟨_, _, rfl⟩

theorem alloc_short {order : List Nat} (ho : ∀ g ∈ order, g < 68) :
    ∀ (n : Nat) (b : Bytes), b.length = 161280 → freeGranules b < n → alloc order n b = .diag := by
  intro n b hb hn
  rcases alloc_cases ho n b hb with ⟨gs, b1, h⟩ | h
  · have := (alloc_spec ho n b gs b1 hb h).2.2.2.2.2.2
    omega
  · exact h


/-! ### write_to_fat -/
def fatT (b : Bytes) : List Nat → Nat → Bytes
  | [], _ => b
  | [g], s => splice b (FAT + g) [0xC0 + s]
  | g :: g' :: rest, s => fatT (splice b (FAT + g) [g']) (g' :: rest) s

/-- what the table says about a chain -/
def Encodes (b : Bytes) : List Nat → Nat → Prop
  | [], _ => True
  | [g], s => fatAt b g = 0xC0 + s
  | g :: g' :: rest, s => fatAt b g = g' ∧ Encodes b (g' :: rest) s

theorem fat_in {b : Bytes} {g v : Nat} (hb : b.length = 161280) (hg : g < 68) :
    FAT + g + [v].length ≤ b.length := by rw [FAT_eq, hb]; simp; omega

theorem fatT_length (gs : List Nat) : ∀ (b : Bytes) (s : Nat), b.length = 161280 → (∀ g ∈ gs, g < 68) →
    (fatT b gs s).length = 161280 := by
  induction gs with
  | nil => intro b s hb _; exact hb
  | cons g gs ih =>
    intro b s hb hlt
    have hg := hlt g List.mem_cons_self
    cases gs with
    | nil => simp only [fatT]; rw [splice_length (fat_in hb hg), hb]
    | cons g' rest =>
      simp only [fatT]
      exact ih _ _ (by rw [splice_length (fat_in hb hg), hb]) (fun x hx => hlt x (List.mem_cons_of_mem _ hx))

theorem writeFat_eq (gs : List Nat) : ∀ (b : Bytes) (s : Nat), b.length = 161280 → (∀ g ∈ gs, g < 68) →
    writeFat b gs s = some (fatT b gs s) := by
  induction gs with
  | nil => intro b s _ _; rfl
  | cons g gs ih =>
    intro b s hb hlt
    have hg := hlt g List.mem_cons_self
    cases gs with
    | nil => simp only [writeFat, fatT]; exact writeBytes_eq (fat_in hb hg)
    | cons g' rest =>
      simp only [writeFat, fatT]
      rw [writeBytes_eq (fat_in hb hg)]
      exact ih _ _ (by rw [splice_length (fat_in hb hg), hb]) (fun x hx => hlt x (List.mem_cons_of_mem _ hx))

theorem fatT_frame (gs : List Nat) : ∀ (b : Bytes) (s : Nat), b.length = 161280 → (∀ g ∈ gs, g < 68) →
    ∀ i, (∀ g ∈ gs, i ≠ FAT + g) → (fatT b gs s)[i]? = b[i]? := by
  induction gs with
  | nil => intro b s _ _ i _; rfl
  | cons g gs ih =>
    intro b s hb hlt i hi
    have hg := hlt g List.mem_cons_self
    have hne : i ≠ FAT + g := hi g List.mem_cons_self
    cases gs with
    | nil => simp only [fatT]; apply splice_frame (fat_in hb hg); simp; omega
    | cons g' rest =>
      simp only [fatT]
      rw [ih _ _ (by rw [splice_length (fat_in hb hg), hb]) (fun x hx => hlt x (List.mem_cons_of_mem _ hx)) i
        (fun x hx => hi x (List.mem_cons_of_mem _ hx))]
      apply splice_frame (fat_in hb hg); simp; omega

theorem fatT_fatAt_other {gs : List Nat} {b : Bytes} {s : Nat} (hb : b.length = 161280) (hlt : ∀ g ∈ gs, g < 68)
    {x : Nat} (hx : x ∉ gs) : fatAt (fatT b gs s) x = fatAt b x := by
  apply fatAt_congr
  apply fatT_frame gs b s hb hlt
  intro g hg e
  have : x = g := by omega
  exact hx (this ▸ hg)

theorem fatT_encodes (gs : List Nat) : ∀ (b : Bytes) (s : Nat), b.length = 161280 → (∀ g ∈ gs, g < 68) →
    gs.Nodup → Encodes (fatT b gs s) gs s := by
  induction gs with
  | nil => intro b s _ _ _; trivial
  | cons g gs ih =>
    intro b s hb hlt hnd
    have hg := hlt g List.mem_cons_self
    obtain ⟨hgn, hnd'⟩ := List.nodup_cons.mp hnd
    cases gs with
    | nil => simp only [fatT, Encodes]; exact fatAt_splice_same hb hg
    | cons g' rest =>
      simp only [fatT, Encodes]
      have hb' : (splice b (FAT + g) [g']).length = 161280 := by rw [splice_length (fat_in hb hg), hb]
      have hlt' : ∀ x ∈ g' :: rest, x < 68 := fun x hx => hlt x (List.mem_cons_of_mem _ hx)
      refine ⟨?_, ih _ _ hb' hlt' hnd'⟩
      rw [fatT_fatAt_other hb' hlt' hgn]
      exact fatAt_splice_same hb hg

theorem Encodes_congr {b b' : Bytes} (c : List Nat) (s : Nat) (h : ∀ g ∈ c, fatAt b' g = fatAt b g) :
    Encodes b c s → Encodes b' c s := by
  induction c with
  | nil => intro _; trivial
  | cons g c ih =>
    cases c with
    | nil => simp only [Encodes]; intro e; rw [h g List.mem_cons_self]; exact e
    | cons g' rest =>
      simp only [Encodes]
      intro ⟨e1, e2⟩
      exact ⟨by rw [h g List.mem_cons_self]; exact e1, ih (fun x hx => h x (List.mem_cons_of_mem _ hx)) e2⟩

/-- every entry of an encoded chain is not the free marker -/
theorem Encodes_ne_free {b : Bytes} (c : List Nat) (s : Nat) (hs : s ≤ 9) (hlt : ∀ g ∈ c, g < 68)
    (h : Encodes b c s) : ∀ g ∈ c, fatAt b g ≠ 0xFF := by
  induction c with
  | nil => intro g hg; cases hg
  | cons g c ih =>
    cases c with
    | nil =>
      simp only [Encodes] at h
      intro x hx; simp at hx; subst hx; omega
    | cons g' rest =>
      simp only [Encodes] at h
      intro x hx
      rcases List.mem_cons.mp hx with rfl | hx
      · have := hlt g' (by simp); omega
      · exact ih (fun y hy => hlt y (List.mem_cons_of_mem _ hy)) h.2 x hx

/-- the spec's walk follows an encoded chain -/
theorem walk_encodes (b : Bytes) (gs : List Nat) (s : Nat) (vis : List Nat) (fuel : Nat)
    (hne : gs ≠ []) (henc : Encodes b gs s) (hs : s ≤ 9)
    (hnd : (vis.reverse ++ gs).Nodup) (hlt : ∀ g ∈ gs, g < 68) (hf : gs.length ≤ fuel) :
    walk b fuel (gs.head hne) vis = some (vis.reverse ++ gs, s) := by
  induction gs generalizing vis fuel with
  | nil => exact absurd rfl hne
  | cons g gs ih =>
    cases fuel with
    | zero => simp at hf
    | succ f =>
      have hg : g < 68 := hlt g List.mem_cons_self
      have hgv : g ∉ vis := by
        intro hin
        have := List.nodup_append.mp hnd
        exact this.2.2 g (by simpa using hin) g List.mem_cons_self rfl
      simp only [List.head_cons, walk]
      have h0 : ¬ (g ≥ 68 ∨ g ∈ vis) := by simp [hgv]; omega
      simp only [h0, if_false]
      cases gs with
      | nil =>
        simp only [Encodes] at henc
        simp only [henc]
        have : 0xC0 ≤ 0xC0 + s ∧ 0xC0 + s ≤ 0xC9 := by omega
        simp [this]
      | cons g' rest =>
        simp only [Encodes] at henc
        obtain ⟨h1, h2⟩ := henc
        simp only [h1]
        have hg' : g' < 68 := hlt g' (by simp)
        have hA : ¬ (0xC0 ≤ g' ∧ g' ≤ 0xC9) := by omega
        simp only [hA, if_false]
        have := ih (g :: vis) f (by simp) h2
          (by simpa [List.reverse_cons, List.append_assoc] using hnd)
          (fun x hx => hlt x (List.mem_cons_of_mem _ hx)) (by simp at hf ⊢; omega)
        simpa [List.reverse_cons, List.append_assoc] using this

/-! ### directory slots -/
theorem dirEntry_first (b : Bytes) (k : Nat) : (dirEntry b k).getD 0 0 = b.getD (DIR + 32 * k) 0 := by
  unfold dirEntry dirOff; rw [DIR_eq]
  exact slice_getD b _ 32 0 (by omega)

theorem dirEntryInUse_eq {b : Bytes} {k : Nat} (hb : b.length = 161280) (hk : k < 72) :
    dirEntryInUse b k = .ok (live (dirEntry b k)) := by
  unfold dirEntryInUse live
  rw [dirEntry_first, getElem?_eq_getD (by rw [DIR_eq, hb]; omega)]

theorem findEmptyDirFrom_spec {b : Bytes} (hb : b.length = 161280) (m : Nat)
    (hlive : ∀ k, k < m → live (dirEntry b k) = true) (hfree : m < 72 → live (dirEntry b m) = false) :
    ∀ (n e : Nat), e + n = 72 → e ≤ m → m ≤ 72 →
      findEmptyDirFrom b n e = .ok (if m < 72 then some m else none) := by
  intro n
  induction n with
  | zero =>
    intro e he hem hm
    have : ¬ m < 72 := by omega
    simp [findEmptyDirFrom, this]
  | succ n ih =>
    intro e he hem hm
    rw [findEmptyDirFrom, dirEntryInUse_eq hb (by omega)]
    by_cases h : e = m
    · subst h
      have h72 : e < 72 := by omega
      rw [hfree h72]; simp [h72]
    · rw [hlive e (by omega)]
      exact ih (e + 1) (by omega) (by omega) hm

theorem findEmptyDir_spec {b : Bytes} (hb : b.length = 161280) (m : Nat) (hm : m ≤ 72)
    (hlive : ∀ k, k < m → live (dirEntry b k) = true) (hfree : m < 72 → live (dirEntry b m) = false) :
    findEmptyDir b = .ok (if m < 72 then some m else none) :=
  findEmptyDirFrom_spec hb m hlive hfree 72 0 (by omega) (by omega) hm

end CoCo.Dsk

