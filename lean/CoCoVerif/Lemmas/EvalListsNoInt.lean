/-
Lemmas/EvalListsNoInt.lean — (batch 8) the pass over the FCB / FDB lists raises no internal error on what the back
end hands it: a symbol table whose `.address j` entries have `j` below the number of statements (`SymTab.Good N t`,
Lemmas/NoIntVal.lean) and statements whose addresses are 16-bit magnitudes (the invariants of Lemmas/NoIntFix.lean,
`evalSyms_good`).
-/
import CoCoVerif.Lemmas.NoIntVal
import CoCoVerif.Lemmas.EvalLists

namespace CoCo.Asm
open CoCo

section
variable {N : Nat} {ss : List Stmt} (hlen : ss.length = N) (haddr : ∀ s ∈ ss, s.pkg.address.Good 0)
include hlen haddr

namespace EL

theorem addrIntOf_good {j : Nat} (hj : j < N) : ∃ a, addrIntOf ss j = some a ∧ a ≤ 65535 := by
  have hj' : j < ss.length := by omega
  have hmem : ss[j] ∈ ss := List.getElem_mem hj'
  obtain ⟨k, hk, hkle⟩ := (haddr _ hmem).int_le (Nat.zero_le _)
  refine ⟨k, ?_, hkle⟩
  show ((ss[j]?).map (·.pkg.address)).bind Value.int? = some k
  rw [List.getElem?_eq_getElem hj']
  exact hk

theorem addrOperand_good {v : Value} (hv : v.Good N) :
    addrOperand ss v = .diag ∨ ∃ add, addrOperand ss v = .ok add := by
  obtain ⟨k, hk, hk1, hk2⟩ := hv.int
  unfold addrOperand
  by_cases ha : v.isAddress = true
  · rw [if_pos ha, hk]
    obtain ⟨x, hx, hxle⟩ := addrIntOf_good hlen haddr (hk1 ha)
    dsimp only
    rw [hx]
    exact Or.inr ⟨x, rfl⟩
  · rw [if_neg ha]
    by_cases hn : v.isNumeric = true
    · rw [if_pos hn, hk]
      exact Or.inr ⟨_, rfl⟩
    · rw [if_neg hn]; exact Or.inl rfl

theorem addrOffset_ne_internal {l r : Value} {op : Char} {m : Mode} {ae : Bool} (hl : l.Good N) (hr : r.Good N) :
    addrOffset ss (.expr l r op m ae) ≠ .internal := by
  rw [addrOffset_expr]
  rcases addrOperand_good hlen haddr hl with hd | ⟨a, ha⟩
  · rw [hd]; simp
  rw [ha]
  rcases addrOperand_good hlen haddr hr with hd | ⟨b, hb⟩
  · rw [hd]; simp
  rw [hb]
  exact addrCombine_ne_internal _ _ _

end EL

/-- every list element is harmless: once created and resolved against a good table, a label points at an existing
statement and a label expression is evaluated without internal error -/
theorem elemOK_of_good {t : SymTab} (ht : SymTab.Good N t) (x : Str) : ElemOK ss t x := by
  intro v r hc hr
  have hv : v.Good N := create_good N 4 x _ _ _ v hc
  have hrg : r.Good N := Value.resolve_good ht hv hr
  constructor
  · intro ha
    obtain ⟨k, hk, hk1, _⟩ := hrg.int
    have hk' : k < ss.length := by have := hk1 ha; omega
    exact ⟨k, ss[k].pkg.address, hk, by unfold addrOf; rw [List.getElem?_eq_getElem hk']; rfl⟩
  · intro hae
    cases r with
    | expr l r' op m ae => exact EL.addrOffset_ne_internal hlen haddr hrg.1 hrg.2.1
    | _ => simp [Value.isAddrExpr] at hae

/-- **`evalLists` raises no internal error**: every `.address j` bound in `t` has `j < ss.length`, every statement
address of `ss` is numeric -/
theorem evalLists_ne_internal {t : SymTab} (ht : SymTab.Good N t) (l : List Stmt) : evalLists t ss l ≠ .internal :=
  evalLists_ne_internal' (fun x => elemOK_of_good hlen haddr ht x) l

end

/-- `evalLists` leaves the addresses as they are -/
theorem evalLists_addr_good {t : SymTab} {ss l l' : List Stmt} (h : evalLists t ss l = .ok l')
    (hl : ∀ s ∈ l, s.pkg.address.Good 0) : ∀ s ∈ l', s.pkg.address.Good 0 := by
  intro s' hs'
  obtain ⟨j, hj, rfl⟩ := List.mem_iff_getElem.mp hs'
  obtain ⟨s, h1, h2⟩ := evalLists_get h (List.getElem?_eq_getElem hj)
  obtain ⟨v, hv⟩ := evalList1_same h2
  rw [hv]
  exact hl s (List.mem_of_getElem? h1)

/-- `fixAllL` raises no internal error if `fixAll` raises none and hands on as many statements as the table
counts, with numeric addresses -/
theorem fixAllL_ne_internal {N : Nat} {t : SymTab} {l : List Stmt} (ht : SymTab.Good N t)
    (hni : fixAll l 0 l ≠ .internal)
    (hx : ∀ x, fixAll l 0 l = .ok x → x.length = N ∧ ∀ s ∈ x, s.pkg.address.Good 0) :
    fixAllL t l ≠ .internal := by
  unfold fixAllL
  cases h : fixAll l 0 l with
  | internal => exact absurd h hni
  | ok x => exact evalLists_ne_internal (hx x h).1 (hx x h).2 ht x
  | _ => simp

/-- after `fixAllL`: as many statements as before, addresses as before -/
theorem fixAllL_addr_good {t : SymTab} {l l' : List Stmt} (h : fixAllL t l = .ok l')
    (hl : ∀ x, fixAll l 0 l = .ok x → ∀ s ∈ x, s.pkg.address.Good 0) : ∀ s ∈ l', s.pkg.address.Good 0 := by
  obtain ⟨x, h1, h2⟩ := fixAllL_ok.1 h
  exact evalLists_addr_good h2 (hl x h1)

end CoCo.Asm
