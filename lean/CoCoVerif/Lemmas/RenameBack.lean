/-
Lemmas/RenameBack.lean — C18-R2 (renaming), part 6: what the renamed assembly `rnAssembly ρ a` has in common with `a`:
the bytes of every statement, the image, and — because every statement address of a finished assembly is a number —
the addresses and the origin themselves.
-/
import CoCoVerif.Lemmas.RenameText
import CoCoVerif.Lemmas.SizeValue

namespace CoCo.Asm.Rename
open CoCo
open CoCo.Gen (InstrRow)

variable {ρ : Ren}

/-! ### bytes -/

theorem emitValue_rn (v : Value) : emitValue (rnValue ρ v) = emitValue v := by
  unfold emitValue
  rw [rnValue_hex?, rnValue_hexLen?]

theorem stmtBytes_rn (s : Stmt) : stmtBytes (rnStmt ρ s) = stmtBytes s := by
  unfold stmtBytes
  simp only [rnStmt_pkg, rnPkg_opCode, rnPkg_postByte, rnPkg_additional, emitValue_rn]

theorem image_rn (a : Assembly) : (rnAssembly ρ a).image = a.image := by
  unfold Assembly.image rnAssembly
  dsimp only
  congr 1
  induction a.stmts with
  | nil => rfl
  | cons s rest ih =>
    simp only [List.map_cons, List.mapM_cons, stmtBytes_rn, ih]

/-! ### values without names -/

/-- no symbol and no textual left part inside -/
def nameFree : Value → Bool
  | .symbol _ _ => false
  | .leftRight _ _ _ => false
  | .expr l r _ _ _ => nameFree l && nameFree r
  | _ => true

theorem rnValue_nameFree : ∀ {v : Value}, nameFree v = true → rnValue ρ v = v
  | .symbol _ _, h => by cases h
  | .leftRight _ _ _, h => by cases h
  | .expr l r op m ae, h => by
    simp only [nameFree, Bool.and_eq_true] at h
    simp only [rnValue, rnValue_nameFree h.1, rnValue_nameFree h.2]
  | .none, _ | .pyNone, _ | .numeric _ _ _ _, _ | .address _ _, _ | .str _, _ | .multiByte _, _ | .multiWord _, _ => rfl

theorem nameFree_of_numeric {v : Value} (h : v.isNumeric = true) : nameFree v = true := by
  cases v <;> first | rfl | cases h

/-! ### the stages of `back` -/

/-- the intermediate results of an accepted run of `back` -/
structure BackStages (ss0 : List Stmt) (a : Assembly) where
  t : SymTab
  ss1 : List Stmt
  ss2 : List Stmt
  ss3 : List Stmt
  ss4 : List Stmt
  t1 : SymTab
  hsym : buildSymTab ss0 0 [] = some t
  hresolve : resolveAll t ss0 = some ss1
  htranslate : translateAll ss1 = some ss2
  hpcr : pcrLoop (ss2.length + 1) ss2 = .ok ss3
  horg : orgOK ss3 false = true
  haddr : assignAddrs ss3 0 = .ok ss4
  hfix : fixAllL t ss4 = .ok a.stmts
  heval : evalSyms a.stmts t t = .ok t1
  hfinal : finalSymTab a.stmts t1 = .ok a.symtab
  horigin : a.origin = a.stmts.foldl (fun o s => if s.row.isOrigin then s.pkg.address else o) Value.none

theorem back_stages {ss0 : List Stmt} {a : Assembly} (h : back ss0 = .ok a) : Nonempty (BackStages ss0 a) := by
  unfold back at h
  cases h2 : buildSymTab ss0 0 [] with
  | none => rw [h2] at h; cases h
  | some t =>
    rw [h2] at h; dsimp only at h
    cases h3 : resolveAll t ss0 with
    | none => rw [h3] at h; cases h
    | some ss1 =>
      rw [h3] at h; dsimp only at h
      cases h4 : translateAll ss1 with
      | none => rw [h4] at h; cases h
      | some ss2 =>
        rw [h4] at h; dsimp only at h
        cases h5 : pcrLoop (ss2.length + 1) ss2 with
        | ok ss3 =>
          rw [h5] at h; dsimp only at h
          cases hq : orgOK ss3 false with
          | false => rw [hq] at h; simp at h
          | true =>
          rw [hq] at h
          simp only [Bool.not_true, Bool.false_eq_true, if_false] at h
          cases h6 : assignAddrs ss3 0 with
          | ok ss4 =>
            rw [h6] at h; dsimp only at h
            cases h7 : fixAllL t ss4 with
            | ok ss5 =>
              rw [h7] at h; dsimp only at h
              cases h9 : evalSyms ss5 t t with
              | ok t1 =>
                rw [h9] at h; dsimp only at h
                cases h8 : finalSymTab ss5 t1 with
                | ok t' =>
                  rw [h8] at h; dsimp only at h
                  cases h
                  exact ⟨⟨t, ss1, ss2, ss3, ss4, t1, h2, h3, h4, h5, hq, h6, h7, h9, h8, rfl⟩⟩
                | _ => rw [h8] at h; cases h
              | _ => rw [h9] at h; cases h
            | _ => rw [h7] at h; cases h
          | _ => rw [h6] at h; cases h
        | _ => rw [h5] at h; cases h

/-! ### every address of a finished assembly is a number

(`rb_assignAddrs_all_numeric` and `rb_translatePseudo_org_numeric` are copies of `assignAddrs_all_numeric` and
`translatePseudo_org_numeric` of Lemmas/SizeFix.lean, so that the renaming chain does not depend on the Size* chain.) -/

theorem rb_assignAddrs_all_numeric : ∀ {l : List Stmt} {a : Nat} {l' : List Stmt}, assignAddrs l a = .ok l' →
    (∀ s ∈ l, s.pkg.address = .none ∨ s.pkg.address.isNumeric = true) →
    ∀ s' ∈ l', s'.pkg.address.isNumeric = true := by
  intro l
  induction l with
  | nil => intro a l' h _ s' hs'; simp [assignAddrs] at h; subst h; simp at hs'
  | cons s rest ih =>
    intro a l' h hl s' hs'
    rw [assignAddrs] at h
    split at h
    · cases hv : numV a with
      | error e => rw [hv] at h; cases h
      | ok v =>
        rw [hv] at h
        dsimp only at h
        cases hr : assignAddrs rest (a + s.pkg.size) with
        | ok r2 =>
          rw [hr] at h
          simp only [Outcome.ok.injEq] at h
          subst h
          rcases List.mem_cons.mp hs' with rfl | hs'
          · exact numericOfInt_isNumeric' hv
          · exact ih hr (fun x hx => hl x (by simp [hx])) s' hs'
        | _ => rw [hr] at h; cases h
    · rename_i hnn
      cases hv : s.pkg.address.int? with
      | none => rw [hv] at h; cases h
      | some a' =>
        rw [hv] at h
        dsimp only at h
        cases hr : assignAddrs rest (a' + s.pkg.size) with
        | ok r2 =>
          rw [hr] at h
          simp only [Outcome.ok.injEq] at h
          subst h
          rcases List.mem_cons.mp hs' with rfl | hs'
          · rcases hl s' (by simp) with h' | h'
            · rw [h'] at hnn; simp [Value.isNone] at hnn
            · exact h'
          · exact ih hr (fun x hx => hl x (by simp [hx])) s' hs'
        | _ => rw [hr] at h; cases h

/-- the ORG branch of `translatePseudo`: the preset address is a number -/
theorem rb_translatePseudo_org_numeric {o : Operand} {row : InstrRow} {p : Pkg} (hm : row.mnemonic = "ORG")
    (h : translatePseudo o row = .ok p) : p.address.isNumeric = true := by
  unfold translatePseudo at h
  have e1 : (("ORG" : String) == "FCB") = false := by decide
  have e2 : (("ORG" : String) == "FDB") = false := by decide
  have e3 : (("ORG" : String) == "RMB") = false := by decide
  have e4 : (("ORG" : String) == "ORG") = true := by decide
  simp only [hm, e1, e2, e3, e4, bind, Except.bind, pure, Except.pure, throw, throwThe, MonadExceptOf.throw,
    Bool.false_eq_true, if_false, if_true] at h
  split at h
  · cases h
  · split at h
    · cases h
    · rename_i hcond
      cases h
      have hnum : o.value.isNumeric = true := by
        cases hn : o.value.isNumeric with
        | true => rfl
        | false => simp [hn] at hcond
      exact hnum

theorem translatePseudo_addr {o : Operand} {row : InstrRow} {p : Pkg} (h : translatePseudo o row = .ok p) :
    p.address = .none ∨ p.address.isNumeric = true := by
  by_cases hm : (row.mnemonic == "ORG") = true
  · exact .inr (rb_translatePseudo_org_numeric (by simpa using hm) h)
  · exact .inl (translatePseudo_AN o row (by simpa using hm) p h)

theorem translateOperand_addr {o : Operand} {row : InstrRow} {p : Pkg} (h : translateOperand o row = .ok p) :
    p.address = .none ∨ p.address.isNumeric = true := by
  unfold translateOperand at h
  cases hk : o.kind <;> simp only [hk] at h
  case pseudo => exact translatePseudo_addr h
  case special => exact .inl (translateSpecial_AN o row p h)
  case extIndirect => exact .inl (translateExtIndirect_AN o row p h)
  case indexed => exact .inl (translateIndexed_AN o row p h)
  case unknown => cases h; exact .inl rfl
  all_goals
    simp only [bind, Except.bind, pure, Except.pure, throw, throwThe, MonadExceptOf.throw] at h
    repeat' split at h
    all_goals first | (cases h; done) | (cases h; exact .inl rfl)

theorem back_addr_numeric {ss0 : List Stmt} {a : Assembly} (h : back ss0 = .ok a) :
    ∀ s ∈ a.stmts, s.pkg.address.isNumeric = true := by
  obtain ⟨st⟩ := back_stages h
  have h3 : ∀ s3 ∈ st.ss3, s3.pkg.address = .none ∨ s3.pkg.address.isNumeric = true := by
    intro s3 hs3
    obtain ⟨j, hj⟩ := List.getElem?_of_mem hs3
    obtain ⟨s2, hs2, _, _, _, _, _, e3⟩ := (pcrLoop_pw _ _ st.hpcr).get' hj
    obtain ⟨s1, hs1, p, hp, e2⟩ := (translateAll_pw st.htranslate).get' hs2
    rw [e3, e2]
    exact translateOperand_addr (p := p) hp
  have h4 := rb_assignAddrs_all_numeric st.haddr h3
  intro s hs
  obtain ⟨j, hj⟩ := List.getElem?_of_mem hs
  obtain ⟨s4, hs4, v, e⟩ := (fixAllL_pw st.hfix).get' hj
  rw [e]
  exact h4 s4 (List.mem_of_getElem? hs4)

theorem back_origin_numeric {ss0 : List Stmt} {a : Assembly} (h : back ss0 = .ok a) :
    a.origin = .none ∨ a.origin.isNumeric = true := by
  obtain ⟨st⟩ := back_stages h
  have hn := back_addr_numeric h
  rw [st.horigin]
  generalize a.stmts = l at hn
  have : ∀ (l : List Stmt) (o : Value), (∀ s ∈ l, s.pkg.address.isNumeric = true) →
      (o = .none ∨ o.isNumeric = true) →
      (l.foldl (fun o s => if s.row.isOrigin then s.pkg.address else o) o = .none ∨
        (l.foldl (fun o s => if s.row.isOrigin then s.pkg.address else o) o).isNumeric = true) := by
    intro l
    induction l with
    | nil => intro o _ ho; exact ho
    | cons s rest ih =>
      intro o hl ho
      simp only [List.foldl_cons]
      apply ih _ (fun x hx => hl x (by simp [hx]))
      split
      · exact .inr (hl s (by simp))
      · exact ho
  exact this l _ hn (.inl rfl)

end CoCo.Asm.Rename
