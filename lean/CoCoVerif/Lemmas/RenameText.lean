/-
Lemmas/RenameText.lean — C18-R2 (renaming), part 5: the TEXT of the left part of an indexed operand (`LDA TABLE,X`,
`[L+1,Y]`, `LEAX L,PCR`), which `resolve_symbols` parses again.  `renameLeftText f l` renames the symbols in the shapes
`SimpleLeft` (empty, `A`/`B`/`D`, a symbol, a number, `atom op atom`, or anything that is neither a symbol nor an
expression), and `create` of the renamed text is the renamed `create` of the text (`leftOK_simple`) when the new names
are symbols again (`GoodName`).
-/
import CoCoVerif.Lemmas.RenameLayout
import CoCoVerif.Lemmas.SizeValue
import CoCoVerif.Lemmas.FrontEndLit
import CoCoVerif.Lemmas.FrontScan

namespace CoCo.Asm.Rename
open CoCo
open CoCo.Gen (InstrRow)

/-! ### symbols and literals as text -/

/-- a symbol as `create_from_str` reads it: not empty, made of `[\w@]`, not a string of digits -/
def isSymName (x : Str) : Bool := x != [] && x.all isSym && !x.all isDigit

/-- a decimal literal that fits 16 bits -/
def decLit (x : Str) : Bool := x != [] && x.all isDigit && decide (parseBase 10 x < 65536)

/-- `$` and one to four hex digits -/
def hexLit (x : Str) : Bool :=
  match x with
  | '$' :: hs => hs != [] && hs.all isHexD && decide (hs.length ≤ 4)
  | _ => false

theorem isSym_ne {c : Char} (h : isSym c = true) :
    c ≠ apos ∧ c ≠ '%' ∧ c ≠ '$' ∧ c ≠ '-' ∧ c ≠ ',' ∧ c ≠ '<' ∧ c ≠ '>' ∧ c ≠ '#' := by
  refine ⟨?_, ?_, ?_, ?_, ?_, ?_, ?_, ?_⟩ <;> (rintro rfl; revert h; decide)

theorem isSym_not_op {c : Char} (h : isSym c = true) : opChar c = false := by
  cases ho : opChar c with
  | false => rfl
  | true =>
    simp only [opChar, Bool.or_eq_true, beq_iff_eq] at ho
    rcases ho with ((rfl | rfl) | rfl) | rfl <;> (revert h; decide)

theorem isSymName_iff {x : Str} : isSymName x = true ↔ x ≠ [] ∧ (∀ c ∈ x, isSym c = true) ∧ x.all isDigit = false := by
  unfold isSymName
  rw [Bool.and_eq_true, Bool.and_eq_true, bne_iff_ne, List.all_eq_true, Bool.not_eq_true']
  exact and_assoc

theorem splitExpr_allSym {x : Str} (h : ∀ c ∈ x, isSym c = true) : splitExpr x = none := by
  cases x with
  | nil => rfl
  | cons a t =>
    have ha := h a (by simp)
    have hd : (a == '$') = false := by simpa using (isSym_ne ha).2.2.1
    have h2 : (a :: t).dropWhile (· == '$') = a :: t := by simp [hd]
    have h3 : (a :: t).takeWhile isSym = a :: t := takeWhile_all _ _ h
    have h4 : (a :: t).dropWhile isSym = [] := dropWhile_all _ _ h
    simp only [splitExpr, h2, h3, h4]
    simp

theorem contains_comma_allSym {x : Str} (h : ∀ c ∈ x, isSym c = true) : x.contains ',' = false := by
  cases hc : x.contains ',' with
  | false => rfl
  | true =>
    have : ',' ∈ x := by simpa using hc
    exact absurd rfl (isSym_ne (h _ this)).2.2.2.2.1

theorem numericOfStr_symName {x : Str} (h : isSymName x = true) (hint : Option Nat) (m : Mode) :
    ∃ e, numericOfStr x hint m = .error e := by
  obtain ⟨hne, hall, hnd⟩ := isSymName_iff.mp h
  cases x with
  | nil => exact absurd rfl hne
  | cons a t =>
    have ha := hall a (by simp)
    obtain ⟨h1, h2, h3, h4, _⟩ := isSym_ne ha
    have e1 : (a == apos) = false := by simpa using h1
    unfold numericOfStr
    simp only []
    split
    · rename_i v hc
      split at hc
      · rename_i q c heq
        have : a = q := by injection heq
        subst this
        simp [h1] at hc
      · simp at hc
    · split
      · rename_i heq; injection heq with e _; exact absurd e h2
      · rename_i heq; injection heq with e _; exact absurd e h3
      · rename_i heq; injection heq with e _; exact absurd e h4
      · simp only [hnd, Bool.and_false, Bool.false_eq_true, if_false]
        exact ⟨_, rfl⟩

/-- a symbol name is read as a symbol -/
theorem createBody_symName {x : Str} (h : isSymName x = true) (fuel : Nat) (is16 : Bool) (mode : Mode) :
    createBody fuel is16 mode x = .ok (.symbol x mode) := by
  obtain ⟨hne, hall, hnd⟩ := isSymName_iff.mp h
  obtain ⟨e, he⟩ := numericOfStr_symName h (if is16 then some 4 else none) mode
  have h1 : (x != []) = true := by simpa using hne
  have h2 : x.all isSym = true := List.all_eq_true.mpr hall
  simp only [createBody, splitExpr_allSym hall, contains_comma_allSym hall, he, h1, h2, Bool.and_self,
    Bool.false_eq_true, if_false, if_true]

theorem head_not_prefix_of_sym {c : Char} (h : isSym c = true ∨ c = '$') (rest : Str) (d : Bool) :
    stripPrefix c rest d = (if d then Mode.extended else Mode.none, c :: rest) := by
  have : c ≠ '<' ∧ c ≠ '>' ∧ c ≠ '#' := by
    rcases h with h | rfl
    · exact ⟨(isSym_ne h).2.2.2.2.2.1, (isSym_ne h).2.2.2.2.2.2.1, (isSym_ne h).2.2.2.2.2.2.2⟩
    · decide
  simp [stripPrefix, this.1, this.2.1, this.2.2]

theorem create_symName {x : Str} (h : isSymName x = true) (fuel : Nat) (is16 defExt : Bool) :
    create (fuel + 1) x false is16 defExt = .ok (.symbol x (if defExt then Mode.extended else Mode.none)) := by
  obtain ⟨hne, hall, hnd⟩ := isSymName_iff.mp h
  cases x with
  | nil => exact absurd rfl hne
  | cons c rest =>
    rw [create_succ]
    simp only [Bool.false_and, Bool.false_eq_true, if_false]
    rw [head_not_prefix_of_sym (.inl (hall c (by simp)))]
    exact createBody_symName h _ _ _


/-! ### literals -/

theorem decLit_iff {x : Str} : decLit x = true ↔ IsDecLit x ∧ parseBase 10 x < 65536 := by
  unfold decLit IsDecLit
  rw [Bool.and_eq_true, Bool.and_eq_true, bne_iff_ne, decide_eq_true_iff]

theorem isHexD_isSym {c : Char} (h : isHexD c = true) : isSym c = true := by
  simp [isSym, isHexD_isWord h]

theorem numericOfStr_hexLit {hs : Str} (h1 : hs ≠ []) (h2 : hs.all isHexD = true) (h3 : hs.length ≤ 4)
    (hint : Option Nat) (m : Mode) : ∃ v, numericOfStr ('$' :: hs) hint m = .ok v := by
  have hne : (hs != []) = true := by simpa using h1
  have hl : ¬ hs.length > 4 := by omega
  unfold numericOfStr
  simp only []
  split
  · exact ⟨_, rfl⟩
  · simp only [hne, h2, Bool.and_self, if_true, hl, if_false]
    exact ⟨_, rfl⟩

/-- a literal atom: `create` succeeds on it and gives a number -/
theorem createBody_lit {x : Str} (h : decLit x = true ∨ hexLit x = true) (fuel : Nat) (is16 : Bool) (mode : Mode) :
    ∃ v, createBody fuel is16 mode x = .ok v ∧ v.isNumeric = true := by
  have key : splitExpr x = none ∧ x.contains ',' = false ∧
      ∃ v, numericOfStr x (if is16 then some 4 else none) mode = .ok v := by
    rcases h with h | h
    · obtain ⟨hd, hv⟩ := decLit_iff.mp h
      have hall : ∀ c ∈ x, isSym c = true := fun c hc => isDigit_isSym (List.all_eq_true.mp hd.2 c hc)
      exact ⟨splitExpr_dec hd, contains_comma_allSym hall, _, numericOfStr_dec hd _ _ hv⟩
    · unfold hexLit at h
      split at h
      · rename_i hs
        simp only [Bool.and_eq_true, bne_iff_ne, decide_eq_true_iff] at h
        obtain ⟨⟨h1, h2⟩, h3⟩ := h
        have hw : ∀ c ∈ hs, isWord c = true := fun c hc => isHexD_isWord (List.all_eq_true.mp h2 c hc)
        refine ⟨splitExpr_dollar_word hs hw, ?_, numericOfStr_hexLit h1 h2 h3 _ _⟩
        cases hc : ('$' :: hs).contains ',' with
        | false => rfl
        | true =>
          have : ',' ∈ '$' :: hs := by simpa using hc
          rcases List.mem_cons.mp this with h | h
          · cases h
          · exact absurd rfl (isWord_ne_comma (hw _ h))
      · cases h
  obtain ⟨hs, hc, v, hv⟩ := key
  refine ⟨v, ?_, numericOfStr_isNumeric'' hv⟩
  simp only [createBody, hs, hc, hv, Bool.false_eq_true, if_false]

theorem lit_head {x : Str} (h : decLit x = true ∨ hexLit x = true) :
    ∃ c rest, x = c :: rest ∧ (isSym c = true ∨ c = '$') := by
  rcases h with h | h
  · obtain ⟨hd, _⟩ := decLit_iff.mp h
    cases x with
    | nil => exact absurd rfl hd.1
    | cons c rest => exact ⟨c, rest, rfl, .inl (isDigit_isSym (List.all_eq_true.mp hd.2 c (by simp)))⟩
  · unfold hexLit at h
    split at h
    · exact ⟨_, _, rfl, .inr rfl⟩
    · cases h

theorem create_lit {x : Str} (h : decLit x = true ∨ hexLit x = true) (fuel : Nat) (is16 defExt : Bool) :
    ∃ v, create (fuel + 1) x false is16 defExt = .ok v ∧ v.isNumeric = true := by
  obtain ⟨c, rest, rfl, hc⟩ := lit_head h
  rw [create_succ]
  simp only [Bool.false_and, Bool.false_eq_true, if_false]
  rw [head_not_prefix_of_sym hc]
  exact createBody_lit h _ _ _

/-! ### expressions -/

theorem splitExpr_sound {l a b : Str} {op : Char} (h : splitExpr l = some (a, op, b)) :
    l = a ++ op :: b ∧ opChar op = true := by
  unfold splitExpr at h
  simp only [] at h
  split at h
  · cases h
  · split at h
    · rename_i op' r3 hr2
      split at h
      · rename_i hop
        split at h
        · simp only [Option.some.injEq, Prod.mk.injEq] at h
          obtain ⟨rfl, rfl, rfl⟩ := h
          refine ⟨?_, hop⟩
          have e1 := List.takeWhile_append_dropWhile (p := (· == '$')) (l := l)
          have e2 := List.takeWhile_append_dropWhile (p := isSym) (l := l.dropWhile (· == '$'))
          have e3 := List.takeWhile_append_dropWhile (p := (· == '$')) (l := r3)
          rw [hr2] at e2
          calc l = l.takeWhile (· == '$') ++ l.dropWhile (· == '$') := e1.symm
            _ = l.takeWhile (· == '$') ++ ((l.dropWhile (· == '$')).takeWhile isSym ++ op' :: r3) := by rw [e2]
            _ = _ := by rw [← e3]; simp
        · cases h
      · cases h
    · cases h

/-- an operand of EXPRESSION_REGEX: dollars, then at least one `[\w@]` -/
def AtomShape (a : Str) : Prop :=
  ∃ d w, a = d ++ w ∧ (∀ c ∈ d, (c == '$') = true) ∧ w ≠ [] ∧ (∀ c ∈ w, isSym c = true)

theorem isSym_not_dollar {c : Char} (h : isSym c = true) : (c == '$') = false := by
  simpa using (isSym_ne h).2.2.1

theorem splitExpr_atoms {a b : Str} {op : Char} (ha : AtomShape a) (hb : AtomShape b) (hop : opChar op = true) :
    splitExpr (a ++ op :: b) = some (a, op, b) := by
  obtain ⟨d1, w1, rfl, hd1, hw1, hs1⟩ := ha
  obtain ⟨d2, w2, rfl, hd2, hw2, hs2⟩ := hb
  have hopd : (op == '$') = false := by
    cases h : op == '$' with
    | false => rfl
    | true => have : op = '$' := by simpa using h
              subst this; revert hop; decide
  have hops : isSym op = false := by
    cases h : isSym op with
    | false => rfl
    | true => rw [isSym_not_op h] at hop; cases hop
  have st1 : Stops (· == '$') (w1 ++ op :: (d2 ++ w2)) :=
    stops_of_all hw1 hs1 (fun x hx => isSym_not_dollar hx)
  have e1 : (d1 ++ w1 ++ op :: (d2 ++ w2)).takeWhile (· == '$') = d1 := by
    rw [List.append_assoc]; exact takeWhile_all_stops hd1 st1
  have e2 : (d1 ++ w1 ++ op :: (d2 ++ w2)).dropWhile (· == '$') = w1 ++ op :: (d2 ++ w2) := by
    rw [List.append_assoc]; exact dropWhile_all_stops hd1 st1
  have st2 : Stops isSym (op :: (d2 ++ w2)) := stops_cons hops
  have e3 : (w1 ++ op :: (d2 ++ w2)).takeWhile isSym = w1 := takeWhile_all_stops hs1 st2
  have e4 : (w1 ++ op :: (d2 ++ w2)).dropWhile isSym = op :: (d2 ++ w2) := dropWhile_all_stops hs1 st2
  have st3 : Stops (· == '$') w2 := by
    cases w2 with
    | nil => exact absurd rfl hw2
    | cons x xs => exact stops_cons (isSym_not_dollar (hs2 x (by simp)))
  have e5 : (d2 ++ w2).takeWhile (· == '$') = d2 := takeWhile_all_stops hd2 st3
  have e6 : (d2 ++ w2).dropWhile (· == '$') = w2 := dropWhile_all_stops hd2 st3
  have hw1' : (w1 == []) = false := by cases w1 <;> simp_all
  have hw2' : (w2 != []) = true := by cases w2 <;> simp_all
  have hs2' : w2.all isSym = true := List.all_eq_true.mpr hs2
  simp only [splitExpr, e1, e2, e3, e4, e5, e6, hw1', hop, hw2', hs2', Bool.false_eq_true, if_false, if_true,
    Bool.and_self]

theorem atomShape_symName {x : Str} (h : isSymName x = true) : AtomShape x := by
  obtain ⟨hne, hall, _⟩ := isSymName_iff.mp h
  exact ⟨[], x, rfl, by simp, hne, hall⟩

theorem atomShape_lit {x : Str} (h : decLit x = true ∨ hexLit x = true) : AtomShape x := by
  rcases h with h | h
  · obtain ⟨hd, _⟩ := decLit_iff.mp h
    exact ⟨[], x, rfl, by simp, hd.1, fun c hc => isDigit_isSym (List.all_eq_true.mp hd.2 c hc)⟩
  · unfold hexLit at h
    split at h
    · rename_i hs
      simp only [Bool.and_eq_true, bne_iff_ne, decide_eq_true_iff] at h
      exact ⟨['$'], hs, rfl, by simp, h.1.1, fun c hc => isHexD_isSym (List.all_eq_true.mp h.1.2 c hc)⟩
    · cases h

theorem createBody_expr {value a b : Str} {op : Char} {fuel : Nat} {lv rv : Value} (hs : splitExpr value = some (a, op, b))
    (ha : create fuel a false false false = .ok lv) (hb : create fuel b false false false = .ok rv) (is16 : Bool)
    (mode : Mode) :
    createBody fuel is16 mode value
      = .ok (.expr lv rv op (if mode == .none && (lv.isExtendedLike || rv.isExtendedLike) then Mode.extended else mode)
          false) := by
  simp only [createBody, hs, ha, hb]


/-! ### renaming the text -/

def rnAtom (f : Str → Str) (a : Str) : Str := if isSymName a then f a else a

/-- the left part of an indexed operand with its symbols renamed: an accumulator name stays, a symbol is renamed, the
two operands of an expression are renamed, everything else (numbers) stays -/
def renameLeftText (f : Str → Str) (l : Str) : Str :=
  if isABD l then l
  else if isSymName l then f l
  else match splitExpr l with
    | some (a, op, b) => rnAtom f a ++ op :: rnAtom f b
    | none => l

def atomOK (a : Str) : Bool := isSymName a || decLit a || hexLit a

/-- neither a symbol nor an expression nor a `left,right` pair, and no mode prefix: a number in some notation, or
nothing the assembler accepts -/
def plainOther (l : Str) : Bool :=
  !(l.contains ',') && !(l.all isSym) &&
    (match l with | c :: _ => c != '<' && c != '>' && c != '#' | [] => true)

/-- the shapes of a left part on which `renameLeftText` is proved right -/
def SimpleLeft (l : Str) : Bool :=
  l == [] || isABD l || isSymName l || decLit l ||
  (match splitExpr l with
   | some (a, _, b) => atomOK a && atomOK b
   | none => plainOther l)

/-- the symbols in a left part -/
def leftNames (l : Str) : List Str :=
  if isABD l then []
  else if isSymName l then [l]
  else match splitExpr l with
    | some (a, _, b) => (if isSymName a then [a] else []) ++ (if isSymName b then [b] else [])
    | none => []

/-- the new name `y` of `x` is a symbol, and it is not an accumulator name unless the old one was -/
def GoodName (x y : Str) : Prop := isSymName y = true ∧ (isABD x = false → isABD y = false)

theorem isABD_length {x : Str} (h : isABD x = true) : x.length = 1 := by
  simp only [isABD, Bool.or_eq_true, beq_iff_eq] at h
  rcases h with (rfl | rfl) | rfl <;> rfl

theorem atomShape_atomOK {a : Str} (h : atomOK a = true) : AtomShape a := by
  simp only [atomOK, Bool.or_eq_true] at h
  rcases h with (h | h) | h
  · exact atomShape_symName h
  · exact atomShape_lit (.inl h)
  · exact atomShape_lit (.inr h)

theorem atomShape_ne_nil {a : Str} (h : AtomShape a) : a ≠ [] := by
  obtain ⟨d, w, rfl, _, hw, _⟩ := h
  intro hc
  exact hw (List.append_eq_nil_iff.mp hc).2

/-- the two operands of a simple left part that is an expression -/
theorem simpleLeft_expr {l a b : Str} {op : Char} (hs : SimpleLeft l = true) (habd : isABD l = false)
    (hsym : isSymName l = false) (hsp : splitExpr l = some (a, op, b)) : atomOK a = true ∧ atomOK b = true := by
  simp only [SimpleLeft, habd, hsym, hsp, Bool.or_false, Bool.or_eq_true, beq_iff_eq, Bool.and_eq_true] at hs
  rcases hs with (h | h) | h
  · subst h; cases hsp
  · have := splitExpr_dec (decLit_iff.mp h).1
    rw [this] at hsp; cases hsp
  · exact h

section
variable (f : Str → Str) (R : Ren)

/-- one operand of an expression -/
theorem create_atom (hR : R.sym = f) {a : Str} (ha : atomOK a = true) (hg : isSymName a = true → isSymName (f a) = true)
    (fuel : Nat) :
    (∃ v, create (fuel + 1) a false false false = .ok v) ∧
    create (fuel + 1) (rnAtom f a) false false false = (create (fuel + 1) a false false false).map (rnValue R) ∧
    AtomShape (rnAtom f a) ∧
    (∀ v, create (fuel + 1) a false false false = .ok v → valSyms v = if isSymName a then [a] else []) := by
  by_cases hs : isSymName a = true
  · have e : rnAtom f a = f a := by simp [rnAtom, hs]
    rw [e, create_symName hs, create_symName (hg hs)]
    refine ⟨⟨_, rfl⟩, ?_, atomShape_symName (hg hs), ?_⟩
    · simp only [Except.map, rnValue, hR]
    · intro v hv; cases hv; simp [valSyms, hs]
  · have e : rnAtom f a = a := by simp [rnAtom, hs]
    have hl : decLit a = true ∨ hexLit a = true := by
      simp only [atomOK, Bool.or_eq_true] at ha
      rcases ha with (h | h) | h
      · exact absurd h hs
      · exact .inl h
      · exact .inr h
    obtain ⟨v, hv, hn⟩ := create_lit hl fuel false false
    rw [e, hv]
    refine ⟨⟨_, rfl⟩, ?_, atomShape_lit hl, ?_⟩
    · simp only [Except.map, rnValue_of_numeric hn]
    · intro v' hv'; cases hv'
      have : valSyms v = [] := by cases v <;> first | rfl | cases hn
      simp [this, hs]

theorem atomShape_head {a : Str} (h : AtomShape a) (rest : Str) :
    ∃ c t, a ++ rest = c :: t ∧ (isSym c = true ∨ c = '$') := by
  obtain ⟨d, w, rfl, hd, hw, hs⟩ := h
  cases d with
  | nil =>
    cases w with
    | nil => exact absurd rfl hw
    | cons c t => exact ⟨c, t ++ rest, rfl, .inl (hs c (by simp))⟩
  | cons c t => exact ⟨c, t ++ w ++ rest, by simp, .inr (by simpa using hd c (by simp))⟩

/-- `create` on `atom op atom` -/
theorem create_exprText {a b : Str} {op : Char} {lv rv : Value} (ha : AtomShape a) (hb : AtomShape b)
    (hop : opChar op = true) (fuel : Nat)
    (hla : create (fuel + 1) a false false false = .ok lv) (hlb : create (fuel + 1) b false false false = .ok rv)
    (is16 defExt : Bool) :
    create (fuel + 2) (a ++ op :: b) false is16 defExt
      = .ok (.expr lv rv op
          (if (if defExt then Mode.extended else Mode.none) == .none && (lv.isExtendedLike || rv.isExtendedLike)
            then Mode.extended else (if defExt then Mode.extended else Mode.none)) false) := by
  obtain ⟨c, t, e, hc⟩ := atomShape_head ha (op :: b)
  rw [e, create_succ]
  simp only [Bool.false_and, Bool.false_eq_true, if_false]
  rw [head_not_prefix_of_sym hc, ← e]
  exact createBody_expr (splitExpr_atoms ha hb hop) hla hlb is16 _

theorem plainOther_create {l : Str} (h : plainOther l = true) (hs : splitExpr l = none) (fuel : Nat) (is16 defExt : Bool)
    {v : Value} (hv : create (fuel + 1) l false is16 defExt = .ok v) : v.isNumeric = true := by
  simp only [plainOther, Bool.and_eq_true, Bool.not_eq_true'] at h
  obtain ⟨⟨hc, hsym⟩, hp⟩ := h
  cases l with
  | nil => simp [create] at hv
  | cons c rest =>
    simp only [Bool.and_eq_true, bne_iff_ne] at hp
    rw [create_succ] at hv
    simp only [Bool.false_and, Bool.false_eq_true, if_false] at hv
    have e : stripPrefix c rest defExt = (if defExt then Mode.extended else Mode.none, c :: rest) := by
      simp [stripPrefix, hp.1.1, hp.1.2, hp.2]
    rw [e] at hv
    simp only [createBody, hs, hc, hsym, Bool.and_false, Bool.false_eq_true, if_false] at hv
    split at hv
    · rename_i w hw
      cases hv
      exact numericOfStr_isNumeric'' hw
    · cases hv

/-- the central fact: parsing the renamed text gives the renamed value -/
theorem create_renameLeft (hR : R.sym = f) {l : Str} (hs : SimpleLeft l = true) (habd : isABD l = false)
    (hg : ∀ x ∈ leftNames l, GoodName x (f x)) (is16 defExt : Bool) :
    create 4 (renameLeftText f l) false is16 defExt = (create 4 l false is16 defExt).map (rnValue R) ∧
    (∀ v, create 4 l false is16 defExt = .ok v → valSyms v = leftNames l) := by
  unfold leftNames at hg ⊢
  unfold renameLeftText
  simp only [habd, Bool.false_eq_true, if_false] at hg ⊢
  by_cases hsym : isSymName l = true
  · simp only [hsym, if_true] at hg ⊢
    have hg' := (hg l (by simp)).1
    rw [create_symName hsym, create_symName hg']
    refine ⟨by simp only [Except.map, rnValue, hR], ?_⟩
    intro v hv; cases hv; rfl
  · simp only [hsym, Bool.false_eq_true, if_false] at hg ⊢
    cases hsp : splitExpr l with
    | none =>
      simp only [hsp] at hg ⊢
      have hnum : ∀ v, create 4 l false is16 defExt = .ok v → v.isNumeric = true := by
        intro v hv
        simp only [SimpleLeft, habd, hsym, hsp, Bool.or_false, Bool.or_eq_true, beq_iff_eq] at hs
        rcases hs with (h | h) | h
        · subst h; simp [create] at hv
        · obtain ⟨w, hw, hn⟩ := create_lit (.inl h) 3 is16 defExt
          rw [hw] at hv; cases hv; exact hn
        · exact plainOther_create h hsp 3 is16 defExt hv
      cases hc : create 4 l false is16 defExt with
      | error e => exact ⟨rfl, by intro v hv; cases hv⟩
      | ok v =>
        have hn := hnum v hc
        refine ⟨by simp only [Except.map, rnValue_of_numeric hn], ?_⟩
        intro v' hv'; cases hv'
        cases v <;> first | rfl | cases hn
    | some x =>
      obtain ⟨a, op, b⟩ := x
      simp only [hsp] at hg ⊢
      obtain ⟨hl, hop⟩ := splitExpr_sound hsp
      have hab := simpleLeft_expr hs habd (by simpa using hsym) hsp
      obtain ⟨⟨lv, hlv⟩, ea, sa, na⟩ := create_atom f R hR hab.1
        (fun h => (hg a (by simp [h])).1) 2
      obtain ⟨⟨rv, hrv⟩, eb, sb, nb⟩ := create_atom f R hR hab.2
        (fun h => (hg b (by simp [h])).1) 2
      have sa0 : AtomShape a := atomShape_atomOK hab.1
      have sb0 : AtomShape b := atomShape_atomOK hab.2
      rw [hlv] at ea
      rw [hrv] at eb
      rw [hl, create_exprText sa0 sb0 hop 2 hlv hrv, create_exprText sa sb hop 2 ea eb]
      refine ⟨?_, ?_⟩
      · simp only [Except.map, rnValue, rnValue_isExtendedLike]
      · intro v hv; cases hv
        simp only [valSyms, na lv hlv, nb rv hrv]

/-- `renameLeftText` satisfies what the renaming of statements needs of the text of a left part -/
theorem leftOK_simple (hR : R.sym = f) (hRl : R.left = renameLeftText f) (row : InstrRow) {l : Str}
    (hstr : row.isStringDefine = false) (hs : SimpleLeft l = true) (hg : ∀ x ∈ leftNames l, GoodName x (f x)) :
    LeftOK R row l := by
  have e0 : renameLeftText f [] = [] := rfl
  have hnil : renameLeftText f l = [] ↔ l = [] := by
    constructor
    · intro h
      unfold renameLeftText at h
      split at h
      · exact h
      · rename_i habd
        split at h
        · rename_i hsym
          have := (hg l (by simp [leftNames, habd, hsym])).1
          rw [h] at this; cases this
        · split at h
          · cases hr : rnAtom f _ <;> rw [hr] at h <;> cases h
          · exact h
    · intro h; rw [h]; exact e0
  have habd_eq : isABD l = true → renameLeftText f l = l := by
    intro h; unfold renameLeftText; rw [if_pos h]
  have habd : isABD (renameLeftText f l) = isABD l := by
    cases hb : isABD l with
    | true => rw [habd_eq hb]; exact hb
    | false =>
      unfold renameLeftText
      simp only [hb, Bool.false_eq_true, if_false]
      split
      · rename_i hsym
        exact (hg l (by simp [leftNames, hb, hsym])).2 hb
      · split
        · rename_i a op b hsp
          have hsym' : isSymName l = false := by
            cases h : isSymName l with
            | false => rfl
            | true => contradiction
          have hab := simpleLeft_expr hs hb hsym' hsp
          have s1 := (create_atom f R hR hab.1
            (fun h => (hg a (by simp [leftNames, hb, hsym', hsp, h])).1) 2).2.2.1
          have n1 := atomShape_ne_nil s1
          cases hc : isABD (rnAtom f a ++ op :: rnAtom f b) with
          | false => rfl
          | true =>
            have hlen := isABD_length hc
            simp only [List.length_append, List.length_cons] at hlen
            cases hra : rnAtom f a with
            | nil => exact absurd hra n1
            | cons c t => rw [hra] at hlen; simp only [List.length_cons] at hlen; omega
        · exact hb
  refine ⟨by rw [hRl]; exact hnil, by rw [hRl]; exact habd, by rw [hRl]; exact habd_eq, ?_, ?_⟩
  · intro _ hb
    rw [hRl, hstr]
    exact (create_renameLeft f R hR hs hb hg _ _).1
  · intro _ hb
    rw [hRl]
    exact (create_renameLeft f R hR hs hb hg false true).1

/-- the symbols of a simple left part as `sideSyms` computes them -/
theorem sideSyms_simple (row : InstrRow) {l : Str} (hstr : row.isStringDefine = false) (hs : SimpleLeft l = true) :
    ∀ x ∈ leftNames l, x ∈ sideSyms row (.text l) := by
  intro x hx
  cases hb : isABD l with
  | true => simp [leftNames, hb] at hx
  | false =>
    simp only [sideSyms, hb, Bool.false_eq_true, if_false, hstr]
    -- `create` succeeds whenever there is a name
    by_cases hsym : isSymName l = true
    · rw [create_symName hsym]
      simpa [leftNames, hb, hsym, valSyms] using hx
    · cases hsp : splitExpr l with
      | none => simp [leftNames, hb, hsym, hsp] at hx
      | some y =>
        obtain ⟨a, op, b⟩ := y
        obtain ⟨hl, hop⟩ := splitExpr_sound hsp
        have hab := simpleLeft_expr hs hb (by simpa using hsym) hsp
        obtain ⟨⟨lv, hlv⟩, _, _, na⟩ := create_atom (fun x => x) ⟨id, id, id⟩ rfl hab.1 (fun h => h) 2
        obtain ⟨⟨rv, hrv⟩, _, _, nb⟩ := create_atom (fun x => x) ⟨id, id, id⟩ rfl hab.2 (fun h => h) 2
        have sa0 : AtomShape a := atomShape_atomOK hab.1
        have sb0 : AtomShape b := atomShape_atomOK hab.2
        rw [hl, create_exprText sa0 sb0 hop 2 hlv hrv]
        simp only [valSyms, na lv hlv, nb rv hrv]
        simpa [leftNames, hb, hsym, hsp] using hx

end

/-! ### the element texts of FCB / FDB lists (batch 8)

An element of an FCB / FDB list that is a symbol or an expression is evaluated from its TEXT (`evalElem`, `create 4 x false
false true`). For an element of one of the shapes `SimpleLeft` that is not `A` / `B` / `D`, `renameLeftText` is a faithful
renaming (`ElemRn`): `create` commutes (`create_renameLeft`), the renamed element is still evaluated (a renamed symbol is a
symbol, `atom op atom` stays an expression, neither is a numeric literal), its symbols are `leftNames`. -/

theorem opChar_not_hex {c : Char} (h : opChar c = true) : isHexD c = false ∧ isDigit c = false := by
  simp only [opChar, Bool.or_eq_true, beq_iff_eq] at h
  rcases h with ((rfl | rfl) | rfl) | rfl <;> decide

/-- `atom op …` is not a numeric literal -/
theorem numericOfStr_exprText {a : Str} (ha : AtomShape a) {op : Char} (hop : opChar op = true) (b : Str)
    (hint : Option Nat) (m : Mode) : ∃ e, numericOfStr (a ++ op :: b) hint m = .error e := by
  obtain ⟨c0, t0, e0, hc0⟩ := atomShape_head ha []
  rw [List.append_nil] at e0
  subst e0
  have hne : c0 ≠ apos ∧ c0 ≠ '%' ∧ c0 ≠ '-' := by
    rcases hc0 with h | rfl
    · exact ⟨(isSym_ne h).1, (isSym_ne h).2.1, (isSym_ne h).2.2.2.1⟩
    · decide
  have hmem : op ∈ t0 ++ op :: b := by simp
  have hx : (t0 ++ op :: b).all isHexD = false := by
    cases h : (t0 ++ op :: b).all isHexD with
    | false => rfl
    | true =>
      have := List.all_eq_true.mp h op hmem
      rw [(opChar_not_hex hop).1] at this; cases this
  have hd : (c0 :: (t0 ++ op :: b)).all isDigit = false := by
    cases h : (c0 :: (t0 ++ op :: b)).all isDigit with
    | false => rfl
    | true =>
      have := List.all_eq_true.mp h op (by simp)
      rw [(opChar_not_hex hop).2] at this; cases this
  show ∃ e, numericOfStr (c0 :: (t0 ++ op :: b)) hint m = .error e
  unfold numericOfStr
  simp only []
  split
  · rename_i v hc
    split at hc
    · rename_i q c heq
      have : c0 = q := by injection heq
      subst this
      simp [hne.1] at hc
    · simp at hc
  · split
    · rename_i heq; injection heq with e _; exact absurd e hne.2.1
    · rename_i hs heq
      injection heq with _ e
      subst e
      simp only [hx, Bool.and_false, Bool.false_eq_true, if_false]
      exact ⟨_, rfl⟩
    · rename_i heq; injection heq with e _; exact absurd e hne.2.2
    · simp only [hd, Bool.and_false, Bool.false_eq_true, if_false]
      exact ⟨_, rfl⟩

theorem elemHex_err {x : Str} {e : Exn} (h : numericOfStr x none .none = .error e) (w : Nat) :
    elemHex w x = .error e := by
  unfold elemHex; rw [h]

theorem pendingElem_of_create {R : Ren} {x x' : Str}
    (hc : create 4 x' false false true = (create 4 x false false true).map (rnValue R)) :
    pendingElem x' = pendingElem x := by
  unfold pendingElem
  rw [hc]
  cases create 4 x false false true with
  | error e => rfl
  | ok v => simp only [Except.map, rnValue_isSymbol, rnValue_isExpression]

/-- (1)–(3) for one element: `renameLeftText` is a faithful renaming of a simple element text -/
theorem elemRn_simple (f : Str → Str) (R : Ren) (hR : R.sym = f) (N : List Str) {x : Str} (habd : isABD x = false)
    (hs : SimpleLeft x = true) (hg : ∀ y ∈ leftNames x, GoodName y (f y)) (hN : ∀ y ∈ leftNames x, y ∈ N) (w : Nat) :
    ElemRn R N w x (renameLeftText f x) := by
  obtain ⟨hc, hsyms⟩ := create_renameLeft f R hR hs habd hg false true
  refine ⟨?_, fun _ => ⟨hc, fun v hv y hy => hN y (by rw [← hsyms v hv]; exact hy)⟩⟩
  unfold pendingAt
  rw [pendingElem_of_create hc]
  congr 1
  by_cases hsym : isSymName x = true
  · have hl : x ∈ leftNames x := by simp [leftNames, habd, hsym]
    have e : renameLeftText f x = f x := by simp [renameLeftText, habd, hsym]
    obtain ⟨e1, he1⟩ := numericOfStr_symName hsym none .none
    obtain ⟨e2, he2⟩ := numericOfStr_symName (hg x hl).1 none .none
    rw [e, elemHex_err he1, elemHex_err he2]
  · have hsym' : isSymName x = false := by simpa using hsym
    cases hsp : splitExpr x with
    | none =>
      have e : renameLeftText f x = x := by simp [renameLeftText, habd, hsym', hsp]
      rw [e]
    | some y =>
      obtain ⟨a, op, b⟩ := y
      obtain ⟨hl, hop⟩ := splitExpr_sound hsp
      have hab := simpleLeft_expr hs habd hsym' hsp
      have e : renameLeftText f x = rnAtom f a ++ op :: rnAtom f b := by simp [renameLeftText, habd, hsym', hsp]
      have sa := (create_atom f R hR hab.1
        (fun h => (hg a (by simp [leftNames, habd, hsym', hsp, h])).1) 2).2.2.1
      obtain ⟨e1, he1⟩ := numericOfStr_exprText (atomShape_atomOK hab.1) hop b none .none
      obtain ⟨e2, he2⟩ := numericOfStr_exprText sa hop (rnAtom f b) none .none
      rw [← hl] at he1
      rw [e, elemHex_err he1, elemHex_err he2]

/-- the renaming of one element text of a list: an element that the list pass evaluates is renamed like an index left
part, a literal is left alone -/
def renameElemText (f : Str → Str) (x : Str) : Str := if pendingAny x then renameLeftText f x else x

/-- what C18-R2 asks of a list element that the list pass evaluates: not `A` / `B` / `D` (which `renameLeftText` leaves
alone), one of the shapes `SimpleLeft` (a symbol, `atom op atom`), the new names symbols again -/
def ElemSimple (f : Str → Str) (x : Str) : Prop :=
  pendingAny x = true → isABD x = false ∧ SimpleLeft x = true ∧ ∀ y ∈ leftNames x, GoodName y (f y)

/-- the symbols of a list element that the list pass evaluates -/
def elemNames (x : Str) : List Str := if pendingAny x then leftNames x else []

theorem elemRn_renameElem (f : Str → Str) (R : Ren) (hR : R.sym = f) (N : List Str) {x : Str} (h : ElemSimple f x)
    (hN : ∀ y ∈ elemNames x, y ∈ N) {w : Nat} (hw : w = 2 ∨ w = 4) : ElemRn R N w x (renameElemText f x) := by
  cases hp : pendingAny x with
  | false =>
    have e : renameElemText f x = x := by simp [renameElemText, hp]
    rw [e]
    exact elemRn_refl N (pendingAny_false hp hw)
  | true =>
    have e : renameElemText f x = renameLeftText f x := by simp [renameElemText, hp]
    obtain ⟨h1, h2, h3⟩ := h hp
    rw [e]
    exact elemRn_simple f R hR N h1 h2 h3 (fun y hy => hN y (by simp [elemNames, hp, hy])) w

/-- a list text renamed element by element -/
theorem listRn_simple (f : Str → Str) (R : Ren) (hR : R.sym = f) (N : List Str) {txt : Str}
    (ht : listElems (R.txt txt) = (listElems txt).map (renameElemText f))
    (h : ∀ x ∈ listElems txt, ElemSimple f x) (hN : ∀ x ∈ listElems txt, ∀ y ∈ elemNames x, y ∈ N) :
    ListRn R N txt := by
  unfold ListRn
  rw [ht]
  exact forall2_map_right _ _ (fun x hx =>
    ⟨elemRn_renameElem f R hR N (h x hx) (hN x hx) (.inl rfl), elemRn_renameElem f R hR N (h x hx) (hN x hx) (.inr rfl)⟩)

/-- a symbol is evaluated by the list pass at every width -/
theorem pendingAt_symName {x : Str} (h : isSymName x = true) (w : Nat) : pendingAt w x = true := by
  obtain ⟨e, he⟩ := numericOfStr_symName h none .none
  unfold pendingAt pendingElem
  rw [create_symName h 3 false true, elemHex_err he]
  rfl

/-- `atom op atom` is evaluated by the list pass at every width -/
theorem pendingAt_exprText {x a b : Str} {op : Char} (hsp : splitExpr x = some (a, op, b)) (ha : atomOK a = true)
    (hb : atomOK b = true) (w : Nat) : pendingAt w x = true := by
  obtain ⟨hl, hop⟩ := splitExpr_sound hsp
  obtain ⟨⟨lv, hlv⟩, _, _, _⟩ := create_atom (fun x => x) ⟨id, id, id⟩ rfl ha (fun h => h) 2
  obtain ⟨⟨rv, hrv⟩, _, _, _⟩ := create_atom (fun x => x) ⟨id, id, id⟩ rfl hb (fun h => h) 2
  obtain ⟨e, he⟩ := numericOfStr_exprText (atomShape_atomOK ha) hop b none .none
  rw [← hl] at he
  unfold pendingAt pendingElem
  rw [elemHex_err he, hl, create_exprText (atomShape_atomOK ha) (atomShape_atomOK hb) hop 2 hlv hrv]
  rfl

/-- on the shapes `SimpleLeft`, a text that the list pass does not evaluate has no symbol in it: `renameElemText` is
`renameLeftText` -/
theorem renameElemText_simple (f : Str → Str) {x : Str} (hs : SimpleLeft x = true) :
    renameElemText f x = renameLeftText f x := by
  unfold renameElemText
  cases hp : pendingAny x with
  | true => rfl
  | false =>
    simp only [Bool.false_eq_true, if_false]
    have hp2 := pendingAny_false hp (.inl rfl)
    cases habd : isABD x with
    | true => simp [renameLeftText, habd]
    | false =>
      cases hsym : isSymName x with
      | true => rw [pendingAt_symName hsym] at hp2; cases hp2
      | false =>
        cases hsp : splitExpr x with
        | none => simp [renameLeftText, habd, hsym, hsp]
        | some y =>
          obtain ⟨a, op, b⟩ := y
          have hab := simpleLeft_expr hs habd hsym hsp
          rw [pendingAt_exprText hsp hab.1 hab.2] at hp2; cases hp2

theorem map_renameElem_simple (f : Str → Str) {xs : List Str} (h : ∀ x ∈ xs, SimpleLeft x = true) :
    xs.map (renameElemText f) = xs.map (renameLeftText f) :=
  List.map_congr_left (fun x hx => renameElemText_simple f (h x hx))

/-- a list of literals: nothing is renamed -/
theorem map_renameElem_lit (f : Str → Str) {txt : Str} (h : litElems txt = true) :
    (listElems txt).map (renameElemText f) = listElems txt := by
  have : ∀ x ∈ listElems txt, renameElemText f x = id x := by
    intro x hx; simp [renameElemText, litElems_any h x hx]
  rw [List.map_congr_left this, List.map_id]

/-- the symbols of the elements of the FCB / FDB lists that the list pass evaluates -/
def listNames (ss : List Stmt) : List Str :=
  match preLists ss with
  | none => []
  | some x => x.flatMap (fun s => if isList s.pkg.additional then (listElems s.operand.text).flatMap elemNames else [])

theorem mem_listNames {ss x : List Stmt} (hx : preLists ss = some x) {s : Stmt} (hs : s ∈ x)
    (hl : isList s.pkg.additional = true) {e : Str} (he : e ∈ listElems s.operand.text) {y : Str} (hy : y ∈ elemNames e) :
    y ∈ listNames ss := by
  unfold listNames
  rw [hx]
  exact List.mem_flatMap.mpr ⟨s, hs, by rw [if_pos hl]; exact List.mem_flatMap.mpr ⟨e, he, hy⟩⟩

/-- with lists of literals there is no such symbol -/
theorem listNames_lit {ss : List Stmt}
    (h : ∀ x, preLists ss = some x → ∀ s ∈ x, isList s.pkg.additional = true → litElems s.operand.text = true) :
    ∀ y, y ∉ listNames ss := by
  intro y hy
  unfold listNames at hy
  cases hx : preLists ss with
  | none => rw [hx] at hy; cases hy
  | some x =>
    rw [hx] at hy
    obtain ⟨s, hs, hy⟩ := List.mem_flatMap.mp hy
    by_cases hl : isList s.pkg.additional = true
    · rw [if_pos hl] at hy
      obtain ⟨e, he, hy⟩ := List.mem_flatMap.mp hy
      simp [elemNames, litElems_any (h x hx s hs hl) e he] at hy
    · rw [if_neg hl] at hy; cases hy

end CoCo.Asm.Rename
