/-
Lemmas/EvalLists.lean — (batch 8) the pass over the FCB / FDB lists after `fixAll`: `evalElem`, `evalElems`,
`evalLists`, `fixAllL`. What the pass preserves (length, everything but `pkg.additional`, every statement that is
not a list), what it does to a list (same number of elements, an evaluated element has exactly the width of the
directive), no `diverged`, and `internal` only through `addrOf` / `addrOffset`.

`fixAllL_not_diverged` is in Lemmas/LayoutFix.lean (it needs `fixAll_not_diverged`), `fixAllL_pw` in
Lemmas/LayoutSym.lean (next to `fixAll_pw`).
-/
import CoCoVerif.Model.Program
import CoCoVerif.Lemmas.AddrOther

namespace CoCo.Asm
open CoCo

/-! ### unfolding -/

/-- the condition under which `evalElems` evaluates an element instead of keeping the digits of parse time -/
def pendingAt (w : Nat) (x : Str) : Bool := pendingElem x && (elemHex w x matches .error _)

/-- one element through `evalElems` -/
def evalElem1 (ss : List Stmt) (t : SymTab) (w : Nat) (x h : Str) : Outcome Str :=
  if pendingAt w x then evalElem ss t w x else .ok h

/-- one statement through `evalLists` -/
def evalList1 (t : SymTab) (ss : List Stmt) (s : Stmt) : Outcome Stmt :=
  match s.pkg.additional with
  | .multiByte hs =>
    (match evalElems ss t 2 (listElems s.operand.text) hs with
     | .ok hs' => .ok { s with pkg := { s.pkg with additional := .multiByte hs' } }
     | .diag => .diag | .internal => .internal | .diverged => .diverged)
  | .multiWord hs =>
    (match evalElems ss t 4 (listElems s.operand.text) hs with
     | .ok hs' => .ok { s with pkg := { s.pkg with additional := .multiWord hs' } }
     | .diag => .diag | .internal => .internal | .diverged => .diverged)
  | _ => .ok s

/-- the value of a resolved list element on the final addresses -/
def elemNum (ss : List Stmt) (r : Value) : Outcome Value :=
  if r.isAddress then (match r.int? with
                       | some j => (match addrOf ss j with | some a => .ok a | none => .internal)
                       | none => .internal)
  else if r.isAddrExpr then addrOffset ss r
  else .ok r

/-- the digits of a list element at the width of the directive -/
def elemRender (w : Nat) (num : Outcome Value) : Outcome Str :=
  match num with
  | .ok (.numeric n _ _ neg) =>
    (match fitNum n neg w with
     | .ok f => (match f.hex? with | some h => .ok h | none => .internal)
     | .error _ => .diag)
  | .ok _ => .diag
  | .diag => .diag
  | .internal => .internal
  | .diverged => .diverged

/-- `evalElem` in three steps: `create`, `resolve`, then `elemNum` and `elemRender` -/
theorem evalElem_eq (ss : List Stmt) (t : SymTab) (w : Nat) (x : Str) :
    evalElem ss t w x =
      match create 4 x false false true with
      | .error _ => .diag
      | .ok v =>
        match v.resolve t with
        | .error _ => .diag
        | .ok r => elemRender w (elemNum ss r) := rfl

theorem elemRender_ok {w : Nat} {o : Outcome Value} {h : Str} (he : elemRender w o = .ok h) :
    ∃ n a b neg f, o = .ok (.numeric n a b neg) ∧ fitNum n neg w = .ok f ∧ f.hex? = some h := by
  unfold elemRender at he
  split at he
  · rename_i n a b neg
    split at he
    · rename_i f hf
      split at he
      · rename_i h' hh; cases he; exact ⟨n, a, b, neg, f, rfl, hf, hh⟩
      · cases he
    · cases he
  all_goals cases he

theorem evalElems_nil_left (ss : List Stmt) (t : SymTab) (w : Nat) (hs : List Str) :
    evalElems ss t w [] hs = .ok [] := by
  unfold evalElems; rfl

theorem evalElems_nil_right (ss : List Stmt) (t : SymTab) (w : Nat) (xs : List Str) :
    evalElems ss t w xs [] = .ok [] := by
  cases xs <;> (unfold evalElems; rfl)

theorem evalElems_cons (ss : List Stmt) (t : SymTab) (w : Nat) (x : Str) (xs : List Str) (h : Str) (hs : List Str) :
    evalElems ss t w (x :: xs) (h :: hs) =
      match evalElem1 ss t w x h with
      | .ok h' => (match evalElems ss t w xs hs with | .ok r => .ok (h' :: r) | o => o)
      | .diag => .diag
      | .internal => .internal
      | .diverged => .diverged := by
  rw [evalElems]; rfl

theorem evalLists_nil (t : SymTab) (ss : List Stmt) : evalLists t ss [] = .ok [] := by
  unfold evalLists; rfl

theorem evalLists_cons (t : SymTab) (ss : List Stmt) (s : Stmt) (rest : List Stmt) :
    evalLists t ss (s :: rest) =
      match evalList1 t ss s with
      | .ok s' => (match evalLists t ss rest with | .ok r => .ok (s' :: r) | o => o)
      | .diag => .diag
      | .internal => .internal
      | .diverged => .diverged := by
  rw [evalLists]; rfl

theorem fixAllL_eq (t : SymTab) (l : List Stmt) :
    fixAllL t l = (fixAll l 0 l).bind (fun x => evalLists t x x) := by
  unfold fixAllL Outcome.bind
  cases fixAll l 0 l <;> rfl

/-- `fixAllL` = `fixAll`, then `evalLists` on (and against) its result -/
theorem fixAllL_ok {t : SymTab} {l l' : List Stmt} :
    fixAllL t l = .ok l' ↔ ∃ x, fixAll l 0 l = .ok x ∧ evalLists t x x = .ok l' := by
  unfold fixAllL
  cases h : fixAll l 0 l with
  | ok x => simp
  | _ => simp

theorem fixAllL_of_ok {t : SymTab} {l x : List Stmt} (h : fixAll l 0 l = .ok x) :
    fixAllL t l = evalLists t x x := by
  unfold fixAllL; rw [h]

theorem fixAllL_diag {t : SymTab} {l : List Stmt} :
    fixAllL t l = .diag ↔ fixAll l 0 l = .diag ∨ ∃ x, fixAll l 0 l = .ok x ∧ evalLists t x x = .diag := by
  unfold fixAllL
  cases h : fixAll l 0 l with
  | ok x => simp
  | _ => simp

theorem fixAllL_internal {t : SymTab} {l : List Stmt} :
    fixAllL t l = .internal ↔
      fixAll l 0 l = .internal ∨ ∃ x, fixAll l 0 l = .ok x ∧ evalLists t x x = .internal := by
  unfold fixAllL
  cases h : fixAll l 0 l with
  | ok x => simp
  | _ => simp

/-! ### the width of an evaluated element -/

namespace EL

theorem natHexF_len1 {v : Nat} (h : v < 16) : (natHexF 20 v).length = 1 := by
  simp [natHexF, h]

theorem natHexF_len2 {v : Nat} (h1 : ¬ v < 16) (h : v < 256) : (natHexF 20 v).length = 2 := by
  have h2 : v / 16 < 16 := by omega
  simp [natHexF, h1, h2]

theorem natHexF_len3 {v : Nat} (h1 : ¬ v < 256) (h : v < 4096) : (natHexF 20 v).length = 3 := by
  have h0 : ¬ v < 16 := by omega
  have h2 : ¬ v / 16 < 16 := by omega
  have h3 : v / 16 / 16 < 16 := by omega
  simp [natHexF, h0, h2, h3]

theorem natHexF_len4 {v : Nat} (h1 : ¬ v < 4096) (h : v < 65536) : (natHexF 20 v).length = 4 := by
  have h0 : ¬ v < 16 := by omega
  have h2 : ¬ v / 16 < 16 := by omega
  have h3 : ¬ v / 16 / 16 < 16 := by omega
  have h4 : v / 16 / 16 / 16 < 16 := by omega
  simp [natHexF, h0, h2, h3, h4]

theorem natHexF_le {w v : Nat} (hw : w = 2 ∨ w = 4) (h : v < 16 ^ w) : (natHexF 20 v).length ≤ w := by
  rcases hw with rfl | rfl
  · have e : (16 : Nat) ^ 2 = 256 := by decide
    by_cases h1 : v < 16
    · rw [natHexF_len1 h1]; omega
    · rw [natHexF_len2 h1 (by omega)]; omega
  · have e : (16 : Nat) ^ 4 = 65536 := by decide
    by_cases h1 : v < 16
    · rw [natHexF_len1 h1]; omega
    · by_cases h2 : v < 256
      · rw [natHexF_len2 h1 h2]; omega
      · by_cases h3 : v < 4096
        · rw [natHexF_len3 h2 h3]; omega
        · rw [natHexF_len4 h3 (by omega)]; omega

/-- `"{:0>wX}"` of a number of at most `w` hex digits has exactly `w` characters -/
theorem fmtHex_length {w v : Nat} (hw : w = 2 ∨ w = 4) (h : v < 16 ^ w) : (fmtHex w v).length = w := by
  have := natHexF_le hw h
  unfold fmtHex
  simp only [List.length_append, List.length_replicate, List.length_map]
  omega

/-- what `fitNum` returns at width 2 or 4: a non-negative number below `16^w` with size hint `w` -/
theorem fitNum_field {n : Nat} {neg : Bool} {w : Nat} {v : Value} (hw : w = 2 ∨ w = 4) (h : fitNum n neg w = .ok v) :
    ∃ z m, v = .numeric z (some w) m false ∧ z < 16 ^ w := by
  unfold fitNum at h
  simp only [] at h
  generalize (if neg = true then -(n : Int) else (n : Int)) = q at h
  split at h
  · have hpow : (0 : Int) < (2 : Int) ^ (4 * w) ∧ (2 : Int) ^ (4 * w) ≤ 65536 ∧ (2 : Int) ^ (4 * w) = ((16 ^ w : Nat) : Int) := by
      rcases hw with rfl | rfl
      · refine ⟨by decide, by decide, by decide⟩
      · refine ⟨by decide, by decide, by decide⟩
    obtain ⟨hp0, hp1, hp2⟩ := hpow
    generalize (2 : Int) ^ (4 * w) = P at h hp0 hp1 hp2
    have h0 : 0 ≤ q % P := Int.emod_nonneg _ (by omega)
    have h1 : q % P < P := Int.emod_lt_of_pos _ hp0
    generalize q % P = z at h h0 h1
    unfold numericOfInt at h
    rw [if_neg (by omega)] at h
    simp only [postInit, initHint] at h
    have hz : ¬ z < 0 := by omega
    simp [hz] at h
    refine ⟨z.natAbs, _, h.symm, ?_⟩
    omega
  · cases h

/-- the digits of a fitted number: exactly `w` of them -/
theorem fitNum_hex_length {n : Nat} {neg : Bool} {w : Nat} {v : Value} {h : Str} (hw : w = 2 ∨ w = 4)
    (hf : fitNum n neg w = .ok v) (hh : v.hex? = some h) : h.length = w := by
  obtain ⟨z, m, rfl, hz⟩ := fitNum_field hw hf
  simp only [Value.hex?, Option.some.injEq] at hh
  subst hh
  unfold numHex
  have hw0 : (w == 0) = false := by rcases hw with rfl | rfl <;> rfl
  simp only [beq_self_eq_true, if_true, hw0, Bool.false_eq_true, if_false, Bool.false_and, getNegative, Bool.not_false]
  exact fmtHex_length hw hz

/-- a fitted number always has digits -/
theorem fitNum_hex_some {n : Nat} {neg : Bool} {w : Nat} {v : Value} (hf : fitNum n neg w = .ok v) :
    ∃ h, v.hex? = some h := by
  unfold fitNum at hf
  simp only [] at hf
  generalize (if neg = true then -(n : Int) else (n : Int)) = q at hf
  by_cases hr : -((2 : Int) ^ (4 * w - 1)) ≤ q ∧ q < (2 : Int) ^ (4 * w)
  · rw [if_pos hr] at hf
    unfold numericOfInt at hf
    by_cases hb : q % (2 : Int) ^ (4 * w) > 65535
    · rw [if_pos hb] at hf; cases hf
    · rw [if_neg hb] at hf
      cases hf; exact ⟨_, rfl⟩
  · rw [if_neg hr] at hf; cases hf

theorem numericOfInt_isNumeric {z : Int} {hint : Option Nat} {m : Mode} {v : Value}
    (h : numericOfInt z hint m = .ok v) : v.isNumeric = true := by
  unfold numericOfInt at h
  by_cases hb : z > 65535
  · rw [if_pos hb] at h; cases h
  · rw [if_neg hb] at h; cases h; rfl

theorem fitNum_isNumeric {n : Nat} {neg : Bool} {w : Nat} {v : Value} (hf : fitNum n neg w = .ok v) :
    v.isNumeric = true := by
  unfold fitNum at hf
  simp only [] at hf
  generalize (if neg = true then -(n : Int) else (n : Int)) = q at hf
  by_cases hr : -((2 : Int) ^ (4 * w - 1)) ≤ q ∧ q < (2 : Int) ^ (4 * w)
  · rw [if_pos hr] at hf; exact numericOfInt_isNumeric hf
  · rw [if_neg hr] at hf; cases hf

end EL

/-- `fitWidth` keeps a number a number -/
theorem fitWidth_isNumeric {s s' : Stmt} (h : fitWidth s = .ok s') (hn : s.pkg.additional.isNumeric = true) :
    s'.pkg.additional.isNumeric = true := by
  unfold fitWidth at h
  split at h
  · cases h; exact hn
  · split at h
    · split at h
      · dsimp only at h
        split at h
        · split at h
          · rename_i v hf; cases h; exact EL.fitNum_isNumeric hf
          · cases h
        · cases h
      · cases h
    · cases h; exact hn

/-- `fitWidth` changes a number only: a list stays the list it was, and no list appears -/
theorem fitWidth_list {s s' : Stmt} (h : fitWidth s = .ok s') :
    (∀ hs, s'.pkg.additional = .multiByte hs ↔ s.pkg.additional = .multiByte hs) ∧
    (∀ hs, s'.pkg.additional = .multiWord hs ↔ s.pkg.additional = .multiWord hs) := by
  by_cases hn : s.pkg.additional.isNumeric = true
  · have hn' := fitWidth_isNumeric h hn
    constructor <;> intro hs <;> constructor <;> intro e
    · rw [e] at hn'; cases hn'
    · rw [e] at hn; cases hn
    · rw [e] at hn'; cases hn'
    · rw [e] at hn; cases hn
  · have : s' = s := by
      unfold fitWidth at h
      split at h
      · cases h; rfl
      · split at h
        · rename_i heq; rw [heq] at hn; exact absurd rfl hn
        · cases h; rfl
    subst this
    exact ⟨fun _ => Iff.rfl, fun _ => Iff.rfl⟩

/-- **an evaluated list element has exactly the width of the directive** (2 digits for FCB, 4 for FDB) -/
theorem evalElem_length {ss : List Stmt} {t : SymTab} {w : Nat} {x h : Str} (hw : w = 2 ∨ w = 4)
    (he : evalElem ss t w x = .ok h) : h.length = w := by
  unfold evalElem at he
  split at he
  · cases he
  · split at he
    · cases he
    · dsimp only at he
      split at he
      · rename_i n _ _ neg _
        split at he
        · rename_i f hf
          split at he
          · rename_i h' hh
            cases he
            exact EL.fitNum_hex_length hw hf hh
          · cases he
        · cases he
      all_goals cases he

/-! ### no `diverged` -/

theorem addrOffset_ne_diverged (ss : List Stmt) (v : Value) : addrOffset ss v ≠ .diverged := by
  cases v with
  | expr l r op m ae =>
    rw [addrOffset_expr]
    have h1 := addrOperand_ne_diverged ss l
    have h2 := addrOperand_ne_diverged ss r
    cases ha : addrOperand ss l with
    | diverged => exact absurd ha h1
    | ok a =>
      cases hb : addrOperand ss r with
      | diverged => exact absurd hb h2
      | ok b =>
        exact addrCombine_ne_diverged _ _ _
      | _ => simp
    | _ => simp
  | _ => simp [addrOffset]

theorem evalElem_not_diverged (ss : List Stmt) (t : SymTab) (w : Nat) (x : Str) : evalElem ss t w x ≠ .diverged := by
  unfold evalElem
  split
  · simp
  · split
    · simp
    · rename_i r _
      dsimp only
      have hnum : (if r.isAddress = true then
            (match r.int? with
             | some j => (match addrOf ss j with | some a => Outcome.ok a | none => .internal)
             | none => .internal)
          else if r.isAddrExpr = true then addrOffset ss r else .ok r) ≠ .diverged := by
        split
        · split
          · split <;> simp
          · simp
        · split
          · exact addrOffset_ne_diverged _ _
          · simp
      split
      · split
        · split <;> simp
        · simp
      · simp
      · simp
      · simp
      · rename_i hd; exact absurd hd hnum

theorem evalElem1_not_diverged (ss : List Stmt) (t : SymTab) (w : Nat) (x h : Str) :
    evalElem1 ss t w x h ≠ .diverged := by
  unfold evalElem1
  split
  · exact evalElem_not_diverged _ _ _ _
  · simp

theorem evalElems_not_diverged (ss : List Stmt) (t : SymTab) (w : Nat) :
    ∀ (xs hs : List Str), evalElems ss t w xs hs ≠ .diverged := by
  intro xs
  induction xs with
  | nil => intro hs; rw [evalElems_nil_left]; simp
  | cons x xs ih =>
    intro hs
    cases hs with
    | nil => rw [evalElems_nil_right]; simp
    | cons h hs =>
      rw [evalElems_cons]
      cases h1 : evalElem1 ss t w x h with
      | diverged => exact absurd h1 (evalElem1_not_diverged _ _ _ _ _)
      | ok h' =>
        dsimp only
        cases h2 : evalElems ss t w xs hs with
        | diverged => exact absurd h2 (ih hs)
        | _ => simp
      | _ => simp

theorem evalList1_not_diverged (t : SymTab) (ss : List Stmt) (s : Stmt) : evalList1 t ss s ≠ .diverged := by
  unfold evalList1
  split
  · rename_i hs _
    cases h : evalElems ss t 2 (listElems s.operand.text) hs with
    | diverged => exact absurd h (evalElems_not_diverged _ _ _ _ _)
    | _ => simp
  · rename_i hs _
    cases h : evalElems ss t 4 (listElems s.operand.text) hs with
    | diverged => exact absurd h (evalElems_not_diverged _ _ _ _ _)
    | _ => simp
  · simp

/-- `evalLists` never yields `diverged` -/
theorem evalLists_not_diverged (t : SymTab) (ss : List Stmt) (l : List Stmt) : evalLists t ss l ≠ .diverged := by
  induction l with
  | nil => rw [evalLists_nil]; simp
  | cons s rest ih =>
    rw [evalLists_cons]
    cases h1 : evalList1 t ss s with
    | diverged => exact absurd h1 (evalList1_not_diverged _ _ _)
    | ok s' =>
      dsimp only
      cases h2 : evalLists t ss rest with
      | diverged => exact absurd h2 ih
      | _ => simp
    | _ => simp

/-! ### the elements -/

/-- `evalElems` position by position -/
theorem evalElems_ok {ss : List Stmt} {t : SymTab} {w : Nat} : ∀ {xs hs r : List Str}, evalElems ss t w xs hs = .ok r →
    r.length = min xs.length hs.length ∧
      ∀ (j : Nat) (h' : Str), r[j]? = some h' → ∃ x h, xs[j]? = some x ∧ hs[j]? = some h ∧ evalElem1 ss t w x h = .ok h' := by
  intro xs
  induction xs with
  | nil => intro hs r h; rw [evalElems_nil_left] at h; cases h; simp
  | cons x xs ih =>
    intro hs r h
    cases hs with
    | nil => rw [evalElems_nil_right] at h; cases h; simp
    | cons h0 hs =>
      rw [evalElems_cons] at h
      cases h1 : evalElem1 ss t w x h0 with
      | ok h' =>
        rw [h1] at h; dsimp only at h
        cases h2 : evalElems ss t w xs hs with
        | ok r' =>
          rw [h2] at h; cases h
          obtain ⟨hl, hp⟩ := ih h2
          refine ⟨by simp [hl], ?_⟩
          intro j h'' hj
          cases j with
          | zero => simp at hj; subst hj; exact ⟨x, h0, by simp, by simp, h1⟩
          | succ j =>
            simp at hj
            obtain ⟨x', h3, h4, h5, h6⟩ := hp j h'' hj
            exact ⟨x', h3, by simpa using h4, by simpa using h5, h6⟩
        | _ => rw [h2] at h; cases h
      | _ => rw [h1] at h; cases h

theorem evalElems_length {ss : List Stmt} {t : SymTab} {w : Nat} {xs hs r : List Str}
    (h : evalElems ss t w xs hs = .ok r) : r.length = min xs.length hs.length := (evalElems_ok h).1

/-- with as many digit groups as elements (which is what `multi` produces) the list keeps its length -/
theorem evalElems_length_eq {ss : List Stmt} {t : SymTab} {w : Nat} {xs hs r : List Str}
    (h : evalElems ss t w xs hs = .ok r) (hl : xs.length = hs.length) : r.length = hs.length := by
  rw [evalElems_length h, hl]; omega

/-- every element of the result is the old one, or an evaluated one with exactly `w` characters -/
theorem evalElems_get {ss : List Stmt} {t : SymTab} {w : Nat} {xs hs r : List Str} (hw : w = 2 ∨ w = 4)
    (h : evalElems ss t w xs hs = .ok r) {j : Nat} {h' : Str} (hj : r[j]? = some h') :
    ∃ x h0, xs[j]? = some x ∧ hs[j]? = some h0 ∧
      ((pendingAt w x = false ∧ h' = h0) ∨ (pendingAt w x = true ∧ evalElem ss t w x = .ok h' ∧ h'.length = w)) := by
  obtain ⟨x, h0, h1, h2, h3⟩ := (evalElems_ok h).2 j h' hj
  refine ⟨x, h0, h1, h2, ?_⟩
  unfold evalElem1 at h3
  cases hp : pendingAt w x with
  | false => rw [hp] at h3; simp at h3; exact Or.inl ⟨rfl, h3.symm⟩
  | true => rw [hp] at h3; simp at h3; exact Or.inr ⟨rfl, h3, evalElem_length hw h3⟩

/-- if all the old digit groups have the width of the directive, so have the new ones -/
theorem evalElems_all_length {ss : List Stmt} {t : SymTab} {w : Nat} {xs hs r : List Str} (hw : w = 2 ∨ w = 4)
    (h : evalElems ss t w xs hs = .ok r) (hall : ∀ g ∈ hs, g.length = w) : ∀ g ∈ r, g.length = w := by
  intro g hg
  obtain ⟨j, hj, rfl⟩ := List.mem_iff_getElem.mp hg
  obtain ⟨x, h0, _, h2, h3⟩ := evalElems_get hw h (List.getElem?_eq_getElem hj)
  rcases h3 with ⟨_, h3⟩ | ⟨_, _, h3⟩
  · rw [h3]; exact hall h0 (List.mem_of_getElem? h2)
  · exact h3

theorem flatten_length_of_all {w : Nat} : ∀ {r : List Str}, (∀ g ∈ r, g.length = w) → r.flatten.length = w * r.length := by
  intro r
  induction r with
  | nil => intro _; simp
  | cons a r ih =>
    intro h
    simp only [List.flatten_cons, List.length_append, List.length_cons]
    rw [ih (fun g hg => h g (by simp [hg])), h a (by simp), Nat.mul_succ]
    omega

/-- the number of hex digits of the list is preserved (hence `hexLen?`, hence "size = bytes") -/
theorem evalElems_flatten_length {ss : List Stmt} {t : SymTab} {w : Nat} {xs hs r : List Str} (hw : w = 2 ∨ w = 4)
    (h : evalElems ss t w xs hs = .ok r) (hl : xs.length = hs.length) (hall : ∀ g ∈ hs, g.length = w) :
    r.flatten.length = hs.flatten.length := by
  rw [flatten_length_of_all (evalElems_all_length hw h hall), flatten_length_of_all hall, evalElems_length_eq h hl]

/-- a list without pending elements (all literals) is left as it is -/
theorem evalElems_literal {ss : List Stmt} {t : SymTab} {w : Nat} : ∀ {xs hs : List Str},
    (∀ x ∈ xs, pendingAt w x = false) → xs.length = hs.length → evalElems ss t w xs hs = .ok hs := by
  intro xs
  induction xs with
  | nil => intro hs _ hl; cases hs with
    | nil => rw [evalElems_nil_left]
    | cons _ _ => simp at hl
  | cons x xs ih =>
    intro hs hp hl
    cases hs with
    | nil => simp at hl
    | cons h hs =>
      rw [evalElems_cons]
      have h1 : evalElem1 ss t w x h = .ok h := by
        unfold evalElem1; rw [hp x (by simp)]; rfl
      rw [h1]; dsimp only
      rw [ih (fun y hy => hp y (by simp [hy])) (by simpa using hl)]

/-! ### one statement -/

/-- `evalList1` changes at most `pkg.additional` (this is `SameButAdditional s s'` of Lemmas/LayoutFix.lean) -/
theorem evalList1_same {t : SymTab} {ss : List Stmt} {s s' : Stmt} (h : evalList1 t ss s = .ok s') :
    ∃ v, s' = { s with pkg := { s.pkg with additional := v } } := by
  unfold evalList1 at h
  split at h
  · split at h
    · cases h; exact ⟨_, rfl⟩
    all_goals cases h
  · split at h
    · cases h; exact ⟨_, rfl⟩
    all_goals cases h
  · cases h; exact ⟨s.pkg.additional, rfl⟩

/-- a statement whose `additional` is not a list is unchanged -/
theorem evalList1_keep (t : SymTab) (ss : List Stmt) {s : Stmt}
    (hb : ∀ hs, s.pkg.additional ≠ .multiByte hs) (hw : ∀ hs, s.pkg.additional ≠ .multiWord hs) :
    evalList1 t ss s = .ok s := by
  unfold evalList1
  split
  · rename_i hs h; exact absurd h (hb hs)
  · rename_i hs h; exact absurd h (hw hs)
  · rfl

/-- in particular a statement with a numeric field (a branch distance, an address, …) -/
theorem evalList1_numeric (t : SymTab) (ss : List Stmt) {s : Stmt} (hn : s.pkg.additional.isNumeric = true) :
    evalList1 t ss s = .ok s :=
  evalList1_keep t ss (fun hs e => by rw [e] at hn; cases hn) (fun hs e => by rw [e] at hn; cases hn)

theorem evalList1_multiByte {t : SymTab} {ss : List Stmt} {s s' : Stmt} {hs : List Str}
    (ha : s.pkg.additional = .multiByte hs) (h : evalList1 t ss s = .ok s') :
    ∃ hs', evalElems ss t 2 (listElems s.operand.text) hs = .ok hs' ∧
      s' = { s with pkg := { s.pkg with additional := .multiByte hs' } } := by
  unfold evalList1 at h
  rw [ha] at h
  dsimp only at h
  split at h
  · rename_i hs' he; cases h; exact ⟨hs', he, rfl⟩
  all_goals cases h

theorem evalList1_multiWord {t : SymTab} {ss : List Stmt} {s s' : Stmt} {hs : List Str}
    (ha : s.pkg.additional = .multiWord hs) (h : evalList1 t ss s = .ok s') :
    ∃ hs', evalElems ss t 4 (listElems s.operand.text) hs = .ok hs' ∧
      s' = { s with pkg := { s.pkg with additional := .multiWord hs' } } := by
  unfold evalList1 at h
  rw [ha] at h
  dsimp only at h
  split at h
  · rename_i hs' he; cases h; exact ⟨hs', he, rfl⟩
  all_goals cases h

/-- the kind of `additional` is preserved: a list stays a list of the same kind, anything else stays what it is -/
theorem evalList1_additional {t : SymTab} {ss : List Stmt} {s s' : Stmt} (h : evalList1 t ss s = .ok s') :
    (∃ hs hs', s.pkg.additional = .multiByte hs ∧ s'.pkg.additional = .multiByte hs' ∧
        evalElems ss t 2 (listElems s.operand.text) hs = .ok hs') ∨
    (∃ hs hs', s.pkg.additional = .multiWord hs ∧ s'.pkg.additional = .multiWord hs' ∧
        evalElems ss t 4 (listElems s.operand.text) hs = .ok hs') ∨
    ((∀ hs, s.pkg.additional ≠ .multiByte hs) ∧ (∀ hs, s.pkg.additional ≠ .multiWord hs) ∧ s' = s) := by
  cases ha : s.pkg.additional with
  | multiByte hs =>
    obtain ⟨hs', h1, rfl⟩ := evalList1_multiByte ha h
    exact Or.inl ⟨hs, hs', rfl, rfl, h1⟩
  | multiWord hs =>
    obtain ⟨hs', h1, rfl⟩ := evalList1_multiWord ha h
    exact Or.inr (Or.inl ⟨hs, hs', rfl, rfl, h1⟩)
  | _ =>
    refine Or.inr (Or.inr ⟨by intro hs; simp, by intro hs; simp, ?_⟩)
    rw [evalList1_keep t ss (by rw [ha]; intro hs; simp) (by rw [ha]; intro hs; simp)] at h
    cases h; rfl

/-! ### the whole pass -/

/-- `evalLists` is the pointwise application of `evalList1` -/
theorem evalLists_ok {t : SymTab} {ss : List Stmt} {l l' : List Stmt} (h : evalLists t ss l = .ok l') :
    l'.length = l.length ∧ ∀ (j : Nat) (s : Stmt), l[j]? = some s → ∃ s', l'[j]? = some s' ∧ evalList1 t ss s = .ok s' := by
  induction l generalizing l' with
  | nil => rw [evalLists_nil] at h; cases h; simp
  | cons s rest ih =>
    rw [evalLists_cons] at h
    cases h1 : evalList1 t ss s with
    | ok s' =>
      rw [h1] at h; dsimp only at h
      cases h2 : evalLists t ss rest with
      | ok r =>
        rw [h2] at h; cases h
        obtain ⟨hl, hr⟩ := ih h2
        refine ⟨by simp [hl], ?_⟩
        intro j u hu
        cases j with
        | zero => simp at hu; subst hu; exact ⟨s', by simp, h1⟩
        | succ j =>
          simp at hu
          obtain ⟨u', h3, h4⟩ := hr j u hu
          exact ⟨u', by simpa using h3, h4⟩
      | _ => rw [h2] at h; cases h
    | _ => rw [h1] at h; cases h

theorem evalLists_length {t : SymTab} {ss : List Stmt} {l l' : List Stmt} (h : evalLists t ss l = .ok l') :
    l'.length = l.length := (evalLists_ok h).1

/-- the converse of `evalLists_ok`, for building a run -/
theorem evalLists_cons_ok {t : SymTab} {ss : List Stmt} {s s' : Stmt} {rest r : List Stmt}
    (h1 : evalList1 t ss s = .ok s') (h2 : evalLists t ss rest = .ok r) :
    evalLists t ss (s :: rest) = .ok (s' :: r) := by
  rw [evalLists_cons, h1]; dsimp only; rw [h2]

/-- the statement at position `j` after the pass, from the one before -/
theorem evalLists_get {t : SymTab} {ss : List Stmt} {l l' : List Stmt} (h : evalLists t ss l = .ok l')
    {j : Nat} {s' : Stmt} (hs' : l'[j]? = some s') : ∃ s, l[j]? = some s ∧ evalList1 t ss s = .ok s' := by
  obtain ⟨hl, hp⟩ := evalLists_ok h
  have hj : j < l.length := by
    rw [← hl]
    exact (List.getElem?_eq_some_iff.mp hs').1
  obtain ⟨u, h1, h2⟩ := hp j l[j] (List.getElem?_eq_getElem hj)
  rw [hs'] at h1; cases h1
  exact ⟨l[j], List.getElem?_eq_getElem hj, h2⟩

/-- `evalLists` preserves label, row, operand and every `pkg` field except `additional` -/
theorem evalLists_same {t : SymTab} {ss : List Stmt} {l l' : List Stmt} (h : evalLists t ss l = .ok l')
    {j : Nat} {s s' : Stmt} (hs : l[j]? = some s) (hs' : l'[j]? = some s') :
    ∃ v, s' = { s with pkg := { s.pkg with additional := v } } := by
  obtain ⟨u, h1, h2⟩ := evalLists_get h hs'
  rw [hs] at h1; cases h1
  exact evalList1_same h2

/-- a statement whose `additional` is not `.multiByte` / `.multiWord` is unchanged -/
theorem evalLists_keep {t : SymTab} {ss : List Stmt} {l l' : List Stmt} (h : evalLists t ss l = .ok l')
    {j : Nat} {s : Stmt} (hs : l[j]? = some s)
    (hb : ∀ hs, s.pkg.additional ≠ .multiByte hs) (hw : ∀ hs, s.pkg.additional ≠ .multiWord hs) :
    l'[j]? = some s := by
  obtain ⟨s', h1, h2⟩ := (evalLists_ok h).2 j s hs
  rw [evalList1_keep t ss hb hw] at h2
  cases h2; exact h1

/-- a program without list statements is left as it is -/
theorem evalLists_noList (t : SymTab) (ss : List Stmt) : ∀ (l : List Stmt),
    (∀ s ∈ l, (∀ hs, s.pkg.additional ≠ .multiByte hs) ∧ (∀ hs, s.pkg.additional ≠ .multiWord hs)) →
    evalLists t ss l = .ok l := by
  intro l
  induction l with
  | nil => intro _; rw [evalLists_nil]
  | cons s rest ih =>
    intro h
    exact evalLists_cons_ok (evalList1_keep t ss (h s (by simp)).1 (h s (by simp)).2)
      (ih (fun u hu => h u (by simp [hu])))

/-- an FCB list after the pass: a list of the same kind; with as many digit groups as elements it has the same
number of groups, and every group is the old one or an evaluated one of exactly 2 characters -/
theorem evalLists_additional_list {t : SymTab} {ss : List Stmt} {l l' : List Stmt} (h : evalLists t ss l = .ok l')
    {j : Nat} {s : Stmt} {hs : List Str} (hs0 : l[j]? = some s) (ha : s.pkg.additional = .multiByte hs) :
    ∃ hs', l'[j]? = some { s with pkg := { s.pkg with additional := .multiByte hs' } } ∧
      evalElems ss t 2 (listElems s.operand.text) hs = .ok hs' ∧
      ((listElems s.operand.text).length = hs.length → hs'.length = hs.length) ∧
      (∀ (k : Nat) (g : Str), hs'[k]? = some g → ∃ x g0, (listElems s.operand.text)[k]? = some x ∧ hs[k]? = some g0 ∧
        ((pendingAt 2 x = false ∧ g = g0) ∨
         (pendingAt 2 x = true ∧ evalElem ss t 2 x = .ok g ∧ g.length = 2))) := by
  obtain ⟨s', h1, h2⟩ := (evalLists_ok h).2 j s hs0
  obtain ⟨hs', h3, rfl⟩ := evalList1_multiByte ha h2
  exact ⟨hs', h1, h3, evalElems_length_eq h3, fun k g hk => evalElems_get (Or.inl rfl) h3 hk⟩

/-- the same for an FDB list: groups of exactly 4 characters -/
theorem evalLists_additional_listW {t : SymTab} {ss : List Stmt} {l l' : List Stmt} (h : evalLists t ss l = .ok l')
    {j : Nat} {s : Stmt} {hs : List Str} (hs0 : l[j]? = some s) (ha : s.pkg.additional = .multiWord hs) :
    ∃ hs', l'[j]? = some { s with pkg := { s.pkg with additional := .multiWord hs' } } ∧
      evalElems ss t 4 (listElems s.operand.text) hs = .ok hs' ∧
      ((listElems s.operand.text).length = hs.length → hs'.length = hs.length) ∧
      (∀ (k : Nat) (g : Str), hs'[k]? = some g → ∃ x g0, (listElems s.operand.text)[k]? = some x ∧ hs[k]? = some g0 ∧
        ((pendingAt 4 x = false ∧ g = g0) ∨
         (pendingAt 4 x = true ∧ evalElem ss t 4 x = .ok g ∧ g.length = 4))) := by
  obtain ⟨s', h1, h2⟩ := (evalLists_ok h).2 j s hs0
  obtain ⟨hs', h3, rfl⟩ := evalList1_multiWord ha h2
  exact ⟨hs', h1, h3, evalElems_length_eq h3, fun k g hk => evalElems_get (Or.inr rfl) h3 hk⟩

/-- `hexLen?` of the `additional` field is preserved when the list is well formed: as many groups as elements,
every group of the width of the directive (what `multi` produces) -/
theorem evalList1_hexLen {t : SymTab} {ss : List Stmt} {s s' : Stmt} (h : evalList1 t ss s = .ok s')
    (hb : ∀ hs, s.pkg.additional = .multiByte hs →
      (listElems s.operand.text).length = hs.length ∧ ∀ g ∈ hs, g.length = 2)
    (hw : ∀ hs, s.pkg.additional = .multiWord hs →
      (listElems s.operand.text).length = hs.length ∧ ∀ g ∈ hs, g.length = 4) :
    s'.pkg.additional.hexLen? = s.pkg.additional.hexLen? := by
  rcases evalList1_additional h with ⟨hs, hs', h1, h2, h3⟩ | ⟨hs, hs', h1, h2, h3⟩ | ⟨_, _, rfl⟩
  · rw [h1, h2]
    simp only [Value.hexLen?, Value.hex?, Option.map]
    rw [evalElems_flatten_length (Or.inl rfl) h3 (hb hs h1).1 (hb hs h1).2]
  · rw [h1, h2]
    simp only [Value.hexLen?, Value.hex?, Option.map]
    rw [evalElems_flatten_length (Or.inr rfl) h3 (hw hs h1).1 (hw hs h1).2]
  · rfl

/-! ### `fixAllL` -/

theorem fixAllL_length {t : SymTab} {l l' : List Stmt} (h : fixAllL t l = .ok l') : l'.length = l.length := by
  obtain ⟨x, h1, h2⟩ := fixAllL_ok.1 h
  rw [evalLists_length h2]
  clear h2 h
  -- `fixAll` preserves the length
  have : ∀ (ss : List Stmt) (l : List Stmt) (i : Nat) (x : List Stmt), fixAll ss i l = .ok x → x.length = l.length := by
    intro ss l
    induction l with
    | nil => intro i x h; simp [fixAll] at h; subst h; rfl
    | cons s rest ih =>
      intro i x h
      rw [fixAll_cons] at h
      cases h1 : fixFit ss i s with
      | ok s' =>
        rw [h1] at h; dsimp only at h
        cases h2 : fixAll ss (i + 1) rest with
        | ok r => rw [h2] at h; cases h; simp [ih _ _ h2]
        | _ => rw [h2] at h; cases h
      | _ => rw [h1] at h; cases h
  exact this _ _ _ _ h1

/-- a program without list statements after `fixAll`: `fixAllL` is `fixAll` -/
theorem fixAllL_noList {t : SymTab} {l x : List Stmt} (h : fixAll l 0 l = .ok x)
    (hx : ∀ s ∈ x, (∀ hs, s.pkg.additional ≠ .multiByte hs) ∧ (∀ hs, s.pkg.additional ≠ .multiWord hs)) :
    fixAllL t l = .ok x := by
  rw [fixAllL_of_ok h]; exact evalLists_noList t x x hx

/-! ### `internal` only through `addrOf` / `addrOffset` -/

/-- what the element `x` needs for `evalElem` to raise no internal error: once resolved, a label points at an
existing statement and a label expression is evaluated without internal error -/
def ElemOK (ss : List Stmt) (t : SymTab) (x : Str) : Prop :=
  ∀ v r, create 4 x false false true = .ok v → v.resolve t = .ok r →
    (r.isAddress = true → ∃ j a, r.int? = some j ∧ addrOf ss j = some a) ∧
    (r.isAddrExpr = true → addrOffset ss r ≠ .internal)

theorem evalElem_ne_internal {ss : List Stmt} {t : SymTab} {w : Nat} {x : Str} (hx : ElemOK ss t x) :
    evalElem ss t w x ≠ .internal := by
  unfold evalElem
  split
  · simp
  · rename_i v hv
    split
    · simp
    · rename_i r hr
      obtain ⟨h1, h2⟩ := hx v r hv hr
      dsimp only
      have hnum : (if r.isAddress = true then
            (match r.int? with
             | some j => (match addrOf ss j with | some a => Outcome.ok a | none => .internal)
             | none => .internal)
          else if r.isAddrExpr = true then addrOffset ss r else .ok r) ≠ .internal := by
        split
        · rename_i ha
          obtain ⟨j, a, hj, haj⟩ := h1 ha
          rw [hj]; dsimp only; rw [haj]; simp
        · split
          · rename_i hae; exact h2 hae
          · simp
      split
      · split
        · rename_i f hf
          obtain ⟨h, hh⟩ := EL.fitNum_hex_some hf
          rw [hh]; simp
        · simp
      · simp
      · simp
      · rename_i hd; exact absurd hd hnum
      · simp

theorem evalElems_ne_internal {ss : List Stmt} {t : SymTab} {w : Nat} : ∀ (xs hs : List Str),
    (∀ x ∈ xs, ElemOK ss t x) → evalElems ss t w xs hs ≠ .internal := by
  intro xs
  induction xs with
  | nil => intro hs _; rw [evalElems_nil_left]; simp
  | cons x xs ih =>
    intro hs hx
    cases hs with
    | nil => rw [evalElems_nil_right]; simp
    | cons h hs =>
      rw [evalElems_cons]
      have h0 : evalElem1 ss t w x h ≠ .internal := by
        unfold evalElem1
        split
        · exact evalElem_ne_internal (hx x (by simp))
        · simp
      cases h1 : evalElem1 ss t w x h with
      | internal => exact absurd h1 h0
      | ok h' =>
        dsimp only
        cases h2 : evalElems ss t w xs hs with
        | internal => exact absurd h2 (ih hs (fun y hy => hx y (by simp [hy])))
        | _ => simp
      | _ => simp

theorem evalList1_ne_internal {t : SymTab} {ss : List Stmt} {s : Stmt}
    (hx : ∀ x ∈ listElems s.operand.text, ElemOK ss t x) : evalList1 t ss s ≠ .internal := by
  unfold evalList1
  split
  · rename_i hs _
    cases h : evalElems ss t 2 (listElems s.operand.text) hs with
    | internal => exact absurd h (evalElems_ne_internal _ _ hx)
    | _ => simp
  · rename_i hs _
    cases h : evalElems ss t 4 (listElems s.operand.text) hs with
    | internal => exact absurd h (evalElems_ne_internal _ _ hx)
    | _ => simp
  · simp

/-- `evalLists` raises an internal error only through `addrOf` / `addrOffset` on a resolved list element -/
theorem evalLists_ne_internal' {t : SymTab} {ss : List Stmt} (hx : ∀ x, ElemOK ss t x) :
    ∀ (l : List Stmt), evalLists t ss l ≠ .internal := by
  intro l
  induction l with
  | nil => rw [evalLists_nil]; simp
  | cons s rest ih =>
    rw [evalLists_cons]
    cases h1 : evalList1 t ss s with
    | internal => exact absurd h1 (evalList1_ne_internal (fun x _ => hx x))
    | ok s' =>
      dsimp only
      cases h2 : evalLists t ss rest with
      | internal => exact absurd h2 ih
      | _ => simp
    | _ => simp

end CoCo.Asm
