/-
Lemmas/VFChain.lean — what a file looks like after going cassette → disk → cassette, and that each container's
listing satisfies the other container's input conditions.
-/
import CoCoVerif.Lemmas.VFCas
import CoCoVerif.Lemmas.VFDsk
import CoCoVerif.Lemmas.DiskInv

namespace CoCo.VF
open CoCo CoCo.Props

/-- a file listed from a cassette is a valid input of the disk writer (if its data fits a 16-bit length) -/
theorem casNorm_validD {f : CFile} (hv : ValidFile f) (hn : AsciiName f.name) (hl : f.data.length ≤ 65535) :
    ValidDFile (Cas.norm f) := by
  obtain ⟨_, ht, hdt, hlo, hex, hd⟩ := hv
  refine ⟨?_, ?_, ht, hdt, hlo, hex, hd, hl⟩
  · intro c hc
    simp only [Cas.norm, Cas.padName, List.mem_append, List.mem_replicate] at hc
    rcases hc with hc | hc
    · exact hn c (List.mem_of_mem_take hc)
    · omega
  · intro c hc
    simp only [Cas.norm] at hc
    split at hc <;> simp at hc <;> omega

/-- a file listed from a disk is a valid input of the cassette writer and reader (E1: if it has data) -/
theorem dskNorm_casOK {f : CFile} (hv : ValidDFile f) (hd : f.data ≠ []) :
    AsciiName (Dsk.norm f).name ∧ ValidFile (Dsk.norm f) ∧ K_C06_emptyData (Dsk.norm f).data = false := by
  obtain ⟨hn, _, ht, hdt, hlo, hex, hb, _⟩ := hv
  have hname : ∀ c ∈ (Dsk.norm f).name, c < 128 := by
    intro c hc
    simp only [Dsk.norm] at hc
    exact (Dsk.padUpper_mem 8 f.name hn c (List.mem_filter.mp hc).1).2
  refine ⟨hname, ⟨fun c hc => by have := hname c hc; omega, ht, hdt, ?_, ?_, hb⟩, ?_⟩
  · simp only [Dsk.norm]; split <;> omega
  · simp only [Dsk.norm]; split <;> omega
  · cases hdd : f.data with
    | nil => exact absurd hdd hd
    | cons _ _ => simp [Dsk.norm, K_C06_emptyData, hdd]

theorem padUpper8_padName (n : List Nat) : Dsk.padUpper 8 (Cas.padName n) = Dsk.padUpper 8 n := by
  rw [padUpper_of_length 8 _ (Cas.padName_length n)]
  rfl

/-- the name after cassette → disk → cassette: the cassette name, upper-cased -/
theorem chain_name (f : CFile) (hs : NoSpace f) :
    (Cas.norm (Dsk.norm (Cas.norm f))).name = (Cas.padName f.name).map padCh := by
  show Cas.padName ((Dsk.padUpper 8 (Cas.padName f.name)).filter (· != 0x20)) = _
  rw [padUpper8_padName, filter_padUpper 8 f.name hs]
  unfold Cas.padName
  rw [List.map_append, List.length_map, List.length_take, ← List.map_take, List.take_take, Nat.min_self]
  congr 1
  rw [List.map_replicate, padCh_space]
  congr 1
  omega

/-- **cassette → disk → cassette on one file**: data, types and (for machine language) addresses are kept;
the name is upper-cased; BASIC / ASCII files lose their (unused) addresses -/
theorem chain_file (f : CFile) (hs : NoSpace f) :
    Cas.norm (Dsk.norm (Cas.norm f)) =
      { Cas.norm f with name := (Cas.padName f.name).map padCh,
                        load := if f.ftype = 2 then f.load else 0,
                        exec := if f.ftype = 2 then f.exec else 0 } := by
  have hn := chain_name f hs
  have hk : (Dsk.kindOf f.ftype f.dtype = .ml) ↔ f.ftype = 2 := by
    unfold Dsk.kindOf
    by_cases h : f.ftype = 2
    · simp [h]
    · simp only [h, if_false]
      split <;> simp
  cases f with
  | mk name ext ftype dtype gaps load exec data =>
    simp only [Cas.norm, Dsk.norm] at hn hk ⊢
    rw [hn]
    by_cases h : ftype = 2
    · simp [h, Dsk.kindOf]
    · have hk' : ¬ Dsk.kindOf ftype dtype = .ml := fun hh => h (hk.mp hh)
      simp [h, hk']

/-- upper-case machine-language files come back exactly as a cassette lists them -/
theorem chain_file_fixed (f : CFile) (hup : ∀ c ∈ f.name, padCh c = c ∧ c ≠ 0x20) (hml : f.ftype = 2) :
    Cas.norm (Dsk.norm (Cas.norm f)) = Cas.norm f := by
  have hs : NoSpace f := by
    intro c hc
    refine ⟨(hup c hc).2, fun h0 => ?_⟩
    have := (hup c hc).1
    rw [h0] at this
    revert this
    decide
  rw [chain_file f hs]
  have hmap : (Cas.padName f.name).map padCh = Cas.padName f.name := by
    conv => rhs; rw [← List.map_id (Cas.padName f.name)]
    apply List.map_congr_left
    intro c hc
    simp only [Cas.padName, List.mem_append, List.mem_replicate] at hc
    rcases hc with hc | hc
    · exact (hup c (List.mem_of_mem_take hc)).1
    · rw [hc.2]; exact padCh_space
  cases f with
  | mk name ext ftype dtype gaps load exec data =>
    simp only [Cas.norm] at hmap hml ⊢
    simp [hmap, hml]

theorem padCh_ne_zero (c : Nat) : padCh c ≠ 0 := by
  unfold padCh
  split <;> omega

/-- a name listed from a disk has no blanks and no NULs -/
theorem dskNorm_noSpace (f : CFile) : NoSpace (Dsk.norm f) := by
  intro c hc
  simp only [Dsk.norm, List.mem_filter, bne_iff_ne, ne_eq] at hc
  refine ⟨hc.2, ?_⟩
  have := hc.1
  rw [padUpper_eq, List.mem_map] at this
  obtain ⟨x, _, rfl⟩ := this
  exact padCh_ne_zero x

/-- the name after disk → cassette → disk is the disk name -/
theorem chain_dcd_name (f : CFile) :
    (Dsk.norm (Cas.norm (Dsk.norm f))).name = (Dsk.norm f).name := by
  have hs := dskNorm_noSpace f
  show (Dsk.padUpper 8 (Cas.padName (Dsk.norm f).name)).filter (· != 0x20) = _
  rw [padUpper8_padName, filter_padUpper 8 _ hs]
  have hlen : (Dsk.norm f).name.length ≤ 8 := by
    show ((Dsk.padUpper 8 f.name).filter (· != 0x20)).length ≤ 8
    have := List.length_filter_le (· != 0x20) (Dsk.padUpper 8 f.name)
    rw [Dsk.padUpper_length] at this
    exact this
  rw [List.take_of_length_le hlen]
  conv => rhs; rw [← List.map_id (Dsk.norm f).name]
  apply List.map_congr_left
  intro c hc
  have : c ∈ Dsk.padUpper 8 f.name := (List.mem_filter.mp hc).1
  rw [padUpper_eq, List.mem_map] at this
  obtain ⟨x, _, rfl⟩ := this
  exact padCh_idem x

/-- **disk → cassette → disk on one file**: everything is kept except the extension, which a cassette does not
store (it comes back as BIN / BAS by file type) -/
theorem chain_dcd_file (f : CFile) :
    Dsk.norm (Cas.norm (Dsk.norm f)) =
      { Dsk.norm f with ext := if f.ftype = 2 then [66, 73, 78] else [66, 65, 83] } := by
  have hn := chain_dcd_name f
  have hext : Dsk.padUpper 3 (if f.ftype = 2 then [66, 73, 78] else [66, 65, 83]) =
      if f.ftype = 2 then [66, 73, 78] else [66, 65, 83] := by
    split <;> decide
  cases f with
  | mk name ext ftype dtype gaps load exec data =>
    simp only [Cas.norm, Dsk.norm] at hn hext ⊢
    rw [hn, hext]
    by_cases hk : Dsk.kindOf ftype dtype = .ml <;> simp [hk]

theorem filter_selected_none (l : List CFile) : l.filter (selected none) = l := by
  simp [selected]

end CoCo.VF
