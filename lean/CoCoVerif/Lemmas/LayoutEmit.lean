/-
Lemmas/LayoutEmit.lean — the bytes emitted for a branch field: one byte for the 8-bit form, two bytes
(big endian) for the 16-bit form.
-/
import CoCoVerif.Lemmas.LayoutEval

namespace CoCo.Asm
open CoCo

theorem natHexF_small (f v : Nat) (h : v < 16) : natHexF (f + 1) v = [v] := by simp [natHexF, h]
theorem natHexF_step (f v : Nat) (h : ¬ v < 16) : natHexF (f + 1) v = natHexF f (v / 16) ++ [v % 16] := by
  simp [natHexF, h]

theorem hexChar_zero : hexChar 0 = '0' := by decide
theorem emit_digitVal_hexChar : ∀ n, n < 16 → digitVal (hexChar n) = n := by decide

theorem fmtHex4 (d : Nat) (h : d < 65536) :
    fmtHex 4 d = [hexChar (d / 4096), hexChar (d / 256 % 16), hexChar (d / 16 % 16), hexChar (d % 16)] := by
  unfold fmtHex
  by_cases h1 : d < 16
  · rw [natHexF_small _ _ h1]
    have e1 : d / 4096 = 0 := by omega
    have e2 : d / 256 % 16 = 0 := by omega
    have e3 : d / 16 % 16 = 0 := by omega
    have e4 : d % 16 = d := by omega
    simp [e1, e2, e3, e4, hexChar_zero, List.replicate]
  · rw [natHexF_step _ _ h1]
    by_cases h2 : d / 16 < 16
    · rw [natHexF_small _ _ h2]
      have e1 : d / 4096 = 0 := by omega
      have e2 : d / 256 % 16 = 0 := by omega
      have e3 : d / 16 % 16 = d / 16 := by omega
      simp [e1, e2, e3, hexChar_zero, List.replicate]
    · rw [natHexF_step _ _ h2]
      by_cases h3 : d / 16 / 16 < 16
      · rw [natHexF_small _ _ h3]
        have e1 : d / 4096 = 0 := by omega
        have e2 : d / 256 % 16 = d / 16 / 16 := by omega
        simp [e1, e2, hexChar_zero]
      · rw [natHexF_step _ _ h3]
        have h4 : d / 16 / 16 / 16 < 16 := by omega
        rw [natHexF_small _ _ h4]
        have e1 : d / 4096 = d / 16 / 16 / 16 := by omega
        have e2 : d / 256 % 16 = d / 16 / 16 % 16 := by omega
        simp [e1, e2]

theorem emit16 (d : Nat) (h : d < 65536) : emitValue (branchValue false d) = some [d / 256, d % 256] := by
  have hx : (branchValue false d).hex? = some (fmtHex 4 d) := by
    simp [branchValue, Value.hex?, numHex, getNegative]
  have hl : (branchValue false d).hexLen? = some 4 := by
    simp [branchValue, Value.hexLen?, numHexLen]
  unfold emitValue
  rw [hx, hl]
  simp only [emitHex, fmtHex4 d h, emitPairs]
  have b1 : d / 4096 < 16 := by omega
  have b2 : d / 256 % 16 < 16 := by omega
  have b3 : d / 16 % 16 < 16 := by omega
  have b4 : d % 16 < 16 := by omega
  rw [emit_digitVal_hexChar _ b1, emit_digitVal_hexChar _ b2, emit_digitVal_hexChar _ b3, emit_digitVal_hexChar _ b4]
  simp only [List.reverse_cons, List.reverse_nil, List.nil_append, List.cons_append, Option.some.injEq,
    List.cons.injEq, and_true]
  omega

theorem emit8 : ∀ d, d < 256 → emitValue (branchValue true d) = some [d] := by decide +kernel

/-- the last bytes of a statement are the bytes of its `additional` field -/
theorem stmtBytes_suffix {s : Stmt} {bs tail : Bytes} (h : stmtBytes s = some bs)
    (ht : emitValue s.pkg.additional = some tail) : ∃ pre, bs = pre ++ tail := by
  unfold stmtBytes at h
  cases h1 : emitValue s.pkg.opCode with
  | none => simp [h1] at h
  | some a =>
    cases h2 : emitValue s.pkg.postByte with
    | none => simp [h1, h2] at h
    | some b =>
      simp [h1, h2, ht] at h
      exact ⟨a ++ b, by rw [← h]; simp⟩

end CoCo.Asm
