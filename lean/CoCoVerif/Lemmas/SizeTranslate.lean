/-
Lemmas/SizeTranslate.lean — the shape of the code package `translateOperand` builds (property C02,
"bytes = size"): op code and post byte are absent or numbers out of `numV`; the operand field is either absent
(and then `2 * size` is the number of digits of op code and post byte), or will be turned into a number by
`fix_addresses`, or is a literal list whose length is the size.  Table facts about sizes by `decide +kernel`.
-/
import CoCoVerif.Lemmas.SizeShape

namespace CoCo.Asm
open CoCo
open CoCo.Gen (InstrRow)

/-! ### the instruction table -/

/-- `2 * size = digits of the op code + extra` for an op code cell that exists -/
def szOk (c : Option Nat) (sz extra : Nat) : Bool :=
  match opVal c with
  | .ok v => 2 * sz == hl v + extra
  | .error _ => true

/-- the size columns of a row agree with the op code columns; classes of rows -/
def rowFacts (r : InstrRow) : Bool :=
  (r.inh == some 0 || szOk r.inh r.inhSz 0) &&
  (r.ind == some 0 || szOk r.ind r.indSz 2) &&
  (!r.isSpecial || (szOk r.imm r.immSz 2 && !r.isPseudo)) &&
  (r.isPseudo || !r.isStringDefine) &&
  (!(r.isMultiByte || r.isMultiWord) || (isDataRow r && !r.isStringDefine && r.isPseudo)) &&
  (!(r.mnemonic == "FCB") || (r.isMultiByte && !r.isMultiWord)) &&
  (!(r.mnemonic == "FDB") || (r.isMultiWord && !r.isMultiByte)) &&
  (!r.isMultiByte || r.mnemonic == "FCB") &&
  (!r.isMultiWord || r.mnemonic == "FDB")

theorem rowFacts_all : ∀ r ∈ Gen.instructions, rowFacts r = true := by decide +kernel

theorem szOk_use {c : Option Nat} {sz extra : Nat} {v : Value} (h : szOk c sz extra = true) (hv : opVal c = .ok v) :
    2 * sz = hl v + extra := by
  unfold szOk at h
  rw [hv] at h
  simpa using h

/-! ### small numbers -/

theorem numV_hl {n : Nat} {v : Value} (h : numV n = .ok v) (hn : n < 256) : hl v = 2 := by
  unfold numV numericOfInt at h
  split at h
  · cases h
  · simp only [Except.ok.injEq] at h
    subst h
    have h2 : ¬ ((n : Int) < 0) := by omega
    simp [hl, Value.hexLen?, numHexLen, postInit, initHint, hn]

theorem numV_isNumeric {n : Nat} {v : Value} (h : numV n = .ok v) : v.isNumeric = true :=
  numericOfInt_isNumeric h

theorem sz_regBits_lt (r : Str) : regBits r < 128 := by
  unfold regBits
  split <;> split <;> split <;> decide

theorem sz_or_lt {a b : Nat} (ha : a < 256) (hb : b < 256) : a ||| b < 256 :=
  Nat.or_lt_two_pow (n := 8) ha hb

/-! ### the package -/

/-- the operand field of a translated package -/
def FieldShape (o : Operand) (p : Pkg) : Prop :=
  (p.additional = .none ∧ 2 * p.size = hl p.opCode + hl p.postByte ∧ p.choices = [])
  ∨ (p.additional = o.value ∧ Fieldable o.value)
  ∨ p.additional.isNumeric = true
  ∨ p.needsRes = true
  ∨ (p.opCode = .none ∧ p.postByte = .none ∧ p.choices = [] ∧
      ∃ hs, ((p.additional = .multiByte hs ∧ ∀ g ∈ hs, g.length = 2) ∨
          (p.additional = .multiWord hs ∧ ∀ g ∈ hs, g.length = 4)) ∧ o.value = p.additional ∧ o.kind = .pseudo ∧
        hs.flatten.length % 2 = 0 ∧ p.size = hs.flatten.length / 2)

/-- a package that is resolved later and has no post byte choices (batch B3: a label as constant offset of a pointer
register) has room for a 16-bit field: `2 * size` = the digits of op code and post byte, and four more -/
def LabelRoom (p : Pkg) : Prop :=
  p.needsRes = true → p.choices = [] → 2 * p.size = hl p.opCode + hl p.postByte + 4

structure PkgShape (o : Operand) (p : Pkg) : Prop where
  op : CodeVal p.opCode
  pb : CodeVal p.postByte
  fld : FieldShape o p
  lbl : LabelRoom p

/-! ### constant offsets -/

/-- `translateOffset` after the offset value `l` and the flag `needs` have been determined -/
def szOffBody (ind : Bool) (row : InstrRow) (right : Str) (raw0 : Nat) (needs : Bool) (l : Value) : R Pkg := do
  let base := if ind then 0x90 else 0x80
  let op ← opVal row.ind
  let size := row.indSz
  if hasSub (str "PCR") right then
    if needs then
      let pb ← numV raw0
      return { opCode := op, postByte := pb, additional := l, size := size, maxSize := size + 2, needsRes := true,
               choices := [base + 0x0C, base + 0x0D] }
    else
      let e ← if l.mode == .extended then pure true else
        (match l with
         | .numeric i _ _ neg => pure (!(is4Bit i neg || is8Bit i neg))
         | _ => throw .other)
      let sz := size + (if e then 2 else 1)
      let pb ← numV (raw0 ||| (if e then base + 0x0D else base + 0x0C))
      return { opCode := op, postByte := pb, additional := l, size := sz, maxSize := sz }
  else if needs then
    let pb ← numV (raw0 ||| (base + 0x09))
    return { opCode := op, postByte := pb, additional := l, size := size + 2, maxSize := size + 2, needsRes := true }
  else
    match l with
    | .numeric i _ _ neg =>
      if neg then
        if !ind && is4Bit i neg then
          let pb ← numV (raw0 ||| 0x10 ||| (0x10 - i))
          return { opCode := op, postByte := pb, additional := .none, size := size, maxSize := size, needsRes := needs }
        else if is8Bit i neg then
          let pb ← numV (raw0 ||| (base + 0x08))
          let a ← numV (0x100 - i)
          return { opCode := op, postByte := pb, additional := a, size := size + 1, maxSize := size + 1, needsRes := needs }
        else
          let pb ← numV (raw0 ||| (base + 0x09))
          let a ← numericOfInt ((0x10000 : Int) - i) none .none
          return { opCode := op, postByte := pb, additional := a, size := size + 2, maxSize := size + 2, needsRes := needs }
      else if !ind && is4Bit i neg then
        let pb ← numV (raw0 ||| i)
        return { opCode := op, postByte := pb, additional := .none, size := size, maxSize := size, needsRes := needs }
      else if is8Bit i neg then
        let pb ← numV (raw0 ||| (base + 0x08))
        return { opCode := op, postByte := pb, additional := l, size := size + 1, maxSize := size + 1, needsRes := needs }
      else
        let pb ← numV (raw0 ||| (base + 0x09))
        let a ← numericOfInt i (some 4) .none
        return { opCode := op, postByte := pb, additional := a, size := size + 2, maxSize := size + 2, needsRes := needs }
    | _ => throw .other

theorem translateOffset_szEq (ind : Bool) (row : InstrRow) (left : Value) (right : Str) (raw0 : Nat) :
    translateOffset ind row left right raw0 =
      if (hasSub ['+'] right || hasSub ['-'] right) = true then .error .operandType
      else match left with
        | .pyNone => .error .other
        | .address i _ => (match numV i with | .ok l => szOffBody ind row right raw0 true l | .error e => .error e)
        | v => szOffBody ind row right raw0 (v.isExpression || v.isAddrExpr) v := by
  unfold translateOffset
  by_cases hc : (hasSub ['+'] right || hasSub ['-'] right) = true
  · rw [if_pos hc]; dsimp only; rw [if_pos hc]; rfl
  · rw [if_neg hc]; dsimp only; rw [if_neg hc]
    cases left with
    | pyNone => rfl
    | address i m =>
      dsimp only [bind, Except.bind]
      cases numV i with
      | error e => rfl
      | ok l =>
        dsimp only
        cases l.isExpression <;> cases l.isAddrExpr <;> rfl
    | expr l r op m ae => cases ae <;> rfl
    | _ => rfl

/-- op code, post byte and field class of a constant-offset package.  The field is a number, or absent with
`2 * size` = the digits of op code and post byte, or the statement is resolved later (`needsRes`) -/
def OffShape (p : Pkg) : Prop :=
  CodeVal p.opCode ∧ CodeVal p.postByte ∧
    ((p.additional = .none ∧ 2 * p.size = hl p.opCode + hl p.postByte ∧ p.choices = []) ∨
      p.additional.isNumeric = true ∨ p.needsRes = true) ∧ LabelRoom p

theorem szOffBody_shape {ind : Bool} {row : InstrRow} {right : Str} {raw0 : Nat} {needs : Bool} {l : Value} {p : Pkg}
    (hraw : raw0 < 256) (hl : needs = false → l.isNumeric = true) (hrow : szOk row.ind row.indSz 2 = true)
    (h : szOffBody ind row right raw0 needs l = .ok p) : OffShape p := by
  unfold szOffBody at h
  simp only [bind, Except.bind, pure, Except.pure, throw, throwThe, MonadExceptOf.throw] at h
  split at h
  · cases h
  · rename_i op hop
    have hsz := szOk_use hrow hop
    have hcop := opVal_codeVal hop
    split at h
    · split at h
      · split at h
        · cases h
        · rename_i pb hpb
          cases h
          exact ⟨hcop, .inr ⟨_, hpb⟩, .inr (.inr rfl), fun _ hc => by cases hc⟩
      · rename_i hn
        have hnum := hl (by simpa using hn)
        repeat' split at h
        all_goals first
          | (cases h; done)
          | (cases h; exact ⟨hcop, .inr ⟨_, by assumption⟩, .inr (.inl hnum), fun hn => by cases hn⟩)
    · split at h
      · -- a label as constant offset: resolved later
        split at h
        · cases h
        · rename_i pb hpb
          cases h
          refine ⟨hcop, .inr ⟨_, hpb⟩, .inr (.inr rfl), fun _ _ => ?_⟩
          have hlt : raw0 ||| ((if ind = true then 144 else 128) + 9) < 256 := sz_or_lt hraw (by split <;> decide)
          show 2 * (row.indSz + 2) = CoCo.Asm.hl op + CoCo.Asm.hl pb + 4
          rw [numV_hl hpb hlt]; omega
      · rename_i hneeds
        have hlr : ∀ {q : Pkg}, q.needsRes = needs → LabelRoom q := fun e hn => by
          rw [e] at hn; exact absurd hn hneeds
        split at h
        · rename_i i _ _ neg
          have h4 : ∀ {x}, (!ind && is4Bit i neg) = true → numV x = .ok p.postByte → x < 256 →
              p.opCode = op → p.size = row.indSz → p.additional = .none → p.choices = [] → p.needsRes = needs →
              OffShape p := by
            intro x _ hx hlt e1 e2 e3 e4 e5
            refine ⟨by rw [e1]; exact hcop, .inr ⟨_, hx⟩, .inl ⟨e3, ?_, e4⟩, hlr e5⟩
            rw [e1, e2, numV_hl hx hlt]; exact hsz
          have b1 : raw0 ||| 16 ||| (16 - i) < 256 := sz_or_lt (sz_or_lt hraw (by decide)) (by omega)
          have b2 : (!ind && is4Bit i neg) = true → raw0 ||| i < 256 := by
            intro hc
            simp only [Bool.and_eq_true, is4Bit] at hc
            have : i ≤ 16 := by
              have := hc.2
              split at this <;> simp at this <;> omega
            exact sz_or_lt hraw (by omega)
          repeat' split at h
          all_goals first
            | (cases h; done)
            | (cases h
               refine h4 (by assumption) (by assumption) ?_ rfl rfl rfl rfl rfl
               first | exact b1 | exact b2 (by assumption))
            | (cases h
               exact ⟨hcop, .inr ⟨_, by assumption⟩, .inr (.inl (numV_isNumeric (by assumption))), hlr rfl⟩)
            | (cases h
               exact ⟨hcop, .inr ⟨_, by assumption⟩, .inr (.inl (numericOfInt_isNumeric (by assumption))), hlr rfl⟩)
            | (cases h
               exact ⟨hcop, .inr ⟨_, by assumption⟩, .inr (.inl rfl), hlr rfl⟩)
        · cases h

theorem translateOffset_shape {ind : Bool} {row : InstrRow} {left : Value} {right : Str} {raw0 : Nat} {p : Pkg}
    (hraw : raw0 < 256) (hleft : Fieldable left) (hrow : szOk row.ind row.indSz 2 = true)
    (h : translateOffset ind row left right raw0 = .ok p) : OffShape p := by
  rw [translateOffset_szEq] at h
  split at h
  · cases h
  · split at h
    · cases h
    · split at h
      · exact szOffBody_shape hraw (by simp) hrow h
      · cases h
    · rename_i hnp hna
      refine szOffBody_shape hraw ?_ hrow h
      intro hn
      simp only [Bool.or_eq_false_iff] at hn
      rcases hleft with h' | h' | h'
      · exact h'
      · cases left <;> first | exact absurd rfl (hna _ _) | cases h'
      · rw [hn.2] at h'; cases h'

theorem OffShape.toPkg {o : Operand} {p : Pkg} (h : OffShape p) : PkgShape o p :=
  ⟨h.1, h.2.1, by
    rcases h.2.2.1 with h | h | h
    · exact .inl h
    · exact .inr (.inr (.inl h))
    · exact .inr (.inr (.inr (.inl h))), h.2.2.2⟩

/-- closes goals `x < 256` for post bytes assembled with `|||` from register bits and constants -/
theorem sz_regBits_lt256 (r : Str) : regBits r < 256 := Nat.lt_trans (sz_regBits_lt r) (by decide)

macro "lt256" : tactic =>
  `(tactic| repeat (first
      | apply sz_or_lt
      | exact sz_regBits_lt256 _
      | omega
      | split))

theorem ind_szOk {row : InstrRow} (hrow : rowFacts row = true) (h : ¬ (row.ind.isNone || row.ind == some 0) = true) :
    szOk row.ind row.indSz 2 = true := by
  unfold rowFacts at hrow
  simp only [Bool.and_eq_true, Bool.or_eq_true] at hrow
  rcases hrow.1.1.1.1.1.1.1.2 with h' | h'
  · simp [h'] at h
  · exact h'

/-- a package without operand field: op code of the row's indexed column, a one-byte post byte -/
theorem noField_shape {o : Operand} {row : InstrRow} {p : Pkg} {op pb : Value} {x : Nat}
    (hsz : szOk row.ind row.indSz 2 = true) (hop : opVal row.ind = .ok op) (hpb : numV x = .ok pb) (hx : x < 256)
    (e1 : p.opCode = op) (e2 : p.postByte = pb) (e3 : p.additional = .none) (e4 : p.size = row.indSz)
    (e5 : p.choices = []) (e6 : p.needsRes = false) : PkgShape o p := by
  refine ⟨by rw [e1]; exact opVal_codeVal hop, by rw [e2]; exact .inr ⟨_, hpb⟩, .inl ⟨e3, ?_, e5⟩,
    fun hn => by rw [e6] at hn; cases hn⟩
  rw [e1, e2, e4, numV_hl hpb hx]
  exact szOk_use hsz hop

/-- "PCR needs an offset": the check of `translateIndexed` / `translateExtIndirect` -/
def pcrNoOffset (o : Operand) (right : Str) : Bool :=
  right == str "PCR" && (match o.left with | .text l => l.isEmpty || isABD l | _ => false)

/-- `translateIndexed` after the checks on the index register -/
def szIdxBody (o : Operand) (row : InstrRow) (right : Str) : R Pkg := do
  let raw := regBits right
  let noOffset := match o.left with
    | .text [] => true
    | .val (.numeric 0 _ _ _) => !(hasSub (str "PCR") right)
    | _ => false
  let op ← opVal row.ind
  if noOffset then
    let mut raw := raw ||| 0x80
    if hasSub ['-'] right || hasSub ['+'] right then
      if hasSub (str "++") right then raw := raw ||| 0x01
      if hasSub ['-'] right then raw := raw ||| 0x02
      if hasSub (str "--") right then raw := raw ||| 0x03
    else raw := raw ||| 0x04
    let pb ← numV raw
    return { opCode := op, postByte := pb, size := row.indSz, maxSize := row.indSz }
  else
    match o.left with
    | .text l =>
      if isABD l then
        if hasSub ['+'] right || hasSub ['-'] right then throw .operandType
        let raw := raw ||| 0x80 ||| (if l == ['A'] then 0x06 else if l == ['B'] then 0x05 else 0x0B)
        let pb ← numV raw
        return { opCode := op, postByte := pb, size := row.indSz, maxSize := row.indSz }
      else throw .other
    | .val v => translateOffset false row v right raw
    | .noneV => throw .other

theorem translateIndexed_szEq (o : Operand) (row : InstrRow) :
    translateIndexed o row =
      if (row.ind.isNone || row.ind == some 0) = true then .error .operandType else
      match o.right with
      | none => .error .other
      | some right =>
        if (!validIndexReg right) = true then .error .operandType
        else if pcrNoOffset o right = true then .error .operandType
        else szIdxBody o row right := by
  unfold translateIndexed
  by_cases h0 : (row.ind.isNone || row.ind == some 0) = true
  · rw [if_pos h0]; dsimp only; rw [if_pos h0]; rfl
  · rw [if_neg h0]; dsimp only; rw [if_neg h0]
    cases o.right with
    | none => rfl
    | some right =>
      dsimp only [bind, Except.bind, pure, Except.pure]
      by_cases h1 : (!validIndexReg right) = true
      · rw [if_pos h1, if_pos h1]; rfl
      · rw [if_neg h1, if_neg h1]
        show (if pcrNoOffset o right = true then _ else _) = _
        by_cases h2 : pcrNoOffset o right = true
        · rw [if_pos h2, if_pos h2]; rfl
        · rw [if_neg h2, if_neg h2]; rfl
/-- `translateExtIndirect` after the checks on the index register -/
def szExtBody (o : Operand) (row : InstrRow) (op : Value) (right : Str) : R Pkg := do
  let raw := 0x80 ||| regBits right
  let noOffset := match o.left with
    | .text [] => true
    | .val (.numeric 0 _ _ _) => !(hasSub (str "PCR") right)
    | _ => false
  if noOffset then
    let mut raw := raw
    if hasSub ['-'] right || hasSub ['+'] right then
      if right == str "X+" || right == str "Y+" || right == str "U+" || right == str "S+" then throw .operandType
      if right == str "-X" || right == str "-Y" || right == str "-U" || right == str "-S" then throw .operandType
      if hasSub (str "++") right then raw := raw ||| 0x11
      if hasSub (str "--") right then raw := raw ||| 0x13
    else raw := raw ||| 0x14
    let pb ← numV raw
    return { opCode := op, postByte := pb, size := row.indSz, maxSize := row.indSz }
  else
    match o.left with
    | .text l =>
      if isABD l then
        if hasSub ['+'] right || hasSub ['-'] right then throw .operandType
        let raw := raw ||| (if l == ['A'] then 0x16 else if l == ['B'] then 0x15 else 0x1B)
        let pb ← numV raw
        return { opCode := op, postByte := pb, size := row.indSz, maxSize := row.indSz }
      else
        let v ← createV l false false
        translateOffset true row v right raw
    | .val v => translateOffset true row v right raw
    | .noneV => throw .other

theorem translateExtIndirect_szEq (o : Operand) (row : InstrRow) :
    translateExtIndirect o row =
      if (row.ind.isNone || row.ind == some 0) = true then .error .operandType else
      match opVal row.ind with
      | .error e => .error e
      | .ok op =>
        if (o.value.isAddress || o.value.isAddrExpr || o.value.isNumeric) = true then
          (match numV 0x9F with
           | .error e => .error e
           | .ok pb => .ok { opCode := op, postByte := pb, additional := o.value, size := row.indSz + 2,
                             maxSize := row.indSz + 2 })
        else
        match o.right with
        | none => .error .other
        | some right =>
          if (!validIndexReg right) = true then .error .operandType
          else if pcrNoOffset o right = true then .error .operandType
          else szExtBody o row op right := by
  unfold translateExtIndirect
  by_cases h0 : (row.ind.isNone || row.ind == some 0) = true
  · rw [if_pos h0]; dsimp only; rw [if_pos h0]; rfl
  · rw [if_neg h0]; dsimp only; rw [if_neg h0]
    dsimp only [bind, Except.bind, pure, Except.pure]
    cases opVal row.ind with
    | error e => rfl
    | ok op =>
      dsimp only
      by_cases ha : (o.value.isAddress || o.value.isAddrExpr || o.value.isNumeric) = true
      · rw [if_pos ha, if_pos ha]; rfl
      · rw [if_neg ha, if_neg ha]
        cases o.right with
        | none => rfl
        | some right =>
          dsimp only
          by_cases h1 : (!validIndexReg right) = true
          · rw [if_pos h1, if_pos h1]; rfl
          · rw [if_neg h1, if_neg h1]
            show (if pcrNoOffset o right = true then _ else _) = _
            by_cases h2 : pcrNoOffset o right = true
            · rw [if_pos h2, if_pos h2]; rfl
            · rw [if_neg h2, if_neg h2]; rfl

theorem translateIndexed_shape {o : Operand} {row : InstrRow} {p : Pkg} (hrow : rowFacts row = true)
    (h1 : OpShape1 row o) (h : translateIndexed o row = .ok p) : PkgShape o p := by
  rw [translateIndexed_szEq] at h
  split at h
  · cases h
  · rename_i hind
    have hsz := ind_szOk hrow hind
    split at h
    · cases h
    · split at h
      · cases h
      · split at h
        · cases h
        · unfold szIdxBody at h
          simp only [bind, Except.bind, pure, Except.pure, throw, throwThe, MonadExceptOf.throw] at h
          repeat' split at h
          all_goals first
            | (cases h; done)
            | (cases h
               refine noField_shape hsz (by assumption) (by assumption) ?_ rfl rfl rfl rfl rfl rfl
               lt256)
            | (exact (translateOffset_shape (sz_regBits_lt256 _) (h1.left1 _ (by assumption)) hsz h).toPkg)

theorem translateExtIndirect_shape {o : Operand} {row : InstrRow} {p : Pkg} (hrow : rowFacts row = true)
    (h1 : OpShape1 row o) (h : translateExtIndirect o row = .ok p) : PkgShape o p := by
  rw [translateExtIndirect_szEq] at h
  split at h
  · cases h
  · rename_i hind
    have hsz := ind_szOk hrow hind
    split at h
    · cases h
    · rename_i op hop
      split at h
      · rename_i hcond
        split at h
        · cases h
        · rename_i pb hpb
          cases h
          exact ⟨opVal_codeVal hop, .inr ⟨_, hpb⟩, .inr (.inl ⟨rfl, by
            simp only [Bool.or_eq_true] at hcond
            rcases hcond with (hc | hc) | hc
            · exact .inr (.inl hc)
            · exact .inr (.inr hc)
            · exact .inl hc⟩), fun hn => by cases hn⟩
      · split at h
        · cases h
        · split at h
          · cases h
          · split at h
            · cases h
            · unfold szExtBody at h
              simp only [bind, Except.bind, pure, Except.pure, throw, throwThe, MonadExceptOf.throw] at h
              repeat' split at h
              all_goals first
                | (cases h; done)
                | (cases h
                   refine noField_shape hsz hop (by assumption) ?_ rfl rfl rfl rfl rfl rfl
                   lt256)
                | (exact (translateOffset_shape (by lt256) (h1.left1 _ (by assumption)) hsz h).toPkg)
                | (exfalso
                   first
                     | exact absurd rfl (by assumption : ¬ true = true)
                     | (rcases h1.left2 _ (by assumption) with hl | hl
                        · subst hl
                          exact (by assumption : o.left = Side.text [] → False) (by assumption)
                        · exact absurd hl (by assumption)))
                | (exfalso
                   have e1 : ∃ l, o.left = Side.text l := ⟨_, by assumption⟩
                   have e2 : ∃ v, o.left = Side.val v := ⟨_, by assumption⟩
                   obtain ⟨l, e1⟩ := e1
                   obtain ⟨v, e2⟩ := e2
                   rw [e1] at e2; cases e2)

/-! ### FCB / FDB -/

theorem Fieldable.not_multi {v : Value} (h : Fieldable v) : v.isMultiByte = false ∧ v.isMultiWord = false ∧ v ≠ .pyNone := by
  cases v <;> first
    | (rcases h with h | h | h <;> cases h; done)
    | exact ⟨rfl, rfl, by simp⟩

theorem translatePseudo_fcb {o : Operand} {row : InstrRow} {p : Pkg} (hm : row.mnemonic = "FCB")
    (hmb : row.isMultiByte = true) (hd : DataShape row o.value) (h : translatePseudo o row = .ok p)
    (hkp : o.kind = .pseudo) :
    PkgShape o p := by
  unfold translatePseudo at h
  have e1 : (("FCB" : String) == "FCB") = true := by decide
  simp only [hm, e1, bind, Except.bind, pure, Except.pure, if_true] at h
  rcases hd with hf | ⟨_, hs, hv, hl⟩ | ⟨hc, _⟩
  · obtain ⟨n1, _, n3⟩ := hf.not_multi
    rw [n1] at h
    split at h
    · cases h
    · simp only [Bool.false_eq_true, if_false] at h
      cases h
      exact ⟨.inl rfl, .inl rfl, .inr (.inl ⟨rfl, hf⟩), fun hn => by cases hn⟩
  · rw [hv] at h
    simp only [Value.isMultiByte, if_true, Value.byteLen?, Value.hexLen?, Value.hex?, Option.map] at h
    cases h
    have hlen := flatten_length_const hs hl
    refine ⟨.inl rfl, .inl rfl, .inr (.inr (.inr (.inr ⟨rfl, rfl, rfl, hs, .inl ⟨?_, hl⟩, hv, hkp, ?_, ?_⟩))), fun hn => by cases hn⟩
    · rfl
    · rw [hlen]; omega
    · rfl
  · rw [hmb] at hc; cases hc

theorem translatePseudo_fdb {o : Operand} {row : InstrRow} {p : Pkg} (hm : row.mnemonic = "FDB")
    (hmb : row.isMultiByte = false) (hd : DataShape row o.value) (h : translatePseudo o row = .ok p)
    (hkp : o.kind = .pseudo) :
    PkgShape o p := by
  unfold translatePseudo at h
  have e1 : (("FDB" : String) == "FCB") = false := by decide
  have e2 : (("FDB" : String) == "FDB") = true := by decide
  simp only [hm, e1, e2, bind, Except.bind, pure, Except.pure, if_true, Bool.false_eq_true, if_false] at h
  rcases hd with hf | ⟨hc, _⟩ | ⟨_, _, hs, hv, hl⟩
  · obtain ⟨_, n2, n3⟩ := hf.not_multi
    rw [n2] at h
    split at h
    · cases h
    · simp only [Bool.false_eq_true, if_false] at h
      cases h
      exact ⟨.inl rfl, .inl rfl, .inr (.inl ⟨rfl, hf⟩), fun hn => by cases hn⟩
  · rw [hmb] at hc; cases hc
  · rw [hv] at h
    simp only [Value.isMultiWord, if_true, Value.byteLen?, Value.hexLen?, Value.hex?, Option.map] at h
    cases h
    have hlen := flatten_length_const hs hl
    refine ⟨.inl rfl, .inl rfl, .inr (.inr (.inr (.inr ⟨rfl, rfl, rfl, hs, .inr ⟨?_, hl⟩, hv, hkp, ?_, ?_⟩))), fun hn => by cases hn⟩
    · rfl
    · rw [hlen]; omega
    · rfl

/-! ### every class that `fitWidth` looks at -/

theorem rowFacts_multi {row : InstrRow} (hrow : rowFacts row = true) :
    (row.isMultiByte = true → row.mnemonic = "FCB") ∧ (row.isMultiWord = true → row.mnemonic = "FDB") ∧
    (row.mnemonic = "FDB" → row.isMultiByte = false) ∧
    ((row.isMultiByte || row.isMultiWord) = true → isDataRow row = true ∧ row.isStringDefine = false) ∧
    (row.isPseudo = false → row.isStringDefine = false) ∧
    (row.isSpecial = true → row.isPseudo = false) ∧
    (row.mnemonic = "FCB" → row.isMultiByte = true) ∧ (row.mnemonic = "FDB" → row.isMultiWord = true) := by
  unfold rowFacts at hrow
  simp only [Bool.and_eq_true, Bool.or_eq_true, Bool.not_eq_true', beq_iff_eq] at hrow
  obtain ⟨⟨⟨⟨⟨⟨⟨⟨_, _⟩, h3⟩, h4⟩, h5⟩, h6⟩, h7⟩, h8⟩, h9⟩ := hrow
  refine ⟨fun h => ?_, fun h => ?_, fun h => ?_, fun h => ?_, fun h => ?_, fun h => ?_, fun h => ?_, fun h => ?_⟩
  · rcases h8 with h' | h'
    · rw [h] at h'; cases h'
    · exact h'
  · rcases h9 with h' | h'
    · rw [h] at h'; cases h'
    · exact h'
  · rcases h7 with h' | h'
    · rw [h] at h'; exact absurd h' (by decide)
    · exact h'.2
  · rcases h5 with h' | h'
    · simp only [Bool.or_eq_false_iff] at h'
      rcases (Bool.or_eq_true _ _).mp h with h'' | h''
      · rw [h'.1] at h''; cases h''
      · rw [h'.2] at h''; cases h''
    · exact ⟨h'.1.1, h'.1.2⟩
  · rcases h4 with h' | h'
    · rw [h] at h'; cases h'
    · exact h'
  · rcases h3 with h' | h'
    · rw [h] at h'; cases h'
    · exact h'.2
  · rcases h6 with h' | h'
    · rw [h] at h'; exact absurd h' (by decide)
    · exact h'.1
  · rcases h7 with h' | h'
    · rw [h] at h'; exact absurd h' (by decide)
    · exact h'.1

theorem translateOperand_shape {o : Operand} {row : InstrRow} {p : Pkg} (hrow : rowFacts row = true)
    (h1 : OpShape1 row o) (hns : fitSkipped row = false) (hkp : o.kind = .pseudo → row.isPseudo = true)
    (hks : o.kind = .special → row.isSpecial = true) (h : translateOperand o row = .ok p) : PkgShape o p := by
  unfold fitSkipped at hns
  simp only [Bool.or_eq_false_iff, Bool.and_eq_false_iff, Bool.not_eq_false'] at hns
  obtain ⟨f1, f2, f3, _, _, _, _, _⟩ := rowFacts_multi hrow
  cases hk : o.kind with
  | unknown => exact absurd hk h1.known
  | special => have := hks hk; rw [hns.2] at this; cases this
  | pseudo =>
    have hp := hkp hk
    have hm : (row.isMultiByte || row.isMultiWord) = true := by
      rcases hns.1 with h' | h'
      · rw [hp] at h'; cases h'
      · exact h'
    have hd := h1.data hk hm
    unfold translateOperand at h
    rw [hk] at h
    dsimp only at h
    cases hmb : row.isMultiByte with
    | true => exact translatePseudo_fcb (f1 hmb) hmb hd h hk
    | false =>
      rw [hmb] at hm
      exact translatePseudo_fdb (f2 (by simpa using hm)) hmb hd h hk
  | relative =>
    obtain ⟨t1, t2, _, t4, t5, t6, _⟩ := translate_relative h hk
    exact ⟨opVal_codeVal t4, by rw [t5]; exact .inl rfl, .inr (.inl ⟨t1, .inr (.inl t2)⟩),
      fun hn => by rw [t6] at hn; cases hn⟩
  | indexed =>
    unfold translateOperand at h; rw [hk] at h
    exact translateIndexed_shape hrow h1 h
  | extIndirect =>
    unfold translateOperand at h; rw [hk] at h
    exact translateExtIndirect_shape hrow h1 h
  | inherent =>
    unfold translateOperand at h
    rw [hk] at h
    simp only [bind, Except.bind, pure, Except.pure, throw, throwThe, MonadExceptOf.throw] at h
    split at h
    · cases h
    · rename_i hinh
      split at h
      · cases h
      · rename_i op hop
        cases h
        refine ⟨opVal_codeVal hop, .inl rfl, .inl ⟨rfl, ?_, rfl⟩, fun hn => by cases hn⟩
        have hsz : szOk row.inh row.inhSz 0 = true := by
          unfold rowFacts at hrow
          simp only [Bool.and_eq_true, Bool.or_eq_true] at hrow
          rcases hrow.1.1.1.1.1.1.1.1 with h' | h'
          · simp [h'] at hinh
          · exact h'
        have := szOk_use hsz hop
        show 2 * row.inhSz = hl op + hl Value.none
        rw [this]; rfl
  | immediate =>
    unfold translateOperand at h
    rw [hk] at h
    simp only [bind, Except.bind, pure, Except.pure, throw, throwThe, MonadExceptOf.throw] at h
    repeat' split at h
    all_goals first
      | (cases h; done)
      | (cases h; exact ⟨opVal_codeVal (by assumption), .inl rfl, .inr (.inl ⟨rfl, h1.val (.inl hk)⟩),
          fun hn => by cases hn⟩)
  | direct =>
    unfold translateOperand at h
    rw [hk] at h
    simp only [bind, Except.bind, pure, Except.pure, throw, throwThe, MonadExceptOf.throw] at h
    repeat' split at h
    all_goals first
      | (cases h; done)
      | (cases h; exact ⟨opVal_codeVal (by assumption), .inl rfl, .inr (.inl ⟨rfl, h1.val (.inr (.inl hk))⟩),
          fun hn => by cases hn⟩)
  | extended =>
    unfold translateOperand at h
    rw [hk] at h
    simp only [bind, Except.bind, pure, Except.pure, throw, throwThe, MonadExceptOf.throw] at h
    repeat' split at h
    all_goals first
      | (cases h; done)
      | (cases h; exact ⟨opVal_codeVal (by assumption), .inl rfl, .inr (.inl ⟨rfl, h1.val (.inr (.inr hk))⟩),
          fun hn => by cases hn⟩)

/-! ### the classes `fitWidth` leaves alone: PSHS / TFR ..., and the directives other than FCB / FDB -/

/-- a package that is emitted as it stands: `fix_addresses` changes nothing, the bytes number `size` (the strings
`create` builds are made of characters below 256: `PV`), and a string field is the operand value -/
theorem nolist_of {v : Value} (h : v = .none ∨ v.isNumeric = true) :
    (∀ hs, v ≠ .multiByte hs) ∧ (∀ hs, v ≠ .multiWord hs) := by
  refine ⟨fun hs hh => ?_, fun hs hh => ?_⟩ <;> (subst hh; rcases h with h | h <;> cases h)

structure PlainShape (o : Operand) (p : Pkg) : Prop where
  needs : p.needsRes = false
  choices : p.choices = []
  noaddr : o.value.isAddress = false
  noexpr : o.value.isAddrExpr = false
  bytes : ∃ a b c, Emits p.opCode a ∧ Emits p.postByte b ∧ Emits p.additional c ∧ a + b + c = p.size
  addl : ∀ x, p.additional = .str x → o.value = .str x
  /-- (batch 8) the field is the operand value, or no list -/
  nolist : p.additional = o.value ∨ ((∀ hs, p.additional ≠ .multiByte hs) ∧ (∀ hs, p.additional ≠ .multiWord hs))

theorem regMask_lt (other r : Str) : regMaskPshPul other r < 256 := by
  unfold regMaskPshPul
  lt256

theorem foldl_mask_lt (other : Str) : ∀ (regs : List Str) (a : Nat), a < 256 →
    regs.foldl (fun acc r => acc ||| regMaskPshPul other r) a < 256 := by
  intro regs
  induction regs with
  | nil => intro a h; exact h
  | cons r rest ih => intro a h; exact ih _ (sz_or_lt h (regMask_lt other r))

theorem tfrLegal_lt : ∀ x ∈ tfrLegal, x < 256 := by decide

theorem tfrLegal_lt' {x : Nat} (h : ¬ (!tfrLegal.contains x) = true) : x < 256 := by
  have : tfrLegal.contains x = true := by simpa using h
  exact tfrLegal_lt x (List.contains_iff_mem.mp this)

theorem translateSpecial_plain {o : Operand} {row : InstrRow} {p : Pkg} (hrow : rowFacts row = true)
    (hsp : row.isSpecial = true) (hv : o.value = .none) (h : translateSpecial o row = .ok p) : PlainShape o p := by
  have hsz : szOk row.imm row.immSz 2 = true := by
    unfold rowFacts at hrow
    simp only [Bool.and_eq_true, Bool.or_eq_true, Bool.not_eq_true'] at hrow
    rcases hrow.1.1.1.1.1.1.2 with h' | h'
    · rw [hsp] at h'; cases h'
    · exact h'.1
  have key : ∀ {op pb : Value} {x : Nat}, opVal row.imm = .ok op → numV x = .ok pb → x < 256 →
      PlainShape o { opCode := op, postByte := pb, size := row.immSz, maxSize := row.immSz } := by
    intro op pb x hop hpb hx
    refine ⟨rfl, rfl, by rw [hv]; rfl, by rw [hv]; rfl, ?_, (fun x hx => by cases hx),
      .inr (nolist_of (by simp))⟩
    obtain ⟨_, e1, m1⟩ := (opVal_codeVal hop).emits
    obtain ⟨_, e2, m2⟩ := CodeVal.emits (v := pb) (Or.inr ⟨x, hpb⟩)
    have := szOk_use hsz hop
    rw [numV_hl hpb hx] at m2
    exact ⟨_, _, _, m1, m2, none_emits, by show hl op / 2 + 2 / 2 + 0 = row.immSz; omega⟩
  unfold translateSpecial at h
  simp only [bind, Except.bind, pure, Except.pure, throw, throwThe, MonadExceptOf.throw] at h
  repeat' split at h
  all_goals first
    | (cases h; done)
    | (cases h
       refine key (by assumption) (by assumption) ?_
       first
         | omega
         | exact foldl_mask_lt _ _ _ (by omega)
         | exact tfrLegal_lt' (by assumption))

theorem hintOK_even {i : Nat} {h : Option Nat} (hh : HintOK h) : numHexLen i h % 2 = 0 := by
  rcases hh with rfl | rfl | rfl
  · exact numHexLen_none_even i
  · simp [numHexLen]
  · simp [numHexLen]

/-- a parsed value is emitted as `byte_len` bytes (a parsed string is made of characters below 256: `PV`) -/
theorem pv_emits {v : Value} (hpv : PV v) : ∃ k, v.byteLen? = some k ∧ Emits v k := by
  cases v with
  | none => exact ⟨0, rfl, none_emits⟩
  | pyNone => cases hpv
  | address => cases hpv
  | numeric i h m n => exact ⟨_, rfl, numeric_emits i h m n (hintOK_even hpv)⟩
  | symbol => exact ⟨0, rfl, zero_emits rfl ⟨_, rfl⟩⟩
  | expr => exact ⟨0, rfl, zero_emits rfl ⟨_, rfl⟩⟩
  | leftRight => exact ⟨0, rfl, zero_emits rfl ⟨_, rfl⟩⟩
  | str x =>
    have hl := str_hex_length x hpv
    refine ⟨x.length, ?_, str_emits hpv⟩
    simp only [Value.byteLen?, Value.hexLen?, Value.hex?, Option.map, hl]
    congr 1; omega
  | multiByte hs =>
    have hlen := flatten_length_const hs hpv
    exact ⟨_, rfl, multiByte_emits (by rw [hlen]; omega)⟩
  | multiWord hs =>
    have hlen := flatten_length_const hs hpv
    exact ⟨_, rfl, multiWord_emits (by rw [hlen]; omega)⟩

theorem PV.noaddr {v : Value} (h : PV v) : v.isAddress = false ∧ v.isAddrExpr = false := by
  cases v <;> first | (cases h; done) | exact ⟨rfl, rfl⟩ | (cases h; exact ⟨rfl, rfl⟩)

theorem translatePseudo_plain {o : Operand} {row : InstrRow} {p : Pkg} (hm1 : row.mnemonic ≠ "FCB")
    (hm2 : row.mnemonic ≠ "FDB") (hpv : isDataRow row = false → PV o.value)
    (h : translatePseudo o row = .ok p) : PlainShape o p := by
  have e1 : (row.mnemonic == "FCB") = false := by simpa using hm1
  have e2 : (row.mnemonic == "FDB") = false := by simpa using hm2
  have hempty : ∀ q : Pkg, q.opCode = .none → q.postByte = .none → q.additional = .none → q.size = 0 →
      q.needsRes = false → q.choices = [] → o.value.isAddress = false → o.value.isAddrExpr = false →
      PlainShape o q := by
    intro q q1 q2 q3 q4 q5 q8 q6 q7
    exact ⟨q5, q8, q6, q7, ⟨0, 0, 0, by rw [q1]; exact none_emits, by rw [q2]; exact none_emits,
      by rw [q3]; exact none_emits, by rw [q4]⟩, (fun x hx => by rw [q3] at hx; cases hx),
      .inr (nolist_of (by rw [q3]; simp))⟩
  unfold translatePseudo at h
  simp only [e1, e2, bind, Except.bind, pure, Except.pure, throw, throwThe, MonadExceptOf.throw,
    Bool.false_eq_true, if_false] at h
  by_cases hr : (row.mnemonic == "RMB") = true
  · simp only [hr, if_true] at h
    split at h
    · cases h
    · split at h
      · cases h
      · rename_i hcond
        have hnum : o.value.isNumeric = true := by
          cases hn : o.value.isNumeric with
          | true => rfl
          | false => simp [hn] at hcond
        have hna : o.value.isAddress = false ∧ o.value.isAddrExpr = false := by
          cases hv : o.value <;> rw [hv] at hnum <;> first | exact ⟨rfl, rfl⟩ | cases hnum
        split at h
        · rename_i i hi
          have hz := numericOfInt_nat (n := 0) (by omega) (i * 2)
          rw [show ((0 : Nat) : Int) = 0 from rfl] at hz
          rw [hz] at h
          cases h
          refine ⟨rfl, rfl, hna.1, hna.2, ⟨0, 0, i, none_emits, none_emits, ?_, by simp⟩,
            (fun x hx => by cases hx), .inr (nolist_of (.inr rfl))⟩
          have := numeric_emits 0 (some (i * 2)) .extended false (by simp [numHexLen])
          simpa [numHexLen] using this
        · cases h
  · have hr : (row.mnemonic == "RMB") = false := by simpa using hr
    simp only [hr, Bool.false_eq_true, if_false] at h
    by_cases ho : (row.mnemonic == "ORG") = true
    · simp only [ho, if_true] at h
      split at h
      · cases h
      · split at h
        · cases h
        · rename_i hcond
          have hnum : o.value.isNumeric = true := by
            cases hn : o.value.isNumeric with
            | true => rfl
            | false => simp [hn] at hcond
          have hna : o.value.isAddress = false ∧ o.value.isAddrExpr = false := by
            cases hv : o.value <;> rw [hv] at hnum <;> first | exact ⟨rfl, rfl⟩ | cases hnum
          cases h
          exact hempty _ rfl rfl rfl rfl rfl rfl hna.1 hna.2
    · have ho : (row.mnemonic == "ORG") = false := by simpa using ho
      simp only [ho, Bool.false_eq_true, if_false] at h
      have hdr : isDataRow row = false := by
        unfold isDataRow
        simp only [e1, e2, hr, ho, Bool.false_or]
      have hpv := hpv hdr
      obtain ⟨n1, n2⟩ := hpv.noaddr
      by_cases hc : (row.mnemonic == "FCC") = true
      · simp only [hc, if_true] at h
        split at h
        · cases h
        · rename_i bl hbl
          cases h
          refine ⟨rfl, rfl, n1, n2, ?_, fun x hx => hx, .inl rfl⟩
          obtain ⟨k, hk, hem⟩ := pv_emits hpv
          split at hbl
          · rename_i b hb
            rw [hk] at hb
            cases hb; cases hbl
            exact ⟨0, 0, _, none_emits, none_emits, hem, by simp⟩
          · cases hbl
      · have hc : (row.mnemonic == "FCC") = false := by simpa using hc
        simp only [hc, Bool.false_eq_true, if_false] at h
        cases h
        exact hempty _ rfl rfl rfl rfl rfl rfl n1 n2

end CoCo.Asm
