/-
Lemmas/TapeParse.lean — the executable strict tape parser `Spec.Tape.parse` agrees with the
declarative specification `Spec.Tape.WellFormed`.

  parse_sound    : (∀ b ∈ bs, b < 256) → parse bs = some fs → WellFormed fs bs
  parse_complete : WellFormed fs bs → parse bs = some fs          (no side condition needed)
-/
import CoCoVerif.Spec.Tape

namespace CoCo.Spec.Tape
open CoCo

/-! ### dropWhileEq -/

theorem dropWhileEq_replicate_append (v : Nat) (n : Nat) (l : Bytes) :
    dropWhileEq v (List.replicate n v ++ l) = dropWhileEq v l := by
  induction n with
  | zero => simp
  | succ n ih => simp [List.replicate_succ, dropWhileEq, ih]

theorem dropWhileEq_cons_ne {v x : Nat} (r : Bytes) (h : x ≠ v) : dropWhileEq v (x :: r) = x :: r := by
  simp [dropWhileEq, h]

@[simp] theorem dropWhileEq_nil (v : Nat) : dropWhileEq v [] = [] := rfl

/-- the result of `dropWhileEq` does not start with `v` -/
theorem dropWhileEq_head (v : Nat) (l : Bytes) : ∀ x r, dropWhileEq v l = x :: r → x ≠ v := by
  induction l with
  | nil => intro x r h; simp at h
  | cons b t ih =>
    intro x r h
    simp only [dropWhileEq] at h
    split at h
    · exact ih x r h
    · cases h; assumption

/-- `l` is some copies of `v` followed by `dropWhileEq v l` -/
theorem dropWhileEq_decomp (v : Nat) (l : Bytes) :
    l = List.replicate (l.length - (dropWhileEq v l).length) v ++ dropWhileEq v l ∧
    (dropWhileEq v l).length ≤ l.length := by
  induction l with
  | nil => simp
  | cons b t ih =>
    simp only [dropWhileEq]
    split
    · rename_i hb
      subst hb
      obtain ⟨h1, h2⟩ := ih
      refine ⟨?_, by simp; omega⟩
      have : (b :: t).length - (dropWhileEq b t).length = (t.length - (dropWhileEq b t).length) + 1 := by
        simp; omega
      rw [this, List.replicate_succ, List.cons_append, ← h1]
    · simp

/-! ### skipFiller -/

/-- completeness half: a filler in front of something that starts `55 x` with `x ≠ 55` is skipped,
the sync byte `55` is given back -/
theorem skipFiller_filler_append {g : Bytes} (hg : Filler g) (x : Nat) (r : Bytes) (hx : x ≠ 0x55) :
    skipFiller (g ++ 0x55 :: x :: r) = some (0x55 :: x :: r) := by
  obtain ⟨a, b, rfl⟩ := hg
  have h1 : dropWhileEq 0x00 (List.replicate a 0x00 ++ List.replicate b 0x55 ++ 0x55 :: x :: r)
      = List.replicate (b + 1) 0x55 ++ x :: r := by
    rw [List.append_assoc, dropWhileEq_replicate_append]
    have : List.replicate b 0x55 ++ 0x55 :: x :: r = List.replicate (b + 1) 0x55 ++ x :: r := by
      rw [List.replicate_succ', List.append_assoc]; rfl
    rw [this]
    cases b with
    | zero => simp [dropWhileEq]
    | succ b => rw [List.replicate_succ, List.cons_append, dropWhileEq_cons_ne _ (by decide)]
  have h2 : dropWhileEq 0x55 (List.replicate (b + 1) 0x55 ++ x :: r) = x :: r := by
    rw [dropWhileEq_replicate_append, dropWhileEq_cons_ne _ hx]
  unfold skipFiller
  simp only [h1, h2]
  simp

/-- completeness half: a bare filler is consumed entirely -/
theorem skipFiller_filler {g : Bytes} (hg : Filler g) : skipFiller g = none := by
  obtain ⟨a, b, rfl⟩ := hg
  have h1 : dropWhileEq 0x00 (List.replicate a 0x00 ++ List.replicate b 0x55) = List.replicate b 0x55 := by
    rw [dropWhileEq_replicate_append]
    cases b with
    | zero => simp
    | succ b => rw [List.replicate_succ, dropWhileEq_cons_ne _ (by decide)]
  have h2 : dropWhileEq 0x55 (List.replicate b 0x55) = [] := by
    have := dropWhileEq_replicate_append 0x55 b []
    simpa using this
  unfold skipFiller
  simp only [h1, h2]
  simp

/-- soundness half: if nothing is left, the input was a filler -/
theorem skipFiller_none {bs : Bytes} (h : skipFiller bs = none) : Filler bs := by
  unfold skipFiller at h
  simp only at h
  split at h
  · rename_i ht
    have d0 := (dropWhileEq_decomp 0x00 bs).1
    have d1 := (dropWhileEq_decomp 0x55 (dropWhileEq 0x00 bs)).1
    have ht' : dropWhileEq 0x55 (dropWhileEq 0x00 bs) = [] := by simpa using ht
    rw [ht', List.append_nil] at d1
    exact ⟨_, _, by rw [← d1]; exact d0⟩
  · split at h <;> simp at h

/-- soundness half: if `skipFiller` returns something starting with `55`, the input was a filler
followed by it -/
theorem skipFiller_some {bs r : Bytes} (h : skipFiller bs = some (0x55 :: r)) :
    ∃ g, Filler g ∧ bs = g ++ 0x55 :: r := by
  unfold skipFiller at h
  simp only at h
  have d0 := (dropWhileEq_decomp 0x00 bs).1
  have d1 := (dropWhileEq_decomp 0x55 (dropWhileEq 0x00 bs)).1
  split at h
  · simp at h
  · split at h
    · -- no sync byte: the result cannot start with 55
      simp only [Option.some.injEq] at h
      exact absurd rfl (dropWhileEq_head 0x55 _ _ _ h)
    · rename_i hn
      simp only [Option.some.injEq, List.cons.injEq, true_and] at h
      generalize hk : (dropWhileEq 0x00 bs).length - (dropWhileEq 0x55 (dropWhileEq 0x00 bs)).length = k at *
      obtain ⟨k, rfl⟩ : ∃ k', k = k' + 1 := ⟨k - 1, by omega⟩
      refine ⟨List.replicate (bs.length - (dropWhileEq 0x00 bs).length) 0x00 ++ List.replicate k 0x55,
        ⟨_, _, rfl⟩, ?_⟩
      rw [h] at d1
      rw [List.replicate_succ', List.append_assoc] at d1
      rw [List.append_assoc, ← List.singleton_append, ← d1]
      exact d0

/-! ### parseBlock -/

theorem frame_eq (ty : Nat) (p rest : Bytes) :
    frame ty p ++ rest = 0x55 :: 0x3C :: ty :: p.length :: (p ++ ((ty + p.length + bsum p) % 256 :: 0x55 :: rest)) := by
  simp [frame]

theorem parseBlock_frame (ty : Nat) (p rest : Bytes) (hp : p.length < 256) (hty : ty < 256) :
    parseBlock (frame ty p ++ rest) = some (ty, p, rest) := by
  rw [frame_eq]
  unfold parseBlock
  have hd : List.drop p.length (p ++ ((ty + p.length + bsum p) % 256 :: 0x55 :: rest))
      = (ty + p.length + bsum p) % 256 :: 0x55 :: rest := by simp
  have hd2 : List.drop (p.length + 2) (p ++ ((ty + p.length + bsum p) % 256 :: 0x55 :: rest)) = rest := by
    rw [← List.drop_drop, hd]; rfl
  have ht : List.take p.length (p ++ ((ty + p.length + bsum p) % 256 :: 0x55 :: rest)) = p := by simp
  simp only [hd, hd2, ht]
  simp [hp, hty]

theorem parseBlock_some {s : Bytes} {ty : Nat} {p rest : Bytes} (h : parseBlock s = some (ty, p, rest)) :
    s = frame ty p ++ rest ∧ p.length < 256 ∧ ty < 256 := by
  unfold parseBlock at h
  split at h
  · rename_i ty' len r
    split at h
    · simp at h
    · rename_i hlen
      simp only [] at h
      split at h
      · rename_i hc
        obtain ⟨hck, htr, hl, hty⟩ := hc
        simp only [Option.some.injEq, Prod.mk.injEq] at h
        obtain ⟨rfl, rfl, rfl⟩ := h
        have hlen' : len + 2 ≤ r.length := by omega
        have hpl : (r.take len).length = len := by simp [List.length_take]; omega
        refine ⟨?_, by omega, hty⟩
        rw [frame_eq, hpl]
        have hr : r = r.take len ++ r.drop len := (List.take_append_drop len r).symm
        have hdl : (r.drop len).length = r.length - len := by simp
        -- the two bytes after the payload
        match hd : r.drop len with
        | [] => rw [hd] at hdl; simp at hdl; omega
        | [_] => rw [hd] at hdl; simp at hdl; omega
        | c :: t :: rest' =>
          rw [hd] at hck htr
          simp at hck htr
          have hdd : r.drop (len + 2) = rest' := by
            rw [← List.drop_drop, hd]; rfl
          rw [hdd, ← hck, ← htr, ← hd]
          rw [List.take_append_drop]
      · simp at h
  · simp at h

/-! ### one step: filler then block -/

theorem frame_head (ty : Nat) (p rest : Bytes) :
    frame ty p ++ rest = 0x55 :: 0x3C :: (ty :: p.length :: (p ++ ((ty + p.length + bsum p) % 256 :: 0x55 :: rest))) :=
  frame_eq ty p rest

theorem skipFiller_frame {g : Bytes} (hg : Filler g) (ty : Nat) (p rest : Bytes) :
    skipFiller (g ++ frame ty p ++ rest) = some (frame ty p ++ rest) := by
  rw [List.append_assoc, frame_head]
  exact skipFiller_filler_append hg _ _ (by decide)

theorem step_sound {bs s : Bytes} {ty : Nat} {p rest : Bytes} (h1 : skipFiller bs = some s)
    (h2 : parseBlock s = some (ty, p, rest)) :
    ∃ g, Filler g ∧ bs = g ++ frame ty p ++ rest ∧ p.length < 256 ∧ ty < 256 := by
  obtain ⟨hs, hp, hty⟩ := parseBlock_some h2
  rw [hs, frame_head] at h1
  obtain ⟨g, hg, hbs⟩ := skipFiller_some h1
  exact ⟨g, hg, by rw [hbs, List.append_assoc, frame_head], hp, hty⟩

theorem frame_length (ty : Nat) (p : Bytes) : (frame ty p).length = p.length + 6 := by
  simp [frame]

/-! ### data blocks -/

theorem parseDataF_sound : ∀ (fuel : Nat) (bs acc d rest : Bytes),
    parseDataF fuel bs acc = some (d, rest) →
    ∃ d' db g₂, d = acc ++ d' ∧ DataBlocks d' db ∧ Filler g₂ ∧ bs = db ++ g₂ ++ frame 0xFF [] ++ rest := by
  intro fuel
  induction fuel with
  | zero => intro bs acc d rest h; simp [parseDataF] at h
  | succ fuel ih =>
    intro bs acc d rest h
    rw [parseDataF] at h
    split at h
    · simp at h
    · rename_i s hs
      split at h
      · rename_i ty p rest' hpb
        obtain ⟨g, hg, hbs, hp, hty⟩ := step_sound hs hpb
        split at h
        · rename_i hty1
          subst hty1
          split at h
          · simp at h
          · rename_i hne
            obtain ⟨d', db, g₂, hd, hdb, hg₂, hrest⟩ := ih _ _ _ _ h
            have hpos : 0 < p.length := by
              cases p with
              | nil => simp at hne
              | cons => simp
            refine ⟨p ++ d', g ++ frame 0x01 p ++ db, g₂, by rw [hd, List.append_assoc],
              DataBlocks.cons hpos (by omega) hg hdb, hg₂, ?_⟩
            rw [hbs, hrest]; simp only [List.append_assoc]
        · split at h
          · rename_i htyF
            subst htyF
            split at h
            · rename_i hemp
              have hp0 : p = [] := by simpa using hemp
              subst hp0
              simp only [Option.some.injEq, Prod.mk.injEq] at h
              obtain ⟨rfl, rfl⟩ := h
              exact ⟨[], [], g, by simp, DataBlocks.nil, hg, by rw [hbs]; simp⟩
            · simp at h
          · simp at h
      · simp at h

theorem parseDataF_complete {d db : Bytes} (hdb : DataBlocks d db) :
    ∀ (fuel : Nat) (g₂ acc rest : Bytes), Filler g₂ → db.length < fuel →
      parseDataF fuel (db ++ g₂ ++ frame 0xFF [] ++ rest) acc = some (acc ++ d, rest) := by
  induction hdb with
  | nil =>
    intro fuel g₂ acc rest hg hf
    obtain ⟨fuel, rfl⟩ : ∃ k, fuel = k + 1 := ⟨fuel - 1, by simp at hf; omega⟩
    rw [parseDataF, List.nil_append, skipFiller_frame hg]
    simp only
    rw [parseBlock_frame _ _ _ (by simp) (by decide)]
    simp
  | @cons p d g bs hpos hle hg hdb ih =>
    intro fuel g₂ acc rest hg₂ hf
    obtain ⟨fuel, rfl⟩ : ∃ k, fuel = k + 1 := ⟨fuel - 1, by omega⟩
    have hshape : g ++ frame 0x01 p ++ bs ++ g₂ ++ frame 0xFF [] ++ rest
        = g ++ frame 0x01 p ++ (bs ++ g₂ ++ frame 0xFF [] ++ rest) := by
      simp only [List.append_assoc]
    rw [parseDataF, hshape, skipFiller_frame hg]
    simp only
    rw [parseBlock_frame _ _ _ (by omega) (by decide)]
    have hne : p.isEmpty = false := by
      cases p with
      | nil => simp at hpos
      | cons => rfl
    simp only [hne]
    simp only [if_true, Bool.false_eq_true, if_false]
    rw [ih fuel g₂ (acc ++ p) rest hg₂ (by simp [frame_length] at hf; omega)]
    simp [List.append_assoc]

/-! ### the name-file record -/

theorem list15 (p : Bytes) (h : p.length = 15) :
    ∃ a0 a1 a2 a3 a4 a5 a6 a7 a8 a9 a10 a11 a12 a13 a14 : Nat,
      p = [a0, a1, a2, a3, a4, a5, a6, a7, a8, a9, a10, a11, a12, a13, a14] := by
  match p, h with
  | [a0, a1, a2, a3, a4, a5, a6, a7, a8, a9, a10, a11, a12, a13, a14], _ =>
    exact ⟨a0, a1, a2, a3, a4, a5, a6, a7, a8, a9, a10, a11, a12, a13, a14, rfl⟩

/-- the record `parseF` builds from a 15-byte payload -/
def recOf (p data : Bytes) : File :=
  { name := p.take 8, ftype := p.getD 8 0, dtype := p.getD 9 0, gap := p.getD 10 0,
    load := p.getD 11 0 * 256 + p.getD 12 0, exec := p.getD 13 0 * 256 + p.getD 14 0, data := data }

/-- needs only the two low address bytes to be bytes -/
theorem namePayload_recOf (p data : Bytes) (h : p.length = 15) (h12 : p.getD 12 0 < 256)
    (h14 : p.getD 14 0 < 256) : namePayload (recOf p data) = p := by
  obtain ⟨a0, a1, a2, a3, a4, a5, a6, a7, a8, a9, a10, a11, a12, a13, a14, rfl⟩ := list15 p h
  simp at h12 h14
  simp only [namePayload, recOf]
  simp
  refine ⟨?_, ?_, ?_, ?_⟩ <;> omega

theorem recOf_namePayload (f : File) (h : f.name.length = 8) : recOf (namePayload f) f.data = f := by
  obtain ⟨name, ftype, dtype, gap, load, exec, data⟩ := f
  simp only at h
  obtain ⟨n0, n1, n2, n3, n4, n5, n6, n7, rfl⟩ : ∃ n0 n1 n2 n3 n4 n5 n6 n7 : Nat,
      name = [n0, n1, n2, n3, n4, n5, n6, n7] := by
    match name, h with
    | [n0, n1, n2, n3, n4, n5, n6, n7], _ => exact ⟨n0, n1, n2, n3, n4, n5, n6, n7, rfl⟩
  simp only [namePayload, recOf]
  simp
  refine ⟨?_, ?_⟩ <;> omega

theorem namePayload_length (f : File) (h : f.name.length = 8) : (namePayload f).length = 15 := by
  simp [namePayload, h]

/-! ### files -/

theorem getD_mem (l : Bytes) (i d : Nat) (h : i < l.length) : l.getD i d ∈ l := by
  simp [List.getD_eq_getElem?_getD, List.getElem?_eq_getElem h]

theorem parseF_succ (fuel : Nat) (bs : Bytes) (acc : List File) :
    parseF (fuel + 1) bs acc =
      match skipFiller bs with
      | none => some acc
      | some s =>
        match parseBlock s with
        | some (ty, p, rest) =>
          if ty = 0x00 ∧ p.length = 15 then
            match parseDataF (rest.length + 1) rest [] with
            | some (data, rest') => parseF fuel rest' (acc ++ [recOf p data])
            | none => none
          else none
        | none => none := by
  rw [parseF]; rfl

theorem parseF_sound : ∀ (fuel : Nat) (bs : Bytes) (acc fs : List File), (∀ b ∈ bs, b < 256) →
    parseF fuel bs acc = some fs → ∃ fs', fs = acc ++ fs' ∧ WellFormed fs' bs := by
  intro fuel
  induction fuel with
  | zero => intro bs acc fs _ h; simp [parseF] at h
  | succ fuel ih =>
    intro bs acc fs hb h
    rw [parseF_succ] at h
    split at h
    · rename_i hs
      simp only [Option.some.injEq] at h
      exact ⟨[], by simp [h], WellFormed.nil (skipFiller_none hs)⟩
    · rename_i s hs
      split at h
      · rename_i ty p rest hpb
        obtain ⟨g, hg, hbs, hp, hty⟩ := step_sound hs hpb
        split at h
        · rename_i hc
          obtain ⟨hty0, hp15⟩ := hc
          subst hty0
          split at h
          · rename_i data rest' hpd
            obtain ⟨d', db, g₂, hd, hdb, hg₂, hrest⟩ := parseDataF_sound _ _ _ _ _ hpd
            simp only [List.nil_append] at hd
            subst hd
            have hpb' : ∀ x ∈ p, x < 256 := by
              intro x hx
              apply hb
              rw [hbs]
              simp only [frame, List.mem_append]
              exact Or.inl (Or.inr (Or.inl (Or.inr hx)))
            have h12 : p.getD 12 0 < 256 := by
              exact hpb' _ (getD_mem _ _ _ (by omega))
            have h14 : p.getD 14 0 < 256 := by
              exact hpb' _ (getD_mem _ _ _ (by omega))
            have hnp := namePayload_recOf p data hp15 h12 h14
            have hb' : ∀ b ∈ rest', b < 256 := by
              intro x hx
              apply hb
              rw [hbs, hrest]
              simp only [List.mem_append]
              exact Or.inr (Or.inr hx)
            obtain ⟨fs', hfs, hwf⟩ := ih _ _ _ hb' h
            refine ⟨recOf p data :: fs', by rw [hfs]; simp, ?_⟩
            have hstream : FileStream (recOf p data) (g ++ frame 0x00 p ++ db ++ g₂ ++ frame 0xFF []) := by
              refine ⟨by simp [recOf, List.length_take]; omega, g, db, g₂, hg, hdb, hg₂, ?_⟩
              rw [hnp]
            have := WellFormed.cons hstream hwf
            rw [hbs, hrest]
            simpa only [List.append_assoc] using this
          · simp at h
        · simp at h
      · simp at h

theorem parseF_complete {fs : List File} {bs : Bytes} (h : WellFormed fs bs) :
    ∀ (fuel : Nat) (acc : List File), fs.length < fuel → parseF fuel bs acc = some (acc ++ fs) := by
  induction h with
  | nil hg =>
    intro fuel acc hf
    obtain ⟨fuel, rfl⟩ : ∃ k, fuel = k + 1 := ⟨fuel - 1, by simp at hf; omega⟩
    rw [parseF_succ, skipFiller_filler hg]
    simp
  | @cons f fs b bs hfs hwf ih =>
    intro fuel acc hf
    obtain ⟨fuel, rfl⟩ : ∃ k, fuel = k + 1 := ⟨fuel - 1, by simp at hf; omega⟩
    obtain ⟨hname, g₁, db, g₂, hg₁, hdb, hg₂, rfl⟩ := hfs
    have hshape : g₁ ++ frame 0x00 (namePayload f) ++ db ++ g₂ ++ frame 0xFF [] ++ bs
        = g₁ ++ frame 0x00 (namePayload f) ++ (db ++ g₂ ++ frame 0xFF [] ++ bs) := by
      simp only [List.append_assoc]
    have h15 := namePayload_length f hname
    rw [parseF_succ, hshape, skipFiller_frame hg₁]
    simp only
    rw [parseBlock_frame _ _ _ (by omega) (by decide)]
    simp only [h15, and_self, if_true]
    rw [parseDataF_complete hdb _ g₂ [] bs hg₂ (by simp; omega)]
    simp only [List.nil_append]
    rw [recOf_namePayload f hname, ih fuel _ (by simp at hf; omega)]
    simp

theorem wellFormed_length {fs : List File} {bs : Bytes} (h : WellFormed fs bs) : fs.length ≤ bs.length := by
  induction h with
  | nil _ => simp
  | @cons f fs b bs hfs _ ih =>
    obtain ⟨_, g₁, db, g₂, _, _, _, rfl⟩ := hfs
    simp [frame_length]
    omega

/-! ### main theorems -/

/-- **Soundness**: whatever the strict parser accepts is a well-formed tape stream holding exactly
the returned files.  The byte-range hypothesis is needed (see `parse_sound_needs_bytes` below). -/
theorem parse_sound (bs : Bytes) (fs : List File) (hb : ∀ b ∈ bs, b < 256) :
    parse bs = some fs → WellFormed fs bs := by
  intro h
  obtain ⟨fs', hfs, hwf⟩ := parseF_sound _ _ _ _ hb h
  simp only [List.nil_append] at hfs
  rw [hfs]; exact hwf

/-- **Completeness**, strongest form: no side condition on the files at all. -/
theorem parse_complete_strong (fs : List File) (bs : Bytes) : WellFormed fs bs → parse bs = some fs := by
  intro h
  have := parseF_complete h (bs.length + 1) [] (by have := wellFormed_length h; omega)
  simpa [parse] using this

/-- the side condition one would expect completeness to need: every field fits its width.
It turns out NOT to be needed (`parse_complete_strong`): `parse` never range-checks payload bytes,
and `load / 256 * 256 + load % 256 = load` holds for every `load`. -/
def FileOK (f : File) : Prop :=
  (∀ c ∈ f.name, c < 256) ∧ f.ftype < 256 ∧ f.dtype < 256 ∧ f.gap < 256 ∧
  f.load < 65536 ∧ f.exec < 65536 ∧ (∀ b ∈ f.data, b < 256)

/-- **Completeness** in the requested shape (the `FileOK` hypothesis is unused). -/
theorem parse_complete (fs : List File) (bs : Bytes) :
    WellFormed fs bs → (∀ f ∈ fs, FileOK f) → parse bs = some fs :=
  fun h _ => parse_complete_strong fs bs h

/-- `parse` decides `WellFormed` on byte streams -/
theorem parse_iff (bs : Bytes) (fs : List File) (hb : ∀ b ∈ bs, b < 256) :
    parse bs = some fs ↔ WellFormed fs bs :=
  ⟨parse_sound bs fs hb, parse_complete_strong fs bs⟩

/-- a well-formed stream determines its file list -/
theorem wellFormed_unique {fs fs' : List File} {bs : Bytes} (h : WellFormed fs bs) (h' : WellFormed fs' bs) :
    fs = fs' := by
  have a := parse_complete_strong _ _ h
  have b := parse_complete_strong _ _ h'
  rw [a] at b; exact Option.some.inj b

/-! ### the byte hypothesis of `parse_sound` cannot be dropped

A name-file payload whose low load-address byte is 256 (not a byte) is accepted by `parse` (it never
range-checks payload entries), the record gets `load = 0*256 + 256 = 256`, whose `namePayload` is
`… 1, 0 …`, not `… 0, 256 …`; and no other file list fits either (`wellFormed_unique`). -/

def badTape : Bytes := frame 0x00 [65, 65, 65, 65, 65, 65, 65, 65, 0, 0, 0, 0, 256, 0, 0] ++ frame 0xFF []

def badFiles : List File :=
  [{ name := [65, 65, 65, 65, 65, 65, 65, 65], ftype := 0, dtype := 0, gap := 0, load := 256, exec := 0, data := [] }]

theorem badTape_parse : parse badTape = some badFiles := by decide

/-- info: true -/
#guard_msgs in
#eval decide (parse badTape = some badFiles)

/-- what `FileOK` IS good for: a well-formed stream of in-range files consists of bytes -/
theorem filler_bytes {g : Bytes} (hg : Filler g) : ∀ b ∈ g, b < 256 := by
  obtain ⟨a, b, rfl⟩ := hg
  intro x hx
  simp [List.mem_replicate] at hx
  omega

theorem frame_bytes (ty : Nat) (p : Bytes) (hty : ty < 256) (hl : p.length < 256) (hp : ∀ b ∈ p, b < 256) :
    ∀ b ∈ frame ty p, b < 256 := by
  intro x hx
  simp only [frame, List.mem_append, List.mem_cons, List.not_mem_nil, or_false] at hx
  rcases hx with ((h | h | h | h) | h) | (h | h)
  · omega
  · omega
  · omega
  · omega
  · exact hp x h
  · rw [h]; exact Nat.mod_lt _ (by decide)
  · omega

theorem dataBlocks_bytes {d db : Bytes} (h : DataBlocks d db) : (∀ b ∈ d, b < 256) → ∀ b ∈ db, b < 256 := by
  induction h with
  | nil => intro _ b hb; simp at hb
  | @cons p d g bs hpos hle hg _ ih =>
    intro hd x hx
    simp only [List.mem_append] at hx
    rcases hx with (h | h) | h
    · exact filler_bytes hg x h
    · exact frame_bytes _ _ (by decide) (by omega)
        (fun y hy => hd y (List.mem_append.mpr (Or.inl hy))) x h
    · exact ih (fun y hy => hd y (List.mem_append.mpr (Or.inr hy))) x h

theorem namePayload_bytes (f : File) (hf : FileOK f) : ∀ b ∈ namePayload f, b < 256 := by
  obtain ⟨hn, ht, hdt, hg, hl, he, _⟩ := hf
  intro x hx
  simp only [namePayload, List.mem_append, List.mem_cons, List.not_mem_nil, or_false] at hx
  rcases hx with h | h | h | h | h | h | h | h
  · exact hn x h
  all_goals omega

theorem wellFormed_bytes {fs : List File} {bs : Bytes} (h : WellFormed fs bs) :
    (∀ f ∈ fs, FileOK f) → ∀ b ∈ bs, b < 256 := by
  induction h with
  | nil hg => intro _; exact filler_bytes hg
  | @cons f fs b bs hfs _ ih =>
    intro hok x hx
    obtain ⟨hname, g₁, db, g₂, hg₁, hdb, hg₂, rfl⟩ := hfs
    have hf := hok f List.mem_cons_self
    simp only [List.mem_append] at hx
    rcases hx with ((((h | h) | h) | h) | h) | h
    · exact filler_bytes hg₁ x h
    · exact frame_bytes _ _ (by decide) (by rw [namePayload_length f hname]; decide)
        (namePayload_bytes f hf) x h
    · exact dataBlocks_bytes hdb hf.2.2.2.2.2.2 x h
    · exact filler_bytes hg₂ x h
    · exact frame_bytes _ _ (by decide) (by decide) (by simp) x h
    · exact ih (fun g hg => hok g (List.mem_cons_of_mem _ hg)) x h

theorem parse_sound_needs_bytes :
    ¬ (∀ (bs : Bytes) (fs : List File), parse bs = some fs → WellFormed fs bs) := by
  intro hall
  have hwf := hall _ _ badTape_parse
  have hok : ∀ f ∈ badFiles, FileOK f := by
    intro f hf
    simp only [badFiles, List.mem_cons, List.not_mem_nil, or_false] at hf
    subst hf
    simp [FileOK]
  have := wellFormed_bytes hwf hok 256 (by decide)
  omega

end CoCo.Spec.Tape
