/-
Lemmas/RelocAll.lean — relocation (C18-R1), part 5: the two statement classes (`Unmoved`, `Moved`), the
per-statement step `fixFit` (`fix_addresses; fit_operand_width`) by class, `fixAll` as a whole, and the
origin / name scan.
Repair batch B3: a `needsRes` statement WITH post byte choices is a PCR operand (`Unmoved` when its target moves by
`D` or by `D` modulo `$10000`); one WITHOUT choices is a label as constant offset of a pointer register, whose 16-bit
offset field is the label's address: `Moved = MovedRef ∨ MovedAbs`.
-/
import CoCoVerif.Lemmas.RelocLabel

namespace CoCo

/-- two outcomes of the same kind whose payloads (if any) are related -/
inductive OutRel {α β : Type} (R : α → β → Prop) : Outcome α → Outcome β → Prop
  | ok {a : α} {b : β} : R a b → OutRel R (.ok a) (.ok b)
  | diag : OutRel R .diag .diag
  | internal : OutRel R .internal .internal
  | diverged : OutRel R .diverged .diverged

namespace OutRel
variable {α β : Type} {R : α → β → Prop}

theorem of_map {f : α → β} (o : Outcome α) (h : ∀ a, o = .ok a → R a (f a)) : OutRel R o (o.map f) := by
  cases o with
  | ok a => exact .ok (h a rfl)
  | diag => exact .diag
  | internal => exact .internal
  | diverged => exact .diverged

theorem of_eq_map {f : α → β} {o : Outcome α} {o' : Outcome β} (he : o' = o.map f)
    (h : ∀ a, o = .ok a → R a (f a)) : OutRel R o o' := by
  rw [he]; exact of_map o h

theorem get {o : Outcome α} {o' : Outcome β} (h : OutRel R o o') {a : α} (ha : o = .ok a) :
    ∃ b, o' = .ok b ∧ R a b := by
  cases h with
  | ok r => cases ha; exact ⟨_, rfl, r⟩
  | _ => cases ha

theorem get' {o : Outcome α} {o' : Outcome β} (h : OutRel R o o') {b : β} (hb : o' = .ok b) :
    ∃ a, o = .ok a ∧ R a b := by
  cases h with
  | ok r => cases hb; exact ⟨_, rfl, r⟩
  | _ => cases hb

theorem rel {a : α} {b : β} (h : OutRel R (.ok a) (.ok b)) : R a b := by
  cases h with
  | ok r => exact r

/-- identical outcome kind -/
theorem kind_eq {o : Outcome α} {o' : Outcome β} (h : OutRel R o o') : o'.kind = o.kind := by
  cases h <;> rfl

theorem mono {S : α → β → Prop} {o : Outcome α} {o' : Outcome β} (h : OutRel R o o') (hi : ∀ a b, R a b → S a b) :
    OutRel S o o' := by
  cases h with
  | ok r => exact .ok (hi _ _ r)
  | diag => exact .diag
  | internal => exact .internal
  | diverged => exact .diverged

end OutRel
end CoCo

namespace CoCo.Asm
open CoCo

/-! ### the two classes -/

/-- `e` is `label + k`, `label - k` or `k + label` (one operand a number; `LabelSide`: since repair batch B3 the
operands are combined in the written order, so the label is the left operand unless the operator is `+`), whose
value in the layout `as` still fits 16 bits after moving by `D`.  The value itself is `.numeric z (some 4) .extended
false` with `z = (a ± k) mod $10000`: since B3 BOTH operators reject a result above `$FFFF` and reduce a negative one
modulo `$10000` (before, `label + k` could be a negative number and `label - k` was never rejected).  Without the
bound the value moves by `D` modulo `$10000`, see `fixOne_reloc_expr_mod` and the class `MovedMod` of
Lemmas/RelocMod.lean.
The number is SIGNED (repair batch B2): the other operand `.numeric k hh mm nn` contributes `signedK k nn`, i.e.
`-k` when it was written or defined (EQU) with a minus sign, so `label + N` with `N EQU -2` is `label - 2`.  In
arithmetic terms: `numExpr_plus_iff`, `numExpr_minus_iff` (Lemmas/RelocSigned.lean). -/
def NumExpr (D : Nat) (as : List Stmt) (e : Value) : Prop :=
  ∃ l r op m k hh mm nn, e = .expr l r op m true ∧ (if l.isAddress then r else l) = .numeric k hh mm nn ∧
    (op = '+' ∨ op = '-') ∧ LabelSide l r op ∧
    ∀ v, addrOffset as e = .ok v → ∃ z, v = .numeric z (some 4) .extended false ∧ z + D ≤ 65535

/-- `e` is `label - label` -/
def DiffExpr (e : Value) : Prop :=
  ∃ l r m, e = .expr l r '-' m true ∧ (if l.isAddress then r else l).isAddress = true

/-- the target of a `needsRes` statement moves by `D`: it is a plain label (the statement index sits in
`additional`), or a `label ± k` expression in the class `NumExpr` -/
def TargetMoves (D : Nat) (as : List Stmt) (s : Stmt) : Prop :=
  s.isIdx = false ∨ s.pkg.additional.isAddrExpr = false ∨ (s.isIdx = true ∧ NumExpr D as s.pkg.additional)

/-- the target of a `needsRes` statement moves by `D` MODULO `$10000`: it is a `label ± N` expression that both
layouts accept (`ModExpr`; a negative `label + N` is reduced modulo `$10000` since B3) -/
def TargetMovesMod (D : Nat) (as : List Stmt) (s : Stmt) : Prop :=
  s.isIdx = true ∧ ModExpr D as s.pkg.additional

/-- statements whose code must not change: branches; statements without a label in the operand (PCR
operands — `needsRes` WITH post byte choices — with a plain target or a `label ± k` target included; the target may
move by `D` or by `D` modulo `$10000`, the displacement is computed modulo `$10000`); `label - label` -/
def Unmoved (D : Nat) (as : List Stmt) (s : Stmt) : Prop :=
  s.operand.kind = .relative ∨
  ((s.operand.kind == .relative) = false ∧ s.operand.value.isAddrExpr = false ∧
    s.operand.value.isAddress = false ∧
    (s.pkg.needsRes = false ∨ (s.pkg.choices.isEmpty = false ∧ (TargetMoves D as s ∨ TargetMovesMod D as s)))) ∨
  ((s.operand.kind == .relative) = false ∧ s.pkg.needsRes = false ∧ DiffExpr s.operand.value)

/-- statements whose OPERAND is an absolute reference to a label of the program: `label`, `label + k`,
`label - k`, in a 16-bit operand field (`FieldWide`: extended, 16-bit immediate, `[label]`, `[label+1]`, FDB; NOT
`<label` or `FCB label`, where `fit_operand_width` accepts the value `x` and may reject `x + D`) -/
def MovedRef (D : Nat) (as : List Stmt) (s : Stmt) : Prop :=
  (s.operand.kind == .relative) = false ∧ s.pkg.needsRes = false ∧
  ((∃ t m, s.operand.value = .address t m) ∨ NumExpr D as s.operand.value) ∧ FieldWide s

/-- (repair batch B3) statements with a label or `label ± k` as CONSTANT OFFSET of a pointer register (`LDA TABLE,X`,
`LDB TBL+1,Y`, `LDD [TBL,U]`): no label in the operand value, `needsRes` WITHOUT post byte choices; the 16-bit offset
field is the target address itself -/
def MovedAbs (D : Nat) (as : List Stmt) (s : Stmt) : Prop :=
  (s.operand.kind == .relative) = false ∧ s.operand.value.isAddrExpr = false ∧
  s.operand.value.isAddress = false ∧ s.pkg.needsRes = true ∧ s.pkg.choices.isEmpty = true ∧
  TargetMoves D as s ∧ FieldWide s

/-- statements with an absolute reference to a label of the program in a 16-bit field: as the operand
(`MovedRef`) or as constant offset of a pointer register (`MovedAbs`) -/
def Moved (D : Nat) (as : List Stmt) (s : Stmt) : Prop := MovedRef D as s ∨ MovedAbs D as s

theorem Moved.fieldWide {D : Nat} {as : List Stmt} {s : Stmt} (h : Moved D as s) : FieldWide s := by
  rcases h with h | h
  · exact h.2.2.2
  · exact h.2.2.2.2.2.2

section
variable {D : Nat} {as as' : List Stmt}

/-- the target of a `needsRes` statement in the class moves by `D` -/
theorem TargetMoves.reloc (h : PW (AddrShiftI D) as as') {s : Stmt} (hr : TargetMoves D as s) :
    fixRelTarget as' s = (fixRelTarget as s).map (· + D) := by
  rcases hr with hx | hx | ⟨hidx, l, r, op, m, k, hh, mm, nn, he, hother, hop, hside, hb⟩
  · exact fixRelTarget_reloc_plain h s (.inl hx)
  · exact fixRelTarget_reloc_plain h s (.inr hx)
  · rw [he] at hb
    exact fixRelTarget_reloc_num h s hidx he hother hop hside hb

/-- the address of a statement of the original layout, moved by `D`, is inside the 64K space -/
theorem addrIntOf_wide (h : PW (AddrShift D) as as') {t a : Nat} (ha : addrIntOf as t = some a) :
    a + D < 65536 := by
  unfold addrIntOf addrOf at ha
  cases hj : as[t]? with
  | none => rw [hj] at ha; cases ha
  | some x =>
    rw [hj] at ha
    obtain ⟨x', _, _, a0, hh, m, e1, _, _, hlt⟩ := h.get hj
    simp only [Option.map_some, Option.bind_some, e1, Value.int?, Option.some.injEq] at ha
    omega

/-- the moved target stays inside the 64K space -/
theorem TargetMoves.bound (h : PW (AddrShift D) as as') {s : Stmt} (hr : TargetMoves D as s) :
    ∀ r, fixRelTarget as s = .ok r → r + D ≤ 65535 := by
  intro r hrr
  have plain : (s.isIdx = false ∨ s.pkg.additional.isAddrExpr = false) → r + D ≤ 65535 := by
    intro hp
    rw [fixRelTarget_plain _ _ hp] at hrr
    cases hi : s.pkg.additional.int? with
    | none => rw [hi] at hrr; cases hrr
    | some t =>
      rw [hi] at hrr
      dsimp only at hrr
      cases ha : addrIntOf as t with
      | none => rw [ha] at hrr; cases hrr
      | some a =>
        rw [ha] at hrr
        cases hrr
        have := addrIntOf_wide h ha
        omega
  rcases hr with hx | hx | ⟨hidx, l, r', op, m, k, hh, mm, nn, he, _, _, _, hb⟩
  · exact plain (.inl hx)
  · exact plain (.inr hx)
  · rw [fixRelTarget_expr _ _ hidx he] at hrr
    rw [he] at hb
    cases ho : addrOffset as (.expr l r' op m true) with
    | ok v =>
      rw [ho] at hrr
      obtain ⟨z, rfl, hz⟩ := hb v ho
      cases hrr
      exact hz
    | _ => rw [ho] at hrr; cases hrr

/-- (b, unmoved) IDENTICAL outcome of `fixOne` -/
theorem fixOne_unmoved (h : PW (AddrShiftI D) as as') (i : Nat) {s : Stmt} (hc : Unmoved D as s) :
    fixOne as' i s = fixOne as i s := by
  rcases hc with hk | ⟨hk, hE, hA, hr⟩ | ⟨hk, hn, l, r, m, hv, ho⟩
  · exact fixOne_reloc_relative h i s hk
  · rcases hr with hn | ⟨hc, hr⟩
    · exact fixOne_reloc_inert _ _ i s hk hE hA hn
    · rcases hr with hr | ⟨hidx, hr⟩
      · exact fixOne_reloc_pcr h i s hk hE hA hc (hr.reloc h)
      · obtain ⟨x, _, e1, e2⟩ := fixRelTarget_modExpr h hidx hr
        exact fixOne_reloc_pcr_mod h i s hk hE hA hc (by rw [e1, e2]; rfl)
  · exact fixOne_reloc_expr_diff h i s hk hv hn ho

/-- (b, moved, operand) the outcome of `fixOne` is the same up to moving the operand field by `D` -/
theorem fixOne_movedRef (h : PW (AddrShift D) as as') (i : Nat) {s : Stmt} (hc : MovedRef D as s) :
    fixOne as' i s = (fixOne as i s).map (Stmt.shiftAdditional D) := by
  obtain ⟨hk, hn, hv, _⟩ := hc
  rcases hv with ⟨t, m, hv⟩ | ⟨l, r, op, m, k, hh, mm, nn, hv, hother, hop, hside, hb⟩
  · exact fixOne_reloc_address h i s hk hv hn
  · rw [hv] at hb
    exact fixOne_reloc_expr_num (h.mono (fun _ _ => AddrShift.toI)) i s hk hv hn hother hop hside hb

/-- (b, moved, constant offset) the outcome of `fixOne` is the same up to moving the 16-bit offset field by `D` -/
theorem fixOne_movedAbs (h : PW (AddrShift D) as as') (i : Nat) {s : Stmt} (hc : MovedAbs D as s) :
    fixOne as' i s = (fixOne as i s).map (Stmt.shiftAdditional D) := by
  obtain ⟨hk, hE, hA, hn, hcc, hr, _⟩ := hc
  exact fixOne_reloc_abs i s hk hE hA hn hcc (hr.reloc (h.mono (fun _ _ => AddrShift.toI))) (hr.bound h)

/-- (b, moved) the outcome of `fixOne` is the same up to moving the operand field by `D` -/
theorem fixOne_moved (h : PW (AddrShift D) as as') (i : Nat) {s : Stmt} (hc : Moved D as s) :
    fixOne as' i s = (fixOne as i s).map (Stmt.shiftAdditional D) :=
  hc.elim (fixOne_movedRef h i) (fixOne_movedAbs h i)

/-- what a moved statement stores is a wide address value (two bytes, big endian) -/
theorem fixOne_moved_wide (h : PW (AddrShift D) as as') (i : Nat) {s t : Stmt} (hc : Moved D as s)
    (ht : fixOne as i s = .ok t) : WideAddr D t.pkg.additional (shiftV D t.pkg.additional) := by
  rcases hc with ⟨hk, hn, hv, _⟩ | ⟨hk, hE, hA, hn, hcc, hr, _⟩
  · rcases hv with ⟨tg, m, hv⟩ | ⟨l, r, op, m, k, hh, mm, nn, hv, hother, hop, hside, hb⟩
    · rw [fixOne_address_eq _ _ _ hk hv hn] at ht
      unfold addrOf at ht
      cases hj : as[tg]? with
      | none => rw [hj] at ht; cases ht
      | some x =>
        rw [hj] at ht
        simp only [Option.map_some, Outcome.ok.injEq] at ht
        subst ht
        obtain ⟨x', _, _, hw⟩ := h.get hj
        have := hw.shiftV
        dsimp only
        rw [← this]; exact hw
    · rw [hv] at hb
      rw [fixOne_expr_eq _ _ _ hk hv hn] at ht
      cases ho : addrOffset as (.expr l r op m true) with
      | ok v =>
        rw [ho] at ht
        simp only [Outcome.ok.injEq] at ht
        subst ht
        obtain ⟨z, rfl, hz⟩ := hb v ho
        exact ⟨z, some 4, .extended, rfl, rfl, .inl rfl, by omega⟩
      | _ => rw [ho] at ht; cases ht
  · by_cases hv : s.operand.value = .pyNone
    · rw [fixOne_pyNone _ _ _ hk hv] at ht; cases ht
    · rw [fixOne_abs_eq _ _ _ hk hv hE hA hn hcc, fixPartAbs_eq] at ht
      cases hrr : fixRelTarget as s with
      | ok r =>
        rw [hrr] at ht
        have hb := hr.bound h r hrr
        dsimp only at ht
        rw [if_pos (by omega)] at ht
        cases ht
        exact ⟨r, some 4, .extended, rfl, rfl, .inl rfl, by omega⟩
      | _ => rw [hrr] at ht; cases ht

/-! ### the per-statement step `fixFit` = `fixOne` then `fitWidth` -/

/-- (b, unmoved) IDENTICAL outcome of `fixFit` -/
theorem fixFit_unmoved (h : PW (AddrShiftI D) as as') (i : Nat) {s : Stmt} (hc : Unmoved D as s) :
    fixFit as' i s = fixFit as i s := by
  unfold fixFit
  rw [fixOne_unmoved h i hc]

/-- (b, moved) after `fixOne` the 16-bit field holds the wide address values `x`, `x + D`; `fitWidth` accepts
both and stores them with four hex digits -/
theorem fixFit_moved_aux (h : PW (AddrShift D) as as') (i : Nat) {s : Stmt} (hc : Moved D as s) :
    fixFit as' i s = (fixFit as i s).map (Stmt.shiftAdditional D) ∧
    ∀ t, fixFit as i s = .ok t → WideAddr D t.pkg.additional (shiftV D t.pkg.additional) := by
  have h1 := fixOne_moved h i hc
  have h2 := fun t => fixOne_moved_wide h i (t := t) hc
  unfold fixFit
  rw [h1]
  cases ho : fixOne as i s with
  | ok t =>
    have hfw : FieldWide t := hc.fieldWide.same (fixOne_same ho)
    obtain ⟨t1, e1, e2, hw⟩ := fitWidth_wide hfw (h2 t ho)
    simp only [Outcome.map_ok]
    rw [e1, e2]
    refine ⟨rfl, ?_⟩
    intro t' ht'
    cases ht'
    exact hw
  | diag => exact ⟨rfl, fun t ht => by cases ht⟩
  | internal => exact ⟨rfl, fun t ht => by cases ht⟩
  | diverged => exact ⟨rfl, fun t ht => by cases ht⟩

/-- (b, moved) the outcome of `fixFit` is the same up to moving the operand field by `D` -/
theorem fixFit_moved (h : PW (AddrShift D) as as') (i : Nat) {s : Stmt} (hc : Moved D as s) :
    fixFit as' i s = (fixFit as i s).map (Stmt.shiftAdditional D) := (fixFit_moved_aux h i hc).1

/-- what a moved statement finally stores is a wide address value (two bytes, big endian) -/
theorem fixFit_moved_wide (h : PW (AddrShift D) as as') (i : Nat) {s t : Stmt} (hc : Moved D as s)
    (ht : fixFit as i s = .ok t) : WideAddr D t.pkg.additional (shiftV D t.pkg.additional) :=
  (fixFit_moved_aux h i hc).2 t ht

end

/-! ### `fixAll` -/

theorem fixAll_outRel {R : Stmt → Stmt → Prop} {as as' : List Stmt} : ∀ (l l' : List Stmt) (i : Nat),
    l'.length = l.length →
    (∀ j s s', l[j]? = some s → l'[j]? = some s' → OutRel R (fixFit as (i + j) s) (fixFit as' (i + j) s')) →
    OutRel (PW R) (fixAll as i l) (fixAll as' i l') := by
  intro l
  induction l with
  | nil =>
    intro l' i hl _
    have : l' = [] := List.eq_nil_of_length_eq_zero (by simpa using hl)
    subst this
    exact .ok .nil
  | cons s rest ih =>
    intro l' i hl hall
    cases l' with
    | nil => simp at hl
    | cons s' rest' =>
      have h0 := hall 0 s s' (by simp) (by simp)
      have hrest := ih rest' (i + 1) (by simpa using hl) (fun j a b ha hb => by
        have := hall (j + 1) a b (by simpa using ha) (by simpa using hb)
        rw [show i + 1 + j = i + (j + 1) by omega]; exact this)
      rw [fixAll_cons, fixAll_cons]
      simp only [Nat.add_zero] at h0
      generalize fixFit as i s = o1 at h0 ⊢
      generalize fixFit as' i s' = o1' at h0 ⊢
      generalize fixAll as (i + 1) rest = o2 at hrest ⊢
      generalize fixAll as' (i + 1) rest' = o2' at hrest ⊢
      cases h0 with
      | ok r0 =>
        dsimp only
        cases hrest with
        | ok rr => exact .ok (.cons r0 rr)
        | diag => exact .diag
        | internal => exact .internal
        | diverged => exact .diverged
      | diag => exact .diag
      | internal => exact .internal
      | diverged => exact .diverged

/-! ### origin and name -/

theorem origin_reloc {D : Nat} : ∀ (fs fs' : List Stmt) (o : Value),
    PW (fun s s' => s'.row = s.row ∧ s'.pkg.address = shiftV D s.pkg.address) fs fs' →
    fs'.foldl (fun o s => if s.row.isOrigin then s.pkg.address else o) (shiftV D o)
      = shiftV D (fs.foldl (fun o s => if s.row.isOrigin then s.pkg.address else o) o) := by
  intro fs
  induction fs with
  | nil => intro fs' o h; rw [h.nil_left]; rfl
  | cons s rest ih =>
    intro fs' o h
    obtain ⟨s', rest', rfl, ⟨hrow, haddr⟩, hr⟩ := h.cons_left
    simp only [List.foldl_cons]
    rw [hrow, haddr]
    have : (if s.row.isOrigin = true then shiftV D s.pkg.address else shiftV D o)
        = shiftV D (if s.row.isOrigin = true then s.pkg.address else o) := by split <;> rfl
    rw [this]
    exact ih rest' _ hr

theorem name_reloc : ∀ (fs fs' : List Stmt) (o : Option Str),
    PW (fun s s' => s'.row = s.row ∧ s'.operand = s.operand) fs fs' →
    fs'.foldl (fun o s => if s.row.isName then some s.operand.text else o) o
      = fs.foldl (fun o s => if s.row.isName then some s.operand.text else o) o := by
  intro fs
  induction fs with
  | nil => intro fs' o h; rw [h.nil_left]
  | cons s rest ih =>
    intro fs' o h
    obtain ⟨s', rest', rfl, ⟨hrow, hop⟩, hr⟩ := h.cons_left
    simp only [List.foldl_cons]
    rw [hrow, hop]
    exact ih rest' _ hr

end CoCo.Asm
