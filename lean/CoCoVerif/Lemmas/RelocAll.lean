/-
Lemmas/RelocAll.lean — relocation (C18-R1), part 5: the two statement classes (`Unmoved`, `Moved`), the
per-statement step `fixFit` (`fix_addresses; fit_operand_width`) by class, `fixAll` as a whole, and the
origin / name scan.
-/
import CoCoVerif.Lemmas.RelocEmit

namespace CoCo

/-- two outcomes of the same kind whose payloads (if any) are related -/
inductive OutRel {α β : Type} (R : α → β → Prop) : Outcome α → Outcome β → Prop
  | ok {a : α} {b : β} : R a b → OutRel R (.ok a) (.ok b)
  | diag : OutRel R .diag .diag
  | internal : OutRel R .internal .internal
  | diverged : OutRel R .diverged .diverged

namespace OutRel
variable {α β : Type} {R : α → β → Prop}

theorem of_map {f : α → β} (o : Outcome α) (h : ∀ a, o = .ok a → R a (f a)) : OutRel R o (o.map f) := by
  cases o with
  | ok a => exact .ok (h a rfl)
  | diag => exact .diag
  | internal => exact .internal
  | diverged => exact .diverged

theorem of_eq_map {f : α → β} {o : Outcome α} {o' : Outcome β} (he : o' = o.map f)
    (h : ∀ a, o = .ok a → R a (f a)) : OutRel R o o' := by
  rw [he]; exact of_map o h

theorem get {o : Outcome α} {o' : Outcome β} (h : OutRel R o o') {a : α} (ha : o = .ok a) :
    ∃ b, o' = .ok b ∧ R a b := by
  cases h with
  | ok r => cases ha; exact ⟨_, rfl, r⟩
  | _ => cases ha

theorem get' {o : Outcome α} {o' : Outcome β} (h : OutRel R o o') {b : β} (hb : o' = .ok b) :
    ∃ a, o = .ok a ∧ R a b := by
  cases h with
  | ok r => cases hb; exact ⟨_, rfl, r⟩
  | _ => cases hb

theorem rel {a : α} {b : β} (h : OutRel R (.ok a) (.ok b)) : R a b := by
  cases h with
  | ok r => exact r

/-- identical outcome kind -/
theorem kind_eq {o : Outcome α} {o' : Outcome β} (h : OutRel R o o') : o'.kind = o.kind := by
  cases h <;> rfl

theorem mono {S : α → β → Prop} {o : Outcome α} {o' : Outcome β} (h : OutRel R o o') (hi : ∀ a b, R a b → S a b) :
    OutRel S o o' := by
  cases h with
  | ok r => exact .ok (hi _ _ r)
  | diag => exact .diag
  | internal => exact .internal
  | diverged => exact .diverged

end OutRel
end CoCo

namespace CoCo.Asm
open CoCo

/-! ### the two classes -/

/-- `e` is `label + k` or `label - k` (one operand a number), whose value in the layout `as` still fits 16
bits after moving by `D` (the value itself is `.numeric z (some 4) .extended false`: `label + k` is rejected
above `$FFFF`, `label - k` is computed modulo `$10000`; without the bound `label - k` moves by `D` modulo
`$10000`, see `fixOne_reloc_expr_minus_mod`).
Since repair batch B2 the number is SIGNED: the other operand `.numeric k hh mm nn` contributes `signedK k nn`, i.e.
`-k` when it was written or defined (EQU) with a minus sign, so `label + N` with `N EQU -2` is `label - 2`.  The
bound then also says that `label + N` is not NEGATIVE in the layout `as` (`calculate_address_offset` does not reduce
`+` modulo `$10000`; a negative value is stored in two's complement and moves by `D` modulo `$10000`, see the class
`MovedMod` of Lemmas/RelocMod.lean).  In arithmetic terms: `numExpr_plus_iff`, `numExpr_minus_iff`
(Lemmas/RelocSigned.lean). -/
def NumExpr (D : Nat) (as : List Stmt) (e : Value) : Prop :=
  ∃ l r op m k hh mm nn, e = .expr l r op m true ∧ (if l.isAddress then r else l) = .numeric k hh mm nn ∧
    (op = '+' ∨ op = '-') ∧
    ∀ v, addrOffset as e = .ok v → ∃ z, v = .numeric z (some 4) .extended false ∧ z + D ≤ 65535

/-- `e` is `label - label` -/
def DiffExpr (e : Value) : Prop :=
  ∃ l r m, e = .expr l r '-' m true ∧ (if l.isAddress then r else l).isAddress = true

/-- statements whose code must not change: branches; statements without a label in the operand (PCR
operands with a plain target or a `label ± k` target included); `label - label` -/
def Unmoved (D : Nat) (as : List Stmt) (s : Stmt) : Prop :=
  s.operand.kind = .relative ∨
  ((s.operand.kind == .relative) = false ∧ s.operand.value.isAddrExpr = false ∧
    s.operand.value.isAddress = false ∧
    (s.pkg.needsRes = false ∨ s.isIdx = false ∨ s.pkg.additional.isAddrExpr = false ∨
      (s.isIdx = true ∧ NumExpr D as s.pkg.additional))) ∨
  ((s.operand.kind == .relative) = false ∧ s.pkg.needsRes = false ∧ DiffExpr s.operand.value)

/-- statements with an absolute reference to a label of the program: `label`, `label + k`, `label - k`, in a
16-bit operand field (`FieldWide`: extended, 16-bit immediate, `[label]`, FDB; NOT `<label` or `FCB label`,
where `fit_operand_width` accepts the value `x` and may reject `x + D`) -/
def Moved (D : Nat) (as : List Stmt) (s : Stmt) : Prop :=
  (s.operand.kind == .relative) = false ∧ s.pkg.needsRes = false ∧
  ((∃ t m, s.operand.value = .address t m) ∨ NumExpr D as s.operand.value) ∧ FieldWide s

section
variable {D : Nat} {as as' : List Stmt}

/-- (b, unmoved) IDENTICAL outcome of `fixOne` -/
theorem fixOne_unmoved (h : PW (AddrShiftI D) as as') (i : Nat) {s : Stmt} (hc : Unmoved D as s) :
    fixOne as' i s = fixOne as i s := by
  rcases hc with hk | ⟨hk, hE, hA, hr⟩ | ⟨hk, hn, l, r, m, hv, ho⟩
  · exact fixOne_reloc_relative h i s hk
  · rcases hr with hn | hx | hx | ⟨hidx, l, r, op, m, k, hh, mm, nn, he, hother, hop, hb⟩
    · exact fixOne_reloc_inert _ _ i s hk hE hA hn
    · exact fixOne_reloc_pcr_plain h i s hk hE hA (.inl hx)
    · exact fixOne_reloc_pcr_plain h i s hk hE hA (.inr hx)
    · rw [he] at hb
      exact fixOne_reloc_pcr_num h i s hk hE hA hidx he hother hop hb
  · exact fixOne_reloc_expr_diff h i s hk hv hn ho

/-- (b, moved) the outcome of `fixOne` is the same up to moving the operand field by `D` -/
theorem fixOne_moved (h : PW (AddrShift D) as as') (i : Nat) {s : Stmt} (hc : Moved D as s) :
    fixOne as' i s = (fixOne as i s).map (Stmt.shiftAdditional D) := by
  obtain ⟨hk, hn, hv, _⟩ := hc
  rcases hv with ⟨t, m, hv⟩ | ⟨l, r, op, m, k, hh, mm, nn, hv, hother, hop, hb⟩
  · exact fixOne_reloc_address h i s hk hv hn
  · rw [hv] at hb
    exact fixOne_reloc_expr_num (h.mono (fun _ _ => AddrShift.toI)) i s hk hv hn hother hop hb

/-- what a moved statement stores is a wide address value (two bytes, big endian) -/
theorem fixOne_moved_wide (h : PW (AddrShift D) as as') (i : Nat) {s t : Stmt} (hc : Moved D as s)
    (ht : fixOne as i s = .ok t) : WideAddr D t.pkg.additional (shiftV D t.pkg.additional) := by
  obtain ⟨hk, hn, hv, _⟩ := hc
  rcases hv with ⟨tg, m, hv⟩ | ⟨l, r, op, m, k, hh, mm, nn, hv, hother, hop, hb⟩
  · rw [fixOne_address_eq _ _ _ hk hv hn] at ht
    unfold addrOf at ht
    cases hj : as[tg]? with
    | none => rw [hj] at ht; cases ht
    | some x =>
      rw [hj] at ht
      simp only [Option.map_some, Outcome.ok.injEq] at ht
      subst ht
      obtain ⟨x', _, _, hw⟩ := h.get hj
      have := hw.shiftV
      dsimp only
      rw [← this]; exact hw
  · rw [hv] at hb
    rw [fixOne_expr_eq _ _ _ hk hv hn] at ht
    cases ho : addrOffset as (.expr l r op m true) with
    | ok v =>
      rw [ho] at ht
      simp only [Outcome.ok.injEq] at ht
      subst ht
      obtain ⟨z, rfl, hz⟩ := hb v ho
      exact ⟨z, some 4, .extended, rfl, rfl, .inl rfl, by omega⟩
    | _ => rw [ho] at ht; cases ht

/-! ### the per-statement step `fixFit` = `fixOne` then `fitWidth` -/

/-- (b, unmoved) IDENTICAL outcome of `fixFit` -/
theorem fixFit_unmoved (h : PW (AddrShiftI D) as as') (i : Nat) {s : Stmt} (hc : Unmoved D as s) :
    fixFit as' i s = fixFit as i s := by
  unfold fixFit
  rw [fixOne_unmoved h i hc]

/-- (b, moved) after `fixOne` the 16-bit field holds the wide address values `x`, `x + D`; `fitWidth` accepts
both and stores them with four hex digits -/
theorem fixFit_moved_aux (h : PW (AddrShift D) as as') (i : Nat) {s : Stmt} (hc : Moved D as s) :
    fixFit as' i s = (fixFit as i s).map (Stmt.shiftAdditional D) ∧
    ∀ t, fixFit as i s = .ok t → WideAddr D t.pkg.additional (shiftV D t.pkg.additional) := by
  have h1 := fixOne_moved h i hc
  have h2 := fun t => fixOne_moved_wide h i (t := t) hc
  unfold fixFit
  rw [h1]
  cases ho : fixOne as i s with
  | ok t =>
    have hfw : FieldWide t := hc.2.2.2.same (fixOne_same ho)
    obtain ⟨t1, e1, e2, hw⟩ := fitWidth_wide hfw (h2 t ho)
    simp only [Outcome.map_ok]
    rw [e1, e2]
    refine ⟨rfl, ?_⟩
    intro t' ht'
    cases ht'
    exact hw
  | diag => exact ⟨rfl, fun t ht => by cases ht⟩
  | internal => exact ⟨rfl, fun t ht => by cases ht⟩
  | diverged => exact ⟨rfl, fun t ht => by cases ht⟩

/-- (b, moved) the outcome of `fixFit` is the same up to moving the operand field by `D` -/
theorem fixFit_moved (h : PW (AddrShift D) as as') (i : Nat) {s : Stmt} (hc : Moved D as s) :
    fixFit as' i s = (fixFit as i s).map (Stmt.shiftAdditional D) := (fixFit_moved_aux h i hc).1

/-- what a moved statement finally stores is a wide address value (two bytes, big endian) -/
theorem fixFit_moved_wide (h : PW (AddrShift D) as as') (i : Nat) {s t : Stmt} (hc : Moved D as s)
    (ht : fixFit as i s = .ok t) : WideAddr D t.pkg.additional (shiftV D t.pkg.additional) :=
  (fixFit_moved_aux h i hc).2 t ht

end

/-! ### `fixAll` -/

theorem fixAll_outRel {R : Stmt → Stmt → Prop} {as as' : List Stmt} : ∀ (l l' : List Stmt) (i : Nat),
    l'.length = l.length →
    (∀ j s s', l[j]? = some s → l'[j]? = some s' → OutRel R (fixFit as (i + j) s) (fixFit as' (i + j) s')) →
    OutRel (PW R) (fixAll as i l) (fixAll as' i l') := by
  intro l
  induction l with
  | nil =>
    intro l' i hl _
    have : l' = [] := List.eq_nil_of_length_eq_zero (by simpa using hl)
    subst this
    exact .ok .nil
  | cons s rest ih =>
    intro l' i hl hall
    cases l' with
    | nil => simp at hl
    | cons s' rest' =>
      have h0 := hall 0 s s' (by simp) (by simp)
      have hrest := ih rest' (i + 1) (by simpa using hl) (fun j a b ha hb => by
        have := hall (j + 1) a b (by simpa using ha) (by simpa using hb)
        rw [show i + 1 + j = i + (j + 1) by omega]; exact this)
      rw [fixAll_cons, fixAll_cons]
      simp only [Nat.add_zero] at h0
      generalize fixFit as i s = o1 at h0 ⊢
      generalize fixFit as' i s' = o1' at h0 ⊢
      generalize fixAll as (i + 1) rest = o2 at hrest ⊢
      generalize fixAll as' (i + 1) rest' = o2' at hrest ⊢
      cases h0 with
      | ok r0 =>
        dsimp only
        cases hrest with
        | ok rr => exact .ok (.cons r0 rr)
        | diag => exact .diag
        | internal => exact .internal
        | diverged => exact .diverged
      | diag => exact .diag
      | internal => exact .internal
      | diverged => exact .diverged

/-! ### origin and name -/

theorem origin_reloc {D : Nat} : ∀ (fs fs' : List Stmt) (o : Value),
    PW (fun s s' => s'.row = s.row ∧ s'.pkg.address = shiftV D s.pkg.address) fs fs' →
    fs'.foldl (fun o s => if s.row.isOrigin then s.pkg.address else o) (shiftV D o)
      = shiftV D (fs.foldl (fun o s => if s.row.isOrigin then s.pkg.address else o) o) := by
  intro fs
  induction fs with
  | nil => intro fs' o h; rw [h.nil_left]; rfl
  | cons s rest ih =>
    intro fs' o h
    obtain ⟨s', rest', rfl, ⟨hrow, haddr⟩, hr⟩ := h.cons_left
    simp only [List.foldl_cons]
    rw [hrow, haddr]
    have : (if s.row.isOrigin = true then shiftV D s.pkg.address else shiftV D o)
        = shiftV D (if s.row.isOrigin = true then s.pkg.address else o) := by split <;> rfl
    rw [this]
    exact ih rest' _ hr

theorem name_reloc : ∀ (fs fs' : List Stmt) (o : Option Str),
    PW (fun s s' => s'.row = s.row ∧ s'.operand = s.operand) fs fs' →
    fs'.foldl (fun o s => if s.row.isName then some s.operand.text else o) o
      = fs.foldl (fun o s => if s.row.isName then some s.operand.text else o) o := by
  intro fs
  induction fs with
  | nil => intro fs' o h; rw [h.nil_left]
  | cons s rest ih =>
    intro fs' o h
    obtain ⟨s', rest', rfl, ⟨hrow, hop⟩, hr⟩ := h.cons_left
    simp only [List.foldl_cons]
    rw [hrow, hop]
    exact ih rest' _ hr

end CoCo.Asm
