/-
Lemmas/DiskInv.lean — fields of a written directory entry, the invariant of reachable images (with a
ghost record of the chains given to the stored files), blank image, preservation by add_file.
-/
import CoCoVerif.Lemmas.DiskAddFile
namespace CoCo.Dsk
open CoCo Spec.DiskBasic CoCo.Props

/-! ### fields of a written directory entry -/
theorem getD_append_at (l1 l2 : List Nat) (n i : Nat) (h : l1.length = n) :
    (l1 ++ l2).getD (n + i) 0 = l2.getD i 0 := by
  subst h
  simp [List.getD_eq_getElem?_getD, List.getElem?_append_right]

theorem dirEntryBytes_split (f : CFile) (a c : Nat) :
    dirEntryBytes f a c = padUpper 8 f.name ++ (padUpper 3 f.ext ++
      ([f.ftype, f.dtype, a, c / 256, c % 256] ++ List.replicate 16 0x00)) := by
  unfold dirEntryBytes; simp

theorem deb_getD (f : CFile) (a c i : Nat) :
    (dirEntryBytes f a c).getD (11 + i) 0 =
      ([f.ftype, f.dtype, a, c / 256, c % 256] ++ List.replicate 16 0x00).getD i 0 := by
  rw [dirEntryBytes_split]
  have : 11 + i = 8 + (3 + i) := by omega
  rw [this, getD_append_at _ _ 8 _ (padUpper_length 8 _), getD_append_at _ _ 3 _ (padUpper_length 3 _)]

theorem deb_ftype (f : CFile) (a c : Nat) : entFtype (dirEntryBytes f a c) = f.ftype := by
  unfold entFtype; exact deb_getD f a c 0
theorem deb_ascii (f : CFile) (a c : Nat) : entAscii (dirEntryBytes f a c) = f.dtype := by
  unfold entAscii; exact deb_getD f a c 1
theorem deb_first (f : CFile) (a c : Nat) : entFirst (dirEntryBytes f a c) = a := by
  unfold entFirst; exact deb_getD f a c 2
theorem deb_lastBytes (f : CFile) (a c : Nat) : entLastBytes (dirEntryBytes f a c) = c := by
  unfold entLastBytes
  rw [show (14 : Nat) = 11 + 3 from rfl, show (15 : Nat) = 11 + 4 from rfl, deb_getD, deb_getD]
  simp; omega
theorem deb_name (f : CFile) (a c : Nat) : (dirEntryBytes f a c).take 8 = padUpper 8 f.name := by
  rw [dirEntryBytes_split]
  exact List.take_left' (padUpper_length 8 _)
theorem deb_ext (f : CFile) (a c : Nat) : ((dirEntryBytes f a c).drop 8).take 3 = padUpper 3 f.ext := by
  rw [dirEntryBytes_split, List.drop_left' (padUpper_length 8 _)]
  exact List.take_left' (padUpper_length 3 _)

theorem upper_le (c : Nat) : upper c ≤ c := by unfold upper; split <;> omega

theorem padUpper_mem (n : Nat) (s : List Nat) (hs : ∀ c ∈ s, c < 128) :
    ∀ y ∈ padUpper n s, 0 < y ∧ y < 128 := by
  intro y hy
  unfold padUpper at hy
  rw [List.mem_map] at hy
  obtain ⟨c, hc, rfl⟩ := hy
  have hc128 : c < 128 := by
    rcases List.mem_append.mp hc with h | h
    · exact hs c (List.mem_of_mem_take h)
    · have := List.eq_of_mem_replicate h; omega
  have := upper_le c
  split <;> omega

theorem deb_live (f : CFile) (a c : Nat) (hv : ValidDFile f) : live (dirEntryBytes f a c) = true := by
  unfold live
  have h0 : (dirEntryBytes f a c).getD 0 0 = (padUpper 8 f.name).getD 0 0 := by
    rw [dirEntryBytes_split]
    simp [List.getD_eq_getElem?_getD, padUpper_length]
  rw [h0]
  have hl := padUpper_length 8 f.name
  have hm : (padUpper 8 f.name).getD 0 0 ∈ padUpper 8 f.name := by
    rw [List.getD_eq_getElem?_getD, List.getElem?_eq_getElem (by omega)]
    simp
  have := padUpper_mem 8 f.name hv.1 _ hm
  generalize (padUpper 8 f.name).getD 0 0 = x at this ⊢
  simp; omega


/-- ghost record of one stored file: the chain it was given -/
structure Ent where
  chain : List Nat
  file : CFile

def chains (abs : List Ent) : List Nat := abs.flatMap (·.chain)

theorem mem_chains {abs : List Ent} {g : Nat} : g ∈ chains abs ↔ ∃ e ∈ abs, g ∈ e.chain := by
  unfold chains; simp [List.mem_flatMap]

theorem chains_append (a b : List Ent) : chains (a ++ b) = chains a ++ chains b := by
  unfold chains; simp

/-- the invariant of images reachable from the blank image -/
structure Inv (img : Bytes) (abs : List Ent) : Prop where
  len : img.length = 161280
  slots : abs.length ≤ 72
  dir : ∀ k e, abs[k]? = some e → dirEntry img k = dirEntryBytes e.file (e.chain.headD 0) (flsb e.file)
  dirFree : ∀ k, abs.length ≤ k → k < 72 → live (dirEntry img k) = false
  valid : ∀ e ∈ abs, ValidDFile e.file
  chainLen : ∀ e ∈ abs, e.chain.length = needs e.file
  chainLt : ∀ e ∈ abs, ∀ g ∈ e.chain, g < 68
  nodup : (chains abs).Nodup
  enc : ∀ e ∈ abs, Encodes img e.chain (flgs e.file)
  fatFree : ∀ g, g < 68 → g ∉ chains abs → fatAt img g = 0xFF
  stream : ∀ e ∈ abs, (streamOf img e.chain).take (streamOfFile e.file).length = streamOfFile e.file
  granFree : ∀ g, g < 68 → g ∉ chains abs → granuleBytes img g = List.replicate 2304 0xFF
  t17a : (img.drop 78336).take 256 = List.replicate 256 0xFF
  t17b : (img.drop 81152).take 1792 = List.replicate 1792 0xFF

theorem blank_slice (q n : Nat) (h : q + n ≤ 161280) : (blank.drop q).take n = List.replicate n 0xFF := by
  unfold blank; rw [SIZE_eq]
  rw [List.drop_replicate, List.take_replicate]
  congr 1; omega

theorem blank_getD (i : Nat) (h : i < 161280) : blank.getD i 0 = 0xFF := by
  unfold blank; rw [SIZE_eq]
  rw [List.getD_eq_getElem?_getD, List.getElem?_replicate, if_pos h]
  rfl

theorem blank_length : blank.length = 161280 := by unfold blank; rw [SIZE_eq]; exact List.length_replicate

theorem blank_dirFree (k : Nat) (hk : k < 72) : live (dirEntry blank k) = false := by
  unfold live
  rw [dirEntry_first, blank_getD _ (by rw [DIR_eq]; omega)]
  rfl

theorem blank_fatAt (g : Nat) (hg : g < 68) : fatAt blank g = 0xFF := by
  unfold fatAt fatOff; exact blank_getD _ (by omega)

theorem Inv_blank : Inv blank [] where
  len := blank_length
  slots := by simp
  dir := by intro k e h; simp at h
  dirFree := fun k _ hk => blank_dirFree k hk
  valid := by intro e h; cases h
  chainLen := by intro e h; cases h
  chainLt := by intro e h; cases h
  nodup := by simp [chains]
  enc := by intro e h; cases h
  fatFree := fun g hg _ => blank_fatAt g hg
  stream := by intro e h; cases h
  granFree := by
    intro g hg _
    rw [granuleBytes_eq]
    exact blank_slice _ _ (seek_in g hg)
  t17a := blank_slice _ _ (by omega)
  t17b := blank_slice _ _ (by omega)

theorem Inv.live_iff {img : Bytes} {abs : List Ent} (h : Inv img abs) (k : Nat) (hk : k < 72) :
    live (dirEntry img k) = decide (k < abs.length) := by
  by_cases hlt : k < abs.length
  · have hget : abs[k]? = some abs[k] := List.getElem?_eq_getElem hlt
    rw [h.dir k _ hget, deb_live _ _ _ (h.valid _ (List.getElem_mem hlt))]
    simp [hlt]
  · rw [h.dirFree k (by omega) hk]; simp [hlt]

theorem Inv.chain_not_free {img : Bytes} {abs : List Ent} (h : Inv img abs) {g : Nat} (hg : g ∈ chains abs) :
    fatAt img g ≠ 0xFF := by
  obtain ⟨e, he, hge⟩ := mem_chains.mp hg
  exact Encodes_ne_free e.chain _ (flgs_range e.file).2 (h.chainLt e he) (h.enc e he) g hge

/-- one more stored file keeps the invariant -/
theorem Inv.step {order : List Nat} {img img' : Bytes} {abs : List Ent} {f : CFile} (h : Inv img abs)
    (ho : ValidOrder order) (hv : ValidDFile f) (hres : addFile order img f = .ok img') :
    ∃ gs, Inv img' (abs ++ [⟨gs, f⟩]) ∧ (∀ g ∈ gs, g < 68 ∧ fatAt img g = 0xFF) ∧ gs.length = needs f ∧
      abs.length < 72 ∧ freeGranules img' + needs f = freeGranules img ∧
      (∀ g, g < 68 → g ∉ gs → fatAt img' g = fatAt img g) := by
  obtain ⟨gs, e, hlen, hnd, hall, he, hfree, hlive, eff, hcnt⟩ := addFile_effect h.len ho hv.2.2.2.2.2.2.2 hres
  have hlt : ∀ g ∈ gs, g < 68 := fun g hg => (hall g hg).1
  -- the slot is the first unused one
  have hE : e = abs.length := by
    have h1 := h.live_iff e he
    rw [hfree] at h1
    have h1' : ¬ e < abs.length := by simpa using h1.symm
    by_cases h2 : abs.length < e
    · have h3 := h.live_iff abs.length (by omega)
      rw [hlive _ h2] at h3
      simp at h3
    · omega
  subst hE
  -- the new chain is disjoint from the old ones
  have hdisj : ∀ g ∈ gs, g ∉ chains abs := fun g hg hc => h.chain_not_free hc (hall g hg).2
  have hold : ∀ en ∈ abs, ∀ g ∈ en.chain, g ∉ gs := by
    intro en hen g hg hgs
    exact hdisj g hgs (mem_chains.mpr ⟨en, hen, hg⟩)
  have hmem : ∀ en, en ∈ abs ++ [⟨gs, f⟩] → en ∈ abs ∨ en = ⟨gs, f⟩ := by
    intro en hen
    rcases List.mem_append.mp hen with h1 | h1
    · left; exact h1
    · right; simpa using h1
  have hch : chains (abs ++ [⟨gs, f⟩]) = chains abs ++ gs := by
    rw [chains_append]; simp [chains]
  refine ⟨gs, ?_, hall, hlen, he, hcnt, eff.fat_other⟩
  constructor
  · exact eff.len
  · simp; omega
  · intro k en hk
    by_cases hk' : k < abs.length
    · rw [List.getElem?_append_left hk'] at hk
      rw [eff.dir_other k (by omega) (by omega)]
      exact h.dir k en hk
    · have hk2 : k = abs.length := by
        have : k < (abs ++ [(⟨gs, f⟩ : Ent)]).length := (List.getElem?_eq_some_iff.mp hk).1
        simp at this; omega
      subst hk2
      simp at hk
      subst hk
      exact eff.dir_new
  · intro k hk1 hk2
    simp at hk1
    rw [eff.dir_other k hk2 (by omega)]
    exact h.dirFree k (by omega) hk2
  · intro en hen
    rcases hmem en hen with h1 | rfl
    · exact h.valid en h1
    · exact hv
  · intro en hen
    rcases hmem en hen with h1 | rfl
    · exact h.chainLen en h1
    · exact hlen
  · intro en hen
    rcases hmem en hen with h1 | rfl
    · exact h.chainLt en h1
    · exact hlt
  · rw [hch]
    apply List.nodup_append.mpr
    refine ⟨h.nodup, hnd, ?_⟩
    intro a ha b hb e'
    subst e'
    exact hdisj a hb ha
  · intro en hen
    rcases hmem en hen with h1 | rfl
    · apply Encodes_congr en.chain _ (b := img) _ (h.enc en h1)
      intro g hg
      exact eff.fat_other g (h.chainLt en h1 g hg) (hold en h1 g hg)
    · exact eff.fat_chain
  · intro g hg hn
    rw [hch, List.mem_append, not_or] at hn
    rw [eff.fat_other g hg hn.2]
    exact h.fatFree g hg hn.1
  · intro en hen
    rcases hmem en hen with h1 | rfl
    · have : streamOf img' en.chain = streamOf img en.chain := by
        apply streamOf_congr
        intro g hg
        exact eff.gran_other g (h.chainLt en h1 g hg) (hold en h1 g hg)
      rw [this]
      exact h.stream en h1
    · exact eff.stream
  · intro g hg hn
    rw [hch, List.mem_append, not_or] at hn
    rw [eff.gran_other g hg hn.2]
    exact h.granFree g hg hn.1
  · rw [eff.t17a]; exact h.t17a
  · rw [eff.t17b]; exact h.t17b

/-- every written image satisfies the invariant for some ghost record of the stored files -/
theorem Inv.addFiles {order : List Nat} (ho : ValidOrder order) :
    ∀ (fs : List CFile) (img img' : Bytes) (abs : List Ent), Inv img abs → (∀ f ∈ fs, ValidDFile f) →
      addFiles order img fs = .ok img' →
      ∃ abs', Inv img' (abs ++ abs') ∧ abs'.map (·.file) = fs := by
  intro fs
  induction fs with
  | nil =>
    intro img img' abs h _ hres
    simp only [Dsk.addFiles] at hres
    cases hres
    exact ⟨[], by simpa using h, rfl⟩
  | cons f fs ih =>
    intro img img' abs h hv hres
    rw [Dsk.addFiles] at hres
    split at hres
    · rename_i img1 h1
      obtain ⟨gs, hinv, _⟩ := h.step ho (hv f List.mem_cons_self) h1
      obtain ⟨abs', hinv', hfs⟩ := ih img1 img' _ hinv (fun x hx => hv x (List.mem_cons_of_mem _ hx)) hres
      refine ⟨⟨gs, f⟩ :: abs', by simpa using hinv', by simp [hfs]⟩
    all_goals cases hres

theorem Inv.write {order : List Nat} {fs : List CFile} {img : Bytes} (ho : ValidOrder order)
    (hv : ∀ f ∈ fs, ValidDFile f) (hres : Dsk.write order fs = .ok img) :
    ∃ abs, Inv img abs ∧ abs.map (·.file) = fs := by
  obtain ⟨abs, h1, h2⟩ := Inv.addFiles ho fs blank img [] Inv_blank hv hres
  exact ⟨abs, by simpa using h1, h2⟩

end CoCo.Dsk

