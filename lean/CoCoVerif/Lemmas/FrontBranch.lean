/-
Lemmas/FrontBranch.lean — helper lemmas for C18-R4: values produced by the parser are never
`address` values, so every address index met by `fix_addresses` was looked up in the symbol table and
points inside the program; this gives `BranchInside` for the layout of any parsed program.
-/
import CoCoVerif.Lemmas.FrontFix

namespace CoCo.Asm
open CoCo
open CoCo.Gen (InstrRow)

theorem numericOfInt_notAddr {v : Int} {h : Option Nat} {m : Mode} {x : Value}
    (hx : numericOfInt v h m = .ok x) : x.isAddress = false := by
  unfold numericOfInt at hx
  split at hx
  · cases hx
  · simp only [Except.ok.injEq] at hx
    subst hx; rfl

theorem numericOfStr_notAddr {s : Str} {h : Option Nat} {m : Mode} {x : Value}
    (hx : numericOfStr s h m = .ok x) : x.isAddress = false := by
  unfold numericOfStr at hx
  dsimp only at hx
  split at hx
  · rename_i heq
    simp only [Except.ok.injEq] at hx
    subst hx
    split at heq
    · split at heq
      · simp only [Option.some.injEq] at heq; subst heq; rfl
      · cases heq
    · cases heq
  · repeat' split at hx
    all_goals first | (cases hx; done) | (cases hx; rfl)

theorem create_notAddr : ∀ (fuel : Nat) (s : Str) (a b c : Bool) (v : Value),
    create fuel s a b c = .ok v → v.isAddress = false := by
  intro fuel
  cases fuel with
  | zero => intro s a b c v h; simp [create] at h
  | succ n =>
    intro s a b c v h
    unfold create at h
    split at h
    · cases h
    · dsimp only at h
      split at h
      · rename_i heq
        simp only [Except.ok.injEq] at h; subst h
        split at heq
        · simp only [Option.some.injEq] at heq; subst heq; rfl
        · cases heq
      · split at h
        · rename_i heq
          simp only [Except.ok.injEq] at h; subst h
          repeat' split at heq
          all_goals first | (cases heq; done) | (cases heq; rfl)
        · split at h
          · rename_i heq
            simp only [Except.ok.injEq] at h; subst h
            repeat' split at heq
            all_goals first | (cases heq; done) | (cases heq; rfl)
          · repeat' split at h
            all_goals first
              | (cases h; done)
              | (cases h; rfl)
              | (simp only [Except.ok.injEq] at h; subst h; exact numericOfStr_notAddr ‹_›)

theorem createV_notAddr {s : Str} {a b c : Bool} {v : Value} (h : createV s a b c = .ok v) :
    v.isAddress = false := create_notAddr 4 s a b c v h

theorem map_ok' {α β} {f : α → β} {x : R α} {y : β} (h : f <$> x = .ok y) : ∃ a, x = .ok a ∧ f a = y := by
  cases x with
  | error e => cases h
  | ok a => exact ⟨a, rfl, by simpa [Functor.map, Except.map] using h⟩

theorem createOperand_notAddr {s : Str} {row : InstrRow} {o : Operand} (h : createOperand s row = .ok o) :
    o.value.isAddress = false := by
  unfold createOperand at h
  split at h
  · -- pseudo
    dsimp only at h
    split at h
    · cases h
    · rename_i v hv0
      have hv : v.isAddress = false := by
        repeat' split at hv0
        all_goals first
          | (obtain ⟨a, _, ha⟩ := map_ok hv0; subst ha; rfl)
          | exact createV_notAddr hv0
          | (cases hv0; rfl)
      repeat' split at h
      all_goals first
        | (cases h; done)
        | (cases h; exact hv)
        | (obtain ⟨a, ha, hf⟩ := map_ok h; subst hf; exact numericOfInt_notAddr ha)
  · split at h
    · cases h; rfl
    · split at h
      · obtain ⟨a, ha, hf⟩ := map_ok h; subst hf; exact createV_notAddr ha
      · split at h
        · cases h; rfl
        · dsimp only at h
          split at h
          · rename_i heq
            cases h
            repeat' split at heq
            all_goals first
              | (cases heq; done)
              | (cases heq; exact createV_notAddr ‹_›)
          · repeat' split at h
            all_goals first
              | (cases h; done)
              | (cases h; rfl)
              | (cases h; exact createV_notAddr ‹_›)

/-- the operand of a parsed statement comes out of `createOperand` -/
theorem parseLine_operand {l : Str} {s : Stmt} (h : parseLine l = .ok (some s)) :
    ∃ txt, createOperand txt s.row = .ok s.operand := by
  unfold parseLine at h
  split at h
  · cases h
  · cases h
  · cases h
  · dsimp only at h
    split at h
    · cases h
    · split at h
      · split at h
        · cases h
        · split at h
          · rename_i hco
            simp only [Outcome.ok.injEq, Option.some.injEq] at h
            subst h
            exact ⟨_, hco⟩
          · cases h
      · split at h
        · rename_i hco
          simp only [Outcome.ok.injEq, Option.some.injEq] at h
          subst h
          exact ⟨_, hco⟩
        · cases h

theorem parseLine_notAddr {l : Str} {s : Stmt} (h : parseLine l = .ok (some s)) :
    s.operand.value.isAddress = false := by
  obtain ⟨txt, ht⟩ := parseLine_operand h
  exact createOperand_notAddr ht

/-- a property of every parsed statement holds for every statement of a parsed list -/
theorem parseLines_forall {P : Stmt → Prop} (hP : ∀ l s, parseLine l = .ok (some s) → P s) :
    ∀ (ls : List Str) (r : List Stmt), parseLines ls = .ok r → ∀ s ∈ r, P s := by
  intro ls
  induction ls with
  | nil => intro r h s hs; simp [parseLines] at h; subst h; simp at hs
  | cons l rest ih =>
    intro r h s hs
    rw [parseLines_cons] at h
    obtain ⟨a, b, ha, hb, rfl⟩ := oapp_eq_ok h
    rcases List.mem_append.mp hs with hs | hs
    · cases hl : parseLine l with
      | ok x =>
        rw [hl] at ha
        cases x with
        | none => simp at ha; subst ha; simp at hs
        | some s0 => simp at ha; subst ha; simp at hs; subst hs; exact hP l _ hl
      | _ => rw [hl] at ha; cases ha
    · exact ih b hb s hs

/-- ... and for every statement of the INCLUDE expansion -/
theorem expand_forall {P : Stmt → Prop} (hP : ∀ l s, parseLine l = .ok (some s) → P s) (fs : Files) :
    ∀ (n : Nat) (inc : List Str) (ss r : List Stmt), (∀ s ∈ ss, P s) → expand fs n inc ss = .ok r →
      ∀ s ∈ r, P s := by
  intro n
  induction n with
  | zero => intro inc ss r _ h; rw [expand_zero] at h; cases h
  | succ n ih =>
    intro inc ss
    induction ss with
    | nil => intro r _ h s hs; rw [expand_succ, go_nil] at h; cases h; simp at hs
    | cons x rest ihr =>
      intro r hss h s hs
      rw [expand_succ, go_cons] at h
      obtain ⟨a, b, ha, hb, rfl⟩ := oapp_eq_ok h
      rcases List.mem_append.mp hs with hs | hs
      · rcases expandOne_cases fs n inc x with ⟨_, h0⟩ | ⟨_, _, h0⟩ | ⟨_, _, lines, p, _, hp, h0⟩ <;>
          rw [h0] at ha
        · cases ha
          simp at hs; subst hs
          exact hss s (by simp)
        · cases ha
        · exact ih _ p a (parseLines_forall hP lines p hp) ha s hs
      · exact ihr b (fun y hy => hss y (by simp [hy])) (by rw [expand_succ]; exact hb) s hs

theorem front_forall {P : Stmt → Prop} (hP : ∀ l s, parseLine l = .ok (some s) → P s) {fs : Files}
    {ls : List Str} {r : List Stmt} (h : front fs ls = .ok r) : ∀ s ∈ r, P s := by
  unfold front at h
  cases hp : parseLines ls with
  | ok p => rw [hp] at h; exact expand_forall hP fs (includeFuel fs) [] p r (parseLines_forall hP ls p hp) h
  | _ => rw [hp] at h; cases h

/-! ### where branch target indices come from -/

/-- every address entry of the table points below `n` -/
def TableBelow (n : Nat) (t : SymTab) : Prop := ∀ kv ∈ t, ∀ i m, kv.2 = Value.address i m → i < n

theorem buildSymTab_below (n : Nat) : ∀ (a : List Stmt) (i0 : Nat) (t0 t : SymTab),
    buildSymTab a i0 t0 = some t → (∀ s ∈ a, s.operand.value.isAddress = false) →
    TableBelow n t0 → i0 + a.length ≤ n → TableBelow n t := by
  intro a
  induction a with
  | nil => intro i0 t0 t h _ h0 _; simp [buildSymTab] at h; subst h; exact h0
  | cons s rest ih =>
    intro i0 t0 t h hna h0 hlen
    rw [buildSymTab] at h
    simp only [List.length_cons] at hlen
    have hna' : ∀ x ∈ rest, x.operand.value.isAddress = false := fun x hx => hna x (by simp [hx])
    split at h
    · exact ih _ _ _ h hna' h0 (by omega)
    · split at h
      · cases h
      · refine ih _ _ _ h hna' ?_ (by omega)
        intro kv hkv i m hv
        rcases List.mem_append.mp hkv with hkv | hkv
        · exact h0 kv hkv i m hv
        · simp only [List.mem_singleton] at hkv
          subst hkv
          dsimp only at hv
          split at hv
          · have := hna s (by simp)
            rw [hv] at this; cases this
          · cases hv; omega

theorem SymTab.get?_mem {t : SymTab} {k : Str} {v : Value} (h : t.get? k = some v) : ∃ kv ∈ t, kv.2 = v := by
  unfold SymTab.get? at h
  cases hf : t.find? (·.1 == k) with
  | none => rw [hf] at h; cases h
  | some kv =>
    rw [hf] at h
    exact ⟨kv, List.mem_of_find?_eq_some hf, by simpa using h⟩

theorem resolveExprCore_notAddr {l r : Value} {op : Char} {mode : Mode} {x : Value}
    (h : resolveExprCore l r op mode = .ok x) : x.isAddress = false := by
  unfold resolveExprCore at h
  dsimp only at h
  repeat' split at h
  all_goals first
    | (cases h; done)
    | (cases h; rfl)
    | (simp only [Except.ok.injEq] at h; subst h; exact numericOfStr_notAddr ‹_›)

theorem symPost_address {s : Value} {i : Nat} {m : Mode} (h : symPost s = .ok (.address i m)) :
    ∃ m', s = .address i m' := by
  cases s with
  | address j mj =>
    simp only [symPost, Value.isAddress, if_true, Except.ok.injEq, Value.address.injEq] at h
    exact ⟨mj, by rw [h.1]⟩
  | numeric a b c d =>
    simp only [symPost, Value.isAddress, Value.isNumeric, if_true, Bool.false_eq_true, if_false] at h
    have := numericOfInt_notAddr h
    cases this
  | _ => simp [symPost, Value.isAddress, Value.isNumeric] at h

/-- what `resolve` makes of an expression is not a plain address -/
theorem resolveF_expr_notAddr {n : Nat} {t : SymTab} {l r : Value} {op : Char} {mode : Mode} {ae : Bool} {x : Value}
    (h : resolveF n (.expr l r op mode ae) t = .ok x) : x.isAddress = false := by
  cases n with
  | zero => cases h
  | succ n =>
    rw [resolveF_expr] at h
    cases hl : lookF n t l with
    | error e => rw [hl] at h; cases h
    | ok l' =>
      cases hr : lookF n t r with
      | error e => rw [hl, hr] at h; cases h
      | ok r' => rw [hl, hr] at h; exact resolveExprCore_notAddr h

/-- `get_symbol` gives an address only for an entry that is that address -/
theorem getSymF_address {n : Nat} {t : SymTab} {name : Str} {i : Nat} {m : Mode}
    (h : getSymF n t name = .ok (.address i m)) : t.get? name = some (.address i m) := by
  unfold getSymF at h
  cases hg : t.get? name with
  | none => rw [hg] at h; cases h
  | some e =>
    rw [hg] at h
    dsimp only at h
    split at h
    · rename_i he
      cases e with
      | expr l r op mode ae => have := resolveF_expr_notAddr h; cases this
      | _ => cases he
    · cases h; rfl

theorem resolveF_address {n : Nat} {t : SymTab} {v : Value} {i : Nat} {m : Mode}
    (h : resolveF n v t = .ok (.address i m)) (hv : v.isAddress = false) :
    ∃ k m', t.get? k = some (.address i m') := by
  cases n with
  | zero => cases h
  | succ n =>
    cases v with
    | symbol name md =>
      rw [resolveF_symbol] at h
      cases hs : getSymF n t name with
      | error e => rw [hs] at h; cases h
      | ok s =>
        rw [hs] at h
        obtain ⟨m', rfl⟩ := symPost_address h
        exact ⟨name, m', getSymF_address hs⟩
    | expr l r op mode ae => have := resolveF_expr_notAddr h; cases this
    | address j mj => cases hv
    | _ => cases h

/-- an address that comes out of `resolve` was looked up in the table -/
theorem resolve_address {t : SymTab} {v : Value} {i : Nat} {m : Mode}
    (h : v.resolve t = .ok (.address i m)) (hv : v.isAddress = false) :
    ∃ k m', t.get? k = some (.address i m') :=
  resolveF_address h hv

theorem resolveOperand_relative {o o' : Operand} {row : InstrRow} {t : SymTab}
    (h : resolveOperand o row t = .ok o') (hk : o'.kind = .relative) :
    o.kind = .relative ∧ o.value.resolve t = .ok o'.value := by
  unfold resolveOperand at h
  cases hko : o.kind <;> simp only [hko] at h
  case relative =>
    refine ⟨rfl, ?_⟩
    cases hr : o.value.resolve t with
    | error e => rw [hr] at h; cases h
    | ok v =>
      rw [hr] at h
      simp at h
      subst h; rfl
  case special => cases h; rw [hko] at hk; cases hk
  all_goals
    exfalso
    repeat' split at h
    all_goals first
      | (cases h; done)
      | (cases h; simp_all; done)
      | (obtain ⟨a, _, hf⟩ := map_ok h; subst hf; simp_all; done)


theorem translateOperand_relative {o : Operand} {row : InstrRow} {p : Pkg}
    (h : translateOperand o row = .ok p) (hk : o.kind = .relative) :
    p.additional = o.value ∧ o.value.isAddress = true := by
  unfold translateOperand at h
  simp only [hk] at h
  cases hop : opVal row.rel with
  | error e => rw [hop] at h; cases h
  | ok op =>
    rw [hop] at h
    simp only [bind, Except.bind] at h
    split at h
    · cases h
    · split at h
      · cases h
      · rename_i hna
        cases h
        exact ⟨rfl, by simpa using hna⟩

theorem resolveAll_mem {t : SymTab} : ∀ {a r : List Stmt}, resolveAll t a = some r → ∀ s' ∈ r,
    ∃ s ∈ a, ∃ o, resolveOperand s.operand s.row t = .ok o ∧ s' = { s with operand := o } := by
  intro a
  induction a with
  | nil => intro r h s' hs; simp [resolveAll] at h; subst h; simp at hs
  | cons s rest ih =>
    intro r h s' hs
    rw [resolveAll] at h
    cases hr : resolveOperand s.operand s.row t with
    | error e => rw [hr] at h; cases h
    | ok o =>
      rw [hr] at h
      dsimp only at h
      cases hr2 : resolveAll t rest with
      | none => rw [hr2] at h; cases h
      | some r2 =>
        rw [hr2] at h
        simp at h; subst h
        rcases List.mem_cons.mp hs with hs | hs
        · exact ⟨s, by simp, o, hr, hs⟩
        · obtain ⟨x, hx, o', h1, h2⟩ := ih hr2 s' hs
          exact ⟨x, by simp [hx], o', h1, h2⟩

theorem translateAll_mem : ∀ {a r : List Stmt}, translateAll a = some r → ∀ s' ∈ r,
    ∃ s ∈ a, ∃ p, translateOperand s.operand s.row = .ok p ∧ s'.operand = s.operand ∧ s'.pkg = p := by
  intro a
  induction a with
  | nil => intro r h s' hs; simp [translateAll] at h; subst h; simp at hs
  | cons s rest ih =>
    intro r h s' hs
    rw [translateAll] at h
    cases hr : translateOperand s.operand s.row with
    | error e => rw [hr] at h; cases h
    | ok p =>
      rw [hr] at h
      dsimp only at h
      cases hr2 : translateAll rest with
      | none => rw [hr2] at h; cases h
      | some r2 =>
        rw [hr2] at h
        simp at h; subst h
        rcases List.mem_cons.mp hs with hs | hs
        · exact ⟨s, by simp, p, hr, by rw [hs], by rw [hs]⟩
        · obtain ⟨x, hx, p', h1, h2⟩ := ih hr2 s' hs
          exact ⟨x, by simp [hx], p', h1, h2⟩

theorem assignAddrs_mem : ∀ {a : List Stmt} {k : Nat} {r : List Stmt}, assignAddrs a k = .ok r → ∀ s' ∈ r,
    ∃ s ∈ a, s'.operand = s.operand ∧ s'.pkg.additional = s.pkg.additional := by
  intro a
  induction a with
  | nil => intro k r h s' hs; simp [assignAddrs] at h; subst h; simp at hs
  | cons s rest ih =>
    intro k r h s' hs
    rw [assignAddrs] at h
    split at h
    · cases hv : numV k with
      | error e => rw [hv] at h; cases h
      | ok v =>
        rw [hv] at h
        dsimp only at h
        cases hr : assignAddrs rest (k + s.pkg.size) with
        | ok r2 =>
          rw [hr] at h
          simp only [Outcome.ok.injEq] at h
          subst h
          rcases List.mem_cons.mp hs with hs | hs
          · exact ⟨s, by simp, by rw [hs], by rw [hs]⟩
          · obtain ⟨x, hx, h1⟩ := ih hr s' hs
            exact ⟨x, by simp [hx], h1⟩
        | _ => rw [hr] at h; cases h
    · cases hv : s.pkg.address.int? with
      | none => rw [hv] at h; cases h
      | some a' =>
        rw [hv] at h
        dsimp only at h
        cases hr : assignAddrs rest (a' + s.pkg.size) with
        | ok r2 =>
          rw [hr] at h
          simp only [Outcome.ok.injEq] at h
          subst h
          rcases List.mem_cons.mp hs with hs | hs
          · exact ⟨s, by simp, by rw [hs], by rw [hs]⟩
          · obtain ⟨x, hx, h1⟩ := ih hr s' hs
            exact ⟨x, by simp [hx], h1⟩
        | _ => rw [hr] at h; cases h

/-- in a program whose parsed operand values are not addresses (true of every parsed program) and
that has no PCR-sized statement, every relative branch aims inside the program -/
theorem layout_branchInside {a : List Stmt} {t : SymTab} {la : List Stmt}
    (h : layout a = .ok (t, la)) (hn : NoPcr a) (hna : ∀ s ∈ a, s.operand.value.isAddress = false) :
    BranchInside a.length la := by
  obtain ⟨a1, a2, a3, h0, h1, h2, h3, h4⟩ := layout_ok h
  rw [pcrLoop_allFixed (hn _ _ _ h0 h1 h2)] at h3
  cases h3
  have htab : TableBelow a.length t :=
    buildSymTab_below a.length a 0 [] t h0 hna (fun kv hkv => by simp at hkv) (by simp)
  intro s4 hs4 hk b hb
  obtain ⟨s2, hs2, e1, e2⟩ := assignAddrs_mem h4 s4 hs4
  obtain ⟨s1, hs1, p, hp, e3, e4⟩ := translateAll_mem h2 s2 hs2
  obtain ⟨s0, hs0, o, ho, e5⟩ := resolveAll_mem h1 s1 hs1
  have hk1 : s1.operand.kind = .relative := by rw [← e3, ← e1]; exact hk
  obtain ⟨hadd, haddr⟩ := translateOperand_relative hp hk1
  rw [e2, e4, hadd] at hb
  have ho' : s1.operand = o := by rw [e5]
  rw [ho'] at hk1 hb haddr
  obtain ⟨_, hres⟩ := resolveOperand_relative ho hk1
  cases hv : o.value with
  | address i m =>
    rw [hv] at hb hres
    simp [Value.int?] at hb
    subst hb
    obtain ⟨k, m', hg⟩ := resolve_address hres (hna s0 hs0)
    obtain ⟨kv, hkv, hkv2⟩ := SymTab.get?_mem hg
    exact Nat.le_of_lt (htab kv hkv _ _ hkv2)
  | _ => rw [hv] at haddr; cases haddr

/-! ### prefix stability of `back` and `assemble` (no PCR-sized statements) -/

theorem back_ok {ss0 : List Stmt} {A : Assembly} (h : back ss0 = .ok A) :
    ∃ t ss4, layout ss0 = .ok (t, ss4) ∧ finish t ss4 = .ok A := by
  rw [back_eq] at h
  cases hl : layout ss0 with
  | ok x => obtain ⟨t, ss4⟩ := x; rw [hl] at h; exact ⟨t, ss4, rfl, h⟩
  | _ => rw [hl] at h; cases h

theorem back_prefix {a b : List Stmt} {A B : Assembly} (hA : back a = .ok A) (hB : back (a ++ b) = .ok B)
    (hn : NoPcr (a ++ b)) (hna : ∀ s ∈ a, s.operand.value.isAddress = false) :
    (∃ r, B.stmts = A.stmts ++ r) ∧ (∃ d, B.symtab = A.symtab ++ d) := by
  obtain ⟨t1, la, hla, hfa⟩ := back_ok hA
  obtain ⟨t2, lab, hlab, hfb⟩ := back_ok hB
  obtain ⟨⟨d, hd⟩, _, ⟨lb, hlb⟩, hlen, hna'⟩ := layout_prefix hla hlab hn
  subst hd hlb
  exact finish_prefix hfa hfb (hlen ▸ layout_branchInside hla hna' hna)

theorem assemble_ok {fs : Files} {ls : List Str} {A : Assembly} (h : assemble fs ls = .ok A) :
    ∃ r, front fs ls = .ok r ∧ back r = .ok A := by
  rw [assemble_eq] at h
  cases hf : front fs ls with
  | ok r => rw [hf] at h; exact ⟨r, rfl, h⟩
  | _ => rw [hf] at h; cases h

theorem assemble_prefix {fs : Files} {ls ext : List Str} {A B : Assembly}
    (hA : assemble fs ls = .ok A) (hB : assemble fs (ls ++ ext) = .ok B)
    (hn : ∀ r, front fs (ls ++ ext) = .ok r → NoPcr r) :
    (∃ r, B.stmts = A.stmts ++ r) ∧ (∃ d, B.symtab = A.symtab ++ d) ∧
    (∀ ib, B.image = some ib → ∃ ia rest, A.image = some ia ∧ ib = ia ++ rest) := by
  obtain ⟨ra, hfa, hba⟩ := assemble_ok hA
  obtain ⟨rab, hfab, hbab⟩ := assemble_ok hB
  obtain ⟨ra', rx, h1, _, h3⟩ := front_append_ok hfab
  rw [hfa] at h1
  cases h1
  subst h3
  have hna := front_forall (P := fun s => s.operand.value.isAddress = false)
    (fun l s h => parseLine_notAddr h) hfa
  obtain ⟨⟨r, hr⟩, hd⟩ := back_prefix hba hbab (hn _ hfab) hna
  exact ⟨⟨r, hr⟩, hd, fun ib hib => image_prefix hr hib⟩

/-- a program without INCLUDE statements expands to itself -/
theorem front_plain {fs : Files} {ls : List Str} {p : List Stmt} (hp : parseLines ls = .ok p)
    (hpl : ∀ s ∈ p, s.row.isInclude = false) : front fs ls = .ok p := by
  unfold front; rw [hp]; exact expand_plain fs fs.length [] p hpl

end CoCo.Asm
