/-
Lemmas/RelocOne.lean — relocation (C18-R1), part 3: `fixOne` by statement class, and the frame lemmas
(`fixOne` never reads the statement's own `pkg.address`).
-/
import CoCoVerif.Lemmas.RelocFix

namespace CoCo.Asm
open CoCo

section classes
variable {D : Nat} {as as' : List Stmt}

/-- (b1) relative branches: the displacement is computed from sizes only — IDENTICAL outcome -/
theorem fixOne_reloc_relative (h : PW (AddrShiftI D) as as') (i : Nat) (s : Stmt)
    (hk : s.operand.kind = .relative) : fixOne as' i s = fixOne as i s := by
  rw [fixOne_eq, fixOne_eq, if_pos (by simp [hk]), if_pos (by simp [hk]), fixBranch_reloc h]

/-- a statement without a label in its operand and without a PCR operand is not touched at all -/
theorem fixOne_inert (ss : List Stmt) (i : Nat) (s : Stmt) (hk : (s.operand.kind == .relative) = false)
    (hv : s.operand.value ≠ .pyNone) (hE : s.operand.value.isAddrExpr = false)
    (hA : s.operand.value.isAddress = false) (hn : s.pkg.needsRes = false) : fixOne ss i s = .ok s := by
  rw [fixOne_nonrel_eq ss i s hk hv, fixNonRel_plain ss i s hE hA, fixPart3_noRes ss i hn]

/-- (b2) no label, no PCR: IDENTICAL outcome (for any two statement lists) -/
theorem fixOne_reloc_inert (ss ss' : List Stmt) (i : Nat) (s : Stmt) (hk : (s.operand.kind == .relative) = false)
    (hE : s.operand.value.isAddrExpr = false) (hA : s.operand.value.isAddress = false)
    (hn : s.pkg.needsRes = false) : fixOne ss' i s = fixOne ss i s := by
  by_cases hv : s.operand.value = .pyNone
  · rw [fixOne_pyNone _ _ _ hk hv, fixOne_pyNone _ _ _ hk hv]
  · rw [fixOne_inert _ _ _ hk hv hE hA hn, fixOne_inert _ _ _ hk hv hE hA hn]

/-- (b3) PCR operands (`needsRes` with post byte choices): whenever the target moves by `D`, the stored displacement
is IDENTICAL -/
theorem fixOne_reloc_pcr (h : PW (AddrShiftI D) as as') (i : Nat) (s : Stmt)
    (hk : (s.operand.kind == .relative) = false)
    (hE : s.operand.value.isAddrExpr = false) (hA : s.operand.value.isAddress = false)
    (hc : s.pkg.choices.isEmpty = false)
    (ht : fixRelTarget as' s = (fixRelTarget as s).map (· + D)) : fixOne as' i s = fixOne as i s := by
  by_cases hv : s.operand.value = .pyNone
  · rw [fixOne_pyNone _ _ _ hk hv, fixOne_pyNone _ _ _ hk hv]
  · rw [fixOne_nonrel_eq _ _ _ hk hv, fixOne_nonrel_eq _ _ _ hk hv, fixNonRel_plain _ _ _ hE hA,
      fixNonRel_plain _ _ _ hE hA, fixPart3_reloc_of_target h i s hc ht]

/-- (b3, target moved modulo `$10000`) the stored displacement is still IDENTICAL -/
theorem fixOne_reloc_pcr_mod (h : PW (AddrShiftI D) as as') (i : Nat) (s : Stmt)
    (hk : (s.operand.kind == .relative) = false)
    (hE : s.operand.value.isAddrExpr = false) (hA : s.operand.value.isAddress = false)
    (hc : s.pkg.choices.isEmpty = false)
    (ht : fixRelTarget as' s = (fixRelTarget as s).map (fun x => (x + D) % 65536)) :
    fixOne as' i s = fixOne as i s := by
  by_cases hv : s.operand.value = .pyNone
  · rw [fixOne_pyNone _ _ _ hk hv, fixOne_pyNone _ _ _ hk hv]
  · rw [fixOne_nonrel_eq _ _ _ hk hv, fixOne_nonrel_eq _ _ _ hk hv, fixNonRel_plain _ _ _ hE hA,
      fixNonRel_plain _ _ _ hE hA, fixPart3_reloc_of_target_mod h i s hc ht]

/-- (b3, plain target) `label,PCR` -/
theorem fixOne_reloc_pcr_plain (h : PW (AddrShiftI D) as as') (i : Nat) (s : Stmt)
    (hk : (s.operand.kind == .relative) = false)
    (hE : s.operand.value.isAddrExpr = false) (hA : s.operand.value.isAddress = false)
    (hc : s.pkg.choices.isEmpty = false)
    (hp : s.isIdx = false ∨ s.pkg.additional.isAddrExpr = false) : fixOne as' i s = fixOne as i s :=
  fixOne_reloc_pcr h i s hk hE hA hc (fixRelTarget_reloc_plain h s hp)

/-- (b3, expression target) `label+k,PCR` / `label-k,PCR` -/
theorem fixOne_reloc_pcr_num (h : PW (AddrShiftI D) as as') (i : Nat) (s : Stmt)
    (hk : (s.operand.kind == .relative) = false)
    (hE : s.operand.value.isAddrExpr = false) (hA : s.operand.value.isAddress = false)
    (hc : s.pkg.choices.isEmpty = false)
    {l r : Value} {op : Char} {m : Mode} {k : Nat} {hh : Option Nat} {mm : Mode} {nn : Bool}
    (hidx : s.isIdx = true) (he : s.pkg.additional = .expr l r op m true)
    (hother : (if l.isAddress then r else l) = .numeric k hh mm nn) (hop : op = '+' ∨ op = '-')
    (hside : LabelSide l r op)
    (hb : ∀ v, addrOffset as (.expr l r op m true) = .ok v →
      ∃ z, v = .numeric z (some 4) .extended false ∧ z + D ≤ 65535) : fixOne as' i s = fixOne as i s :=
  fixOne_reloc_pcr h i s hk hE hA hc (fixRelTarget_reloc_num h s hidx he hother hop hside hb)

/-- (b3', repair batch B3) what `fixOne` does to a statement with a label as constant offset of a pointer register
(`LDA TABLE,X`: no label in the operand VALUE, `needsRes`, no post byte choices): the target address becomes the
16-bit offset -/
theorem fixOne_abs_eq (ss : List Stmt) (i : Nat) (s : Stmt) (hk : (s.operand.kind == .relative) = false)
    (hv : s.operand.value ≠ .pyNone)
    (hE : s.operand.value.isAddrExpr = false) (hA : s.operand.value.isAddress = false)
    (hn : s.pkg.needsRes = true) (hc : s.pkg.choices.isEmpty = true) : fixOne ss i s = fixPartAbs ss s := by
  rw [fixOne_nonrel_eq _ _ _ hk hv, fixNonRel_plain _ _ _ hE hA, fixPart3_abs _ _ hn hc]

/-- (b3') absolute offset: whenever the target moves by `D` (and stays inside the 64K space), the stored 16-bit
offset moves by `D` -/
theorem fixOne_reloc_abs (i : Nat) (s : Stmt)
    (hk : (s.operand.kind == .relative) = false)
    (hE : s.operand.value.isAddrExpr = false) (hA : s.operand.value.isAddress = false)
    (hn : s.pkg.needsRes = true) (hc : s.pkg.choices.isEmpty = true)
    (ht : fixRelTarget as' s = (fixRelTarget as s).map (· + D))
    (hb : ∀ r, fixRelTarget as s = .ok r → r + D ≤ 65535) :
    fixOne as' i s = (fixOne as i s).map (Stmt.shiftAdditional D) := by
  by_cases hv : s.operand.value = .pyNone
  · rw [fixOne_pyNone _ _ _ hk hv, fixOne_pyNone _ _ _ hk hv]; rfl
  · rw [fixOne_abs_eq _ _ _ hk hv hE hA hn hc, fixOne_abs_eq _ _ _ hk hv hE hA hn hc,
      fixPartAbs_reloc_of_target s ht hb]

/-- what `fixOne` does to a statement whose operand is a plain label (no PCR) -/
theorem fixOne_address_eq (ss : List Stmt) (i : Nat) (s : Stmt) {t : Nat} {m : Mode}
    (hk : (s.operand.kind == .relative) = false) (hv : s.operand.value = .address t m)
    (hn : s.pkg.needsRes = false) :
    fixOne ss i s = (match addrOf ss t with
                     | some a => .ok { s with pkg := { s.pkg with additional := a } }
                     | none => .internal) := by
  rw [fixOne_nonrel_eq ss i s hk (by rw [hv]; intro hc; cases hc), hv,
    fixNonRel_address ss i s (show (Value.address t m).isAddress = true from rfl) hn]
  rfl

/-- (b4) absolute reference to a label: the stored VALUE is the target's address value, moved by `D` -/
theorem fixOne_reloc_address (h : PW (AddrShift D) as as') (i : Nat) (s : Stmt) {t : Nat} {m : Mode}
    (hk : (s.operand.kind == .relative) = false) (hv : s.operand.value = .address t m)
    (hn : s.pkg.needsRes = false) : fixOne as' i s = (fixOne as i s).map (Stmt.shiftAdditional D) := by
  rw [fixOne_address_eq _ _ _ hk hv hn, fixOne_address_eq _ _ _ hk hv hn, addrOf_reloc h]
  cases addrOf as t <;> rfl

/-- what `fixOne` does to a statement whose operand is a label expression (no PCR) -/
theorem fixOne_expr_eq (ss : List Stmt) (i : Nat) (s : Stmt) {l r : Value} {op : Char} {m : Mode}
    (hk : (s.operand.kind == .relative) = false) (hv : s.operand.value = .expr l r op m true)
    (hn : s.pkg.needsRes = false) :
    fixOne ss i s = (match addrOffset ss (.expr l r op m true) with
                     | .ok v => .ok { s with pkg := { s.pkg with additional := v } }
                     | .diag => .diag | .internal => .internal | .diverged => .diverged) := by
  rw [fixOne_nonrel_eq ss i s hk (by rw [hv]; intro hc; cases hc), hv, fixNonRel_expr ss i s l r op m hn]
  rfl

/-- (b5) `label + k` / `label - k`: the stored value moves by `D` -/
theorem fixOne_reloc_expr_num (h : PW (AddrShiftI D) as as') (i : Nat) (s : Stmt)
    {l r : Value} {op : Char} {m : Mode} {k : Nat} {hh : Option Nat} {mm : Mode} {nn : Bool}
    (hk : (s.operand.kind == .relative) = false) (hv : s.operand.value = .expr l r op m true)
    (hn : s.pkg.needsRes = false)
    (hother : (if l.isAddress then r else l) = .numeric k hh mm nn) (hop : op = '+' ∨ op = '-')
    (hside : LabelSide l r op)
    (hb : ∀ v, addrOffset as (.expr l r op m true) = .ok v →
      ∃ z, v = .numeric z (some 4) .extended false ∧ z + D ≤ 65535) :
    fixOne as' i s = (fixOne as i s).map (Stmt.shiftAdditional D) := by
  rw [fixOne_expr_eq _ _ _ hk hv hn, fixOne_expr_eq _ _ _ hk hv hn,
    addrOffset_reloc_num h l r op m true hother hop hside hb]
  cases addrOffset as (.expr l r op m true) <;> rfl

/-- move the `additional` field by `D` modulo `$10000` -/
def Stmt.shiftAdditionalMod (D : Nat) (s : Stmt) : Stmt :=
  { s with pkg := { s.pkg with additional := shiftVmod D s.pkg.additional } }

/-- (b5') `label ± k` that the MOVED layout accepts: the stored value moves by `D` modulo `$10000` -/
theorem fixOne_reloc_expr_mod (h : PW (AddrShiftI D) as as') (i : Nat) (s : Stmt)
    {l r : Value} {op : Char} {m : Mode} {k : Nat} {hh : Option Nat} {mm : Mode} {nn : Bool}
    (hk : (s.operand.kind == .relative) = false) (hv : s.operand.value = .expr l r op m true)
    (hn : s.pkg.needsRes = false)
    (hother : (if l.isAddress then r else l) = .numeric k hh mm nn) (hop : op = '+' ∨ op = '-')
    (hside : LabelSide l r op)
    (hacc : ∀ a, addrOperand as (if l.isAddress then l else r) = .ok a →
      (if op = '+' then a + signedK k nn else a - signedK k nn) + D ≤ 65535) :
    fixOne as' i s = (fixOne as i s).map (Stmt.shiftAdditionalMod D) := by
  rw [fixOne_expr_eq _ _ _ hk hv hn, fixOne_expr_eq _ _ _ hk hv hn,
    addrOffset_reloc_mod h l r op m true hother hop hside hacc]
  cases addrOffset as (.expr l r op m true) <;> rfl

/-- (b6) `label - label`: IDENTICAL -/
theorem fixOne_reloc_expr_diff (h : PW (AddrShiftI D) as as') (i : Nat) (s : Stmt)
    {l r : Value} {m : Mode}
    (hk : (s.operand.kind == .relative) = false) (hv : s.operand.value = .expr l r '-' m true)
    (hn : s.pkg.needsRes = false) (hother : (if l.isAddress then r else l).isAddress = true) :
    fixOne as' i s = fixOne as i s := by
  rw [fixOne_expr_eq _ _ _ hk hv hn, fixOne_expr_eq _ _ _ hk hv hn, addrOffset_reloc_diff h l r m true hother]

end classes

/-! ### frame: `fixOne` does not read the statement's own address -/

@[simp] theorem setAddress_row (s : Stmt) (v : Value) : (s.setAddress v).row = s.row := by cases s; rfl
@[simp] theorem setAddress_operand (s : Stmt) (v : Value) : (s.setAddress v).operand = s.operand := by cases s; rfl
@[simp] theorem setAddress_pcrHint (s : Stmt) (v : Value) : (s.setAddress v).pcrHint = s.pcrHint := by cases s; rfl
@[simp] theorem setAddress_additional (s : Stmt) (v : Value) : (s.setAddress v).pkg.additional = s.pkg.additional := by cases s; rfl
@[simp] theorem setAddress_size (s : Stmt) (v : Value) : (s.setAddress v).pkg.size = s.pkg.size := by cases s; rfl
@[simp] theorem setAddress_needsRes (s : Stmt) (v : Value) : (s.setAddress v).pkg.needsRes = s.pkg.needsRes := by cases s; rfl
@[simp] theorem setAddress_choices (s : Stmt) (v : Value) : (s.setAddress v).pkg.choices = s.pkg.choices := by cases s; rfl
@[simp] theorem setAddress_address (s : Stmt) (v : Value) : (s.setAddress v).pkg.address = v := by cases s; rfl

theorem fixBranch_setAddress (ss : List Stmt) (i : Nat) (s : Stmt) (v : Value) :
    fixBranch ss i (s.setAddress v) = (fixBranch ss i s).map (·.setAddress v) := by
  unfold fixBranch
  simp only [setAddress_row, setAddress_additional]
  cases s.pkg.additional.int? with
  | none => rfl
  | some b =>
    dsimp only
    split
    · split
      · rfl
      · generalize numericOfInt _ _ _ = x
        cases x <;> rfl
    · split
      · rfl
      · generalize numericOfInt _ _ _ = x
        cases x <;> rfl

theorem fixPart1_setAddress (ss : List Stmt) (s : Stmt) (ov v : Value) :
    fixPart1 ss (s.setAddress v) ov = (fixPart1 ss s ov).map (·.setAddress v) := by
  unfold fixPart1
  split
  · cases addrOffset ss ov <;> rfl
  · rfl

theorem fixPart2_setAddress (ss : List Stmt) (s : Stmt) (ov v : Value) :
    fixPart2 ss ov (s.setAddress v) = (fixPart2 ss ov s).map (·.setAddress v) := by
  unfold fixPart2
  split
  · cases ov.int? with
    | none => rfl
    | some t => dsimp only; cases addrOf ss t <;> rfl
  · rfl

theorem fixRelTarget_setAddress (ss : List Stmt) (s : Stmt) (v : Value) :
    fixRelTarget ss (s.setAddress v) = fixRelTarget ss s := rfl

theorem fixPartAbs_setAddress (ss : List Stmt) (s : Stmt) (v : Value) :
    fixPartAbs ss (s.setAddress v) = (fixPartAbs ss s).map (·.setAddress v) := by
  unfold fixPartAbs
  rw [fixRelTarget_setAddress]
  cases fixRelTarget ss s with
  | ok r =>
    dsimp only
    generalize numericOfInt _ _ _ = x
    cases x <;> rfl
  | _ => rfl

theorem fixPart3_setAddress (ss : List Stmt) (i : Nat) (s : Stmt) (v : Value) :
    fixPart3 ss i (s.setAddress v) = (fixPart3 ss i s).map (·.setAddress v) := by
  unfold fixPart3
  rw [fixRelTarget_setAddress, fixPartAbs_setAddress]
  simp only [setAddress_needsRes, setAddress_size, setAddress_pcrHint, setAddress_choices]
  split
  · split
    · rfl
    · cases fixRelTarget ss s with
      | ok r =>
        cases addrIntOf ss i with
        | none => rfl
        | some start =>
          dsimp only
          split
          · rfl
          · generalize numericOfInt _ _ _ = x
            cases x <;> rfl
      | diag => rfl
      | internal => cases addrIntOf ss i <;> rfl
      | diverged => cases addrIntOf ss i <;> rfl
  · rfl

theorem fixNonRel_setAddress (ss : List Stmt) (i : Nat) (s : Stmt) (ov v : Value) :
    fixNonRel ss i (s.setAddress v) ov = (fixNonRel ss i s ov).map (·.setAddress v) := by
  unfold fixNonRel
  rw [fixPart1_setAddress]
  cases fixPart1 ss s ov with
  | ok s1 =>
    simp only [Outcome.map_ok]
    rw [fixPart2_setAddress]
    cases fixPart2 ss ov s1 with
    | ok s2 => simp only [Outcome.map_ok]; exact fixPart3_setAddress ss i s2 v
    | _ => rfl
  | _ => rfl

/-- `fixOne` commutes with replacing the statement's own address -/
theorem fixOne_setAddress (ss : List Stmt) (i : Nat) (s : Stmt) (v : Value) :
    fixOne ss i (s.setAddress v) = (fixOne ss i s).map (·.setAddress v) := by
  rw [fixOne_eq, fixOne_eq]
  have e1 : (s.setAddress v).operand = s.operand := rfl
  rw [e1]
  split
  · exact fixBranch_setAddress ss i s v
  · split
    · rfl
    · exact fixNonRel_setAddress ss i s _ v

/-! ### `fitWidth` (the second half of the per-statement step `fixFit`) -/

/-- `fitWidth` does not read the statement's own address either -/
theorem fitWidth_setAddress (s : Stmt) (v : Value) :
    fitWidth (s.setAddress v) = (fitWidth s).map (·.setAddress v) := by
  unfold fitWidth
  have e1 : (s.setAddress v).pkg.opCode = s.pkg.opCode := rfl
  have e2 : (s.setAddress v).pkg.postByte = s.pkg.postByte := rfl
  simp only [setAddress_row, setAddress_additional, setAddress_size, e1, e2]
  split
  · rfl
  · split
    · split
      · split
        · generalize fitNum _ _ _ = x
          cases x <;> rfl
        · rfl
      · rfl
    · rfl

/-- the per-statement step `fixFit` = `fixOne` then `fitWidth` commutes with replacing the statement's own address -/
theorem fixFit_setAddress (ss : List Stmt) (i : Nat) (s : Stmt) (v : Value) :
    fixFit ss i (s.setAddress v) = (fixFit ss i s).map (·.setAddress v) := by
  unfold fixFit
  rw [fixOne_setAddress]
  cases fixOne ss i s with
  | ok s1 => simp only [Outcome.map_ok]; exact fitWidth_setAddress s1 v
  | _ => rfl

/-- the operand field of the statement is 16 bits wide: `fit_operand_width` leaves the statement alone (a
directive other than FCB / FDB), or the size leaves four hex digits after op code and post byte (an extended
or 16-bit immediate operand, `[label]`, FDB).  With a narrower field (`LDA <label`, `FCB label`) the value
`x` may fit where `x + D` does not, and the two assemblies end differently. -/
def FieldWide (s : Stmt) : Prop :=
  fitSkipped s.row = true ∨
  ∃ a b, s.pkg.opCode.hexLen? = some a ∧ s.pkg.postByte.hexLen? = some b ∧ 2 * s.pkg.size = a + b + 4

theorem FieldWide.same {s s' : Stmt} (h : FieldWide s) (hs : SameButAdditional s s') : FieldWide s' := by
  obtain ⟨v, rfl⟩ := hs
  exact h

/-- `fitWidth` on a 16-bit field that holds a wide address value `x` resp. `x + D`: both fit, and the results
are again `D` apart (with hint 4, mode EXTENDED) -/
theorem fitWidth_wide {D : Nat} {t : Stmt} (hf : FieldWide t)
    (hw : WideAddr D t.pkg.additional (shiftV D t.pkg.additional)) :
    ∃ t1, fitWidth t = .ok t1 ∧ fitWidth (t.shiftAdditional D) = .ok (t1.shiftAdditional D) ∧
      WideAddr D t1.pkg.additional (shiftV D t1.pkg.additional) := by
  by_cases hsk : fitSkipped t.row = true
  · refine ⟨t, ?_, ?_, hw⟩
    · unfold fitWidth; unfold fitSkipped at hsk; rw [if_pos hsk]
    · unfold fitWidth; unfold fitSkipped at hsk
      have : (t.shiftAdditional D).row = t.row := rfl
      rw [this, if_pos hsk]
  · rcases hf with hf | ⟨a, b, ha, hb, hsz⟩
    · exact absurd hf hsk
    · obtain ⟨x, h, m, e1, _, _, hlt⟩ := hw
      have hd : 2 * (t.pkg.size : Int) - (a : Int) - (b : Int) = 4 := by omega
      have h16 : (16 : Nat) ^ 4 = 65536 := by decide
      refine ⟨{ t with pkg := { t.pkg with additional := .numeric x (some 4) .extended false } }, ?_, ?_,
        x, some 4, .extended, rfl, rfl, .inl rfl, hlt⟩
      · unfold fitWidth
        unfold fitSkipped at hsk
        rw [if_neg hsk, e1]
        simp only [ha, hb]
        generalize 2 * (t.pkg.size : Int) - (a : Int) - (b : Int) = dg at hd ⊢
        subst hd
        rw [if_pos (.inr rfl), show (4 : Int).toNat = 4 from rfl, fitNum_nat (.inr rfl) (by omega)]
      · unfold fitWidth
        unfold fitSkipped at hsk
        have r1 : (t.shiftAdditional D).row = t.row := rfl
        have r2 : (t.shiftAdditional D).pkg.additional = .numeric (x + D) h m false := by
          show shiftV D t.pkg.additional = _
          rw [e1]; rfl
        have r3 : (t.shiftAdditional D).pkg.opCode = t.pkg.opCode := rfl
        have r4 : (t.shiftAdditional D).pkg.postByte = t.pkg.postByte := rfl
        have r5 : (t.shiftAdditional D).pkg.size = t.pkg.size := rfl
        rw [r1, if_neg hsk, r2]
        simp only [r3, r4, r5, ha, hb]
        generalize 2 * (t.pkg.size : Int) - (a : Int) - (b : Int) = dg at hd ⊢
        subst hd
        rw [if_pos (.inr rfl), show (4 : Int).toNat = 4 from rfl, fitNum_nat (.inr rfl) (by omega)]
        rfl

end CoCo.Asm
